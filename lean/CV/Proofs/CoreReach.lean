import CV.Model.Core.Step
/-
Reachability for the small-step core machine: every configuration a driver session can
produce.  A session is a sequence of external operations (`do c act`, `tick c`, `flush c`,
`run c`, clock advance, replacing the choice tape), each executed by iterating `step` until the
stack is empty.  Machine-level invariants are stated as
    Init s0 → ∀ c, Reach s0 c → Inv c
and proved by `Reach.rec` with one case analysis of `step` (see CV/Proofs/CoreStep.lean for the
pattern).  All invariant files import THIS file so that they talk about the same runs.
-/
namespace CV.Core

/-- operations the environment (the harness, a user's main program) performs between runs -/
inductive ExtOp
  | doAct (c : Nat) (a : Act)
  | tick (c : Nat)
  | flush (c : Nat)
  | run (c : Nat)
  deriving Repr

def startOf (s : St) : ExtOp → Cfg
  | .doAct c a => startDo s c a
  | .tick c => startTick s c
  | .flush c => startFlush s c
  | .run c => startRun s c

/-- environment changes of the state between operations that are not machine steps:
    the virtual clock moves forward, the choice tape is replaced -/
def envChange (s : St) (d : Nat) (tape : List Entry) : St := { s with clock := s.clock + d, tape := tape }

/-- configurations reachable from the initial state `s0` -/
inductive Reach (s0 : St) : Cfg → Prop
  | init (d : Nat) (tape : List Entry) (op : ExtOp) : Reach s0 (startOf (envChange s0 d tape) op)
  | step {c : Cfg} : Reach s0 c → Reach s0 (CV.Core.step c)
  | next {c : Cfg} (d : Nat) (tape : List Entry) (op : ExtOp) :
      Reach s0 c → done c = true → Reach s0 (startOf (envChange c.st d tape) op)

/-- generic invariant lifting: an invariant of states that survives environment changes, holds
    initially and is preserved by `step` (as a predicate on configurations `P`) holds on every
    reachable configuration -/
theorem Reach.inv {s0 : St} (P : Cfg → Prop)
    (hinit : ∀ d tape op, P (startOf (envChange s0 d tape) op))
    (hstep : ∀ c, P c → P (CV.Core.step c))
    (hnext : ∀ c d tape op, P c → done c = true → P (startOf (envChange c.st d tape) op)) :
    ∀ c, Reach s0 c → P c := by
  intro c h
  induction h with
  | init d tape op => exact hinit d tape op
  | step _ ih => exact hstep _ ih
  | next d tape op _ hd ih => exact hnext _ d tape op ih hd

/-- runs with fuel are reachable -/
theorem Reach.runN {s0 : St} {c : Cfg} (h : Reach s0 c) : ∀ n, Reach s0 (runN n c) := by
  intro n
  induction n generalizing c with
  | zero => simpa [CV.Core.runN] using h
  | succ n ih =>
    unfold CV.Core.runN
    split
    · exact h
    · exact ih (Reach.step h)

end CV.Core

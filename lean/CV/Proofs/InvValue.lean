import CV.Proofs.InvValueBase
/-
C04, machine level, part 2: every helper of Pure.lean / Step.lean and every arm of `step`
respects `VG` (generated from the `St.Le` development of CoreStep.lean; `fireRaw` and
`fireTmplEv` by hand).  Result: `step_vg`.
-/
namespace CV.Core

/-! ## helpers of `Pure.lean` -/

/-- a `foldl` of steps that each respect `Le` respects `Le` -/
theorem VG.foldl {ve : Nat} {s t : St} {α} (g : St → α → St) (hg : ∀ a x, VG ve s a → VG ve s (g a x)) (l : List α)
    (h : VG ve s t) : VG ve s (l.foldl g t) := by
  induction l generalizing t with
  | nil => exact h
  | cons x l ih => exact ih (hg _ _ h)

theorem VG.addHandler {ve : Nat} {s t : St} (h : VG ve s t) (x : Nat) : VG ve s (t.addHandler x) := by
  unfold St.addHandler
  dsimp only
  apply VG.modComp
  split
  · vg
  · split
    · vg
    · exact VG.foldl _ (fun a n ha => ha.modComp _ _) _ h
macro_rules | `(tactic| vg1) => `(tactic| with_reducible apply VG.addHandler)

theorem VG.removeHandler {ve : Nat} {s t : St} (h : VG ve s t) (x : Nat) (n : Option Name) :
    VG ve s ((t.removeHandler x n).2) := by
  vg_unfold St.removeHandler
macro_rules | `(tactic| vg1) => `(tactic| with_reducible apply VG.removeHandler)

theorem VG.fireContext {ve : Nat} {s t : St} (h : VG ve s t) (r e : Nat) :
    VG ve s (t.fireContext r e) := by
  vg_unfold St.fireContext
macro_rules | `(tactic| vg1) => `(tactic| with_reducible apply VG.fireContext)

theorem VG.fireRaw {ve : Nat} {s t : St} (h : VG ve s t) (self e : Nat) (chans : List Chan) (prio : Int) :
    VG ve s (t.fireRaw self e chans prio) := by
  unfold St.fireRaw
  dsimp only
  have h1 : VGx e ve s (t.modEv e fun x => { x with chans := chans, val := {}, mgr := self }) :=
    (h.toX e).reset _ (fun _ => rfl)
  exact ((h1.trans (VG.fireContext (VG.refl _) _ _)).trans (VG.modComp (VG.refl _) _ _)).close _ _ _
macro_rules | `(tactic| vg1) => `(tactic| with_reducible apply VG.fireRaw)

theorem VG.childEv {ve : Nat} {s t : St} (h : VG ve s t) (p sfx : Nat) :
    VG ve s (t.childEv p sfx) := by
  vg_unfold St.childEv
macro_rules | `(tactic| vg1) => `(tactic| with_reducible apply VG.childEv)

theorem VG.fireChild {ve : Nat} {s t : St} (h : VG ve s t) (self p sfx : Nat) (chans : List Chan) :
    VG ve s (t.fireChild self p sfx chans) := by
  vg_unfold St.fireChild
macro_rules | `(tactic| vg1) => `(tactic| with_reducible apply VG.fireChild)

theorem VG.inform {ve : Nat} {s t : St} (h : VG ve s t) (e : Nat) (force : Bool) :
    VG ve s (t.inform e force) := by
  vg_unfold St.inform
macro_rules | `(tactic| vg1) => `(tactic| with_reducible apply VG.inform)

theorem VG.setValue {ve : Nat} {s t : St} (h : VG ve s t) (e : Nat) (x : VItem) :
    VG ve s (t.setValue e x) := by
  vg_unfold St.setValue
macro_rules | `(tactic| vg1) => `(tactic| with_reducible apply VG.setValue)

theorem VG.fireTmplEv {ve : Nat} {s t : St} (h : VG ve s t) (self : Nat) (ev : Ev) (target : Option Chan) (prio : Int) :
    VG ve s (t.fireTmplEv self ev target prio) := by
  unfold St.fireTmplEv
  dsimp only
  rw [St.v4_fireRaw_addEv]
  vg
macro_rules | `(tactic| vg1) => `(tactic| with_reducible apply VG.fireTmplEv)

theorem VG.effectDone1 {ve : Nat} {s t : St} (h : VG ve s t) (r e : Nat) (announce : Bool) :
    VG ve s ((t.effectDone1 r e announce).2) := by
  vg_unfold St.effectDone1
macro_rules | `(tactic| vg1) => `(tactic| with_reducible apply VG.effectDone1)

theorem VG.eventDonePre {ve : Nat} {s t : St} (h : VG ve s t) (r e : Nat) (err : Bool) :
    VG ve s ((t.eventDonePre r e err).2) := by
  vg_unfold St.eventDonePre
macro_rules | `(tactic| vg1) => `(tactic| with_reducible apply VG.eventDonePre)

theorem VG.registerTask {ve : Nat} {s t : St} (h : VG ve s t) (c : Nat) (x : Task) :
    VG ve s (t.registerTask c x) := by
  vg_unfold St.registerTask
macro_rules | `(tactic| vg1) => `(tactic| with_reducible apply VG.registerTask)

theorem VG.unregisterTask {ve : Nat} {s t : St} (h : VG ve s t) (c : Nat) (x : Task) :
    VG ve s (t.unregisterTask c x) := by
  vg_unfold St.unregisterTask
macro_rules | `(tactic| vg1) => `(tactic| with_reducible apply VG.unregisterTask)

theorem VG.reduceTimeLeft {ve : Nat} {s t : St} (h : VG ve s t) (e : Nat) (d : Int) :
    VG ve s (t.reduceTimeLeft e d) := by
  vg_unfold St.reduceTimeLeft
macro_rules | `(tactic| vg1) => `(tactic| with_reducible apply VG.reduceTimeLeft)

theorem VG.registerPre {ve : Nat} {s t : St} (h : VG ve s t) (c p : Nat) :
    VG ve s ((t.registerPre c p).2) := by
  vg_unfold St.registerPre
macro_rules | `(tactic| vg1) => `(tactic| with_reducible apply VG.registerPre)

theorem VG.registerFin {ve : Nat} {s t : St} (h : VG ve s t) (c : Nat) :
    VG ve s (t.registerFin c) := by
  vg_unfold St.registerFin
macro_rules | `(tactic| vg1) => `(tactic| with_reducible apply VG.registerFin)

theorem VG.unregister {ve : Nat} {s t : St} (h : VG ve s t) (c : Nat) :
    VG ve s (t.unregister c) := by
  vg_unfold St.unregister
macro_rules | `(tactic| vg1) => `(tactic| with_reducible apply VG.unregister)

theorem VG.prepUnregPre {ve : Nat} {s t : St} (h : VG ve s t) (c : Nat) :
    VG ve s (t.prepUnregPre c) := by
  vg_unfold St.prepUnregPre
macro_rules | `(tactic| vg1) => `(tactic| with_reducible apply VG.prepUnregPre)

theorem VG.prepUnregFin {ve : Nat} {s t : St} (h : VG ve s t) (c : Nat) :
    VG ve s (t.prepUnregFin c) := by
  vg_unfold St.prepUnregFin
macro_rules | `(tactic| vg1) => `(tactic| with_reducible apply VG.prepUnregFin)

theorem VG.actFire {ve : Nat} {s t : St} (h : VG ve s t) (self i : Nat) (target : Option Chan) (prio : Int) (cancel : Bool) :
    VG ve s (t.actFire self i target prio cancel) := by
  vg_unfold St.actFire
macro_rules | `(tactic| vg1) => `(tactic| with_reducible apply VG.actFire)

theorem VG.actStopEv {ve : Nat} {s t : St} (h : VG ve s t) (ev : Option Nat) :
    VG ve s (t.actStopEv ev) := by
  vg_unfold St.actStopEv
macro_rules | `(tactic| vg1) => `(tactic| with_reducible apply VG.actStopEv)

theorem VG.timerReset {ve : Nat} {s t : St} (h : VG ve s t) (i : Nat) :
    VG ve s (t.timerReset i) := by
  vg_unfold St.timerReset
macro_rules | `(tactic| vg1) => `(tactic| with_reducible apply VG.timerReset)

theorem VG.timerCreate {ve : Nat} {s t : St} (h : VG ve s t) (i : Nat) :
    VG ve s (t.timerCreate i) := by
  vg_unfold St.timerCreate
macro_rules | `(tactic| vg1) => `(tactic| with_reducible apply VG.timerCreate)

theorem VG.timerTick {ve : Nat} {s t : St} (h : VG ve s t) (i e : Nat) :
    VG ve s (t.timerTick i e) := by
  vg_unfold St.timerTick
macro_rules | `(tactic| vg1) => `(tactic| with_reducible apply VG.timerTick)

theorem VG.startWait {ve : Nat} {s t : St} (h : VG ve s t) (w : Nat) :
    VG ve s (t.startWait w) := by
  vg_unfold St.startWait
macro_rules | `(tactic| vg1) => `(tactic| with_reducible apply VG.startWait)

/-! ## pure pieces of `Step.lean` -/

theorem VG.stopBegin {ve : Nat} {s t : St} (h : VG ve s t) (c : Nat) :
    VG ve s (t.stopBegin c) := by
  vg_unfold St.stopBegin
macro_rules | `(tactic| vg1) => `(tactic| with_reducible apply VG.stopBegin)

theorem VG.stopSetCode {ve : Nat} {s t : St} (h : VG ve s t) (r : Nat) (code : Code) :
    VG ve s (t.stopSetCode r code) := by
  vg_unfold St.stopSetCode
macro_rules | `(tactic| vg1) => `(tactic| with_reducible apply VG.stopSetCode)

theorem VG.genCall {ve : Nat} {s t : St} (h : VG ve s t) (owner i : Nat) (target : Option Chan) (timeout : Option Nat) :
    VG ve s (t.genCall owner i target timeout) := by
  vg_unfold St.genCall
macro_rules | `(tactic| vg1) => `(tactic| with_reducible apply VG.genCall)

theorem VG.genWait {ve : Nat} {s t : St} (h : VG ve s t) (owner : Nat) (name : Name) (target : Option Chan) (timeout : Option Nat) :
    VG ve s (t.genWait owner name target timeout) := by
  vg_unfold St.genWait
macro_rules | `(tactic| vg1) => `(tactic| with_reducible apply VG.genWait)

theorem VG.resumeGenPre {ve : Nat} {s t : St} (h : VG ve s t) (g : Nat) (silent : Bool) :
    VG ve s (t.resumeGenPre g silent) := by
  vg_unfold St.resumeGenPre
macro_rules | `(tactic| vg1) => `(tactic| with_reducible apply VG.resumeGenPre)

theorem VG.stopIteration {ve : Nat} {s t : St} (h : VG ve s t) (r : Nat) (x : Task) :
    VG ve s ((t.stopIteration r x).2) := by
  vg_unfold St.stopIteration
macro_rules | `(tactic| vg1) => `(tactic| with_reducible apply VG.stopIteration)

theorem VG.fireException {ve : Nat} {s t : St} (h : VG ve s t) (r e : Nat) :
    VG ve s (t.fireException r e) := by
  vg_unfold St.fireException
macro_rules | `(tactic| vg1) => `(tactic| with_reducible apply VG.fireException)

theorem VG.errorBranch {ve : Nat} {s t : St} (h : VG ve s t) (r : Nat) (x : Task) (resumed : Bool) :
    VG ve s ((t.errorBranch r x resumed).2) := by
  vg_unfold St.errorBranch
macro_rules | `(tactic| vg1) => `(tactic| with_reducible apply VG.errorBranch)

theorem VG.ownSub {ve : Nat} {s t : St} (h : VG ve s t) (r : Nat) (x : Task) (w : Nat) :
    VG ve s (t.ownSub r x w) := by
  vg_unfold St.ownSub
macro_rules | `(tactic| vg1) => `(tactic| with_reducible apply VG.ownSub)

theorem VG.setValueOpt {ve : Nat} {s t : St} (h : VG ve s t) (e : Nat) (v : Option Nat) :
    VG ve s (t.setValueOpt e v) := by
  vg_unfold St.setValueOpt
macro_rules | `(tactic| vg1) => `(tactic| with_reducible apply VG.setValueOpt)

theorem VG.parentSub {ve : Nat} {s t : St} (h : VG ve s t) (r : Nat) (x : Task) (p w2 : Nat) (viaThrow : Bool) :
    VG ve s (t.parentSub r x p w2 viaThrow) := by
  vg_unfold St.parentSub
macro_rules | `(tactic| vg1) => `(tactic| with_reducible apply VG.parentSub)

theorem VG.parentPlain {ve : Nat} {s t : St} (h : VG ve s t) (r : Nat) (x : Task) (p : Nat) (v : Option Nat) (viaThrow : Bool) :
    VG ve s (t.parentPlain r x p v viaThrow) := by
  vg_unfold St.parentPlain
macro_rules | `(tactic| vg1) => `(tactic| with_reducible apply VG.parentPlain)

theorem VG.onWaitEvent {ve : Nat} {s t : St} (h : VG ve s t) (w e : Nat) :
    VG ve s ((t.onWaitEvent w e).2) := by
  vg_unfold St.onWaitEvent
macro_rules | `(tactic| vg1) => `(tactic| with_reducible apply VG.onWaitEvent)

theorem VG.onWaitDone {ve : Nat} {s t : St} (h : VG ve s t) (w e : Nat) :
    VG ve s ((t.onWaitDone w e).2) := by
  vg_unfold St.onWaitDone
macro_rules | `(tactic| vg1) => `(tactic| with_reducible apply VG.onWaitDone)

theorem VG.onWaitTick {ve : Nat} {s t : St} (h : VG ve s t) (w : Nat) :
    VG ve s ((t.onWaitTick w).2) := by
  vg_unfold St.onWaitTick
macro_rules | `(tactic| vg1) => `(tactic| with_reducible apply VG.onWaitTick)

theorem VG.onFallbackGE {ve : Nat} {s t : St} (h : VG ve s t) (e : Nat) :
    VG ve s ((t.onFallbackGE e).2) := by
  vg_unfold St.onFallbackGE
macro_rules | `(tactic| vg1) => `(tactic| with_reducible apply VG.onFallbackGE)

theorem VG.computeHandlers {ve : Nat} {s t : St} (h : VG ve s t) (r : Nat) (name : Name) (chans : List Chan) :
    VG ve s ((t.computeHandlers r name chans).2) := by
  vg_unfold St.computeHandlers
macro_rules | `(tactic| vg1) => `(tactic| with_reducible apply VG.computeHandlers)

theorem VG.dispComplete {ve : Nat} {s t : St} (h : VG ve s t) (e : Nat) (ev : Ev) :
    VG ve s (t.dispComplete e ev) := by
  vg_unfold St.dispComplete
macro_rules | `(tactic| vg1) => `(tactic| with_reducible apply VG.dispComplete)

theorem VG.cacheRefresh {ve : Nat} {s t : St} (h : VG ve s t) (r : Nat) :
    VG ve s (t.cacheRefresh r) := by
  vg_unfold St.cacheRefresh
macro_rules | `(tactic| vg1) => `(tactic| with_reducible apply VG.cacheRefresh)

theorem VG.lookupHandlers {ve : Nat} {s t : St} (h : VG ve s t) (r : Nat) (name : Name) (chans : List Chan) :
    VG ve s ((t.lookupHandlers r name chans).2) := by
  vg_unfold St.lookupHandlers
macro_rules | `(tactic| vg1) => `(tactic| with_reducible apply VG.lookupHandlers)

theorem VG.dispGE {ve : Nat} {s t : St} (h : VG ve s t) (r e remaining : Nat) (name : Name) :
    VG ve s (t.dispGE r e remaining name) := by
  vg_unfold St.dispGE
macro_rules | `(tactic| vg1) => `(tactic| with_reducible apply VG.dispGE)

theorem VG.dispatchPre {ve : Nat} {s t : St} (h : VG ve s t) (r e remaining : Nat) :
    VG ve s ((t.dispatchPre r e remaining).2) := by
  vg_unfold St.dispatchPre
macro_rules | `(tactic| vg1) => `(tactic| with_reducible apply VG.dispatchPre)

theorem VG.handlerRaised {ve : Nat} {s t : St} (h : VG ve s t) (r e : Nat) :
    VG ve s (t.handlerRaised r e) := by
  vg_unfold St.handlerRaised
macro_rules | `(tactic| vg1) => `(tactic| with_reducible apply VG.handlerRaised)

theorem VG.applyValue {ve : Nat} {s t : St} (h : VG ve s t) (r e : Nat) (value : Outcome) :
    VG ve s (t.applyValue r e value) := by
  vg_unfold St.applyValue
macro_rules | `(tactic| vg1) => `(tactic| with_reducible apply VG.applyValue)

theorem VG.geTasksCheck {ve : Nat} {s t : St} (h : VG ve s t) (r e : Nat) :
    VG ve s (t.geTasksCheck r e) := by
  vg_unfold St.geTasksCheck
macro_rules | `(tactic| vg1) => `(tactic| with_reducible apply VG.geTasksCheck)

theorem VG.flushBegin {ve : Nat} {s t : St} (h : VG ve s t) (r : Nat) :
    VG ve s (t.flushBegin r) := by
  vg_unfold St.flushBegin
macro_rules | `(tactic| vg1) => `(tactic| with_reducible apply VG.flushBegin)

theorem VG.tickGenerate {ve : Nat} {s t : St} (h : VG ve s t) (c : Nat) :
    VG ve s (t.tickGenerate c) := by
  vg_unfold St.tickGenerate
macro_rules | `(tactic| vg1) => `(tactic| with_reducible apply VG.tickGenerate)

theorem VG.runBegin {ve : Nat} {s t : St} (h : VG ve s t) (c : Nat) :
    VG ve s (t.runBegin c) := by
  vg_unfold St.runBegin
macro_rules | `(tactic| vg1) => `(tactic| with_reducible apply VG.runBegin)

theorem VG.runEnd {ve : Nat} {s t : St} (h : VG ve s t) (c : Nat) :
    VG ve s ((t.runEnd c).2) := by
  vg_unfold St.runEnd
macro_rules | `(tactic| vg1) => `(tactic| with_reducible apply VG.runEnd)

theorem VG.actStep {ve : Nat} {s t : St} (h : VG ve s t) (ctx : HCtx) (a : Act) : VG ve s (actStep t ctx a).st := by
  cases a <;> (unfold CV.Core.actStep; (try dsimp only); vg)
macro_rules | `(tactic| vg1) => `(tactic| with_reducible apply VG.actStep)

/-! ## the arms of `step` -/

macro_rules
  | `(tactic| vg1) => `(tactic| simp only [Cfg.pop_st, Cfg.popRet_st, Cfg.raise_st, Cfg.goto_st])

theorem Cfg.effectDone_vg {ve : Nat} (c : Cfg) (k : List Frame) (r e : Nat) (announce : Bool) :
    VG ve c.st (c.effectDone k r e announce).st := by
  unfold Cfg.effectDone; (try dsimp only); vg
macro_rules | `(tactic| vg1) => `(tactic| with_reducible exact Cfg.effectDone_vg ..)

theorem Cfg.eventDone_vg {ve : Nat} (c : Cfg) (k : List Frame) (r e : Nat) (err : Bool) :
    VG ve c.st (c.eventDone k r e err).st := by
  unfold Cfg.eventDone; (try dsimp only); vg
macro_rules | `(tactic| vg1) => `(tactic| with_reducible exact Cfg.eventDone_vg ..)

theorem VG.updateRootAll {ve : Nat} (s : St) : ∀ (fuel : Nat) (todo : List Nat) (root : Nat) (t : St),
    VG ve s t → VG ve s (St.updateRootAll fuel todo root t) := by
  intro fuel
  induction fuel with
  | zero => intro todo root t h; simpa [St.updateRootAll] using h
  | succ n ih =>
    intro todo root t h
    cases todo with
    | nil => simpa [St.updateRootAll] using h
    | cons x rest =>
      simp only [St.updateRootAll]
      apply ih
      vg

macro_rules | `(tactic| vg1) => `(tactic| with_reducible apply VG.updateRootAll)

theorem Cfg.updateRoot_vg {ve : Nat} (c : Cfg) (k : List Frame) (todo : List Nat) (root : Nat) :
    VG ve c.st (c.updateRoot k todo root).st := by
  unfold Cfg.updateRoot; (try dsimp only)
  simp only [Cfg.pop_st]
  exact VG.updateRootAll _ _ _ _ _ (VG.refl _)
macro_rules | `(tactic| vg1) => `(tactic| with_reducible exact Cfg.updateRoot_vg ..)

theorem Cfg.register_vg {ve : Nat} (c : Cfg) (k : List Frame) (x p : Nat) :
    VG ve c.st (c.register k x p).st := by
  unfold Cfg.register; (try dsimp only); vg
macro_rules | `(tactic| vg1) => `(tactic| with_reducible exact Cfg.register_vg ..)

theorem Cfg.registerFin_vg {ve : Nat} (c : Cfg) (k : List Frame) (x : Nat) :
    VG ve c.st (c.registerFin k x).st := by
  unfold Cfg.registerFin; (try dsimp only); vg
macro_rules | `(tactic| vg1) => `(tactic| with_reducible exact Cfg.registerFin_vg ..)

theorem Cfg.prepUnregFin_vg {ve : Nat} (c : Cfg) (k : List Frame) (x : Nat) :
    VG ve c.st (c.prepUnregFin k x).st := by
  unfold Cfg.prepUnregFin; (try dsimp only); vg
macro_rules | `(tactic| vg1) => `(tactic| with_reducible exact Cfg.prepUnregFin_vg ..)

theorem Cfg.stopMgr_vg {ve : Nat} (c : Cfg) (k : List Frame) (x : Nat) (code : Code) :
    VG ve c.st (c.stopMgr k x code).st := by
  unfold Cfg.stopMgr; (try dsimp only); vg
macro_rules | `(tactic| vg1) => `(tactic| with_reducible exact Cfg.stopMgr_vg ..)

theorem Cfg.ticks_vg {ve : Nat} (c : Cfg) (k : List Frame) (x n : Nat) :
    VG ve c.st (c.ticks k x n).st := by
  unfold Cfg.ticks; (try dsimp only); vg
macro_rules | `(tactic| vg1) => `(tactic| with_reducible exact Cfg.ticks_vg ..)

theorem Cfg.stopFin_vg {ve : Nat} (c : Cfg) (k : List Frame) (code : Code) :
    VG ve c.st (c.stopFin k code).st := by
  unfold Cfg.stopFin; (try dsimp only); vg
macro_rules | `(tactic| vg1) => `(tactic| with_reducible exact Cfg.stopFin_vg ..)

theorem Cfg.timerNew_vg {ve : Nat} (c : Cfg) (k : List Frame) (i : Nat) :
    VG ve c.st (c.timerNew k i).st := by
  unfold Cfg.timerNew; (try dsimp only); vg
macro_rules | `(tactic| vg1) => `(tactic| with_reducible exact Cfg.timerNew_vg ..)

theorem Cfg.acts_vg {ve : Nat} (c : Cfg) (k : List Frame) (ctx : HCtx) (prog : Prog) :
    VG ve c.st (c.acts k ctx prog).st := by
  unfold Cfg.acts; (try dsimp only); vg
macro_rules | `(tactic| vg1) => `(tactic| with_reducible exact Cfg.acts_vg ..)

theorem Cfg.doFin_vg {ve : Nat} (c : Cfg) (k : List Frame) (x : Nat) :
    VG ve c.st (c.doFin k x).st := by
  unfold Cfg.doFin; (try dsimp only); vg
macro_rules | `(tactic| vg1) => `(tactic| with_reducible exact Cfg.doFin_vg ..)

theorem Cfg.drainQ_vg {ve : Nat} (c : Cfg) (k : List Frame) (x : Nat) :
    VG ve c.st (c.drainQ k x).st := by
  unfold Cfg.drainQ; (try dsimp only); vg
macro_rules | `(tactic| vg1) => `(tactic| with_reducible exact Cfg.drainQ_vg ..)

theorem Cfg.stepGen_vg {ve : Nat} (c : Cfg) (k : List Frame) (g : Nat) :
    VG ve c.st (c.stepGen k g).st := by
  unfold Cfg.stepGen; (try dsimp only); vg
macro_rules | `(tactic| vg1) => `(tactic| with_reducible exact Cfg.stepGen_vg ..)

theorem Cfg.processTask_vg {ve : Nat} (c : Cfg) (k : List Frame) (r : Nat) (x : Task) :
    VG ve c.st (c.processTask k r x).st := by
  unfold Cfg.processTask; (try dsimp only); vg
macro_rules | `(tactic| vg1) => `(tactic| with_reducible exact Cfg.processTask_vg ..)

theorem Cfg.contStop_vg {ve : Nat} {s0 : St} (c : Cfg) (k : List Frame) (s : St) (r : Nat) (x : Task) (hle : VG ve s0 s) :
    VG ve s0 (c.contStop k s r x).st := by
  unfold Cfg.contStop; (try dsimp only); vg
macro_rules | `(tactic| vg1) => `(tactic| with_reducible apply Cfg.contStop_vg)

theorem Cfg.contError_vg {ve : Nat} {s0 : St} (c : Cfg) (k : List Frame) (s : St) (r : Nat) (x : Task) (resumed : Bool) (hle : VG ve s0 s) :
    VG ve s0 (c.contError k s r x resumed).st := by
  unfold Cfg.contError; (try dsimp only); vg
macro_rules | `(tactic| vg1) => `(tactic| with_reducible apply Cfg.contError_vg)

theorem Cfg.ptBodyWait_vg {ve : Nat} (c : Cfg) (k : List Frame) (r : Nat) (x : Task) (w : Nat) :
    VG ve c.st (c.ptBodyWait k r x w).st := by
  unfold Cfg.ptBodyWait; (try dsimp only); vg
macro_rules | `(tactic| vg1) => `(tactic| with_reducible exact Cfg.ptBodyWait_vg ..)

theorem Cfg.ptBodyExc_vg {ve : Nat} (c : Cfg) (k : List Frame) (r : Nat) (x : Task) (w : Nat) (fired : Bool) :
    VG ve c.st (c.ptBodyExc k r x w fired).st := by
  unfold Cfg.ptBodyExc; (try dsimp only); vg
macro_rules | `(tactic| vg1) => `(tactic| with_reducible exact Cfg.ptBodyExc_vg ..)

theorem Cfg.ptBody_vg {ve : Nat} (c : Cfg) (k : List Frame) (r : Nat) (x : Task) :
    VG ve c.st (c.ptBody k r x).st := by
  unfold Cfg.ptBody; (try dsimp only); vg
macro_rules | `(tactic| vg1) => `(tactic| with_reducible exact Cfg.ptBody_vg ..)

theorem Cfg.ptOwn_vg {ve : Nat} (c : Cfg) (k : List Frame) (r : Nat) (x : Task) :
    VG ve c.st (c.ptOwn k r x).st := by
  unfold Cfg.ptOwn; (try dsimp only); vg
macro_rules | `(tactic| vg1) => `(tactic| with_reducible exact Cfg.ptOwn_vg ..)

theorem Cfg.ptParent_vg {ve : Nat} (c : Cfg) (k : List Frame) (r : Nat) (x : Task) (p : Nat) (viaThrow : Bool) :
    VG ve c.st (c.ptParent k r x p viaThrow).st := by
  unfold Cfg.ptParent; (try dsimp only); vg
macro_rules | `(tactic| vg1) => `(tactic| with_reducible exact Cfg.ptParent_vg ..)

theorem Cfg.ptFin_vg {ve : Nat} (c : Cfg) (k : List Frame) (r : Nat) (handling : Option Nat) :
    VG ve c.st (c.ptFin k r handling).st := by
  unfold Cfg.ptFin; (try dsimp only); vg
macro_rules | `(tactic| vg1) => `(tactic| with_reducible exact Cfg.ptFin_vg ..)

theorem Cfg.dispatcher_vg {ve : Nat} (c : Cfg) (k : List Frame) (r e remaining : Nat) :
    VG ve c.st (c.dispatcher k r e remaining).st := by
  unfold Cfg.dispatcher; (try dsimp only); vg
macro_rules | `(tactic| vg1) => `(tactic| with_reducible exact Cfg.dispatcher_vg ..)

theorem Cfg.hLoop_vg {ve : Nat} (c : Cfg) (k : List Frame) (r e : Nat) (hs : List Nat) (err : Bool) (stale : Outcome) :
    VG ve c.st (c.hLoop k r e hs err stale).st := by
  unfold Cfg.hLoop; (try dsimp only); vg
macro_rules | `(tactic| vg1) => `(tactic| with_reducible exact Cfg.hLoop_vg ..)

theorem Cfg.invokeUser_vg {ve : Nat} {s0 : St} (c : Cfg) (k : List Frame) (s : St) (h e owner p : Nat) (hle : VG ve s0 s) :
    VG ve s0 (c.invokeUser k s h e owner p).st := by
  unfold Cfg.invokeUser; (try dsimp only); vg
macro_rules | `(tactic| vg1) => `(tactic| with_reducible apply Cfg.invokeUser_vg)

theorem Cfg.invoke_vg {ve : Nat} (c : Cfg) (k : List Frame) (r h e : Nat) :
    VG ve c.st (c.invoke k r h e).st := by
  unfold Cfg.invoke; (try dsimp only); vg
macro_rules | `(tactic| vg1) => `(tactic| with_reducible exact Cfg.invoke_vg ..)

theorem Cfg.invokeFin_vg {ve : Nat} (c : Cfg) (k : List Frame) (e h : Nat) :
    VG ve c.st (c.invokeFin k e h).st := by
  unfold Cfg.invokeFin; (try dsimp only); vg
macro_rules | `(tactic| vg1) => `(tactic| with_reducible exact Cfg.invokeFin_vg ..)

theorem Cfg.hAfter_vg {ve : Nat} (c : Cfg) (k : List Frame) (r e : Nat) (rest : List Nat) (err : Bool) (stale : Outcome) :
    VG ve c.st (c.hAfter k r e rest err stale).st := by
  unfold Cfg.hAfter; (try dsimp only); vg
macro_rules | `(tactic| vg1) => `(tactic| with_reducible exact Cfg.hAfter_vg ..)

theorem Cfg.hApply_vg {ve : Nat} (c : Cfg) (k : List Frame) (r e : Nat) (rest : List Nat) (err : Bool) (value : Outcome) :
    VG ve c.st (c.hApply k r e rest err value).st := by
  unfold Cfg.hApply; (try dsimp only); vg
macro_rules | `(tactic| vg1) => `(tactic| with_reducible exact Cfg.hApply_vg ..)

theorem Cfg.dispFin_vg {ve : Nat} (c : Cfg) (k : List Frame) (r e : Nat) (err : Bool) :
    VG ve c.st (c.dispFin k r e err).st := by
  unfold Cfg.dispFin; (try dsimp only); vg
macro_rules | `(tactic| vg1) => `(tactic| with_reducible exact Cfg.dispFin_vg ..)

theorem Cfg.dispatchLoop_vg {ve : Nat} (c : Cfg) (k : List Frame) (r : Nat) :
    VG ve c.st (c.dispatchLoop k r).st := by
  unfold Cfg.dispatchLoop; (try dsimp only); vg
macro_rules | `(tactic| vg1) => `(tactic| with_reducible exact Cfg.dispatchLoop_vg ..)

theorem Cfg.flush_vg {ve : Nat} (c : Cfg) (k : List Frame) (x : Nat) :
    VG ve c.st (c.flush k x).st := by
  unfold Cfg.flush; (try dsimp only); vg
macro_rules | `(tactic| vg1) => `(tactic| with_reducible exact Cfg.flush_vg ..)

theorem Cfg.flushFin_vg {ve : Nat} (c : Cfg) (k : List Frame) (r : Nat) (old : Bool) :
    VG ve c.st (c.flushFin k r old).st := by
  unfold Cfg.flushFin; (try dsimp only); vg
macro_rules | `(tactic| vg1) => `(tactic| with_reducible exact Cfg.flushFin_vg ..)

theorem Cfg.tick_vg {ve : Nat} (c : Cfg) (k : List Frame) (x : Nat) :
    VG ve c.st (c.tick k x).st := by
  unfold Cfg.tick; (try dsimp only); vg
macro_rules | `(tactic| vg1) => `(tactic| with_reducible exact Cfg.tick_vg ..)

theorem Cfg.taskLoop_vg {ve : Nat} (c : Cfg) (k : List Frame) (x : Nat) (ts : List Task) :
    VG ve c.st (c.taskLoop k x ts).st := by
  unfold Cfg.taskLoop; (try dsimp only); vg
macro_rules | `(tactic| vg1) => `(tactic| with_reducible exact Cfg.taskLoop_vg ..)

theorem Cfg.tickFin_vg {ve : Nat} (c : Cfg) (k : List Frame) (x : Nat) (old : Bool) :
    VG ve c.st (c.tickFin k x old).st := by
  unfold Cfg.tickFin; (try dsimp only); vg
macro_rules | `(tactic| vg1) => `(tactic| with_reducible exact Cfg.tickFin_vg ..)

theorem Cfg.tickGen_vg {ve : Nat} (c : Cfg) (k : List Frame) (x : Nat) :
    VG ve c.st (c.tickGen k x).st := by
  unfold Cfg.tickGen; (try dsimp only); vg
macro_rules | `(tactic| vg1) => `(tactic| with_reducible exact Cfg.tickGen_vg ..)

theorem Cfg.run_vg {ve : Nat} (c : Cfg) (k : List Frame) (x : Nat) :
    VG ve c.st (c.run k x).st := by
  unfold Cfg.run; (try dsimp only); vg
macro_rules | `(tactic| vg1) => `(tactic| with_reducible exact Cfg.run_vg ..)

theorem Cfg.runLoop_vg {ve : Nat} (c : Cfg) (k : List Frame) (x : Nat) :
    VG ve c.st (c.runLoop k x).st := by
  unfold Cfg.runLoop; (try dsimp only); vg
macro_rules | `(tactic| vg1) => `(tactic| with_reducible exact Cfg.runLoop_vg ..)

theorem Cfg.runFin_vg {ve : Nat} (c : Cfg) (k : List Frame) (x : Nat) :
    VG ve c.st (c.runFin k x).st := by
  unfold Cfg.runFin; (try dsimp only); vg
macro_rules | `(tactic| vg1) => `(tactic| with_reducible exact Cfg.runFin_vg ..)

theorem Cfg.runCatchExn_vg {ve : Nat} (c : Cfg) (k : List Frame) (x : Nat) (ex : Exn) :
    VG ve c.st (c.runCatchExn k x ex).st := by
  unfold Cfg.runCatchExn; (try dsimp only); vg
macro_rules | `(tactic| vg1) => `(tactic| with_reducible exact Cfg.runCatchExn_vg ..)

theorem Cfg.runRethrow_vg {ve : Nat} (c : Cfg) (k : List Frame) (ex : Exn) :
    VG ve c.st (c.runRethrow k ex).st := by
  unfold Cfg.runRethrow; (try dsimp only); vg
macro_rules | `(tactic| vg1) => `(tactic| with_reducible exact Cfg.runRethrow_vg ..)

/-! ## the transition function -/

theorem stepFrame_vg {ve : Nat} (c : Cfg) (k : List Frame) (f : Frame) : VG ve c.st (stepFrame c k f).st := by
  cases f <;> (dsimp only [stepFrame]; vg)

theorem unwind_vg {ve : Nat} (c : Cfg) (k : List Frame) (ex : Exn) (f : Frame) : VG ve c.st (unwind c k ex f).st := by
  cases f <;> (dsimp only [unwind]; vg)

/-- every step extends the Values (or re-fires the event) -/
theorem step_vg (ve : Nat) (c : Cfg) : VG ve c.st (step c).st := by
  unfold step
  split
  · exact VG.refl _
  · split
    · exact unwind_vg ..
    · exact stepFrame_vg ..

/-- … and so does every run -/
theorem runN_vg (ve : Nat) (n : Nat) (c : Cfg) : VG ve c.st (runN n c).st := by
  induction n generalizing c with
  | zero => exact VG.refl _
  | succ n ih => rw [runN_succ]; exact (step_vg ve c).trans (ih _)

end CV.Core

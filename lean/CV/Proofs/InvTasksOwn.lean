import CV.Proofs.InvTasksOwnK
import CV.Proofs.InvTasksRange
/-
waitingHandlers accounting, part 18: `St.T46K` for the remaining arms, the invariant `T46TP` (every registered task is
`T46TaskOk`, started wait states have an existing `task_event`, `.ptOwn` frames hold ordinary tasks of existing events)
and clause (own) of `T46Guard`.
-/
namespace CV.Core

theorem St.t46_gen_lt_of_user (s : St) (g : Nat) {e h o : Nat} {rest : Prog} {st : Nat} {pc : Option Bool} {sd : Bool}
    (hg : s.gen g = .user e h o rest st pc sd) : g < s.gens.length := by
  apply Classical.byContradiction
  intro hn
  have : s.gen g = dfltGen := by
    unfold St.gen
    rw [List.getD_eq_getElem?_getD, List.getElem?_eq_none (Nat.le_of_not_lt hn)]; rfl
  rw [this] at hg
  cases hg

/-- overwriting a generator that is a user generator in `s` by a non-carrier, in any later state -/
theorem St.T46K.setUser {s u : St} (h : St.T46K s u) (g : Nat) {e hh o : Nat} {rest : Prog} {st : Nat} {pc : Option Bool}
    {sd : Bool} (hg : s.gen g = .user e hh o rest st pc sd) (y : GenRec) (hy : y.t46_carrier = false) :
    St.T46K s (u.setGen g y) := by
  refine h.setGen g y ?_
  rw [h.car g (St.t46_gen_lt_of_user s g hg), hg, hy]; rfl

theorem Cfg.t46_stepGen_K (c : Cfg) (k : List Frame) (g : Nat) : St.T46K c.st (c.stepGen k g).st := by
  unfold Cfg.stepGen
  dsimp only
  split
  · rename_i e h owner rest step pc sd hg
    split
    · exact (St.T46K.refl c.st).setUser g hg _ rfl
    · rename_i a rest'
      split
      · exact (St.T46K.refl c.st).setUser g hg _ rfl
      · exact (St.T46K.genCall (St.T46K.refl c.st) _ _ _ _).setUser g hg _ rfl
      · exact (St.T46K.genWait (St.T46K.refl c.st) _ _ _ _).setUser g hg _ rfl
      · exact (St.T46K.refl c.st).setUser g hg _ rfl
      · have h1 : St.T46K c.st (actStep (c.st.setGen g (.user e h owner rest' step none sd)) ⟨owner, some e⟩ a).st :=
          St.T46K.actStep ((St.T46K.refl c.st).setUser g hg _ rfl) _ _
        split
        · exact h1
        · exact h1.setUser g hg _ rfl
        · exact h1
  · exact St.T46K.refl _

theorem Cfg.t46_contStop_K {s0 : St} (c : Cfg) (k : List Frame) (s : St) (r : Nat) (t : Task) (hle : St.T46K s0 s)
    (he : t.e < s.evs.length) : St.T46K s0 (c.contStop k s r t).st := by
  rw [Cfg.t46_contStop_st]
  exact hle.trans (St.t46_stopIteration_K s r t he)

theorem Cfg.t46_contError_K {s0 : St} (c : Cfg) (k : List Frame) (s : St) (r : Nat) (t : Task) (b : Bool)
    (hle : St.T46K s0 s) : St.T46K s0 (c.contError k s r t b).st :=
  Cfg.contError_t46k c k s r t b hle

theorem Cfg.t46_ptBody_K (c : Cfg) (k : List Frame) (r : Nat) (t : Task) (he : t.e < c.st.evs.length) :
    St.T46K c.st (c.ptBody k r t).st := by
  unfold Cfg.ptBody
  split
  · exact St.t46_resumeGenPre_K _ _ _
  · rename_i w hgen
    unfold Cfg.ptBodyWait
    dsimp only
    have hrm : St.T46K c.st (c.st.removeHandler (c.st.wait w).hDone (some ((c.st.wait w).evName.child sfxDone))).2 :=
      St.T46K.removeHandler (St.T46K.refl _) _ _
    split
    · exact Cfg.t46_contError_K c k _ r t false hrm
    · split
      · split
        · simp only [Cfg.goto_st]
          exact (St.T46K.logE (St.T46K.unregisterTask hrm r t) _).trans (St.t46_resumeGenPre_K _ _ _)
        · simp only [Cfg.pop_st]
          exact St.T46K.unregisterTask hrm r t
      · exact Cfg.t46_contStop_K c k _ r t hrm (Nat.lt_of_lt_of_le he hrm.evs)
  · rename_i w fired hgen
    unfold Cfg.ptBodyExc
    have hgl : t.g < c.st.gens.length := by
      apply Classical.byContradiction
      intro hn
      have : c.st.gen t.g = dfltGen := by
        unfold St.gen
        rw [List.getD_eq_getElem?_getD, List.getElem?_eq_none (Nat.le_of_not_lt hn)]; rfl
      rw [this] at hgen
      cases hgen
    split
    · exact Cfg.t46_contStop_K c k _ r t (St.T46K.refl _) he
    · dsimp only
      have h1 : St.T46K c.st ((c.st.setGen t.g (.exc w true)).unregisterTask r t) :=
        St.T46K.unregisterTask (St.T46K.setGen (St.T46K.refl _) _ _ (by rw [hgen]; rfl)) r t
      split
      · rename_i p hp
        split
        · rename_i pe ph o rest st pc sd hgp
          have hgp' : c.st.gen p = .user pe ph o rest st pc sd ∨ p = t.g := by
            by_cases hpt : p = t.g
            · exact Or.inr hpt
            · left
              have : ((c.st.setGen t.g (.exc w true)).unregisterTask r t).gen p = (c.st.setGen t.g (.exc w true)).gen p := rfl
              rw [this, St.t46_gen_setGen, if_neg (fun h => hpt h.1.symm)] at hgp
              exact hgp
          split
          · simp only [Cfg.goto_st]
            exact (St.T46K.logE h1 _).trans (St.t46_resumeGenPre_K _ _ _)
          · refine Cfg.t46_contError_K c k _ r t true ?_
            rcases hgp' with h2 | h2
            · exact (St.T46K.logE h1 _).setUser p h2 _ rfl
            · exfalso
              subst h2
              have : ((c.st.setGen t.g (.exc w true)).unregisterTask r t).gen t.g = (c.st.setGen t.g (.exc w true)).gen t.g := rfl
              rw [this, St.t46_gen_setGen, if_pos ⟨rfl, hgl⟩] at hgp
              cases hgp
        · simp only [Cfg.pop_st]; exact h1
      · exact Cfg.t46_contError_K c k _ r t false h1
  · exact Cfg.t46_contStop_K c k _ r t (St.T46K.refl _) he
  · rename_i v consumed hgen
    split
    · exact Cfg.t46_contStop_K c k _ r t (St.T46K.refl _) he
    · simp only [Cfg.pop_st]
      exact St.T46K.setValueOpt (St.T46K.setGen (St.T46K.refl _) _ _ (by rw [hgen]; rfl)) _ _

theorem Cfg.t46_ptOwn_K (c : Cfg) (k : List Frame) (r : Nat) (t : Task) (he : t.e < c.st.evs.length)
    (hg : c.st.t46_nc t.g) : St.T46K c.st (c.ptOwn k r t).st := by
  unfold Cfg.ptOwn
  split
  · simp only [Cfg.pop_st]; exact St.T46K.setValueOpt (St.T46K.refl _) _ _
  · simp only [Cfg.pop_st]; exact St.t46_ownSub_K _ r t _ he hg
  · exact Cfg.t46_contStop_K c k _ r t (St.T46K.refl _) he
  · exact Cfg.t46_contError_K c k _ r t false (St.T46K.refl _)
  · exact St.T46K.refl _
  · exact St.T46K.refl _

theorem Cfg.t46_ptParent_K (c : Cfg) (k : List Frame) (r : Nat) (t : Task) (p : Nat) (v : Bool)
    (he : t.e < c.st.evs.length) (hp : c.st.t46_nc p) : St.T46K c.st (c.ptParent k r t p v).st := by
  unfold Cfg.ptParent
  split
  · simp only [Cfg.pop_st]; exact St.t46_parentSub_K _ r t p _ v he hp
  · simp only [Cfg.pop_st]; exact St.t46_parentPlain_K _ r t p _ v he hp
  · exact Cfg.t46_contStop_K c k _ r t (St.T46K.refl _) he
  · exact Cfg.t46_contError_K c k _ r t true (St.T46K.refl _)
  · exact St.T46K.refl _
  · exact St.T46K.refl _

theorem Cfg.t46_hApply_K (c : Cfg) (k : List Frame) (r e : Nat) (rest : List Nat) (err : Bool) (v : Outcome)
    (he : e < c.st.evs.length) : St.T46K c.st (c.hApply k r e rest err v).st := by
  unfold Cfg.hApply
  dsimp only
  split <;> exact St.T46K.geTasksCheck (St.t46_applyValue_K c.st r e v (fun _ _ => he)) r e

theorem Cfg.t46_invoke_K (c : Cfg) (k : List Frame) (r h e : Nat)
    (hd : ∀ w, (c.st.handler h).kind = .waitDone w → c.st.T46WaitOk (c.st.wait w) ∧
      (c.st.wait w).task < c.st.gens.length ∧ (c.st.gen (c.st.wait w).task).t46_carrier = true)
    (ht : ∀ w, (c.st.handler h).kind = .waitTick w → c.st.T46WaitOk (c.st.wait w)) :
    St.T46K c.st (c.invoke k r h e).st := by
  unfold Cfg.invoke
  dsimp only
  generalize hS : (if ((c.st.handler h).kind.code != 0) = true then
      c.st.logE (Entry.hinv e (c.st.handler h).kind.code (hkey c.st (c.st.handler h))) else c.st) = S
  have hSK : St.T46K c.st S := by subst hS; t46k
  have hSw : ∀ w, S.wait w = c.st.wait w := by subst hS; intro w; split <;> rfl
  have hSe : S.evs = c.st.evs := by subst hS; split <;> rfl
  have hSg : S.gens = c.st.gens := by subst hS; split <;> rfl
  have hSgen : ∀ g, S.gen g = c.st.gen g := fun g => by unfold St.gen; rw [hSg]
  split
  · exact Cfg.invokeUser_t46k c k S h e _ _ hSK
  · simp only [Cfg.goto_st]; t46k
  · simp only [Cfg.popRet_st]; t46k
  · rename_i w hk
    simp only [Cfg.popRet_st]
    obtain ⟨h1, h2, h3⟩ := hd w hk
    have hnc : ∀ p, c.st.t46_nc p → S.t46_nc p := fun p hp => by unfold St.t46_nc; rw [hSg, hSgen]; exact hp
    exact hSK.trans (St.t46_onWaitDone_K S w e (by rw [hSw, hSe]; exact h1.1) (by rw [hSw, hSg, hSgen]; exact ⟨h2, h3⟩)
      (by rw [hSw]; exact hnc _ h1.2))
  · rename_i w hk
    simp only [Cfg.popRet_st]
    have hnc : ∀ p, c.st.t46_nc p → S.t46_nc p := fun p hp => by unfold St.t46_nc; rw [hSg, hSgen]; exact hp
    exact hSK.trans (St.t46_onWaitTick_K S w (by rw [hSw, hSe]; exact (ht w hk).1) (by rw [hSw]; exact hnc _ (ht w hk).2))
  · simp only [Cfg.popRet_st]; t46k
  · split <;> simp only [Cfg.popRet_st, Cfg.raise_st] <;> t46k
  · simp only [Cfg.popRet_st]; t46k

end CV.Core

import CV.Proofs.NodeTwoFw2
/-
C19, two-party composition with a rejecting receive firewall on B, part 3: what the invariant
says about the observations (safety at every moment, completion when quiescent), and the relation
to the all-accepting hypotheses `n2_Hyp`.
-/
namespace CV
namespace Node

section
variable {E : n2_Env} {calls : List Ev}

/-- polling a list of generators -/
theorem n2f_inv_polls (l : List Nat) :
    ∀ {w : n2_World} {s kB kA : Nat} {ao yo : List Nat}, n2f_Inv E calls w s kB kA ao yo →
      ∃ yo', n2f_Inv E calls (n2_run E w (l.map n2_Step.poll)) s kB kA ao yo' ∧ (∀ i ∈ yo, i ∈ yo') ∧
        (∀ n ∈ l, n < s → n ∈ ao.take kA → n ∈ yo') := by
  induction l with
  | nil => intro w s kB kA ao yo I; exact ⟨yo, I, fun i hi => hi, by simp⟩
  | cons n l ih =>
    intro w s kB kA ao yo I
    obtain ⟨yo1, I1, hsub1, hn1⟩ := n2f_inv_poll' I n
    obtain ⟨yo2, I2, hsub2, hn2⟩ := ih I1
    refine ⟨yo2, I2, fun i hi => hsub2 i (hsub1 i hi), ?_⟩
    intro k hk hks hkD
    rcases List.mem_cons.mp hk with rfl | h
    · exact hsub2 _ (hn1 hks hkD)
    · exact hn2 k h hks hkD

/-- safety, for every world that satisfies the invariant -/
theorem n2f_safety_reach {w : n2_World} (h : n2f_Reach E calls w) :
    w.fired <+: ((List.range calls.length).filter (n2f_acc E calls)).map (n2_expFire E calls) ∧
    (∃ order : List Nat, order.Nodup ∧ (∀ i ∈ order, i < calls.length) ∧
        w.resolved = order.map (n2f_expRes E calls)) ∧
    (∃ yo : List Nat, yo.Nodup ∧ (∀ i ∈ yo, n2f_expRes E calls i ∈ w.resolved) ∧
        w.yielded = yo.map (n2f_expYield E calls)) ∧
    w.aborted = false := by
  obtain ⟨s, kB, kA, ao, yo, I⟩ := h
  refine ⟨?_, ⟨ao.take kA, ?_, ?_, I.resolved⟩, ⟨yo, I.yoN, ?_, I.yielded⟩, I.nab⟩
  · rw [I.fired, n2_range_split calls.length kB (Nat.le_trans I.kBs I.hs), List.filter_append,
      List.map_append]
    exact List.prefix_append _ _
  · exact List.Nodup.sublist (List.take_sublist _ _) I.aoN
  · intro i hi
    have := I.aoLt i (List.mem_of_mem_take hi)
    have := I.kBs
    have := I.hs
    omega
  · intro i hi
    rw [I.resolved]
    exact List.mem_map.mpr ⟨i, I.yoSub i hi, rfl⟩

/-- the ghost parameters of a quiescent world -/
theorem n2f_quiescent_ghost (H : n2f_Hyp E calls) {w : n2_World} {s kB kA : Nat} {ao yo : List Nat}
    (I : n2f_Inv E calls w s kB kA ao yo) (q : n2_Quiescent w) :
    s = calls.length ∧ kB = calls.length ∧ kA = ao.length ∧ ao.Perm (List.range calls.length) ∧
      w.a.buf = [] ∧ w.b.buf = [] := by
  obtain ⟨q1, q2, q3, q4⟩ := q
  have hs : s = calls.length := by
    have h := I.todo
    rw [q1] at h
    have := List.drop_eq_nil_iff.mp h.symm
    have := I.hs
    omega
  have hGB : ∀ p ∈ (List.range s).map (n2_callPkt E calls), Good E.proc p := by
    intro p hp
    obtain ⟨i, hi, rfl⟩ := List.mem_map.mp hp
    exact H.callGood i (by have := List.mem_range.mp hi; have := I.hs; omega)
  have hB := I.rxB
  rw [q2] at hB
  obtain ⟨hbbuf, hBout⟩ := n2_rx_done H.codec hGB hB
  have hkB : kB = s := by
    have := congrArg List.length hBout
    simpa using this
  have haoN : ∀ i ∈ ao, i < calls.length := by
    intro i hi
    have := I.aoLt i hi; have := I.kBs; have := I.hs; omega
  have hGA : ∀ p ∈ ao.map (n2f_ansPkt E calls), Good E.proc p := by
    intro p hp
    obtain ⟨i, hi, rfl⟩ := List.mem_map.mp hp
    exact H.ansGood i (haoN i hi)
  have hA := I.rxA
  rw [q3] at hA
  obtain ⟨habuf, hAout⟩ := n2_rx_done H.codec hGA hA
  have hkA : kA = ao.length := by
    have := congrArg List.length hAout
    simp at this
    have := I.kAle
    omega
  have hall : ∀ i, i < kB → i ∈ ao := by
    intro i hi
    cases ha : n2f_acc E calls i with
    | false => exact I.rej i hi ha
    | true =>
      have h := I.running
      rw [q4] at h
      have h2 : (List.range kB).filter (fun i => n2f_acc E calls i && !decide (i ∈ ao)) = [] := by
        simpa using h.symm
      have := List.filter_eq_nil_iff.mp h2 i (List.mem_range.mpr hi)
      simpa [ha] using this
  refine ⟨hs, by omega, hkA, ?_, habuf, hbbuf⟩
  rw [List.perm_ext_iff_of_nodup I.aoN List.nodup_range]
  intro i
  constructor
  · intro hi; exact List.mem_range.mpr (haoN i hi)
  · intro hi; exact hall i (by have := List.mem_range.mp hi; omega)

/-- completion: nothing in flight, every handler returned -/
theorem n2f_complete_reach (H : n2f_Hyp E calls) {w : n2_World} (h : n2f_Reach E calls w)
    (q : n2_Quiescent w) :
    w.fired = ((List.range calls.length).filter (n2f_acc E calls)).map (n2_expFire E calls) ∧
    w.resolved.Perm ((List.range calls.length).map (n2f_expRes E calls)) ∧
    (∀ p ∈ w.a.pending, p.finished = true ∧ p.id < calls.length ∧
        p.values = [n2f_val E calls p.id] ∧ p.errors = n2f_errs E calls p.id) ∧
    w.a.buf = [] ∧ w.b.buf = [] ∧ w.b.pending = [] ∧ w.aborted = false := by
  obtain ⟨s, kB, kA, ao, yo, I⟩ := h
  obtain ⟨hs, hkB, hkA, hperm, habuf, hbbuf⟩ := n2f_quiescent_ghost H I q
  have htake : ao.take kA = ao := by rw [hkA]; exact List.take_length
  refine ⟨by rw [I.fired, hkB], ?_, ?_, habuf, hbbuf, I.bpend, I.nab⟩
  · rw [I.resolved, htake]
    exact hperm.map _
  · intro p hp
    rw [I.pending, htake] at hp
    obtain ⟨i, hi, rfl⟩ := List.mem_map.mp hp
    have hi' : i < s := by
      have := (List.mem_filter.mp hi).1
      exact List.mem_range.mp this
    have hiao : i ∈ ao := hperm.mem_iff.mpr (List.mem_range.mpr (by omega))
    simp [n2f_expPend, hiao]
    omega

/-- completion, after every generator has been resumed once more: no residue -/
theorem n2f_complete_polled_reach (H : n2f_Hyp E calls) {w : n2_World} (h : n2f_Reach E calls w)
    (q : n2_Quiescent w) :
    (n2_run E w ((List.range calls.length).map n2_Step.poll)).a.pending = [] ∧
    (n2_run E w ((List.range calls.length).map n2_Step.poll)).yielded.Perm
      ((List.range calls.length).map (n2f_expYield E calls)) ∧
    n2_Quiescent (n2_run E w ((List.range calls.length).map n2_Step.poll)) ∧
    n2f_Reach E calls (n2_run E w ((List.range calls.length).map n2_Step.poll)) := by
  obtain ⟨s, kB, kA, ao, yo, I⟩ := h
  obtain ⟨hs, hkB, hkA, hperm, habuf, hbbuf⟩ := n2f_quiescent_ghost H I q
  have htake : ao.take kA = ao := by rw [hkA]; exact List.take_length
  obtain ⟨yo', I', _, hall⟩ := n2f_inv_polls (List.range calls.length) I
  have hyall : ∀ i, i < calls.length → i ∈ yo' := by
    intro i hi
    apply hall i (List.mem_range.mpr hi) (by omega)
    rw [htake]
    exact hperm.mem_iff.mpr (List.mem_range.mpr hi)
  have hq' : n2_Quiescent (n2_run E w ((List.range calls.length).map n2_Step.poll)) := by
    refine ⟨?_, ?_, ?_, ?_⟩
    · rw [I'.todo, ← I.todo]; exact q.1
    · rw [(n2_polls_wires E _ w).1]; exact q.2.1
    · rw [(n2_polls_wires E _ w).2]; exact q.2.2.1
    · rw [I'.running, ← I.running]; exact q.2.2.2
  refine ⟨?_, ?_, hq', ⟨s, kB, kA, ao, yo', I'⟩⟩
  · rw [I'.pending]
    have : (List.range s).filter (fun i => !decide (i ∈ yo')) = [] := by
      apply List.filter_eq_nil_iff.mpr
      intro i hi
      have := hyall i (by have := List.mem_range.mp hi; omega)
      simpa using this
    rw [this]; rfl
  · rw [I'.yielded]
    apply List.Perm.map
    rw [List.perm_ext_iff_of_nodup I'.yoN List.nodup_range]
    intro i
    constructor
    · intro hi
      have := I'.aoLt i (List.mem_of_mem_take (I'.yoSub i hi))
      exact List.mem_range.mpr (by omega)
    · intro hi; exact hyall i (List.mem_range.mp hi)

end

/-! ## the property theorems: every schedule from the initial world -/

/-- every schedule keeps the invariant -/
theorem n2f_reach_sched (E : n2_Env) (calls : List Ev) (H : n2f_Hyp E calls) (sched : List n2_Step) :
    n2f_Reach E calls (n2_run E (n2_init calls) sched) :=
  n2f_reach_run H sched (n2f_reach_init E calls)

/-- safety at every moment of every schedule: a rejected call is never dispatched, an accepted one
    at most once, in call order; every answer A accepts and every value a generator yields is the
    expected one for its call, at most once -/
theorem n2f_safety (E : n2_Env) (calls : List Ev) (H : n2f_Hyp E calls) (sched : List n2_Step) :
    (n2_run E (n2_init calls) sched).fired <+:
      ((List.range calls.length).filter (n2f_acc E calls)).map (n2_expFire E calls) ∧
    (∃ order : List Nat, order.Nodup ∧ (∀ i ∈ order, i < calls.length) ∧
        (n2_run E (n2_init calls) sched).resolved = order.map (n2f_expRes E calls)) ∧
    (∃ yo : List Nat, yo.Nodup ∧
        (∀ i ∈ yo, n2f_expRes E calls i ∈ (n2_run E (n2_init calls) sched).resolved) ∧
        (n2_run E (n2_init calls) sched).yielded = yo.map (n2f_expYield E calls)) ∧
    (n2_run E (n2_init calls) sched).aborted = false :=
  n2f_safety_reach (n2f_reach_sched E calls H sched)

/-- the caller of a rejected call can only ever be resumed with `[null]` -/
theorem n2f_rejected_value (E : n2_Env) (calls : List Ev) (i : Nat)
    (h : n2f_acc E calls i = false) : n2f_val E calls i = .null := by
  simp [n2f_val, h]

theorem n2f_rejected_yield (E : n2_Env) (calls : List Ev) (i : Nat)
    (h : n2f_acc E calls i = false) :
    n2f_expYield E calls i = (i, [.null], n2f_errs E calls i) := by
  simp [n2f_expYield, n2f_rejected_value E calls i h]

theorem n2f_accepted_value (E : n2_Env) (calls : List Ev) (i : Nat)
    (h : n2f_acc E calls i = true) :
    n2f_val E calls i = ((E.beh (n2f_rank E calls i) (n2_evB E calls i)).getD (.null, [])).1 := by
  simp [n2f_val, h]

/-- completion of every schedule that ends quiescent -/
theorem n2f_complete (E : n2_Env) (calls : List Ev) (H : n2f_Hyp E calls) (sched : List n2_Step)
    (q : n2_Quiescent (n2_run E (n2_init calls) sched)) :
    (n2_run E (n2_init calls) sched).fired =
      ((List.range calls.length).filter (n2f_acc E calls)).map (n2_expFire E calls) ∧
    (n2_run E (n2_init calls) sched).resolved.Perm ((List.range calls.length).map (n2f_expRes E calls)) ∧
    (∀ p ∈ (n2_run E (n2_init calls) sched).a.pending, p.finished = true ∧ p.id < calls.length ∧
        p.values = [n2f_val E calls p.id] ∧ p.errors = n2f_errs E calls p.id) ∧
    (n2_run E (n2_init calls) sched).a.buf = [] ∧ (n2_run E (n2_init calls) sched).b.buf = [] ∧
    (n2_run E (n2_init calls) sched).b.pending = [] ∧
    (n2_run E (n2_init calls) sched).aborted = false :=
  n2f_complete_reach H (n2f_reach_sched E calls H sched) q

/-- ... and after every generator has been resumed once more: no residue, every call yielded -/
theorem n2f_complete_polled (E : n2_Env) (calls : List Ev) (H : n2f_Hyp E calls) (sched : List n2_Step)
    (q : n2_Quiescent (n2_run E (n2_init calls) sched)) :
    (n2_run E (n2_init calls) (sched ++ (List.range calls.length).map n2_Step.poll)).a.pending = [] ∧
    (n2_run E (n2_init calls) (sched ++ (List.range calls.length).map n2_Step.poll)).yielded.Perm
      ((List.range calls.length).map (n2f_expYield E calls)) ∧
    n2_Quiescent (n2_run E (n2_init calls) (sched ++ (List.range calls.length).map n2_Step.poll)) := by
  rw [n2_run_append]
  obtain ⟨h1, h2, h3, _⟩ := n2f_complete_polled_reach H (n2f_reach_sched E calls H sched) q
  exact ⟨h1, h2, h3⟩

/-! ## when every call is accepted: the hypotheses and expectations of NodeTwo.lean -/

section
variable {E : n2_Env} {calls : List Ev}

theorem n2f_rank_all (h : ∀ i < calls.length, n2f_acc E calls i = true) :
    ∀ i, i ≤ calls.length → n2f_rank E calls i = i := by
  intro i
  induction i with
  | zero => intro _; simp [n2f_rank]
  | succ k ih =>
    intro hk
    rw [n2f_rank_succ, ih (by omega), h k (by omega)]
    simp

theorem n2f_val_of_hyp (H : n2_Hyp E calls) (i : Nat) (hi : i < calls.length) :
    n2f_val E calls i = n2_val E calls i ∧ n2f_ats E calls i = n2_ats E calls i := by
  have ha : n2f_acc E calls i = true := H.recvOk i hi
  have hr := n2f_rank_all (E := E) (calls := calls) (fun j hj => H.recvOk j hj) i (by omega)
  simp [n2f_val, n2f_ats, n2_val, n2_ats, ha, hr]

theorem n2f_ansJ_of_hyp (H : n2_Hyp E calls) (i : Nat) (hi : i < calls.length) :
    n2f_ansJ E calls i = n2_ansJ E calls i := by
  obtain ⟨h1, h2⟩ := n2f_val_of_hyp H i hi
  simp [n2f_ansJ, n2_ansJ, h1, h2]

/-- the hypotheses of NodeTwo.lean are the special case "nothing is rejected" -/
theorem n2f_hyp_of_hyp (H : n2_Hyp E calls) : n2f_Hyp E calls where
  codec := H.codec
  wf := H.wf
  sendOk := H.sendOk
  returns := by
    intro i hi _
    rw [n2f_rank_all (E := E) (calls := calls) (fun j hj => H.recvOk j hj) i (by omega)]
    exact H.returns i hi
  callParse := H.callParse
  callGood := H.callGood
  ansParse := by
    intro i hi
    have := H.ansParse i hi
    simpa [n2f_ansPkt, n2_ansPkt, n2f_ansJ_of_hyp H i hi] using this
  ansGood := by
    intro i hi
    have := H.ansGood i hi
    simpa [n2f_ansPkt, n2_ansPkt, n2f_ansJ_of_hyp H i hi] using this

end

end Node
end CV

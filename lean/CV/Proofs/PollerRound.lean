import CV.Proofs.PollerSim
/-
C10: one poll round — the events satisfy the observer's per-round predicate and the
simulation is kept (Select here; Poll/EPoll below).
-/
namespace CV
namespace Poller

theorem roundFail_none {σ : Spec} {fs rd es} :
    roundFail σ fs rd es = none ↔
      (∀ e ∈ es, evFail σ rd e = none) ∧ (σ.blind = true ∨ ∀ f ∈ fs, complFail σ rd es f = none) := by
  unfold roundFail
  cases h : es.findSome? (evFail σ rd) with
  | some c =>
    constructor
    · intro x; cases x
    · rintro ⟨h2, _⟩
      have := List.findSome?_eq_none_iff.mpr h2
      rw [h] at this; cases this
  | none =>
    have h1 := List.findSome?_eq_none_iff.mp h
    by_cases b : σ.blind = true
    · simp [b]; exact h1
    · have b' : σ.blind = false := by simpa using b
      simp only [b', Bool.false_eq_true, if_false, List.findSome?_eq_none_iff, false_or]
      exact ⟨fun x => ⟨h1, x⟩, fun x => x.2⟩

theorem has_iff {k : EvKind} {o : Obj} {es : List Event} :
    has k o es = true ↔ ∃ c, (⟨k, o, c⟩ : Event) ∈ es := by
  simp only [has, List.any_eq_true, Bool.and_eq_true, decide_eq_true_eq]
  constructor
  · rintro ⟨e, he, h1, h2⟩
    refine ⟨e.chan, ?_⟩
    cases e; simp_all
  · rintro ⟨c, hc⟩; exact ⟨_, hc, rfl, rfl⟩

/-! ### sufficient conditions for an event to be allowed -/

theorem isSome_ne_none {α} {x : Option α} (h : x.isSome = true) : x ≠ none := by
  intro e; rw [e] at h; simp at h

theorem evFail_read_ok {σ : Spec} {rd : Nat → Bits} {o : Obj} {ch : Option Chan} {f : Nat}
    (hreg : σ.registered o = true) (ht : ch = σ.tgt o) (hs : ch.isSome = true) (hf : σ.w.fno o = some f)
    (hr : σ.regR o ≠ 0) (hb : selReadable (rd f) = true) : evFail σ rd ⟨.read, o, ch⟩ = none := by
  subst ht
  simp [evFail, hreg, isSome_ne_none hs, hf, hr, hb]

theorem evFail_write_ok {σ : Spec} {rd : Nat → Bits} {o : Obj} {ch : Option Chan} {f : Nat}
    (hreg : σ.registered o = true) (ht : ch = σ.tgt o) (hs : ch.isSome = true) (hf : σ.w.fno o = some f)
    (hr : σ.regW o ≠ 0) (hb : selWritable (rd f) = true) : evFail σ rd ⟨.write, o, ch⟩ = none := by
  subst ht
  simp [evFail, hreg, isSome_ne_none hs, hf, hr, hb]

theorem evFail_disc_closed_ok {σ : Spec} {rd : Nat → Bits} {o : Obj} {ch : Option Chan}
    (hreg : σ.registered o = true) (ht : ch = σ.tgt o) (hs : ch.isSome = true) (hf : σ.w.fno o = none) :
    evFail σ rd ⟨.disconnect, o, ch⟩ = none := by
  subst ht
  simp [evFail, hreg, isSome_ne_none hs, hf]

theorem evFail_disc_open_ok {σ : Spec} {rd : Nat → Bits} {o : Obj} {ch : Option Chan} {f : Nat}
    (hreg : σ.registered o = true) (ht : ch = σ.tgt o) (hs : ch.isSome = true) (hf : σ.w.fno o = some f)
    (hh : ((rd f).hup || (rd f).err) = true) (hi : ¬ (0 < σ.regR o ∧ (rd f).inn = true)) :
    evFail σ rd ⟨.disconnect, o, ch⟩ = none := by
  subst ht
  simp only [evFail, hreg, Bool.not_true, Bool.false_eq_true, if_false, ne_eq, not_true_eq_false, false_or,
    Option.isNone_iff_eq_none, isSome_ne_none hs, hf, hh, if_neg hi]

/-! ## Select -/

theorem foldl_baseDiscard_fields (L : List Obj) (s : State) :
    (∀ a, (L.foldl baseDiscard s).read.count a = if a ∈ L then 0 else s.read.count a) ∧
    (∀ a, (L.foldl baseDiscard s).write.count a = if a ∈ L then 0 else s.write.count a) ∧
    (∀ a, (L.foldl baseDiscard s).targets a = if a ∈ L then none else s.targets a) ∧
    (L.foldl baseDiscard s).w = s.w ∧ (L.foldl baseDiscard s).kind = s.kind := by
  induction L generalizing s with
  | nil => simp
  | cons x L ih =>
    obtain ⟨h1, h2, h3, h4, h5⟩ := ih (baseDiscard s x)
    simp only [List.foldl_cons]
    refine ⟨?_, ?_, ?_, ?_, ?_⟩
    · intro a; rw [h1]; simp only [baseDiscard, count_filter_ne, List.mem_cons]
      by_cases e : a = x <;> by_cases m : a ∈ L <;> simp [e, m]
    · intro a; rw [h2]; simp only [baseDiscard, count_filter_ne, List.mem_cons]
      by_cases e : a = x <;> by_cases m : a ∈ L <;> simp [e, m]
    · intro a; rw [h3]; simp only [baseDiscard, upd_apply, List.mem_cons]
      by_cases e : a = x <;> by_cases m : a ∈ L <;> simp [e, m]
    · rw [h4]; rfl
    · rw [h5]; rfl

theorem mem_preenList {s : State} {a : Obj} :
    a ∈ (s.read ++ s.write).filter (closedIn s) ↔ (a ∈ s.read ∨ a ∈ s.write) ∧ s.w.fno a = none := by
  simp only [closedIn, List.mem_filter, List.mem_append, Option.isNone_iff_eq_none]

theorem rel_selectRound {s : State} {σ : Spec} (rd) (h : Rel s σ) (hs : s.kind = .select) :
    Rel (selectRound s rd).1 { σ with pend := [] } := by
  obtain ⟨w, le, eq, pend, unk⟩ := h
  unfold selectRound
  split
  · obtain ⟨h1, h2, h3, h4, h5⟩ := foldl_baseDiscard_fields ((s.read ++ s.write).filter (closedIn s)) s
    constructor <;> simp only [preen, h4, h5]
    · exact w
    · intro a; have := le a; rw [h1, h2]; split <;> simp_all
    · intro a ha
      have hop : (s.w.fno a).isSome := by
        rcases ha with ha | ha
        · exact absurd hs ha
        · exact ha
      have nm : a ∉ (s.read ++ s.write).filter (closedIn s) := by
        rw [mem_preenList]; intro x; rw [x.2] at hop; simp at hop
      rw [h1, h2, h3]; simp only [nm, if_false]
      exact eq a (Or.inr hop)
    · intro _ a hf hm
      exfalso
      have r := h1 a
      have wq := h2 a
      by_cases x : a ∈ (s.read ++ s.write).filter (closedIn s)
      · rw [if_pos x] at r wq
        rcases hm with hm | hm
        · have := mem_iff_count.mp hm; omega
        · have := mem_iff_count.mp hm; omega
      · apply x; rw [mem_preenList]
        rw [if_neg x] at r wq
        refine ⟨?_, hf⟩
        rcases hm with hm | hm
        · left; apply mem_iff_count.mpr; have := mem_iff_count.mp hm; omega
        · right; apply mem_iff_count.mpr; have := mem_iff_count.mp hm; omega
    · exact unk
  · next hn =>
    show Rel s { σ with pend := [] }
    constructor <;> try assumption
    intro _ a hf hm
    exfalso; apply hn
    simp only [List.any_eq_true, List.mem_append]
    exact ⟨a, hm, by simp [closedIn, hf]⟩

theorem bitsOf_sel {s : State} {rd : Nat → Bits} {o : Obj} (h : selReadable (bitsOf s rd o) = true ∨ selWritable (bitsOf s rd o) = true) :
    ∃ f, s.w.fno o = some f ∧ bitsOf s rd o = rd f := by
  unfold bitsOf at h ⊢
  cases hf : s.w.fno o with
  | none => simp [hf, selReadable, selWritable] at h
  | some f => exact ⟨f, rfl, rfl⟩

theorem ok_selectRound {s : State} {σ : Spec} (fs rd) (h : Rel s σ) (p : PInv s) (hs : s.kind = .select) :
    roundFail σ fs rd (selectRound s rd).2 = none := by
  obtain ⟨w, le, eq, pend, unk⟩ := h
  rw [roundFail_none]
  unfold selectRound
  split
  · next hp =>
    refine ⟨by simp, Or.inl ?_⟩
    -- a closed descriptor is listed: the observer has it pending
    simp only [List.any_eq_true, List.mem_append] at hp
    obtain ⟨a, hm, hc⟩ := hp
    have hf : s.w.fno a = none := by simpa [closedIn] using hc
    simp only [Spec.blind, List.any_eq_true]
    refine ⟨a, pend hs a hf hm, ?_⟩
    rw [registered_iff]
    have := le a
    simp only [mem_iff_count] at hm; omega
  · next hp =>
    constructor
    · intro e he
      simp only [List.mem_append, List.mem_map, List.mem_filter] at he
      rcases he with ⟨o, ⟨hm, hb⟩, rfl⟩ | ⟨o, ⟨hm, hb⟩, rfl⟩
      · obtain ⟨f, hf, hbits⟩ := bitsOf_sel (Or.inr hb)
        have e := eq o (Or.inr (by simp [hf]))
        have t := p.T o (Or.inr hm)
        have hc : 0 < s.write.count o := mem_iff_count.mp hm
        have hreg : σ.registered o = true := by rw [registered_iff]; omega
        have hw : σ.regW o ≠ 0 := by omega
        rw [hbits] at hb
        rw [w] at hf
        exact evFail_write_ok hreg e.2.2 t hf hw hb
      · obtain ⟨f, hf, hbits⟩ := bitsOf_sel (Or.inl hb)
        have e := eq o (Or.inr (by simp [hf]))
        have t := p.T o (Or.inl hm)
        have hc : 0 < s.read.count o := mem_iff_count.mp hm
        have hreg : σ.registered o = true := by rw [registered_iff]; omega
        have hw : σ.regR o ≠ 0 := by omega
        rw [hbits] at hb
        rw [w] at hf
        exact evFail_read_ok hreg e.2.2 t hf hw hb
    · right
      intro f _
      unfold complFail
      cases ho : σ.w.owner f with
      | none => rfl
      | some o =>
        have hf : s.w.fno o = some f := by rw [w]; exact p.W.of _ _ (by rw [w] at *; exact ho) |> fun x => by simpa [w] using x
        have e := eq o (Or.inr (by simp [hf]))
        have hbits : bitsOf s rd o = rd f := by simp [bitsOf, hf]
        have hr : 0 < σ.regR o → selReadable (rd f) = true → has .read o
            ((s.write.filter (fun o => selWritable (bitsOf s rd o))).map (fun o => (⟨.write, o, s.targets o⟩ : Event))
             ++ (s.read.filter (fun o => selReadable (bitsOf s rd o))).map (fun o => ⟨.read, o, s.targets o⟩)) = true := by
          intro h1 h2
          rw [has_iff]; refine ⟨s.targets o, ?_⟩
          simp only [List.mem_append, List.mem_map, List.mem_filter]
          right; exact ⟨o, ⟨mem_iff_count.mpr (by omega), by rw [hbits]; exact h2⟩, rfl⟩
        have hwq : 0 < σ.regW o → selWritable (rd f) = true → has .write o
            ((s.write.filter (fun o => selWritable (bitsOf s rd o))).map (fun o => (⟨.write, o, s.targets o⟩ : Event))
             ++ (s.read.filter (fun o => selReadable (bitsOf s rd o))).map (fun o => ⟨.read, o, s.targets o⟩)) = true := by
          intro h1 h2
          rw [has_iff]; refine ⟨s.targets o, ?_⟩
          simp only [List.mem_append, List.mem_map, List.mem_filter]
          left; exact ⟨o, ⟨mem_iff_count.mpr (by omega), by rw [hbits]; exact h2⟩, rfl⟩
        simp only []
        have inn_sel : (rd f).inn = true → selReadable (rd f) = true := by intro x; simp [selReadable, x]
        have out_sel : (rd f).out = true → selWritable (rd f) = true := by intro x; simp [selWritable, x]
        split
        · next c => have := hr c.1 (inn_sel c.2.1); simp [this] at c
        · split
          · next c => have := hr c.1 c.2.1; simp [this] at c
          · split
            · next c => have := hwq c.1 (out_sel c.2.1); simp [this] at c
            · split
              · next c => have := hwq c.1 (out_sel c.2.1); simp [this] at c
              · rfl


/-! ## Poll / EPoll -/

/-- what one `_process` call does: nothing to the state and only read/write events, or the
    disconnect branch -/
theorem process_cases (s : State) (f : Nat) (ev : Rev) :
    (∃ es, process s f ev = (s, es) ∧ ∀ e ∈ es, e.kind ≠ .disconnect) ∨
    (∃ o, s.map f = some o ∧ process s f ev = (discState s f o, [⟨.disconnect, o, s.targets o⟩])) := by
  unfold process
  cases hm : s.map f with
  | none => left; exact ⟨[], rfl, by simp⟩
  | some o =>
    simp only []
    split
    · right; exact ⟨o, rfl, rfl⟩
    · left; refine ⟨_, rfl, ?_⟩
      intro e he
      simp only [List.mem_append] at he
      rcases he with he | he
      · split at he
        · simp at he; subst he; simp
        · simp at he
      · split at he
        · simp at he; subst he; simp
        · simp at he

theorem map_inj {s : State} (p : PInv s) {f f' : Nat} {o : Obj} (a : s.map f = some o) (b : s.map f' = some o) : f = f' := by
  have x := p.M _ _ a; have y := p.M _ _ b; rw [x] at y; simpa using y

/-- processing another number first does not change what is fired for `f` -/
theorem process_events_frame {s : State} (p : PInv s) {f f' : Nat} (ev ev' : Rev) (ne : f ≠ f') :
    (process (process s f' ev').1 f ev).2 = (process s f ev).2 := by
  rcases process_cases s f' ev' with ⟨es, h, _⟩ | ⟨o', hm', h⟩
  · rw [h]
  · rw [h]
    unfold process
    have hmap : (discState s f' o').map f = s.map f := by simp [discState, upd_other _ _ _ _ ne]
    rw [hmap]
    cases hm : s.map f with
    | none => rfl
    | some o =>
      have neo : o ≠ o' := by intro e; subst e; exact ne (map_inj p hm hm')
      have ht : (discState s f' o').targets o = s.targets o := by
        simp [discState, baseDiscard, unregister, upd_other _ _ _ _ neo]
      have he : effRev (discState s f' o') f o ev = effRev s f o ev := by
        simp [effRev, discState, baseDiscard, unregister]
      simp only [he, ht]
      have hk : (discState s f' o').kind = s.kind := by simp [discState, baseDiscard, unregister]
      rw [hk]
      split <;> rfl

theorem flatMap_congr' {α β : Type} {l : List α} {f g : α → List β} (h : ∀ a ∈ l, f a = g a) :
    l.flatMap f = l.flatMap g := by
  induction l with
  | nil => rfl
  | cons a l ih =>
    simp only [List.flatMap_cons]
    rw [h a (by simp), ih (fun b hb => h b (by simp [hb]))]

theorem processAll_events {s : State} (p : PInv s) (t : List (Nat × Rev)) (nd : (t.map Prod.fst).Nodup) :
    (processAll s t).2 = t.flatMap (fun q => (process s q.1 q.2).2) := by
  induction t generalizing s with
  | nil => rfl
  | cons a t ih =>
    obtain ⟨f, ev⟩ := a
    simp only [List.map_cons, List.nodup_cons] at nd
    simp only [processAll, List.flatMap_cons]
    rw [ih (pinv_process f ev p) nd.2]
    congr 1
    apply flatMap_congr'
    intro q hq
    have ne : q.1 ≠ f := by
      intro e; apply nd.1; rw [← e]; exact List.mem_map_of_mem hq
    exact process_events_frame p q.2 ev ne

theorem tape_mem {s : State} {fs rd} {f : Nat} {ev : Rev} :
    (f, ev) ∈ tape s fs rd ↔ f ∈ fs ∧ kernelRev s rd f = some ev := by
  simp only [tape, List.mem_filterMap, Option.map_eq_some_iff]
  constructor
  · rintro ⟨a, ha, b, hb, e⟩; cases e; exact ⟨ha, hb⟩
  · rintro ⟨h1, h2⟩; exact ⟨f, h1, ev, h2, rfl⟩

theorem tape_fst (s : State) (fs rd) : (tape s fs rd).map Prod.fst = fs.filter (fun f => (kernelRev s rd f).isSome) := by
  induction fs with
  | nil => rfl
  | cons a fs ih =>
    simp only [tape, List.filterMap_cons, List.filter_cons] at ih ⊢
    cases h : kernelRev s rd a with
    | none => simpa using ih
    | some ev => simpa using ih

theorem tape_nodup (s : State) {fs} (rd) (nd : fs.Nodup) : ((tape s fs rd).map Prod.fst).Nodup := by
  rw [tape_fst]; exact nd.filter _

theorem discState_fields (s : State) (f : Nat) (o : Obj) :
    (discState s f o).read = (baseDiscard s o).read ∧ (discState s f o).write = (baseDiscard s o).write ∧
    (discState s f o).targets = (baseDiscard s o).targets ∧ (discState s f o).w = (baseDiscard s o).w ∧
    (discState s f o).kind = (baseDiscard s o).kind := by
  simp [discState, baseDiscard, unregister]

theorem disconnected_nil_of {es : List Event} (h : ∀ e ∈ es, e.kind ≠ .disconnect) : disconnected es = [] := by
  simp only [disconnected, List.map_eq_nil_iff, List.filter_eq_nil_iff, decide_eq_true_eq]
  exact h

theorem disconnected_append (a b : List Event) : disconnected (a ++ b) = disconnected a ++ disconnected b := by
  simp [disconnected]

theorem rel_process {s : State} {σ : Spec} (f : Nat) (ev : Rev) (h : Rel s σ) :
    Rel (process s f ev).1 ((disconnected (process s f ev).2).foldl Spec.discard σ) := by
  rcases process_cases s f ev with ⟨es, e, hes⟩ | ⟨o, hm, e⟩
  · rw [e]; simp only [disconnected_nil_of hes, List.foldl_nil]; exact h
  · rw [e]
    simp only [disconnected, List.filter_cons, decide_true, if_true, List.filter_nil, List.map_cons, List.map_nil,
      List.foldl_cons, List.foldl_nil]
    obtain ⟨a, b, c, d, k⟩ := discState_fields s f o
    exact rel_of_frame (rel_discard o h) a b c d k

theorem rel_processAll {s : State} {σ : Spec} (t : List (Nat × Rev)) (h : Rel s σ) :
    Rel (processAll s t).1 ((disconnected (processAll s t).2).foldl Spec.discard σ) := by
  induction t generalizing s σ with
  | nil => exact h
  | cons a t ih =>
    obtain ⟨f, ev⟩ := a
    simp only [processAll, disconnected_append, List.foldl_append]
    exact ih (rel_process f ev h)

theorem rel_clear_pend {s : State} {σ : Spec} (h : Rel s σ) (hk : s.kind ≠ .select) : Rel s { σ with pend := [] } := by
  obtain ⟨w, le, eq, pend, unk⟩ := h
  constructor <;> try assumption
  intro x; exact absurd x hk


def openRev (s : State) (rd : Nat → Bits) (f : Nat) : Rev :=
  ⟨s.kin f && (rd f).inn, s.kout f && (rd f).out, (rd f).hup, (rd f).err, false⟩

theorem kernelRev_some {s : State} {rd : Nat → Bits} {f : Nat} {ev : Rev} (h : kernelRev s rd f = some ev) :
    (s.kin f = true ∨ s.kout f = true) ∧
    ((s.w.owner f = none ∧ s.kind = .poll ∧ ev = Rev.nvalOnly) ∨
     (∃ o, s.w.owner f = some o ∧ ev = openRev s rd f)) := by
  unfold kernelRev at h
  split at h
  · next hk =>
    refine ⟨by simpa using hk, ?_⟩
    split at h
    · next ho =>
      split at h
      · next hp => left; simp at h; exact ⟨ho, hp, h.symm⟩
      · simp at h
    · next o ho =>
      right; refine ⟨o, ho, ?_⟩
      simp only [] at h
      split at h
      · simp at h; exact h.symm
      · simp at h
  · simp at h

theorem kernelRev_open {s : State} {rd : Nat → Bits} {f : Nat} {o : Obj} (hk : s.kin f = true ∨ s.kout f = true)
    (ho : s.w.owner f = some o)
    (hne : ((openRev s rd f).inn || (openRev s rd f).out || (openRev s rd f).hup || (openRev s rd f).err) = true) :
    kernelRev s rd f = some (openRev s rd f) := by
  unfold kernelRev
  have : (s.kin f || s.kout f) = true := by simpa using hk
  simp only [this, if_true, ho]
  simp only [openRev] at hne ⊢
  simp only [hne, if_true]

theorem sound_process {s : State} {σ : Spec} (h : Rel s σ) (p : PInv s) (hk : s.kind ≠ .select)
    {rd : Nat → Bits} {f : Nat} {ev : Rev} (ht : kernelRev s rd f = some ev) :
    ∀ e ∈ (process s f ev).2, evFail σ rd e = none := by
  obtain ⟨hreg, hcase⟩ := kernelRev_some ht
  obtain ⟨o, hm, hin, hep⟩ := p.K1 f hreg
  have hin : o ∈ s.read ∨ o ∈ s.write := by simpa using hin
  have e := h.eq o (Or.inl hk)
  have t := p.T o hin
  have registered : σ.registered o = true := by
    rw [registered_iff]; simp only [mem_iff_count] at hin; omega
  have tg : s.targets o = σ.tgt o := e.2.2
  unfold process
  simp only [hm]
  by_cases fresh : s.w.fno o = some f
  · -- the mapped object still has the number
    have ho : s.w.owner f = some o := p.W.fo _ _ fresh
    have hev : ev = openRev s rd f := by
      rcases hcase with ⟨x, _, _⟩ | ⟨o', ho', hev⟩
      · rw [ho] at x; cases x
      · exact hev
    have k2 := p.K2 o f (by simp) hk fresh hin
    have heff : effRev s f o ev = ev := by simp [effRev, fresh]
    rw [heff]
    have hf' : σ.w.fno o = some f := by rw [← h.w]; exact fresh
    split
    · next hd =>
      intro x hx; simp at hx; subst hx
      simp only [Bool.and_eq_true, Bool.not_eq_true'] at hd
      obtain ⟨hd1, hd2⟩ := hd
      apply evFail_disc_open_ok registered tg t hf'
      · simp only [disconnectedFlag, hev, openRev] at hd1; simpa using hd1
      · rintro ⟨a, b⟩
        have : o ∈ s.read := mem_iff_count.mpr (by omega)
        simp [hev, openRev, k2.2.1, this, b] at hd2
    · intro x hx
      simp only [List.mem_append] at hx
      rcases hx with hx | hx
      · split at hx
        · next hi =>
          simp at hx; subst hx
          simp only [hev, openRev, Bool.and_eq_true, k2.2.1, decide_eq_true_eq] at hi
          apply evFail_read_ok registered tg t hf'
          · have := mem_iff_count.mp hi.1; omega
          · simp [selReadable, hi.2]
        · simp at hx
      · split at hx
        · next hi =>
          simp at hx; subst hx
          simp only [hev, openRev, Bool.and_eq_true, k2.2.2, decide_eq_true_eq] at hi
          apply evFail_write_ok registered tg t hf'
          · have := mem_iff_count.mp hi.1; omega
          · simp [selWritable, hi.2]
        · simp at hx
  · -- stale: the object was closed while registered (Poll only)
    have hpoll : s.kind = .poll := by
      cases hkk : s.kind with
      | select => exact absurd hkk hk
      | poll => rfl
      | epoll => exact absurd (hep hkk) fresh
    have hclosed : s.w.fno o = none := by
      cases hh : s.w.fno o with
      | none => rfl
      | some f' =>
        have a := p.W.orig _ _ hh; have b := p.M _ _ hm
        rw [a] at b; simp at b; subst b; exact absurd hh fresh
    have heff : effRev s f o ev = Rev.nvalOnly := by simp [effRev, hpoll, fresh]
    rw [heff]
    simp only [disconnectedFlag, hpoll, Rev.nvalOnly]
    intro x hx; simp at hx; subst hx
    exact evFail_disc_closed_ok registered tg t (by rw [← h.w]; exact hclosed)


/-- what is fired for an open, listed object whose number the kernel reports -/
theorem emit_open {s : State} (p : PInv s) (hk : s.kind ≠ .select) {rd : Nat → Bits} {f : Nat} {o : Obj}
    (hf : s.w.fno o = some f) (hin : o ∈ s.read ∨ o ∈ s.write) :
    (process s f (openRev s rd f)).2 =
      if (((rd f).hup || (rd f).err) && !(decide (o ∈ s.read) && (rd f).inn)) = true then
        [⟨.disconnect, o, s.targets o⟩]
      else (if (decide (o ∈ s.read) && (rd f).inn) = true then [⟨.read, o, s.targets o⟩] else [])
        ++ (if (decide (o ∈ s.write) && (rd f).out) = true then [⟨.write, o, s.targets o⟩] else []) := by
  have k2 := p.K2 o f (by simp) hk hf hin
  unfold process
  simp only [k2.1]
  have heff : effRev s f o (openRev s rd f) = openRev s rd f := by simp [effRev, hf]
  rw [heff]
  simp only [disconnectedFlag, openRev, k2.2.1, k2.2.2, Bool.and_false, Bool.or_false]
  split <;> rfl

theorem complete_poll {s : State} {σ : Spec} (h : Rel s σ) (p : PInv s) (hk : s.kind ≠ .select)
    {fs : List Nat} (rd : Nat → Bits) (nd : fs.Nodup) {f : Nat} (hfs : f ∈ fs) :
    complFail σ rd (processAll s (tape s fs rd)).2 f = none := by
  rw [processAll_events p _ (tape_nodup s rd nd)]
  unfold complFail
  cases ho : σ.w.owner f with
  | none => rfl
  | some o =>
    have ho' : s.w.owner f = some o := by rw [h.w]; exact ho
    have hf : s.w.fno o = some f := p.W.of _ _ ho'
    have e := h.eq o (Or.inl hk)
    -- whatever `_process` fires for (f, openRev) is among the round's events
    have sub : ∀ x, (o ∈ s.read ∨ o ∈ s.write) →
        ((openRev s rd f).inn || (openRev s rd f).out || (openRev s rd f).hup || (openRev s rd f).err) = true →
        x ∈ (process s f (openRev s rd f)).2 →
        x ∈ (tape s fs rd).flatMap (fun q => (process s q.1 q.2).2) := by
      intro x hin hne hx
      have k2 := p.K2 o f (by simp) hk hf hin
      have hreg : s.kin f = true ∨ s.kout f = true := by
        rcases hin with a | a
        · left; simp [k2.2.1, a]
        · right; simp [k2.2.2, a]
      rw [List.mem_flatMap]
      exact ⟨(f, openRev s rd f), tape_mem.mpr ⟨hfs, kernelRev_open hreg ho' hne⟩, hx⟩
    simp only []
    have memR : 0 < σ.regR o → o ∈ s.read := fun x => mem_iff_count.mpr (by omega)
    have memW : 0 < σ.regW o → o ∈ s.write := fun x => mem_iff_count.mpr (by omega)
    split
    · next c =>
      exfalso
      obtain ⟨c1, c2, c3⟩ := c
      have hin := Or.inl (b := o ∈ s.write) (memR c1)
      have hne : ((openRev s rd f).inn || (openRev s rd f).out || (openRev s rd f).hup || (openRev s rd f).err) = true := by
        have k2 := p.K2 o f (by simp) hk hf hin
        simp [openRev, k2.2.1, memR c1, c2]
      have : (⟨.read, o, s.targets o⟩ : Event) ∈ (process s f (openRev s rd f)).2 := by
        rw [emit_open p hk hf hin]; simp [memR c1, c2]
      have := has_iff.mpr ⟨_, sub _ hin hne this⟩
      simp [this] at c3
    · split
      · next c =>
        exfalso
        obtain ⟨c1, c2, c3⟩ := c
        have hin := Or.inl (b := o ∈ s.write) (memR c1)
        have k2 := p.K2 o f (by simp) hk hf hin
        have hne : ((openRev s rd f).inn || (openRev s rd f).out || (openRev s rd f).hup || (openRev s rd f).err) = true := by
          simp only [selReadable, Bool.or_eq_true] at c2
          simp only [openRev, k2.2.1, memR c1, decide_true, Bool.true_and]
          rcases c2 with (c2 | c2) | c2 <;> simp [c2]
        by_cases hd : (((rd f).hup || (rd f).err) && !(decide (o ∈ s.read) && (rd f).inn)) = true
        · have : (⟨.disconnect, o, s.targets o⟩ : Event) ∈ (process s f (openRev s rd f)).2 := by
            rw [emit_open p hk hf hin, if_pos hd]; simp
          have := has_iff.mpr ⟨_, sub _ hin hne this⟩
          simp [this] at c3
        · have hi : (rd f).inn = true := by
            simp only [selReadable, Bool.or_eq_true] at c2
            simp only [memR c1, decide_true, Bool.true_and, Bool.and_eq_true, Bool.or_eq_true, Bool.not_eq_true',
              not_and, Bool.not_eq_false] at hd
            rcases c2 with (c2 | c2) | c2
            · exact c2
            · exact hd (Or.inl c2)
            · exact hd (Or.inr c2)
          have : (⟨.read, o, s.targets o⟩ : Event) ∈ (process s f (openRev s rd f)).2 := by
            rw [emit_open p hk hf hin, if_neg hd]; simp [memR c1, hi]
          have := has_iff.mpr ⟨_, sub _ hin hne this⟩
          simp [this] at c3
      · split
        · next c =>
          exfalso
          obtain ⟨c1, c2, c3, c4, c5⟩ := c
          have hin := Or.inr (a := o ∈ s.read) (memW c1)
          have k2 := p.K2 o f (by simp) hk hf hin
          have hne : ((openRev s rd f).inn || (openRev s rd f).out || (openRev s rd f).hup || (openRev s rd f).err) = true := by
            simp [openRev, k2.2.2, memW c1, c2]
          have : (⟨.write, o, s.targets o⟩ : Event) ∈ (process s f (openRev s rd f)).2 := by
            rw [emit_open p hk hf hin]
            simp only [Bool.not_eq_true'] at c3 c4
            simp [c3, c4, memW c1, c2]
          have := has_iff.mpr ⟨_, sub _ hin hne this⟩
          simp [this] at c5
        · split
          · next c =>
            exfalso
            obtain ⟨c1, c2, c3⟩ := c
            have hin := Or.inr (a := o ∈ s.read) (memW c1)
            have k2 := p.K2 o f (by simp) hk hf hin
            have hne : ((openRev s rd f).inn || (openRev s rd f).out || (openRev s rd f).hup || (openRev s rd f).err) = true := by
              simp [openRev, k2.2.2, memW c1, c2]
            by_cases hd : (((rd f).hup || (rd f).err) && !(decide (o ∈ s.read) && (rd f).inn)) = true
            · have : (⟨.disconnect, o, s.targets o⟩ : Event) ∈ (process s f (openRev s rd f)).2 := by
                rw [emit_open p hk hf hin, if_pos hd]; simp
              have := has_iff.mpr ⟨_, sub _ hin hne this⟩
              simp [this] at c3
            · have : (⟨.write, o, s.targets o⟩ : Event) ∈ (process s f (openRev s rd f)).2 := by
                rw [emit_open p hk hf hin, if_neg hd]; simp [memW c1, c2]
              have := has_iff.mpr ⟨_, sub _ hin hne this⟩
              simp [this] at c3
          · rfl

theorem ok_pollRound {s : State} {σ : Spec} (h : Rel s σ) (p : PInv s) (hk : s.kind ≠ .select)
    {fs : List Nat} (rd : Nat → Bits) (nd : fs.Nodup) :
    roundFail σ fs rd (processAll s (tape s fs rd)).2 = none := by
  rw [roundFail_none]
  constructor
  · rw [processAll_events p _ (tape_nodup s rd nd)]
    intro e he
    rw [List.mem_flatMap] at he
    obtain ⟨⟨f, ev⟩, hq, he⟩ := he
    exact sound_process h p hk (tape_mem.mp hq).2 e he
  · right; intro f hf; exact complete_poll h p hk rd nd hf

end Poller
end CV

import CV.Model.HttpServerErr
import CV.Proofs.HttpServer
import CV.Proofs.HttpSeq
/-
Helper lemmas for C14: association-list tables, the frame property of `step`, error responses
are delimited and closing, the acceptance conditions behind a `dispatch`.
-/
namespace CV
namespace Http14
open Http

/-! ### the tables -/

theorem lookup_del_self {α} (l : List (Nat × α)) (k : Nat) : (del l k).lookup k = none := by
  induction l with
  | nil => rfl
  | cons a l ih =>
    obtain ⟨x, v⟩ := a
    unfold del at ih ⊢
    by_cases h : x = k
    · simp only [List.filter, h, ne_eq, not_true_eq_false, decide_false]
      exact ih
    · have hk : (k == x) = false := by simp; exact fun e => h e.symm
      simp only [List.filter, h, ne_eq, not_false_eq_true, decide_true, List.lookup, hk]
      exact ih

theorem lookup_del_ne {α} (l : List (Nat × α)) (k k' : Nat) (h : k' ≠ k) :
    (del l k).lookup k' = l.lookup k' := by
  induction l with
  | nil => rfl
  | cons a l ih =>
    obtain ⟨x, v⟩ := a
    unfold del at ih ⊢
    by_cases hx : x = k
    · have hk : (k' == x) = false := by simp [hx]; exact h
      simp only [List.filter, hx, ne_eq, not_true_eq_false, decide_false, List.lookup]
      rw [← hx] at ih ⊢
      rw [hk]; exact ih
    · simp only [List.filter, hx, ne_eq, not_false_eq_true, decide_true, List.lookup]
      rw [ih]

theorem lookup_upd_self {α} (l : List (Nat × α)) (k : Nat) (v : Option α) : (upd l k v).lookup k = v := by
  cases v with
  | none => exact lookup_del_self l k
  | some v => simp [upd, put]

theorem lookup_upd_ne {α} (l : List (Nat × α)) (k k' : Nat) (v : Option α) (h : k' ≠ k) :
    (upd l k v).lookup k' = l.lookup k' := by
  cases v with
  | none => exact lookup_del_ne l k k' h
  | some v =>
    have hk : (k' == k) = false := by simp; exact h
    simp only [upd, put, List.lookup, hk]
    exact lookup_del_ne l k k' h

theorem get_set_self (t : Tables) (s : Nat) (cn : Conn) : (t.set s cn).get s = cn := by
  simp [Tables.get, Tables.set, lookup_upd_self]

theorem get_set_ne (t : Tables) (s s' : Nat) (cn : Conn) (h : s' ≠ s) : (t.set s cn).get s' = t.get s' := by
  simp [Tables.get, Tables.set, lookup_upd_ne _ _ _ _ h]

theorem contains_filter_ne_self (l : List Nat) (s : Nat) : (l.filter (· ≠ s)).contains s = false := by
  induction l with
  | nil => rfl
  | cons a l ih =>
    by_cases h : a = s
    · simp only [List.filter, h, ne_eq, not_true_eq_false, decide_false]
      exact ih
    · have hk : (s == a) = false := by simp; exact fun e => h e.symm
      simp only [List.filter, h, ne_eq, not_false_eq_true, decide_true, List.contains_cons, hk, Bool.false_or]
      exact ih

theorem contains_filter_ne_other (l : List Nat) (s s' : Nat) (h : s' ≠ s) :
    (l.filter (· ≠ s)).contains s' = l.contains s' := by
  induction l with
  | nil => rfl
  | cons a l ih =>
    by_cases ha : a = s
    · have hk : (s' == a) = false := by simp [ha]; exact h
      simp only [List.filter, ha, ne_eq, not_true_eq_false, decide_false, List.contains_cons]
      rw [← ha] at ih ⊢
      rw [hk, Bool.false_or]; exact ih
    · simp only [List.filter, ha, ne_eq, not_false_eq_true, decide_true, List.contains_cons]
      rw [ih]

/-- what `sock` has in the world -/
def World.clean (w : World) (s : Nat) : Prop := w.t.get s = {} ∧ w.closing.contains s = false

theorem step_disconnect_clean (le : LexE) (secure : Bool) (w : World) (s : Nat) :
    (step le secure w (.disconnect s)).1.clean s := by
  simp only [step, World.clean]
  exact ⟨get_set_self _ _ _, contains_filter_ne_self _ _⟩

def Ev.sock : Ev → Nat
  | .read s _ _ => s
  | .disconnect s => s

/-- frame property: an event on another socket changes nothing for `s` -/
theorem step_frame (le : LexE) (secure : Bool) (w : World) (e : Ev) (s : Nat) (h : s ≠ e.sock) :
    (step le secure w e).1.t.get s = w.t.get s ∧
    (step le secure w e).1.closing.contains s = w.closing.contains s := by
  cases e with
  | read s' d b =>
    simp only [Ev.sock] at h
    simp only [step]
    refine ⟨get_set_ne _ _ _ _ h, ?_⟩
    split
    · have : (s == s') = false := by simp; exact h
      simp only [List.contains_cons, this, Bool.false_or]
      exact contains_filter_ne_other _ _ _ h
    · exact contains_filter_ne_other _ _ _ h
  | disconnect s' =>
    simp only [Ev.sock] at h
    simp only [step]
    exact ⟨get_set_ne _ _ _ _ h, contains_filter_ne_other _ _ _ h⟩

theorem alive_false_const (s : Nat) (evs : List Ev) (a : Bool) (h : ∀ e ∈ evs, e.sock ≠ s) :
    alive s evs a = a := by
  induction evs generalizing a with
  | nil => rfl
  | cons e es ih =>
    have he := h e (by simp)
    cases e with
    | read s' d b =>
      simp only [Ev.sock] at he
      simp only [alive, he, if_false]
      exact ih a (fun e' h' => h e' (by simp [h']))
    | disconnect s' =>
      simp only [Ev.sock] at he
      simp only [alive, he, if_false]
      exact ih a (fun e' h' => h e' (by simp [h']))

/-- invariant of every history: a socket that is not alive has nothing in the world -/
theorem run_clean (le : LexE) (secure : Bool) (evs : List Ev) (w : World) (a : Nat → Bool)
    (hinv : ∀ s, a s = false → w.clean s) :
    ∀ s, alive s evs (a s) = false → (run le secure w evs).1.clean s := by
  induction evs generalizing w a with
  | nil => intro s h; exact hinv s h
  | cons e es ih =>
    intro s h
    simp only [run]
    let a' : Nat → Bool := fun x =>
      match e with
      | .read s' _ _ => if s' = x then true else a x
      | .disconnect s' => if s' = x then false else a x
    have hinv' : ∀ x, a' x = false → (step le secure w e).1.clean x := by
      intro x hx
      cases e with
      | read s' d b =>
        by_cases hs : s' = x
        · simp [a', hs] at hx
        · simp only [a', hs, if_false] at hx
          have f := step_frame le secure w (.read s' d b) x (fun e => hs e.symm)
          have c := hinv x hx
          exact ⟨f.1.trans c.1, f.2.trans c.2⟩
      | disconnect s' =>
        by_cases hs : s' = x
        · subst hs; exact step_disconnect_clean le secure w s'
        · simp only [a', hs, if_false] at hx
          have f := step_frame le secure w (.disconnect s') x (fun e => hs e.symm)
          have c := hinv x hx
          exact ⟨f.1.trans c.1, f.2.trans c.2⟩
    have h' : alive s es (a' s) = false := by
      cases e with
      | read s' d b => simpa [alive, a'] using h
      | disconnect s' => simpa [alive, a'] using h
    exact ih (step le secure w e).1 a' hinv' s h'

theorem empty_of_all_clean (w : World) (h : ∀ s, w.clean s) :
    w.t.buffers = [] ∧ w.t.clients = [] ∧ w.closing = [] := by
  refine ⟨?_, ?_, ?_⟩
  · cases hb : w.t.buffers with
    | nil => rfl
    | cons x l =>
      have := (h x.1).1
      simp [Tables.get, hb, List.lookup] at this
  · cases hb : w.t.clients with
    | nil => rfl
    | cons x l =>
      have := (h x.1).1
      simp [Tables.get, hb, List.lookup] at this
  · cases hb : w.closing with
    | nil => rfl
    | cons x l =>
      have := (h x).2
      simp [hb] at this

/-! ### error responses -/

open HttpResp in
theorem errResp_prepare (env : Env) (rq : HttpResp.Req) (code : Nat) (fl hb : Option Bytes) :
    (prepare rq (errResp env code fl hb)).close = true ∧
    (prepare rq (errResp env code fl hb)).clen.isSome = true ∧
    untilClose rq (errResp env code fl hb) = false := by
  refine ⟨?_, ?_, ?_⟩
  · unfold prepare
    simp only [errResp, cLength, Bool.or_true]
    split <;> rfl
  · rw [prepare_clen]; simp [errResp, cLength]
  · unfold untilClose
    rw [prepare_clen]; simp [errResp, cLength]

/-! ### a dispatch is the `fire` verdict of C13's `afterExec` and nothing else -/

theorem mapOut_dispatch {le : LexE} {c : Core} {beh : Beh} {x : Conn × Http.Out} {cn1 : Conn} {fl : Bytes}
    {hb : Option Bytes} {body : Bytes} {rq : HttpResp.Req} {a : Answer}
    (h : mapOut le c beh x = (cn1, .dispatch fl hb body rq a)) : x.2 = .request fl hb body ∧ a = answerOf beh := by
  obtain ⟨cn', o⟩ := x
  cases o with
  | wait => simp [mapOut] at h
  | closeSsl => simp [mapOut] at h
  | err400 =>
    simp only [mapOut] at h
    split at h
    · simp at h
    · split at h <;> simp at h
  | err505 => simp only [mapOut] at h; split at h <;> simp at h
  | err400NoHost => simp only [mapOut] at h; split at h <;> simp at h
  | redirect301 => simp only [mapOut] at h; split at h <;> simp at h
  | exn500 => simp [mapOut] at h
  | request f b bd =>
    simp only [mapOut] at h
    split at h <;>
      (simp only [Prod.mk.injEq, Out.dispatch.injEq] at h
       obtain ⟨_, h1, h2, h3, _, h5⟩ := h
       subst h1 h2 h3
       exact ⟨rfl, h5.symm⟩)

theorem afterExec14_dispatch {le : LexE} {cn cn1 : Conn} {p : PState} {beh : Beh} {fl : Bytes}
    {hb : Option Bytes} {body : Bytes} {rq : HttpResp.Req} {a : Answer}
    (h : afterExec14 le cn p beh = (cn1, .dispatch fl hb body rq a)) :
    raisedIn le p.core = false ∧ exn400 le p.core = false ∧ exnReq le cn p.core = false ∧
    (afterExec le.base cn p).2 = .request fl hb body ∧ a = answerOf beh := by
  unfold afterExec14 at h
  split at h
  · simp at h
  · rename_i hg
    simp only [Bool.or_eq_true, not_or, Bool.not_eq_true] at hg
    obtain ⟨h1, h2⟩ := mapOut_dispatch h
    exact ⟨hg.1.1, hg.1.2, hg.2, h1, h2⟩

/-- after an error response nothing is left in `_clients[sock]` -/
theorem mapOut_reject_client {le : LexE} {c : Core} {beh : Beh} {x : Conn × Http.Out} {cn1 : Conn} {e : Exit}
    {rq : HttpResp.Req} {fl hb : Option Bytes}
    (h : mapOut le c beh x = (cn1, .reject e rq fl hb)) : cn1.client = none := by
  obtain ⟨cn', o⟩ := x
  cases o with
  | wait => simp [mapOut] at h
  | closeSsl => simp [mapOut] at h
  | err400 =>
    simp only [mapOut] at h
    split at h
    · simp only [Prod.mk.injEq] at h; rw [← h.1]; rfl
    · split at h <;> (simp only [Prod.mk.injEq] at h; rw [← h.1]; rfl)
  | exn500 => simp only [mapOut, Prod.mk.injEq] at h; rw [← h.1]; rfl
  | err505 =>
    simp only [mapOut] at h
    split at h
    · simp only [Prod.mk.injEq] at h; rw [← h.1]; rfl
    · rename_i hc; simp only [Prod.mk.injEq] at h; rw [← h.1]; exact hc
  | err400NoHost =>
    simp only [mapOut] at h
    split at h
    · simp only [Prod.mk.injEq] at h; rw [← h.1]; rfl
    · rename_i hc; simp only [Prod.mk.injEq] at h; rw [← h.1]; exact hc
  | redirect301 =>
    simp only [mapOut] at h
    split at h
    · simp only [Prod.mk.injEq] at h; rw [← h.1]; rfl
    · rename_i hc; simp only [Prod.mk.injEq] at h; rw [← h.1]; exact hc
  | request f b bd =>
    simp only [mapOut] at h
    split at h <;> simp at h

theorem afterExec14_reject_client {le : LexE} {cn cn1 : Conn} {p : PState} {beh : Beh} {e : Exit}
    {rq : HttpResp.Req} {fl hb : Option Bytes}
    (h : afterExec14 le cn p beh = (cn1, .reject e rq fl hb)) : cn1.client = none := by
  unfold afterExec14 at h
  split at h
  · simp only [Prod.mk.injEq] at h; rw [← h.1]
  · exact mapOut_reject_client h

/-- after a dispatched request has been answered nothing is left for the socket -/
theorem afterExec14_dispatch_conn {le : LexE} {cn cn1 : Conn} {p : PState} {beh : Beh} {fl : Bytes}
    {hb : Option Bytes} {body : Bytes} {rq : HttpResp.Req} {a : Answer}
    (h : afterExec14 le cn p beh = (cn1, .dispatch fl hb body rq a)) : cn1 = {} := by
  have d := afterExec14_dispatch h
  unfold afterExec14 at h
  split at h
  · simp at h
  · have hp : afterExec le.base cn p = ((afterExec le.base cn p).1, .request fl hb body) := by
      rw [← d.2.2.2.1]
    obtain ⟨_, _, req, _, _, hcn, _⟩ := afterExec_fire hp
    rw [hp, hcn] at h
    simp only [mapOut, connResponded, Prod.mk.injEq] at h
    rw [← h.1]

theorem verdict_fire {lex : Lex} {isNew : Bool} {req : Req} {complete : Bool}
    (h : verdict lex isNew req complete = .fire) :
    (isNew = true → req.fl.vmajor = 1) ∧ req.hi.clen ≠ .bad ∧
    ((req.hi.clenVal ≠ 0 ∨ req.hi.te = true) → complete = true) ∧
    ((req.fl.vmajor, req.fl.vminor) = (1, 0) ∨ req.hi.host = true) ∧
    lex.pathOk req.firstLine req.hdrBlock = true := by
  unfold verdict at h
  split at h
  · cases h
  · split at h
    · cases h
    · split at h
      · cases h
      · split at h
        · cases h
        · split at h
          · cases h
          · rename_i h1 h2 h3 h4 h5
            refine ⟨?_, h2, ?_, ?_, ?_⟩
            · intro hn; simp [hn] at h1; exact h1
            · intro hc
              cases hcm : complete with
              | true => rfl
              | false =>
                exfalso; apply h3
                rcases hc with hc | hc
                · simp [hcm, hc]
                · simp [hcm, hc]
            · cases hh : req.hi.host with
              | true => exact Or.inr rfl
              | false =>
                left
                simp [hh] at h4
                exact Prod.ext_iff.mpr (by simpa using h4)
            · simpa using h5

theorem mapOut_ne_late (le : LexE) (c : Core) (beh : Beh) (x : Conn × Http.Out) :
    (mapOut le c beh x).2 ≠ .late := by
  obtain ⟨cn', o⟩ := x
  cases o <;> simp only [mapOut] <;> (repeat' split) <;> simp

theorem connRead14_ne_late (le : LexE) (secure : Bool) (cn : Conn) (data : Bytes) (beh : Beh) :
    (connRead14 le secure cn data beh).2 ≠ .late := by
  have ae : ∀ p, (afterExec14 le cn p beh).2 ≠ .late := by
    intro p
    unfold afterExec14
    split
    · simp
    · exact mapOut_ne_late _ _ _ _
  unfold connRead14
  split
  · exact ae _
  · split
    · simp
    · exact ae _

end Http14
end CV

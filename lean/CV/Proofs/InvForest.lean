import CV.Proofs.CoreStep
import CV.Proofs.ForestDefs
import CV.Proofs.CoreMatch
/-
C07: the component tree is a consistent forest in every reachable configuration of the
small-step core machine (`CV.Model.Core.Step`).

Layout (pattern of CoreStep.lean: primitive -> helper -> frame arm -> `cases f`):
  1. `St.f7comp_modComp`, `tproj`, `TreeEq s t` ("same parent/root/children everywhere") with one
     continuation lemma per primitive and the committed-choice tactic `tree_eq`;
  2. frame lemmas `TreeEq.<helper>` / `Cfg.<arm>_teq` for every helper and arm that does not touch
     the tree (generated from the list in CoreStep.lean);
  3. the forest: `Links` (= `ForestInv` without `rootOk`), `RootOkAt`, ancestors `Anc` (parent
     links), subtrees `Sub` (children links);
  4. `St.updateRootAll_spec`: the work-list recursion with fuel `comps.length + 1` visits exactly the
     subtree (loop invariant `UInv`, pigeonhole on the duplicate-free visited list), `Mid.forest`;
  5. the two tree surgeries: `detach_mid`/`forest_detach` (`prepUnregPre`), `register_mid`/
     `forest_register` (`registerPre`, under `St.admissible`);
  6. the stack never holds an `.updateRoot` frame (`NoUR`, lemmas `Cfg.<arm>_nour`);
  7. `FInv` (forest + NoUR), `FInv.step`, `FInv.reach`;
  8. consequences: `ForestInv.root_is_top`, `root_unique`, `subtree_root`, `register_step_tree`,
     `detach_step_tree`, `detach_unreachable`, `detach_collect`, `St.registerPre_queue`,
     log facts `Cfg.registerFin_log`, `Cfg.register_log`, `Cfg.invoke_detach_log`,
     `step_register`, `step_detach`.
The property-level statements are in CV/Props/C07.lean; the "no other announcements" pass is in
CV/Proofs/InvAnnounce.lean.
-/
set_option linter.unusedSimpArgs false
namespace CV.Core

/-! ## table access after `modComp` -/

theorem St.f7comp_modComp (s : St) (c d : Nat) (f : Comp → Comp) :
    (s.modComp c f).comp d = if c = d ∧ d < s.comps.length then f (s.comp d) else s.comp d := by
  unfold St.comp St.modComp
  simp only [List.getD_eq_getElem?_getD, List.getElem?_modify]
  by_cases hd : d < s.comps.length
  · rw [List.getElem?_eq_getElem hd]
    by_cases hcd : c = d <;> simp [hcd, hd]
  · rw [List.getElem?_eq_none (Nat.le_of_not_lt hd)]
    simp [hd]

theorem St.f7comp_modComp_ne (s : St) (c d : Nat) (f : Comp → Comp) (h : c ≠ d) :
    (s.modComp c f).comp d = s.comp d := by
  rw [St.f7comp_modComp]; simp [h]

theorem St.f7comp_modComp_self (s : St) (c : Nat) (f : Comp → Comp) (h : c < s.comps.length) :
    (s.modComp c f).comp c = f (s.comp c) := by
  rw [St.f7comp_modComp]; simp [h]

theorem St.f7comp_modComp_ge (s : St) (c : Nat) (f : Comp → Comp) (h : s.comps.length ≤ c) :
    s.modComp c f = s := by
  unfold St.modComp
  have : s.comps.modify c f = s.comps := by
    apply List.ext_getElem?
    intro j
    rw [List.getElem?_modify]
    by_cases hj : j < s.comps.length
    · have : c ≠ j := by omega
      simp [this]
    · rw [List.getElem?_eq_none (Nat.le_of_not_lt hj)]; rfl
  rw [this]

@[simp] theorem St.modComp_len (s : St) (c : Nat) (f : Comp → Comp) :
    (s.modComp c f).comps.length = s.comps.length := by
  simp [St.modComp]

/-! ## the tree projection and states with the same tree -/

/-- the three fields the forest invariant reads -/
def tproj (x : Comp) : Nat × Nat × List Nat := (x.parent, x.root, x.children)

/-- `t` has the same component tree as `s` -/
def TreeEq (s t : St) : Prop := t.comps.map tproj = s.comps.map tproj

namespace TreeEq

theorem refl (s : St) : TreeEq s s := rfl

theorem trans {a b c : St} (h1 : TreeEq a b) (h2 : TreeEq b c) : TreeEq a c := by
  unfold TreeEq at *; rw [h2, h1]

theorem len {s t : St} (h : TreeEq s t) : t.comps.length = s.comps.length := by
  have := congrArg List.length h
  simpa using this

theorem proj {s t : St} (h : TreeEq s t) (c : Nat) : tproj (t.comp c) = tproj (s.comp c) := by
  unfold TreeEq at h
  have h1 := congrArg (fun l => l[c]?) h
  simp only [List.getElem?_map] at h1
  unfold St.comp
  simp only [List.getD_eq_getElem?_getD]
  cases ht : t.comps[c]? <;> cases hs : s.comps[c]? <;> simp_all

theorem par {s t : St} (h : TreeEq s t) (c : Nat) : (t.comp c).parent = (s.comp c).parent :=
  congrArg (·.1) (h.proj c)
theorem root {s t : St} (h : TreeEq s t) (c : Nat) : (t.comp c).root = (s.comp c).root :=
  congrArg (·.2.1) (h.proj c)
theorem kids {s t : St} (h : TreeEq s t) (c : Nat) : (t.comp c).children = (s.comp c).children :=
  congrArg (·.2.2) (h.proj c)

theorem modComp_self (t : St) (c : Nat) (f : Comp → Comp) (hf : ∀ x, tproj (f x) = tproj x) :
    TreeEq t (t.modComp c f) := by
  unfold TreeEq St.modComp
  apply List.ext_getElem?
  intro j
  simp only [List.getElem?_map, List.getElem?_modify]
  cases t.comps[j]? with
  | none => rfl
  | some a =>
    by_cases hcj : c = j <;> simp [hcj, hf]

variable {s t : St}

theorem modComp (h : TreeEq s t) (c : Nat) (f : Comp → Comp) (hf : ∀ x, tproj (f x) = tproj x) :
    TreeEq s (t.modComp c f) := h.trans (modComp_self t c f hf)
theorem modEv (h : TreeEq s t) (e : Nat) (f : Ev → Ev) : TreeEq s (t.modEv e f) := h
theorem modWait (h : TreeEq s t) (w : Nat) (f : WaitSt → WaitSt) : TreeEq s (t.modWait w f) := h
theorem modTimer (h : TreeEq s t) (i : Nat) (f : TimerSt → TimerSt) : TreeEq s (t.modTimer i f) := h
theorem setGen (h : TreeEq s t) (g : Nat) (x : GenRec) : TreeEq s (t.setGen g x) := h
theorem logE (h : TreeEq s t) (x : Entry) : TreeEq s (t.logE x) := h
theorem addEv (h : TreeEq s t) (e : Ev) : TreeEq s (t.addEv e) := h
theorem addH (h : TreeEq s t) (x : Handler) : TreeEq s (t.addH x) := h
theorem addGen (h : TreeEq s t) (g : GenRec) : TreeEq s (t.addGen g) := h
theorem addWait (h : TreeEq s t) (w : WaitSt) : TreeEq s (t.addWait w) := h
theorem tick1 (h : TreeEq s t) (d : Int) : TreeEq s (t.tick1 d) := h

end TreeEq

/-! ## the tactic (same design as `st_le` in CoreStep.lean) -/

syntax "tree_eq1" : tactic
macro_rules | `(tactic| tree_eq1) => `(tactic| split)
macro_rules | `(tactic| tree_eq1) => `(tactic| with_reducible apply TreeEq.tick1)
macro_rules | `(tactic| tree_eq1) => `(tactic| with_reducible apply TreeEq.addWait)
macro_rules | `(tactic| tree_eq1) => `(tactic| with_reducible apply TreeEq.addGen)
macro_rules | `(tactic| tree_eq1) => `(tactic| with_reducible apply TreeEq.addH)
macro_rules | `(tactic| tree_eq1) => `(tactic| with_reducible apply TreeEq.addEv)
macro_rules | `(tactic| tree_eq1) => `(tactic| with_reducible apply TreeEq.logE)
macro_rules | `(tactic| tree_eq1) => `(tactic| with_reducible apply TreeEq.setGen)
macro_rules | `(tactic| tree_eq1) => `(tactic| with_reducible apply TreeEq.modTimer)
macro_rules | `(tactic| tree_eq1) => `(tactic| with_reducible apply TreeEq.modWait)
macro_rules | `(tactic| tree_eq1) => `(tactic| with_reducible apply TreeEq.modEv)
macro_rules | `(tactic| tree_eq1) => `(tactic| ((with_reducible refine TreeEq.modComp ?_ _ _ ?_); rotate_left; exact (fun _ => rfl)))
macro_rules | `(tactic| tree_eq1) => `(tactic| with_reducible assumption)
macro_rules | `(tactic| tree_eq1) => `(tactic| with_reducible exact TreeEq.refl _)

macro "tree_eq" : tactic => `(tactic| repeat' tree_eq1)
macro "tree_eq_unfold" ids:ident+ : tactic => `(tactic| (unfold $[$ids]*; (try dsimp only); tree_eq))

/-! ## frame lemmas: every helper and every arm of `step` except `registerPre`, `prepUnregPre`,
`updateRootAll` (and the arms `register`, `invoke`, `updateRoot` that use them) keeps the tree -/


/-- a `foldl` of tree-preserving steps preserves the tree -/
theorem TreeEq.foldl {s t : St} {α} (g : St → α → St) (hg : ∀ a x, TreeEq s a → TreeEq s (g a x)) (l : List α)
    (h : TreeEq s t) : TreeEq s (l.foldl g t) := by
  induction l generalizing t with
  | nil => exact h
  | cons x l ih => exact ih (hg _ _ h)

theorem TreeEq.addHandler {s t : St} (h : TreeEq s t) (x : Nat) : TreeEq s (t.addHandler x) := by
  unfold St.addHandler
  dsimp only
  refine TreeEq.modComp ?_ _ _ (fun _ => rfl)
  split
  · tree_eq
  · split
    · tree_eq
    · refine TreeEq.foldl _ (fun a n ha => ?_) _ h
      exact ha.modComp _ _ (fun _ => rfl)
macro_rules | `(tactic| tree_eq1) => `(tactic| with_reducible apply TreeEq.addHandler)

theorem TreeEq.removeHandler {s t : St} (h : TreeEq s t) (x : Nat) (n : Option Name) :
    TreeEq s ((t.removeHandler x n).2) := by
  tree_eq_unfold St.removeHandler
macro_rules | `(tactic| tree_eq1) => `(tactic| with_reducible apply TreeEq.removeHandler)

theorem TreeEq.fireContext {s t : St} (h : TreeEq s t) (r e : Nat) :
    TreeEq s (t.fireContext r e) := by
  tree_eq_unfold St.fireContext
macro_rules | `(tactic| tree_eq1) => `(tactic| with_reducible apply TreeEq.fireContext)

theorem TreeEq.fireRaw {s t : St} (h : TreeEq s t) (self e : Nat) (chans : List Chan) (prio : Int) :
    TreeEq s (t.fireRaw self e chans prio) := by
  tree_eq_unfold St.fireRaw
macro_rules | `(tactic| tree_eq1) => `(tactic| with_reducible apply TreeEq.fireRaw)

theorem TreeEq.childEv {s t : St} (h : TreeEq s t) (p sfx : Nat) :
    TreeEq s (t.childEv p sfx) := by
  tree_eq_unfold St.childEv
macro_rules | `(tactic| tree_eq1) => `(tactic| with_reducible apply TreeEq.childEv)

theorem TreeEq.fireChild {s t : St} (h : TreeEq s t) (self p sfx : Nat) (chans : List Chan) :
    TreeEq s (t.fireChild self p sfx chans) := by
  tree_eq_unfold St.fireChild
macro_rules | `(tactic| tree_eq1) => `(tactic| with_reducible apply TreeEq.fireChild)

theorem TreeEq.inform {s t : St} (h : TreeEq s t) (e : Nat) (force : Bool) :
    TreeEq s (t.inform e force) := by
  tree_eq_unfold St.inform
macro_rules | `(tactic| tree_eq1) => `(tactic| with_reducible apply TreeEq.inform)

theorem TreeEq.setValue {s t : St} (h : TreeEq s t) (e : Nat) (x : VItem) :
    TreeEq s (t.setValue e x) := by
  tree_eq_unfold St.setValue
macro_rules | `(tactic| tree_eq1) => `(tactic| with_reducible apply TreeEq.setValue)

theorem TreeEq.fireTmplEv {s t : St} (h : TreeEq s t) (self : Nat) (ev : Ev) (target : Option Chan) (prio : Int) :
    TreeEq s (t.fireTmplEv self ev target prio) := by
  tree_eq_unfold St.fireTmplEv
macro_rules | `(tactic| tree_eq1) => `(tactic| with_reducible apply TreeEq.fireTmplEv)

theorem TreeEq.effectDone1 {s t : St} (h : TreeEq s t) (r e : Nat) (announce : Bool) :
    TreeEq s ((t.effectDone1 r e announce).2) := by
  tree_eq_unfold St.effectDone1
macro_rules | `(tactic| tree_eq1) => `(tactic| with_reducible apply TreeEq.effectDone1)

theorem TreeEq.eventDonePre {s t : St} (h : TreeEq s t) (r e : Nat) (err : Bool) :
    TreeEq s ((t.eventDonePre r e err).2) := by
  tree_eq_unfold St.eventDonePre
macro_rules | `(tactic| tree_eq1) => `(tactic| with_reducible apply TreeEq.eventDonePre)

theorem TreeEq.registerTask {s t : St} (h : TreeEq s t) (c : Nat) (x : Task) :
    TreeEq s (t.registerTask c x) := by
  tree_eq_unfold St.registerTask
macro_rules | `(tactic| tree_eq1) => `(tactic| with_reducible apply TreeEq.registerTask)

theorem TreeEq.unregisterTask {s t : St} (h : TreeEq s t) (c : Nat) (x : Task) :
    TreeEq s (t.unregisterTask c x) := by
  tree_eq_unfold St.unregisterTask
macro_rules | `(tactic| tree_eq1) => `(tactic| with_reducible apply TreeEq.unregisterTask)

theorem TreeEq.reduceTimeLeft {s t : St} (h : TreeEq s t) (e : Nat) (d : Int) :
    TreeEq s (t.reduceTimeLeft e d) := by
  tree_eq_unfold St.reduceTimeLeft
macro_rules | `(tactic| tree_eq1) => `(tactic| with_reducible apply TreeEq.reduceTimeLeft)

theorem TreeEq.registerFin {s t : St} (h : TreeEq s t) (c : Nat) :
    TreeEq s (t.registerFin c) := by
  tree_eq_unfold St.registerFin
macro_rules | `(tactic| tree_eq1) => `(tactic| with_reducible apply TreeEq.registerFin)

theorem TreeEq.unregister {s t : St} (h : TreeEq s t) (c : Nat) :
    TreeEq s (t.unregister c) := by
  tree_eq_unfold St.unregister
macro_rules | `(tactic| tree_eq1) => `(tactic| with_reducible apply TreeEq.unregister)

theorem TreeEq.prepUnregFin {s t : St} (h : TreeEq s t) (c : Nat) :
    TreeEq s (t.prepUnregFin c) := by
  tree_eq_unfold St.prepUnregFin
macro_rules | `(tactic| tree_eq1) => `(tactic| with_reducible apply TreeEq.prepUnregFin)

theorem TreeEq.actFire {s t : St} (h : TreeEq s t) (self i : Nat) (target : Option Chan) (prio : Int) (cancel : Bool) :
    TreeEq s (t.actFire self i target prio cancel) := by
  tree_eq_unfold St.actFire
macro_rules | `(tactic| tree_eq1) => `(tactic| with_reducible apply TreeEq.actFire)

theorem TreeEq.actStopEv {s t : St} (h : TreeEq s t) (ev : Option Nat) :
    TreeEq s (t.actStopEv ev) := by
  tree_eq_unfold St.actStopEv
macro_rules | `(tactic| tree_eq1) => `(tactic| with_reducible apply TreeEq.actStopEv)

theorem TreeEq.timerReset {s t : St} (h : TreeEq s t) (i : Nat) :
    TreeEq s (t.timerReset i) := by
  tree_eq_unfold St.timerReset
macro_rules | `(tactic| tree_eq1) => `(tactic| with_reducible apply TreeEq.timerReset)

theorem TreeEq.timerCreate {s t : St} (h : TreeEq s t) (i : Nat) :
    TreeEq s (t.timerCreate i) := by
  tree_eq_unfold St.timerCreate
macro_rules | `(tactic| tree_eq1) => `(tactic| with_reducible apply TreeEq.timerCreate)

theorem TreeEq.timerTick {s t : St} (h : TreeEq s t) (i e : Nat) :
    TreeEq s (t.timerTick i e) := by
  tree_eq_unfold St.timerTick
macro_rules | `(tactic| tree_eq1) => `(tactic| with_reducible apply TreeEq.timerTick)

theorem TreeEq.startWait {s t : St} (h : TreeEq s t) (w : Nat) :
    TreeEq s (t.startWait w) := by
  tree_eq_unfold St.startWait
macro_rules | `(tactic| tree_eq1) => `(tactic| with_reducible apply TreeEq.startWait)

/-! ## pure pieces of `Step.lean` -/

theorem TreeEq.stopBegin {s t : St} (h : TreeEq s t) (c : Nat) :
    TreeEq s (t.stopBegin c) := by
  tree_eq_unfold St.stopBegin
macro_rules | `(tactic| tree_eq1) => `(tactic| with_reducible apply TreeEq.stopBegin)

theorem TreeEq.stopSetCode {s t : St} (h : TreeEq s t) (r : Nat) (code : Code) :
    TreeEq s (t.stopSetCode r code) := by
  tree_eq_unfold St.stopSetCode
macro_rules | `(tactic| tree_eq1) => `(tactic| with_reducible apply TreeEq.stopSetCode)

theorem TreeEq.genCall {s t : St} (h : TreeEq s t) (owner i : Nat) (target : Option Chan) (timeout : Option Nat) :
    TreeEq s (t.genCall owner i target timeout) := by
  tree_eq_unfold St.genCall
macro_rules | `(tactic| tree_eq1) => `(tactic| with_reducible apply TreeEq.genCall)

theorem TreeEq.genWait {s t : St} (h : TreeEq s t) (owner : Nat) (name : Name) (target : Option Chan) (timeout : Option Nat) :
    TreeEq s (t.genWait owner name target timeout) := by
  tree_eq_unfold St.genWait
macro_rules | `(tactic| tree_eq1) => `(tactic| with_reducible apply TreeEq.genWait)

theorem TreeEq.resumeGenPre {s t : St} (h : TreeEq s t) (g : Nat) (silent : Bool) :
    TreeEq s (t.resumeGenPre g silent) := by
  tree_eq_unfold St.resumeGenPre
macro_rules | `(tactic| tree_eq1) => `(tactic| with_reducible apply TreeEq.resumeGenPre)

theorem TreeEq.stopIteration {s t : St} (h : TreeEq s t) (r : Nat) (x : Task) :
    TreeEq s ((t.stopIteration r x).2) := by
  tree_eq_unfold St.stopIteration
macro_rules | `(tactic| tree_eq1) => `(tactic| with_reducible apply TreeEq.stopIteration)

theorem TreeEq.fireException {s t : St} (h : TreeEq s t) (r e : Nat) :
    TreeEq s (t.fireException r e) := by
  tree_eq_unfold St.fireException
macro_rules | `(tactic| tree_eq1) => `(tactic| with_reducible apply TreeEq.fireException)

theorem TreeEq.errorBranch {s t : St} (h : TreeEq s t) (r : Nat) (x : Task) (resumed : Bool) :
    TreeEq s ((t.errorBranch r x resumed).2) := by
  tree_eq_unfold St.errorBranch
macro_rules | `(tactic| tree_eq1) => `(tactic| with_reducible apply TreeEq.errorBranch)

theorem TreeEq.ownSub {s t : St} (h : TreeEq s t) (r : Nat) (x : Task) (w : Nat) :
    TreeEq s (t.ownSub r x w) := by
  tree_eq_unfold St.ownSub
macro_rules | `(tactic| tree_eq1) => `(tactic| with_reducible apply TreeEq.ownSub)

theorem TreeEq.setValueOpt {s t : St} (h : TreeEq s t) (e : Nat) (v : Option Nat) :
    TreeEq s (t.setValueOpt e v) := by
  tree_eq_unfold St.setValueOpt
macro_rules | `(tactic| tree_eq1) => `(tactic| with_reducible apply TreeEq.setValueOpt)

theorem TreeEq.parentSub {s t : St} (h : TreeEq s t) (r : Nat) (x : Task) (p w2 : Nat) (viaThrow : Bool) :
    TreeEq s (t.parentSub r x p w2 viaThrow) := by
  tree_eq_unfold St.parentSub
macro_rules | `(tactic| tree_eq1) => `(tactic| with_reducible apply TreeEq.parentSub)

theorem TreeEq.parentPlain {s t : St} (h : TreeEq s t) (r : Nat) (x : Task) (p : Nat) (v : Option Nat) (viaThrow : Bool) :
    TreeEq s (t.parentPlain r x p v viaThrow) := by
  tree_eq_unfold St.parentPlain
macro_rules | `(tactic| tree_eq1) => `(tactic| with_reducible apply TreeEq.parentPlain)

theorem TreeEq.onWaitEvent {s t : St} (h : TreeEq s t) (w e : Nat) :
    TreeEq s ((t.onWaitEvent w e).2) := by
  tree_eq_unfold St.onWaitEvent
macro_rules | `(tactic| tree_eq1) => `(tactic| with_reducible apply TreeEq.onWaitEvent)

theorem TreeEq.onWaitDone {s t : St} (h : TreeEq s t) (w e : Nat) :
    TreeEq s ((t.onWaitDone w e).2) := by
  tree_eq_unfold St.onWaitDone
macro_rules | `(tactic| tree_eq1) => `(tactic| with_reducible apply TreeEq.onWaitDone)

theorem TreeEq.onWaitTick {s t : St} (h : TreeEq s t) (w : Nat) :
    TreeEq s ((t.onWaitTick w).2) := by
  tree_eq_unfold St.onWaitTick
macro_rules | `(tactic| tree_eq1) => `(tactic| with_reducible apply TreeEq.onWaitTick)

theorem TreeEq.onFallbackGE {s t : St} (h : TreeEq s t) (e : Nat) :
    TreeEq s ((t.onFallbackGE e).2) := by
  tree_eq_unfold St.onFallbackGE
macro_rules | `(tactic| tree_eq1) => `(tactic| with_reducible apply TreeEq.onFallbackGE)

theorem TreeEq.computeHandlers {s t : St} (h : TreeEq s t) (r : Nat) (name : Name) (chans : List Chan) :
    TreeEq s ((t.computeHandlers r name chans).2) := by
  tree_eq_unfold St.computeHandlers
macro_rules | `(tactic| tree_eq1) => `(tactic| with_reducible apply TreeEq.computeHandlers)

theorem TreeEq.dispComplete {s t : St} (h : TreeEq s t) (e : Nat) (ev : Ev) :
    TreeEq s (t.dispComplete e ev) := by
  tree_eq_unfold St.dispComplete
macro_rules | `(tactic| tree_eq1) => `(tactic| with_reducible apply TreeEq.dispComplete)

theorem TreeEq.cacheRefresh {s t : St} (h : TreeEq s t) (r : Nat) :
    TreeEq s (t.cacheRefresh r) := by
  tree_eq_unfold St.cacheRefresh
macro_rules | `(tactic| tree_eq1) => `(tactic| with_reducible apply TreeEq.cacheRefresh)

theorem TreeEq.lookupHandlers {s t : St} (h : TreeEq s t) (r : Nat) (name : Name) (chans : List Chan) :
    TreeEq s ((t.lookupHandlers r name chans).2) := by
  tree_eq_unfold St.lookupHandlers
macro_rules | `(tactic| tree_eq1) => `(tactic| with_reducible apply TreeEq.lookupHandlers)

theorem TreeEq.dispGE {s t : St} (h : TreeEq s t) (r e remaining : Nat) (name : Name) :
    TreeEq s (t.dispGE r e remaining name) := by
  tree_eq_unfold St.dispGE
macro_rules | `(tactic| tree_eq1) => `(tactic| with_reducible apply TreeEq.dispGE)

theorem TreeEq.dispatchPre {s t : St} (h : TreeEq s t) (r e remaining : Nat) :
    TreeEq s ((t.dispatchPre r e remaining).2) := by
  tree_eq_unfold St.dispatchPre
macro_rules | `(tactic| tree_eq1) => `(tactic| with_reducible apply TreeEq.dispatchPre)

theorem TreeEq.handlerRaised {s t : St} (h : TreeEq s t) (r e : Nat) :
    TreeEq s (t.handlerRaised r e) := by
  tree_eq_unfold St.handlerRaised
macro_rules | `(tactic| tree_eq1) => `(tactic| with_reducible apply TreeEq.handlerRaised)

theorem TreeEq.applyValue {s t : St} (h : TreeEq s t) (r e : Nat) (value : Outcome) :
    TreeEq s (t.applyValue r e value) := by
  tree_eq_unfold St.applyValue
macro_rules | `(tactic| tree_eq1) => `(tactic| with_reducible apply TreeEq.applyValue)

theorem TreeEq.geTasksCheck {s t : St} (h : TreeEq s t) (r e : Nat) :
    TreeEq s (t.geTasksCheck r e) := by
  tree_eq_unfold St.geTasksCheck
macro_rules | `(tactic| tree_eq1) => `(tactic| with_reducible apply TreeEq.geTasksCheck)

theorem TreeEq.flushBegin {s t : St} (h : TreeEq s t) (r : Nat) :
    TreeEq s (t.flushBegin r) := by
  tree_eq_unfold St.flushBegin
macro_rules | `(tactic| tree_eq1) => `(tactic| with_reducible apply TreeEq.flushBegin)

theorem TreeEq.tickGenerate {s t : St} (h : TreeEq s t) (c : Nat) :
    TreeEq s (t.tickGenerate c) := by
  tree_eq_unfold St.tickGenerate
macro_rules | `(tactic| tree_eq1) => `(tactic| with_reducible apply TreeEq.tickGenerate)

theorem TreeEq.runBegin {s t : St} (h : TreeEq s t) (c : Nat) :
    TreeEq s (t.runBegin c) := by
  tree_eq_unfold St.runBegin
macro_rules | `(tactic| tree_eq1) => `(tactic| with_reducible apply TreeEq.runBegin)

theorem TreeEq.runEnd {s t : St} (h : TreeEq s t) (c : Nat) :
    TreeEq s ((t.runEnd c).2) := by
  tree_eq_unfold St.runEnd
macro_rules | `(tactic| tree_eq1) => `(tactic| with_reducible apply TreeEq.runEnd)

theorem TreeEq.actStep {s t : St} (h : TreeEq s t) (ctx : HCtx) (a : Act) : TreeEq s (actStep t ctx a).st := by
  cases a <;> (unfold CV.Core.actStep; (try dsimp only); tree_eq)
macro_rules | `(tactic| tree_eq1) => `(tactic| with_reducible apply TreeEq.actStep)

/-! ## the arms of `step` -/


macro_rules
  | `(tactic| tree_eq1) => `(tactic| simp only [Cfg.pop_st, Cfg.popRet_st, Cfg.raise_st, Cfg.goto_st])

theorem Cfg.effectDone_teq (c : Cfg) (k : List Frame) (r e : Nat) (announce : Bool) :
    TreeEq c.st (c.effectDone k r e announce).st := by
  unfold Cfg.effectDone; (try dsimp only); tree_eq
macro_rules | `(tactic| tree_eq1) => `(tactic| with_reducible exact Cfg.effectDone_teq ..)

theorem Cfg.eventDone_teq (c : Cfg) (k : List Frame) (r e : Nat) (err : Bool) :
    TreeEq c.st (c.eventDone k r e err).st := by
  unfold Cfg.eventDone; (try dsimp only); tree_eq
macro_rules | `(tactic| tree_eq1) => `(tactic| with_reducible exact Cfg.eventDone_teq ..)

theorem Cfg.registerFin_teq (c : Cfg) (k : List Frame) (x : Nat) :
    TreeEq c.st (c.registerFin k x).st := by
  unfold Cfg.registerFin; (try dsimp only); tree_eq
macro_rules | `(tactic| tree_eq1) => `(tactic| with_reducible exact Cfg.registerFin_teq ..)

theorem Cfg.prepUnregFin_teq (c : Cfg) (k : List Frame) (x : Nat) :
    TreeEq c.st (c.prepUnregFin k x).st := by
  unfold Cfg.prepUnregFin; (try dsimp only); tree_eq
macro_rules | `(tactic| tree_eq1) => `(tactic| with_reducible exact Cfg.prepUnregFin_teq ..)

theorem Cfg.stopMgr_teq (c : Cfg) (k : List Frame) (x : Nat) (code : Code) :
    TreeEq c.st (c.stopMgr k x code).st := by
  unfold Cfg.stopMgr; (try dsimp only); tree_eq
macro_rules | `(tactic| tree_eq1) => `(tactic| with_reducible exact Cfg.stopMgr_teq ..)

theorem Cfg.ticks_teq (c : Cfg) (k : List Frame) (x n : Nat) :
    TreeEq c.st (c.ticks k x n).st := by
  unfold Cfg.ticks; (try dsimp only); tree_eq
macro_rules | `(tactic| tree_eq1) => `(tactic| with_reducible exact Cfg.ticks_teq ..)

theorem Cfg.stopFin_teq (c : Cfg) (k : List Frame) (code : Code) :
    TreeEq c.st (c.stopFin k code).st := by
  unfold Cfg.stopFin; (try dsimp only); tree_eq
macro_rules | `(tactic| tree_eq1) => `(tactic| with_reducible exact Cfg.stopFin_teq ..)

theorem Cfg.timerNew_teq (c : Cfg) (k : List Frame) (i : Nat) :
    TreeEq c.st (c.timerNew k i).st := by
  unfold Cfg.timerNew; (try dsimp only); tree_eq
macro_rules | `(tactic| tree_eq1) => `(tactic| with_reducible exact Cfg.timerNew_teq ..)

theorem Cfg.acts_teq (c : Cfg) (k : List Frame) (ctx : HCtx) (prog : Prog) :
    TreeEq c.st (c.acts k ctx prog).st := by
  unfold Cfg.acts; (try dsimp only); tree_eq
macro_rules | `(tactic| tree_eq1) => `(tactic| with_reducible exact Cfg.acts_teq ..)

theorem Cfg.doFin_teq (c : Cfg) (k : List Frame) (x : Nat) :
    TreeEq c.st (c.doFin k x).st := by
  unfold Cfg.doFin; (try dsimp only); tree_eq
macro_rules | `(tactic| tree_eq1) => `(tactic| with_reducible exact Cfg.doFin_teq ..)

theorem Cfg.drainQ_teq (c : Cfg) (k : List Frame) (x : Nat) :
    TreeEq c.st (c.drainQ k x).st := by
  unfold Cfg.drainQ; (try dsimp only); tree_eq
macro_rules | `(tactic| tree_eq1) => `(tactic| with_reducible exact Cfg.drainQ_teq ..)

theorem Cfg.stepGen_teq (c : Cfg) (k : List Frame) (g : Nat) :
    TreeEq c.st (c.stepGen k g).st := by
  unfold Cfg.stepGen; (try dsimp only); tree_eq
macro_rules | `(tactic| tree_eq1) => `(tactic| with_reducible exact Cfg.stepGen_teq ..)

theorem Cfg.processTask_teq (c : Cfg) (k : List Frame) (r : Nat) (x : Task) :
    TreeEq c.st (c.processTask k r x).st := by
  unfold Cfg.processTask; (try dsimp only); tree_eq
macro_rules | `(tactic| tree_eq1) => `(tactic| with_reducible exact Cfg.processTask_teq ..)

theorem Cfg.contStop_teq {s0 : St} (c : Cfg) (k : List Frame) (s : St) (r : Nat) (x : Task) (hle : TreeEq s0 s) :
    TreeEq s0 (c.contStop k s r x).st := by
  unfold Cfg.contStop; (try dsimp only); tree_eq
macro_rules | `(tactic| tree_eq1) => `(tactic| with_reducible apply Cfg.contStop_teq)

theorem Cfg.contError_teq {s0 : St} (c : Cfg) (k : List Frame) (s : St) (r : Nat) (x : Task) (resumed : Bool) (hle : TreeEq s0 s) :
    TreeEq s0 (c.contError k s r x resumed).st := by
  unfold Cfg.contError; (try dsimp only); tree_eq
macro_rules | `(tactic| tree_eq1) => `(tactic| with_reducible apply Cfg.contError_teq)

theorem Cfg.ptBodyWait_teq (c : Cfg) (k : List Frame) (r : Nat) (x : Task) (w : Nat) :
    TreeEq c.st (c.ptBodyWait k r x w).st := by
  unfold Cfg.ptBodyWait; (try dsimp only); tree_eq
macro_rules | `(tactic| tree_eq1) => `(tactic| with_reducible exact Cfg.ptBodyWait_teq ..)

theorem Cfg.ptBodyExc_teq (c : Cfg) (k : List Frame) (r : Nat) (x : Task) (w : Nat) (fired : Bool) :
    TreeEq c.st (c.ptBodyExc k r x w fired).st := by
  unfold Cfg.ptBodyExc; (try dsimp only); tree_eq
macro_rules | `(tactic| tree_eq1) => `(tactic| with_reducible exact Cfg.ptBodyExc_teq ..)

theorem Cfg.ptBody_teq (c : Cfg) (k : List Frame) (r : Nat) (x : Task) :
    TreeEq c.st (c.ptBody k r x).st := by
  unfold Cfg.ptBody; (try dsimp only); tree_eq
macro_rules | `(tactic| tree_eq1) => `(tactic| with_reducible exact Cfg.ptBody_teq ..)

theorem Cfg.ptOwn_teq (c : Cfg) (k : List Frame) (r : Nat) (x : Task) :
    TreeEq c.st (c.ptOwn k r x).st := by
  unfold Cfg.ptOwn; (try dsimp only); tree_eq
macro_rules | `(tactic| tree_eq1) => `(tactic| with_reducible exact Cfg.ptOwn_teq ..)

theorem Cfg.ptParent_teq (c : Cfg) (k : List Frame) (r : Nat) (x : Task) (p : Nat) (viaThrow : Bool) :
    TreeEq c.st (c.ptParent k r x p viaThrow).st := by
  unfold Cfg.ptParent; (try dsimp only); tree_eq
macro_rules | `(tactic| tree_eq1) => `(tactic| with_reducible exact Cfg.ptParent_teq ..)

theorem Cfg.ptFin_teq (c : Cfg) (k : List Frame) (r : Nat) (handling : Option Nat) :
    TreeEq c.st (c.ptFin k r handling).st := by
  unfold Cfg.ptFin; (try dsimp only); tree_eq
macro_rules | `(tactic| tree_eq1) => `(tactic| with_reducible exact Cfg.ptFin_teq ..)

theorem Cfg.dispatcher_teq (c : Cfg) (k : List Frame) (r e remaining : Nat) :
    TreeEq c.st (c.dispatcher k r e remaining).st := by
  unfold Cfg.dispatcher; (try dsimp only); tree_eq
macro_rules | `(tactic| tree_eq1) => `(tactic| with_reducible exact Cfg.dispatcher_teq ..)

theorem Cfg.hLoop_teq (c : Cfg) (k : List Frame) (r e : Nat) (hs : List Nat) (err : Bool) (stale : Outcome) :
    TreeEq c.st (c.hLoop k r e hs err stale).st := by
  unfold Cfg.hLoop; (try dsimp only); tree_eq
macro_rules | `(tactic| tree_eq1) => `(tactic| with_reducible exact Cfg.hLoop_teq ..)

theorem Cfg.invokeUser_teq {s0 : St} (c : Cfg) (k : List Frame) (s : St) (h e owner p : Nat) (hle : TreeEq s0 s) :
    TreeEq s0 (c.invokeUser k s h e owner p).st := by
  unfold Cfg.invokeUser; (try dsimp only); tree_eq
macro_rules | `(tactic| tree_eq1) => `(tactic| with_reducible apply Cfg.invokeUser_teq)

theorem Cfg.invokeFin_teq (c : Cfg) (k : List Frame) (e h : Nat) :
    TreeEq c.st (c.invokeFin k e h).st := by
  unfold Cfg.invokeFin; (try dsimp only); tree_eq
macro_rules | `(tactic| tree_eq1) => `(tactic| with_reducible exact Cfg.invokeFin_teq ..)

theorem Cfg.hAfter_teq (c : Cfg) (k : List Frame) (r e : Nat) (rest : List Nat) (err : Bool) (stale : Outcome) :
    TreeEq c.st (c.hAfter k r e rest err stale).st := by
  unfold Cfg.hAfter; (try dsimp only); tree_eq
macro_rules | `(tactic| tree_eq1) => `(tactic| with_reducible exact Cfg.hAfter_teq ..)

theorem Cfg.hApply_teq (c : Cfg) (k : List Frame) (r e : Nat) (rest : List Nat) (err : Bool) (value : Outcome) :
    TreeEq c.st (c.hApply k r e rest err value).st := by
  unfold Cfg.hApply; (try dsimp only); tree_eq
macro_rules | `(tactic| tree_eq1) => `(tactic| with_reducible exact Cfg.hApply_teq ..)

theorem Cfg.dispFin_teq (c : Cfg) (k : List Frame) (r e : Nat) (err : Bool) :
    TreeEq c.st (c.dispFin k r e err).st := by
  unfold Cfg.dispFin; (try dsimp only); tree_eq
macro_rules | `(tactic| tree_eq1) => `(tactic| with_reducible exact Cfg.dispFin_teq ..)

theorem Cfg.dispatchLoop_teq (c : Cfg) (k : List Frame) (r : Nat) :
    TreeEq c.st (c.dispatchLoop k r).st := by
  unfold Cfg.dispatchLoop; (try dsimp only); tree_eq
macro_rules | `(tactic| tree_eq1) => `(tactic| with_reducible exact Cfg.dispatchLoop_teq ..)

theorem Cfg.flush_teq (c : Cfg) (k : List Frame) (x : Nat) :
    TreeEq c.st (c.flush k x).st := by
  unfold Cfg.flush; (try dsimp only); tree_eq
macro_rules | `(tactic| tree_eq1) => `(tactic| with_reducible exact Cfg.flush_teq ..)

theorem Cfg.flushFin_teq (c : Cfg) (k : List Frame) (r : Nat) (old : Bool) :
    TreeEq c.st (c.flushFin k r old).st := by
  unfold Cfg.flushFin; (try dsimp only); tree_eq
macro_rules | `(tactic| tree_eq1) => `(tactic| with_reducible exact Cfg.flushFin_teq ..)

theorem Cfg.tick_teq (c : Cfg) (k : List Frame) (x : Nat) :
    TreeEq c.st (c.tick k x).st := by
  unfold Cfg.tick; (try dsimp only); tree_eq
macro_rules | `(tactic| tree_eq1) => `(tactic| with_reducible exact Cfg.tick_teq ..)

theorem Cfg.taskLoop_teq (c : Cfg) (k : List Frame) (x : Nat) (ts : List Task) :
    TreeEq c.st (c.taskLoop k x ts).st := by
  unfold Cfg.taskLoop; (try dsimp only); tree_eq
macro_rules | `(tactic| tree_eq1) => `(tactic| with_reducible exact Cfg.taskLoop_teq ..)

theorem Cfg.tickFin_teq (c : Cfg) (k : List Frame) (x : Nat) (old : Bool) :
    TreeEq c.st (c.tickFin k x old).st := by
  unfold Cfg.tickFin; (try dsimp only); tree_eq
macro_rules | `(tactic| tree_eq1) => `(tactic| with_reducible exact Cfg.tickFin_teq ..)

theorem Cfg.tickGen_teq (c : Cfg) (k : List Frame) (x : Nat) :
    TreeEq c.st (c.tickGen k x).st := by
  unfold Cfg.tickGen; (try dsimp only); tree_eq
macro_rules | `(tactic| tree_eq1) => `(tactic| with_reducible exact Cfg.tickGen_teq ..)

theorem Cfg.run_teq (c : Cfg) (k : List Frame) (x : Nat) :
    TreeEq c.st (c.run k x).st := by
  unfold Cfg.run; (try dsimp only); tree_eq
macro_rules | `(tactic| tree_eq1) => `(tactic| with_reducible exact Cfg.run_teq ..)

theorem Cfg.runLoop_teq (c : Cfg) (k : List Frame) (x : Nat) :
    TreeEq c.st (c.runLoop k x).st := by
  unfold Cfg.runLoop; (try dsimp only); tree_eq
macro_rules | `(tactic| tree_eq1) => `(tactic| with_reducible exact Cfg.runLoop_teq ..)

theorem Cfg.runFin_teq (c : Cfg) (k : List Frame) (x : Nat) :
    TreeEq c.st (c.runFin k x).st := by
  unfold Cfg.runFin; (try dsimp only); tree_eq
macro_rules | `(tactic| tree_eq1) => `(tactic| with_reducible exact Cfg.runFin_teq ..)

theorem Cfg.runCatchExn_teq (c : Cfg) (k : List Frame) (x : Nat) (ex : Exn) :
    TreeEq c.st (c.runCatchExn k x ex).st := by
  unfold Cfg.runCatchExn; (try dsimp only); tree_eq
macro_rules | `(tactic| tree_eq1) => `(tactic| with_reducible exact Cfg.runCatchExn_teq ..)

theorem Cfg.runRethrow_teq (c : Cfg) (k : List Frame) (ex : Exn) :
    TreeEq c.st (c.runRethrow k ex).st := by
  unfold Cfg.runRethrow; (try dsimp only); tree_eq
macro_rules | `(tactic| tree_eq1) => `(tactic| with_reducible exact Cfg.runRethrow_teq ..)



/-! ## the forest: links, ancestors, roots -/

/-- `ForestInv` without its last clause `rootOk` -/
structure Links (s : St) : Prop where
  parentLt : ∀ c, c < s.comps.length → (s.comp c).parent < s.comps.length
  rootLt : ∀ c, c < s.comps.length → (s.comp c).root < s.comps.length
  childOf : ∀ c d, c < s.comps.length → d ∈ (s.comp c).children →
      d < s.comps.length ∧ (s.comp d).parent = c ∧ d ≠ c
  parentHas : ∀ c, c < s.comps.length → (s.comp c).parent ≠ c → c ∈ (s.comp (s.comp c).parent).children
  childrenNodup : ∀ c, c < s.comps.length → (s.comp c).children.Nodup
  acyclic : ∃ rk : Nat → Nat, ∀ c, c < s.comps.length → (s.comp c).parent ≠ c → rk (s.comp c).parent < rk c

/-- the clause `rootOk` of `ForestInv` for one component -/
def RootOkAt (s : St) (c : Nat) : Prop :=
  (s.comp c).root = (if (s.comp c).parent = c then c else (s.comp (s.comp c).parent).root)

theorem ForestInv.links {s : St} (h : ForestInv s) : Links s :=
  ⟨h.parentLt, h.rootLt, h.childOf, h.parentHas, h.childrenNodup, h.acyclic⟩

theorem ForestInv.rootOkAt {s : St} (h : ForestInv s) (c : Nat) (hc : c < s.comps.length) : RootOkAt s c :=
  h.rootOk c hc

theorem Links.forest {s : St} (h : Links s) (hr : ∀ c, c < s.comps.length → RootOkAt s c) : ForestInv s :=
  ⟨h.parentLt, h.rootLt, h.childOf, h.parentHas, h.childrenNodup, h.acyclic, hr⟩

theorem ForestInv.of_treeEq {s t : St} (h : ForestInv s) (e : TreeEq s t) : ForestInv t := by
  obtain ⟨h1, h2, h3, h4, h5, h6, h7⟩ := h
  refine ⟨?_, ?_, ?_, ?_, ?_, ?_, ?_⟩ <;> simp only [e.par, e.root, e.kids, e.len] <;> assumption

/-- pointwise criterion for `TreeEq` -/
theorem TreeEq.of_proj {s t : St} (hl : t.comps.length = s.comps.length)
    (hp : ∀ c, c < s.comps.length → tproj (t.comp c) = tproj (s.comp c)) : TreeEq s t := by
  unfold TreeEq
  apply List.ext_getElem?
  intro j
  simp only [List.getElem?_map]
  by_cases hj : j < s.comps.length
  · have h := hp j hj
    unfold St.comp at h
    simp only [List.getD_eq_getElem?_getD] at h
    rw [List.getElem?_eq_getElem hj, List.getElem?_eq_getElem (hl ▸ hj)] at h ⊢
    simpa using h
  · rw [List.getElem?_eq_none (Nat.le_of_not_lt hj), List.getElem?_eq_none (by omega)]

/-- `a` is `d` or an ancestor of `d` (following `parent` links upwards from `d`) -/
inductive Anc (s : St) (a : Nat) : Nat → Prop
  | refl : Anc s a a
  | up (d : Nat) : (s.comp d).parent ≠ d → Anc s a (s.comp d).parent → Anc s a d

theorem Anc.lt {s : St} (hL : Links s) {a d : Nat} (h : Anc s a d) (hd : d < s.comps.length) :
    a < s.comps.length := by
  induction h with
  | refl => exact hd
  | up d _ _ ih => exact ih (hL.parentLt d hd)

theorem Anc.rk_le {s : St} (hL : Links s) (rk : Nat → Nat)
    (hrk : ∀ c, c < s.comps.length → (s.comp c).parent ≠ c → rk (s.comp c).parent < rk c)
    {a d : Nat} (h : Anc s a d) (hd : d < s.comps.length) : rk a ≤ rk d := by
  induction h with
  | refl => exact Nat.le_refl _
  | up d hne _ ih =>
    have := ih (hL.parentLt d hd)
    have := hrk d hd hne
    omega

/-- a proper descendant has a parent that is a descendant too -/
theorem Anc.inv {s : St} {a d : Nat} (h : Anc s a d) (hne : d ≠ a) :
    (s.comp d).parent ≠ d ∧ Anc s a (s.comp d).parent := by
  cases h with
  | refl => exact absurd rfl hne
  | up _ h1 h2 => exact ⟨h1, h2⟩

/-- nothing lies above a root -/
theorem Anc.of_root {s : St} {a d : Nat} (h : Anc s a d) (hr : (s.comp d).parent = d) : a = d := by
  cases h with
  | refl => rfl
  | up _ h1 _ => exact absurd hr h1

theorem Anc.trans {s : St} {a b d : Nat} (h1 : Anc s a b) (h2 : Anc s b d) : Anc s a d := by
  induction h2 with
  | refl => exact h1
  | up d hne _ ih => exact Anc.up d hne ih

/-- no proper descendant is the parent of its ancestor -/
theorem Anc.not_parent {s : St} (hL : Links s) {a d : Nat} (h : Anc s a d) (hd : d < s.comps.length)
    (ha : (s.comp a).parent = d) (hne : (s.comp a).parent ≠ a) : False := by
  obtain ⟨rk, hrk⟩ := hL.acyclic
  have h1 := h.rk_le hL rk hrk hd
  have h2 := hrk a (h.lt hL hd) hne
  rw [ha] at h2
  omega

/-- along parent links the root does not change -/
theorem Anc.root_eq {s : St} (hL : Links s) {a d : Nat} (h : Anc s a d) (hd : d < s.comps.length)
    (hr : ∀ c, c < s.comps.length → Anc s a c → c ≠ a → RootOkAt s c) :
    (s.comp d).root = (s.comp a).root := by
  induction h with
  | refl => rfl
  | up d hne h2 ih =>
    have hda : d ≠ a := by
      intro e; subst e
      exact Anc.not_parent hL h2 (hL.parentLt _ hd) rfl hne
    have := hr d hd (Anc.up d hne h2) hda
    unfold RootOkAt at this
    rw [if_neg hne] at this
    rw [this]
    exact ih (hL.parentLt d hd)

/-! ## `updateRootAll` visits exactly the subtree -/

theorem St.updateRootAll_nil (fuel : Nat) (root : Nat) (s : St) : St.updateRootAll fuel [] root s = s := by
  cases fuel <;> rfl

theorem St.updateRootAll_cons (fuel : Nat) (x : Nat) (rest : List Nat) (root : Nat) (s : St) :
    St.updateRootAll (fuel + 1) (x :: rest) root s =
      St.updateRootAll fuel (((s.modComp x fun y => { y with root := root }).comp x).children ++ rest) root
        (s.modComp x fun y => { y with root := root }) := rfl

/-- loop invariant of the work-list algorithm: `T` = still to visit, `V` = visited -/
structure UInv (s0 : St) (x0 root : Nat) (T V : List Nat) (s : St) : Prop where
  nodupT : T.Nodup
  nodupV : V.Nodup
  disj : ∀ d, d ∈ T → d ∉ V
  lt : ∀ d, d ∈ T ∨ d ∈ V → d < s0.comps.length
  start : x0 ∈ T ∨ x0 ∈ V
  closed : ∀ v, v ∈ V → ∀ d, d ∈ (s0.comp v).children → d ∈ T ∨ d ∈ V
  anc : ∀ d, d ∈ T ∨ d ∈ V → Anc s0 x0 d
  par : ∀ d, d ∈ T ∨ d ∈ V → d ≠ x0 → (s0.comp d).parent ∈ V
  len : s.comps.length = s0.comps.length
  parEq : ∀ c, (s.comp c).parent = (s0.comp c).parent
  kidsEq : ∀ c, (s.comp c).children = (s0.comp c).children
  rootV : ∀ d, d ∈ V → (s.comp d).root = root
  rootN : ∀ d, d ∉ V → (s.comp d).root = (s0.comp d).root

theorem UInv.count {s0 : St} {x0 root : Nat} {T V : List Nat} {s : St} (h : UInv s0 x0 root T V s) :
    T.length + V.length ≤ s0.comps.length := by
  have hnd : (T ++ V).Nodup := by
    rw [List.nodup_append]
    exact ⟨h.nodupT, h.nodupV, fun a ha b hb e => h.disj a ha (e ▸ hb)⟩
  have hsub : (T ++ V) ⊆ List.range s0.comps.length := by
    intro d hd
    rw [List.mem_append] at hd
    exact List.mem_range.mpr (h.lt d hd)
  have := hnd.length_le_of_subset hsub
  simpa using this

/-- a child of a node still on the work list has not been seen yet -/
theorem UInv.fresh {s0 : St} (hL : Links s0) {x0 root : Nat} {y : Nat} {rest V : List Nat} {s : St}
    (h : UInv s0 x0 root (y :: rest) V s) {d : Nat} (hd : d ∈ (s0.comp y).children) :
    d ∉ (y :: rest) ∧ d ∉ V := by
  have hy : y < s0.comps.length := h.lt y (Or.inl (List.mem_cons_self))
  obtain ⟨hdl, hdp, hdy⟩ := hL.childOf y d hy hd
  have key : d ∈ (y :: rest) ∨ d ∈ V → False := by
    intro hin
    by_cases hdx : d = x0
    · subst hdx
      have hanc := h.anc y (Or.inl (List.mem_cons_self))
      exact Anc.not_parent hL hanc hy hdp (by rw [hdp]; exact fun e => hdy e.symm)
    · have := h.par d hin hdx
      rw [hdp] at this
      exact h.disj y (List.mem_cons_self) this
  exact ⟨fun hh => key (Or.inl hh), fun hh => key (Or.inr hh)⟩

theorem UInv.step {s0 : St} (hL : Links s0) {x0 root : Nat} {y : Nat} {rest V : List Nat} {s : St}
    (h : UInv s0 x0 root (y :: rest) V s) :
    UInv s0 x0 root (((s.modComp y fun z => { z with root := root }).comp y).children ++ rest) (y :: V)
      (s.modComp y fun z => { z with root := root }) := by
  have hy : y < s0.comps.length := h.lt y (Or.inl (List.mem_cons_self))
  have hys : y < s.comps.length := h.len ▸ hy
  have hkids : ((s.modComp y fun z => { z with root := root }).comp y).children = (s0.comp y).children := by
    rw [St.f7comp_modComp_self _ _ _ hys]; exact h.kidsEq y
  rw [hkids]
  have hyT := (List.nodup_cons.mp h.nodupT)
  refine ⟨?_, ?_, ?_, ?_, ?_, ?_, ?_, ?_, ?_, ?_, ?_, ?_, ?_⟩
  · rw [List.nodup_append]
    refine ⟨hL.childrenNodup y hy, hyT.2, ?_⟩
    intro a ha b hb e
    subst e
    exact (h.fresh hL ha).1 (List.mem_cons_of_mem _ hb)
  · exact List.nodup_cons.mpr ⟨h.disj y (List.mem_cons_self), h.nodupV⟩
  · intro d hd hdV
    rcases List.mem_append.mp hd with hk | hr
    · rcases List.mem_cons.mp hdV with e | hv
      · exact (hL.childOf y d hy hk).2.2 e
      · exact (h.fresh hL hk).2 hv
    · rcases List.mem_cons.mp hdV with e | hv
      · subst e; exact hyT.1 hr
      · exact h.disj d (List.mem_cons_of_mem _ hr) hv
  · intro d hd
    rcases hd with hd | hd
    · rcases List.mem_append.mp hd with hk | hr
      · exact (hL.childOf y d hy hk).1
      · exact h.lt d (Or.inl (List.mem_cons_of_mem _ hr))
    · rcases List.mem_cons.mp hd with e | hv
      · subst e; exact hy
      · exact h.lt d (Or.inr hv)
  · rcases h.start with hs | hs
    · rcases List.mem_cons.mp hs with e | hr
      · exact Or.inr (e ▸ List.mem_cons_self)
      · exact Or.inl (List.mem_append_right _ hr)
    · exact Or.inr (List.mem_cons_of_mem _ hs)
  · intro v hv d hd
    rcases List.mem_cons.mp hv with e | hv
    · subst e; exact Or.inl (List.mem_append_left _ hd)
    · rcases h.closed v hv d hd with hT | hV
      · rcases List.mem_cons.mp hT with e | hr
        · exact Or.inr (e ▸ List.mem_cons_self)
        · exact Or.inl (List.mem_append_right _ hr)
      · exact Or.inr (List.mem_cons_of_mem _ hV)
  · intro d hd
    rcases hd with hd | hd
    · rcases List.mem_append.mp hd with hk | hr
      · obtain ⟨_, hdp, hdy⟩ := hL.childOf y d hy hk
        refine Anc.up d (by rw [hdp]; exact fun e => hdy e.symm) ?_
        rw [hdp]; exact h.anc y (Or.inl (List.mem_cons_self))
      · exact h.anc d (Or.inl (List.mem_cons_of_mem _ hr))
    · rcases List.mem_cons.mp hd with e | hv
      · subst e; exact h.anc d (Or.inl (List.mem_cons_self))
      · exact h.anc d (Or.inr hv)
  · intro d hd hdx
    rcases hd with hd | hd
    · rcases List.mem_append.mp hd with hk | hr
      · rw [(hL.childOf y d hy hk).2.1]; exact List.mem_cons_self
      · exact List.mem_cons_of_mem _ (h.par d (Or.inl (List.mem_cons_of_mem _ hr)) hdx)
    · rcases List.mem_cons.mp hd with e | hv
      · subst e; exact List.mem_cons_of_mem _ (h.par d (Or.inl (List.mem_cons_self)) hdx)
      · exact List.mem_cons_of_mem _ (h.par d (Or.inr hv) hdx)
  · rw [St.modComp_len]; exact h.len
  · intro c
    rw [St.f7comp_modComp]
    split
    · exact h.parEq c
    · exact h.parEq c
  · intro c
    rw [St.f7comp_modComp]
    split
    · exact h.kidsEq c
    · exact h.kidsEq c
  · intro d hd
    rcases List.mem_cons.mp hd with e | hv
    · subst e; rw [St.f7comp_modComp_self _ _ _ hys]
    · have : y ≠ d := fun e => h.disj y (List.mem_cons_self) (e ▸ hv)
      rw [St.f7comp_modComp_ne _ _ _ _ this]; exact h.rootV d hv
  · intro d hd
    have : y ≠ d := fun e => hd (e ▸ List.mem_cons_self)
    rw [St.f7comp_modComp_ne _ _ _ _ this]
    exact h.rootN d (fun hv => hd (List.mem_cons_of_mem _ hv))

theorem UInv.run {s0 : St} (hL : Links s0) (x0 root : Nat) :
    ∀ (fuel : Nat) (T V : List Nat) (s : St), UInv s0 x0 root T V s →
      s0.comps.length + 1 ≤ V.length + fuel →
      ∃ V', UInv s0 x0 root [] V' (St.updateRootAll fuel T root s) := by
  intro fuel
  induction fuel with
  | zero =>
    intro T V s h hf
    have := h.count
    cases T with
    | nil => exact ⟨V, by simpa [St.updateRootAll_nil] using h⟩
    | cons y rest => simp at this; omega
  | succ n ih =>
    intro T V s h hf
    cases T with
    | nil => exact ⟨V, by simpa [St.updateRootAll_nil] using h⟩
    | cons y rest =>
      rw [St.updateRootAll_cons]
      exact ih _ _ _ (h.step hL) (by simp; omega)

/-- what `updateRootAll` does when started on one in-range node of a state with consistent links -/
theorem St.updateRootAll_spec {s : St} (hL : Links s) (x root : Nat) (hx : x < s.comps.length) :
    (St.updateRootAll (s.comps.length + 1) [x] root s).comps.length = s.comps.length ∧
    (∀ c, ((St.updateRootAll (s.comps.length + 1) [x] root s).comp c).parent = (s.comp c).parent) ∧
    (∀ c, ((St.updateRootAll (s.comps.length + 1) [x] root s).comp c).children = (s.comp c).children) ∧
    (∀ d, d < s.comps.length → Anc s x d →
        ((St.updateRootAll (s.comps.length + 1) [x] root s).comp d).root = root) ∧
    (∀ d, d < s.comps.length → ¬ Anc s x d →
        ((St.updateRootAll (s.comps.length + 1) [x] root s).comp d).root = (s.comp d).root) := by
  have h0 : UInv s x root [x] [] s := by
    refine ⟨by simp, by simp, by simp, ?_, by simp, by simp, ?_, ?_, rfl, fun _ => rfl, fun _ => rfl, by simp, fun _ _ => rfl⟩
    · intro d hd; simp at hd; exact hd ▸ hx
    · intro d hd; simp at hd; exact hd ▸ Anc.refl
    · intro d hd hne; simp at hd; exact absurd hd hne
  obtain ⟨V, hV⟩ := UInv.run hL x root (s.comps.length + 1) [x] [] s h0 (by simp)
  have hmem : ∀ d, d < s.comps.length → Anc s x d → d ∈ V := by
    intro d hd ha
    induction ha with
    | refl => simpa using hV.start
    | up d hne _ ih =>
      have hp := ih (hL.parentLt d hd)
      have := hV.closed _ hp d (hL.parentHas d hd hne)
      simpa using this
  refine ⟨hV.len, hV.parEq, hV.kidsEq, ?_, ?_⟩
  · intro d hd ha; exact hV.rootV d (hmem d hd ha)
  · intro d _ ha
    exact hV.rootN d (fun hv => ha (hV.anc d (Or.inr hv)))

/-- out of range: nothing happens -/
theorem St.updateRootAll_ge (s : St) (x root : Nat) (hx : s.comps.length ≤ x) :
    St.updateRootAll (s.comps.length + 1) [x] root s = s := by
  rw [St.updateRootAll_cons, St.f7comp_modComp_ge _ _ _ hx]
  have : (s.comp x).children = [] := by
    unfold St.comp
    rw [List.getD_eq_getElem?_getD, List.getElem?_eq_none hx]; rfl
  rw [this]
  exact St.updateRootAll_nil _ _ _

/-! ## the state between `registerPre` / `prepUnregPre` and `updateRootAll` -/

/-- links are consistent and `rootOk` holds outside the subtree of `x`, whose root is about to be
    set to `root` -/
structure Mid (s : St) (x root : Nat) : Prop where
  links : Links s
  tgt : x < s.comps.length → root < s.comps.length ∧
      root = (if (s.comp x).parent = x then x else (s.comp (s.comp x).parent).root)
  rest : ∀ d, d < s.comps.length → ¬ Anc s x d → RootOkAt s d

theorem Mid.of_forest {s : St} (h : ForestInv s) (x root : Nat)
    (hr : x < s.comps.length → root = (s.comp x).root) : Mid s x root := by
  refine ⟨h.links, ?_, fun d hd _ => h.rootOk d hd⟩
  intro hx
  rw [hr hx]
  exact ⟨h.rootLt x hx, h.rootOk x hx⟩

theorem Mid.forest {s : St} {x root : Nat} (h : Mid s x root) (n : Nat) (hn : n = s.comps.length) :
    ForestInv (St.updateRootAll (n + 1) [x] root s) := by
  subst hn
  have hL := h.links
  by_cases hx : x < s.comps.length
  · obtain ⟨hlen, hpar, hkids, hin, hout⟩ := St.updateRootAll_spec hL x root hx
    obtain ⟨hrl, hre⟩ := h.tgt hx
    generalize St.updateRootAll (s.comps.length + 1) [x] root s = s' at *
    refine ⟨?_, ?_, ?_, ?_, ?_, ?_, ?_⟩
    · intro c hc; rw [hpar, hlen]; exact hL.parentLt c (hlen ▸ hc)
    · intro c hc
      rw [hlen] at hc ⊢
      by_cases ha : Anc s x c
      · rw [hin c hc ha]; exact hrl
      · rw [hout c hc ha]; exact hL.rootLt c hc
    · intro c d hc hd
      rw [hkids] at hd
      rw [hpar, hlen]
      exact hL.childOf c d (hlen ▸ hc) hd
    · intro c hc hne
      rw [hpar] at hne ⊢
      rw [hkids]
      exact hL.parentHas c (hlen ▸ hc) hne
    · intro c hc; rw [hkids]; exact hL.childrenNodup c (hlen ▸ hc)
    · obtain ⟨rk, hrk⟩ := hL.acyclic
      refine ⟨rk, ?_⟩
      intro c hc hne
      rw [hpar] at hne ⊢
      exact hrk c (hlen ▸ hc) hne
    · intro c hc
      rw [hlen] at hc
      rw [hpar c]
      have hpl := hL.parentLt c hc
      by_cases ha : Anc s x c
      · rw [hin c hc ha]
        by_cases hcx : c = x
        · subst hcx
          by_cases hp : (s.comp c).parent = c
          · rw [if_pos hp, hre, if_pos hp]
          · rw [if_neg hp]
            have hna : ¬ Anc s c (s.comp c).parent := fun h' => Anc.not_parent hL h' hpl rfl hp
            rw [hout _ hpl hna, hre, if_neg hp]
        · obtain ⟨hp, hap⟩ := ha.inv hcx
          rw [if_neg hp, hin _ hpl hap]
      · rw [hout c hc ha]
        have hr := h.rest c hc ha
        unfold RootOkAt at hr
        by_cases hp : (s.comp c).parent = c
        · rw [if_pos hp, hr, if_pos hp]
        · rw [if_neg hp]
          have hna : ¬ Anc s x (s.comp c).parent := fun h' => ha (Anc.up c hp h')
          rw [hout _ hpl hna, hr, if_neg hp]
  · rw [St.updateRootAll_ge _ _ _ (Nat.le_of_not_lt hx)]
    exact hL.forest (fun c hc => h.rest c hc (fun ha => hx (ha.lt hL hc)))

/-! ### detach -/

/-- the tree surgery of `prepUnregPre`: remove `c` from its parent's children, mark the old root
    dirty, make `c` its own parent -/
def puB (t : St) (c : Nat) : St :=
  ((t.modComp (t.comp c).parent fun x => { x with children := x.children.erase c }).modComp
      (t.comp (t.comp c).parent).root fun x => { x with dirty := true }).modComp c fun x => { x with parent := c }

/-- `prepUnregPre` before the surgery: clear the pending flag, fire `unregistered` -/
def puA (s : St) (c : Nat) : St :=
  (s.modComp c fun x => { x with pending := false }).fireTmplEv c { name := Name.unregistered, arg := c } none 0

theorem St.prepUnregPre_eq (s : St) (c : Nat) :
    s.prepUnregPre c = if ((puA s c).comp c).parent != c then puB (puA s c) c else puA s c := rfl

theorem puA_treeEq (s : St) (c : Nat) : TreeEq s (puA s c) := by
  unfold puA; tree_eq

theorem puB_len (t : St) (c : Nat) : (puB t c).comps.length = t.comps.length := by
  simp [puB]

theorem puB_parent (t : St) (c d : Nat) :
    ((puB t c).comp d).parent = if c = d ∧ d < t.comps.length then c else (t.comp d).parent := by
  simp only [puB, St.f7comp_modComp, St.modComp_len]
  repeat' split
  all_goals simp_all

theorem puB_root (t : St) (c d : Nat) : ((puB t c).comp d).root = (t.comp d).root := by
  simp only [puB, St.f7comp_modComp, St.modComp_len]
  repeat' split
  all_goals simp_all

theorem puB_children (t : St) (c d : Nat) :
    ((puB t c).comp d).children =
      if (t.comp c).parent = d ∧ d < t.comps.length then (t.comp d).children.erase c else (t.comp d).children := by
  simp only [puB, St.f7comp_modComp, St.modComp_len]
  repeat' split
  all_goals simp_all

/-- detaching an attached in-range component keeps the links consistent; only the roots of its
    subtree are stale -/
theorem detach_mid {t : St} (hF : ForestInv t) (c : Nat) (hc : c < t.comps.length)
    (hne : (t.comp c).parent ≠ c) : Mid (puB t c) c c := by
  have hL := hF.links
  have hq : (t.comp c).parent < t.comps.length := hL.parentLt c hc
  have hpar : ∀ d, ((puB t c).comp d).parent = if c = d then c else (t.comp d).parent := by
    intro d; rw [puB_parent]
    by_cases e : c = d
    · subst e; simp [hc]
    · simp [e]
  have hkids : ∀ d, ((puB t c).comp d).children =
      if (t.comp c).parent = d then (t.comp d).children.erase c else (t.comp d).children := by
    intro d; rw [puB_children]
    by_cases e : (t.comp c).parent = d
    · subst e; simp [hq]
    · simp [e]
  have hroot := puB_root t c
  have hlen := puB_len t c
  refine ⟨⟨?_, ?_, ?_, ?_, ?_, ?_⟩, ?_, ?_⟩
  · intro d hd
    rw [hlen] at hd ⊢
    rw [hpar]
    split
    · exact hc
    · exact hL.parentLt d hd
  · intro d hd
    rw [hlen] at hd ⊢
    rw [hroot]; exact hL.rootLt d hd
  · intro a d ha hd
    rw [hlen] at ha ⊢
    rw [hkids] at hd
    by_cases e : (t.comp c).parent = a
    · rw [if_pos e] at hd
      have hnd := hL.childrenNodup a ha
      obtain ⟨hdc, hda⟩ := (hnd.mem_erase_iff).mp hd
      obtain ⟨h1, h2, h3⟩ := hL.childOf a d ha hda
      refine ⟨h1, ?_, h3⟩
      rw [hpar, if_neg (fun e' => hdc e'.symm)]; exact h2
    · rw [if_neg e] at hd
      obtain ⟨h1, h2, h3⟩ := hL.childOf a d ha hd
      refine ⟨h1, ?_, h3⟩
      have hdc : c ≠ d := by
        intro e'; subst e'; exact e h2
      rw [hpar, if_neg hdc]; exact h2
  · intro d hd hp
    rw [hlen] at hd
    rw [hpar] at hp ⊢
    by_cases e : c = d
    · rw [if_pos e] at hp; exact absurd e hp
    · rw [if_neg e] at hp ⊢
      have hmem := hL.parentHas d hd hp
      rw [hkids]
      split
      · exact (List.mem_erase_of_ne (fun e' => e e'.symm)).mpr hmem
      · exact hmem
  · intro d hd
    rw [hlen] at hd
    rw [hkids]
    split
    · exact (hL.childrenNodup d hd).erase c
    · exact hL.childrenNodup d hd
  · obtain ⟨rk, hrk⟩ := hL.acyclic
    refine ⟨rk, ?_⟩
    intro d hd hp
    rw [hlen] at hd
    rw [hpar] at hp ⊢
    by_cases e : c = d
    · rw [if_pos e] at hp; exact absurd e hp
    · rw [if_neg e] at hp ⊢
      exact hrk d hd hp
  · intro _
    rw [hlen]
    refine ⟨hc, ?_⟩
    rw [hpar, if_pos rfl, if_pos rfl]
  · intro d hd hna
    rw [hlen] at hd
    have hdc : c ≠ d := by
      intro e; subst e; exact hna Anc.refl
    unfold RootOkAt
    rw [hroot, hpar, if_neg hdc, hroot]
    exact hF.rootOk d hd

/-- detaching an out-of-range id or a root changes nothing in the tree -/
theorem detach_noop {t : St} (hF : ForestInv t) (c : Nat) (hc : t.comps.length ≤ c) :
    TreeEq t (puB t c) := by
  apply TreeEq.of_proj (puB_len t c)
  intro d hd
  unfold tproj
  rw [puB_parent, puB_root, puB_children]
  have h1 : ¬ (c = d ∧ d < t.comps.length) := by omega
  rw [if_neg h1]
  split
  · rename_i h
    have : c ∉ (t.comp d).children := fun hm => by
      have := (hF.childOf d c hd hm).1
      omega
    rw [List.erase_of_not_mem this]
  · rfl

/-- `prepUnregPre` followed by `updateRootAll` re-establishes the forest -/
theorem forest_detach {s : St} (hF : ForestInv s) (c : Nat) (n : Nat) (hn : n = s.comps.length) :
    ForestInv (St.updateRootAll (n + 1) [c] c (s.prepUnregPre c)) := by
  have hA : ForestInv (puA s c) := hF.of_treeEq (puA_treeEq s c)
  have hlenA : (puA s c).comps.length = s.comps.length := (puA_treeEq s c).len
  rw [St.prepUnregPre_eq]
  split
  · rename_i hne
    have hne' : ((puA s c).comp c).parent ≠ c := by simpa using hne
    by_cases hc : c < (puA s c).comps.length
    · exact (detach_mid hA c hc hne').forest n (by rw [puB_len, hlenA, hn])
    · have hT := detach_noop hA c (Nat.le_of_not_lt hc)
      have hB := hA.of_treeEq hT
      refine (Mid.of_forest hB c c ?_).forest n (by rw [puB_len, hlenA, hn])
      intro hx; rw [puB_len] at hx; exact absurd hx hc
  · rename_i hne
    have hp : ((puA s c).comp c).parent = c := by simpa using hne
    refine (Mid.of_forest hA c c ?_).forest n (by rw [hlenA, hn])
    intro hx
    have := hA.rootOk c hx
    rw [if_pos hp] at this
    exact this.symm

/-! ### register -/

theorem St.admissible_iff (s : St) (x p : Nat) : s.admissible x p = true ↔
    x < s.comps.length ∧ p < s.comps.length ∧ (s.comp x).parent = x ∧
    (p = x ∨ ((s.comp x).pending = false ∧ (s.comp p).root ≠ x ∧
       ((s.comp x).executing && (s.comp (s.comp p).root).executing) = false)) := by
  unfold St.admissible
  simp only [Bool.and_eq_true, Bool.or_eq_true, decide_eq_true_eq, beq_iff_eq, bne_iff_ne, ne_eq,
    Bool.not_eq_true', and_assoc]

/-- `register`: set `parent` and `root` of the child -/
def regA (s : St) (c p : Nat) : St :=
  s.modComp c fun x => { x with parent := p, root := (s.comp p).root }

/-- hand the executing thread over to the new root -/
def regB (t : St) (c r : Nat) : St :=
  if (t.comp c).executing
  then (t.modComp r fun x => { x with executing := true }).modComp c fun x => { x with executing := false }
  else t

/-- `registerChild`: add to the parent's children -/
def regC (t : St) (c p : Nat) : St :=
  t.modComp p fun x => { x with children := addUniq x.children c }

/-- move the child's queue to the root, mark the root's cache dirty -/
def regD (t : St) (c r : Nat) : St :=
  if r != c
  then (t.modComp r fun x => { x with eq := ((t.comp r).eq.drainFrom (t.comp c).eq).1, dirty := true }).modComp c
         fun x => { x with eq := ((t.comp r).eq.drainFrom (t.comp c).eq).2 }
  else t

theorem St.registerPre_eq (s : St) (c p : Nat) :
    s.registerPre c p =
      if p != c then
        if ((regA s c p).comp c).executing && ((regA s c p).comp (s.comp p).root).executing
        then (false, regA s c p)
        else (true, regD (regC (regB (regA s c p) c (s.comp p).root) c p) c (s.comp p).root)
      else (true, regA s c p) := rfl

theorem regB_treeEq (t : St) (c r : Nat) : TreeEq t (regB t c r) := by
  unfold regB; tree_eq

theorem regD_treeEq (t : St) (c r : Nat) : TreeEq t (regD t c r) := by
  unfold regD; tree_eq

theorem addUniq_of_not_mem (l : List Nat) (a : Nat) (h : a ∉ l) : addUniq l a = l ++ [a] := by
  unfold addUniq
  simp [h]

theorem TreeEq.symm_proj {s t : St} (h : TreeEq s t) (c : Nat) : tproj (s.comp c) = tproj (t.comp c) :=
  (h.proj c).symm

/-- the tree after `registerPre c p` (distinct, admissible, no clash) -/
def regT (s : St) (c p : Nat) : St := regD (regC (regB (regA s c p) c (s.comp p).root) c p) c (s.comp p).root

theorem regT_len (s : St) (c p : Nat) : (regT s c p).comps.length = s.comps.length := by
  unfold regT
  rw [(regD_treeEq _ _ _).len]
  unfold regC
  rw [St.modComp_len, (regB_treeEq _ _ _).len]
  unfold regA
  rw [St.modComp_len]

theorem regT_proj (s : St) (c p d : Nat) (hpc : p ≠ c) (hc : c < s.comps.length) (hp : p < s.comps.length) :
    tproj ((regT s c p).comp d) =
      if d = c then (p, (s.comp p).root, (s.comp c).children)
      else if d = p then ((s.comp p).parent, (s.comp p).root, addUniq (s.comp p).children c)
      else tproj (s.comp d) := by
  unfold regT
  rw [(regD_treeEq _ _ _).proj]
  unfold regC
  rw [St.f7comp_modComp]
  have hB := regB_treeEq (regA s c p) c (s.comp p).root
  have hlenB : (regB (regA s c p) c (s.comp p).root).comps.length = s.comps.length := by
    rw [hB.len]; unfold regA; rw [St.modComp_len]
  have hA : ∀ e, tproj ((regA s c p).comp e) =
      if e = c then (p, (s.comp p).root, (s.comp c).children) else tproj (s.comp e) := by
    intro e
    unfold regA
    rw [St.f7comp_modComp]
    by_cases hec : e = c
    · subst hec; simp [hc, tproj]
    · have : ¬ (c = e ∧ e < s.comps.length) := fun h => hec h.1.symm
      rw [if_neg this, if_neg hec]
  by_cases hdc : d = c
  · subst hdc
    have : ¬ (p = d ∧ d < (regB (regA s d p) d (s.comp p).root).comps.length) := fun h => hpc h.1
    rw [if_neg this, hB.proj, hA, if_pos rfl, if_pos rfl]
  · rw [if_neg hdc]
    by_cases hdp : d = p
    · subst hdp
      rw [if_pos ⟨rfl, hlenB ▸ hp⟩, if_pos rfl]
      have h1 := hB.proj d
      rw [hA, if_neg hdc] at h1
      unfold tproj at h1 ⊢
      simp only [Prod.mk.injEq] at h1 ⊢
      obtain ⟨h2, h3, h4⟩ := h1
      exact ⟨h2, h3, by rw [h4]⟩
    · have : ¬ (p = d ∧ d < (regB (regA s c p) c (s.comp p).root).comps.length) := fun h => hdp h.1.symm
      rw [if_neg this, if_neg hdp, hB.proj, hA, if_neg hdc]

/-- registering a detached root under a node of another tree keeps the links consistent; only the
    roots of the moved subtree are stale -/
theorem register_mid {s : St} (hF : ForestInv s) (c p : Nat) (hpc : p ≠ c) (hc : c < s.comps.length)
    (hp : p < s.comps.length) (hroot : (s.comp c).parent = c) (hrp : (s.comp p).root ≠ c) :
    Mid (regT s c p) c (s.comp p).root := by
  have hL := hF.links
  have hlen := regT_len s c p
  have hrc : (s.comp c).root = c := by
    have := hF.rootOk c hc; rw [if_pos hroot] at this; exact this
  have hnotin : c ∉ (s.comp p).children := by
    intro hm
    have := (hL.childOf p c hp hm).2.1
    rw [hroot] at this; exact hpc this.symm
  have hproj := fun d => regT_proj s c p d hpc hc hp
  have hpar : ∀ d, ((regT s c p).comp d).parent = if d = c then p else (s.comp d).parent := by
    intro d
    have := congrArg (·.1) (hproj d)
    simp only [tproj] at this
    rw [this]
    by_cases h1 : d = c
    · simp [h1]
    · by_cases h2 : d = p
      · subst h2; simp [h1]
      · simp [h1, h2]
  have hroot' : ∀ d, ((regT s c p).comp d).root = if d = c then (s.comp p).root else (s.comp d).root := by
    intro d
    have := congrArg (·.2.1) (hproj d)
    simp only [tproj] at this
    rw [this]
    by_cases h1 : d = c
    · simp [h1]
    · by_cases h2 : d = p
      · subst h2; simp [h1]
      · simp [h1, h2]
  have hkids : ∀ d, ((regT s c p).comp d).children =
      if d = p then (s.comp p).children ++ [c] else (s.comp d).children := by
    intro d
    have := congrArg (·.2.2) (hproj d)
    simp only [tproj] at this
    rw [this]
    by_cases h1 : d = c
    · simp [h1, hpc.symm]
    · by_cases h2 : d = p
      · subst h2; simp [h1, addUniq_of_not_mem _ _ hnotin]
      · simp [h1, h2]
  refine ⟨⟨?_, ?_, ?_, ?_, ?_, ?_⟩, ?_, ?_⟩
  · intro d hd
    rw [hlen] at hd ⊢
    rw [hpar]; split
    · exact hp
    · exact hL.parentLt d hd
  · intro d hd
    rw [hlen] at hd ⊢
    rw [hroot']; split
    · exact hL.rootLt p hp
    · exact hL.rootLt d hd
  · intro a d ha hd
    rw [hlen] at ha ⊢
    rw [hkids] at hd
    by_cases e : a = p
    · subst e
      rw [if_pos rfl] at hd
      rcases List.mem_append.mp hd with hm | hm
      · obtain ⟨h1, h2, h3⟩ := hL.childOf a d ha hm
        have hdc : d ≠ c := fun e => hnotin (e ▸ hm)
        exact ⟨h1, by rw [hpar, if_neg hdc]; exact h2, h3⟩
      · have : d = c := by simpa using hm
        subst this
        exact ⟨hc, by rw [hpar, if_pos rfl], fun e => hpc e.symm⟩
    · rw [if_neg e] at hd
      obtain ⟨h1, h2, h3⟩ := hL.childOf a d ha hd
      have hdc : d ≠ c := by
        intro e'; subst e'
        rw [hroot] at h2; exact h3 h2
      exact ⟨h1, by rw [hpar, if_neg hdc]; exact h2, h3⟩
  · intro d hd hne
    rw [hlen] at hd
    rw [hpar] at hne ⊢
    by_cases e : d = c
    · subst e
      rw [if_pos rfl, hkids, if_pos rfl]
      exact List.mem_append_right _ (List.mem_singleton.mpr rfl)
    · rw [if_neg e] at hne ⊢
      have hm := hL.parentHas d hd hne
      rw [hkids]; split
      · rename_i h; rw [h] at hm; exact List.mem_append_left _ hm
      · exact hm
  · intro d hd
    rw [hlen] at hd
    rw [hkids]; split
    · rename_i h; subst h
      rw [List.nodup_append]
      refine ⟨hL.childrenNodup d hd, by simp, ?_⟩
      intro a ha b hb e
      have : b = c := by simpa using hb
      subst this; subst e
      exact hnotin ha
    · exact hL.childrenNodup d hd
  · obtain ⟨rk, hrk⟩ := hL.acyclic
    refine ⟨fun d => if (s.comp d).root = c then rk d + rk p + 1 else rk d, ?_⟩
    intro d hd hne
    dsimp only
    rw [hlen] at hd
    rw [hpar] at hne ⊢
    by_cases e : d = c
    · subst e
      rw [if_pos rfl]
      simp only [if_neg hrp, if_pos hrc]
      omega
    · rw [if_neg e] at hne ⊢
      have hro := hF.rootOk d hd
      rw [if_neg hne] at hro
      rw [hro]
      have := hrk d hd hne
      split <;> omega
  · intro _
    rw [hlen]
    refine ⟨hL.rootLt p hp, ?_⟩
    rw [hpar, if_pos rfl, if_neg hpc, hroot', if_neg hpc]
  · intro d hd hna
    rw [hlen] at hd
    have hdc : d ≠ c := by
      intro e; subst e; exact hna Anc.refl
    unfold RootOkAt
    rw [hroot', if_neg hdc, hpar, if_neg hdc]
    have hro := hF.rootOk d hd
    by_cases hpd : (s.comp d).parent = d
    · rw [if_pos hpd] at hro ⊢; exact hro
    · rw [if_neg hpd] at hro ⊢
      have hpc' : (s.comp d).parent ≠ c := by
        intro e
        apply hna
        refine Anc.up d ?_ ?_
        · rw [hpar, if_neg hdc]; exact hpd
        · rw [hpar, if_neg hdc, e]; exact Anc.refl
      rw [hroot', if_neg hpc']; exact hro

/-- the whole registering step re-establishes the forest, and `registerPre` does not raise -/
theorem forest_register {s : St} (hF : ForestInv s) (c p : Nat) (hadm : s.admissible c p = true)
    (n : Nat) (hn : n = s.comps.length) :
    (s.registerPre c p).1 = true ∧
    ForestInv (St.updateRootAll (n + 1) [c] (s.comp p).root (s.registerPre c p).2) := by
  obtain ⟨hc, hp, hroot, hrest⟩ := (St.admissible_iff s c p).mp hadm
  rw [St.registerPre_eq]
  by_cases hpc : p = c
  · subst hpc
    have h1 : (p != p) = false := by simp
    rw [h1]
    refine ⟨rfl, ?_⟩
    have hrc : (s.comp p).root = p := by
      have := hF.rootOk p hc; rw [if_pos hroot] at this; exact this
    have hT : TreeEq s (regA s p p) := by
      apply TreeEq.of_proj (by unfold regA; rw [St.modComp_len])
      intro d _
      unfold regA
      rw [St.f7comp_modComp]
      split
      · rename_i h; obtain ⟨rfl, _⟩ := h
        simp only [tproj, hroot]
      · rfl
    refine (Mid.of_forest (hF.of_treeEq hT) p (s.comp p).root ?_).forest n (by rw [hT.len, hn])
    intro _; rw [hT.root]
  · have h1 : (p != c) = true := by simpa using hpc
    rcases hrest with e | ⟨_, hrp, hclash⟩
    · exact absurd e hpc
    · have hcl : (((regA s c p).comp c).executing && ((regA s c p).comp (s.comp p).root).executing) = false := by
        unfold regA
        rw [St.f7comp_modComp_self _ _ _ hc, St.f7comp_modComp_ne _ _ _ _ (fun e => hrp e.symm)]
        exact hclash
      rw [if_pos h1, hcl]
      refine ⟨rfl, ?_⟩
      exact (register_mid hF c p hpc hc hp hroot hrp).forest n (by rw [regT_len, hn])

/-! ## the stack never holds an `updateRoot` frame

Since the model runs `_updateRoot` inside the registering / detaching step, nothing pushes a
`.updateRoot` frame any more; the arm still exists and would overwrite roots, so the invariant
needs "no such frame on the stack". -/

def Frame.isUR : Frame → Bool
  | .updateRoot .. => true
  | _ => false

def noUR (k : List Frame) : Bool := k.all (fun f => !f.isUR)

/-- no `.updateRoot` frame on the stack -/
def NoUR (k : List Frame) : Prop := noUR k = true

theorem noUR_nil : noUR [] = true := rfl
theorem noUR_cons (f : Frame) (k : List Frame) : noUR (f :: k) = (!f.isUR && noUR k) := rfl

theorem actStep_call_nour (s : St) (ctx : HCtx) (a : Act) (f : Frame)
    (h : (actStep s ctx a).kind = ActKind.call f) : f.isUR = false := by
  cases a <;> simp only [actStep] at h <;> first | (cases h <;> rfl) | (split at h <;> cases h)

syntax "nour1" : tactic
macro_rules | `(tactic| nour1) => `(tactic| split)
macro_rules | `(tactic| nour1) => `(tactic| (simp only [Cfg.pop_stack, Cfg.popRet_stack, Cfg.raise_stack, Cfg.goto_stack, NoUR, noUR_cons, noUR_nil, List.cons_append, List.nil_append, Frame.isUR, Bool.not_false, Bool.true_and] at *; first | done | assumption))
macro_rules | `(tactic| nour1) => `(tactic| with_reducible assumption)
macro "nour" : tactic => `(tactic| repeat' nour1)


theorem Cfg.effectDone_nour (c : Cfg) (k : List Frame) (r e : Nat) (announce : Bool) (hk : NoUR k) :
    NoUR (c.effectDone k r e announce).stack := by
  unfold Cfg.effectDone; (try dsimp only); nour
macro_rules | `(tactic| nour1) => `(tactic| with_reducible exact Cfg.effectDone_nour _ _ _ _ _ ‹_›)

theorem Cfg.eventDone_nour (c : Cfg) (k : List Frame) (r e : Nat) (err : Bool) (hk : NoUR k) :
    NoUR (c.eventDone k r e err).stack := by
  unfold Cfg.eventDone; (try dsimp only); nour
macro_rules | `(tactic| nour1) => `(tactic| with_reducible exact Cfg.eventDone_nour _ _ _ _ _ ‹_›)

theorem Cfg.updateRoot_nour (c : Cfg) (k : List Frame) (todo : List Nat) (root : Nat) (hk : NoUR k) :
    NoUR (c.updateRoot k todo root).stack := by
  unfold Cfg.updateRoot; (try dsimp only); nour
macro_rules | `(tactic| nour1) => `(tactic| with_reducible exact Cfg.updateRoot_nour _ _ _ _ ‹_›)

theorem Cfg.register_nour (c : Cfg) (k : List Frame) (x p : Nat) (hk : NoUR k) :
    NoUR (c.register k x p).stack := by
  unfold Cfg.register; (try dsimp only); nour
macro_rules | `(tactic| nour1) => `(tactic| with_reducible exact Cfg.register_nour _ _ _ _ ‹_›)

theorem Cfg.registerFin_nour (c : Cfg) (k : List Frame) (x : Nat) (hk : NoUR k) :
    NoUR (c.registerFin k x).stack := by
  unfold Cfg.registerFin; (try dsimp only); nour
macro_rules | `(tactic| nour1) => `(tactic| with_reducible exact Cfg.registerFin_nour _ _ _ ‹_›)

theorem Cfg.prepUnregFin_nour (c : Cfg) (k : List Frame) (x : Nat) (hk : NoUR k) :
    NoUR (c.prepUnregFin k x).stack := by
  unfold Cfg.prepUnregFin; (try dsimp only); nour
macro_rules | `(tactic| nour1) => `(tactic| with_reducible exact Cfg.prepUnregFin_nour _ _ _ ‹_›)

theorem Cfg.stopMgr_nour (c : Cfg) (k : List Frame) (x : Nat) (code : Code) (hk : NoUR k) :
    NoUR (c.stopMgr k x code).stack := by
  unfold Cfg.stopMgr; (try dsimp only); nour
macro_rules | `(tactic| nour1) => `(tactic| with_reducible exact Cfg.stopMgr_nour _ _ _ _ ‹_›)

theorem Cfg.ticks_nour (c : Cfg) (k : List Frame) (x n : Nat) (hk : NoUR k) :
    NoUR (c.ticks k x n).stack := by
  unfold Cfg.ticks; (try dsimp only); nour
macro_rules | `(tactic| nour1) => `(tactic| with_reducible exact Cfg.ticks_nour _ _ _ _ ‹_›)

theorem Cfg.stopFin_nour (c : Cfg) (k : List Frame) (code : Code) (hk : NoUR k) :
    NoUR (c.stopFin k code).stack := by
  unfold Cfg.stopFin; (try dsimp only); nour
macro_rules | `(tactic| nour1) => `(tactic| with_reducible exact Cfg.stopFin_nour _ _ _ ‹_›)

theorem Cfg.timerNew_nour (c : Cfg) (k : List Frame) (i : Nat) (hk : NoUR k) :
    NoUR (c.timerNew k i).stack := by
  unfold Cfg.timerNew; (try dsimp only); nour
macro_rules | `(tactic| nour1) => `(tactic| with_reducible exact Cfg.timerNew_nour _ _ _ ‹_›)

theorem Cfg.acts_nour (c : Cfg) (k : List Frame) (ctx : HCtx) (prog : Prog) (hk : NoUR k) :
    NoUR (c.acts k ctx prog).stack := by
  unfold Cfg.acts; (try dsimp only)
  repeat' split
  all_goals first
    | (simp only [Cfg.pop_stack, Cfg.popRet_stack, Cfg.raise_stack, Cfg.goto_stack, NoUR, noUR_cons, noUR_nil, List.cons_append, List.nil_append, Frame.isUR, Bool.not_false, Bool.true_and] at *; first | done | assumption)
    | (rename_i f heq; have hf := actStep_call_nour _ _ _ _ heq
       simp only [Cfg.goto_stack, NoUR, noUR_cons, List.cons_append, List.nil_append, hf] at hk ⊢
       simp only [Frame.isUR, Bool.not_false, Bool.true_and]; exact hk)
macro_rules | `(tactic| nour1) => `(tactic| with_reducible exact Cfg.acts_nour _ _ _ _ ‹_›)

theorem Cfg.doFin_nour (c : Cfg) (k : List Frame) (x : Nat) (hk : NoUR k) :
    NoUR (c.doFin k x).stack := by
  unfold Cfg.doFin; (try dsimp only); nour
macro_rules | `(tactic| nour1) => `(tactic| with_reducible exact Cfg.doFin_nour _ _ _ ‹_›)

theorem Cfg.drainQ_nour (c : Cfg) (k : List Frame) (x : Nat) (hk : NoUR k) :
    NoUR (c.drainQ k x).stack := by
  unfold Cfg.drainQ; (try dsimp only); nour
macro_rules | `(tactic| nour1) => `(tactic| with_reducible exact Cfg.drainQ_nour _ _ _ ‹_›)

theorem Cfg.stepGen_nour (c : Cfg) (k : List Frame) (g : Nat) (hk : NoUR k) :
    NoUR (c.stepGen k g).stack := by
  unfold Cfg.stepGen; (try dsimp only)
  repeat' split
  all_goals first
    | (simp only [Cfg.pop_stack, Cfg.popRet_stack, Cfg.raise_stack, Cfg.goto_stack, NoUR, noUR_cons, noUR_nil, List.cons_append, List.nil_append, Frame.isUR, Bool.not_false, Bool.true_and] at *; first | done | assumption)
    | (rename_i f heq; have hf := actStep_call_nour _ _ _ _ heq
       simp only [Cfg.goto_stack, NoUR, noUR_cons, List.cons_append, List.nil_append, hf] at hk ⊢
       simp only [Frame.isUR, Bool.not_false, Bool.true_and]; exact hk)
macro_rules | `(tactic| nour1) => `(tactic| with_reducible exact Cfg.stepGen_nour _ _ _ ‹_›)

theorem Cfg.processTask_nour (c : Cfg) (k : List Frame) (r : Nat) (x : Task) (hk : NoUR k) :
    NoUR (c.processTask k r x).stack := by
  unfold Cfg.processTask; (try dsimp only); nour
macro_rules | `(tactic| nour1) => `(tactic| with_reducible exact Cfg.processTask_nour _ _ _ _ ‹_›)

theorem Cfg.contStop_nour (c : Cfg) (k : List Frame) (s : St) (r : Nat) (x : Task) (hk : NoUR k) :
    NoUR (c.contStop k s r x).stack := by
  unfold Cfg.contStop; (try dsimp only); nour
macro_rules | `(tactic| nour1) => `(tactic| with_reducible exact Cfg.contStop_nour _ _ _ _ _ ‹_›)

theorem Cfg.contError_nour (c : Cfg) (k : List Frame) (s : St) (r : Nat) (x : Task) (resumed : Bool) (hk : NoUR k) :
    NoUR (c.contError k s r x resumed).stack := by
  unfold Cfg.contError; (try dsimp only); nour
macro_rules | `(tactic| nour1) => `(tactic| with_reducible exact Cfg.contError_nour _ _ _ _ _ _ ‹_›)

theorem Cfg.ptBodyWait_nour (c : Cfg) (k : List Frame) (r : Nat) (x : Task) (w : Nat) (hk : NoUR k) :
    NoUR (c.ptBodyWait k r x w).stack := by
  unfold Cfg.ptBodyWait; (try dsimp only); nour
macro_rules | `(tactic| nour1) => `(tactic| with_reducible exact Cfg.ptBodyWait_nour _ _ _ _ _ ‹_›)

theorem Cfg.ptBodyExc_nour (c : Cfg) (k : List Frame) (r : Nat) (x : Task) (w : Nat) (fired : Bool) (hk : NoUR k) :
    NoUR (c.ptBodyExc k r x w fired).stack := by
  unfold Cfg.ptBodyExc; (try dsimp only); nour
macro_rules | `(tactic| nour1) => `(tactic| with_reducible exact Cfg.ptBodyExc_nour _ _ _ _ _ _ ‹_›)

theorem Cfg.ptBody_nour (c : Cfg) (k : List Frame) (r : Nat) (x : Task) (hk : NoUR k) :
    NoUR (c.ptBody k r x).stack := by
  unfold Cfg.ptBody; (try dsimp only); nour
macro_rules | `(tactic| nour1) => `(tactic| with_reducible exact Cfg.ptBody_nour _ _ _ _ ‹_›)

theorem Cfg.ptOwn_nour (c : Cfg) (k : List Frame) (r : Nat) (x : Task) (hk : NoUR k) :
    NoUR (c.ptOwn k r x).stack := by
  unfold Cfg.ptOwn; (try dsimp only); nour
macro_rules | `(tactic| nour1) => `(tactic| with_reducible exact Cfg.ptOwn_nour _ _ _ _ ‹_›)

theorem Cfg.ptParent_nour (c : Cfg) (k : List Frame) (r : Nat) (x : Task) (p : Nat) (viaThrow : Bool) (hk : NoUR k) :
    NoUR (c.ptParent k r x p viaThrow).stack := by
  unfold Cfg.ptParent; (try dsimp only); nour
macro_rules | `(tactic| nour1) => `(tactic| with_reducible exact Cfg.ptParent_nour _ _ _ _ _ _ ‹_›)

theorem Cfg.ptFin_nour (c : Cfg) (k : List Frame) (r : Nat) (handling : Option Nat) (hk : NoUR k) :
    NoUR (c.ptFin k r handling).stack := by
  unfold Cfg.ptFin; (try dsimp only); nour
macro_rules | `(tactic| nour1) => `(tactic| with_reducible exact Cfg.ptFin_nour _ _ _ _ ‹_›)

theorem Cfg.dispatcher_nour (c : Cfg) (k : List Frame) (r e remaining : Nat) (hk : NoUR k) :
    NoUR (c.dispatcher k r e remaining).stack := by
  unfold Cfg.dispatcher; (try dsimp only); nour
macro_rules | `(tactic| nour1) => `(tactic| with_reducible exact Cfg.dispatcher_nour _ _ _ _ _ ‹_›)

theorem Cfg.hLoop_nour (c : Cfg) (k : List Frame) (r e : Nat) (hs : List Nat) (err : Bool) (stale : Outcome) (hk : NoUR k) :
    NoUR (c.hLoop k r e hs err stale).stack := by
  unfold Cfg.hLoop; (try dsimp only); nour
macro_rules | `(tactic| nour1) => `(tactic| with_reducible exact Cfg.hLoop_nour _ _ _ _ _ _ _ ‹_›)

theorem Cfg.invokeUser_nour (c : Cfg) (k : List Frame) (s : St) (h e owner p : Nat) (hk : NoUR k) :
    NoUR (c.invokeUser k s h e owner p).stack := by
  unfold Cfg.invokeUser; (try dsimp only); nour
macro_rules | `(tactic| nour1) => `(tactic| with_reducible exact Cfg.invokeUser_nour _ _ _ _ _ _ _ ‹_›)

theorem Cfg.invoke_nour (c : Cfg) (k : List Frame) (r h e : Nat) (hk : NoUR k) :
    NoUR (c.invoke k r h e).stack := by
  unfold Cfg.invoke; (try dsimp only); nour
macro_rules | `(tactic| nour1) => `(tactic| with_reducible exact Cfg.invoke_nour _ _ _ _ _ ‹_›)

theorem Cfg.invokeFin_nour (c : Cfg) (k : List Frame) (e h : Nat) (hk : NoUR k) :
    NoUR (c.invokeFin k e h).stack := by
  unfold Cfg.invokeFin; (try dsimp only); nour
macro_rules | `(tactic| nour1) => `(tactic| with_reducible exact Cfg.invokeFin_nour _ _ _ _ ‹_›)

theorem Cfg.hAfter_nour (c : Cfg) (k : List Frame) (r e : Nat) (rest : List Nat) (err : Bool) (stale : Outcome) (hk : NoUR k) :
    NoUR (c.hAfter k r e rest err stale).stack := by
  unfold Cfg.hAfter; (try dsimp only); nour
macro_rules | `(tactic| nour1) => `(tactic| with_reducible exact Cfg.hAfter_nour _ _ _ _ _ _ _ ‹_›)

theorem Cfg.hApply_nour (c : Cfg) (k : List Frame) (r e : Nat) (rest : List Nat) (err : Bool) (value : Outcome) (hk : NoUR k) :
    NoUR (c.hApply k r e rest err value).stack := by
  unfold Cfg.hApply; (try dsimp only); nour
macro_rules | `(tactic| nour1) => `(tactic| with_reducible exact Cfg.hApply_nour _ _ _ _ _ _ _ ‹_›)

theorem Cfg.dispFin_nour (c : Cfg) (k : List Frame) (r e : Nat) (err : Bool) (hk : NoUR k) :
    NoUR (c.dispFin k r e err).stack := by
  unfold Cfg.dispFin; (try dsimp only); nour
macro_rules | `(tactic| nour1) => `(tactic| with_reducible exact Cfg.dispFin_nour _ _ _ _ _ ‹_›)

theorem Cfg.dispatchLoop_nour (c : Cfg) (k : List Frame) (r : Nat) (hk : NoUR k) :
    NoUR (c.dispatchLoop k r).stack := by
  unfold Cfg.dispatchLoop; (try dsimp only); nour
macro_rules | `(tactic| nour1) => `(tactic| with_reducible exact Cfg.dispatchLoop_nour _ _ _ ‹_›)

theorem Cfg.flush_nour (c : Cfg) (k : List Frame) (x : Nat) (hk : NoUR k) :
    NoUR (c.flush k x).stack := by
  unfold Cfg.flush; (try dsimp only); nour
macro_rules | `(tactic| nour1) => `(tactic| with_reducible exact Cfg.flush_nour _ _ _ ‹_›)

theorem Cfg.flushFin_nour (c : Cfg) (k : List Frame) (r : Nat) (old : Bool) (hk : NoUR k) :
    NoUR (c.flushFin k r old).stack := by
  unfold Cfg.flushFin; (try dsimp only); nour
macro_rules | `(tactic| nour1) => `(tactic| with_reducible exact Cfg.flushFin_nour _ _ _ _ ‹_›)

theorem Cfg.tick_nour (c : Cfg) (k : List Frame) (x : Nat) (hk : NoUR k) :
    NoUR (c.tick k x).stack := by
  unfold Cfg.tick; (try dsimp only); nour
macro_rules | `(tactic| nour1) => `(tactic| with_reducible exact Cfg.tick_nour _ _ _ ‹_›)

theorem Cfg.taskLoop_nour (c : Cfg) (k : List Frame) (x : Nat) (ts : List Task) (hk : NoUR k) :
    NoUR (c.taskLoop k x ts).stack := by
  unfold Cfg.taskLoop; (try dsimp only); nour
macro_rules | `(tactic| nour1) => `(tactic| with_reducible exact Cfg.taskLoop_nour _ _ _ _ ‹_›)

theorem Cfg.tickFin_nour (c : Cfg) (k : List Frame) (x : Nat) (old : Bool) (hk : NoUR k) :
    NoUR (c.tickFin k x old).stack := by
  unfold Cfg.tickFin; (try dsimp only); nour
macro_rules | `(tactic| nour1) => `(tactic| with_reducible exact Cfg.tickFin_nour _ _ _ _ ‹_›)

theorem Cfg.tickGen_nour (c : Cfg) (k : List Frame) (x : Nat) (hk : NoUR k) :
    NoUR (c.tickGen k x).stack := by
  unfold Cfg.tickGen; (try dsimp only); nour
macro_rules | `(tactic| nour1) => `(tactic| with_reducible exact Cfg.tickGen_nour _ _ _ ‹_›)

theorem Cfg.run_nour (c : Cfg) (k : List Frame) (x : Nat) (hk : NoUR k) :
    NoUR (c.run k x).stack := by
  unfold Cfg.run; (try dsimp only); nour
macro_rules | `(tactic| nour1) => `(tactic| with_reducible exact Cfg.run_nour _ _ _ ‹_›)

theorem Cfg.runLoop_nour (c : Cfg) (k : List Frame) (x : Nat) (hk : NoUR k) :
    NoUR (c.runLoop k x).stack := by
  unfold Cfg.runLoop; (try dsimp only); nour
macro_rules | `(tactic| nour1) => `(tactic| with_reducible exact Cfg.runLoop_nour _ _ _ ‹_›)

theorem Cfg.runFin_nour (c : Cfg) (k : List Frame) (x : Nat) (hk : NoUR k) :
    NoUR (c.runFin k x).stack := by
  unfold Cfg.runFin; (try dsimp only); nour
macro_rules | `(tactic| nour1) => `(tactic| with_reducible exact Cfg.runFin_nour _ _ _ ‹_›)

theorem Cfg.runCatchExn_nour (c : Cfg) (k : List Frame) (x : Nat) (ex : Exn) (hk : NoUR k) :
    NoUR (c.runCatchExn k x ex).stack := by
  unfold Cfg.runCatchExn; (try dsimp only); nour
macro_rules | `(tactic| nour1) => `(tactic| with_reducible exact Cfg.runCatchExn_nour _ _ _ _ ‹_›)

theorem Cfg.runRethrow_nour (c : Cfg) (k : List Frame) (ex : Exn) (hk : NoUR k) :
    NoUR (c.runRethrow k ex).stack := by
  unfold Cfg.runRethrow; (try dsimp only); nour
macro_rules | `(tactic| nour1) => `(tactic| with_reducible exact Cfg.runRethrow_nour _ _ _ ‹_›)

theorem stepFrame_nour (c : Cfg) (k : List Frame) (f : Frame) (hk : NoUR k) : NoUR (stepFrame c k f).stack := by
  cases f <;> (dsimp only [stepFrame]; nour)

theorem unwind_nour (c : Cfg) (k : List Frame) (ex : Exn) (f : Frame) (hk : NoUR k) : NoUR (unwind c k ex f).stack := by
  cases f <;> (dsimp only [unwind]; nour)

/-! ## the invariant of reachable configurations -/

theorem Cfg.register_forest (c : Cfg) (k : List Frame) (x p : Nat) (hF : ForestInv c.st) :
    ForestInv (c.register k x p).st := by
  unfold Cfg.register
  dsimp only
  by_cases hadm : c.st.admissible x p = true
  · obtain ⟨h1, h2⟩ := forest_register hF x p hadm c.st.comps.length rfl
    rw [if_neg (by simp [hadm]), if_pos h1]
    split <;> exact h2
  · rw [if_pos (by simpa using hadm)]
    exact hF

theorem Cfg.invoke_forest (c : Cfg) (k : List Frame) (r h e : Nat) (hF : ForestInv c.st) :
    ForestInv (c.invoke k r h e).st := by
  unfold Cfg.invoke
  dsimp only
  split
  case h_2 =>
    refine forest_detach (hF.of_treeEq ?_) _ _ rfl
    tree_eq
  all_goals exact hF.of_treeEq (by tree_eq)

theorem stepFrame_forest (c : Cfg) (k : List Frame) (f : Frame) (hF : ForestInv c.st) (hf : f.isUR = false) :
    ForestInv (stepFrame c k f).st := by
  cases f with
  | updateRoot todo root => cases hf
  | register x p => exact Cfg.register_forest c k x p hF
  | invoke r h e => exact Cfg.invoke_forest c k r h e hF
  | _ => exact hF.of_treeEq (by dsimp only [stepFrame]; tree_eq)

theorem unwind_teq (c : Cfg) (k : List Frame) (ex : Exn) (f : Frame) : TreeEq c.st (unwind c k ex f).st := by
  cases f <;> (dsimp only [unwind]; tree_eq)

/-- the invariant: the component tree is a consistent forest and no `.updateRoot` frame is pending -/
structure FInv (c : Cfg) : Prop where
  forest : ForestInv c.st
  nour : NoUR c.stack

theorem FInv.step {c : Cfg} (h : FInv c) : FInv (step c) := by
  unfold CV.Core.step
  split
  · exact h
  · rename_i f k hst
    have hk : NoUR (f :: k) := hst ▸ h.nour
    have hf : f.isUR = false ∧ NoUR k := by simpa [NoUR, noUR_cons] using hk
    split
    · exact ⟨h.forest.of_treeEq (unwind_teq ..), unwind_nour _ _ _ _ hf.2⟩
    · exact ⟨stepFrame_forest _ _ _ h.forest hf.1, stepFrame_nour _ _ _ hf.2⟩

theorem FInv.start (s : St) (hF : ForestInv s) (d : Nat) (tape : List Entry) (op : ExtOp) :
    FInv (startOf (envChange s d tape) op) := by
  have hT : TreeEq s (envChange s d tape) := rfl
  cases op <;> exact ⟨hF.of_treeEq hT, rfl⟩

theorem FInv.reach {s0 : St} (h0 : InitForest s0) : ∀ c, Reach s0 c → FInv c :=
  Reach.inv FInv (fun d tape op => FInv.start s0 (ForestInv.of_init s0 h0) d tape op)
    (fun _ h => h.step) (fun c d tape op h _ => FInv.start c.st h.forest d tape op)

/-! ## consequences of the forest invariant -/

/-- the root of `c` is an ancestor-or-self of `c` and is its own parent -/
theorem ForestInv.root_is_top {s : St} (h : ForestInv s) (c : Nat) (hc : c < s.comps.length) :
    Anc s (s.comp c).root c ∧ (s.comp (s.comp c).root).parent = (s.comp c).root := by
  obtain ⟨rk, hrk⟩ := h.acyclic
  suffices H : ∀ m c, rk c = m → c < s.comps.length →
      Anc s (s.comp c).root c ∧ (s.comp (s.comp c).root).parent = (s.comp c).root from H _ c rfl hc
  intro m
  induction m using Nat.strongRecOn with
  | ind m ih =>
    intro c hm hc
    have hro := h.rootOk c hc
    by_cases hp : (s.comp c).parent = c
    · rw [if_pos hp] at hro
      rw [hro]; exact ⟨Anc.refl, hp⟩
    · rw [if_neg hp] at hro
      have hlt := hrk c hc hp
      obtain ⟨h1, h2⟩ := ih _ (hm ▸ hlt) _ rfl (h.parentLt c hc)
      rw [hro]
      exact ⟨Anc.up c hp h1, h2⟩

/-- … and it is the only ancestor-or-self that is its own parent -/
theorem ForestInv.root_unique {s : St} (h : ForestInv s) (a c : Nat) (hc : c < s.comps.length)
    (ha : Anc s a c) (hp : (s.comp a).parent = a) : a = (s.comp c).root := by
  have hal := ha.lt h.links hc
  have := ha.root_eq h.links hc (fun d hd _ _ => h.rootOk d hd)
  rw [this]
  have hro := h.rootOk a hal
  rw [if_pos hp] at hro
  exact hro.symm

/-- `d` lies in the subtree of `a` (following `children` links downwards from `a`) -/
inductive Sub (s : St) (a : Nat) : Nat → Prop
  | refl : Sub s a a
  | down (m d : Nat) : Sub s a m → d ∈ (s.comp m).children → Sub s a d

theorem Sub.lt {s : St} (hL : Links s) {a d : Nat} (h : Sub s a d) (ha : a < s.comps.length) :
    d < s.comps.length := by
  induction h with
  | refl => exact ha
  | down m d _ hd ih => exact (hL.childOf m d ih hd).1

theorem Sub.anc {s : St} (hL : Links s) {a d : Nat} (h : Sub s a d) (ha : a < s.comps.length) :
    Anc s a d := by
  induction h with
  | refl => exact Anc.refl
  | down m d hm hd ih =>
    obtain ⟨_, h2, h3⟩ := hL.childOf m d (hm.lt hL ha) hd
    refine Anc.up d (by rw [h2]; exact fun e => h3 e.symm) ?_
    rw [h2]; exact ih

theorem Anc.sub {s : St} (hL : Links s) {a d : Nat} (h : Anc s a d) (hd : d < s.comps.length) :
    Sub s a d := by
  induction h with
  | refl => exact Sub.refl
  | up d hne _ ih => exact Sub.down _ d (ih (hL.parentLt d hd)) (hL.parentHas d hd hne)

/-- a subtree is fully connected: all its members have the root of its top -/
theorem ForestInv.subtree_root {s : St} (h : ForestInv s) (a d : Nat) (ha : a < s.comps.length)
    (hs : Sub s a d) : (s.comp d).root = (s.comp a).root :=
  (hs.anc h.links ha).root_eq h.links (hs.lt h.links ha) (fun c hc _ _ => h.rootOk c hc)

/-! ## the registering step and the detaching step, concretely -/

theorem St.updateRootAll_log : ∀ (fuel : Nat) (todo : List Nat) (root : Nat) (s : St),
    (St.updateRootAll fuel todo root s).log = s.log := by
  intro fuel
  induction fuel with
  | zero => intro todo root s; rfl
  | succ n ih =>
    intro todo root s
    cases todo with
    | nil => rfl
    | cons x rest => rw [St.updateRootAll_cons, ih]; rfl

theorem St.updateRootAll_evs : ∀ (fuel : Nat) (todo : List Nat) (root : Nat) (s : St),
    (St.updateRootAll fuel todo root s).evs = s.evs := by
  intro fuel
  induction fuel with
  | zero => intro todo root s; rfl
  | succ n ih =>
    intro todo root s
    cases todo with
    | nil => rfl
    | cons x rest => rw [St.updateRootAll_cons, ih]; rfl

/-- what the (admissible, proper) registering step does to the tree: `x` hangs under `p` and the
    whole subtree of `x` has `p`'s root -/
theorem register_step_tree {s : St} (hF : ForestInv s) (x p : Nat) (hadm : s.admissible x p = true)
    (hpx : p ≠ x) :
    let s' := St.updateRootAll (s.comps.length + 1) [x] (s.comp p).root (s.registerPre x p).2
    ForestInv s' ∧ (s'.comp x).parent = p ∧ x ∈ (s'.comp p).children ∧
      (s'.comp p).root = (s.comp p).root ∧
      ∀ d, Sub s' x d → (s'.comp d).root = (s.comp p).root := by
  intro s'
  obtain ⟨hx, hp, hroot, hrest⟩ := (St.admissible_iff s x p).mp hadm
  have hF' : ForestInv s' := (forest_register hF x p hadm _ rfl).2
  have hlen' : s'.comps.length = s.comps.length := by
    have := (forest_register hF x p hadm _ rfl)
    rcases hrest with e | ⟨_, hrp, hcl⟩
    · exact absurd e hpx
    · have hmid := register_mid hF x p hpx hx hp hroot hrp
      show (St.updateRootAll (s.comps.length + 1) [x] (s.comp p).root (s.registerPre x p).2).comps.length = _
      have heq : (s.registerPre x p).2 = regT s x p := by
        rw [St.registerPre_eq]
        have h1 : (p != x) = true := by simpa using hpx
        have hcl' : (((regA s x p).comp x).executing && ((regA s x p).comp (s.comp p).root).executing) = false := by
          unfold regA
          rw [St.f7comp_modComp_self _ _ _ hx, St.f7comp_modComp_ne _ _ _ _ (fun e => hrp e.symm)]
          exact hcl
        rw [if_pos h1, hcl']; rfl
      rw [heq]
      have := (St.updateRootAll_spec hmid.links x (s.comp p).root (by rw [regT_len]; exact hx)).1
      rw [regT_len] at this
      exact this
  rcases hrest with e | ⟨_, hrp, hcl⟩
  · exact absurd e hpx
  · have heq : (s.registerPre x p).2 = regT s x p := by
      rw [St.registerPre_eq]
      have h1 : (p != x) = true := by simpa using hpx
      have hcl' : (((regA s x p).comp x).executing && ((regA s x p).comp (s.comp p).root).executing) = false := by
        unfold regA
        rw [St.f7comp_modComp_self _ _ _ hx, St.f7comp_modComp_ne _ _ _ _ (fun e => hrp e.symm)]
        exact hcl
      rw [if_pos h1, hcl']; rfl
    have hmid := register_mid hF x p hpx hx hp hroot hrp
    have hxl : x < (regT s x p).comps.length := by rw [regT_len]; exact hx
    obtain ⟨_, hpar, hkids, hin, hout⟩ := St.updateRootAll_spec hmid.links x (s.comp p).root hxl
    rw [regT_len] at hpar hkids hin hout
    have hs' : s' = St.updateRootAll (s.comps.length + 1) [x] (s.comp p).root (regT s x p) := by
      show St.updateRootAll _ _ _ (s.registerPre x p).2 = _
      rw [heq]
    have hpx' : ((regT s x p).comp x).parent = p := by
      have := congrArg (·.1) (regT_proj s x p x hpx hx hp)
      simpa [tproj] using this
    have hparx : (s'.comp x).parent = p := by rw [hs', hpar, hpx']
    have hrootx : (s'.comp x).root = (s.comp p).root := by rw [hs']; exact hin x hx Anc.refl
    have hrootp : (s'.comp p).root = (s.comp p).root := by
      have := hF'.rootOk x (hlen' ▸ hx)
      rw [hparx, if_neg hpx, hrootx] at this
      exact this.symm
    refine ⟨hF', hparx, ?_, hrootp, ?_⟩
    · have := hF'.parentHas x (hlen' ▸ hx) (by rw [hparx]; exact hpx)
      rw [hparx] at this; exact this
    · intro d hd
      rw [hF'.subtree_root x d (hlen' ▸ hx) hd, hrootx]

/-- what the detaching step does to the tree of an attached in-range component `o`: it is removed
    from its parent's children, becomes its own parent, and its whole subtree gets root `o` -/
theorem detach_step_tree {s : St} (hF : ForestInv s) (o : Nat) (ho : o < s.comps.length)
    (hne : (s.comp o).parent ≠ o) :
    let s' := St.updateRootAll (s.comps.length + 1) [o] o (s.prepUnregPre o)
    ForestInv s' ∧ s'.comps.length = s.comps.length ∧
      (∀ d, (s'.comp d).parent = if d = o then o else (s.comp d).parent) ∧
      (∀ d, (s'.comp d).children =
          if d = (s.comp o).parent then (s.comp d).children.erase o else (s.comp d).children) ∧
      ∀ d, Sub s' o d → (s'.comp d).root = o := by
  intro s'
  have hT := puA_treeEq s o
  have hA : ForestInv (puA s o) := hF.of_treeEq hT
  have hoA : o < (puA s o).comps.length := by rw [hT.len]; exact ho
  have hneA : ((puA s o).comp o).parent ≠ o := by rw [hT.par]; exact hne
  have heq : s.prepUnregPre o = puB (puA s o) o := by
    rw [St.prepUnregPre_eq, if_pos (by simpa using hneA)]
  have hmid := detach_mid hA o hoA hneA
  have hlenB : (puB (puA s o) o).comps.length = s.comps.length := by rw [puB_len, hT.len]
  obtain ⟨hlen, hpar, hkids, hin, _⟩ := St.updateRootAll_spec hmid.links o o (by rw [hlenB]; exact ho)
  rw [hlenB] at hlen hpar hkids hin
  have hs' : s' = St.updateRootAll (s.comps.length + 1) [o] o (puB (puA s o) o) := by
    show St.updateRootAll _ _ _ (s.prepUnregPre o) = _
    rw [heq]
  have hF' : ForestInv s' := forest_detach hF o _ rfl
  have hlen' : s'.comps.length = s.comps.length := by rw [hs']; exact hlen
  refine ⟨hF', hlen', ?_, ?_, ?_⟩
  · intro d
    rw [hs', hpar, puB_parent, hT.par]
    by_cases e : d = o
    · subst e; simp [hoA]
    · have e' : o ≠ d := fun h => e h.symm
      simp [e, e']
  · intro d
    rw [hs', hkids, puB_children, hT.par, hT.kids]
    by_cases e : d = (s.comp o).parent
    · subst e
      have : (s.comp o).parent < (puA s o).comps.length := by rw [hT.len]; exact hF.parentLt o ho
      simp [this]
    · have e' : (s.comp o).parent ≠ d := fun h => e h.symm
      simp [e, e']
  · intro d hd
    have hroot_o : (s'.comp o).root = o := by rw [hs']; exact hin o ho Anc.refl
    rw [hF'.subtree_root o d (hlen' ▸ ho) hd, hroot_o]

/-- after the detach step nothing in the detached subtree can be reached from the former root -/
theorem detach_unreachable {s : St} (hF : ForestInv s) (o : Nat) (ho : o < s.comps.length)
    (hne : (s.comp o).parent ≠ o) :
    let s' := St.updateRootAll (s.comps.length + 1) [o] o (s.prepUnregPre o)
    ∀ d, Sub s' o d → ¬ Sub s' (s.comp o).root d := by
  intro s' d hd hr
  obtain ⟨hF', hlen', hpar, _, hroot⟩ := detach_step_tree hF o ho hne
  obtain ⟨_, htop⟩ := hF.root_is_top o ho
  have hr0 : (s.comp o).root < s.comps.length := hF.rootLt o ho
  have hr0o : (s.comp o).root ≠ o := by
    intro e; rw [e] at htop; exact hne htop
  have hpr0 : (s'.comp (s.comp o).root).parent = (s.comp o).root := by
    show ((St.updateRootAll (s.comps.length + 1) [o] o (s.prepUnregPre o)).comp (s.comp o).root).parent = _
    rw [hpar, if_neg hr0o]; exact htop
  have h1 : (s'.comp d).root = o := hroot d hd
  have h2 : (s'.comp d).root = (s'.comp (s.comp o).root).root :=
    hF'.subtree_root _ d (Nat.lt_of_lt_of_eq hr0 hlen'.symm) hr
  have h3 := hF'.rootOk (s.comp o).root (Nat.lt_of_lt_of_eq hr0 hlen'.symm)
  rw [if_pos hpr0] at h3
  rw [h3] at h2
  exact hr0o (h2.symm.trans h1)

theorem ReachIn.sub {s : St} {n a d : Nat} (h : ReachIn s n a d) : Sub s a d := by
  induction h with
  | here => exact Sub.refl
  | step n c d e hd _ ih =>
    -- prepend one child link
    have pre : ∀ x, Sub s d x → Sub s c x := by
      intro x hx
      induction hx with
      | refl => exact Sub.down c d Sub.refl hd
      | down m y _ hy ih2 => exact Sub.down m y ih2 hy
    exact pre e ih

/-- … so `getHandlers` on the former root finds only handlers of components outside it -/
theorem detach_collect {s : St} (hF : ForestInv s) (o : Nat) (ho : o < s.comps.length)
    (hne : (s.comp o).parent ≠ o) (fuel : Nat) (name : Name) (target : Chan) (h : Nat) :
    let s' := St.updateRootAll (s.comps.length + 1) [o] o (s.prepUnregPre o)
    h ∈ collect s' fuel (s.comp o).root name target →
      ∃ d, matchesAt s' d name target h ∧ ¬ Sub s' o d := by
  intro s' hmem
  cases fuel with
  | zero => rw [collect_zero] at hmem; cases hmem
  | succ n =>
    obtain ⟨d, hr, hm⟩ := (mem_collect s' name target h n _).mp hmem
    exact ⟨d, hm, fun hs => detach_unreachable hF o ho hne d hs hr.sub⟩

/-! ## events queued on a component before it was registered move to the new root -/

theorem St.eq_modComp_keep {s : St} {c d : Nat} {f : Comp → Comp} {q : EQ} (hf : ∀ y, (f y).eq = y.eq)
    (h : (s.comp d).eq = q) : ((s.modComp c f).comp d).eq = q := by
  rw [St.f7comp_modComp]; split
  · rw [hf]; exact h
  · exact h

theorem regABC_eq (s : St) (c p r d : Nat) :
    ((regC (regB (regA s c p) c r) c p).comp d).eq = (s.comp d).eq := by
  unfold regC
  refine St.eq_modComp_keep (fun _ => rfl) ?_
  have hA : ((regA s c p).comp d).eq = (s.comp d).eq := by
    unfold regA; exact St.eq_modComp_keep (fun _ => rfl) rfl
  unfold regB
  split
  · exact St.eq_modComp_keep (fun _ => rfl) (St.eq_modComp_keep (fun _ => rfl) hA)
  · exact hA

theorem regABC_len (s : St) (c p r : Nat) :
    (regC (regB (regA s c p) c r) c p).comps.length = s.comps.length := by
  unfold regC
  rw [St.modComp_len, (regB_treeEq _ _ _).len]
  unfold regA
  rw [St.modComp_len]

theorem St.registerPre_eq_regT (s : St) (c p : Nat) (hadm : s.admissible c p = true) (hpc : p ≠ c) :
    (s.registerPre c p).2 = regT s c p := by
  obtain ⟨hc, _, _, hrest⟩ := (St.admissible_iff s c p).mp hadm
  rcases hrest with e | ⟨_, hrp, hcl⟩
  · exact absurd e hpc
  · rw [St.registerPre_eq]
    have h1 : (p != c) = true := by simpa using hpc
    have hcl' : (((regA s c p).comp c).executing && ((regA s c p).comp (s.comp p).root).executing) = false := by
      unfold regA
      rw [St.f7comp_modComp_self _ _ _ hc, St.f7comp_modComp_ne _ _ _ _ (fun e => hrp e.symm)]
      exact hcl
    rw [if_pos h1, hcl']; rfl

/-- `registerPre` appends the child's deque to the new root's deque and empties the child's -/
theorem St.registerPre_queue {s : St} (hF : ForestInv s) (c p : Nat) (hadm : s.admissible c p = true)
    (hpc : p ≠ c) :
    (((s.registerPre c p).2.comp (s.comp p).root).eq.queue =
        (s.comp (s.comp p).root).eq.queue ++ (s.comp c).eq.queue) ∧
    ((s.registerPre c p).2.comp c).eq.queue = [] := by
  obtain ⟨hc, hp, _, hrest⟩ := (St.admissible_iff s c p).mp hadm
  rcases hrest with e | ⟨_, hrp, _⟩
  · exact absurd e hpc
  · rw [St.registerPre_eq_regT s c p hadm hpc]
    have hr : (s.comp p).root < s.comps.length := hF.rootLt p hp
    unfold regT regD
    have h1 : ((s.comp p).root != c) = true := by simpa using hrp
    rw [if_pos h1]
    have hlen := regABC_len s c p (s.comp p).root
    constructor
    · rw [St.f7comp_modComp_ne _ _ _ _ (fun e => hrp e.symm), St.f7comp_modComp_self _ _ _ (hlen ▸ hr)]
      simp only [EQ.drainFrom, regABC_eq]
    · rw [St.f7comp_modComp_self _ _ _ (by rw [St.modComp_len, hlen]; exact hc)]
      simp only [EQ.drainFrom]

theorem St.updateRootAll_eq : ∀ (fuel : Nat) (todo : List Nat) (root : Nat) (s : St) (d : Nat),
    ((St.updateRootAll fuel todo root s).comp d).eq = (s.comp d).eq := by
  intro fuel
  induction fuel with
  | zero => intro todo root s d; rfl
  | succ n ih =>
    intro todo root s d
    cases todo with
    | nil => rfl
    | cons x rest =>
      rw [St.updateRootAll_cons, ih, St.f7comp_modComp]
      split <;> rfl

/-! ## the announcements -/

theorem St.f7ev_addEv_new (s : St) (ev : Ev) : (s.addEv ev).ev s.evs.length = ev := by
  unfold St.ev St.addEv
  simp [List.getD_eq_getElem?_getD]

theorem St.ev_modEv_name (s : St) (e d : Nat) (f : Ev → Ev) (hf : ∀ x, (f x).name = x.name) :
    ((s.modEv e f).ev d).name = (s.ev d).name := by
  unfold St.ev St.modEv
  simp only [List.getD_eq_getElem?_getD, List.getElem?_modify]
  cases s.evs[d]? with
  | none => rfl
  | some a => by_cases h : e = d <;> simp [h, hf]

theorem St.name_modEv {s : St} {e d : Nat} {f : Ev → Ev} {n : Name} (hf : ∀ x, (f x).name = x.name)
    (h : (s.ev d).name = n) : ((s.modEv e f).ev d).name = n := by
  rw [St.ev_modEv_name _ _ _ _ hf]; exact h

theorem St.fireContext_name (s : St) (r e d : Nat) : ((s.fireContext r e).ev d).name = (s.ev d).name := by
  unfold St.fireContext
  dsimp only
  repeat' split
  all_goals first
    | rfl
    | exact St.name_modEv (fun _ => rfl) (St.name_modEv (fun _ => rfl) rfl)
    | exact St.name_modEv (fun _ => rfl) rfl
    | exact St.name_modEv (fun x => by split <;> rfl) rfl

theorem St.fireContext_log (s : St) (r e : Nat) : (s.fireContext r e).log = s.log := by
  unfold St.fireContext
  dsimp only
  repeat' split
  all_goals rfl

/-- `fireRaw`: exactly one log entry, carrying the event's name -/
theorem St.fireRaw_log (s : St) (self e : Nat) (chans : List Chan) (prio : Int) :
    (s.fireRaw self e chans prio).log = Entry.fire e (s.ev e).name chans prio :: s.log := by
  unfold St.fireRaw
  dsimp only
  unfold St.logE
  dsimp only
  have hm : ∀ (t : St) (c : Nat) (f : Comp → Comp) (d : Nat), (t.modComp c f).ev d = t.ev d := fun _ _ _ _ => rfl
  have hl : ∀ (t : St) (c : Nat) (f : Comp → Comp), (t.modComp c f).log = t.log := fun _ _ _ => rfl
  rw [hm, hl, St.fireContext_name, St.fireContext_log]
  have hn : ((s.modEv e fun x => { x with chans := chans, val := {}, mgr := self }).ev e).name = (s.ev e).name :=
    St.name_modEv (fun _ => rfl) rfl
  rw [hn]
  rfl

/-- `fire` of a fresh event object: exactly one log entry, carrying the event's name -/
theorem St.fireTmplEv_log (s : St) (self : Nat) (ev : Ev) (target : Option Chan) (prio : Int) :
    (s.fireTmplEv self ev target prio).log =
      Entry.fire s.evs.length ev.name
        (match target with
          | some t => [t]
          | none => [((s.addEv ev).comp self).chan]) prio :: s.log := by
  unfold St.fireTmplEv
  dsimp only
  rw [St.fireRaw_log, St.f7ev_addEv_new]
  rfl

/-- the step of frame `.registerFin x` appends exactly one log entry: the `fire` of `registered` -/
theorem Cfg.registerFin_log (c : Cfg) (k : List Frame) (x : Nat) :
    (c.registerFin k x).st.log =
      Entry.fire c.st.evs.length Name.registered [(c.st.comp x).chan] 0 :: c.st.log := by
  unfold Cfg.registerFin St.registerFin
  rw [Cfg.pop_st, St.fireTmplEv_log]
  rfl

theorem St.registerPre_log (s : St) (c p : Nat) : (s.registerPre c p).2.log = s.log := by
  rw [St.registerPre_eq]
  unfold regD regC regB regA
  repeat' split
  all_goals rfl

/-- the registering step itself logs nothing (the announcement is the next step, `registerFin`) -/
theorem Cfg.register_log (c : Cfg) (k : List Frame) (x p : Nat) : (c.register k x p).st.log = c.st.log := by
  unfold Cfg.register
  dsimp only
  repeat' split
  all_goals first
    | rfl
    | (simp only [Cfg.goto_st, Cfg.pop_st, Cfg.raise_st, St.updateRootAll_log, St.registerPre_log])

/-- `prepUnregPre` appends exactly one log entry: the `fire` of `unregistered` -/
theorem St.prepUnregPre_log (s : St) (o : Nat) :
    ∃ chans, (s.prepUnregPre o).log = Entry.fire s.evs.length Name.unregistered chans 0 :: s.log := by
  have hA : ∃ chans, (puA s o).log = Entry.fire s.evs.length Name.unregistered chans 0 :: s.log := by
    unfold puA
    rw [St.fireTmplEv_log]
    exact ⟨_, rfl⟩
  rw [St.prepUnregPre_eq]
  split
  · exact hA
  · exact hA

/-- the detaching step (the framework handler `_on_prepare_unregister_complete`) appends the
    handler-invocation entry and exactly one `fire`, of `unregistered` -/
theorem Cfg.invoke_detach_log (c : Cfg) (k : List Frame) (r h e : Nat)
    (hk : (c.st.handler h).kind = HKind.prepUnregComplete) :
    ∃ chans, (c.invoke k r h e).st.log =
      Entry.fire c.st.evs.length Name.unregistered chans 0 ::
        Entry.hinv e 4 (c.st.handler h).owner :: c.st.log := by
  unfold Cfg.invoke
  dsimp only
  rw [hk]
  dsimp only
  simp only [Cfg.goto_st, St.updateRootAll_log]
  have h4 : (HKind.prepUnregComplete.code != 0) = true := rfl
  rw [if_pos h4]
  obtain ⟨chans, hc⟩ := St.prepUnregPre_log (c.st.logE (Entry.hinv e HKind.prepUnregComplete.code
    (hkey c.st (c.st.handler h)))) (c.st.handler h).owner
  refine ⟨chans, ?_⟩
  rw [hc]
  unfold hkey
  rw [hk]
  rfl

/-! ## the two tree-changing steps, as equations on `step` -/

/-- an admissible registration does not raise `UnregistrableError` -/
theorem St.registerPre_ok (s : St) (x p : Nat) (hadm : s.admissible x p = true) :
    (s.registerPre x p).1 = true := by
  obtain ⟨hc, _, _, hrest⟩ := (St.admissible_iff s x p).mp hadm
  rw [St.registerPre_eq]
  by_cases hpx : p = x
  · subst hpx
    have h1 : (p != p) = false := by simp
    rw [h1]; rfl
  · rcases hrest with e | ⟨_, hrp, hcl⟩
    · exact absurd e hpx
    · have h1 : (p != x) = true := by simpa using hpx
      have hcl' : (((regA s x p).comp x).executing && ((regA s x p).comp (s.comp p).root).executing) = false := by
        unfold regA
        rw [St.f7comp_modComp_self _ _ _ hc, St.f7comp_modComp_ne _ _ _ _ (fun e => hrp e.symm)]
        exact hcl
      rw [if_pos h1, hcl']; rfl

/-- the state after the step that executes an admissible `x.register(p)` -/
theorem step_register (c : Cfg) (x p : Nat) (k : List Frame) (hst : c.stack = .register x p :: k)
    (hx : c.exn = none) (hadm : c.st.admissible x p = true) :
    (step c).st = St.updateRootAll (c.st.comps.length + 1) [x] (c.st.comp p).root (c.st.registerPre x p).2 := by
  rw [step_cons c _ k hst hx]
  dsimp only [stepFrame]
  unfold Cfg.register
  dsimp only
  rw [if_neg (by simp [hadm]), if_pos (St.registerPre_ok _ _ _ hadm)]
  split <;> rfl

/-- the state after the step that runs `_on_prepare_unregister_complete` of handler `h` -/
theorem step_detach (c : Cfg) (r h e : Nat) (k : List Frame) (hst : c.stack = .invoke r h e :: k)
    (hx : c.exn = none) (hk : (c.st.handler h).kind = HKind.prepUnregComplete) :
    (step c).st =
      St.updateRootAll ((c.st.logE (Entry.hinv e 4 (c.st.handler h).owner)).comps.length + 1)
        [(c.st.handler h).owner] (c.st.handler h).owner
        ((c.st.logE (Entry.hinv e 4 (c.st.handler h).owner)).prepUnregPre (c.st.handler h).owner) := by
  rw [step_cons c _ k hst hx]
  dsimp only [stepFrame]
  unfold Cfg.invoke
  dsimp only
  rw [hk]
  dsimp only
  have h4 : (HKind.prepUnregComplete.code != 0) = true := rfl
  rw [if_pos h4]
  unfold hkey
  rw [hk]
  rfl

end CV.Core

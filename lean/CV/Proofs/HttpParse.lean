import CV.Model.HttpParse
/-
Helper lemmas for C13: `find` is stable under extension of the buffer, and every phase of
`exec` is a homomorphism for clean one-piece runs.
-/
namespace CV
namespace Http

theorem find_bound {pat x : Bytes} {i : Nat} (h : find pat x = some i) : i + pat.length ≤ x.length := by
  induction x generalizing i with
  | nil => simp [find] at h
  | cons a r ih =>
    unfold find at h
    split at h
    · rename_i ht
      cases h
      have := congrArg List.length ht
      simp at this
      simp; omega
    · cases hr : find pat r with
      | none => simp [hr] at h
      | some j =>
        simp [hr] at h
        have := ih hr
        simp; omega

theorem find_append {pat x : Bytes} {i : Nat} (y : Bytes) (h : find pat x = some i) :
    find pat (x ++ y) = some i := by
  induction x generalizing i with
  | nil => simp [find] at h
  | cons a r ih =>
    unfold find at h
    rw [List.cons_append]
    unfold find
    split at h
    · rename_i ht
      cases h
      have hl := congrArg List.length ht
      simp at hl
      have : (a :: (r ++ y)).take pat.length = pat := by
        rw [← List.cons_append, List.take_append_of_le_length (by simp; omega)]
        exact ht
      simp [this]
    · rename_i hnt
      cases hr : find pat r with
      | none => simp [hr] at h
      | some j =>
        simp [hr] at h
        have hb := find_bound hr
        have : ¬ (a :: (r ++ y)).take pat.length = pat := by
          rw [← List.cons_append, List.take_append_of_le_length (by simp; omega)]
          exact hnt
        simp [this, ih hr, h]

theorem find_none_of_append {pat x y : Bytes} (h : find pat (x ++ y) = none) : find pat x = none := by
  cases hx : find pat x with
  | none => rfl
  | some i => rw [find_append y hx] at h; cases h

theorem take_app {x : Bytes} {n : Nat} (y : Bytes) (h : n ≤ x.length) : (x ++ y).take n = x.take n :=
  List.take_append_of_le_length h

theorem drop_app {x : Bytes} {n : Nat} (y : Bytes) (h : n ≤ x.length) : (x ++ y).drop n = x.drop n ++ y :=
  List.drop_append_of_le_length h


theorem trailersDone_append {d : Bytes} (y : Bytes) (h : trailersDone d = true) :
    trailersDone (d ++ y) = true ∧ trailerRest (d ++ y) = trailerRest d ++ y := by
  unfold trailersDone at h
  by_cases h2 : d.take 2 = CRLF
  · have hl : 2 ≤ d.length := by
      have := congrArg List.length h2
      simp [CRLF] at this; omega
    have h2' : (d ++ y).take 2 = CRLF := by rw [take_app y hl]; exact h2
    simp [trailersDone, trailerRest, h2, h2', drop_app y hl]
  · simp [h2] at h
    cases hf : find CRLF2 d with
    | none => simp [hf] at h
    | some i =>
      have hb := find_bound hf
      simp [CRLF2] at hb
      have h2' : ¬ (d ++ y).take 2 = CRLF := by rw [take_app y (by omega)]; exact h2
      have hf' := find_append y hf
      simp [trailersDone, trailerRest, h2, h2', hf, hf', drop_app y (show i + 4 ≤ d.length by omega)]

theorem chunkLoop_stop {lex : Lex} {c : Core} {x : Bytes} {p : PState}
    (h : chunkStep lex c x = .stop p) : chunkLoop lex c x = p := by
  rw [chunkLoop]; split <;> simp_all

theorem chunkLoop_more {lex : Lex} {c c' : Core} {x x' : Bytes}
    (h : chunkStep lex c x = .more c' x') : chunkLoop lex c x = chunkLoop lex c' x' := by
  rw [chunkLoop]; split <;> simp_all

theorem chunkStep_more_append {lex : Lex} {c c' : Core} {x x' : Bytes} (b : Bytes)
    (h : chunkStep lex c x = .more c' x') : chunkStep lex c (x ++ b) = .more c' (x' ++ b) := by
  unfold chunkStep at h ⊢
  cases hf : find CRLF x with
  | none => simp [hf] at h
  | some idx =>
    have hb := find_bound hf
    simp [CRLF] at hb
    simp only [hf, find_append b hf, take_app b (show idx ≤ x.length by omega),
      drop_app b (show idx + 2 ≤ x.length by omega)] at h ⊢
    cases hl : lex.chunk (List.take idx x) with
    | none => simp [hl] at h
    | some size =>
      simp only [hl] at h ⊢
      by_cases hz : size = 0
      · simp [hz] at h
        split at h <;> cases h
      · simp only [hz, if_false] at h ⊢
        split at h
        · cases h
        · rename_i hlen
          have hdl : (List.drop (idx + 2) x).length = x.length - (idx + 2) := List.length_drop
          have : ¬ (List.drop (idx + 2) x ++ b).length < size + 2 := by
            simp only [List.length_append, hdl]; simp only [hdl] at hlen; omega
          simp only [this, if_false]
          injection h with h1 h2
          subst h1; subst h2
          have hle : size + 2 ≤ (List.drop (idx + 2) x).length := by simp only [hdl] at hlen ⊢; omega
          rw [take_app b (by omega), drop_app b hle]


theorem chunkStep_stop_append {lex : Lex} {c : Core} {x : Bytes} {p : PState} (b : Bytes) (hb : b ≠ [])
    (h : chunkStep lex c x = .stop p) :
    p = ⟨c, x⟩ ∨ ∃ p', chunkStep lex c (x ++ b) = .stop p' ∧ p'.core.bad = true := by
  unfold chunkStep at h ⊢
  cases hf : find CRLF x with
  | none => simp [hf] at h; exact Or.inl h.symm
  | some idx =>
    have hbd := find_bound hf
    simp [CRLF] at hbd
    simp only [hf, find_append b hf, take_app b (show idx ≤ x.length by omega),
      drop_app b (show idx + 2 ≤ x.length by omega)] at h ⊢
    cases hl : lex.chunk (List.take idx x) with
    | none =>
      simp only [hl] at h ⊢
      exact Or.inr ⟨_, rfl, by simp [Core.bad]⟩
    | some size =>
      simp only [hl] at h ⊢
      by_cases hz : size = 0
      · simp only [hz, if_true] at h ⊢
        by_cases ht : trailersDone (List.drop (idx + 2) x) = true
        · have ⟨ht', hr⟩ := trailersDone_append b ht
          simp only [ht', if_true]
          refine Or.inr ⟨_, rfl, ?_⟩
          have : (trailerRest (List.drop (idx + 2) x) ++ b).isEmpty = false := by
            cases b with
            | nil => exact absurd rfl hb
            | cons _ _ => simp
          simp [Core.bad, hr, this]
        · simp only [ht] at h
          injection h with h
          exact Or.inl h.symm
      · simp only [hz, if_false] at h
        split at h
        · injection h with h; exact Or.inl h.symm
        · cases h

/-- the parser is inside a chunked body -/
def InChunk (c : Core) : Prop :=
  c.onFirst = true ∧ c.hdrDone = true ∧ c.complete = false ∧ c.chunked = true ∧ c.msgBegin = true ∧ c.exn = false

theorem exec_wait_chunk {lex : Lex} {c : Core} (x : Bytes) {b : Bytes} (hc : InChunk c) (hb : b ≠ []) :
    exec lex ⟨c, x⟩ b = chunkLoop lex c (x ++ b) := by
  obtain ⟨h1, h2, h3, h4, h5, h6⟩ := hc
  have hbe : b.isEmpty = false := by cases b <;> simp_all
  cases c
  simp only at h1 h2 h3 h4 h5 h6
  subst h1 h2 h3 h4 h5 h6
  simp [exec, hbe, execBody, Core.status]

theorem chunk_hom (lex : Lex) (c : Core) (x b : Bytes) (hc : InChunk c) (hb : b ≠ [])
    (hclean : (chunkLoop lex c (x ++ b)).core.bad = false) :
    exec lex (chunkLoop lex c x) b = chunkLoop lex c (x ++ b) := by
  fun_induction chunkLoop lex c x with
  | case1 c x p h =>
    rcases chunkStep_stop_append b hb h with rfl | ⟨p', hs, hbad⟩
    · exact exec_wait_chunk x hc hb
    · rw [chunkLoop_stop hs] at hclean
      rw [hbad] at hclean; cases hclean
  | case2 c x c' x' h ih =>
    have hs := chunkStep_more_append b h
    rw [chunkLoop_more hs] at hclean ⊢
    have hc' : InChunk c' := by
      unfold chunkStep at h
      split at h
      · cases h
      · split at h
        · cases h
        · dsimp only at h
          split at h
          · split at h <;> cases h
          · split at h
            · cases h
            · injection h with h1 h2
              subst h1
              exact hc
    exact ih hc' hclean


theorem chunkLoop_over (lex : Lex) (c : Core) (x : Bytes) (h : c.over = true) :
    (chunkLoop lex c x).core.over = true := by
  fun_induction chunkLoop lex c x with
  | case1 c x p hs =>
    unfold chunkStep at hs
    split at hs
    · cases hs; exact h
    · split at hs
      · cases hs; exact h
      · dsimp only at hs
        split at hs
        · split at hs <;> cases hs <;> simp [h]
        · split at hs
          · cases hs; exact h
          · cases hs
  | case2 c x c' x' hs ih =>
    apply ih
    unfold chunkStep at hs
    split at hs
    · cases hs
    · split at hs
      · cases hs
      · dsimp only at hs
        split at hs
        · split at hs <;> cases hs
        · split at hs
          · cases hs
          · cases hs; exact h

theorem execBody_over (lex : Lex) (c : Core) (x : Bytes) (nil : Bool) (h : c.over = true) :
    (execBody lex c x nil).core.over = true := by
  unfold execBody
  dsimp only
  split
  · exact h
  · split
    · split
      · split <;> exact h
      · split
        · exact h
        · simp [h]
    · exact chunkLoop_over _ _ _ h

/-- the parser is inside the body phase -/
def InBody (c : Core) : Prop :=
  c.onFirst = true ∧ c.hdrDone = true ∧ c.complete = false ∧ c.exn = false

theorem body_hom (lex : Lex) (c : Core) (x b : Bytes) (hc : InBody c) (hb : b ≠ [])
    (hclean : (execBody lex c (x ++ b) false).core.bad = false) :
    exec lex (execBody lex c x false) b = execBody lex c (x ++ b) false := by
  obtain ⟨h1, h2, h3, h6⟩ := hc
  have hbe : b.isEmpty = false := by cases b <;> simp_all
  have hxb : (x ++ b).isEmpty = false := by cases x <;> simp_all
  by_cases hch : c.chunked = true
  · have e1 : ∀ y, execBody lex c y false = chunkLoop lex { c with msgBegin := true } y := by
      intro y; simp [execBody, hch]
    rw [e1] at hclean ⊢
    rw [e1]
    exact chunk_hom lex _ x b ⟨h1, h2, h3, hch, rfl, h6⟩ hb hclean
  · simp only [Bool.not_eq_true] at hch
    cases c with
    | mk kind onFirst hdrDone msgBegin complete errno exn firstLine fl hdrBlock hi chunked clen clenRest body over =>
    simp only at h1 h2 h3 h6 hch
    subst h1 h2 h3 h6 hch
    have hblen : 0 < b.length := by cases b <;> simp_all
    by_cases hcond : (x.isEmpty && clen.isNone) = true
    · have hx : x = [] := by cases x <;> simp_all
      have hcl : clen = none := by cases clen <;> simp_all
      subst hx hcl
      cases hst : (Core.status { kind := kind, onFirst := true, hdrDone := true, msgBegin := true, complete := false, errno := errno, exn := false, firstLine := firstLine, fl := fl, hdrBlock := hdrBlock, hi := hi, chunked := false, clen := none, clenRest := clenRest, body := body, over := over }) with
      | none =>
        exfalso
        cases clenRest with
        | none => simp [execBody, hbe, Core.bad, hst] at hclean
        | some r => simp [execBody, hbe, Core.bad, hst] at hclean
      | some st =>
        simp [execBody, exec, hbe, hst]
    · simp only [Bool.not_eq_true] at hcond
      cases clenRest with
      | none =>
        exfalso
        simp [execBody, hxb, Core.bad] at hclean
      | some r =>
        simp [execBody, hxb, Core.bad] at hclean
        obtain ⟨⟨⟨hov, hr⟩, hk⟩, herr⟩ := hclean
        subst hov herr
        have hnc : ¬ (r - (x.length : Int) ≤ 0) := by omega
        simp only [Core.status] at hk
        simp [execBody, hcond, hxb, exec, hbe, hnc, Core.status]
        refine ⟨by constructor <;> intro h <;> omega, by omega, ?_⟩
        have h1 : (r - (x.length : Int) < 0) = False := by simp; omega
        have h2 : (r - (x.length : Int) - (b.length : Int) < 0) = (r - ((x.length : Int) + (b.length : Int)) < 0) := by
          apply propext; constructor <;> intro h <;> omega
        simp only [h1, h2]
        cases clen.isNone <;> cases (match fl with | some f => f.status | none => none).isNone <;> simp


/-- the parser is inside the header phase -/
def InHeaders (c : Core) : Prop :=
  c.onFirst = true ∧ c.hdrDone = false ∧ c.complete = false ∧ c.exn = false

theorem exec_wait_headers {lex : Lex} {c : Core} (x : Bytes) {b : Bytes} (hc : InHeaders c) (hb : b ≠ []) :
    exec lex ⟨c, x⟩ b = execHeaders lex c (x ++ b) := by
  obtain ⟨h1, h2, h3, h6⟩ := hc
  have hbe : b.isEmpty = false := by cases b <;> simp_all
  simp [exec, hbe, h1, h2, h6]

/-- the `else` part of `execHeaders` keeps a raised `over` flag -/
theorem execHeaders_over_of_crlf (lex : Lex) (c : Core) (x : Bytes) (hne : x ≠ CRLF) (h2 : x.take 2 = CRLF) :
    (execHeaders lex c x).core.over = true := by
  unfold execHeaders
  simp only [hne, if_false, h2, decide_true, Bool.or_true]
  split
  · rfl
  · split
    · rfl
    · apply execBody_over
      rename_i h _
      cases h.clen <;> rfl

theorem headers_hom (lex : Lex) (c : Core) (x b : Bytes) (hc : InHeaders c) (hb : b ≠ [])
    (hclean : (execHeaders lex c (x ++ b)).core.bad = false) :
    exec lex (execHeaders lex c x) b = execHeaders lex c (x ++ b) := by
  have hblen : 0 < b.length := by cases b <;> simp_all
  have hover : (execHeaders lex c (x ++ b)).core.over = false := by
    simp only [Core.bad, Bool.or_eq_false_iff] at hclean; exact hclean.1.1
  by_cases hx : x = CRLF
  · exfalso
    have hne : x ++ b ≠ CRLF := by
      subst hx
      intro h; have := congrArg List.length h
      rw [List.length_append] at this
      simp only [CRLF, List.length_cons, List.length_nil] at this; omega
    have h2 : (x ++ b).take 2 = CRLF := by subst hx; rfl
    rw [execHeaders_over_of_crlf lex c _ hne h2] at hover
    cases hover
  · cases hf : find CRLF2 x with
    | none =>
      by_cases h2 : x.take 2 = CRLF
      · exfalso
        have hl : 2 ≤ x.length := by
          have := congrArg List.length h2; simp [CRLF] at this; omega
        have hne : x ++ b ≠ CRLF := by
          intro h; have := congrArg List.length h; simp [CRLF] at this; omega
        have h2' : (x ++ b).take 2 = CRLF := by rw [take_app b hl]; exact h2
        rw [execHeaders_over_of_crlf lex c _ hne h2'] at hover
        cases hover
      · have e : execHeaders lex c x = ⟨c, x⟩ := by
          simp [execHeaders, hx, hf, h2]
        rw [e]
        exact exec_wait_headers x hc hb
    | some idx =>
      have hbd := find_bound hf
      simp [CRLF2] at hbd
      have hne : x ++ b ≠ CRLF := by
        intro h; have := congrArg List.length h; simp [CRLF] at this; omega
      have hf' := find_append b hf
      have ht2 : (x ++ b).take 2 = x.take 2 := take_app b (by omega)
      have hti : (x ++ b).take idx = x.take idx := take_app b (by omega)
      have hdi : (x ++ b).drop (idx + 4) = x.drop (idx + 4) ++ b := drop_app b (by omega)
      obtain ⟨h1, h2, h3, h6⟩ := hc
      cases hl : lex.hdrs (x.take idx) with
      | none =>
        exfalso
        simp [execHeaders, hne, hf', hti, hl, Core.bad] at hclean
      | some h =>
        simp only [execHeaders, hne, hx, if_false, hf, hf', ht2, hti, hdi, hl] at hclean ⊢
        apply body_hom _ _ _ _ _ hb hclean
        cases h.clen <;> exact ⟨h1, rfl, h3, h6⟩


/-- the parser is inside the first-line phase -/
def InFirst (c : Core) : Prop :=
  c.onFirst = false ∧ c.hdrDone = false ∧ c.complete = false ∧ c.exn = false

theorem first_hom (lex : Lex) (c : Core) (x b : Bytes) (hc : InFirst c) (hb : b ≠ [])
    (hclean : (execFirst lex c (x ++ b)).core.bad = false) :
    exec lex (execFirst lex c x) b = execFirst lex c (x ++ b) := by
  obtain ⟨h1, h2, h3, h6⟩ := hc
  have hbe : b.isEmpty = false := by cases b <;> simp_all
  cases hf : find CRLF x with
  | none =>
    simp [execFirst, hf, exec, hbe, h1, h6]
  | some idx =>
    have hbd := find_bound hf
    simp [CRLF] at hbd
    have hf' := find_append b hf
    have hti : (x ++ b).take idx = x.take idx := take_app b (by omega)
    have hdi : (x ++ b).drop (idx + 2) = x.drop (idx + 2) ++ b := drop_app b (by omega)
    cases hl : lex.first c.kind (x.take idx) with
    | none =>
      exfalso
      simp [execFirst, hf', hti, hl, Core.bad] at hclean
    | some f =>
      simp only [execFirst, hf, hf', hti, hdi, hl] at hclean ⊢
      exact headers_hom _ _ _ _ ⟨rfl, h2, h3, h6⟩ hb hclean

/-- consistency of the phase flags (holds of `init`, preserved by `exec`) -/
def WF (c : Core) : Prop :=
  (c.onFirst = false → c.hdrDone = false) ∧ (c.hdrDone = false → c.complete = false)

theorem exec_hom (lex : Lex) (s : PState) (a b : Bytes) (hwf : WF s.core) (ha : a ≠ []) (hb : b ≠ [])
    (hclean : (exec lex s (a ++ b)).core.bad = false) :
    exec lex (exec lex s a) b = exec lex s (a ++ b) := by
  have hae : a.isEmpty = false := by cases a <;> simp_all
  have habe : (a ++ b).isEmpty = false := by cases a <;> simp_all
  have hbe : b.isEmpty = false := by cases b <;> simp_all
  obtain ⟨w1, w2⟩ := hwf
  cases hexn : s.core.exn with
  | true =>
    exfalso
    simp [exec, habe, hexn, Core.bad] at hclean
  | false =>
    cases h1 : s.core.onFirst with
    | false =>
      have e : ∀ d : Bytes, d.isEmpty = false → exec lex s d = execFirst lex s.core (s.buf ++ d) := by
        intro d hd; simp [exec, hd, hexn, h1]
      rw [e _ hae, e _ habe, ← List.append_assoc]
      rw [e _ habe, ← List.append_assoc] at hclean
      exact first_hom _ _ _ _ ⟨h1, w1 h1, w2 (w1 h1), hexn⟩ hb hclean
    | true =>
      cases h2 : s.core.hdrDone with
      | false =>
        have e : ∀ d : Bytes, d.isEmpty = false → exec lex s d = execHeaders lex s.core (s.buf ++ d) := by
          intro d hd; simp [exec, hd, hexn, h1, h2]
        rw [e _ hae, e _ habe, ← List.append_assoc]
        rw [e _ habe, ← List.append_assoc] at hclean
        exact headers_hom _ _ _ _ ⟨h1, h2, w2 h2, hexn⟩ hb hclean
      | true =>
        cases h3 : s.core.complete with
        | false =>
          have e : ∀ d : Bytes, d.isEmpty = false → exec lex s d = execBody lex s.core (s.buf ++ d) false := by
            intro d hd; simp [exec, hd, hexn, h1, h2, h3]
          rw [e _ hae, e _ habe, ← List.append_assoc]
          rw [e _ habe, ← List.append_assoc] at hclean
          exact body_hom _ _ _ _ ⟨h1, h2, h3, hexn⟩ hb hclean
        | true =>
          exfalso
          simp [exec, habe, hexn, h1, h2, h3, Core.bad] at hclean


/-! ### what the body phase leaves alone, and what can only grow -/

/-- the part of the state that is fixed once the headers are complete -/
def Core.hdrPart (c : Core) :=
  (c.kind, c.onFirst, c.hdrDone, c.firstLine, c.fl, c.hdrBlock, c.hi, c.chunked, c.clen)

/-- `c'` is `c` after some body-phase work: header part untouched, error flags only raised -/
def Ext (c c' : Core) : Prop :=
  c'.hdrPart = c.hdrPart ∧ (c.over = true → c'.over = true) ∧
  (c.errno.isSome = true → c'.errno.isSome = true) ∧ (c.exn = true → c'.exn = true)

theorem Ext.refl (c : Core) : Ext c c := ⟨rfl, id, id, id⟩

theorem Ext.trans {a b c : Core} (h1 : Ext a b) (h2 : Ext b c) : Ext a c :=
  ⟨h2.1.trans h1.1, fun h => h2.2.1 (h1.2.1 h), fun h => h2.2.2.1 (h1.2.2.1 h), fun h => h2.2.2.2 (h1.2.2.2 h)⟩

theorem chunkStep_ext_stop {lex : Lex} {c : Core} {x : Bytes} {p : PState}
    (hs : chunkStep lex c x = .stop p) : Ext c p.core := by
  unfold chunkStep at hs
  split at hs
  · cases hs; exact Ext.refl c
  · split at hs
    · cases hs; exact ⟨rfl, id, fun _ => rfl, id⟩
    · dsimp only at hs
      split at hs
      · split at hs
        · cases hs; exact ⟨rfl, fun h => by simp [h], id, id⟩
        · cases hs; exact Ext.refl c
      · split at hs
        · cases hs; exact Ext.refl c
        · cases hs

theorem chunkStep_ext_more {lex : Lex} {c c' : Core} {x x' : Bytes}
    (hs : chunkStep lex c x = .more c' x') : Ext c c' := by
  unfold chunkStep at hs
  split at hs
  · cases hs
  · split at hs
    · cases hs
    · dsimp only at hs
      split at hs
      · split at hs <;> cases hs
      · split at hs
        · cases hs
        · cases hs; exact ⟨rfl, id, id, id⟩

theorem chunkLoop_ext (lex : Lex) (c : Core) (x : Bytes) : Ext c (chunkLoop lex c x).core := by
  fun_induction chunkLoop lex c x with
  | case1 c x p hs => exact chunkStep_ext_stop hs
  | case2 c x c' x' hs ih => exact (chunkStep_ext_more hs).trans ih

theorem wf_of_flags {c : Core} (a : c.onFirst = true) (b : c.hdrDone = true) : WF c := by
  unfold WF
  refine ⟨?_, ?_⟩ <;> intro h <;> simp_all

theorem wf_of_first {c : Core} (a : c.onFirst = true) (b : c.hdrDone = false → c.complete = false) : WF c := by
  unfold WF
  refine ⟨?_, b⟩
  intro h; simp_all

theorem execBody_ext (lex : Lex) (c : Core) (x : Bytes) (nil : Bool) : Ext c (execBody lex c x nil).core := by
  unfold execBody
  dsimp only
  split
  · exact ⟨rfl, id, id, id⟩
  · split
    · split
      · split <;> exact ⟨rfl, id, id, id⟩
      · split
        · exact ⟨rfl, id, id, fun _ => rfl⟩
        · exact ⟨rfl, fun h => by simp [h], id, id⟩
    · exact Ext.trans ⟨rfl, id, id, id⟩ (chunkLoop_ext lex _ x)

theorem execBody_wf (lex : Lex) (c : Core) (y : Bytes) (n : Bool) (a : c.onFirst = true) (b : c.hdrDone = true) :
    WF (execBody lex c y n).core := by
  have e := (execBody_ext lex c y n).1
  simp only [Core.hdrPart, Prod.mk.injEq] at e
  exact wf_of_flags (by rw [e.2.1, a]) (by rw [e.2.2.1, b])

theorem execHeaders_wf (lex : Lex) (c : Core) (x : Bytes) (h1 : c.onFirst = true)
    (h2 : c.hdrDone = false → c.complete = false) : WF (execHeaders lex c x).core := by
  unfold execHeaders
  split
  · exact execBody_wf _ _ _ _ h1 rfl
  · dsimp only
    split
    · exact wf_of_first h1 h2
    · split
      · exact wf_of_first h1 h2
      · rename_i h _
        apply execBody_wf
        · cases h.clen <;> exact h1
        · cases h.clen <;> rfl

theorem exec_wf (lex : Lex) (s : PState) (d : Bytes) (hd : d ≠ []) (hwf : WF s.core) :
    WF (exec lex s d).core := by
  have hde : d.isEmpty = false := by cases d <;> simp_all
  have hwf' := hwf
  unfold WF at hwf
  obtain ⟨w1, w2⟩ := hwf
  unfold exec
  simp only [hde]
  cases hexn : s.core.exn with
  | true => simpa using hwf'
  | false =>
    cases hf : s.core.onFirst with
    | false =>
      simp only [Bool.false_eq_true, if_false, Bool.not_false, if_true]
      unfold execFirst
      split
      · exact hwf'
      · dsimp only
        split
        · exact wf_of_first rfl (fun _ => w2 (w1 hf))
        · exact execHeaders_wf lex _ _ rfl (fun _ => w2 (w1 hf))
    | true =>
      cases hh : s.core.hdrDone with
      | false =>
        simp only [Bool.false_eq_true, if_false, Bool.not_false, Bool.not_true, if_true]
        exact execHeaders_wf lex _ _ hf w2
      | true =>
        cases hc : s.core.complete with
        | false =>
          simp only [Bool.false_eq_true, if_false, Bool.not_false, Bool.not_true, if_true]
          exact execBody_wf _ _ _ _ hf hh
        | true =>
          simp only [Bool.false_eq_true, if_false, Bool.not_true]
          exact wf_of_flags rfl rfl

theorem execAll_eq (lex : Lex) (s : PState) (segs : List Bytes) (hwf : WF s.core)
    (hne : ∀ d ∈ segs, d ≠ []) (hs : segs ≠ [])
    (hclean : (exec lex s segs.flatten).core.bad = false) :
    execAll lex s segs = exec lex s segs.flatten := by
  induction segs generalizing s with
  | nil => exact absurd rfl hs
  | cons a rest ih =>
    cases rest with
    | nil => simp [execAll]
    | cons b rest' =>
      have ha : a ≠ [] := hne a (by simp)
      have hb : b ≠ [] := hne b (by simp)
      have hR : (b :: rest').flatten ≠ [] := by
        simp only [List.flatten_cons]
        intro h; exact hb (List.append_eq_nil_iff.mp h).1
      have hom := exec_hom lex s a _ hwf ha hR (by simpa using hclean)
      show execAll lex (exec lex s a) (b :: rest') = _
      rw [ih (exec lex s a) (exec_wf lex s a ha hwf) (fun d hd => hne d (List.mem_cons_of_mem _ hd))
        (by simp) (by rw [hom]; simpa using hclean)]
      rw [hom]; simp

end Http
end CV

import CV.Proofs.ClassTable
/-
C3 as a relation (C01): the merge rule of CPython's `pmerge` (Objects/typeobject.c) written as an inductive
relation that does not mention the executable `merge` / `pickHead`, and the proof that the executable model
computes exactly that relation: sound, complete (hence deterministic), and `none` exactly when a merge step
is reached at which no sequence head is a good head (the situation in which CPython raises
TypeError "Cannot create a consistent method resolution order (MRO)").
-/
namespace CV.ClassTable

/-- `x` occurs in the tail of one of the sequences -/
def InTail (seqs : List (List Str)) (x : Str) : Prop := ∃ t ∈ seqs, x ∈ t.tail

/-- a good head: head of some sequence, in the tail of none -/
def GoodHead (seqs : List (List Str)) (h : Str) : Prop := (∃ s ∈ seqs, s.head? = some h) ∧ ¬ InTail seqs h

/-- the candidate `pmerge` takes: the head of the first sequence (in the order given) whose head is good;
    every earlier non-empty sequence has a head that sits in some tail -/
def FirstGood (seqs : List (List Str)) (h : Str) : Prop :=
  ∃ pre s post, seqs = pre ++ s :: post ∧ s.head? = some h ∧ ¬ InTail seqs h ∧
    ∀ p ∈ pre, ∀ x, p.head? = some x → InTail seqs x

/-- the C3 merge rule -/
inductive C3Merge : List (List Str) → List Str → Prop
  | done {seqs} : (∀ s ∈ seqs, s = []) → C3Merge seqs []
  | step {seqs h l} : FirstGood seqs h → C3Merge (seqs.map (dropHead h)) l → C3Merge seqs (h :: l)

/-- the merge gets stuck: after some legal steps sequences are left but none of their heads is good -/
inductive C3Stuck : List (List Str) → Prop
  | here {seqs} : (∃ s ∈ seqs, s ≠ []) → (∀ h, ¬ GoodHead seqs h) → C3Stuck seqs
  | later {seqs h} : FirstGood seqs h → C3Stuck (seqs.map (dropHead h)) → C3Stuck seqs

theorem any_tail_iff (seqs : List (List Str)) (x : Str) :
    seqs.any (fun t => t.tail.contains x) = true ↔ InTail seqs x := by
  simp [InTail, List.any_eq_true]

theorem FirstGood.good {seqs : List (List Str)} {h : Str} (hf : FirstGood seqs h) : GoodHead seqs h := by
  obtain ⟨pre, s, post, rfl, hs, hn, _⟩ := hf
  exact ⟨⟨s, by simp, hs⟩, hn⟩

theorem pickHead_some_iff (seqs : List (List Str)) (h : Str) : ∀ rest : List (List Str),
    pickHead seqs rest = some h ↔ ∃ pre s post, rest = pre ++ s :: post ∧ s.head? = some h ∧ ¬ InTail seqs h ∧
      ∀ p ∈ pre, ∀ x, p.head? = some x → InTail seqs x := by
  intro rest
  induction rest with
  | nil =>
    simp only [pickHead]
    constructor
    · intro hh; cases hh
    · rintro ⟨pre, s, post, he, _⟩
      cases pre <;> cases he
  | cons a rest ih =>
    cases a with
    | nil =>
      simp only [pickHead]
      rw [ih]
      constructor
      · rintro ⟨pre, s, post, rfl, hs, hn, hp⟩
        refine ⟨[] :: pre, s, post, rfl, hs, hn, ?_⟩
        intro p hp' x hx
        rcases List.mem_cons.mp hp' with rfl | hp'
        · cases hx
        · exact hp p hp' x hx
      · rintro ⟨pre, s, post, he, hs, hn, hp⟩
        cases pre with
        | nil =>
          simp only [List.nil_append, List.cons.injEq] at he
          rw [← he.1] at hs; cases hs
        | cons p pre =>
          simp only [List.cons_append, List.cons.injEq] at he
          exact ⟨pre, s, post, he.2, hs, hn, fun q hq => hp q (List.mem_cons_of_mem _ hq)⟩
    | cons a t =>
      simp only [pickHead]
      by_cases hbad : seqs.any (fun u => u.tail.contains a) = true
      · simp only [hbad, ↓reduceIte]
        rw [ih]
        have hin := (any_tail_iff seqs a).mp hbad
        constructor
        · rintro ⟨pre, s, post, rfl, hs, hn, hp⟩
          refine ⟨(a :: t) :: pre, s, post, rfl, hs, hn, ?_⟩
          intro p hp' x hx
          rcases List.mem_cons.mp hp' with rfl | hp'
          · simp only [List.head?_cons, Option.some.injEq] at hx
            subst hx; exact hin
          · exact hp p hp' x hx
        · rintro ⟨pre, s, post, he, hs, hn, hp⟩
          cases pre with
          | nil =>
            simp only [List.nil_append, List.cons.injEq] at he
            rw [← he.1] at hs
            simp only [List.head?_cons, Option.some.injEq] at hs
            subst hs; exact absurd hin hn
          | cons p pre =>
            simp only [List.cons_append, List.cons.injEq] at he
            exact ⟨pre, s, post, he.2, hs, hn, fun q hq => hp q (List.mem_cons_of_mem _ hq)⟩
      · simp only [hbad, Bool.false_eq_true, ↓reduceIte, Option.some.injEq]
        have hnin : ¬ InTail seqs a := fun hi => hbad ((any_tail_iff seqs a).mpr hi)
        constructor
        · rintro rfl
          exact ⟨[], a :: t, rest, rfl, rfl, hnin, by intro p hp; cases hp⟩
        · rintro ⟨pre, s, post, he, hs, hn, hp⟩
          cases pre with
          | nil =>
            simp only [List.nil_append, List.cons.injEq] at he
            rw [← he.1] at hs
            simpa using hs
          | cons p pre =>
            simp only [List.cons_append, List.cons.injEq] at he
            exact absurd (hp p (by simp) a (by rw [← he.1]; rfl)) hnin

theorem pickHead_eq_some_iff (seqs : List (List Str)) (h : Str) : pickHead seqs seqs = some h ↔ FirstGood seqs h :=
  pickHead_some_iff seqs h seqs

theorem pickHead_none (seqs : List (List Str)) : ∀ rest : List (List Str), pickHead seqs rest = none →
    ∀ s ∈ rest, ∀ x, s.head? = some x → InTail seqs x := by
  intro rest
  induction rest with
  | nil => intro _ s hs; cases hs
  | cons a rest ih =>
    intro hp s hs x hx
    cases a with
    | nil =>
      simp only [pickHead] at hp
      rcases List.mem_cons.mp hs with rfl | hs
      · cases hx
      · exact ih hp s hs x hx
    | cons a t =>
      simp only [pickHead] at hp
      by_cases hbad : seqs.any (fun u => u.tail.contains a) = true
      · simp only [hbad, ↓reduceIte] at hp
        rcases List.mem_cons.mp hs with rfl | hs
        · simp only [List.head?_cons, Option.some.injEq] at hx
          subst hx; exact (any_tail_iff seqs _).mp hbad
        · exact ih hp s hs x hx
      · simp only [hbad, Bool.false_eq_true, ↓reduceIte] at hp
        cases hp

/-- at most one candidate -/
theorem FirstGood.unique {seqs : List (List Str)} {h h' : Str} (a : FirstGood seqs h) (b : FirstGood seqs h') : h = h' := by
  have ha := (pickHead_eq_some_iff seqs h).mpr a
  have hb := (pickHead_eq_some_iff seqs h').mpr b
  rw [ha] at hb
  exact Option.some.inj hb

theorem all_isEmpty_iff (seqs : List (List Str)) : seqs.all (·.isEmpty) = true ↔ ∀ s ∈ seqs, s = [] := by
  simp [List.all_eq_true]

theorem dropHead_length_le (h : Str) (s : List Str) : (dropHead h s).length ≤ s.length := by
  cases s with
  | nil => simp [dropHead]
  | cons x t =>
    simp only [dropHead]
    by_cases hx : (x == h) = true
    · simp [hx]
    · simp [hx]

theorem dropHead_length_lt (h : Str) (s : List Str) (hs : s.head? = some h) : (dropHead h s).length < s.length := by
  cases s with
  | nil => cases hs
  | cons x t =>
    simp only [List.head?_cons, Option.some.injEq] at hs
    subst hs
    simp [dropHead]

theorem totalLen_cons (s : List Str) (seqs : List (List Str)) : totalLen (s :: seqs) = s.length + totalLen seqs := by
  simp [totalLen]

theorem totalLen_dropHead_le (h : Str) : ∀ seqs : List (List Str), totalLen (seqs.map (dropHead h)) ≤ totalLen seqs := by
  intro seqs
  induction seqs with
  | nil => simp
  | cons s seqs ih =>
    rw [List.map_cons, totalLen_cons, totalLen_cons]
    have := dropHead_length_le h s
    omega

theorem totalLen_dropHead_lt (h : Str) : ∀ seqs : List (List Str), (∃ s ∈ seqs, s.head? = some h) →
    totalLen (seqs.map (dropHead h)) < totalLen seqs := by
  intro seqs
  induction seqs with
  | nil => rintro ⟨s, hs, _⟩; cases hs
  | cons s0 seqs ih =>
    rintro ⟨s, hs, hh⟩
    rw [List.map_cons, totalLen_cons, totalLen_cons]
    rcases List.mem_cons.mp hs with rfl | hs
    · have := dropHead_length_lt h s hh
      have := totalLen_dropHead_le h seqs
      omega
    · have := ih ⟨s, hs, hh⟩
      have := dropHead_length_le h s0
      omega

theorem totalLen_zero : ∀ seqs : List (List Str), totalLen seqs = 0 → ∀ s ∈ seqs, s = [] := by
  intro seqs
  induction seqs with
  | nil => intro _ s hs; cases hs
  | cons s0 seqs ih =>
    intro h s hs
    rw [totalLen_cons] at h
    rcases List.mem_cons.mp hs with rfl | hs
    · exact List.eq_nil_of_length_eq_zero (by omega)
    · exact ih (by omega) s hs

/-- the executable merge only produces what the rule allows (any fuel) -/
theorem merge_sound : ∀ (fuel : Nat) (seqs : List (List Str)) (l : List Str),
    merge fuel seqs = some l → C3Merge seqs l := by
  intro fuel
  induction fuel with
  | zero =>
    intro seqs l h
    unfold merge at h
    split at h
    · rename_i hall
      cases h
      exact .done ((all_isEmpty_iff seqs).mp hall)
    · cases h
  | succ fuel ih =>
    intro seqs l h
    unfold merge at h
    split at h
    · rename_i hall
      cases h
      exact .done ((all_isEmpty_iff seqs).mp hall)
    · split at h
      · cases h
      · rename_i x hp
        simp only [Option.map_eq_some_iff] at h
        obtain ⟨l', hl', rfl⟩ := h
        exact .step ((pickHead_eq_some_iff seqs x).mp hp) (ih _ l' hl')

/-- with enough fuel the executable merge finds every list the rule allows -/
theorem merge_complete {seqs : List (List Str)} {l : List Str} (hm : C3Merge seqs l) :
    ∀ fuel, totalLen seqs ≤ fuel → merge fuel seqs = some l := by
  induction hm with
  | done hall =>
    intro fuel _
    have := (all_isEmpty_iff _).mpr hall
    cases fuel <;> simp [merge, this]
  | @step seqs h l hf _ ih =>
    intro fuel hfuel
    have hlt := totalLen_dropHead_lt h seqs hf.good.1
    cases fuel with
    | zero => omega
    | succ fuel =>
      have hne : ¬ (seqs.all (·.isEmpty) = true) := by
        rw [all_isEmpty_iff]
        intro hall
        obtain ⟨s, hs, hh⟩ := hf.good.1
        rw [hall s hs] at hh; cases hh
      unfold merge
      simp only [hne, (pickHead_eq_some_iff seqs h).mpr hf]
      rw [ih fuel (by omega)]
      rfl

/-- determinism of the merge rule -/
theorem C3Merge.unique {seqs : List (List Str)} {l l' : List Str} (a : C3Merge seqs l) (b : C3Merge seqs l') : l = l' := by
  have ha := merge_complete a _ (Nat.le_refl _)
  have hb := merge_complete b _ (Nat.le_refl _)
  rw [ha] at hb
  exact Option.some.inj hb

theorem C3Stuck.no_merge {seqs : List (List Str)} (hs : C3Stuck seqs) : ¬ ∃ l, C3Merge seqs l := by
  induction hs with
  | here hne hng =>
    rintro ⟨l, hm⟩
    cases hm with
    | done hall =>
      obtain ⟨s, hs, hn⟩ := hne
      exact hn (hall s hs)
    | step hf _ => exact hng _ hf.good
  | later hf _ ih =>
    rintro ⟨l, hm⟩
    cases hm with
    | done hall =>
      obtain ⟨s, hs, hh⟩ := hf.good.1
      rw [hall s hs] at hh; cases hh
    | step hf' hm' =>
      cases hf.unique hf'
      exact ih ⟨_, hm'⟩

/-- with enough fuel, `none` means the merge is stuck -/
theorem merge_none_stuck : ∀ (fuel : Nat) (seqs : List (List Str)), totalLen seqs ≤ fuel →
    merge fuel seqs = none → C3Stuck seqs := by
  intro fuel
  induction fuel with
  | zero =>
    intro seqs hfuel h
    have hall := (all_isEmpty_iff seqs).mpr (totalLen_zero seqs (by omega))
    simp [merge, hall] at h
  | succ fuel ih =>
    intro seqs hfuel h
    unfold merge at h
    split at h
    · cases h
    · rename_i hall
      have hne : ∃ s ∈ seqs, s ≠ [] := by
        rw [all_isEmpty_iff] at hall
        simpa using hall
      split at h
      · rename_i hp
        refine .here hne ?_
        rintro x ⟨⟨s, hs, hh⟩, hn⟩
        exact hn (pickHead_none seqs seqs hp s hs x hh)
      · rename_i x hp
        have hf := (pickHead_eq_some_iff seqs x).mp hp
        have hlt := totalLen_dropHead_lt x seqs hf.good.1
        simp only [Option.map_eq_none_iff] at h
        exact .later hf (ih _ (by omega) h)

theorem merge_none_iff (fuel : Nat) (seqs : List (List Str)) (hfuel : totalLen seqs ≤ fuel) :
    merge fuel seqs = none ↔ C3Stuck seqs := by
  constructor
  · exact merge_none_stuck fuel seqs hfuel
  · intro hs
    cases hm : merge fuel seqs with
    | none => rfl
    | some l => exact absurd ⟨l, merge_sound fuel seqs l hm⟩ hs.no_merge

theorem merge_some_iff (fuel : Nat) (seqs : List (List Str)) (hfuel : totalLen seqs ≤ fuel) (l : List Str) :
    merge fuel seqs = some l ↔ C3Merge seqs l :=
  ⟨merge_sound fuel seqs l, fun h => merge_complete h fuel hfuel⟩

/-! ### the class statement and the sequence of class statements -/

theorem mapM_lookup_stable {acc t : MroTable} (hst : ∀ k v, acc.lookup k = some v → t.lookup k = some v) :
    ∀ (bs : List Str) (ms : List (List Str)), bs.mapM (acc.lookup ·) = some ms → bs.mapM (t.lookup ·) = some ms := by
  intro bs
  induction bs with
  | nil => intro ms h; simpa using h
  | cons a bs ih =>
    intro ms h
    rw [List.mapM_cons] at h
    rw [List.mapM_cons]
    cases ha : acc.lookup a with
    | none => rw [ha] at h; cases h
    | some m0 =>
      rw [ha] at h
      cases hr : bs.mapM (acc.lookup ·) with
      | none => rw [hr] at h; cases h
      | some ms0 =>
        rw [hr] at h
        rw [hst a m0 ha, ih ms0 hr]
        exact h

theorem mapM_lookup_eq_map {t : MroTable} : ∀ (bs : List Str) (ms : List (List Str)),
    bs.mapM (t.lookup ·) = some ms → ms = bs.map fun b => (t.lookup b).getD [] := by
  intro bs
  induction bs with
  | nil => intro ms h; simp at h; simp [h]
  | cons a bs ih =>
    intro ms h
    rw [List.mapM_cons] at h
    cases ha : t.lookup a with
    | none => rw [ha] at h; cases h
    | some m0 =>
      rw [ha] at h
      cases hr : bs.mapM (t.lookup ·) with
      | none => rw [hr] at h; cases h
      | some ms0 =>
        rw [hr] at h
        cases h
        simp [ha, ← ih ms0 hr]

/-- a class statement is accepted with MRO `l` exactly when the name is free, there are bases, all of them are
    known, and `l` is the class followed by the C3 merge of the bases' MROs and the list of bases -/
theorem mroFor_some_iff (acc : MroTable) (d : ClassDecl) (l : List Str) :
    mroFor acc d = some l ↔ acc.lookup d.name = none ∧ d.bases ≠ [] ∧
      ∃ ms rest, d.bases.mapM (acc.lookup ·) = some ms ∧ l = d.name :: rest ∧ C3Merge (ms ++ [d.bases]) rest := by
  unfold mroFor
  split
  · rename_i hc
    simp only [Bool.or_eq_true, Option.isSome_iff_ne_none, ne_eq, List.isEmpty_iff] at hc
    constructor
    · intro h; cases h
    · rintro ⟨h1, h2, _⟩
      rcases hc with hc | hc
      · exact absurd h1 hc
      · exact absurd hc h2
  · rename_i hc
    simp only [Bool.or_eq_true, Option.isSome_iff_ne_none, ne_eq, List.isEmpty_iff, not_or, Decidable.not_not] at hc
    split
    · rename_i hms
      constructor
      · intro h; cases h
      · rintro ⟨_, _, ms, rest, hm, _⟩
        rw [hms] at hm; cases hm
    · rename_i ms hms
      simp only [Option.map_eq_some_iff]
      constructor
      · rintro ⟨rest, hmerge, rfl⟩
        exact ⟨hc.1, hc.2, ms, rest, hms, rfl, merge_sound _ _ _ hmerge⟩
      · rintro ⟨_, _, ms', rest, hm, rfl, hmerge⟩
        rw [hms] at hm; cases hm
        exact ⟨rest, merge_complete hmerge _ (Nat.le_refl _), rfl⟩

/-- a class statement is refused exactly when the name is bound, there is no base, a base is unknown, or the
    C3 merge gets stuck (CPython: TypeError "Cannot create a consistent method resolution order") -/
theorem mroFor_none_iff (acc : MroTable) (d : ClassDecl) :
    mroFor acc d = none ↔ (acc.lookup d.name).isSome = true ∨ d.bases = [] ∨ d.bases.mapM (acc.lookup ·) = none ∨
      ∃ ms, d.bases.mapM (acc.lookup ·) = some ms ∧ C3Stuck (ms ++ [d.bases]) := by
  unfold mroFor
  split
  · rename_i hc
    simp only [Bool.or_eq_true, List.isEmpty_iff] at hc
    simp only [true_iff]
    rcases hc with hc | hc
    · exact .inl hc
    · exact .inr (.inl hc)
  · rename_i hc
    simp only [Bool.or_eq_true, List.isEmpty_iff, not_or] at hc
    split
    · rename_i hms
      simp only [true_iff]
      exact .inr (.inr (.inl hms))
    · rename_i ms hms
      simp only [Option.map_eq_none_iff]
      rw [merge_none_iff _ _ (Nat.le_refl _)]
      constructor
      · intro h; exact .inr (.inr (.inr ⟨ms, hms, h⟩))
      · rintro (h | h | h | ⟨ms', hm, h⟩)
        · exact absurd h hc.1
        · exact absurd h hc.2
        · rw [hms] at h; cases h
        · rw [hms] at hm; cases hm; exact h

/-- the final table holds, for every executed class statement, the C3 merge of the (final) MROs of its bases -/
theorem linearizeFrom_c3 : ∀ (cs : Classes) (acc t : MroTable), linearizeFrom acc cs = some t →
    ∀ d ∈ cs, ∃ ms rest, d.bases.mapM (t.lookup ·) = some ms ∧ t.lookup d.name = some (d.name :: rest) ∧
      C3Merge (ms ++ [d.bases]) rest := by
  intro cs
  induction cs with
  | nil => intro acc t _ d hd; cases hd
  | cons d0 ds ih =>
    intro acc t h d hd
    unfold linearizeFrom at h
    cases hm : mroFor acc d0 with
    | none => rw [hm] at h; cases h
    | some l =>
      rw [hm] at h
      rcases List.mem_cons.mp hd with rfl | hd
      · obtain ⟨hnone, _, ms, rest, hms, rfl, hmerge⟩ := (mroFor_some_iff acc d l).mp hm
        refine ⟨ms, rest, ?_, linearizeFrom_stable ds _ t h _ _ (lookup_append_none _ _ _ hnone), hmerge⟩
        exact mapM_lookup_stable (fun k v hk => linearizeFrom_stable ds _ t h k v (lookup_append_some k v _ _ hk)) _ _ hms
      · exact ih _ t h d hd

/-- the sequence of class statements is refused exactly when some statement is refused in the table built by
    the statements before it -/
theorem linearizeFrom_none_iff : ∀ (cs : Classes) (acc : MroTable), linearizeFrom acc cs = none ↔
    ∃ pre d post t, cs = pre ++ d :: post ∧ linearizeFrom acc pre = some t ∧ mroFor t d = none := by
  intro cs
  induction cs with
  | nil =>
    intro acc
    simp only [linearizeFrom]
    constructor
    · intro h; cases h
    · rintro ⟨pre, d, post, t, he, _⟩
      cases pre <;> cases he
  | cons d0 ds ih =>
    intro acc
    cases hm : mroFor acc d0 with
    | none =>
      simp only [linearizeFrom, hm, true_iff]
      exact ⟨[], d0, ds, acc, rfl, rfl, hm⟩
    | some l =>
      simp only [linearizeFrom, hm]
      rw [ih]
      constructor
      · rintro ⟨pre, d, post, t, rfl, hl, hn⟩
        exact ⟨d0 :: pre, d, post, t, rfl, by simp only [linearizeFrom, hm]; exact hl, hn⟩
      · rintro ⟨pre, d, post, t, he, hl, hn⟩
        cases pre with
        | nil =>
          simp only [List.nil_append, List.cons.injEq] at he
          simp only [linearizeFrom, Option.some.injEq] at hl
          rw [← hl, ← he.1, hm] at hn; cases hn
        | cons p pre =>
          simp only [List.cons_append, List.cons.injEq] at he
          rw [← he.1] at hl
          simp only [linearizeFrom, hm] at hl
          exact ⟨pre, d, post, t, he.2, hl, hn⟩

end CV.ClassTable

import CV.Proofs.NodeTwoLem
/-
C19, two-party composition: the invariant of every reachable world and its preservation by
each of the five kinds of step.

Ghost parameters: `s` calls sent, `kB` calls B has dispatched, `ao` the order in which B's
handlers returned (= the order of the answers on the stream B→A), `kA` answers A has processed,
`yo` the order in which A's generators yielded.
-/
namespace CV
namespace Node

theorem n2_range_split (m k : Nat) (hk : k ≤ m) :
    List.range m = List.range k ++ List.range' k (m - k) := by
  obtain ⟨d, rfl⟩ : ∃ d, m = k + d := ⟨m - k, by omega⟩
  simp [List.range_add, List.range'_eq_map_range]

theorem n2_take_range (s k : Nat) (hk : k ≤ s) : (List.range s).take k = List.range k := by
  simp [List.take_range, Nat.min_eq_left hk]

theorem n2_range_seg (s m k : Nat) (hk : k ≤ m) (hm : m ≤ s) :
    ((List.range s).take m).drop k = List.range' k (m - k) := by
  rw [n2_take_range s m hm, n2_range_split m k hk]
  simp

theorem n2_find_map {β : Type} (g : Nat → β) (p : β → Bool) (n : Nat) (hp : ∀ i, p (g i) = (i == n)) :
    ∀ F : List Nat, (F.map g).find? p = if n ∈ F then some (g n) else none := by
  intro F
  induction F with
  | nil => simp
  | cons i F ih =>
    simp only [List.map_cons, List.find?_cons, hp]
    by_cases h : i = n
    · subst h; simp
    · have : (i == n) = false := by simpa using h
      simp only [this, ih, List.mem_cons]
      have h' : ¬ n = i := fun e => h e.symm
      simp [h']

theorem n2_eraseP_map {β : Type} (g : Nat → β) (p : β → Bool) (n : Nat) (hp : ∀ i, p (g i) = (i == n)) :
    ∀ F : List Nat, F.Nodup → (F.map g).eraseP p = (F.filter (fun i => !decide (i = n))).map g := by
  intro F
  induction F with
  | nil => simp
  | cons i F ih =>
    intro hnd
    have hnd' := List.nodup_cons.mp hnd
    simp only [List.map_cons, List.eraseP_cons, hp]
    by_cases h : i = n
    · subst h
      have : F.filter (fun j => !decide (j = i)) = F := by
        apply List.filter_eq_self.mpr
        intro j hj; simp; intro e; subst e; exact hnd'.1 hj
      simp [this]
    · have : (i == n) = false := by simpa using h
      simp [this, ih hnd'.2, h]

theorem n2_filter_filter (l yo : List Nat) (n : Nat) :
    (l.filter (fun i => !decide (i ∈ yo))).filter (fun i => !decide (i = n)) =
      l.filter (fun i => !decide (i ∈ yo ++ [n])) := by
  rw [List.filter_filter]
  apply List.filter_congr
  intro i _
  simp [Bool.and_comm]

structure n2_Inv (E : n2_Env) (calls : List Ev) (w : n2_World) (s kB kA : Nat) (ao yo : List Nat) : Prop where
  hs : s ≤ calls.length
  todo : w.todo = calls.drop s
  anid : w.a.nid = s
  kBs : kB ≤ s
  rxB : n2_Rx E.proc ((List.range s).map (n2_callPkt E calls)) w.ab w.b.buf
          ((List.range kB).map (n2_callPkt E calls))
  fired : w.fired = (List.range kB).map (n2_expFire E calls)
  running : w.running = ((List.range kB).filter (fun i => !decide (i ∈ ao))).map (n2_expRun E calls)
  aoN : ao.Nodup
  aoLt : ∀ i ∈ ao, i < kB
  kAle : kA ≤ ao.length
  rxA : n2_Rx E.proc (ao.map (n2_ansPkt E calls)) w.ba w.a.buf ((ao.take kA).map (n2_ansPkt E calls))
  resolved : w.resolved = (ao.take kA).map (n2_expRes E calls)
  yoN : yo.Nodup
  yoSub : ∀ i ∈ yo, i ∈ ao.take kA
  pending : w.a.pending =
    ((List.range s).filter (fun i => !decide (i ∈ yo))).map (n2_expPend E calls (ao.take kA))
  yielded : w.yielded = yo.map (n2_expYield E calls)
  bpend : w.b.pending = []
  nab : w.aborted = false

def n2_Reach (E : n2_Env) (calls : List Ev) (w : n2_World) : Prop :=
  ∃ s kB kA ao yo, n2_Inv E calls w s kB kA ao yo

theorem n2_inv_init (E : n2_Env) (calls : List Ev) : n2_Inv E calls (n2_init calls) 0 0 0 [] [] where
  hs := by simp
  todo := by simp [n2_init]
  anid := rfl
  kBs := by simp
  rxB := by simpa [n2_init] using n2_rx_init E.proc
  fired := by simp [n2_init]
  running := by simp [n2_init]
  aoN := by simp
  aoLt := by simp
  kAle := by simp
  rxA := by simpa [n2_init] using n2_rx_init E.proc
  resolved := by simp [n2_init]
  yoN := by simp
  yoSub := by simp
  pending := by simp [n2_init]
  yielded := by simp [n2_init]
  bpend := rfl
  nab := rfl

section
variable {E : n2_Env} {calls : List Ev}

theorem n2_yo_lt {w : n2_World} {s kB kA : Nat} {ao yo : List Nat} (I : n2_Inv E calls w s kB kA ao yo) :
    ∀ i ∈ yo, i < s := by
  intro i hi
  have := I.aoLt i (List.mem_of_mem_take (I.yoSub i hi))
  have := I.kBs
  omega

theorem n2_send_eq (H : n2_Hyp E calls) (a : Proto) (s : Nat) (hs : s < calls.length) (ha : a.nid = s) :
    send E.cA a (n2_callEv calls s) false =
      ({ a with nid := s + 1, pending := a.pending ++ [⟨s, false, [], .null, []⟩] },
       [.write (n2_callJ E calls s)]) := by
  have h := H.sendOk s hs
  simp [send, h, ha, n2_callJ, n2_idJ, n2_Env.cA]

theorem n2_inv_send (H : n2_Hyp E calls) {w : n2_World} {s kB kA : Nat} {ao yo : List Nat}
    (I : n2_Inv E calls w s kB kA ao yo) : n2_Reach E calls (n2_step E w .send) := by
  by_cases hs : s < calls.length
  · have ht : w.todo = n2_callEv calls s :: calls.drop (s + 1) := by
      rw [I.todo, List.drop_eq_getElem_cons hs]
      simp [n2_callEv, List.getD_eq_getElem?_getD, hs]
    refine ⟨s + 1, kB, kA, ao, yo, ?_⟩
    simp only [n2_step, ht, n2_send_eq H w.a s hs I.anid]
    have hsy : s ∉ yo := fun h => Nat.lt_irrefl _ (n2_yo_lt I s h)
    have hsD : s ∉ ao.take kA := by
      intro h
      have := I.aoLt s (List.mem_of_mem_take h)
      have := I.kBs
      omega
    exact {
      hs := hs
      todo := rfl
      anid := rfl
      kBs := Nat.le_succ_of_le I.kBs
      rxB := by
        have := n2_rx_write (n2_callPkt E calls s) I.rxB
        simpa [List.range_succ, n2_wire, wire, n2_callPkt] using this
      fired := I.fired
      running := I.running
      aoN := I.aoN
      aoLt := I.aoLt
      kAle := I.kAle
      rxA := I.rxA
      resolved := I.resolved
      yoN := I.yoN
      yoSub := I.yoSub
      pending := by
        simp only [I.pending, List.range_succ, List.filter_append, List.map_append]
        simp [hsy, n2_expPend, hsD]
      yielded := I.yielded
      bpend := I.bpend
      nab := I.nab }
  · have ht : w.todo = [] := by
      rw [I.todo]; exact List.drop_eq_nil_of_le (by omega)
    refine ⟨s, kB, kA, ao, yo, ?_⟩
    simp only [n2_step, ht]
    exact I

end

end Node
end CV

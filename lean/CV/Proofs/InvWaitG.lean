import CV.Proofs.InvWaitH
/-
C06, global layer, part 4: the generator / task invariant `W6GInv` with its transfer lemmas (on views).
-/
namespace CV.Core

/-- user code may only `removeHandler` pre-declared handlers (ids `< n0`); `addHandler` is restricted
    by the model itself to declared user handlers -/
def Act.w6_hOk (n0 : Nat) : Act → Prop
  | .rmH h _ => h < n0
  | _ => True

namespace W6View
/-- `g` is a generator that is not (and so never will be) a waitEvent generator -/
def NonWait (v : W6View) (g : Nat) : Prop := g < v.ng ∧ (v.gen g).w6_isWait = false
/-- a task entry: a waitEvent generator is registered only once its `flag` is set; parents are user generators -/
def TaskOk (v : W6View) (t : Task) : Prop :=
  t.g < v.ng ∧ (∀ w, v.gen t.g = .wait w → (v.wg w).flag = true) ∧ (∀ p, t.parent = some p → v.NonWait p)
end W6View

structure W6GInv (n0 : Nat) (v : W6View) : Prop where
  taskGen : ∀ w, w < v.nw → (v.wg w).task < v.ng ∧ v.gen (v.wg w).task = .wait w
  genLt : ∀ g w, v.gen g = .wait w → w < v.nw
  pgen : ∀ w, w < v.nw → (v.wg w).started = true → v.NonWait (v.wg w).parentGen
  tasks : ∀ c t, t ∈ v.tasks c → v.TaskOk t
  gacts : ∀ g e h o rest st pc sd, v.gen g = .user e h o rest st pc sd → ∀ a ∈ rest, Act.w6_hOk n0 a
  progsOk : ∀ p ∈ v.progs, ∀ a ∈ p, Act.w6_hOk n0 a

namespace W6GInv
variable {n0 : Nat} {v v' : W6View}

theorem congr (h : W6GInv n0 v) (e1 : v'.ng = v.ng) (e2 : v'.gen = v.gen) (e3 : v'.nw = v.nw)
    (e4 : v'.wg = v.wg) (e5 : v'.tasks = v.tasks) (e6 : v'.progs = v.progs) : W6GInv n0 v' := by
  obtain ⟨a1, a2, a3, a4, a5, a6, a7, a8, a9, a10⟩ := v
  obtain ⟨b1, b2, b3, b4, b5, b6, b7, b8, b9, b10⟩ := v'
  dsimp only at e1 e2 e3 e4 e5 e6
  subst e1; subst e2; subst e3; subst e4; subst e5; subst e6
  exact ⟨h.taskGen, h.genLt, h.pgen, h.tasks, h.gacts, h.progsOk⟩

/-- one generator record is overwritten (`setGen`): neither the old nor the new one is a waitEvent generator -/
theorem setGen (h : W6GInv n0 v) (g0 : Nat) (e1 : v'.ng = v.ng) (e2 : ∀ g, g ≠ g0 → v'.gen g = v.gen g)
    (hold : (v.gen g0).w6_isWait = false) (hnew : (v'.gen g0).w6_isWait = false)
    (hacts : ∀ e h o rest st pc sd, v'.gen g0 = .user e h o rest st pc sd → ∀ a ∈ rest, Act.w6_hOk n0 a)
    (e3 : v'.nw = v.nw) (e4 : v'.wg = v.wg) (e5 : v'.tasks = v.tasks) (e6 : v'.progs = v.progs) : W6GInv n0 v' := by
  have hw : ∀ g w, v'.gen g = .wait w → v.gen g = .wait w := by
    intro g w hg
    by_cases e : g = g0
    · subst e; rw [hg] at hnew; cases hnew
    · rwa [e2 g e] at hg
  have hw' : ∀ g w, v.gen g = .wait w → v'.gen g = .wait w := by
    intro g w hg
    by_cases e : g = g0
    · subst e; rw [hg] at hold; cases hold
    · rwa [e2 g e]
  have hnw : ∀ p, v.NonWait p → v'.NonWait p := by
    intro p hp
    refine ⟨by rw [e1]; exact hp.1, ?_⟩
    by_cases e : p = g0
    · subst e; exact hnew
    · rw [e2 p e]; exact hp.2
  refine ⟨?_, ?_, ?_, ?_, ?_, by rw [e6]; exact h.progsOk⟩
  · intro w hw0; rw [e3] at hw0; rw [e4, e1]
    exact ⟨(h.taskGen w hw0).1, hw' _ _ (h.taskGen w hw0).2⟩
  · intro g w hg; rw [e3]; exact h.genLt g w (hw g w hg)
  · intro w hw0 hs; rw [e3] at hw0; rw [e4] at hs ⊢; exact hnw _ (h.pgen w hw0 hs)
  · intro c t ht; rw [e5] at ht
    obtain ⟨t1, t2, t3⟩ := h.tasks c t ht
    exact ⟨by rw [e1]; exact t1, fun w hg => by rw [e4]; exact t2 w (hw _ _ hg), fun p hp => hnw p (t3 p hp)⟩
  · intro g e hh o rest st pc sd hg
    by_cases eg : g = g0
    · subst eg; exact hacts e hh o rest st pc sd hg
    · rw [e2 g eg] at hg; exact h.gacts g e hh o rest st pc sd hg

/-- a new generator that is not a waitEvent generator (`addGen`) -/
theorem addGen (h : W6GInv n0 v) (e1 : v'.ng = v.ng + 1) (e2 : ∀ g, g ≠ v.ng → v'.gen g = v.gen g)
    (hnew : (v'.gen v.ng).w6_isWait = false)
    (hacts : ∀ e h o rest st pc sd, v'.gen v.ng = .user e h o rest st pc sd → ∀ a ∈ rest, Act.w6_hOk n0 a)
    (hdf : ∀ w, v.gen v.ng ≠ .wait w)
    (e3 : v'.nw = v.nw) (e4 : v'.wg = v.wg) (e5 : v'.tasks = v.tasks) (e6 : v'.progs = v.progs) : W6GInv n0 v' := by
  have hw : ∀ g w, v'.gen g = .wait w → v.gen g = .wait w := by
    intro g w hg
    by_cases e : g = v.ng
    · subst e; rw [hg] at hnew; cases hnew
    · rwa [e2 g e] at hg
  have hw' : ∀ g w, v.gen g = .wait w → v'.gen g = .wait w := by
    intro g w hg
    by_cases e : g = v.ng
    · subst e; exact absurd hg (hdf w)
    · rwa [e2 g e]
  have hnw : ∀ p, v.NonWait p → v'.NonWait p := by
    intro p hp
    refine ⟨by rw [e1]; exact Nat.lt_succ_of_lt hp.1, ?_⟩
    rw [e2 p (Nat.ne_of_lt hp.1)]; exact hp.2
  refine ⟨?_, ?_, ?_, ?_, ?_, by rw [e6]; exact h.progsOk⟩
  · intro w hw0; rw [e3] at hw0; rw [e4, e1]
    exact ⟨Nat.lt_succ_of_lt (h.taskGen w hw0).1, hw' _ _ (h.taskGen w hw0).2⟩
  · intro g w hg; rw [e3]; exact h.genLt g w (hw g w hg)
  · intro w hw0 hs; rw [e3] at hw0; rw [e4] at hs ⊢; exact hnw _ (h.pgen w hw0 hs)
  · intro c t ht; rw [e5] at ht
    obtain ⟨t1, t2, t3⟩ := h.tasks c t ht
    exact ⟨by rw [e1]; exact Nat.lt_succ_of_lt t1, fun w hg => by rw [e4]; exact t2 w (hw _ _ hg),
      fun p hp => hnw p (t3 p hp)⟩
  · intro g e hh o rest st pc sd hg
    by_cases eg : g = v.ng
    · subst eg; exact hacts e hh o rest st pc sd hg
    · rw [e2 g eg] at hg; exact h.gacts g e hh o rest st pc sd hg

/-- the task sets change: every new entry is a legal task -/
theorem tasksChange (h : W6GInv n0 v) (e1 : v'.ng = v.ng) (e2 : v'.gen = v.gen) (e3 : v'.nw = v.nw)
    (e4 : v'.wg = v.wg) (e6 : v'.progs = v.progs)
    (e5 : ∀ c t, t ∈ v'.tasks c → t ∈ v.tasks c ∨ v.TaskOk t) : W6GInv n0 v' := by
  refine ⟨by rw [e1, e2, e3, e4]; exact h.taskGen, by rw [e2, e3]; exact h.genLt, ?_, ?_,
    by rw [e2]; exact h.gacts, by rw [e6]; exact h.progsOk⟩
  · intro w hw hs; rw [e3] at hw; rw [e4] at hs ⊢
    obtain ⟨p1, p2⟩ := h.pgen w hw hs
    exact ⟨by rw [e1]; exact p1, by rw [e2]; exact p2⟩
  · intro c t ht
    have : v.TaskOk t := by
      rcases e5 c t ht with hm | hm
      · exact h.tasks c t hm
      · exact hm
    obtain ⟨t1, t2, t3⟩ := this
    refine ⟨by rw [e1]; exact t1, ?_, ?_⟩
    · intro w hg; rw [e2] at hg; rw [e4]; exact t2 w hg
    · intro p hp; obtain ⟨p1, p2⟩ := t3 p hp; exact ⟨by rw [e1]; exact p1, by rw [e2]; exact p2⟩

/-- a new waitEvent generator together with its (unstarted, unflagged) wait state (`genCall` / `genWait`) -/
theorem newWait (h : W6GInv n0 v) (e1 : v'.ng = v.ng + 1) (e2 : ∀ g, g ≠ v.ng → v'.gen g = v.gen g)
    (hnew : v'.gen v.ng = .wait v.nw) (hdf : ∀ w, v.gen v.ng ≠ .wait w)
    (e3 : v'.nw = v.nw + 1) (e4 : ∀ w, w ≠ v.nw → v'.wg w = v.wg w)
    (hw1 : (v'.wg v.nw).task = v.ng) (hw2 : (v'.wg v.nw).started = false)
    (e5 : v'.tasks = v.tasks) (e6 : v'.progs = v.progs) : W6GInv n0 v' := by
  have hw : ∀ g w, g ≠ v.ng → v'.gen g = .wait w → v.gen g = .wait w := by
    intro g w e hg; rwa [e2 g e] at hg
  have hw' : ∀ g w, v.gen g = .wait w → v'.gen g = .wait w := by
    intro g w hg
    by_cases e : g = v.ng
    · subst e; exact absurd hg (hdf w)
    · rwa [e2 g e]
  have hnw : ∀ p, v.NonWait p → v'.NonWait p := by
    intro p hp
    refine ⟨by rw [e1]; exact Nat.lt_succ_of_lt hp.1, ?_⟩
    rw [e2 p (Nat.ne_of_lt hp.1)]; exact hp.2
  refine ⟨?_, ?_, ?_, ?_, ?_, by rw [e6]; exact h.progsOk⟩
  · intro w hw0; rw [e3] at hw0; rw [e1]
    by_cases e : w = v.nw
    · subst e; rw [hw1]; exact ⟨Nat.lt_succ_self _, hnew⟩
    · rw [e4 w e]
      have := h.taskGen w (by omega)
      exact ⟨Nat.lt_succ_of_lt this.1, hw' _ _ this.2⟩
  · intro g w hg; rw [e3]
    by_cases e : g = v.ng
    · subst e; rw [hnew] at hg; injection hg with hg; omega
    · exact Nat.lt_succ_of_lt (h.genLt g w (hw g w e hg))
  · intro w hw0 hs; rw [e3] at hw0
    by_cases e : w = v.nw
    · subst e; rw [hw2] at hs; cases hs
    · rw [e4 w e] at hs ⊢; exact hnw _ (h.pgen w (by omega) hs)
  · intro c t ht; rw [e5] at ht
    obtain ⟨t1, t2, t3⟩ := h.tasks c t ht
    refine ⟨by rw [e1]; exact Nat.lt_succ_of_lt t1, ?_, fun p hp => hnw p (t3 p hp)⟩
    intro w hg
    have hg' := hw _ _ (Nat.ne_of_lt t1) hg
    have hlt := h.genLt _ _ hg'
    rw [e4 w (Nat.ne_of_lt hlt)]; exact t2 w hg'
  · intro g e hh o rest st pc sd hg
    by_cases eg : g = v.ng
    · subst eg; rw [hnew] at hg; cases hg
    · rw [e2 g eg] at hg; exact h.gacts g e hh o rest st pc sd hg

/-- the task-related fields of one wait state change: `task` stays, `flag` only goes up, a started wait
    state has a user generator as parent -/
theorem wgUpdate (h : W6GInv n0 v) (w0 : Nat) (e1 : v'.ng = v.ng) (e2 : v'.gen = v.gen) (e3 : v'.nw = v.nw)
    (e4 : ∀ w, w ≠ w0 → v'.wg w = v.wg w) (f1 : (v'.wg w0).task = (v.wg w0).task)
    (f2 : (v.wg w0).flag = true → (v'.wg w0).flag = true)
    (f3 : w0 < v.nw → (v'.wg w0).started = true → v.NonWait (v'.wg w0).parentGen)
    (e5 : v'.tasks = v.tasks) (e6 : v'.progs = v.progs) : W6GInv n0 v' := by
  have hnw : ∀ p, v.NonWait p → v'.NonWait p := fun p hp => ⟨by rw [e1]; exact hp.1, by rw [e2]; exact hp.2⟩
  refine ⟨?_, by rw [e2, e3]; exact h.genLt, ?_, ?_, by rw [e2]; exact h.gacts, by rw [e6]; exact h.progsOk⟩
  · intro w hw; rw [e3] at hw; rw [e1, e2]
    by_cases e : w = w0
    · subst e; rw [f1]; exact h.taskGen w hw
    · rw [e4 w e]; exact h.taskGen w hw
  · intro w hw hs; rw [e3] at hw
    by_cases e : w = w0
    · subst e; exact hnw _ (f3 hw hs)
    · rw [e4 w e] at hs ⊢; exact hnw _ (h.pgen w hw hs)
  · intro c t ht; rw [e5] at ht
    obtain ⟨t1, t2, t3⟩ := h.tasks c t ht
    refine ⟨by rw [e1]; exact t1, ?_, fun p hp => hnw p (t3 p hp)⟩
    intro w hg; rw [e2] at hg
    by_cases e : w = w0
    · subst e; exact f2 (t2 w hg)
    · rw [e4 w e]; exact t2 w hg

end W6GInv
end CV.Core

import CV.Proofs.CoreReach
import CV.Proofs.CoreStep
/-
Run/stop invariants of the small-step core machine (property C08), part 1 of 3
(InvRunSil.lean -> InvRunStack.lean -> InvRun.lean).

`WF`, `St.Sil`: the "silent extension" relation.  `St.Sil s t` says that `t` is a later state
than `s` reached WITHOUT starting or stopping a manager:
  * the `running` flag and the `_exit_code` of every component are unchanged,
  * the log grew only by entries that are not a fire of `started` / `stopped`,
  * events keep their name and first argument, the event table only grows,
  * `t` is well-formed (`WF`): templates and timer events do not use the names
    `started`/`stopped`, every `fire` entry of the log refers to an existing event of that name.
Every primitive / helper / arm of `step` except the four pure functions `runBegin`,
`stopBegin`, `stopSetCode`, `runEnd` (arms `.run`, `.stopMgr`, `.runFin`) is silent: `step_sil`.
Proof: the 4-layer pattern of CoreStep.lean (primitive -> helper -> arm -> `cases f`) with the
committed-choice tactic `sil`; side conditions of the primitives ("the modifying function keeps
`running`/`exitCode`" for `modComp`, "keeps `name`/`arg`" for `modEv`, "keeps `ev`" for
`modTimer`, "is not a fire entry" for `logE`) are closed by `rfl`-style rules of the tactic.
-/
namespace CV.Core

/-! ## Part 1: silent extension -/

/-- names other than `started` / `stopped` -/
def Name.quiet (n : Name) : Bool := n != Name.started && n != Name.stopped

/-- log entries other than a fire of `started` / `stopped` -/
def Entry.quiet : Entry → Bool
  | .fire _ n _ _ => n.quiet
  | _ => true

def Entry.isFire : Entry → Bool
  | .fire .. => true
  | _ => false

/-- well-formedness of the tables with respect to the two reserved names -/
structure WF (s : St) : Prop where
  tmpls : ∀ tm ∈ s.tmpls, tm.name.quiet = true
  timers : ∀ tm ∈ s.timers, ∀ e, tm.ev = some e → e < s.evs.length ∧ (s.ev e).name.quiet = true
  log : ∀ e n ch p, Entry.fire e n ch p ∈ s.log → e < s.evs.length ∧ (s.ev e).name = n

structure St.Sil (s t : St) : Prop where
  wf : WF t
  evs : s.evs.length ≤ t.evs.length
  evk : ∀ e, e < s.evs.length → (t.ev e).name = (s.ev e).name ∧ (t.ev e).arg = (s.ev e).arg
  run : ∀ x, (t.comp x).running = (s.comp x).running
  code : ∀ x, (t.comp x).exitCode = (s.comp x).exitCode
  log : ∃ es, t.log = es ++ s.log ∧ ∀ en ∈ es, en.quiet = true

/-! ### table access after a primitive -/

theorem getD_modify {α} (l : List α) (i j : Nat) (f : α → α) (d : α) :
    (l.modify i f).getD j d = if i = j ∧ j < l.length then f (l.getD j d) else l.getD j d := by
  simp only [List.getD_eq_getElem?_getD, List.getElem?_modify]
  by_cases hj : j < l.length
  · simp [hj]
  · have : l[j]? = none := by simp; omega
    simp [hj]

theorem mem_modify {α} {l : List α} {i : Nat} {f : α → α} {a : α} (h : a ∈ l.modify i f) :
    a ∈ l ∨ ∃ b ∈ l, a = f b := by
  rw [List.mem_iff_getElem?] at h
  obtain ⟨j, hj⟩ := h
  rw [List.getElem?_modify] at hj
  cases hl : l[j]? with
  | none => simp [hl] at hj
  | some b =>
    have hb : b ∈ l := List.mem_iff_getElem?.2 ⟨j, hl⟩
    simp [hl] at hj
    by_cases hij : i = j
    · simp [hij] at hj; exact Or.inr ⟨b, hb, hj.symm⟩
    · simp [hij] at hj; exact Or.inl (hj ▸ hb)

theorem St.comp_modComp_run (t : St) (c : Nat) (f : Comp → Comp)
    (hf : ∀ x, (f x).running = x.running ∧ (f x).exitCode = x.exitCode) (x : Nat) :
    ((t.modComp c f).comp x).running = (t.comp x).running ∧
    ((t.modComp c f).comp x).exitCode = (t.comp x).exitCode := by
  unfold St.comp St.modComp
  dsimp only
  rw [getD_modify]
  split
  · exact hf _
  · exact ⟨rfl, rfl⟩

theorem St.ev_modEv_keep (t : St) (e : Nat) (f : Ev → Ev)
    (hf : ∀ x, (f x).name = x.name ∧ (f x).arg = x.arg) (e' : Nat) :
    ((t.modEv e f).ev e').name = (t.ev e').name ∧ ((t.modEv e f).ev e').arg = (t.ev e').arg := by
  unfold St.ev St.modEv
  dsimp only
  rw [getD_modify]
  split
  · exact hf _
  · exact ⟨rfl, rfl⟩

theorem St.ev_addEv_lt (t : St) (ev : Ev) (e : Nat) (h : e < t.evs.length) : (t.addEv ev).ev e = t.ev e := by
  unfold St.ev St.addEv
  simp [List.getD_eq_getElem?_getD, List.getElem?_append_left h]

theorem St.ev_addEv_new (t : St) (ev : Ev) : (t.addEv ev).ev t.evs.length = ev := by
  unfold St.ev St.addEv
  simp [List.getD_eq_getElem?_getD]

/-! ### WF is kept by the primitives -/

theorem WF.of_eq {s t : St} (h : WF s) (h1 : t.tmpls = s.tmpls) (h2 : t.timers = s.timers)
    (h3 : t.evs = s.evs) (h4 : t.log = s.log) : WF t := by
  refine ⟨?_, ?_, ?_⟩
  · rw [h1]; exact h.tmpls
  · rw [h2]; unfold St.ev; rw [h3]; exact h.timers
  · rw [h4]; unfold St.ev; rw [h3]; exact h.log

theorem WF.modEv {t : St} (h : WF t) (e : Nat) (f : Ev → Ev)
    (hf : ∀ x, (f x).name = x.name ∧ (f x).arg = x.arg) : WF (t.modEv e f) := by
  have hl : (t.modEv e f).evs.length = t.evs.length := by simp [St.modEv]
  refine ⟨h.tmpls, ?_, ?_⟩
  · intro tm htm e' he'
    rw [hl, (St.ev_modEv_keep t e f hf e').1]
    exact h.timers tm htm e' he'
  · intro e' n ch p hm
    rw [hl, (St.ev_modEv_keep t e f hf e').1]
    exact h.log e' n ch p hm

theorem WF.addEv {t : St} (h : WF t) (ev : Ev) : WF (t.addEv ev) := by
  have hl : (t.addEv ev).evs.length = t.evs.length + 1 := by simp [St.addEv]
  refine ⟨h.tmpls, ?_, ?_⟩
  · intro tm htm e' he'
    have := h.timers tm htm e' he'
    rw [hl, St.ev_addEv_lt t ev e' this.1]
    exact ⟨by omega, this.2⟩
  · intro e' n ch p hm
    have := h.log e' n ch p hm
    rw [hl, St.ev_addEv_lt t ev e' this.1]
    exact ⟨by omega, this.2⟩

theorem WF.modTimer {t : St} (h : WF t) (i : Nat) (f : TimerSt → TimerSt)
    (hf : ∀ x e, (f x).ev = some e → x.ev = some e ∨ (e < t.evs.length ∧ (t.ev e).name.quiet = true)) :
    WF (t.modTimer i f) := by
  refine ⟨h.tmpls, ?_, h.log⟩
  intro tm htm e he
  show e < t.evs.length ∧ (t.ev e).name.quiet = true
  rcases mem_modify htm with hm | ⟨b, hb, rfl⟩
  · exact h.timers tm hm e he
  · rcases hf b e he with h1 | h1
    · exact h.timers b hb e h1
    · exact h1

theorem WF.logE {t : St} (h : WF t) (x : Entry)
    (hx : ∀ e n ch p, x = .fire e n ch p → e < t.evs.length ∧ (t.ev e).name = n) : WF (t.logE x) := by
  refine ⟨h.tmpls, h.timers, ?_⟩
  intro e n ch p hm
  show e < t.evs.length ∧ (t.ev e).name = n
  have hm' : Entry.fire e n ch p ∈ x :: t.log := hm
  rcases List.mem_cons.1 hm' with h1 | h1
  · exact hx e n ch p h1.symm
  · exact h.log e n ch p h1

namespace St.Sil

theorem refl {s : St} (h : WF s) : St.Sil s s :=
  ⟨h, Nat.le_refl _, fun _ _ => ⟨rfl, rfl⟩, fun _ => rfl, fun _ => rfl, ⟨[], rfl, by simp⟩⟩

variable {s t : St}

/-- a primitive that leaves `evs`, `comps`' flags and the log alone -/
theorem of_same (h : St.Sil s t) {t' : St} (h1 : t'.tmpls = t.tmpls) (h2 : t'.timers = t.timers)
    (h3 : t'.evs = t.evs) (h4 : t'.log = t.log) (h5 : t'.comps = t.comps) : St.Sil s t' := by
  refine ⟨h.wf.of_eq h1 h2 h3 h4, ?_, ?_, ?_, ?_, ?_⟩
  · rw [h3]; exact h.evs
  · unfold St.ev; rw [h3]; exact h.evk
  · unfold St.comp; rw [h5]; exact h.run
  · unfold St.comp; rw [h5]; exact h.code
  · rw [h4]; exact h.log

theorem modComp (h : St.Sil s t) (c : Nat) (f : Comp → Comp)
    (hf : ∀ x, (f x).running = x.running ∧ (f x).exitCode = x.exitCode) : St.Sil s (t.modComp c f) := by
  refine ⟨h.wf.of_eq rfl rfl rfl rfl, h.evs, h.evk, ?_, ?_, h.log⟩
  · intro x; rw [(St.comp_modComp_run t c f hf x).1]; exact h.run x
  · intro x; rw [(St.comp_modComp_run t c f hf x).2]; exact h.code x

theorem modEv (h : St.Sil s t) (e : Nat) (f : Ev → Ev)
    (hf : ∀ x, (f x).name = x.name ∧ (f x).arg = x.arg) : St.Sil s (t.modEv e f) := by
  refine ⟨h.wf.modEv e f hf, ?_, ?_, h.run, h.code, h.log⟩
  · simpa [St.modEv] using h.evs
  · intro e' he'
    rw [(St.ev_modEv_keep t e f hf e').1, (St.ev_modEv_keep t e f hf e').2]
    exact h.evk e' he'

theorem modWait (h : St.Sil s t) (w : Nat) (f : WaitSt → WaitSt) : St.Sil s (t.modWait w f) :=
  h.of_same rfl rfl rfl rfl rfl
theorem setGen (h : St.Sil s t) (g : Nat) (x : GenRec) : St.Sil s (t.setGen g x) :=
  h.of_same rfl rfl rfl rfl rfl
theorem addH (h : St.Sil s t) (x : Handler) : St.Sil s (t.addH x) := h.of_same rfl rfl rfl rfl rfl
theorem addGen (h : St.Sil s t) (g : GenRec) : St.Sil s (t.addGen g) := h.of_same rfl rfl rfl rfl rfl
theorem addWait (h : St.Sil s t) (w : WaitSt) : St.Sil s (t.addWait w) := h.of_same rfl rfl rfl rfl rfl
theorem tick1 (h : St.Sil s t) (d : Int) : St.Sil s (t.tick1 d) := h.of_same rfl rfl rfl rfl rfl

theorem modTimer (h : St.Sil s t) (i : Nat) (f : TimerSt → TimerSt)
    (hf : ∀ x e, (f x).ev = some e → x.ev = some e ∨ (e < t.evs.length ∧ (t.ev e).name.quiet = true)) :
    St.Sil s (t.modTimer i f) :=
  ⟨h.wf.modTimer i f hf, h.evs, h.evk, h.run, h.code, h.log⟩

theorem addEv (h : St.Sil s t) (ev : Ev) : St.Sil s (t.addEv ev) := by
  refine ⟨h.wf.addEv ev, ?_, ?_, h.run, h.code, h.log⟩
  · have := h.evs; simp [St.addEv]; omega
  · intro e he
    rw [St.ev_addEv_lt t ev e (Nat.lt_of_lt_of_le he h.evs)]
    exact h.evk e he

/-- a log entry that is not a `fire` -/
theorem logE (h : St.Sil s t) (x : Entry) (hx : x.isFire = false) : St.Sil s (t.logE x) := by
  refine ⟨h.wf.logE x ?_, h.evs, h.evk, h.run, h.code, ?_⟩
  · intro e n ch p he; subst he; simp [Entry.isFire] at hx
  · obtain ⟨es, h1, h2⟩ := h.log
    refine ⟨x :: es, by simp [St.logE, h1], ?_⟩
    intro en hen
    rcases List.mem_cons.1 hen with h3 | h3
    · subst h3; cases en <;> simp_all [Entry.isFire, Entry.quiet]
    · exact h2 en h3

/-- a `fire` entry for an existing event with a quiet name -/
theorem logFire (h : St.Sil s t) (e : Nat) (ch : List Chan) (p : Int) (he : e < t.evs.length)
    (hq : (t.ev e).name.quiet = true) : St.Sil s (t.logE (.fire e (t.ev e).name ch p)) := by
  refine ⟨h.wf.logE _ ?_, h.evs, h.evk, h.run, h.code, ?_⟩
  · intro e' n ch' p' heq
    cases heq
    exact ⟨he, rfl⟩
  · obtain ⟨es, h1, h2⟩ := h.log
    refine ⟨.fire e (t.ev e).name ch p :: es, by simp [St.logE, h1], ?_⟩
    intro en hen
    rcases List.mem_cons.1 hen with h3 | h3
    · subst h3; exact hq
    · exact h2 en h3

/-- a `fire` entry for an event that existed, with a quiet name, in an earlier state `t` -/
theorem logFire' {t u : St} (h : St.Sil s u) (h' : St.Sil t u) (e : Nat) (ch : List Chan) (p : Int)
    (he : e < t.evs.length) (hq : (t.ev e).name.quiet = true) :
    St.Sil s (u.logE (.fire e (u.ev e).name ch p)) := by
  apply h.logFire e ch p (Nat.lt_of_lt_of_le he h'.evs)
  rw [(h'.evk e he).1]; exact hq

end St.Sil

theorem Name.child_quiet (n : Name) (k : Nat) : (n.child k).quiet = true := by
  have h1 : n.child k ≠ Name.started := by
    intro h; have := congrArg Name.sfx h; simp [Name.child, Name.started] at this
  have h2 : n.child k ≠ Name.stopped := by
    intro h; have := congrArg Name.sfx h; simp [Name.child, Name.stopped] at this
  simp [Name.quiet, h1, h2]

theorem WF.tmplQuiet {t : St} (h : WF t) (i : Nat) : (mkEvOfTmpl t i).name.quiet = true := by
  unfold mkEvOfTmpl
  dsimp only
  rw [List.getD_eq_getElem?_getD]
  cases hi : t.tmpls[i]? with
  | none => rfl
  | some tm => exact h.tmpls tm (List.mem_iff_getElem?.2 ⟨i, hi⟩)

theorem St.Sil.tmplQuiet {s t : St} (h : St.Sil s t) (i : Nat) : (mkEvOfTmpl t i).name.quiet = true :=
  h.wf.tmplQuiet i

/-! ## the tactic `sil` (committed choice, extended by `macro_rules`; later rules first) -/

syntax "sil1" : tactic
macro_rules | `(tactic| sil1) => `(tactic| split)
macro_rules | `(tactic| sil1) => `(tactic|
  (first
    | (intro x; exact ⟨rfl, rfl⟩)
    | (intro x e he; exact Or.inl he)
    | (intro x e he; split at he <;> exact Or.inl he)
    | (intro x; split <;> exact ⟨rfl, rfl⟩)
    | (show Name.quiet _ = true; rfl)
    | (with_reducible apply St.Sil.tmplQuiet; with_reducible assumption)
    | (show Entry.isFire _ = false; rfl)
    | fail "sil: no rule"))
macro_rules | `(tactic| sil1) => `(tactic| with_reducible apply St.Sil.tick1)
macro_rules | `(tactic| sil1) => `(tactic| with_reducible apply St.Sil.addWait)
macro_rules | `(tactic| sil1) => `(tactic| with_reducible apply St.Sil.addGen)
macro_rules | `(tactic| sil1) => `(tactic| with_reducible apply St.Sil.addH)
macro_rules | `(tactic| sil1) => `(tactic| with_reducible apply St.Sil.addEv)
macro_rules | `(tactic| sil1) => `(tactic| with_reducible apply St.Sil.logE)
macro_rules | `(tactic| sil1) => `(tactic| with_reducible apply St.Sil.setGen)
macro_rules | `(tactic| sil1) => `(tactic| with_reducible apply St.Sil.modTimer)
macro_rules | `(tactic| sil1) => `(tactic| with_reducible apply St.Sil.modWait)
macro_rules | `(tactic| sil1) => `(tactic| with_reducible apply St.Sil.modEv)
macro_rules | `(tactic| sil1) => `(tactic| with_reducible apply St.Sil.modComp)
macro_rules | `(tactic| sil1) => `(tactic| with_reducible assumption)

macro "sil" : tactic => `(tactic| repeat' sil1)
macro "sil_unfold" ids:ident+ : tactic => `(tactic| (unfold $[$ids]*; (try dsimp only); sil))


/-! ## helpers of `Pure.lean` -/

/-- a `foldl` of steps that each respect `Sil` respects `Sil` -/
theorem St.Sil.foldl {s t : St} {α} (g : St → α → St) (hg : ∀ a x, St.Sil s a → St.Sil s (g a x)) (l : List α)
    (h : St.Sil s t) : St.Sil s (l.foldl g t) := by
  induction l generalizing t with
  | nil => exact h
  | cons x l ih => exact ih (hg _ _ h)

theorem St.Sil.addHandler {s t : St} (h : St.Sil s t) (x : Nat) : St.Sil s (t.addHandler x) := by
  unfold St.addHandler
  dsimp only
  refine St.Sil.modComp ?_ _ _ (fun _ => ⟨rfl, rfl⟩)
  split
  · sil
  · split
    · sil
    · refine St.Sil.foldl _ ?_ _ h
      intro a n ha
      exact ha.modComp _ _ (fun _ => ⟨rfl, rfl⟩)
macro_rules | `(tactic| sil1) => `(tactic| with_reducible apply St.Sil.addHandler)

theorem St.Sil.removeHandler {s t : St} (h : St.Sil s t) (x : Nat) (n : Option Name) :
    St.Sil s ((t.removeHandler x n).2) := by
  sil_unfold St.removeHandler
macro_rules | `(tactic| sil1) => `(tactic| with_reducible apply St.Sil.removeHandler)

theorem St.Sil.fireContext {s t : St} (h : St.Sil s t) (r e : Nat) :
    St.Sil s (t.fireContext r e) := by
  sil_unfold St.fireContext
macro_rules | `(tactic| sil1) => `(tactic| with_reducible apply St.Sil.fireContext)

theorem St.Sil.fireRaw {s t : St} (h : St.Sil s t) (self e : Nat) (chans : List Chan) (prio : Int)
    (he : e < t.evs.length) (hq : (t.ev e).name.quiet = true) :
    St.Sil s (t.fireRaw self e chans prio) := by
  have h0 := St.Sil.refl h.wf
  unfold St.fireRaw; dsimp only
  apply St.Sil.logFire' (t := t) (he := he) (hq := hq) <;> sil

theorem St.Sil.childEv {s t : St} (h : St.Sil s t) (p sfx : Nat) :
    St.Sil s (t.childEv p sfx) := by
  sil_unfold St.childEv
macro_rules | `(tactic| sil1) => `(tactic| with_reducible apply St.Sil.childEv)

theorem St.Sil.fireChild {s t : St} (h : St.Sil s t) (self p sfx : Nat) (chans : List Chan) :
    St.Sil s (t.fireChild self p sfx chans) := by
  unfold St.fireChild St.childEv
  apply St.Sil.fireRaw (h.addEv _)
  · simp [St.addEv]
  · rw [St.ev_addEv_new]; exact Name.child_quiet _ _
macro_rules | `(tactic| sil1) => `(tactic| with_reducible apply St.Sil.fireChild)

theorem St.Sil.inform {s t : St} (h : St.Sil s t) (e : Nat) (force : Bool) :
    St.Sil s (t.inform e force) := by
  sil_unfold St.inform
macro_rules | `(tactic| sil1) => `(tactic| with_reducible apply St.Sil.inform)

theorem St.Sil.setValue {s t : St} (h : St.Sil s t) (e : Nat) (x : VItem) :
    St.Sil s (t.setValue e x) := by
  sil_unfold St.setValue
macro_rules | `(tactic| sil1) => `(tactic| with_reducible apply St.Sil.setValue)

theorem St.Sil.fireTmplEv {s t : St} (h : St.Sil s t) (self : Nat) (ev : Ev) (target : Option Chan) (prio : Int)
    (hq : ev.name.quiet = true) :
    St.Sil s (t.fireTmplEv self ev target prio) := by
  unfold St.fireTmplEv; dsimp only
  apply St.Sil.fireRaw (h.addEv _)
  · simp [St.addEv]
  · rw [St.ev_addEv_new]; exact hq
macro_rules | `(tactic| sil1) => `(tactic| with_reducible apply St.Sil.fireTmplEv)

theorem St.Sil.effectDone1 {s t : St} (h : St.Sil s t) (r e : Nat) (announce : Bool) :
    St.Sil s ((t.effectDone1 r e announce).2) := by
  sil_unfold St.effectDone1
macro_rules | `(tactic| sil1) => `(tactic| with_reducible apply St.Sil.effectDone1)

theorem St.Sil.eventDonePre {s t : St} (h : St.Sil s t) (r e : Nat) (err : Bool) :
    St.Sil s ((t.eventDonePre r e err).2) := by
  sil_unfold St.eventDonePre
macro_rules | `(tactic| sil1) => `(tactic| with_reducible apply St.Sil.eventDonePre)

theorem St.Sil.registerTask {s t : St} (h : St.Sil s t) (c : Nat) (x : Task) :
    St.Sil s (t.registerTask c x) := by
  sil_unfold St.registerTask
macro_rules | `(tactic| sil1) => `(tactic| with_reducible apply St.Sil.registerTask)

theorem St.Sil.unregisterTask {s t : St} (h : St.Sil s t) (c : Nat) (x : Task) :
    St.Sil s (t.unregisterTask c x) := by
  sil_unfold St.unregisterTask
macro_rules | `(tactic| sil1) => `(tactic| with_reducible apply St.Sil.unregisterTask)

theorem St.Sil.reduceTimeLeft {s t : St} (h : St.Sil s t) (e : Nat) (d : Int) :
    St.Sil s (t.reduceTimeLeft e d) := by
  sil_unfold St.reduceTimeLeft
macro_rules | `(tactic| sil1) => `(tactic| with_reducible apply St.Sil.reduceTimeLeft)

theorem St.Sil.registerPre {s t : St} (h : St.Sil s t) (c p : Nat) :
    St.Sil s ((t.registerPre c p).2) := by
  sil_unfold St.registerPre
macro_rules | `(tactic| sil1) => `(tactic| with_reducible apply St.Sil.registerPre)

theorem St.Sil.registerFin {s t : St} (h : St.Sil s t) (c : Nat) :
    St.Sil s (t.registerFin c) := by
  sil_unfold St.registerFin
macro_rules | `(tactic| sil1) => `(tactic| with_reducible apply St.Sil.registerFin)

theorem St.Sil.unregister {s t : St} (h : St.Sil s t) (c : Nat) :
    St.Sil s (t.unregister c) := by
  sil_unfold St.unregister
macro_rules | `(tactic| sil1) => `(tactic| with_reducible apply St.Sil.unregister)

theorem St.Sil.prepUnregPre {s t : St} (h : St.Sil s t) (c : Nat) :
    St.Sil s (t.prepUnregPre c) := by
  sil_unfold St.prepUnregPre
macro_rules | `(tactic| sil1) => `(tactic| with_reducible apply St.Sil.prepUnregPre)

theorem St.Sil.prepUnregFin {s t : St} (h : St.Sil s t) (c : Nat) :
    St.Sil s (t.prepUnregFin c) := by
  sil_unfold St.prepUnregFin
macro_rules | `(tactic| sil1) => `(tactic| with_reducible apply St.Sil.prepUnregFin)

theorem St.Sil.actFire {s t : St} (h : St.Sil s t) (self i : Nat) (target : Option Chan) (prio : Int) (cancel : Bool) :
    St.Sil s (t.actFire self i target prio cancel) := by
  sil_unfold St.actFire
macro_rules | `(tactic| sil1) => `(tactic| with_reducible apply St.Sil.actFire)

theorem St.Sil.actStopEv {s t : St} (h : St.Sil s t) (ev : Option Nat) :
    St.Sil s (t.actStopEv ev) := by
  sil_unfold St.actStopEv
macro_rules | `(tactic| sil1) => `(tactic| with_reducible apply St.Sil.actStopEv)

theorem St.Sil.timerReset {s t : St} (h : St.Sil s t) (i : Nat) :
    St.Sil s (t.timerReset i) := by
  sil_unfold St.timerReset
macro_rules | `(tactic| sil1) => `(tactic| with_reducible apply St.Sil.timerReset)

theorem St.Sil.timerCreate {s t : St} (h : St.Sil s t) (i : Nat) :
    St.Sil s (t.timerCreate i) := by
  sil_unfold St.timerCreate
macro_rules | `(tactic| sil1) => `(tactic| with_reducible apply St.Sil.timerCreate)

theorem St.Sil.timerTick {s t : St} (h : St.Sil s t) (i e : Nat) :
    St.Sil s (t.timerTick i e) := by
  unfold St.timerTick
  split
  · exact h
  · rename_i tm htm
    have hm : tm ∈ t.timers := List.mem_iff_getElem?.2 ⟨i, htm⟩
    dsimp only
    cases hev : tm.ev with
    | none =>
      dsimp only [Option.getD_none]
      have hf : ∀ chans, St.Sil s (((t.addEv (mkEvOfTmpl t tm.tmpl)).modTimer i
          fun x => { x with ev := some t.evs.length }).fireRaw tm.comp t.evs.length chans 0) := by
        intro chans
        apply St.Sil.fireRaw
        · apply St.Sil.modTimer (h.addEv _)
          intro x e' he'
          right
          cases he'
          refine ⟨by simp [St.addEv], ?_⟩
          rw [St.ev_addEv_new]; exact h.tmplQuiet _
        · simp [St.addEv, St.modTimer]
        · show ((t.addEv (mkEvOfTmpl t tm.tmpl)).ev t.evs.length).name.quiet = true
          rw [St.ev_addEv_new]; exact h.tmplQuiet _
      repeat' (first | with_reducible apply hf | sil1)
    | some te =>
      dsimp only [Option.getD_some]
      have hf : ∀ chans, St.Sil s (t.fireRaw tm.comp te chans 0) := fun chans =>
        h.fireRaw _ _ _ _ (h.wf.timers tm hm te hev).1 (h.wf.timers tm hm te hev).2
      repeat' (first | with_reducible apply hf | sil1)
macro_rules | `(tactic| sil1) => `(tactic| with_reducible apply St.Sil.timerTick)

theorem St.Sil.startWait {s t : St} (h : St.Sil s t) (w : Nat) :
    St.Sil s (t.startWait w) := by
  sil_unfold St.startWait
macro_rules | `(tactic| sil1) => `(tactic| with_reducible apply St.Sil.startWait)

/-! ## pure pieces of `Step.lean` -/

theorem St.Sil.genCall {s t : St} (h : St.Sil s t) (owner i : Nat) (target : Option Chan) (timeout : Option Nat) :
    St.Sil s (t.genCall owner i target timeout) := by
  sil_unfold St.genCall
macro_rules | `(tactic| sil1) => `(tactic| with_reducible apply St.Sil.genCall)

theorem St.Sil.genWait {s t : St} (h : St.Sil s t) (owner : Nat) (name : Name) (target : Option Chan) (timeout : Option Nat) :
    St.Sil s (t.genWait owner name target timeout) := by
  sil_unfold St.genWait
macro_rules | `(tactic| sil1) => `(tactic| with_reducible apply St.Sil.genWait)

theorem St.Sil.resumeGenPre {s t : St} (h : St.Sil s t) (g : Nat) (silent : Bool) :
    St.Sil s (t.resumeGenPre g silent) := by
  sil_unfold St.resumeGenPre
macro_rules | `(tactic| sil1) => `(tactic| with_reducible apply St.Sil.resumeGenPre)

theorem St.Sil.stopIteration {s t : St} (h : St.Sil s t) (r : Nat) (x : Task) :
    St.Sil s ((t.stopIteration r x).2) := by
  sil_unfold St.stopIteration
macro_rules | `(tactic| sil1) => `(tactic| with_reducible apply St.Sil.stopIteration)

theorem St.Sil.fireException {s t : St} (h : St.Sil s t) (r e : Nat) :
    St.Sil s (t.fireException r e) := by
  sil_unfold St.fireException
macro_rules | `(tactic| sil1) => `(tactic| with_reducible apply St.Sil.fireException)

theorem St.Sil.errorBranch {s t : St} (h : St.Sil s t) (r : Nat) (x : Task) (resumed : Bool) :
    St.Sil s ((t.errorBranch r x resumed).2) := by
  sil_unfold St.errorBranch
macro_rules | `(tactic| sil1) => `(tactic| with_reducible apply St.Sil.errorBranch)

theorem St.Sil.ownSub {s t : St} (h : St.Sil s t) (r : Nat) (x : Task) (w : Nat) :
    St.Sil s (t.ownSub r x w) := by
  sil_unfold St.ownSub
macro_rules | `(tactic| sil1) => `(tactic| with_reducible apply St.Sil.ownSub)

theorem St.Sil.setValueOpt {s t : St} (h : St.Sil s t) (e : Nat) (v : Option Nat) :
    St.Sil s (t.setValueOpt e v) := by
  sil_unfold St.setValueOpt
macro_rules | `(tactic| sil1) => `(tactic| with_reducible apply St.Sil.setValueOpt)

theorem St.Sil.parentSub {s t : St} (h : St.Sil s t) (r : Nat) (x : Task) (p w2 : Nat) (viaThrow : Bool) :
    St.Sil s (t.parentSub r x p w2 viaThrow) := by
  sil_unfold St.parentSub
macro_rules | `(tactic| sil1) => `(tactic| with_reducible apply St.Sil.parentSub)

theorem St.Sil.parentPlain {s t : St} (h : St.Sil s t) (r : Nat) (x : Task) (p : Nat) (v : Option Nat) (viaThrow : Bool) :
    St.Sil s (t.parentPlain r x p v viaThrow) := by
  sil_unfold St.parentPlain
macro_rules | `(tactic| sil1) => `(tactic| with_reducible apply St.Sil.parentPlain)

theorem St.Sil.onWaitEvent {s t : St} (h : St.Sil s t) (w e : Nat) :
    St.Sil s ((t.onWaitEvent w e).2) := by
  sil_unfold St.onWaitEvent
macro_rules | `(tactic| sil1) => `(tactic| with_reducible apply St.Sil.onWaitEvent)

theorem St.Sil.onWaitDone {s t : St} (h : St.Sil s t) (w e : Nat) :
    St.Sil s ((t.onWaitDone w e).2) := by
  sil_unfold St.onWaitDone
macro_rules | `(tactic| sil1) => `(tactic| with_reducible apply St.Sil.onWaitDone)

theorem St.Sil.onWaitTick {s t : St} (h : St.Sil s t) (w : Nat) :
    St.Sil s ((t.onWaitTick w).2) := by
  sil_unfold St.onWaitTick
macro_rules | `(tactic| sil1) => `(tactic| with_reducible apply St.Sil.onWaitTick)

theorem St.Sil.onFallbackGE {s t : St} (h : St.Sil s t) (e : Nat) :
    St.Sil s ((t.onFallbackGE e).2) := by
  sil_unfold St.onFallbackGE
macro_rules | `(tactic| sil1) => `(tactic| with_reducible apply St.Sil.onFallbackGE)

theorem St.Sil.computeHandlers {s t : St} (h : St.Sil s t) (r : Nat) (name : Name) (chans : List Chan) :
    St.Sil s ((t.computeHandlers r name chans).2) := by
  sil_unfold St.computeHandlers
macro_rules | `(tactic| sil1) => `(tactic| with_reducible apply St.Sil.computeHandlers)

theorem St.Sil.dispComplete {s t : St} (h : St.Sil s t) (e : Nat) (ev : Ev) :
    St.Sil s (t.dispComplete e ev) := by
  sil_unfold St.dispComplete
macro_rules | `(tactic| sil1) => `(tactic| with_reducible apply St.Sil.dispComplete)

theorem St.Sil.cacheRefresh {s t : St} (h : St.Sil s t) (r : Nat) :
    St.Sil s (t.cacheRefresh r) := by
  sil_unfold St.cacheRefresh
macro_rules | `(tactic| sil1) => `(tactic| with_reducible apply St.Sil.cacheRefresh)

theorem St.Sil.lookupHandlers {s t : St} (h : St.Sil s t) (r : Nat) (name : Name) (chans : List Chan) :
    St.Sil s ((t.lookupHandlers r name chans).2) := by
  sil_unfold St.lookupHandlers
macro_rules | `(tactic| sil1) => `(tactic| with_reducible apply St.Sil.lookupHandlers)

theorem St.Sil.dispGE {s t : St} (h : St.Sil s t) (r e remaining : Nat) (name : Name) :
    St.Sil s (t.dispGE r e remaining name) := by
  sil_unfold St.dispGE
macro_rules | `(tactic| sil1) => `(tactic| with_reducible apply St.Sil.dispGE)

theorem St.Sil.dispatchPre {s t : St} (h : St.Sil s t) (r e remaining : Nat) :
    St.Sil s ((t.dispatchPre r e remaining).2) := by
  sil_unfold St.dispatchPre
macro_rules | `(tactic| sil1) => `(tactic| with_reducible apply St.Sil.dispatchPre)

theorem St.Sil.handlerRaised {s t : St} (h : St.Sil s t) (r e : Nat) :
    St.Sil s (t.handlerRaised r e) := by
  sil_unfold St.handlerRaised
macro_rules | `(tactic| sil1) => `(tactic| with_reducible apply St.Sil.handlerRaised)

theorem St.Sil.applyValue {s t : St} (h : St.Sil s t) (r e : Nat) (value : Outcome) :
    St.Sil s (t.applyValue r e value) := by
  sil_unfold St.applyValue
macro_rules | `(tactic| sil1) => `(tactic| with_reducible apply St.Sil.applyValue)

theorem St.Sil.geTasksCheck {s t : St} (h : St.Sil s t) (r e : Nat) :
    St.Sil s (t.geTasksCheck r e) := by
  sil_unfold St.geTasksCheck
macro_rules | `(tactic| sil1) => `(tactic| with_reducible apply St.Sil.geTasksCheck)

theorem St.Sil.flushBegin {s t : St} (h : St.Sil s t) (r : Nat) :
    St.Sil s (t.flushBegin r) := by
  sil_unfold St.flushBegin
macro_rules | `(tactic| sil1) => `(tactic| with_reducible apply St.Sil.flushBegin)

theorem St.Sil.tickGenerate {s t : St} (h : St.Sil s t) (c : Nat) :
    St.Sil s (t.tickGenerate c) := by
  unfold St.tickGenerate; dsimp only
  split
  · apply St.Sil.fireRaw ((h.tick1 1).addEv _)
    · simp [St.addEv]
    · rw [St.ev_addEv_new]; rfl
  · exact h
macro_rules | `(tactic| sil1) => `(tactic| with_reducible apply St.Sil.tickGenerate)

theorem St.Sil.actStep {s t : St} (h : St.Sil s t) (ctx : HCtx) (a : Act) : St.Sil s (actStep t ctx a).st := by
  cases a <;> (unfold CV.Core.actStep; (try dsimp only); sil)
macro_rules | `(tactic| sil1) => `(tactic| with_reducible apply St.Sil.actStep)

/-! ## the arms of `step` -/

macro_rules
  | `(tactic| sil1) => `(tactic| (show St.Sil _ _; simp only [Cfg.pop_st, Cfg.popRet_st, Cfg.raise_st, Cfg.goto_st]))

theorem Cfg.effectDone_sil {c : Cfg} (hwf : WF c.st) (k : List Frame) (r e : Nat) (announce : Bool) :
    St.Sil c.st (c.effectDone k r e announce).st := by
  have h0 := St.Sil.refl hwf
  unfold Cfg.effectDone; (try dsimp only); sil
macro_rules | `(tactic| sil1) => `(tactic| with_reducible exact Cfg.effectDone_sil (by assumption) ..)

theorem Cfg.eventDone_sil {c : Cfg} (hwf : WF c.st) (k : List Frame) (r e : Nat) (err : Bool) :
    St.Sil c.st (c.eventDone k r e err).st := by
  have h0 := St.Sil.refl hwf
  unfold Cfg.eventDone; (try dsimp only); sil
macro_rules | `(tactic| sil1) => `(tactic| with_reducible exact Cfg.eventDone_sil (by assumption) ..)

theorem St.Sil.updateRootAll (s : St) : ∀ (fuel : Nat) (todo : List Nat) (root : Nat) (t : St),
    St.Sil s t → St.Sil s (St.updateRootAll fuel todo root t) := by
  intro fuel
  induction fuel with
  | zero => intro todo root t h; simpa [St.updateRootAll] using h
  | succ n ih =>
    intro todo root t h
    cases todo with
    | nil => simpa [St.updateRootAll] using h
    | cons x rest =>
      simp only [St.updateRootAll]
      apply ih
      sil

macro_rules | `(tactic| sil1) => `(tactic| with_reducible apply St.Sil.updateRootAll)

theorem Cfg.updateRoot_sil {c : Cfg} (hwf : WF c.st) (k : List Frame) (todo : List Nat) (root : Nat) :
    St.Sil c.st (c.updateRoot k todo root).st := by
  have h0 := St.Sil.refl hwf
  unfold Cfg.updateRoot; (try dsimp only)
  simp only [Cfg.pop_st]
  exact St.Sil.updateRootAll _ _ _ _ _ h0
macro_rules | `(tactic| sil1) => `(tactic| with_reducible exact Cfg.updateRoot_sil (by assumption) ..)

theorem Cfg.register_sil {c : Cfg} (hwf : WF c.st) (k : List Frame) (x p : Nat) :
    St.Sil c.st (c.register k x p).st := by
  have h0 := St.Sil.refl hwf
  unfold Cfg.register; (try dsimp only); sil
macro_rules | `(tactic| sil1) => `(tactic| with_reducible exact Cfg.register_sil (by assumption) ..)

theorem Cfg.registerFin_sil {c : Cfg} (hwf : WF c.st) (k : List Frame) (x : Nat) :
    St.Sil c.st (c.registerFin k x).st := by
  have h0 := St.Sil.refl hwf
  unfold Cfg.registerFin; (try dsimp only); sil
macro_rules | `(tactic| sil1) => `(tactic| with_reducible exact Cfg.registerFin_sil (by assumption) ..)

theorem Cfg.prepUnregFin_sil {c : Cfg} (hwf : WF c.st) (k : List Frame) (x : Nat) :
    St.Sil c.st (c.prepUnregFin k x).st := by
  have h0 := St.Sil.refl hwf
  unfold Cfg.prepUnregFin; (try dsimp only); sil
macro_rules | `(tactic| sil1) => `(tactic| with_reducible exact Cfg.prepUnregFin_sil (by assumption) ..)

theorem Cfg.ticks_sil {c : Cfg} (hwf : WF c.st) (k : List Frame) (x n : Nat) :
    St.Sil c.st (c.ticks k x n).st := by
  have h0 := St.Sil.refl hwf
  unfold Cfg.ticks; (try dsimp only); sil
macro_rules | `(tactic| sil1) => `(tactic| with_reducible exact Cfg.ticks_sil (by assumption) ..)

theorem Cfg.stopFin_sil {c : Cfg} (hwf : WF c.st) (k : List Frame) (code : Code) :
    St.Sil c.st (c.stopFin k code).st := by
  have h0 := St.Sil.refl hwf
  unfold Cfg.stopFin; (try dsimp only); sil
macro_rules | `(tactic| sil1) => `(tactic| with_reducible exact Cfg.stopFin_sil (by assumption) ..)

theorem Cfg.timerNew_sil {c : Cfg} (hwf : WF c.st) (k : List Frame) (i : Nat) :
    St.Sil c.st (c.timerNew k i).st := by
  have h0 := St.Sil.refl hwf
  unfold Cfg.timerNew; (try dsimp only); sil
macro_rules | `(tactic| sil1) => `(tactic| with_reducible exact Cfg.timerNew_sil (by assumption) ..)

theorem Cfg.acts_sil {c : Cfg} (hwf : WF c.st) (k : List Frame) (ctx : HCtx) (prog : Prog) :
    St.Sil c.st (c.acts k ctx prog).st := by
  have h0 := St.Sil.refl hwf
  unfold Cfg.acts; (try dsimp only); sil
macro_rules | `(tactic| sil1) => `(tactic| with_reducible exact Cfg.acts_sil (by assumption) ..)

theorem Cfg.doFin_sil {c : Cfg} (hwf : WF c.st) (k : List Frame) (x : Nat) :
    St.Sil c.st (c.doFin k x).st := by
  have h0 := St.Sil.refl hwf
  unfold Cfg.doFin; (try dsimp only); sil
macro_rules | `(tactic| sil1) => `(tactic| with_reducible exact Cfg.doFin_sil (by assumption) ..)

theorem Cfg.drainQ_sil {c : Cfg} (hwf : WF c.st) (k : List Frame) (x : Nat) :
    St.Sil c.st (c.drainQ k x).st := by
  have h0 := St.Sil.refl hwf
  unfold Cfg.drainQ; (try dsimp only); sil
macro_rules | `(tactic| sil1) => `(tactic| with_reducible exact Cfg.drainQ_sil (by assumption) ..)

theorem Cfg.stepGen_sil {c : Cfg} (hwf : WF c.st) (k : List Frame) (g : Nat) :
    St.Sil c.st (c.stepGen k g).st := by
  have h0 := St.Sil.refl hwf
  unfold Cfg.stepGen; (try dsimp only); sil
macro_rules | `(tactic| sil1) => `(tactic| with_reducible exact Cfg.stepGen_sil (by assumption) ..)

theorem Cfg.processTask_sil {c : Cfg} (hwf : WF c.st) (k : List Frame) (r : Nat) (x : Task) :
    St.Sil c.st (c.processTask k r x).st := by
  have h0 := St.Sil.refl hwf
  unfold Cfg.processTask; (try dsimp only); sil
macro_rules | `(tactic| sil1) => `(tactic| with_reducible exact Cfg.processTask_sil (by assumption) ..)

theorem Cfg.contStop_sil {s0 : St} (c : Cfg) (k : List Frame) (s : St) (r : Nat) (x : Task) (hle : St.Sil s0 s) :
    St.Sil s0 (c.contStop k s r x).st := by
  unfold Cfg.contStop; (try dsimp only); sil
macro_rules | `(tactic| sil1) => `(tactic| with_reducible apply Cfg.contStop_sil)

theorem Cfg.contError_sil {s0 : St} (c : Cfg) (k : List Frame) (s : St) (r : Nat) (x : Task) (resumed : Bool) (hle : St.Sil s0 s) :
    St.Sil s0 (c.contError k s r x resumed).st := by
  unfold Cfg.contError; (try dsimp only); sil
macro_rules | `(tactic| sil1) => `(tactic| with_reducible apply Cfg.contError_sil)

theorem Cfg.ptBodyWait_sil {c : Cfg} (hwf : WF c.st) (k : List Frame) (r : Nat) (x : Task) (w : Nat) :
    St.Sil c.st (c.ptBodyWait k r x w).st := by
  have h0 := St.Sil.refl hwf
  unfold Cfg.ptBodyWait; (try dsimp only); sil
macro_rules | `(tactic| sil1) => `(tactic| with_reducible exact Cfg.ptBodyWait_sil (by assumption) ..)

theorem Cfg.ptBodyExc_sil {c : Cfg} (hwf : WF c.st) (k : List Frame) (r : Nat) (x : Task) (w : Nat) (fired : Bool) :
    St.Sil c.st (c.ptBodyExc k r x w fired).st := by
  have h0 := St.Sil.refl hwf
  unfold Cfg.ptBodyExc; (try dsimp only); sil
macro_rules | `(tactic| sil1) => `(tactic| with_reducible exact Cfg.ptBodyExc_sil (by assumption) ..)

theorem Cfg.ptBody_sil {c : Cfg} (hwf : WF c.st) (k : List Frame) (r : Nat) (x : Task) :
    St.Sil c.st (c.ptBody k r x).st := by
  have h0 := St.Sil.refl hwf
  unfold Cfg.ptBody; (try dsimp only); sil
macro_rules | `(tactic| sil1) => `(tactic| with_reducible exact Cfg.ptBody_sil (by assumption) ..)

theorem Cfg.ptOwn_sil {c : Cfg} (hwf : WF c.st) (k : List Frame) (r : Nat) (x : Task) :
    St.Sil c.st (c.ptOwn k r x).st := by
  have h0 := St.Sil.refl hwf
  unfold Cfg.ptOwn; (try dsimp only); sil
macro_rules | `(tactic| sil1) => `(tactic| with_reducible exact Cfg.ptOwn_sil (by assumption) ..)

theorem Cfg.ptParent_sil {c : Cfg} (hwf : WF c.st) (k : List Frame) (r : Nat) (x : Task) (p : Nat) (viaThrow : Bool) :
    St.Sil c.st (c.ptParent k r x p viaThrow).st := by
  have h0 := St.Sil.refl hwf
  unfold Cfg.ptParent; (try dsimp only); sil
macro_rules | `(tactic| sil1) => `(tactic| with_reducible exact Cfg.ptParent_sil (by assumption) ..)

theorem Cfg.ptFin_sil {c : Cfg} (hwf : WF c.st) (k : List Frame) (r : Nat) (handling : Option Nat) :
    St.Sil c.st (c.ptFin k r handling).st := by
  have h0 := St.Sil.refl hwf
  unfold Cfg.ptFin; (try dsimp only); sil
macro_rules | `(tactic| sil1) => `(tactic| with_reducible exact Cfg.ptFin_sil (by assumption) ..)

theorem Cfg.dispatcher_sil {c : Cfg} (hwf : WF c.st) (k : List Frame) (r e remaining : Nat) :
    St.Sil c.st (c.dispatcher k r e remaining).st := by
  have h0 := St.Sil.refl hwf
  unfold Cfg.dispatcher; (try dsimp only); sil
macro_rules | `(tactic| sil1) => `(tactic| with_reducible exact Cfg.dispatcher_sil (by assumption) ..)

theorem Cfg.hLoop_sil {c : Cfg} (hwf : WF c.st) (k : List Frame) (r e : Nat) (hs : List Nat) (err : Bool) (stale : Outcome) :
    St.Sil c.st (c.hLoop k r e hs err stale).st := by
  have h0 := St.Sil.refl hwf
  unfold Cfg.hLoop; (try dsimp only); sil
macro_rules | `(tactic| sil1) => `(tactic| with_reducible exact Cfg.hLoop_sil (by assumption) ..)

theorem Cfg.invokeUser_sil {s0 : St} (c : Cfg) (k : List Frame) (s : St) (h e owner p : Nat) (hle : St.Sil s0 s) :
    St.Sil s0 (c.invokeUser k s h e owner p).st := by
  unfold Cfg.invokeUser; (try dsimp only); sil
macro_rules | `(tactic| sil1) => `(tactic| with_reducible apply Cfg.invokeUser_sil)

theorem Cfg.invoke_sil {c : Cfg} (hwf : WF c.st) (k : List Frame) (r h e : Nat) :
    St.Sil c.st (c.invoke k r h e).st := by
  have h0 := St.Sil.refl hwf
  unfold Cfg.invoke; (try dsimp only); sil
macro_rules | `(tactic| sil1) => `(tactic| with_reducible exact Cfg.invoke_sil (by assumption) ..)

theorem Cfg.invokeFin_sil {c : Cfg} (hwf : WF c.st) (k : List Frame) (e h : Nat) :
    St.Sil c.st (c.invokeFin k e h).st := by
  have h0 := St.Sil.refl hwf
  unfold Cfg.invokeFin; (try dsimp only); sil
macro_rules | `(tactic| sil1) => `(tactic| with_reducible exact Cfg.invokeFin_sil (by assumption) ..)

theorem Cfg.hAfter_sil {c : Cfg} (hwf : WF c.st) (k : List Frame) (r e : Nat) (rest : List Nat) (err : Bool) (stale : Outcome) :
    St.Sil c.st (c.hAfter k r e rest err stale).st := by
  have h0 := St.Sil.refl hwf
  unfold Cfg.hAfter; (try dsimp only); sil
macro_rules | `(tactic| sil1) => `(tactic| with_reducible exact Cfg.hAfter_sil (by assumption) ..)

theorem Cfg.hApply_sil {c : Cfg} (hwf : WF c.st) (k : List Frame) (r e : Nat) (rest : List Nat) (err : Bool) (value : Outcome) :
    St.Sil c.st (c.hApply k r e rest err value).st := by
  have h0 := St.Sil.refl hwf
  unfold Cfg.hApply; (try dsimp only); sil
macro_rules | `(tactic| sil1) => `(tactic| with_reducible exact Cfg.hApply_sil (by assumption) ..)

theorem Cfg.dispFin_sil {c : Cfg} (hwf : WF c.st) (k : List Frame) (r e : Nat) (err : Bool) :
    St.Sil c.st (c.dispFin k r e err).st := by
  have h0 := St.Sil.refl hwf
  unfold Cfg.dispFin; (try dsimp only); sil
macro_rules | `(tactic| sil1) => `(tactic| with_reducible exact Cfg.dispFin_sil (by assumption) ..)

theorem Cfg.dispatchLoop_sil {c : Cfg} (hwf : WF c.st) (k : List Frame) (r : Nat) :
    St.Sil c.st (c.dispatchLoop k r).st := by
  have h0 := St.Sil.refl hwf
  unfold Cfg.dispatchLoop; (try dsimp only); sil
macro_rules | `(tactic| sil1) => `(tactic| with_reducible exact Cfg.dispatchLoop_sil (by assumption) ..)

theorem Cfg.flush_sil {c : Cfg} (hwf : WF c.st) (k : List Frame) (x : Nat) :
    St.Sil c.st (c.flush k x).st := by
  have h0 := St.Sil.refl hwf
  unfold Cfg.flush; (try dsimp only); sil
macro_rules | `(tactic| sil1) => `(tactic| with_reducible exact Cfg.flush_sil (by assumption) ..)

theorem Cfg.flushFin_sil {c : Cfg} (hwf : WF c.st) (k : List Frame) (r : Nat) (old : Bool) :
    St.Sil c.st (c.flushFin k r old).st := by
  have h0 := St.Sil.refl hwf
  unfold Cfg.flushFin; (try dsimp only); sil
macro_rules | `(tactic| sil1) => `(tactic| with_reducible exact Cfg.flushFin_sil (by assumption) ..)

theorem Cfg.tick_sil {c : Cfg} (hwf : WF c.st) (k : List Frame) (x : Nat) :
    St.Sil c.st (c.tick k x).st := by
  have h0 := St.Sil.refl hwf
  unfold Cfg.tick; (try dsimp only); sil
macro_rules | `(tactic| sil1) => `(tactic| with_reducible exact Cfg.tick_sil (by assumption) ..)

theorem Cfg.taskLoop_sil {c : Cfg} (hwf : WF c.st) (k : List Frame) (x : Nat) (ts : List Task) :
    St.Sil c.st (c.taskLoop k x ts).st := by
  have h0 := St.Sil.refl hwf
  unfold Cfg.taskLoop; (try dsimp only); sil
macro_rules | `(tactic| sil1) => `(tactic| with_reducible exact Cfg.taskLoop_sil (by assumption) ..)

theorem Cfg.tickFin_sil {c : Cfg} (hwf : WF c.st) (k : List Frame) (x : Nat) (old : Bool) :
    St.Sil c.st (c.tickFin k x old).st := by
  have h0 := St.Sil.refl hwf
  unfold Cfg.tickFin; (try dsimp only); sil
macro_rules | `(tactic| sil1) => `(tactic| with_reducible exact Cfg.tickFin_sil (by assumption) ..)

theorem Cfg.tickGen_sil {c : Cfg} (hwf : WF c.st) (k : List Frame) (x : Nat) :
    St.Sil c.st (c.tickGen k x).st := by
  have h0 := St.Sil.refl hwf
  unfold Cfg.tickGen; (try dsimp only); sil
macro_rules | `(tactic| sil1) => `(tactic| with_reducible exact Cfg.tickGen_sil (by assumption) ..)

theorem Cfg.runLoop_sil {c : Cfg} (hwf : WF c.st) (k : List Frame) (x : Nat) :
    St.Sil c.st (c.runLoop k x).st := by
  have h0 := St.Sil.refl hwf
  unfold Cfg.runLoop; (try dsimp only); sil
macro_rules | `(tactic| sil1) => `(tactic| with_reducible exact Cfg.runLoop_sil (by assumption) ..)

theorem Cfg.runCatchExn_sil {c : Cfg} (hwf : WF c.st) (k : List Frame) (x : Nat) (ex : Exn) :
    St.Sil c.st (c.runCatchExn k x ex).st := by
  have h0 := St.Sil.refl hwf
  unfold Cfg.runCatchExn; (try dsimp only); sil
macro_rules | `(tactic| sil1) => `(tactic| with_reducible exact Cfg.runCatchExn_sil (by assumption) ..)

theorem Cfg.runRethrow_sil {c : Cfg} (hwf : WF c.st) (k : List Frame) (ex : Exn) :
    St.Sil c.st (c.runRethrow k ex).st := by
  have h0 := St.Sil.refl hwf
  unfold Cfg.runRethrow; (try dsimp only); sil
macro_rules | `(tactic| sil1) => `(tactic| with_reducible exact Cfg.runRethrow_sil (by assumption) ..)


/-! ## the transition function -/

/-- the three frames whose arm starts / stops a manager or ends `run()` -/
def Frame.loud : Frame → Bool
  | .run _ => true
  | .stopMgr _ _ => true
  | .runFin _ => true
  | _ => false

theorem stepFrame_sil {c : Cfg} (hwf : WF c.st) (k : List Frame) (f : Frame) (hf : f.loud = false) :
    St.Sil c.st (stepFrame c k f).st := by
  have h0 := St.Sil.refl hwf
  cases f <;> first | (cases hf; done) | (dsimp only [stepFrame]; sil)

theorem unwind_sil {c : Cfg} (hwf : WF c.st) (k : List Frame) (ex : Exn) (f : Frame) :
    St.Sil c.st (unwind c k ex f).st := by
  have h0 := St.Sil.refl hwf
  cases f <;> (dsimp only [unwind]; sil)

/-- every step except the normal execution of `.run`, `.stopMgr`, `.runFin` is silent -/
theorem step_sil {c : Cfg} (hwf : WF c.st)
    (h : ∀ f k, c.stack = f :: k → c.exn = none → f.loud = false) : St.Sil c.st (step c).st := by
  unfold step
  split
  · exact St.Sil.refl hwf
  · rename_i f k hs
    split
    · exact unwind_sil hwf ..
    · rename_i hx
      exact stepFrame_sil hwf _ _ (h f k hs hx)

end CV.Core

import CV.Proofs.InvQueue
import CV.Proofs.InvCacheBase
/-
C02, machine level, second round: handler ORDER on the small-step machine.

  * `DescIn s l`   the handler list `l` is sorted by descending priority (priority table of `s`)
                   and consists of declared handler records (ids in range);
  * `O2S s`        state invariant: every declared handler has priority ≥ -100 (the priority of the
                   fallback `generate_events` handler `_dispatcher` appends AFTER sorting), every id
                   in a handler table / global list is in range, every cached list is `DescIn`;
  * `O2R s t`      "t is a later state than s, reached by order-neutral code": the handler table
                   was only appended to, the log only got entries that are neither `D` nor the `I`
                   of a handler call, and `O2S` survived.

`O2R` is pushed through all primitives / helpers / arms of `step` with the 4-layer pattern of
CoreStep.lean (committed-choice tactic `o2t`).  The arms `.dispatcher`, `.hLoop`, `.invoke`,
`.hAfter`, `.hApply` are treated in CV/Proofs/InvOrder.lean.

Every top-level name carries the prefix `o2` / `O2` (or lives in a namespace that does).
-/
namespace CV.Core
open CV.Core.Live

/-! ## definitions -/

/-- log entries that are neither a `D` entry nor the `I` entry of a handler call -/
def Entry.o2quiet : Entry → Bool
  | .disp _ => false
  | .inv _ _ 0 => false
  | _ => true

/-- sorted by descending priority w.r.t. the handler table `hs`, all ids declared -/
def DescL (hs : List Handler) (l : List Nat) : Prop :=
  Desc (fun h => (hs.getD h dfltHandler).prio) l ∧ ∀ h ∈ l, h < hs.length

def DescIn (s : St) (l : List Nat) : Prop := DescL s.hs l

theorem DescIn.desc {s : St} {l : List Nat} (h : DescIn s l) : Desc s.q2prio l := h.1

structure O2C (comp : Nat → Comp) (hs : List Handler) : Prop where
  low : ∀ hd ∈ hs, -100 ≤ hd.prio
  hid : ∀ c k h, (k, h) ∈ (comp c).htab → h < hs.length
  gid : ∀ c h, h ∈ (comp c).globals → h < hs.length
  cache : ∀ c key l, (key, l) ∈ (comp c).cache → DescL hs l

/-- the state invariant -/
def O2S (s : St) : Prop := O2C s.comp s.hs

structure O2R (s t : St) : Prop where
  hs : ∃ l, t.hs = s.hs ++ l
  log : ∃ es, t.log = es ++ s.log ∧ ∀ x ∈ es, x.o2quiet = true
  inv : O2S s → O2S t

/-! ## monotonicity in the handler table -/

theorem o2_getD_append (hs l : List Handler) {x : Nat} (hx : x < hs.length) :
    (hs ++ l).getD x dfltHandler = hs.getD x dfltHandler := by
  rw [List.getD_eq_getElem?_getD, List.getD_eq_getElem?_getD, List.getElem?_append_left hx]

theorem DescL.append {hs : List Handler} {l : List Nat} (h : DescL hs l) (ext : List Handler) :
    DescL (hs ++ ext) l := by
  refine ⟨?_, fun x hx => by rw [List.length_append]; have := h.2 x hx; omega⟩
  refine List.Pairwise.imp_of_mem ?_ h.1
  intro a b ha hb hab
  simp only [o2_getD_append hs ext (h.2 a ha), o2_getD_append hs ext (h.2 b hb)]
  exact hab

theorem DescIn.mono {s t : St} {l : List Nat} (h : DescIn s l) (hr : ∃ ext, t.hs = s.hs ++ ext) : DescIn t l := by
  obtain ⟨ext, he⟩ := hr
  unfold DescIn; rw [he]; exact DescL.append h ext

theorem o2_prio_mono {s t : St} (hr : ∃ ext, t.hs = s.hs ++ ext) {x : Nat} (hx : x < s.hs.length) :
    t.q2prio x = s.q2prio x := by
  obtain ⟨ext, he⟩ := hr
  exact St.q2prio_append_lt he hx

theorem o2_len_mono {s t : St} (hr : ∃ ext, t.hs = s.hs ++ ext) : s.hs.length ≤ t.hs.length := by
  obtain ⟨ext, he⟩ := hr
  rw [he, List.length_append]; omega

theorem DescL.sublist {hs : List Handler} {l l' : List Nat} (h : DescL hs l) (hsub : l'.Sublist l) : DescL hs l' :=
  ⟨List.Pairwise.sublist hsub h.1, fun x hx => h.2 x (hsub.subset hx)⟩

theorem DescL.nil (hs : List Handler) : DescL hs [] := ⟨List.Pairwise.nil, fun _ h => absurd h (by simp)⟩

/-! ## the relation is a preorder -/

namespace O2R

theorem refl (s : St) : O2R s s := ⟨⟨[], by simp⟩, ⟨[], rfl, fun _ h => absurd h (by simp)⟩, id⟩

theorem trans {a b c : St} (h1 : O2R a b) (h2 : O2R b c) : O2R a c := by
  obtain ⟨l1, e1⟩ := h1.hs
  obtain ⟨l2, e2⟩ := h2.hs
  obtain ⟨es1, f1, q1⟩ := h1.log
  obtain ⟨es2, f2, q2⟩ := h2.log
  refine ⟨⟨l1 ++ l2, by rw [e2, e1, List.append_assoc]⟩, ⟨es2 ++ es1, by rw [f2, f1, List.append_assoc], ?_⟩,
    fun h => h2.inv (h1.inv h)⟩
  intro x hx
  rcases List.mem_append.mp hx with h | h
  · exact q2 x h
  · exact q1 x h

/-- a change of the state that leaves components, handler table and log alone -/
theorem of_same {t t' : St} (hc : t'.comps = t.comps) (hh : t'.hs = t.hs) (hl : t'.log = t.log) : O2R t t' := by
  refine ⟨⟨[], by simp [hh]⟩, ⟨[], by simp [hl], fun _ h => absurd h (by simp)⟩, ?_⟩
  intro h
  have : t'.comp = t.comp := by funext c; unfold St.comp; rw [hc]
  unfold O2S; rw [this, hh]; exact h

variable {s t : St}

theorem modEv (h : O2R s t) (e : Nat) (f : Ev → Ev) : O2R s (t.modEv e f) := h.trans (of_same rfl rfl rfl)
theorem modWait (h : O2R s t) (w : Nat) (f : WaitSt → WaitSt) : O2R s (t.modWait w f) := h.trans (of_same rfl rfl rfl)
theorem modTimer (h : O2R s t) (i : Nat) (f : TimerSt → TimerSt) : O2R s (t.modTimer i f) := h.trans (of_same rfl rfl rfl)
theorem setGen (h : O2R s t) (g : Nat) (y : GenRec) : O2R s (t.setGen g y) := h.trans (of_same rfl rfl rfl)
theorem addEv (h : O2R s t) (e : Ev) : O2R s (t.addEv e) := h.trans (of_same rfl rfl rfl)
theorem addGen (h : O2R s t) (g : GenRec) : O2R s (t.addGen g) := h.trans (of_same rfl rfl rfl)
theorem addWait (h : O2R s t) (w : WaitSt) : O2R s (t.addWait w) := h.trans (of_same rfl rfl rfl)
theorem tick1 (h : O2R s t) (d : Int) : O2R s (t.tick1 d) := h.trans (of_same rfl rfl rfl)

/-- a quiet log entry -/
theorem logE (h : O2R s t) (x : Entry) (hq : x.o2quiet = true) : O2R s (t.logE x) := by
  refine h.trans ⟨⟨[], by simp [St.logE]⟩, ⟨[x], rfl, ?_⟩, ?_⟩
  · intro y hy; rw [List.mem_singleton.mp hy]; exact hq
  · intro hs; exact hs

/-- a new handler record with priority ≥ -100 -/
theorem addH (h : O2R s t) (x : Handler) (hp : -100 ≤ x.prio) : O2R s (t.addH x) := by
  refine h.trans ⟨⟨[x], rfl⟩, ⟨[], rfl, fun _ h => absurd h (by simp)⟩, ?_⟩
  intro hs
  have hlen : t.hs.length ≤ (t.hs ++ [x]).length := by rw [List.length_append]; omega
  refine ⟨?_, ?_, ?_, ?_⟩
  · intro hd hm
    rcases List.mem_append.mp hm with h1 | h1
    · exact hs.low hd h1
    · rw [List.mem_singleton.mp h1]; exact hp
  · intro c k y hy; exact Nat.lt_of_lt_of_le (hs.hid c k y hy) hlen
  · intro c y hy; exact Nat.lt_of_lt_of_le (hs.gid c y hy) hlen
  · intro c key l hl; exact (hs.cache c key l hl).append [x]

end O2R

/-- what a `modComp` may do to the component it touches -/
structure O2Upd (t : St) (y y' : Comp) : Prop where
  htab : ∀ p ∈ y'.htab, p ∈ y.htab ∨ p.2 < t.hs.length
  globals : ∀ g ∈ y'.globals, g ∈ y.globals ∨ g < t.hs.length
  cache : ∀ p ∈ y'.cache, p ∈ y.cache ∨ DescIn t p.2

theorem O2Upd.keep {t : St} {y y' : Comp} (h1 : y'.htab = y.htab) (h2 : y'.globals = y.globals)
    (h3 : y'.cache = y.cache) : O2Upd t y y' :=
  ⟨fun _ hp => .inl (h1 ▸ hp), fun _ hg => .inl (h2 ▸ hg), fun _ hp => .inl (h3 ▸ hp)⟩

theorem O2S.modComp {t : St} (h : O2S t) (c : Nat) (f : Comp → Comp) (hf : O2Upd t (t.comp c) (f (t.comp c))) :
    O2S (t.modComp c f) := by
  have hcomp : ∀ x, (t.modComp c f).comp x = t.comp x ∨ ((t.modComp c f).comp x = f (t.comp c) ∧ x = c) := by
    intro x
    rw [St.q2_comp_modComp]
    split
    · rename_i hc; right; rw [hc.1]; exact ⟨rfl, rfl⟩
    · left; rfl
  have hhs : (t.modComp c f).hs = t.hs := rfl
  unfold O2S
  rw [hhs]
  refine ⟨h.low, ?_, ?_, ?_⟩
  · intro x k y hy
    rcases hcomp x with e | ⟨e, rfl⟩
    · rw [e] at hy; exact h.hid x k y hy
    · rw [e] at hy
      rcases hf.htab _ hy with h1 | h1
      · exact h.hid _ k y h1
      · exact h1
  · intro x y hy
    rcases hcomp x with e | ⟨e, rfl⟩
    · rw [e] at hy; exact h.gid x y hy
    · rw [e] at hy
      rcases hf.globals _ hy with h1 | h1
      · exact h.gid _ y h1
      · exact h1
  · intro x key l hl
    rcases hcomp x with e | ⟨e, rfl⟩
    · rw [e] at hl; exact h.cache x key l hl
    · rw [e] at hl
      rcases hf.cache _ hl with h1 | h1
      · exact h.cache _ key l h1
      · exact h1

theorem O2R.modComp {s t : St} (h : O2R s t) (c : Nat) (f : Comp → Comp)
    (hf : O2S t → O2Upd t (t.comp c) (f (t.comp c))) : O2R s (t.modComp c f) :=
  h.trans ⟨⟨[], by simp [St.modComp]⟩, ⟨[], rfl, fun _ h => absurd h (by simp)⟩, fun hs => hs.modComp c f (hf hs)⟩

/-! ## the tactic -/

/-- one step of `o2t`; extended by `macro_rules` (later rules are tried first) -/
syntax "o2t1" : tactic
macro_rules | `(tactic| o2t1) => `(tactic| split)
macro_rules | `(tactic| o2t1) => `(tactic| with_reducible apply O2R.tick1)
macro_rules | `(tactic| o2t1) => `(tactic| with_reducible apply O2R.addWait)
macro_rules | `(tactic| o2t1) => `(tactic| with_reducible apply O2R.addGen)
macro_rules | `(tactic| o2t1) => `(tactic| ((with_reducible apply O2R.addH); case hp => first | exact (by decide : (-100 : Int) ≤ 0) | exact (by decide : (-100 : Int) ≤ -100)))
macro_rules | `(tactic| o2t1) => `(tactic| with_reducible apply O2R.addEv)
macro_rules | `(tactic| o2t1) => `(tactic| ((with_reducible apply O2R.logE); case hq => rfl))
macro_rules | `(tactic| o2t1) => `(tactic| with_reducible apply O2R.setGen)
macro_rules | `(tactic| o2t1) => `(tactic| with_reducible apply O2R.modTimer)
macro_rules | `(tactic| o2t1) => `(tactic| with_reducible apply O2R.modWait)
macro_rules | `(tactic| o2t1) => `(tactic| with_reducible apply O2R.modEv)
macro_rules | `(tactic| o2t1) => `(tactic| ((with_reducible apply O2R.modComp); case hf => exact fun _ => O2Upd.keep rfl rfl rfl))
macro_rules | `(tactic| o2t1) => `(tactic| with_reducible assumption)
macro_rules | `(tactic| o2t1) => `(tactic| with_reducible exact O2R.refl _)

/-- apply `o2t1` as long as it applies (committed choice: no backtracking) -/
macro "o2t" : tactic => `(tactic| repeat' o2t1)

/-- unfold a helper, inline its `let`s, then `o2t` -/
macro "o2t_unfold" ids:ident+ : tactic => `(tactic| (unfold $[$ids]*; (try dsimp only); o2t))

/-! ## helpers of `Pure.lean` that touch handler tables / caches: by hand -/

/-- `addHandler` of a declared record -/
theorem O2R.addHandler {s t : St} (h : O2R s t) (y : Nat) (hy : y < t.hs.length) : O2R s (t.addHandler y) := by
  unfold St.addHandler
  dsimp only
  o2t1
  split
  · refine O2R.modComp h _ _ (fun _ => ⟨fun p hp => .inl hp, ?_, fun p hp => .inl hp⟩)
    intro g hg
    rcases mem_addUniq _ _ _ hg with h1 | h1
    · exact .inl h1
    · exact .inr (h1 ▸ hy)
  · split
    · refine O2R.modComp h _ _ (fun _ => ⟨?_, fun p hp => .inl hp, fun p hp => .inl hp⟩)
      intro p hp
      rcases mem_addUniq _ _ _ hp with h1 | h1
      · exact .inl h1
      · exact .inr (h1 ▸ hy)
    · have key : ∀ (l : List Name) (a : St), O2R s a → a.hs.length = t.hs.length →
          O2R s (l.foldl (fun s n => s.modComp (t.handler y).owner fun x => { x with htab := addUniq x.htab (some n, y) }) a) ∧
          (l.foldl (fun s n => s.modComp (t.handler y).owner fun x => { x with htab := addUniq x.htab (some n, y) }) a).hs.length = t.hs.length := by
        intro l
        induction l with
        | nil => intro a ha hl; exact ⟨ha, hl⟩
        | cons n l ih =>
          intro a ha hl
          refine ih _ ?_ hl
          refine O2R.modComp ha _ _ (fun _ => ⟨?_, fun p hp => .inl hp, fun p hp => .inl hp⟩)
          intro p hp
          rcases mem_addUniq _ _ _ hp with h1 | h1
          · exact .inl h1
          · exact .inr (h1 ▸ (hl ▸ hy))
      exact (key _ t h rfl).1

theorem o2_rmKeys_sub (h : Nat) : ∀ (ks : List HKey) (htab : List (HKey × Nat)) (x : HKey × Nat),
    x ∈ (rmKeys h htab ks).2 → x ∈ htab := rmKeys_sub h

theorem O2R.removeHandler {s t : St} (h : O2R s t) (y : Nat) (n : Option Name) :
    O2R s ((t.removeHandler y n).2) := by
  unfold St.removeHandler
  dsimp only
  o2t1
  refine O2R.modComp ?_ _ _ (fun _ => ⟨fun p hp => .inl (rmKeys_sub _ _ _ _ hp), fun p hp => .inl hp, fun p hp => .inl hp⟩)
  split
  · exact O2R.modComp h _ _ (fun _ => ⟨fun p hp => .inl hp, fun g hg => .inl (List.mem_of_mem_erase hg), fun p hp => .inl hp⟩)
  · exact h
macro_rules | `(tactic| o2t1) => `(tactic| with_reducible apply O2R.removeHandler)

theorem O2R.cacheRefresh {s t : St} (h : O2R s t) (r : Nat) : O2R s (t.cacheRefresh r) := by
  unfold St.cacheRefresh
  split
  · exact O2R.modComp h _ _ (fun _ => ⟨fun p hp => .inl hp, fun p hp => .inl hp, fun p hp => absurd hp (by simp)⟩)
  · exact h
macro_rules | `(tactic| o2t1) => `(tactic| with_reducible apply O2R.cacheRefresh)


/-! ## helpers of `Pure.lean` / `Step.lean`: generated from CoreStep.lean -/

theorem O2R.fireContext {s t : St} (h : O2R s t) (r e : Nat) :
    O2R s (t.fireContext r e) := by
  o2t_unfold St.fireContext
macro_rules | `(tactic| o2t1) => `(tactic| with_reducible apply O2R.fireContext)

theorem O2R.fireRaw {s t : St} (h : O2R s t) (self e : Nat) (chans : List Chan) (prio : Int) :
    O2R s (t.fireRaw self e chans prio) := by
  o2t_unfold St.fireRaw
macro_rules | `(tactic| o2t1) => `(tactic| with_reducible apply O2R.fireRaw)

theorem O2R.childEv {s t : St} (h : O2R s t) (p sfx : Nat) :
    O2R s (t.childEv p sfx) := by
  o2t_unfold St.childEv
macro_rules | `(tactic| o2t1) => `(tactic| with_reducible apply O2R.childEv)

theorem O2R.fireChild {s t : St} (h : O2R s t) (self p sfx : Nat) (chans : List Chan) :
    O2R s (t.fireChild self p sfx chans) := by
  o2t_unfold St.fireChild
macro_rules | `(tactic| o2t1) => `(tactic| with_reducible apply O2R.fireChild)

theorem O2R.inform {s t : St} (h : O2R s t) (e : Nat) (force : Bool) :
    O2R s (t.inform e force) := by
  o2t_unfold St.inform
macro_rules | `(tactic| o2t1) => `(tactic| with_reducible apply O2R.inform)

theorem O2R.setValue {s t : St} (h : O2R s t) (e : Nat) (x : VItem) :
    O2R s (t.setValue e x) := by
  o2t_unfold St.setValue
macro_rules | `(tactic| o2t1) => `(tactic| with_reducible apply O2R.setValue)

theorem O2R.fireTmplEv {s t : St} (h : O2R s t) (self : Nat) (ev : Ev) (target : Option Chan) (prio : Int) :
    O2R s (t.fireTmplEv self ev target prio) := by
  o2t_unfold St.fireTmplEv
macro_rules | `(tactic| o2t1) => `(tactic| with_reducible apply O2R.fireTmplEv)

theorem O2R.effectDone1 {s t : St} (h : O2R s t) (r e : Nat) (announce : Bool) :
    O2R s ((t.effectDone1 r e announce).2) := by
  o2t_unfold St.effectDone1
macro_rules | `(tactic| o2t1) => `(tactic| with_reducible apply O2R.effectDone1)

theorem O2R.eventDonePre {s t : St} (h : O2R s t) (r e : Nat) (err : Bool) :
    O2R s ((t.eventDonePre r e err).2) := by
  o2t_unfold St.eventDonePre
macro_rules | `(tactic| o2t1) => `(tactic| with_reducible apply O2R.eventDonePre)

theorem O2R.registerTask {s t : St} (h : O2R s t) (c : Nat) (x : Task) :
    O2R s (t.registerTask c x) := by
  o2t_unfold St.registerTask
macro_rules | `(tactic| o2t1) => `(tactic| with_reducible apply O2R.registerTask)

theorem O2R.unregisterTask {s t : St} (h : O2R s t) (c : Nat) (x : Task) :
    O2R s (t.unregisterTask c x) := by
  o2t_unfold St.unregisterTask
macro_rules | `(tactic| o2t1) => `(tactic| with_reducible apply O2R.unregisterTask)

theorem O2R.reduceTimeLeft {s t : St} (h : O2R s t) (e : Nat) (d : Int) :
    O2R s (t.reduceTimeLeft e d) := by
  o2t_unfold St.reduceTimeLeft
macro_rules | `(tactic| o2t1) => `(tactic| with_reducible apply O2R.reduceTimeLeft)

theorem O2R.registerPre {s t : St} (h : O2R s t) (c p : Nat) :
    O2R s ((t.registerPre c p).2) := by
  o2t_unfold St.registerPre
macro_rules | `(tactic| o2t1) => `(tactic| with_reducible apply O2R.registerPre)

theorem O2R.registerFin {s t : St} (h : O2R s t) (c : Nat) :
    O2R s (t.registerFin c) := by
  o2t_unfold St.registerFin
macro_rules | `(tactic| o2t1) => `(tactic| with_reducible apply O2R.registerFin)

theorem O2R.unregister {s t : St} (h : O2R s t) (c : Nat) :
    O2R s (t.unregister c) := by
  o2t_unfold St.unregister
macro_rules | `(tactic| o2t1) => `(tactic| with_reducible apply O2R.unregister)

theorem O2R.prepUnregPre {s t : St} (h : O2R s t) (c : Nat) :
    O2R s (t.prepUnregPre c) := by
  o2t_unfold St.prepUnregPre
macro_rules | `(tactic| o2t1) => `(tactic| with_reducible apply O2R.prepUnregPre)

theorem O2R.prepUnregFin {s t : St} (h : O2R s t) (c : Nat) :
    O2R s (t.prepUnregFin c) := by
  o2t_unfold St.prepUnregFin
macro_rules | `(tactic| o2t1) => `(tactic| with_reducible apply O2R.prepUnregFin)

theorem O2R.actFire {s t : St} (h : O2R s t) (self i : Nat) (target : Option Chan) (prio : Int) (cancel : Bool) :
    O2R s (t.actFire self i target prio cancel) := by
  o2t_unfold St.actFire
macro_rules | `(tactic| o2t1) => `(tactic| with_reducible apply O2R.actFire)

theorem O2R.actStopEv {s t : St} (h : O2R s t) (ev : Option Nat) :
    O2R s (t.actStopEv ev) := by
  o2t_unfold St.actStopEv
macro_rules | `(tactic| o2t1) => `(tactic| with_reducible apply O2R.actStopEv)

theorem O2R.timerReset {s t : St} (h : O2R s t) (i : Nat) :
    O2R s (t.timerReset i) := by
  o2t_unfold St.timerReset
macro_rules | `(tactic| o2t1) => `(tactic| with_reducible apply O2R.timerReset)

theorem O2R.timerCreate {s t : St} (h : O2R s t) (i : Nat) :
    O2R s (t.timerCreate i) := by
  o2t_unfold St.timerCreate
macro_rules | `(tactic| o2t1) => `(tactic| with_reducible apply O2R.timerCreate)

theorem O2R.timerTick {s t : St} (h : O2R s t) (i e : Nat) :
    O2R s (t.timerTick i e) := by
  o2t_unfold St.timerTick
macro_rules | `(tactic| o2t1) => `(tactic| with_reducible apply O2R.timerTick)

theorem o2_lt_addH (t : St) (x : Handler) : t.hs.length < (t.addH x).hs.length := by
  simp [St.addH]

theorem O2R.startWait {s t : St} (h : O2R s t) (w : Nat) : O2R s (t.startWait w) := by
  unfold St.startWait
  dsimp only
  apply O2R.modWait
  split
  · refine O2R.addHandler (O2R.addH ?_ _ (by exact (by decide : (-100 : Int) ≤ 0))) _ (o2_lt_addH _ _)
    refine O2R.addHandler (O2R.addH ?_ _ (by exact (by decide : (-100 : Int) ≤ 0))) _ (o2_lt_addH _ _)
    refine O2R.addHandler (O2R.addH ?_ _ (by exact (by decide : (-100 : Int) ≤ 0))) _ (o2_lt_addH _ _)
    o2t
  · refine O2R.addHandler (O2R.addH ?_ _ (by exact (by decide : (-100 : Int) ≤ 0))) _ (o2_lt_addH _ _)
    refine O2R.addHandler (O2R.addH ?_ _ (by exact (by decide : (-100 : Int) ≤ 0))) _ (o2_lt_addH _ _)
    o2t
macro_rules | `(tactic| o2t1) => `(tactic| with_reducible apply O2R.startWait)


/-! ## pure pieces of `Step.lean` -/

theorem O2R.stopBegin {s t : St} (h : O2R s t) (c : Nat) :
    O2R s (t.stopBegin c) := by
  o2t_unfold St.stopBegin
macro_rules | `(tactic| o2t1) => `(tactic| with_reducible apply O2R.stopBegin)

theorem O2R.stopSetCode {s t : St} (h : O2R s t) (r : Nat) (code : Code) :
    O2R s (t.stopSetCode r code) := by
  o2t_unfold St.stopSetCode
macro_rules | `(tactic| o2t1) => `(tactic| with_reducible apply O2R.stopSetCode)

theorem O2R.genCall {s t : St} (h : O2R s t) (owner i : Nat) (target : Option Chan) (timeout : Option Nat) :
    O2R s (t.genCall owner i target timeout) := by
  o2t_unfold St.genCall
macro_rules | `(tactic| o2t1) => `(tactic| with_reducible apply O2R.genCall)

theorem O2R.genWait {s t : St} (h : O2R s t) (owner : Nat) (name : Name) (target : Option Chan) (timeout : Option Nat) :
    O2R s (t.genWait owner name target timeout) := by
  o2t_unfold St.genWait
macro_rules | `(tactic| o2t1) => `(tactic| with_reducible apply O2R.genWait)

theorem O2R.resumeGenPre {s t : St} (h : O2R s t) (g : Nat) (silent : Bool) :
    O2R s (t.resumeGenPre g silent) := by
  o2t_unfold St.resumeGenPre
macro_rules | `(tactic| o2t1) => `(tactic| with_reducible apply O2R.resumeGenPre)

theorem O2R.stopIteration {s t : St} (h : O2R s t) (r : Nat) (x : Task) :
    O2R s ((t.stopIteration r x).2) := by
  o2t_unfold St.stopIteration
macro_rules | `(tactic| o2t1) => `(tactic| with_reducible apply O2R.stopIteration)

theorem O2R.fireException {s t : St} (h : O2R s t) (r e : Nat) :
    O2R s (t.fireException r e) := by
  o2t_unfold St.fireException
macro_rules | `(tactic| o2t1) => `(tactic| with_reducible apply O2R.fireException)

theorem O2R.errorBranch {s t : St} (h : O2R s t) (r : Nat) (x : Task) (resumed : Bool) :
    O2R s ((t.errorBranch r x resumed).2) := by
  o2t_unfold St.errorBranch
macro_rules | `(tactic| o2t1) => `(tactic| with_reducible apply O2R.errorBranch)

theorem O2R.ownSub {s t : St} (h : O2R s t) (r : Nat) (x : Task) (w : Nat) :
    O2R s (t.ownSub r x w) := by
  o2t_unfold St.ownSub
macro_rules | `(tactic| o2t1) => `(tactic| with_reducible apply O2R.ownSub)

theorem O2R.setValueOpt {s t : St} (h : O2R s t) (e : Nat) (v : Option Nat) :
    O2R s (t.setValueOpt e v) := by
  o2t_unfold St.setValueOpt
macro_rules | `(tactic| o2t1) => `(tactic| with_reducible apply O2R.setValueOpt)

theorem O2R.parentSub {s t : St} (h : O2R s t) (r : Nat) (x : Task) (p w2 : Nat) (viaThrow : Bool) :
    O2R s (t.parentSub r x p w2 viaThrow) := by
  o2t_unfold St.parentSub
macro_rules | `(tactic| o2t1) => `(tactic| with_reducible apply O2R.parentSub)

theorem O2R.parentPlain {s t : St} (h : O2R s t) (r : Nat) (x : Task) (p : Nat) (v : Option Nat) (viaThrow : Bool) :
    O2R s (t.parentPlain r x p v viaThrow) := by
  o2t_unfold St.parentPlain
macro_rules | `(tactic| o2t1) => `(tactic| with_reducible apply O2R.parentPlain)

theorem O2R.onWaitEvent {s t : St} (h : O2R s t) (w e : Nat) :
    O2R s ((t.onWaitEvent w e).2) := by
  o2t_unfold St.onWaitEvent
macro_rules | `(tactic| o2t1) => `(tactic| with_reducible apply O2R.onWaitEvent)

theorem O2R.onWaitDone {s t : St} (h : O2R s t) (w e : Nat) :
    O2R s ((t.onWaitDone w e).2) := by
  o2t_unfold St.onWaitDone
macro_rules | `(tactic| o2t1) => `(tactic| with_reducible apply O2R.onWaitDone)

theorem O2R.onWaitTick {s t : St} (h : O2R s t) (w : Nat) :
    O2R s ((t.onWaitTick w).2) := by
  o2t_unfold St.onWaitTick
macro_rules | `(tactic| o2t1) => `(tactic| with_reducible apply O2R.onWaitTick)

theorem O2R.onFallbackGE {s t : St} (h : O2R s t) (e : Nat) :
    O2R s ((t.onFallbackGE e).2) := by
  o2t_unfold St.onFallbackGE
macro_rules | `(tactic| o2t1) => `(tactic| with_reducible apply O2R.onFallbackGE)

theorem O2R.dispComplete {s t : St} (h : O2R s t) (e : Nat) (ev : Ev) :
    O2R s (t.dispComplete e ev) := by
  o2t_unfold St.dispComplete
macro_rules | `(tactic| o2t1) => `(tactic| with_reducible apply O2R.dispComplete)

theorem O2R.dispGE {s t : St} (h : O2R s t) (r e remaining : Nat) (name : Name) :
    O2R s (t.dispGE r e remaining name) := by
  o2t_unfold St.dispGE
macro_rules | `(tactic| o2t1) => `(tactic| with_reducible apply O2R.dispGE)

theorem O2R.handlerRaised {s t : St} (h : O2R s t) (r e : Nat) :
    O2R s (t.handlerRaised r e) := by
  o2t_unfold St.handlerRaised
macro_rules | `(tactic| o2t1) => `(tactic| with_reducible apply O2R.handlerRaised)

theorem O2R.applyValue {s t : St} (h : O2R s t) (r e : Nat) (value : Outcome) :
    O2R s (t.applyValue r e value) := by
  o2t_unfold St.applyValue
macro_rules | `(tactic| o2t1) => `(tactic| with_reducible apply O2R.applyValue)

theorem O2R.geTasksCheck {s t : St} (h : O2R s t) (r e : Nat) :
    O2R s (t.geTasksCheck r e) := by
  o2t_unfold St.geTasksCheck
macro_rules | `(tactic| o2t1) => `(tactic| with_reducible apply O2R.geTasksCheck)

theorem O2R.flushBegin {s t : St} (h : O2R s t) (r : Nat) :
    O2R s (t.flushBegin r) := by
  o2t_unfold St.flushBegin
macro_rules | `(tactic| o2t1) => `(tactic| with_reducible apply O2R.flushBegin)

theorem O2R.tickGenerate {s t : St} (h : O2R s t) (c : Nat) :
    O2R s (t.tickGenerate c) := by
  o2t_unfold St.tickGenerate
macro_rules | `(tactic| o2t1) => `(tactic| with_reducible apply O2R.tickGenerate)

theorem O2R.runBegin {s t : St} (h : O2R s t) (c : Nat) :
    O2R s (t.runBegin c) := by
  o2t_unfold St.runBegin
macro_rules | `(tactic| o2t1) => `(tactic| with_reducible apply O2R.runBegin)

theorem O2R.runEnd {s t : St} (h : O2R s t) (c : Nat) :
    O2R s ((t.runEnd c).2) := by
  o2t_unfold St.runEnd
macro_rules | `(tactic| o2t1) => `(tactic| with_reducible apply O2R.runEnd)


/-! ## `startWait`, `computeHandlers`, `lookupHandlers`, `actStep`: by hand -/

/-- collected handlers are installed somewhere: declared records -/
theorem o2_sorted_lt {t : St} (h : O2S t) (r : Nat) (name : Name) (chans : List Chan) :
    ∀ x ∈ t.q2sorted r name chans, x < t.hs.length := by
  intro x hx
  unfold St.q2sorted at hx
  rw [List.mem_mergeSort, List.mem_flatMap] at hx
  obtain ⟨ch, _, hc⟩ := hx
  obtain ⟨d, _, hm⟩ := (mem_collect t name ch x t.comps.length r).mp hc
  rcases hm with ⟨hi, _⟩ | hg
  · rcases hi with h1 | h1
    · exact h.hid d _ x h1
    · exact h.hid d _ x h1
  · exact h.gid d x hg

theorem o2_prio_low {t : St} (h : O2S t) {x : Nat} (hx : x < t.hs.length) : t.q2prio x ≥ -100 := by
  unfold St.q2prio
  rw [List.getD_eq_getElem?_getD, List.getElem?_eq_getElem hx]
  exact h.low _ (List.getElem_mem hx)

/-- **the list `_dispatcher` builds on a cache miss is descending and declared** - for every
    state satisfying the invariant -/
theorem o2_computeHandlers_desc {t : St} (h : O2S t) (r : Nat) (name : Name) (chans : List Chan) :
    DescIn (t.computeHandlers r name chans).2 (t.computeHandlers r name chans).1 := by
  have hin := o2_sorted_lt h r name chans
  refine ⟨q2_computeHandlers_desc t r name chans hin (fun _ x hx => o2_prio_low h (hin x hx)), ?_⟩
  rcases q2_computeHandlers t r name chans with ⟨h1, h2, _, _⟩ | ⟨h1, hd, h2, _⟩
  · rw [h1, h2]; exact hin
  · rw [h1, h2]
    intro x hx
    rw [List.length_append]
    rcases List.mem_append.mp hx with h3 | h3
    · have := hin x h3; omega
    · rw [List.mem_singleton.mp h3]; simp

theorem o2_computeHandlers_self (t : St) (r : Nat) (name : Name) (chans : List Chan) :
    O2R t (t.computeHandlers r name chans).2 := by
  refine ⟨?_, ⟨[], ?_, fun _ h => absurd h (by simp)⟩, ?_⟩
  · rcases q2_computeHandlers t r name chans with ⟨_, h2, _, _⟩ | ⟨_, hd, h2, _⟩
    · exact ⟨[], by rw [h2]; simp⟩
    · exact ⟨[hd], h2⟩
  · rw [St.computeHandlers_eq]
    unfold St.fbRes
    split
    · rfl
    · split <;> rfl
  · intro hs
    have hd := o2_computeHandlers_desc hs r name chans
    rw [St.computeHandlers_eq] at hd ⊢
    have hfb : O2S (t.fbRes r name chans).2 := by
      have : O2R t (t.fbRes r name chans).2 := by
        unfold St.fbRes
        o2t
      exact this.inv hs
    refine hfb.modComp _ _ ⟨fun p hp => .inl hp, fun p hp => .inl hp, ?_⟩
    intro p hp
    rcases List.mem_cons.mp hp with h1 | h1
    · right; rw [h1]; exact hd
    · exact .inl h1

theorem O2R.computeHandlers {s t : St} (h : O2R s t) (r : Nat) (name : Name) (chans : List Chan) :
    O2R s (t.computeHandlers r name chans).2 := h.trans (o2_computeHandlers_self t r name chans)
macro_rules | `(tactic| o2t1) => `(tactic| with_reducible apply O2R.computeHandlers)

theorem O2R.lookupHandlers {s t : St} (h : O2R s t) (r : Nat) (name : Name) (chans : List Chan) :
    O2R s ((t.lookupHandlers r name chans).2) := by
  o2t_unfold St.lookupHandlers
macro_rules | `(tactic| o2t1) => `(tactic| with_reducible apply O2R.lookupHandlers)

theorem o2_lookup_mem {α β} [BEq α] : ∀ (l : List (α × β)) (k : α) (v : β), l.lookup k = some v → ∃ k', (k', v) ∈ l
  | [], _, _, h => by simp [List.lookup] at h
  | (a, b) :: l, k, v, h => by
    unfold List.lookup at h
    split at h
    · cases h; exact ⟨a, List.mem_cons_self⟩
    · obtain ⟨k', hk⟩ := o2_lookup_mem l k v h
      exact ⟨k', List.mem_cons_of_mem _ hk⟩

/-- **the list the dispatcher uses (cache hit or miss) is descending and declared** -/
theorem o2_lookupHandlers_desc {t : St} (h : O2S t) (r : Nat) (name : Name) (chans : List Chan) :
    DescIn (t.lookupHandlers r name chans).2 (t.lookupHandlers r name chans).1 := by
  unfold St.lookupHandlers
  split
  · rename_i l hl
    obtain ⟨k', hk⟩ := o2_lookup_mem _ _ _ hl
    exact h.cache r k' l hk
  · exact o2_computeHandlers_desc h r name chans

theorem o2_lt_of_code0 (t : St) (x : Nat) (h : ((t.handler x).kind.code == 0) = true) : x < t.hs.length := by
  refine Nat.lt_of_not_le (fun hge => ?_)
  have : t.handler x = dfltHandler := by
    unfold St.handler
    rw [List.getD_eq_getElem?_getD, List.getElem?_eq_none hge]; rfl
  rw [this] at h
  exact absurd h (by decide)

theorem O2R.actStep {s t : St} (h : O2R s t) (ctx : HCtx) (a : Act) : O2R s (actStep t ctx a).st := by
  cases a
  case addH x =>
    unfold CV.Core.actStep; dsimp only
    split
    · rename_i hc
      exact O2R.addHandler h x (o2_lt_of_code0 t x hc)
    · exact h
  all_goals (unfold CV.Core.actStep; (try dsimp only); o2t)
macro_rules | `(tactic| o2t1) => `(tactic| with_reducible apply O2R.actStep)

/-! ## the arms of `step` -/

/-- the event a loop frame / handler call belongs to -/
def Frame.o2ev : Frame → Option Nat
  | .hLoop _ e _ _ _ => some e
  | .hAfter _ e _ _ _ => some e
  | .hApply _ e _ _ _ => some e
  | .invoke _ _ e => some e
  | _ => none

/-- no frame of the list belongs to a handler loop -/
def o2plain (fs : List Frame) : Bool := fs.all (fun g => g.o2ev.isNone)

/-- result of an order-neutral arm: state related by `O2R`, only plain frames pushed -/
structure O2G (k : List Frame) (s : St) (c' : Cfg) : Prop where
  rel : O2R s c'.st
  push : ∃ fs, c'.stack = fs ++ k ∧ o2plain fs = true

theorem O2G.pop (c : Cfg) (k : List Frame) {s0 s : St} (h : O2R s0 s) : O2G k s0 (c.pop k s) := ⟨h, [], rfl, rfl⟩
theorem O2G.popRet (c : Cfg) (k : List Frame) {s0 s : St} (v : Ret) (h : O2R s0 s) : O2G k s0 (c.popRet k s v) :=
  ⟨h, [], rfl, rfl⟩
theorem O2G.raise (c : Cfg) (k : List Frame) {s0 s : St} (ex : Exn) (h : O2R s0 s) : O2G k s0 (c.raise k s ex) :=
  ⟨h, [], rfl, rfl⟩
theorem O2G.goto (c : Cfg) (k : List Frame) {s0 s : St} (fs : List Frame) (h : O2R s0 s) (hfs : o2plain fs = true) :
    O2G k s0 (c.goto k s fs) := ⟨h, fs, rfl, hfs⟩

macro_rules | `(tactic| o2t1) => `(tactic| with_reducible refine O2G.pop _ _ ?_)
macro_rules | `(tactic| o2t1) => `(tactic| with_reducible refine O2G.popRet _ _ _ ?_)
macro_rules | `(tactic| o2t1) => `(tactic| with_reducible refine O2G.raise _ _ _ ?_)
macro_rules | `(tactic| o2t1) => `(tactic| ((with_reducible refine O2G.goto _ _ _ ?_ ?_); rotate_left; rfl))

theorem O2R.updateRootAll (s : St) : ∀ (fuel : Nat) (todo : List Nat) (root : Nat) (t : St),
    O2R s t → O2R s (St.updateRootAll fuel todo root t) := by
  intro fuel
  induction fuel with
  | zero => intro todo root t h; simpa [St.updateRootAll] using h
  | succ n ih =>
    intro todo root t h
    cases todo with
    | nil => simpa [St.updateRootAll] using h
    | cons x rest =>
      simp only [St.updateRootAll]
      apply ih
      o2t
macro_rules | `(tactic| o2t1) => `(tactic| with_reducible apply O2R.updateRootAll)

theorem Cfg.updateRoot_o2 (c : Cfg) (k : List Frame) (todo : List Nat) (root : Nat) :
    O2G k c.st (c.updateRoot k todo root) := by
  unfold Cfg.updateRoot; (try dsimp only); o2t
macro_rules | `(tactic| o2t1) => `(tactic| with_reducible exact Cfg.updateRoot_o2 ..)

theorem Cfg.effectDone_o2 (c : Cfg) (k : List Frame) (r e : Nat) (announce : Bool) :
    O2G k c.st (c.effectDone k r e announce) := by
  unfold Cfg.effectDone; (try dsimp only); o2t
macro_rules | `(tactic| o2t1) => `(tactic| with_reducible exact Cfg.effectDone_o2 ..)

theorem Cfg.eventDone_o2 (c : Cfg) (k : List Frame) (r e : Nat) (err : Bool) :
    O2G k c.st (c.eventDone k r e err) := by
  unfold Cfg.eventDone; (try dsimp only); o2t
macro_rules | `(tactic| o2t1) => `(tactic| with_reducible exact Cfg.eventDone_o2 ..)

theorem Cfg.register_o2 (c : Cfg) (k : List Frame) (x p : Nat) :
    O2G k c.st (c.register k x p) := by
  unfold Cfg.register; (try dsimp only); o2t
macro_rules | `(tactic| o2t1) => `(tactic| with_reducible exact Cfg.register_o2 ..)

theorem Cfg.registerFin_o2 (c : Cfg) (k : List Frame) (x : Nat) :
    O2G k c.st (c.registerFin k x) := by
  unfold Cfg.registerFin; (try dsimp only); o2t
macro_rules | `(tactic| o2t1) => `(tactic| with_reducible exact Cfg.registerFin_o2 ..)

theorem Cfg.prepUnregFin_o2 (c : Cfg) (k : List Frame) (x : Nat) :
    O2G k c.st (c.prepUnregFin k x) := by
  unfold Cfg.prepUnregFin; (try dsimp only); o2t
macro_rules | `(tactic| o2t1) => `(tactic| with_reducible exact Cfg.prepUnregFin_o2 ..)

theorem Cfg.stopMgr_o2 (c : Cfg) (k : List Frame) (x : Nat) (code : Code) :
    O2G k c.st (c.stopMgr k x code) := by
  unfold Cfg.stopMgr; (try dsimp only); o2t
macro_rules | `(tactic| o2t1) => `(tactic| with_reducible exact Cfg.stopMgr_o2 ..)

theorem Cfg.ticks_o2 (c : Cfg) (k : List Frame) (x n : Nat) :
    O2G k c.st (c.ticks k x n) := by
  unfold Cfg.ticks; (try dsimp only); o2t
macro_rules | `(tactic| o2t1) => `(tactic| with_reducible exact Cfg.ticks_o2 ..)

theorem Cfg.stopFin_o2 (c : Cfg) (k : List Frame) (code : Code) :
    O2G k c.st (c.stopFin k code) := by
  unfold Cfg.stopFin; (try dsimp only); o2t
macro_rules | `(tactic| o2t1) => `(tactic| with_reducible exact Cfg.stopFin_o2 ..)

theorem Cfg.timerNew_o2 (c : Cfg) (k : List Frame) (i : Nat) :
    O2G k c.st (c.timerNew k i) := by
  unfold Cfg.timerNew; (try dsimp only); o2t
macro_rules | `(tactic| o2t1) => `(tactic| with_reducible exact Cfg.timerNew_o2 ..)

theorem Cfg.doFin_o2 (c : Cfg) (k : List Frame) (x : Nat) :
    O2G k c.st (c.doFin k x) := by
  unfold Cfg.doFin; (try dsimp only); o2t
macro_rules | `(tactic| o2t1) => `(tactic| with_reducible exact Cfg.doFin_o2 ..)

theorem Cfg.drainQ_o2 (c : Cfg) (k : List Frame) (x : Nat) :
    O2G k c.st (c.drainQ k x) := by
  unfold Cfg.drainQ; (try dsimp only); o2t
macro_rules | `(tactic| o2t1) => `(tactic| with_reducible exact Cfg.drainQ_o2 ..)

theorem Cfg.processTask_o2 (c : Cfg) (k : List Frame) (r : Nat) (x : Task) :
    O2G k c.st (c.processTask k r x) := by
  unfold Cfg.processTask; (try dsimp only); o2t
macro_rules | `(tactic| o2t1) => `(tactic| with_reducible exact Cfg.processTask_o2 ..)

theorem Cfg.contStop_o2 {s0 : St} (c : Cfg) (k : List Frame) (s : St) (r : Nat) (x : Task) (hle : O2R s0 s) :
    O2G k s0 (c.contStop k s r x) := by
  unfold Cfg.contStop; (try dsimp only); o2t
macro_rules | `(tactic| o2t1) => `(tactic| with_reducible apply Cfg.contStop_o2)

theorem Cfg.contError_o2 {s0 : St} (c : Cfg) (k : List Frame) (s : St) (r : Nat) (x : Task) (resumed : Bool) (hle : O2R s0 s) :
    O2G k s0 (c.contError k s r x resumed) := by
  unfold Cfg.contError; (try dsimp only); o2t
macro_rules | `(tactic| o2t1) => `(tactic| with_reducible apply Cfg.contError_o2)

theorem Cfg.ptBodyWait_o2 (c : Cfg) (k : List Frame) (r : Nat) (x : Task) (w : Nat) :
    O2G k c.st (c.ptBodyWait k r x w) := by
  unfold Cfg.ptBodyWait; (try dsimp only); o2t
macro_rules | `(tactic| o2t1) => `(tactic| with_reducible exact Cfg.ptBodyWait_o2 ..)

theorem Cfg.ptBodyExc_o2 (c : Cfg) (k : List Frame) (r : Nat) (x : Task) (w : Nat) (fired : Bool) :
    O2G k c.st (c.ptBodyExc k r x w fired) := by
  unfold Cfg.ptBodyExc; (try dsimp only); o2t
macro_rules | `(tactic| o2t1) => `(tactic| with_reducible exact Cfg.ptBodyExc_o2 ..)

theorem Cfg.ptBody_o2 (c : Cfg) (k : List Frame) (r : Nat) (x : Task) :
    O2G k c.st (c.ptBody k r x) := by
  unfold Cfg.ptBody; (try dsimp only); o2t
macro_rules | `(tactic| o2t1) => `(tactic| with_reducible exact Cfg.ptBody_o2 ..)

theorem Cfg.ptOwn_o2 (c : Cfg) (k : List Frame) (r : Nat) (x : Task) :
    O2G k c.st (c.ptOwn k r x) := by
  unfold Cfg.ptOwn; (try dsimp only); o2t
macro_rules | `(tactic| o2t1) => `(tactic| with_reducible exact Cfg.ptOwn_o2 ..)

theorem Cfg.ptParent_o2 (c : Cfg) (k : List Frame) (r : Nat) (x : Task) (p : Nat) (viaThrow : Bool) :
    O2G k c.st (c.ptParent k r x p viaThrow) := by
  unfold Cfg.ptParent; (try dsimp only); o2t
macro_rules | `(tactic| o2t1) => `(tactic| with_reducible exact Cfg.ptParent_o2 ..)

theorem Cfg.ptFin_o2 (c : Cfg) (k : List Frame) (r : Nat) (handling : Option Nat) :
    O2G k c.st (c.ptFin k r handling) := by
  unfold Cfg.ptFin; (try dsimp only); o2t
macro_rules | `(tactic| o2t1) => `(tactic| with_reducible exact Cfg.ptFin_o2 ..)

theorem Cfg.invokeFin_o2 (c : Cfg) (k : List Frame) (e h : Nat) :
    O2G k c.st (c.invokeFin k e h) := by
  unfold Cfg.invokeFin; (try dsimp only); o2t
macro_rules | `(tactic| o2t1) => `(tactic| with_reducible exact Cfg.invokeFin_o2 ..)

theorem Cfg.dispFin_o2 (c : Cfg) (k : List Frame) (r e : Nat) (err : Bool) :
    O2G k c.st (c.dispFin k r e err) := by
  unfold Cfg.dispFin; (try dsimp only); o2t
macro_rules | `(tactic| o2t1) => `(tactic| with_reducible exact Cfg.dispFin_o2 ..)

theorem Cfg.dispatchLoop_o2 (c : Cfg) (k : List Frame) (r : Nat) :
    O2G k c.st (c.dispatchLoop k r) := by
  unfold Cfg.dispatchLoop; (try dsimp only); o2t
macro_rules | `(tactic| o2t1) => `(tactic| with_reducible exact Cfg.dispatchLoop_o2 ..)

theorem Cfg.flush_o2 (c : Cfg) (k : List Frame) (x : Nat) :
    O2G k c.st (c.flush k x) := by
  unfold Cfg.flush; (try dsimp only); o2t
macro_rules | `(tactic| o2t1) => `(tactic| with_reducible exact Cfg.flush_o2 ..)

theorem Cfg.flushFin_o2 (c : Cfg) (k : List Frame) (r : Nat) (old : Bool) :
    O2G k c.st (c.flushFin k r old) := by
  unfold Cfg.flushFin; (try dsimp only); o2t
macro_rules | `(tactic| o2t1) => `(tactic| with_reducible exact Cfg.flushFin_o2 ..)

theorem Cfg.tick_o2 (c : Cfg) (k : List Frame) (x : Nat) :
    O2G k c.st (c.tick k x) := by
  unfold Cfg.tick; (try dsimp only); o2t
macro_rules | `(tactic| o2t1) => `(tactic| with_reducible exact Cfg.tick_o2 ..)

theorem Cfg.taskLoop_o2 (c : Cfg) (k : List Frame) (x : Nat) (ts : List Task) :
    O2G k c.st (c.taskLoop k x ts) := by
  unfold Cfg.taskLoop; (try dsimp only); o2t
macro_rules | `(tactic| o2t1) => `(tactic| with_reducible exact Cfg.taskLoop_o2 ..)

theorem Cfg.tickFin_o2 (c : Cfg) (k : List Frame) (x : Nat) (old : Bool) :
    O2G k c.st (c.tickFin k x old) := by
  unfold Cfg.tickFin; (try dsimp only); o2t
macro_rules | `(tactic| o2t1) => `(tactic| with_reducible exact Cfg.tickFin_o2 ..)

theorem Cfg.tickGen_o2 (c : Cfg) (k : List Frame) (x : Nat) :
    O2G k c.st (c.tickGen k x) := by
  unfold Cfg.tickGen; (try dsimp only); o2t
macro_rules | `(tactic| o2t1) => `(tactic| with_reducible exact Cfg.tickGen_o2 ..)

theorem Cfg.run_o2 (c : Cfg) (k : List Frame) (x : Nat) :
    O2G k c.st (c.run k x) := by
  unfold Cfg.run; (try dsimp only); o2t
macro_rules | `(tactic| o2t1) => `(tactic| with_reducible exact Cfg.run_o2 ..)

theorem Cfg.runLoop_o2 (c : Cfg) (k : List Frame) (x : Nat) :
    O2G k c.st (c.runLoop k x) := by
  unfold Cfg.runLoop; (try dsimp only); o2t
macro_rules | `(tactic| o2t1) => `(tactic| with_reducible exact Cfg.runLoop_o2 ..)

theorem Cfg.runFin_o2 (c : Cfg) (k : List Frame) (x : Nat) :
    O2G k c.st (c.runFin k x) := by
  unfold Cfg.runFin; (try dsimp only); o2t
macro_rules | `(tactic| o2t1) => `(tactic| with_reducible exact Cfg.runFin_o2 ..)

theorem Cfg.runRethrow_o2 (c : Cfg) (k : List Frame) (ex : Exn) :
    O2G k c.st (c.runRethrow k ex) := by
  unfold Cfg.runRethrow; (try dsimp only); o2t
macro_rules | `(tactic| o2t1) => `(tactic| with_reducible exact Cfg.runRethrow_o2 ..)


theorem o2_actStep_call (s : St) (ctx : HCtx) (a : Act) (f : Frame) (h : (actStep s ctx a).kind = .call f) :
    f.o2ev = none := by
  cases a <;> simp [actStep] at h
  all_goals first | (subst h; rfl) | (split at h <;> cases h)

theorem Cfg.acts_o2 (c : Cfg) (k : List Frame) (ctx : HCtx) (prog : Prog) :
    O2G k c.st (c.acts k ctx prog) := by
  unfold Cfg.acts
  split
  · o2t
  · rename_i a rest
    have hA : O2R c.st (actStep c.st ctx a).st := by o2t
    split
    · exact O2G.goto _ _ _ hA rfl
    · exact O2G.popRet _ _ _ hA
    · rename_i f hf
      refine O2G.goto _ _ _ hA ?_
      have := o2_actStep_call _ _ _ _ hf
      simp only [o2plain, List.all_cons, List.all_nil, this]
      rfl

theorem Cfg.stepGen_o2 (c : Cfg) (k : List Frame) (g : Nat) :
    O2G k c.st (c.stepGen k g) := by
  unfold Cfg.stepGen
  dsimp only
  split
  · split
    · o2t
    · split
      · o2t
      · o2t
      · o2t
      · o2t
      · o2t
        rename_i f hf
        refine O2G.goto _ _ _ ?_ ?_
        · o2t
        · have := o2_actStep_call _ _ _ _ hf
          simp only [o2plain, List.all_cons, List.all_nil, this]
          rfl
  · o2t

theorem Cfg.runCatchExn_o2 (c : Cfg) (k : List Frame) (x : Nat) (ex : Exn) :
    O2G k c.st (c.runCatchExn k x ex) := by
  unfold Cfg.runCatchExn
  split
  · exact ⟨O2R.refl _, [.tick x, .drainQ x, .runRethrow _], rfl, rfl⟩
  · o2t

macro_rules | `(tactic| o2t1) => `(tactic| with_reducible exact Cfg.acts_o2 ..)
macro_rules | `(tactic| o2t1) => `(tactic| with_reducible exact Cfg.stepGen_o2 ..)
macro_rules | `(tactic| o2t1) => `(tactic| with_reducible exact Cfg.runCatchExn_o2 ..)

end CV.Core

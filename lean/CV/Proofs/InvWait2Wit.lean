import CV.Proofs.InvWait2Stale
/-
C06, second round, part 3: the former counter-example run, as a regression.

BEFORE the fix "stale waitEvent closures do nothing once the outcome is decided" this run of the model made the caller
of `yield call(bar(), timeout=0)` get the result AND, later, `TimeoutError` (theorem `no_timeout_after_resume_witness`
of the second round, which held up to that fix commit):

  one root component that is `running` but not `executing` (a manager driven by hand with `tick()`), handlers
  `foo` = generator `x = yield call(bar(), timeout=0); yield; yield; yield`, `bar` = `return 7`, and a handler of
  `generate_events` with priority 10 that calls `stop()`.  `stop()` outside the executing thread runs three inline
  ticks: they dispatch `bar_done` (`_on_done` sets the flag, registers the resumption task and removes the tick
  handler) and run the task loop (the caller is resumed with 7) while the enclosing `_dispatcher` of the
  `generate_events` event still holds `[stop-handler, _on_tick, fallback]`.  Back in that loop the STALE `_on_tick`
  found the countdown at 0, registered the TimeoutError task, and the next tick threw it into the caller.
  (Real code: a `generate_events` handler that calls `self.tick()`; harness/c06.py `stale_tick_cases`.)

NOW the same run (evaluated by the kernel) still reaches the stale invocation with the countdown at 0 - but `flag` is
set, `_on_tick` returns at once, and the run ends with exactly one outcome: one `.resumed` entry, no `.timeout` entry,
no `TimeoutError` carrier.

`List.mergeSort` (well-founded recursion) does not reduce in the kernel, so the run is evaluated with `step2`,
which is `step` with `computeHandlers` skipping the sort when the collected list is already sorted
(`w6b_step2_eq : step2 = step`).
-/
namespace CV.Core

/-! ## an evaluator the kernel can run -/

def w6b_leP (s : St) (a b : Nat) : Bool := (s.hs.getD a dfltHandler).prio ≥ (s.hs.getD b dfltHandler).prio

def w6b_sortedDesc (s : St) : List Nat → Bool
  | [] => true
  | a :: l => l.all (fun b => w6b_leP s a b) && w6b_sortedDesc s l

theorem w6b_sortedDesc_pairwise (s : St) : ∀ l, w6b_sortedDesc s l = true → l.Pairwise (fun a b => w6b_leP s a b = true)
  | [], _ => List.Pairwise.nil
  | a :: l, h => by
    simp only [w6b_sortedDesc, Bool.and_eq_true, List.all_eq_true] at h
    exact List.Pairwise.cons h.1 (w6b_sortedDesc_pairwise s l h.2)

def St.computeHandlers2 (s : St) (r : Nat) (name : Name) (chans : List Chan) : List Nat × St :=
  let all := chans.flatMap (fun ch => collect s (s.comps.length + 1) r name ch)
  let sorted := if w6b_sortedDesc s all then all else all.mergeSort (fun a b => w6b_leP s a b)
  let res : List Nat × St :=
    if name == Name.generateEvents then
      (sorted ++ [s.hs.length],
       s.addH { owner := r, names := [Name.generateEvents], chan := none, prio := -100, kind := .fallbackGE })
    else if name == Name.exception && sorted.isEmpty then
      (sorted ++ [s.hs.length],
       s.addH { owner := r, names := [Name.exception], chan := some .star, kind := .fallbackExc })
    else (sorted, s)
  (res.1, res.2.modComp r fun x => { x with cache := ((name, chans), res.1) :: x.cache })

theorem St.computeHandlers2_eq (s : St) (r : Nat) (name : Name) (chans : List Chan) :
    s.computeHandlers2 r name chans = s.computeHandlers r name chans := by
  unfold St.computeHandlers2 St.computeHandlers
  have : (if w6b_sortedDesc s (chans.flatMap (fun ch => collect s (s.comps.length + 1) r name ch)) then
            chans.flatMap (fun ch => collect s (s.comps.length + 1) r name ch)
          else (chans.flatMap (fun ch => collect s (s.comps.length + 1) r name ch)).mergeSort (fun a b => w6b_leP s a b)) =
      (chans.flatMap (fun ch => collect s (s.comps.length + 1) r name ch)).mergeSort (fun a b => w6b_leP s a b) := by
    split
    · rename_i h
      exact (List.mergeSort_of_pairwise (w6b_sortedDesc_pairwise s _ h)).symm
    · rfl
  dsimp only
  rw [this]
  rfl

def St.lookupHandlers2 (s : St) (r : Nat) (name : Name) (chans : List Chan) : List Nat × St :=
  match (s.comp r).cache.lookup (name, chans) with
  | some hs => (hs, s)
  | none => s.computeHandlers2 r name chans

theorem St.lookupHandlers2_eq (s : St) (r : Nat) (name : Name) (chans : List Chan) :
    s.lookupHandlers2 r name chans = s.lookupHandlers r name chans := by
  unfold St.lookupHandlers2 St.lookupHandlers
  simp only [St.computeHandlers2_eq]
  generalize List.lookup (name, chans) (s.comp r).cache = o
  cases o <;> rfl

def St.dispatchPre2 (s : St) (r e remaining : Nat) : Option (List Nat) × St :=
  let s0 := s.logE (.disp e)
  let ev := s0.ev e
  if ev.cancelled then (none, s0.modEv e fun x => { x with selfDone := true })
  else
    let s1 := (s0.dispComplete e ev).cacheRefresh r
    let res := s1.lookupHandlers2 r ev.name ev.chans
    let s2 := res.2.modComp r fun x => { x with currently := some e }
    (some res.1, s2.dispGE r e remaining ev.name)

theorem St.dispatchPre2_eq (s : St) (r e remaining : Nat) : s.dispatchPre2 r e remaining = s.dispatchPre r e remaining := by
  unfold St.dispatchPre2 St.dispatchPre
  simp only [St.lookupHandlers2_eq]

def Cfg.dispatcher2 (c : Cfg) (k : List Frame) (r e remaining : Nat) : Cfg :=
  match (c.st.dispatchPre2 r e remaining).1 with
  | none => c.goto k (c.st.dispatchPre2 r e remaining).2 [.effectDone r e false]
  | some hs => c.goto k (c.st.dispatchPre2 r e remaining).2 [.hLoop r e hs false .none]

theorem Cfg.dispatcher2_eq (c : Cfg) (k : List Frame) (r e remaining : Nat) :
    c.dispatcher2 k r e remaining = c.dispatcher k r e remaining := by
  unfold Cfg.dispatcher2 Cfg.dispatcher
  rw [St.dispatchPre2_eq]
  generalize (c.st.dispatchPre r e remaining).1 = o
  cases o <;> rfl

def stepFrame2 (c : Cfg) (k : List Frame) : Frame → Cfg
  | .dispatcher r e remaining => c.dispatcher2 k r e remaining
  | f => stepFrame c k f

theorem stepFrame2_eq (c : Cfg) (k : List Frame) (f : Frame) : stepFrame2 c k f = stepFrame c k f := by
  cases f <;> first | rfl | exact Cfg.dispatcher2_eq ..

def step2 (c : Cfg) : Cfg :=
  match c.stack with
  | [] => c
  | f :: k =>
    match c.exn with
    | some ex => unwind c k ex f
    | none => stepFrame2 c k f

theorem w6b_step2_eq : step2 = step := by
  have h : stepFrame2 = stepFrame := by funext c k f; exact stepFrame2_eq c k f
  funext c
  unfold step2 step
  rw [h]
  generalize c.stack = stk
  cases stk with
  | nil => rfl
  | cons f k =>
    dsimp only
    generalize c.exn = ox
    cases ox <;> rfl

def runN2 : Nat → Cfg → Cfg
  | 0, c => c
  | n + 1, c => if done c then c else runN2 n (step2 c)

theorem w6b_runN2_eq : runN2 = runN := by
  funext n
  induction n with
  | zero => rfl
  | succ n ih =>
    funext c
    unfold runN2 runN
    rw [ih, w6b_step2_eq]

/-! ## the run -/

def w6b_nFoo : Name := ⟨1, []⟩
def w6b_nBar : Name := ⟨2, []⟩

def w6b_s0 : St :=
  { comps := [{ parent := 0, root := 0, running := true,
                htab := [(some w6b_nFoo, 0), (some w6b_nBar, 1), (some Name.generateEvents, 2)] }],
    hs := [{ owner := 0, names := [w6b_nFoo], chan := none, prio := 0, kind := .user 0 },
           { owner := 0, names := [w6b_nBar], chan := none, prio := 0, kind := .user 1 },
           { owner := 0, names := [Name.generateEvents], chan := none, prio := 10, kind := .user 2 }],
    progs := [[.call 1 none (some 0) false, .yld none, .yld none, .yld none], [.ret 7], [.stopMgr 0 none]],
    tmpls := [{ name := w6b_nFoo }, { name := w6b_nBar }] }

theorem w6b_s0_init : W6InitWait w6b_s0 := by
  refine ⟨rfl, rfl, ?_, ?_, ?_, ?_, ?_⟩
  · intro h hh
    have : h = 0 ∨ h = 1 ∨ h = 2 := by simp [w6b_s0] at hh; omega
    rcases this with h | h | h <;> subst h <;> rfl
  · intro c k h hm
    rcases c with _ | c
    · simp [w6b_s0, St.comp] at hm
      rcases hm with hm | hm | hm <;> (rw [hm.2]; simp [w6b_s0])
    · simp [w6b_s0, St.comp, dfltComp] at hm
  · intro c
    rcases c with _ | c
    · simp [w6b_s0, St.comp, w6b_nFoo, w6b_nBar, Name.generateEvents]
    · simp [w6b_s0, St.comp, dfltComp]
  · intro c
    rcases c with _ | c <;> simp [w6b_s0, St.comp, dfltComp]
  · intro p hp a ha
    cases a <;> first | trivial | skip
    simp [w6b_s0] at hp
    rcases hp with hp | hp | hp <;> subst hp <;> simp at ha

/-- `fire(foo())` from outside (3 steps), `flush()` (12 steps), then `tick()` -/
def w6b_c1 : Cfg := runN 3 (startOf (envChange w6b_s0 0 []) (.doAct 0 (.fire 0 none 0 false)))
def w6b_c2 : Cfg := runN 12 (startOf (envChange w6b_c1.st 0 []) (.flush 0))
def w6b_c3 (n : Nat) : Cfg := runN n (startOf (envChange w6b_c2.st 0 []) (.tick 0))
/-- the configuration of the resumption step (step 59 of the tick) -/
def w6b_cR : Cfg := w6b_c3 59
/-- 24 steps later: the stale `_on_tick` is about to be invoked with the countdown at 0 -/
def w6b_cT : Cfg := runN 24 (step w6b_cR)
/-- the tick runs to its end (12 more steps); the next `tick()` (10 steps) steps the caller once more -/
def w6b_cE : Cfg := runN 12 w6b_cT
def w6b_cX : Cfg := runN 10 (startOf (envChange w6b_cE.st 0 []) (.tick 0))

/-- decidable form of `W6ResumesW c w` -/
def w6b_isResume (c : Cfg) (w : Nat) : Bool :=
  match c.exn, c.stack with
  | none, .ptBody _ t :: _ =>
    match c.st.gen t.g with
    | .wait w' => w' == w && (c.st.removeHandler (c.st.wait w).hDone (some ((c.st.wait w).evName.child sfxDone))).1
    | _ => false
  | _, _ => false

theorem w6b_isResume_spec (c : Cfg) (w : Nat) (h : w6b_isResume c w = true) : W6ResumesW c w := by
  unfold w6b_isResume at h
  split at h
  · rename_i r t k hx hs
    split at h
    · rename_i w' hg
      simp only [Bool.and_eq_true, beq_iff_eq] at h
      obtain ⟨h1, h2⟩ := h
      subst h1
      exact ⟨r, t, k, hs, hx, hg, h2⟩
    · cases h
  · cases h

/-- the top frame invokes `w`'s `_on_tick` closure with the countdown at 0 -/
def w6b_isTick0 (c : Cfg) (w : Nat) : Bool :=
  match c.exn, c.stack with
  | none, .invoke _ h _ :: _ => (c.st.handler h).kind == .waitTick w && (c.st.wait w).timeout == 0
  | _, _ => false

/-- the top frame is the task step of an unfired `TimeoutError` carrier of `w` (it logs `.timeout`) -/
def w6b_isExcStep (c : Cfg) (w : Nat) : Bool :=
  match c.exn, c.stack with
  | none, .ptBody _ t :: _ =>
    match c.st.gen t.g with
    | .exc w' false => w' == w
    | _ => false
  | _, _ => false

/-- some frame still holds a `_on_tick` handler of `w` -/
def w6b_hasStale (c : Cfg) (w : Nat) : Bool :=
  (w6b_pending c.stack).any (fun h => (c.st.handler h).kind == .waitTick w)

theorem w6b_isTick0_spec (c : Cfg) (w : Nat) (h : w6b_isTick0 c w = true) :
    ∃ r hh e k, c.stack = .invoke r hh e :: k ∧ c.exn = none ∧ (c.st.handler hh).kind = .waitTick w ∧
      (c.st.wait w).timeout = 0 := by
  unfold w6b_isTick0 at h
  split at h
  · rename_i r hh e k hx hs
    simp only [Bool.and_eq_true, beq_iff_eq] at h
    exact ⟨r, hh, e, k, hs, hx, h.1, h.2⟩
  · cases h

theorem w6b_isExcStep_spec (c : Cfg) (w : Nat) (h : w6b_isExcStep c w = true) :
    ∃ r t k, c.stack = .ptBody r t :: k ∧ c.exn = none ∧ c.st.gen t.g = .exc w false := by
  unfold w6b_isExcStep at h
  split at h
  · rename_i r t k hx hs
    split at h
    · rename_i w' hg
      simp only [beq_iff_eq] at h
      subst h
      exact ⟨r, t, k, hs, hx, hg⟩
    · cases h
  · cases h

theorem w6b_later_runN {n0 : Nat} (c : Cfg) : ∀ n c0, W6Later n0 c0 c → W6Later n0 c0 (runN n c)
  | 0, _, h => h
  | n + 1, c0, h => by
    unfold runN
    split
    · exact h
    · exact w6b_later_runN (step c) n c0 (W6Later.step h)
termination_by n _ _ => n
decreasing_by all_goals simp_wf

theorem w6b_reachW_runN {n0 : Nat} {s0 : St} : ∀ n c, W6ReachW n0 s0 c → W6ReachW n0 s0 (runN n c)
  | 0, _, h => h
  | n + 1, c, h => by
    unfold runN
    split
    · exact h
    · exact w6b_reachW_runN n (step c) (W6ReachW.step h)

theorem w6b_c1_done : done w6b_c1 = true := by
  unfold w6b_c1; rw [← w6b_runN2_eq]; decide +kernel
theorem w6b_c2_done : done w6b_c2 = true := by
  unfold w6b_c2 w6b_c1; rw [← w6b_runN2_eq]; decide +kernel
theorem w6b_cR_resume : w6b_isResume w6b_cR 0 = true := by
  unfold w6b_cR w6b_c3 w6b_c2 w6b_c1; rw [← w6b_runN2_eq]; decide +kernel
/-- at the resumption step the enclosing `_dispatcher` still holds the tick handler of wait 0 -/
theorem w6b_cR_stale : w6b_hasStale w6b_cR 0 = true := by
  unfold w6b_cR w6b_c3 w6b_c2 w6b_c1; rw [← w6b_runN2_eq]; decide +kernel
theorem w6b_cT_tick0 : w6b_isTick0 w6b_cT 0 = true := by
  unfold w6b_cT w6b_cR w6b_c3 w6b_c2 w6b_c1; rw [← w6b_runN2_eq, ← w6b_step2_eq]; decide +kernel
/-- ... but the flag is set: the invocation is stale and does nothing -/
theorem w6b_cT_flag : (w6b_cT.st.wait 0).flag = true := by
  unfold w6b_cT w6b_cR w6b_c3 w6b_c2 w6b_c1; rw [← w6b_runN2_eq, ← w6b_step2_eq]; decide +kernel
theorem w6b_cE_done : done w6b_cE = true := by
  unfold w6b_cE w6b_cT w6b_cR w6b_c3 w6b_c2 w6b_c1; rw [← w6b_runN2_eq, ← w6b_step2_eq]; decide +kernel
theorem w6b_cX_done : done w6b_cX = true := by
  unfold w6b_cX w6b_cE w6b_cT w6b_cR w6b_c3 w6b_c2 w6b_c1; rw [← w6b_runN2_eq, ← w6b_step2_eq]; decide +kernel

/-- the resumption step hands the result 7 of `bar` (event 1) to the caller (event 0, handler 0) ... -/
theorem w6b_cR_logs : Entry.resumed 0 0 1 (.single (.val 7)) false ∈ (step w6b_cR).st.log := by
  unfold w6b_cR w6b_c3 w6b_c2 w6b_c1; rw [← w6b_runN2_eq, ← w6b_step2_eq]; decide +kernel

/-- exactly one outcome: one `.resumed` / `.timeout` entry in the whole log, and it is the `.resumed` one; no
    `TimeoutError` carrier was ever created -/
def w6b_oneOutcome (c : Cfg) : Bool :=
  (c.st.log.filter Entry.w6_isResume == [Entry.resumed 0 0 1 (.single (.val 7)) false]) &&
    c.st.gens.all (fun g => !g.w6_isExc)

theorem w6b_cX_one : w6b_oneOutcome w6b_cX = true := by
  unfold w6b_cX w6b_cE w6b_cT w6b_cR w6b_c3 w6b_c2 w6b_c1; rw [← w6b_runN2_eq, ← w6b_step2_eq]; decide +kernel

theorem w6b_cR_reach : W6ReachW w6b_s0.hs.length w6b_s0 w6b_cR := by
  unfold w6b_cR w6b_c3
  apply w6b_reachW_runN
  refine W6ReachW.next 0 [] (.tick 0) trivial ?_ w6b_c2_done
  unfold w6b_c2
  apply w6b_reachW_runN
  refine W6ReachW.next 0 [] (.flush 0) trivial ?_ w6b_c1_done
  unfold w6b_c1
  apply w6b_reachW_runN
  exact W6ReachW.init 0 [] _ trivial

theorem w6b_cT_later : W6Later w6b_s0.hs.length (step w6b_cR) w6b_cT :=
  w6b_later_runN _ _ _ (W6Later.refl _)

theorem w6b_cX_later : W6Later w6b_s0.hs.length (step w6b_cR) w6b_cX := by
  unfold w6b_cX
  apply w6b_later_runN
  refine W6Later.next 0 [] (.tick 0) trivial ?_ w6b_cE_done
  unfold w6b_cE
  exact w6b_later_runN _ _ _ w6b_cT_later

end CV.Core

import CV.Proofs.InvOrder
/-
C02, machine level, second round: the arms `.dispatcher`, `.hLoop`, `.invoke`, `.hAfter`,
`.hApply`, then `step`, then `Reach`.
-/
namespace CV.Core

/-! ## small facts -/

theorem O2S.of_same {t t' : St} (h : O2S t) (hc : t'.comps = t.comps) (hh : t'.hs = t.hs) : O2S t' := by
  have : t'.comp = t.comp := by funext c; unfold St.comp; rw [hc]
  unfold O2S; rw [this, hh]; exact h

theorem O2S.logE {t : St} (h : O2S t) (x : Entry) : O2S (t.logE x) := h.of_same rfl rfl

/-- a state reached from `s.logE x` by order-neutral code -/
theorem O2R.logged {s t : St} {x : Entry} (h : O2R (s.logE x) t) :
    (∃ ext, t.hs = s.hs ++ ext) ∧ (∃ es, t.log = es ++ x :: s.log ∧ ∀ y ∈ es, y.o2quiet = true) ∧ (O2S s → O2S t) :=
  ⟨h.hs, h.log, fun hs => h.inv (hs.logE x)⟩

/-! ## `_dispatcher` -/

theorem o2_dispatchPre_rel (s : St) (r e rem : Nat) : O2R (s.logE (.disp e)) (s.dispatchPre r e rem).2 := by
  unfold St.dispatchPre
  dsimp only
  o2t

/-- **the list `_dispatcher` hands to the handler loop is descending and declared** -/
theorem o2_dispatchPre_desc {s : St} (h : O2S s) (r e rem : Nat) (l : List Nat)
    (hl : (s.dispatchPre r e rem).1 = some l) : DescIn (s.dispatchPre r e rem).2 l := by
  unfold St.dispatchPre at hl ⊢
  dsimp only at hl ⊢
  split at hl
  · cases hl
  · rename_i hcan
    rw [if_neg hcan]
    simp only [Option.some.injEq] at hl
    have h0 : O2S (s.logE (.disp e)) := h.logE _
    have h1 : O2S (((s.logE (.disp e)).dispComplete e ((s.logE (.disp e)).ev e)).cacheRefresh r) := by
      have : O2R (s.logE (.disp e)) (((s.logE (.disp e)).dispComplete e ((s.logE (.disp e)).ev e)).cacheRefresh r) := by o2t
      exact this.inv h0
    have h2 := o2_lookupHandlers_desc h1 r ((s.logE (.disp e)).ev e).name ((s.logE (.disp e)).ev e).chans
    subst hl
    generalize (((s.logE (.disp e)).dispComplete e ((s.logE (.disp e)).ev e)).cacheRefresh r).lookupHandlers r
      ((s.logE (.disp e)).ev e).name ((s.logE (.disp e)).ev e).chans = L at h2 ⊢
    refine h2.mono (O2R.hs ?_)
    o2t

/-- everything the `.dispatcher` step establishes about the frames below and the log -/
theorem o2_after_disp {c : Cfg} {k : List Frame} {f : Frame} {e : Nat} {s' : St} (hi : O2I c)
    (hst : c.stack = f :: k) (hr : O2R (c.st.logE (.disp e)) s') :
    O2S s' ∧ (∀ g ∈ k, g.o2ok s') ∧
    (∀ e1 h, Entry.inv e1 h 0 ∈ s'.log → Entry.disp e1 ∈ s'.log ∧ h < s'.hs.length) ∧
    Entry.disp e ∈ s'.log ∧
    (O2Once s'.log → o2stk s' k ∧ (∀ e1, (invokedFor s'.log e1).Pairwise (fun a b => s'.q2prio b ≥ s'.q2prio a)) ∧
      invokedFor s'.log e = [] ∧ ∀ g ∈ k, g.o2ev ≠ some e) := by
  obtain ⟨hhs, ⟨es, he, hq⟩, hinvS⟩ := hr.logged
  have hkn : O2Know c.st (f :: k) := ⟨fun g hg => hi.ok g (hst ▸ hg), hi.dispd⟩
  have hext : O2Ext c.st s' := ⟨hhs, ⟨es ++ [.disp e], by rw [he]; simp⟩⟩
  have hinv : ∀ e1, invokedFor s'.log e1 = invokedFor c.st.log e1 := fun e1 => by
    rw [he, o2_invoked_quiet_append hq]; rfl
  refine ⟨hinvS hi.st, fun g hg => (hkn.ok g (List.mem_cons_of_mem _ hg)).mono hext, ?_, ?_, ?_⟩
  · intro e1 h hm
    have hm' : Entry.inv e1 h 0 ∈ c.st.log := by
      rw [he] at hm
      rcases List.mem_append.mp hm with h1 | h1
      · exact absurd (hq _ h1) (by simp [Entry.o2quiet])
      · rcases List.mem_cons.mp h1 with h2 | h2
        · cases h2
        · exact h2
    obtain ⟨es', he'⟩ := hext.log
    exact ⟨by rw [he']; exact List.mem_append_right _ (hi.dispd e1 h hm').1,
      Nat.lt_of_lt_of_le (hi.dispd e1 h hm').2 (o2_len_mono hhs)⟩
  · rw [he]; exact List.mem_append_right _ List.mem_cons_self
  · intro honce
    have hd : o2disps s'.log = e :: o2disps c.st.log := by
      rw [he, o2_disps_quiet_append hq]; rfl
    unfold O2Once at honce
    rw [hd, List.nodup_cons] at honce
    obtain ⟨h1, h2⟩ := hi.once honce.2
    rw [hst] at h1
    have hnot : Entry.disp e ∉ c.st.log := fun hm => honce.1 (o2_mem_disps.mpr hm)
    refine ⟨o2stk_mono hhs k hkn.tail (fun e1 _ => hinv e1) h1.2, fun e1 => ?_, ?_, ?_⟩
    · rw [hinv e1]; exact o2_pairwise_mono hhs hi.dispd e1 (h2 e1)
    · rw [hinv e]
      cases hl : invokedFor c.st.log e with
      | nil => rfl
      | cons a t =>
        have : a ∈ invokedFor c.st.log e := by rw [hl]; exact List.mem_cons_self
        exact absurd (hi.dispd e a (o2_mem_invoked.mp this)).1 hnot
    · intro g hg hev
      exact hnot ((hkn.ok g (List.mem_cons_of_mem _ hg)).disp e hev)

theorem O2I.dispatcher {c : Cfg} {k : List Frame} {r e rem : Nat} (hi : O2I c)
    (hst : c.stack = .dispatcher r e rem :: k) : O2I (c.dispatcher k r e rem) := by
  have hr := o2_dispatchPre_rel c.st r e rem
  obtain ⟨h1, h2, h3, h4, h5⟩ := o2_after_disp hi hst hr
  unfold Cfg.dispatcher
  split
  · -- cancelled: `_effectDone`
    refine ⟨h1, ?_, h3, ?_⟩
    · intro g hg
      rcases List.mem_cons.mp hg with h6 | h6
      · subst h6; exact Frame.o2ok_plain _ rfl
      · exact h2 g h6
    · intro honce
      obtain ⟨h6, h7, _, _⟩ := h5 honce
      exact ⟨⟨o2frameOk_plain _ _ rfl, h6⟩, h7⟩
  · rename_i l hl
    have hd := o2_dispatchPre_desc hi.st r e rem l hl
    refine ⟨h1, ?_, h3, ?_⟩
    · intro g hg
      rcases List.mem_cons.mp hg with h6 | h6
      · subst h6
        refine ⟨fun e1 he1 => ?_, fun e1 l1 hl1 => ?_, fun x e1 hc => (by cases hc)⟩
        · cases he1; exact h4
        · cases hl1; exact hd
      · exact h2 g h6
    · intro honce
      obtain ⟨h6, h7, h8, h9⟩ := h5 honce
      refine ⟨⟨⟨fun x e1 hc => (by cases hc), ?_⟩, h6⟩, h7⟩
      intro e1 l1 hl1
      cases hl1
      refine ⟨?_, h9⟩
      intro h' hh'
      change h' ∈ invokedFor (c.st.dispatchPre r e rem).2.log e at hh'
      rw [h8] at hh'
      cases hh'

/-! ## the handler loop -/

theorem O2I.hLoop {c : Cfg} {k : List Frame} {r e : Nat} {l : List Nat} {err : Bool} {stale : Outcome} (hi : O2I c)
    (hst : c.stack = .hLoop r e l err stale :: k) : O2I (c.hLoop k r e l err stale) := by
  cases l with
  | nil =>
    refine hi.generic hst ?_
    unfold Cfg.hLoop; o2t
  | cons h0 rest0 =>
    have hfok := hi.ok _ (hst ▸ List.mem_cons_self)
    have hdesc : DescIn c.st (h0 :: rest0) := hfok.desc e _ rfl
    have hch := q2_chooseHandler c.st e h0 rest0
    have hkn : O2Know c.st (.hLoop r e (h0 :: rest0) err stale :: k) := ⟨fun g hg => hi.ok g (hst ▸ hg), hi.dispd⟩
    show O2I (c.goto k (c.st.modEv e fun x => { x with geHandler := some (c.st.chooseHandler e h0 rest0) })
          [.invoke r (c.st.chooseHandler e h0 rest0) e,
           .hAfter r e ((h0 :: rest0).erase (c.st.chooseHandler e h0 rest0)) err stale])
    generalize c.st.chooseHandler e h0 rest0 = h at hch ⊢
    have hmem : h ∈ h0 :: rest0 := (chooseNext_spec hch).1
    have hmax := chooseNext_max hdesc.1 hch
    have hsub : ((h0 :: rest0).erase h).Sublist (h0 :: rest0) := List.erase_sublist
    have hext : O2Ext c.st (c.st.modEv e fun x => { x with geHandler := some h }) := ⟨⟨[], by simp [St.modEv]⟩, ⟨[], rfl⟩⟩
    refine ⟨hi.st.of_same rfl rfl, ?_, hi.dispd, ?_⟩
    · intro g hg
      rcases List.mem_cons.mp hg with h6 | h6
      · subst h6
        exact ⟨fun e1 he1 => (by cases he1; exact hfok.disp e rfl), fun e1 l1 hl1 => (by cases hl1),
          fun x e1 hc => (by cases hc; exact hdesc.2 h hmem)⟩
      · rcases List.mem_cons.mp h6 with h7 | h7
        · subst h7
          exact ⟨fun e1 he1 => (by cases he1; exact hfok.disp e rfl),
            fun e1 l1 hl1 => (by cases hl1; exact DescL.sublist hdesc hsub), fun x e1 hc => (by cases hc)⟩
        · exact (hkn.ok g (List.mem_cons_of_mem _ h7)).mono hext
    · intro honce
      obtain ⟨h1, h2⟩ := hi.once honce
      rw [hst] at h1
      obtain ⟨h3, h4⟩ := h1.1.loop e _ rfl
      refine ⟨⟨⟨?_, fun e1 l1 hl1 => (by cases hl1)⟩, ⟨fun x e1 hc => (by cases hc), ?_⟩,
        o2stk_mono hext.hs k hkn.tail (fun _ _ => rfl) h1.2⟩, h2⟩
      · intro x e1 hc
        cases hc
        exact ⟨fun h' hh' => h3 h' hh' h hmem, r, _, err, stale, k, rfl, fun y hy => hmax y (hsub.subset hy)⟩
      · intro e1 l1 hl1
        cases hl1
        exact ⟨fun h' hh' y hy => h3 h' hh' y (hsub.subset hy), h4⟩

/-! ## the handler call -/

theorem o2_invoked_cons_inv (e h e1 : Nat) (log : List Entry) :
    invokedFor (Entry.inv e h 0 :: log) e1 = if e = e1 then h :: invokedFor log e1 else invokedFor log e1 := by
  unfold invokedFor
  simp only [List.filterMap_cons]
  by_cases he : e = e1
  · subst he; simp
  · have : (e == e1) = false := by simpa using he
    simp [this, he]

/-- the `.invoke` arm: a framework handler is order-neutral; a user handler logs its `I` entry
    (on a state `s` reached quietly) and is order-neutral afterwards -/
theorem o2_invoke_cases (c : Cfg) (k : List Frame) (r h e : Nat) :
    O2G k c.st (c.invoke k r h e) ∨
    (∃ s, O2R c.st s ∧ O2R (s.logE (.inv e h 0)) (c.invoke k r h e).st ∧
      ∃ fs, (c.invoke k r h e).stack = fs ++ k ∧ o2plain fs = true) := by
  unfold Cfg.invoke
  dsimp only
  have hs : O2R c.st (if ((c.st.handler h).kind.code != 0) = true
      then c.st.logE (Entry.hinv e (c.st.handler h).kind.code (hkey c.st (c.st.handler h))) else c.st) := by o2t
  generalize (if ((c.st.handler h).kind.code != 0) = true
      then c.st.logE (Entry.hinv e (c.st.handler h).kind.code (hkey c.st (c.st.handler h))) else c.st) = s at hs ⊢
  split
  · right
    refine ⟨s, hs, ?_⟩
    unfold Cfg.invokeUser
    dsimp only
    split
    · exact ⟨by simp only [Cfg.popRet_st]; o2t, [], rfl, rfl⟩
    · exact ⟨O2R.refl _, _, rfl, rfl⟩
  all_goals (left; o2t)

theorem O2I.invoke {c : Cfg} {k : List Frame} {r h e : Nat} (hi : O2I c)
    (hst : c.stack = .invoke r h e :: k) : O2I (c.invoke k r h e) := by
  rcases o2_invoke_cases c k r h e with hg | ⟨s, hs, hr, fs, hfs, hpl⟩
  · exact hi.generic hst hg
  · generalize c.invoke k r h e = c' at hr hfs ⊢
    obtain ⟨hhs2, ⟨es2, he2, hq2⟩, hinvS⟩ := hr.logged
    obtain ⟨es1, he1, hq1⟩ := hs.log
    have hhs : ∃ ext, c'.st.hs = c.st.hs ++ ext := by
      obtain ⟨x1, e1⟩ := hs.hs
      obtain ⟨x2, e2⟩ := hhs2
      exact ⟨x1 ++ x2, by rw [e2, e1, List.append_assoc]⟩
    have hlog : c'.st.log = (es2 ++ Entry.inv e h 0 :: es1) ++ c.st.log := by
      rw [he2, he1]; simp
    have hext : O2Ext c.st c'.st := ⟨hhs, _, hlog⟩
    have hkn : O2Know c.st (.invoke r h e :: k) := ⟨fun g hg => hi.ok g (hst ▸ hg), hi.dispd⟩
    have hfok := hkn.ok _ List.mem_cons_self
    have hdisps : o2disps c'.st.log = o2disps c.st.log := by
      rw [he2, o2_disps_quiet_append hq2]
      show o2disps s.log = _
      rw [he1, o2_disps_quiet_append hq1]
    have hinvE : invokedFor c'.st.log e = h :: invokedFor c.st.log e := by
      rw [he2, o2_invoked_quiet_append hq2]
      show invokedFor (Entry.inv e h 0 :: s.log) e = _
      rw [he1, o2_invoked_cons_inv, if_pos rfl, o2_invoked_quiet_append hq1]
    have hinvN : ∀ e1, e1 ≠ e → invokedFor c'.st.log e1 = invokedFor c.st.log e1 := by
      intro e1 hne
      rw [he2, o2_invoked_quiet_append hq2]
      show invokedFor (Entry.inv e h 0 :: s.log) e1 = _
      rw [he1, o2_invoked_cons_inv, if_neg (fun h => hne h.symm), o2_invoked_quiet_append hq1]
    have hhlt : h < c.st.hs.length := hfok.call h e rfl
    refine ⟨hinvS (hs.inv hi.st), ?_, ?_, ?_⟩
    · intro g hgm
      rw [hfs] at hgm
      rcases List.mem_append.mp hgm with h1 | h1
      · exact Frame.o2ok_plain _ (o2plain_mem hpl h1)
      · exact (hkn.ok g (List.mem_cons_of_mem _ h1)).mono hext
    · intro e1 x hm
      rw [hlog] at hm ⊢
      have hold : Entry.inv e1 x 0 ∈ c.st.log → Entry.disp e1 ∈ (es2 ++ Entry.inv e h 0 :: es1) ++ c.st.log ∧ x < c'.st.hs.length :=
        fun h1 => ⟨List.mem_append_right _ (hi.dispd e1 x h1).1, Nat.lt_of_lt_of_le (hi.dispd e1 x h1).2 (o2_len_mono hhs)⟩
      rcases List.mem_append.mp hm with h1 | h1
      · rcases List.mem_append.mp h1 with h2 | h2
        · exact absurd (hq2 _ h2) (by simp [Entry.o2quiet])
        · rcases List.mem_cons.mp h2 with h3 | h3
          · cases h3
            exact ⟨List.mem_append_right _ (hfok.disp e rfl), Nat.lt_of_lt_of_le hhlt (o2_len_mono hhs)⟩
          · exact absurd (hq1 _ h3) (by simp [Entry.o2quiet])
      · exact hold h1
    · intro honce
      have honce' : O2Once c.st.log := by
        unfold O2Once at honce ⊢
        rwa [hdisps] at honce
      obtain ⟨h1, h2⟩ := hi.once honce'
      rw [hst] at h1
      obtain ⟨h3, r', rest, err, stale, k', hk, h4⟩ := h1.1.call h e rfl
      subst hk
      obtain ⟨h5, h6⟩ := h1.2.1.loop e rest rfl
      have hdrest : DescIn c.st rest := (hkn.ok (.hAfter r' e rest err stale) (by simp)).desc e rest rfl
      refine ⟨?_, fun e1 => ?_⟩
      · rw [hfs]
        refine o2stk_plain_append _ fs _ hpl ⟨⟨fun x e1 hc => (by cases hc), ?_⟩, ?_⟩
        · intro e1 l1 hl1
          cases hl1
          refine ⟨?_, h6⟩
          intro h' hh' y hy
          rw [hinvE] at hh'
          rw [o2_prio_mono hhs (hdrest.2 y hy)]
          rcases List.mem_cons.mp hh' with h7 | h7
          · subst h7; rw [o2_prio_mono hhs hhlt]; exact h4 y hy
          · rw [o2_prio_mono hhs (o2_invoked_lt hi.dispd h7)]; exact h5 h' h7 y hy
        · refine o2stk_mono hhs k' hkn.tail.tail ?_ h1.2.2
          intro e1 ⟨g, hg, hev⟩
          exact hinvN e1 (fun he => h6 g hg (he ▸ hev))
      · by_cases he : e1 = e
        · subst he
          rw [hinvE, List.pairwise_cons]
          refine ⟨?_, o2_pairwise_mono hhs hi.dispd _ (h2 _)⟩
          intro b hb
          rw [o2_prio_mono hhs hhlt, o2_prio_mono hhs (o2_invoked_lt hi.dispd hb)]
          exact h3 b hb
        · rw [hinvN e1 he]; exact o2_pairwise_mono hhs hi.dispd _ (h2 _)

/-! ## after the handler -/

/-- shape of an arm that keeps the handler loop of event `e` going: the top loop frame is
    replaced by a loop frame of the same event with a sublist of the pending handlers (plus plain
    frames on top), the state changes quietly -/
def O2Shape (k : List Frame) (s : St) (e : Nat) (l : List Nat) (c' : Cfg) : Prop :=
  O2R s c'.st ∧ ∃ fs f' l', c'.stack = fs ++ f' :: k ∧ o2plain fs = true ∧ f'.o2loop = some (e, l') ∧
    f'.o2call = none ∧ l'.Sublist l

theorem O2I.ofShape {c c' : Cfg} {f : Frame} {k : List Frame} {e : Nat} {l : List Nat} (hi : O2I c)
    (hst : c.stack = f :: k) (hf : f.o2loop = some (e, l)) (hsh : O2Shape k c.st e l c') : O2I c' := by
  obtain ⟨hr, fs, f', l', h1, h2, h3, h4, h5⟩ := hsh
  exact hi.replaceLoop hst hr h1 h2 hf h3 h4 h5

theorem o2_hAfter_shape (c : Cfg) (k : List Frame) (r e : Nat) (l : List Nat) (err : Bool) (stale : Outcome) :
    O2Shape k c.st e l (c.hAfter k r e l err stale) := by
  unfold Cfg.hAfter
  split
  · exact ⟨O2R.refl _, [.stopMgr r none], .hApply r e l err stale, l, rfl, rfl, rfl, rfl, List.Sublist.refl _⟩
  · exact ⟨O2R.refl _, [.stopMgr r _], .hApply r e l err stale, l, rfl, rfl, rfl, rfl, List.Sublist.refl _⟩
  · exact ⟨by simp only [Cfg.goto_st]; o2t, [], .hApply r e l true .raised, l, rfl, rfl, rfl, rfl, List.Sublist.refl _⟩
  · exact ⟨O2R.refl _, [], .hApply r e l err .none, l, rfl, rfl, rfl, rfl, List.Sublist.refl _⟩
  · exact ⟨O2R.refl _, [], .hApply r e l err (.value _), l, rfl, rfl, rfl, rfl, List.Sublist.refl _⟩
  · exact ⟨O2R.refl _, [], .hApply r e l err (.gen _), l, rfl, rfl, rfl, rfl, List.Sublist.refl _⟩

theorem o2_hApply_shape (c : Cfg) (k : List Frame) (r e : Nat) (l : List Nat) (err : Bool) (value : Outcome) :
    O2G k c.st (c.hApply k r e l err value) ∨ O2Shape k c.st e l (c.hApply k r e l err value) := by
  unfold Cfg.hApply
  dsimp only
  split
  · left; o2t
  · right
    exact ⟨by simp only [Cfg.goto_st]; o2t, [], .hLoop r e l err value, l, rfl, rfl, rfl, rfl, List.Sublist.refl _⟩

theorem O2I.hAfter {c : Cfg} {k : List Frame} {r e : Nat} {l : List Nat} {err : Bool} {stale : Outcome} (hi : O2I c)
    (hst : c.stack = .hAfter r e l err stale :: k) : O2I (c.hAfter k r e l err stale) :=
  hi.ofShape hst rfl (o2_hAfter_shape c k r e l err stale)

theorem O2I.hApply {c : Cfg} {k : List Frame} {r e : Nat} {l : List Nat} {err : Bool} {value : Outcome} (hi : O2I c)
    (hst : c.stack = .hApply r e l err value :: k) : O2I (c.hApply k r e l err value) := by
  rcases o2_hApply_shape c k r e l err value with h | h
  · exact hi.generic hst h
  · exact hi.ofShape hst rfl h

/-! ## `step` -/

theorem O2I.stepFrame {c : Cfg} {f : Frame} {k : List Frame} (hi : O2I c) (hst : c.stack = f :: k) :
    O2I (stepFrame c k f) := by
  cases f
  case dispatcher r e rem => exact hi.dispatcher hst
  case hLoop r e l err stale => exact hi.hLoop hst
  case invoke r h e => exact hi.invoke hst
  case hAfter r e l err stale => exact hi.hAfter hst
  case hApply r e l err v => exact hi.hApply hst
  all_goals (refine hi.generic hst ?_; (try dsimp only [CV.Core.stepFrame]); o2t)

theorem O2I.unwind {c : Cfg} {f : Frame} {k : List Frame} (ex : Exn) (hi : O2I c) (hst : c.stack = f :: k) :
    O2I (unwind c k ex f) := by
  refine hi.generic hst ?_
  cases f <;> ((try dsimp only [CV.Core.unwind]); o2t)

/-- **the invariant is preserved by every step** -/
theorem O2I.step {c : Cfg} (hi : O2I c) : O2I (step c) := by
  cases hst : c.stack with
  | nil => rw [step_nil c hst]; exact hi
  | cons f k =>
    cases hx : c.exn with
    | none => rw [step_cons c f k hst hx]; exact hi.stepFrame hst
    | some ex => rw [step_cons_exn c f k ex hst hx]; exact hi.unwind ex hst

/-! ## `Reach` -/

/-- hypothesis on the initial state of a driver session: the state invariant, and nothing logged yet -/
structure O2Init (s : St) : Prop where
  st : O2S s
  log : s.log = []

theorem o2_startOf_stack (s : St) (op : ExtOp) : o2plain (startOf s op).stack = true := by
  cases op <;> rfl

theorem o2_startOf_st (s : St) (op : ExtOp) : (startOf s op).st = s := by
  cases op <;> rfl

/-- starting an external operation in a state that satisfies the stack-independent parts -/
theorem O2I.start {s : St} (d : Nat) (tape : List Entry) (op : ExtOp) (hs : O2S s)
    (hd : ∀ e h, Entry.inv e h 0 ∈ s.log → Entry.disp e ∈ s.log ∧ h < s.hs.length)
    (hp : O2Once s.log → ∀ e, (invokedFor s.log e).Pairwise (fun a b => s.q2prio b ≥ s.q2prio a)) :
    O2I (startOf (envChange s d tape) op) := by
  have hpl := o2_startOf_stack (envChange s d tape) op
  have hst := o2_startOf_st (envChange s d tape) op
  generalize startOf (envChange s d tape) op = c at hpl hst
  refine ⟨?_, ?_, ?_, ?_⟩
  · rw [hst]; exact hs.of_same rfl rfl
  · intro g hg; exact Frame.o2ok_plain _ (o2plain_mem hpl hg)
  · rw [hst]; exact hd
  · rw [hst]
    intro honce
    refine ⟨?_, hp honce⟩
    have := o2stk_plain_append (envChange s d tape) c.stack [] hpl trivial
    rwa [List.append_nil] at this

theorem O2I.reach {s0 : St} (h0 : O2Init s0) : ∀ c, Reach s0 c → O2I c := by
  refine Reach.inv O2I ?_ (fun c hi => hi.step) ?_
  · intro d tape op
    refine O2I.start d tape op h0.st ?_ ?_
    · intro e h hm; rw [h0.log] at hm; cases hm
    · intro _ e; rw [h0.log]; exact List.Pairwise.nil
  · intro c d tape op hi hdone
    refine O2I.start d tape op hi.st hi.dispd (fun honce => (hi.once honce).2)

end CV.Core

import CV.Model.NodeSpec
/-
Helper lemmas for C19: the delimiter split and the framing simulation.
-/
namespace CV
namespace Node

theorem splitD_nil : splitD [] = ([], []) := by
  unfold splitD; rfl

theorem splitD_cons (b : UInt8) (rest : Bytes) :
    splitD (b :: rest) =
      if DELIM.isPrefixOf (b :: rest) then ([] :: (splitD (rest.drop 2)).1, (splitD (rest.drop 2)).2)
      else consB b (splitD rest) := by
  rw [splitD]

theorem splitD_delim (y : Bytes) : splitD (DELIM ++ y) = ([] :: (splitD y).1, (splitD y).2) := by
  have : DELIM ++ y = 126 :: (126 :: 126 :: y) := rfl
  rw [this, splitD_cons]
  simp [DELIM, List.isPrefixOf]

theorem splitD_one : splitD [126] = ([], [126]) := by
  rw [splitD_cons]; simp [DELIM, List.isPrefixOf, splitD_nil, consB]

theorem splitD_two : splitD [126, 126] = ([], [126, 126]) := by
  rw [splitD_cons]; simp [DELIM, List.isPrefixOf, splitD_one, consB]


theorem consB_nil {b : UInt8} {r : List Bytes × Bytes} (h : r.1 = []) : consB b r = ([], b :: r.2) := by
  simp [consB, h]

theorem consB_cons {b : UInt8} {r : List Bytes × Bytes} {p : Bytes} {ps : List Bytes} (h : r.1 = p :: ps) :
    consB b r = ((b :: p) :: ps, r.2) := by
  simp [consB, h]

theorem not_prefix_of_ne {b : UInt8} (hb : b ≠ 126) (l : Bytes) : DELIM.isPrefixOf (b :: l) = false := by
  simp only [DELIM, List.isPrefixOf]
  have : (126 == b) = false := by simpa using hb.symm
  simp [this]

theorem isPrefix_delim_iff (x : Bytes) : DELIM.isPrefixOf x = true ↔ ∃ y, x = DELIM ++ y := by
  constructor
  · intro h
    have := List.isPrefixOf_iff_prefix.mp h
    obtain ⟨y, hy⟩ := this
    exact ⟨y, hy.symm⟩
  · rintro ⟨y, rfl⟩
    exact List.isPrefixOf_iff_prefix.mpr ⟨y, rfl⟩

/-- no delimiter in `x`: the split is trivial -/
theorem splitD_fst_nil {x : Bytes} (h : (splitD x).1 = []) : (splitD x).2 = x := by
  induction x with
  | nil => simp [splitD_nil]
  | cons b rest ih =>
    rw [splitD_cons] at h ⊢
    split at h
    · simp at h
    · rename_i hp
      simp only [hp]
      cases h1 : (splitD rest).1 with
      | nil => simp [consB, h1, ih h1]
      | cons p ps => simp [consB, h1] at h

/-- the split of `x ++ d` continues the split of `x` from its last piece -/
theorem splitD_append (x d : Bytes) :
    splitD (x ++ d) =
      ((splitD x).1 ++ (splitD ((splitD x).2 ++ d)).1, (splitD ((splitD x).2 ++ d)).2) := by
  induction x using splitD.induct with
  | case1 => simp [splitD_nil]
  | case2 b rest hp ih =>
    obtain ⟨y, hy⟩ := (isPrefix_delim_iff _).mp hp
    have hr : rest.drop 2 = y := by
      simp [DELIM] at hy; obtain ⟨_, rfl⟩ := hy; simp
    have e1 : (b :: rest) ++ d = DELIM ++ (y ++ d) := by rw [hy]; simp
    rw [e1, splitD_delim, hy, splitD_delim]
    rw [hr] at ih
    rw [ih]
    simp
  | case3 b rest hp ih =>
    by_cases hq : DELIM.isPrefixOf ((b :: rest) ++ d) = true
    · -- the delimiter straddles the boundary: `b :: rest` is a proper prefix of it
      obtain ⟨y, hy⟩ := (isPrefix_delim_iff _).mp hq
      have hshort : (b :: rest) = [126] ∨ (b :: rest) = [126, 126] := by
        simp [DELIM] at hy
        obtain ⟨rfl, hy⟩ := hy
        cases rest with
        | nil => simp
        | cons c rest2 =>
          simp at hy
          obtain ⟨rfl, hy⟩ := hy
          cases rest2 with
          | nil => simp
          | cons e rest3 =>
            simp at hy
            obtain ⟨rfl, _⟩ := hy
            exfalso; apply hp; simp [DELIM, List.isPrefixOf]
      rcases hshort with h | h
      · rw [h, splitD_one]; simp
      · rw [h, splitD_two]; simp
    · have e1 : (b :: rest) ++ d = b :: (rest ++ d) := rfl
      rw [e1] at hq
      rw [splitD_cons (b := b) (rest := rest), if_neg hp]
      cases h1 : (splitD rest).1 with
      | nil =>
        have h2 := splitD_fst_nil h1
        rw [consB_nil h1, h2]
        simp
      | cons p ps =>
        rw [consB_cons h1, e1, splitD_cons, if_neg hq, ih, h1]
        simp [consB]

/-- a `~`-free packet followed by the delimiter is cut off as one piece -/
theorem splitD_pkt {p : Bytes} (hp : TILDE ∉ p) (y : Bytes) :
    splitD (p ++ (DELIM ++ y)) = (p :: (splitD y).1, (splitD y).2) := by
  induction p with
  | nil => simpa using splitD_delim y
  | cons b p ih =>
    have hb : b ≠ 126 := by intro h; apply hp; simp [TILDE, h]
    have hp' : TILDE ∉ p := by intro h; apply hp; simp [h]
    have e : (b :: p) ++ (DELIM ++ y) = b :: (p ++ (DELIM ++ y)) := rfl
    rw [e, splitD_cons]
    rw [not_prefix_of_ne hb, ih hp']
    simp [consB]

/-- a `~`-free packet followed by part of a delimiter is still one unterminated piece -/
theorem splitD_pkt_short {p t : Bytes} (hp : TILDE ∉ p) (ht : t = [] ∨ t = [126] ∨ t = [126, 126]) :
    splitD (p ++ t) = ([], p ++ t) := by
  induction p with
  | nil =>
    rcases ht with rfl | rfl | rfl
    · simp [splitD_nil]
    · simpa using splitD_one
    · simpa using splitD_two
  | cons b p ih =>
    have hb : b ≠ 126 := by intro h; apply hp; simp [TILDE, h]
    have hp' : TILDE ∉ p := by intro h; apply hp; simp [h]
    have e : (b :: p) ++ t = b :: (p ++ t) := rfl
    rw [e, splitD_cons]
    rw [not_prefix_of_ne hb, ih hp']
    simp [consB]

theorem short_cases {t R y : Bytes} (hl : t.length < 3) (h : t ++ R = DELIM ++ y) :
    t = [] ∨ t = [126] ∨ t = [126, 126] := by
  match t, hl with
  | [], _ => simp
  | [a], _ => simp [DELIM] at h; simp [h.1]
  | [a, b], _ => simp [DELIM] at h; simp [h.1, h.2.1]
  | _ :: _ :: _ :: _, hl => simp at hl; omega

theorem long_cases {a R y : Bytes} (hl : 3 ≤ a.length) (h : a ++ R = DELIM ++ y) :
    a = DELIM ++ a.drop 3 ∧ y = a.drop 3 ++ R := by
  match a, hl with
  | x1 :: x2 :: x3 :: r, _ =>
    simp [DELIM] at h
    obtain ⟨rfl, rfl, rfl, rfl⟩ := h
    simp [DELIM]


/-! ## the framing simulation -/

/-- the pieces whose processing returns normally -/
def okPieces (proc : Bytes → POut) (ps : List Bytes) : List Bytes := ps.filter (fun q => proc q = .done)

/-- hypotheses on the codec oracle: nothing, `~` and `~~` are not packets -/
structure CodecOK (proc : Bytes → POut) : Prop where
  e0 : proc [] = .valueError
  e1 : proc [126] = .valueError
  e2 : proc [126, 126] = .valueError

/-- hypotheses on a byte stream `S` (all of them about what the oracle says on pieces of `S`):
    no piece makes the handler fail, and an unterminated piece that already parses is a whole
    `~`-free packet directly followed by the delimiter -/
structure StreamOK (proc : Bytes → POut) (S : Bytes) : Prop where
  noRaise : ∀ X R, S = X ++ R → (∀ q ∈ (splitD X).1, proc q ≠ .raised) ∧ proc (splitD X).2 ≠ .raised
  whole : ∀ X R, S = X ++ R → proc (splitD X).2 = .done → TILDE ∉ (splitD X).2 ∧ ∃ y, R = DELIM ++ y

theorem procPieces_noRaise {proc : Bytes → POut} {ps : List Bytes} (h : ∀ q ∈ ps, proc q ≠ .raised) :
    procPieces proc ps = (okPieces proc ps, false) := by
  induction ps with
  | nil => simp [procPieces, okPieces]
  | cons p ps ih =>
    have hp := h p (by simp)
    have ih' := ih (fun q hq => h q (by simp [hq]))
    unfold procPieces
    cases hc : proc p with
    | raised => exact absurd hc hp
    | valueError => simp [ih', okPieces, hc]
    | done => simp [ih', okPieces, hc]

theorem feed_valueError {proc : Bytes → POut} {buf d : Bytes}
    (h : ∀ q ∈ (splitD (buf ++ d)).1, proc q ≠ .raised) (hv : proc (splitD (buf ++ d)).2 = .valueError) :
    feed proc buf d = ⟨(splitD (buf ++ d)).2, okPieces proc (splitD (buf ++ d)).1, false⟩ := by
  simp [feed, procPieces_noRaise h, hv]

theorem feed_done {proc : Bytes → POut} {buf d : Bytes}
    (h : ∀ q ∈ (splitD (buf ++ d)).1, proc q ≠ .raised) (hv : proc (splitD (buf ++ d)).2 = .done) :
    feed proc buf d = ⟨[], okPieces proc (splitD (buf ++ d)).1 ++ [(splitD (buf ++ d)).2], false⟩ := by
  simp [feed, procPieces_noRaise h, hv]

/-- state of the real buffer relative to the strict split of the bytes consumed so far -/
inductive Inv (proc : Bytes → POut) (X R buf : Bytes) (outs : List Bytes) : Prop where
  | plain (hb : buf = (splitD X).2) (ho : outs = okPieces proc (splitD X).1)
  | early (p t y : Bytes) (hs : (splitD X).2 = p ++ t) (hb : buf = t) (hl : t.length < 3) (hp : TILDE ∉ p)
      (hd : proc p = .done) (ho : outs = okPieces proc (splitD X).1 ++ [p]) (hy : t ++ R = DELIM ++ y)

theorem okPieces_append (proc : Bytes → POut) (a b : List Bytes) :
    okPieces proc (a ++ b) = okPieces proc a ++ okPieces proc b := by simp [okPieces]

/-- after the pieces `ps` (none raising) the last piece `l` of the strict split is looked at -/
theorem feed_tail {proc : Bytes → POut} {S X R' : Bytes} (hS : StreamOK proc S) (hX : S = X ++ R')
    {outs : List Bytes} (ho : outs = okPieces proc (splitD X).1) :
    (proc (splitD X).2 = .valueError ∧ Inv proc X R' (splitD X).2 outs) ∨
    (proc (splitD X).2 = .done ∧ Inv proc X R' [] (outs ++ [(splitD X).2])) := by
  have hnr := (hS.noRaise X R' hX).2
  cases hc : proc (splitD X).2 with
  | raised => exact absurd hc hnr
  | valueError => exact Or.inl ⟨rfl, .plain rfl ho⟩
  | done =>
    obtain ⟨ht, y, hy⟩ := hS.whole X R' hX hc
    refine Or.inr ⟨rfl, .early (splitD X).2 [] y (by simp) rfl (by simp) ht hc (by rw [ho]) (by simpa using hy)⟩

/-- one read preserves the invariant and adds exactly its own output -/
theorem feed_step {proc : Bytes → POut} (hC : CodecOK proc) {S X d R' buf : Bytes} {outs : List Bytes}
    (hS : StreamOK proc S) (hX : S = X ++ (d ++ R')) (hI : Inv proc X (d ++ R') buf outs) :
    (feed proc buf d).aborted = false ∧
    Inv proc (X ++ d) R' (feed proc buf d).buf (outs ++ (feed proc buf d).done) := by
  have hX' : S = (X ++ d) ++ R' := by rw [hX]; simp
  have hnr := hS.noRaise (X ++ d) R' hX'
  cases hI with
  | plain hb ho =>
    have hsp := splitD_append X d
    have hnr1 : ∀ q ∈ (splitD ((splitD X).2 ++ d)).1, proc q ≠ .raised := by
      intro q hq; apply hnr.1; rw [hsp]; simp [hq]
    have hlast : (splitD (X ++ d)).2 = (splitD ((splitD X).2 ++ d)).2 := by rw [hsp]
    have hfst : okPieces proc (splitD (X ++ d)).1 = outs ++ okPieces proc (splitD ((splitD X).2 ++ d)).1 := by
      rw [hsp, okPieces_append, ho]
    have key := feed_tail hS hX' hfst.symm
    rw [hlast] at key
    subst hb
    rcases key with ⟨hv, hi⟩ | ⟨hv, hi⟩
    · rw [feed_valueError hnr1 hv]; exact ⟨rfl, hi⟩
    · rw [feed_done hnr1 hv]; refine ⟨rfl, ?_⟩; simpa [List.append_assoc] using hi
  | early p t y hs hb hl hp hd ho hy =>
    have hsp := splitD_append X d
    rw [hs] at hsp
    by_cases hlen : (t ++ d).length < 3
    · -- still inside the delimiter
      have hy' : (t ++ d) ++ R' = DELIM ++ y := by rw [← hy]; simp
      have hsh := short_cases hlen hy'
      have hsplit : splitD (t ++ d) = ([], t ++ d) := by
        have := splitD_pkt_short (p := []) (by simp) hsh
        simpa using this
      have hpt : splitD (p ++ t ++ d) = ([], p ++ (t ++ d)) := by
        have := splitD_pkt_short hp hsh
        simpa [List.append_assoc] using this
      have hv : proc (t ++ d) = .valueError := by
        rcases hsh with h | h | h <;> rw [h]
        · exact hC.e0
        · exact hC.e1
        · exact hC.e2
      rw [hb]
      have hnr0 : ∀ q ∈ (splitD (t ++ d)).1, proc q ≠ .raised := by rw [hsplit]; simp
      have hv' : proc (splitD (t ++ d)).2 = .valueError := by rw [hsplit]; exact hv
      rw [feed_valueError hnr0 hv', hsplit]
      refine ⟨rfl, ?_⟩
      simp only [okPieces, List.filter_nil, List.append_nil]
      rw [hpt] at hsp
      refine .early p (t ++ d) y ?_ rfl hlen hp hd ?_ hy'
      · rw [hsp]
      · rw [hsp]; simp [ho]
    · -- the delimiter is complete: the early packet is now also terminated in the strict split
      have hy' : (t ++ d) ++ R' = DELIM ++ y := by rw [← hy]; simp
      obtain ⟨h3, hyy⟩ := long_cases (by omega) hy'
      generalize hy0 : (t ++ d).drop 3 = y0 at h3 hyy
      have hsplit : splitD (t ++ d) = ([] :: (splitD y0).1, (splitD y0).2) := by
        rw [h3, splitD_delim]
      have hpt : splitD (p ++ t ++ d) = (p :: (splitD y0).1, (splitD y0).2) := by
        have : p ++ t ++ d = p ++ (DELIM ++ y0) := by rw [List.append_assoc, h3]
        rw [this, splitD_pkt hp]
      rw [hpt] at hsp
      have hnr1 : ∀ q ∈ (splitD y0).1, proc q ≠ .raised := by
        intro q hq; apply hnr.1; rw [hsp]; simp [hq]
      have hlast : (splitD (X ++ d)).2 = (splitD y0).2 := by rw [hsp]
      have hfst : okPieces proc (splitD (X ++ d)).1 = outs ++ okPieces proc (splitD y0).1 := by
        rw [hsp, okPieces_append, ho]
        simp [okPieces, hd]
      have key := feed_tail hS hX' hfst.symm
      rw [hlast] at key
      rw [hb]
      have hnr0 : ∀ q ∈ (splitD (t ++ d)).1, proc q ≠ .raised := by
        rw [hsplit]; intro q hq
        rcases List.mem_cons.mp hq with h | h
        · rw [h, hC.e0]; simp
        · exact hnr1 q h
      have hok : okPieces proc (splitD (t ++ d)).1 = okPieces proc (splitD y0).1 := by
        rw [hsplit]; simp [okPieces, hC.e0]
      have hl2 : (splitD (t ++ d)).2 = (splitD y0).2 := by rw [hsplit]
      rcases key with ⟨hv, hi⟩ | ⟨hv, hi⟩
      · rw [feed_valueError hnr0 (by rw [hl2]; exact hv), hok, hl2]; exact ⟨rfl, hi⟩
      · rw [feed_done hnr0 (by rw [hl2]; exact hv), hok, hl2]; refine ⟨rfl, ?_⟩; simpa [List.append_assoc] using hi

/-- any segmentation of the rest of the stream ends in the state of the strict split -/
theorem feedAll_inv {proc : Bytes → POut} (hC : CodecOK proc) {S : Bytes} (hS : StreamOK proc S) :
    ∀ (segs : List Bytes) (X buf : Bytes) (outs : List Bytes),
      S = X ++ segs.flatten → Inv proc X segs.flatten buf outs →
      (feedAll proc buf segs).1 = (splitD S).2 ∧
      outs ++ (feedAll proc buf segs).2.1 = okPieces proc (splitD S).1 ∧
      (feedAll proc buf segs).2.2 = false := by
  intro segs
  induction segs with
  | nil =>
    intro X buf outs hX hI
    simp at hX
    subst hX
    cases hI with
    | plain hb ho => simp [feedAll, hb, ho]
    | early p t y hs hb hl hp hd ho hy =>
      exfalso
      have : (t ++ ([] : List Bytes).flatten).length = (DELIM ++ y).length := by rw [hy]
      simp [DELIM] at this
      omega
  | cons d ds ih =>
    intro X buf outs hX hI
    have hX2 : S = X ++ (d ++ ds.flatten) := by simpa using hX
    have hI2 : Inv proc X (d ++ ds.flatten) buf outs := by simpa using hI
    obtain ⟨hab, hinv⟩ := feed_step hC hS hX2 hI2
    have hX3 : S = (X ++ d) ++ ds.flatten := by rw [hX2]; simp
    obtain ⟨h1, h2, h3⟩ := ih (X ++ d) _ _ hX3 hinv
    simp only [feedAll]
    refine ⟨h1, ?_, ?_⟩
    · rw [← h2]; simp [List.append_assoc]
    · simp [hab, h3]


/-! ## streams of well-formed packets -/

/-- what the oracle says about a packet body a correct peer writes: it parses and is processed,
    contains no `~` (the escape), none of its proper prefixes parses (JSON objects are
    self-delimiting) and it does not parse with one or two `~` appended -/
structure Good (proc : Bytes → POut) (p : Bytes) : Prop where
  noTilde : TILDE ∉ p
  done : proc p = .done
  prefixes : ∀ q r, p = q ++ r → r ≠ [] → proc q = .valueError
  t1 : proc (p ++ [126]) = .valueError
  t2 : proc (p ++ [126, 126]) = .valueError

theorem stream_cons (p : Bytes) (ps : List Bytes) : stream (p :: ps) = p ++ (DELIM ++ stream ps) := by
  simp [stream]

theorem stream_good {proc : Bytes → POut} (hC : CodecOK proc) :
    ∀ pkts : List Bytes, (∀ p ∈ pkts, Good proc p) →
      StreamOK proc (stream pkts) ∧ splitD (stream pkts) = (pkts, []) := by
  intro pkts
  induction pkts with
  | nil =>
    intro _
    refine ⟨⟨?_, ?_⟩, by simp [stream, splitD_nil]⟩
    · intro X R h
      have : X = [] := by simp [stream] at h; exact h.1
      subst this
      simp [splitD_nil, hC.e0]
    · intro X R h hd
      have : X = [] := by simp [stream] at h; exact h.1
      subst this
      rw [splitD_nil, hC.e0] at hd
      cases hd
  | cons p ps ih =>
    intro hG
    have hp := hG p (by simp)
    obtain ⟨ihS, ihsplit⟩ := ih (fun q hq => hG q (by simp [hq]))
    have hsplit : splitD (stream (p :: ps)) = (p :: ps, []) := by
      rw [stream_cons, splitD_pkt hp.noTilde, ihsplit]
    -- every prefix X of the stream: its split, described by cases
    have cases_X : ∀ X R, stream (p :: ps) = X ++ R →
        (∃ r, p = X ++ r ∧ r ≠ [] ∧ splitD X = ([], X)) ∨
        (X = p ∧ R = DELIM ++ stream ps ∧ splitD X = ([], X)) ∨
        (∃ t, (t = [126] ∨ t = [126, 126]) ∧ X = p ++ t ∧ splitD X = ([], X)) ∨
        (∃ X', X = p ++ (DELIM ++ X') ∧ stream ps = X' ++ R) := by
      intro X R h
      rw [stream_cons, ← List.append_assoc] at h
      rcases List.append_eq_append_iff.mp h.symm with ⟨a', ha, hR⟩ | ⟨c', hc, hS'⟩
      · -- X ++ a' = p ++ DELIM
        rcases List.append_eq_append_iff.mp ha.symm with ⟨b', hb, hd⟩ | ⟨c2, hc2, hd2⟩
        · -- p = X ++ b'   (hb : X ++ b' = p?)
          by_cases hb0 : b' = []
          · subst hb0
            right; left
            have hXp : X = p := by simpa using hb.symm
            refine ⟨hXp, ?_, ?_⟩
            · rw [hR]; simp at hd; rw [hd]
            · have := splitD_pkt_short (p := X) (t := []) (by rw [hXp]; exact hp.noTilde) (Or.inl rfl)
              simpa using this
          · left
            refine ⟨b', hb, hb0, ?_⟩
            have hnt : TILDE ∉ X := by
              intro hm; apply hp.noTilde; rw [hb]; simp [hm]
            have := splitD_pkt_short (p := X) (t := []) hnt (Or.inl rfl)
            simpa using this
        · -- X = p ++ c2, DELIM = c2 ++ a'
          by_cases hl : c2.length < 3
          · have hsh := short_cases (t := c2) (R := a') (y := []) hl (by simpa using hd2.symm)
            rcases hsh with h0 | h12
            · subst h0
              right; left
              have hXp : X = p := by simpa using hc2
              refine ⟨hXp, ?_, ?_⟩
              · rw [hR]; simp at hd2; rw [← hd2]
              · have := splitD_pkt_short (p := X) (t := []) (by rw [hXp]; exact hp.noTilde) (Or.inl rfl)
                simpa using this
            · right; right; left
              refine ⟨c2, h12, hc2, ?_⟩
              rw [hc2]
              exact splitD_pkt_short hp.noTilde (Or.inr h12)
          · right; right; right
            have hlen : c2.length + a'.length = 3 := by
              have := congrArg List.length hd2; simp [DELIM] at this; omega
            have ha' : a' = [] := by
              apply List.eq_nil_of_length_eq_zero; omega
            subst ha'
            have hc2' : c2 = DELIM := by simpa using hd2.symm
            refine ⟨[], by rw [hc2, hc2']; simp, ?_⟩
            simpa using hR.symm
      · right; right; right
        refine ⟨c', by rw [hc]; simp, hS'⟩
    refine ⟨⟨?_, ?_⟩, hsplit⟩
    · intro X R h
      rcases cases_X X R h with ⟨r, hr, hr0, hs⟩ | ⟨hXp, _, hs⟩ | ⟨t, ht, hX, hs⟩ | ⟨X', hX, hS'⟩
      · rw [hs]; simp [hp.prefixes X r hr hr0]
      · rw [hs, hXp]; simp [hp.done]
      · rw [hs, hX]
        rcases ht with rfl | rfl
        · simp [hp.t1]
        · simp [hp.t2]
      · rw [hX, splitD_pkt hp.noTilde]
        have := ihS.noRaise X' R hS'
        refine ⟨?_, this.2⟩
        intro q hq
        rcases List.mem_cons.mp hq with h1 | h1
        · rw [h1, hp.done]; simp
        · exact this.1 q h1
    · intro X R h hd
      rcases cases_X X R h with ⟨r, hr, hr0, hs⟩ | ⟨hXp, hR, hs⟩ | ⟨t, ht, hX, hs⟩ | ⟨X', hX, hS'⟩
      · rw [hs, hp.prefixes X r hr hr0] at hd; cases hd
      · rw [hs, hXp]; exact ⟨hp.noTilde, _, hR⟩
      · rw [hs, hX] at hd
        rcases ht with rfl | rfl
        · rw [hp.t1] at hd; cases hd
        · rw [hp.t2] at hd; cases hd
      · rw [hX, splitD_pkt hp.noTilde] at hd ⊢
        exact ihS.whole X' R hS' hd

theorem escTilde_noTilde (x : Bytes) : TILDE ∉ escTilde x := by
  induction x with
  | nil => simp [escTilde]
  | cons b x ih =>
    have : escTilde (b :: x) = (if b = TILDE then [92, 117, 48, 48, 55, 101] else [b]) ++ escTilde x := by
      simp [escTilde]
    rw [this]
    by_cases hb : b = TILDE
    · simp only [hb, if_true, List.mem_append, not_or]
      refine ⟨by decide, ih⟩
    · simp only [hb, if_false, List.mem_append, not_or]
      refine ⟨by simpa using fun h => hb h.symm, ih⟩

end Node
end CV

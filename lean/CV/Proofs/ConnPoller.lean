import CV.Proofs.Poller
import CV.Proofs.PollerSim
import CV.Proofs.PollerRound
import CV.Proofs.PollerMain
/-
What C12 needs from the poller model (C10), packaged per operation: the C10 invariant `PInv`
plus `MC` ("`_map` mentions only listed descriptors" - true of Poll, and of EPoll since the C12
fix [D4], as long as descriptors are discarded while open, which is what the server does).
-/
namespace CV
namespace Poller

/-- `_map` mentions only listed descriptors (and Select has no `_map`) -/
def MC (p : State) : Prop := ∀ f o, p.map f = some o → p.kind ≠ .select ∧ (o ∈ p.read ∨ o ∈ p.write)

structure Good (p : State) : Prop where
  P : PInv p
  M : MC p

theorem Good.init (k : Kind) : Good (State.init k) :=
  ⟨PInv.init k, by intro f o h; simp [State.init] at h⟩

/-- nothing is listed in `p'` that was not listed in `p`, except possibly `x`; same world -/
structure Shrink (p p' : State) (x : Option Obj) : Prop where
  rd : ∀ a, a ∈ p'.read → a ∈ p.read ∨ some a = x
  wr : ∀ a, a ∈ p'.write → a ∈ p.write ∨ some a = x
  w : p'.w = p.w

theorem known_of_open {p : State} (h : PInv p) {o f} (ho : p.w.fno o = some f) : p.w.known o = true := by
  have := h.W.orig _ _ ho
  simp [World.known, this]

/-- `_updateRegistration` of an *open* descriptor re-establishes `MC` -/
theorem mc_updateRegistration {s : State} {o : Obj} {f0 : Nat} (h : PInvX s (some o)) (hop : s.w.fno o = some f0)
    (mc : ∀ f o', s.map f = some o' → s.kind ≠ .select ∧ (o' ∈ s.read ∨ o' ∈ s.write ∨ o' = o)) :
    MC (updateRegistration s o).1 := by
  have key : ∀ f', s.map f' = some o → f' = f0 := by
    intro f' hm
    have a := h.M _ _ hm
    have b := h.W.orig _ _ hop
    rw [a] at b; simpa using b
  have body : ∀ (hk : s.kind ≠ .select),
      MC (if o ∈ s.read ∨ o ∈ s.write then
            { (unregister s f0) with kin := upd (unregister s f0).kin f0 (decide (o ∈ s.read)),
                                     kout := upd (unregister s f0).kout f0 (decide (o ∈ s.write)),
                                     map := upd (unregister s f0).map f0 (some o) }
          else { (baseDiscard (unregister s f0) o) with map := upd (unregister s f0).map f0 none }) := by
    intro hk
    split
    · next hm =>
      intro f o' hmap
      simp only [unregister, upd_apply] at hmap ⊢
      refine ⟨hk, ?_⟩
      split at hmap
      · simp at hmap; subst hmap; exact hm
      · rcases (mc f o' hmap).2 with a | a | a
        · exact Or.inl a
        · exact Or.inr a
        · subst a; exact hm
    · next hm =>
      intro f o' hmap
      simp only [unregister, baseDiscard, upd_apply] at hmap ⊢
      refine ⟨hk, ?_⟩
      split at hmap
      · simp at hmap
      · next ne =>
        have ne' : o' ≠ o := by intro e; subst e; exact ne (key f hmap)
        simp only [mem_filter_ne]
        rcases (mc f o' hmap).2 with a | a | a
        · exact Or.inl ⟨a, ne'⟩
        · exact Or.inr ⟨a, ne'⟩
        · exact absurd a ne'
  unfold updateRegistration
  split
  · next hk => intro f o' hmap; exact absurd hk (mc f o' hmap).1
  · next hk => simp only [hop]; split <;> simp_all <;> exact body (by simp [hk])
  · next hk => simp only [hop]; split <;> simp_all <;> exact body (by simp [hk])


theorem mc_weaken {s : State} {o : Obj} (mc : MC s) :
    ∀ f o', s.map f = some o' → s.kind ≠ .select ∧ (o' ∈ s.read ∨ o' ∈ s.write ∨ o' = o) := by
  intro f o' h
  obtain ⟨a, b⟩ := mc f o' h
  exact ⟨a, b.elim Or.inl (fun x => Or.inr (Or.inl x))⟩

/-! ### the operations the server performs -/

theorem good_discard {p : State} {o : Obj} {f : Nat} (g : Good p) (ho : p.w.fno o = some f) :
    Good (step p (.discard o)).1 ∧ Shrink p (step p (.discard o)).1 none ∧
    o ∉ (step p (.discard o)).1.read ∧ o ∉ (step p (.discard o)).1.write := by
  have k := known_of_open g.P ho
  have px := pinvx_discard (s := p) (o := o) g.P
  obtain ⟨f1, f2, _f3, f4, _f5⟩ := updateRegistration_frame px
  simp only [step, k, if_true, outOf_fst]
  refine ⟨⟨pinv_updateRegistration px, ?_⟩, ⟨?_, ?_, ?_⟩, ?_, ?_⟩
  · apply mc_updateRegistration px (f0 := f) (by simpa [baseDiscard] using ho)
    intro f' o' hm
    simp only [baseDiscard] at hm ⊢
    obtain ⟨a, b⟩ := g.M f' o' hm
    refine ⟨a, ?_⟩
    by_cases e : o' = o
    · exact Or.inr (Or.inr e)
    · simp only [mem_filter_ne]
      exact b.elim (fun x => Or.inl ⟨x, e⟩) (fun x => Or.inr (Or.inl ⟨x, e⟩))
  · intro a ha; rw [f1] at ha; simp only [baseDiscard, mem_filter_ne] at ha; exact Or.inl ha.1
  · intro a ha; rw [f2] at ha; simp only [baseDiscard, mem_filter_ne] at ha; exact Or.inl ha.1
  · rw [f4]; rfl
  · rw [f1]; simp [baseDiscard]
  · rw [f2]; simp [baseDiscard]

theorem good_close {p : State} {o : Obj} {f : Nat} (g : Good p) (ho : p.w.fno o = some f) :
    Good (step p (.close o)).1 ∧ (step p (.close o)).1.read = p.read ∧ (step p (.close o)).1.write = p.write ∧
    (step p (.close o)).1.w = p.w.close o f := by
  simp only [step, ho]
  refine ⟨⟨pinv_close g.P ho, ?_⟩, ?_, ?_, ?_⟩
  · intro f' o' hm
    have e : (close p o f).map = p.map := by unfold close; split <;> rfl
    have e2 : (close p o f).kind = p.kind := by unfold close; split <;> rfl
    have e3 : (close p o f).read = p.read := by unfold close; split <;> rfl
    have e4 : (close p o f).write = p.write := by unfold close; split <;> rfl
    rw [e] at hm; rw [e2, e3, e4]; exact g.M f' o' hm
  · unfold close; split <;> rfl
  · unfold close; split <;> rfl
  · unfold close; split <;> rfl

theorem good_addReader {p : State} {o : Obj} {f : Nat} (c : Chan) (g : Good p) (ho : p.w.fno o = some f) :
    Good (step p (.addReader o c)).1 ∧ Shrink p (step p (.addReader o c)).1 (some o) := by
  have k := known_of_open g.P ho
  have px := pinvx_addReader (s := p) (o := o) (c := c) g.P k
  obtain ⟨f1, f2, _f3, f4, _f5⟩ := updateRegistration_frame px
  simp only [step, k, if_true, outOf_fst]
  refine ⟨⟨pinv_updateRegistration px, ?_⟩, ⟨?_, ?_, ?_⟩⟩
  · apply mc_updateRegistration px (f0 := f) (by simpa [baseAddReader] using ho)
    intro f' o' hm
    simp only [baseAddReader] at hm ⊢
    obtain ⟨a, b⟩ := g.M f' o' hm
    exact ⟨a, b.elim (fun x => Or.inl (by simp [x])) (fun x => Or.inr (Or.inl x))⟩
  · intro a ha; rw [f1] at ha; simp only [baseAddReader, List.mem_append, List.mem_singleton] at ha
    exact ha.elim Or.inl (fun e => Or.inr (by rw [e]))
  · intro a ha; rw [f2] at ha; exact Or.inl ha
  · rw [f4]; rfl

theorem good_addWriter {p : State} {o : Obj} {f : Nat} (c : Chan) (g : Good p) (ho : p.w.fno o = some f) :
    Good (step p (.addWriter o c)).1 ∧ Shrink p (step p (.addWriter o c)).1 (some o) := by
  have k := known_of_open g.P ho
  have px := pinvx_addWriter (s := p) (o := o) (c := c) g.P k
  obtain ⟨f1, f2, _f3, f4, _f5⟩ := updateRegistration_frame px
  simp only [step, k, if_true, outOf_fst]
  refine ⟨⟨pinv_updateRegistration px, ?_⟩, ⟨?_, ?_, ?_⟩⟩
  · apply mc_updateRegistration px (f0 := f) (by simpa [baseAddWriter] using ho)
    intro f' o' hm
    simp only [baseAddWriter] at hm ⊢
    obtain ⟨a, b⟩ := g.M f' o' hm
    exact ⟨a, b.elim Or.inl (fun x => Or.inr (Or.inl (by simp [x])))⟩
  · intro a ha; rw [f1] at ha; exact Or.inl ha
  · intro a ha; rw [f2] at ha; simp only [baseAddWriter, List.mem_append, List.mem_singleton] at ha
    exact ha.elim Or.inl (fun e => Or.inr (by rw [e]))
  · rw [f4]; rfl

theorem good_removeWriter {p : State} {o : Obj} {f : Nat} (g : Good p) (ho : p.w.fno o = some f) :
    Good (step p (.removeWriter o)).1 ∧ Shrink p (step p (.removeWriter o)).1 none := by
  have k := known_of_open g.P ho
  have px := pinvx_removeWriter (s := p) (o := o) g.P
  obtain ⟨f1, f2, _f3, f4, _f5⟩ := updateRegistration_frame px
  obtain ⟨dk, dw, dm, _d4, _d5, dr, dwr⟩ := dropTarget_fields { p with write := p.write.erase o } o
  simp only [step, k, if_true, outOf_fst]
  refine ⟨⟨pinv_updateRegistration px, ?_⟩, ⟨?_, ?_, ?_⟩⟩
  · apply mc_updateRegistration px (f0 := f) (by simp only [baseRemoveWriter, dw]; exact ho)
    intro f' o' hm
    simp only [baseRemoveWriter, dk, dm, dr, dwr] at hm ⊢
    obtain ⟨a, b⟩ := g.M f' o' hm
    refine ⟨a, ?_⟩
    by_cases e : o' = o
    · exact Or.inr (Or.inr e)
    · exact b.elim Or.inl (fun x => Or.inr (Or.inl ((mem_erase_ne e).mpr x)))
  · intro a ha; rw [f1] at ha; simp only [baseRemoveWriter, dr] at ha; exact Or.inl ha
  · intro a ha; rw [f2] at ha; simp only [baseRemoveWriter, dwr] at ha; exact Or.inl (List.mem_of_mem_erase ha)
  · rw [f4]; simp only [baseRemoveWriter, dw]

theorem good_opn {p : State} {o : Obj} {f : Nat} (g : Good p) (c : p.w.canOpen o f = true) :
    Good (step p (.opn o f)).1 ∧ (step p (.opn o f)).1.read = p.read ∧ (step p (.opn o f)).1.write = p.write ∧
    (step p (.opn o f)).1.w = p.w.opn o f := by
  have e : (step p (.opn o f)).1 = { p with w := p.w.opn o f } := by simp [step, c]
  rw [e]
  exact ⟨⟨pinv_opn g.P c, fun f' o' hm => g.M f' o' hm⟩, rfl, rfl, rfl⟩

/-! ### a round -/

theorem foldl_baseDiscard_map (L : List Obj) (s : State) : (L.foldl baseDiscard s).map = s.map := by
  induction L generalizing s with
  | nil => rfl
  | cons x L ih => simp only [List.foldl_cons]; rw [ih]; rfl

theorem good_process {p : State} (f : Nat) (ev : Rev) (g : Good p) :
    Good (process p f ev).1 ∧ Shrink p (process p f ev).1 none := by
  rcases process_state p f ev with h | ⟨o, hm, h⟩
  · rw [h]; exact ⟨g, ⟨fun a ha => Or.inl ha, fun a ha => Or.inl ha, rfl⟩⟩
  · have P := pinv_process f ev g.P
    rw [h] at P ⊢
    obtain ⟨a1, a2, _a3, a4, a5⟩ := discState_fields p f o
    refine ⟨⟨P, ?_⟩, ⟨?_, ?_, ?_⟩⟩
    · intro f' o' hmap
      rw [a1, a2, a5]
      simp only [discState, upd_apply] at hmap
      split at hmap
      · simp at hmap
      · next ne =>
        obtain ⟨x, y⟩ := g.M f' o' hmap
        have ne' : o' ≠ o := by intro e; subst e; exact ne (map_inj g.P hmap hm)
        refine ⟨x, ?_⟩
        simp only [baseDiscard, mem_filter_ne]
        exact y.elim (fun z => Or.inl ⟨z, ne'⟩) (fun z => Or.inr ⟨z, ne'⟩)
    · intro a ha; rw [a1] at ha; simp only [baseDiscard, mem_filter_ne] at ha; exact Or.inl ha.1
    · intro a ha; rw [a2] at ha; simp only [baseDiscard, mem_filter_ne] at ha; exact Or.inl ha.1
    · rw [a4]; rfl

theorem Shrink.trans {p p' p'' : State} (a : Shrink p p' none) (b : Shrink p' p'' none) : Shrink p p'' none := by
  refine ⟨?_, ?_, by rw [b.w, a.w]⟩
  · intro x hx; rcases b.rd x hx with h | h
    · exact a.rd x h
    · simp at h
  · intro x hx; rcases b.wr x hx with h | h
    · exact a.wr x h
    · simp at h

theorem good_processAll {p : State} (t : List (Nat × Rev)) (g : Good p) :
    Good (processAll p t).1 ∧ Shrink p (processAll p t).1 none := by
  induction t generalizing p with
  | nil => exact ⟨g, ⟨fun a ha => Or.inl ha, fun a ha => Or.inl ha, rfl⟩⟩
  | cons x t ih =>
    obtain ⟨f, ev⟩ := x
    obtain ⟨g1, s1⟩ := good_process f ev g
    obtain ⟨g2, s2⟩ := ih g1
    simp only [processAll]
    exact ⟨g2, s1.trans s2⟩

theorem good_round {p : State} (fs : List Nat) (rd : Nat → Bits) (g : Good p) :
    Good (round p fs rd).1 ∧ Shrink p (round p fs rd).1 none := by
  have P := pinv_round fs rd g.P
  unfold round at P ⊢
  split
  · next hk =>
    simp only [hk] at P
    unfold selectRound at P ⊢
    split
    · next hc =>
      rw [if_pos hc] at P
      simp only [preen] at P ⊢
      obtain ⟨h1, h2, _h3, h4, h5⟩ := foldl_baseDiscard_fields ((p.read ++ p.write).filter (closedIn p)) p
      refine ⟨⟨P, ?_⟩, ⟨?_, ?_, h4⟩⟩
      · intro f o hm
        rw [foldl_baseDiscard_map] at hm
        exact absurd hk (g.M f o hm).1
      · intro a ha
        rw [mem_iff_count, h1] at ha
        split at ha
        · simp at ha
        · exact Or.inl (mem_iff_count.mpr ha)
      · intro a ha
        rw [mem_iff_count, h2] at ha
        split at ha
        · simp at ha
        · exact Or.inl (mem_iff_count.mpr ha)
    · exact ⟨g, ⟨fun a ha => Or.inl ha, fun a ha => Or.inl ha, rfl⟩⟩
  · exact good_processAll _ g

end Poller
end CV

import CV.Proofs.InvWaitMain
/-
C06, second round, part 1: WHERE the handler ids that a handler loop is still going to invoke come from.

`w6b_pending stack` = all handler ids held by the frames of the stack: the pending list of every `hLoop` /
`hAfter` / `hApply` frame and the handler of every `invoke` frame.  The flow lemma `w6b_flow`: a handler id
pending after a step was pending before it, or the step is a `_dispatcher` step and the id is in the list
that `dispatchPre` (cache lookup / `getHandlers`) hands to the handler loop.  Pure stack reasoning, no invariant.
-/
namespace CV.Core

/-- handler ids a frame is still going to invoke -/
def Frame.w6b_pend : Frame → List Nat
  | .hLoop _ _ hs _ _ => hs
  | .invoke _ h _ => [h]
  | .hAfter _ _ rest _ _ => rest
  | .hApply _ _ rest _ _ => rest
  | _ => []

def w6b_pending : List Frame → List Nat
  | [] => []
  | f :: k => f.w6b_pend ++ w6b_pending k

@[simp] theorem w6b_pending_nil : w6b_pending [] = [] := rfl
@[simp] theorem w6b_pending_cons (f : Frame) (k : List Frame) : w6b_pending (f :: k) = f.w6b_pend ++ w6b_pending k := rfl
theorem w6b_pending_append (a b : List Frame) : w6b_pending (a ++ b) = w6b_pending a ++ w6b_pending b := by
  induction a with
  | nil => rfl
  | cons f a ih => simp [ih]

theorem w6b_actStep_call (s : St) (ctx : HCtx) (a : Act) (f : Frame) (h : (actStep s ctx a).kind = .call f) :
    f.w6b_pend = [] := by
  cases a <;> simp only [actStep] at h <;> (try split at h) <;> first | (injection h with h; subst h; rfl) | cases h

/-- all pending ids of the configuration satisfy `P` -/
def W6BFlow (P : Nat → Prop) (c' : Cfg) : Prop := ∀ h, h ∈ w6b_pending c'.stack → P h

section
variable {P : Nat → Prop} {k : List Frame}

theorem W6BFlow.pop (c : Cfg) (s : St) (hk : ∀ h, h ∈ w6b_pending k → P h) : W6BFlow P (c.pop k s) := hk
theorem W6BFlow.popRet (c : Cfg) (s : St) (v : Ret) (hk : ∀ h, h ∈ w6b_pending k → P h) : W6BFlow P (c.popRet k s v) := hk
theorem W6BFlow.raise (c : Cfg) (s : St) (ex : Exn) (hk : ∀ h, h ∈ w6b_pending k → P h) : W6BFlow P (c.raise k s ex) := hk
theorem w6b_flow_call (s : St) (ctx : HCtx) (a : Act) (f g : Frame) (hc : (actStep s ctx a).kind = .call f)
    (hg : g.w6b_pend = []) : ∀ h, h ∈ w6b_pending [f, g] → P h := by
  intro h hh
  simp [w6b_actStep_call s ctx a f hc, hg] at hh
theorem W6BFlow.goto (c : Cfg) (s : St) (fs : List Frame) (hfs : ∀ h, h ∈ w6b_pending fs → P h)
    (hk : ∀ h, h ∈ w6b_pending k → P h) : W6BFlow P (c.goto k s fs) := by
  intro h hh
  rw [show (c.goto k s fs).stack = fs ++ k from rfl, w6b_pending_append] at hh
  rcases List.mem_append.1 hh with hh | hh
  · exact hfs h hh
  · exact hk h hh
end

syntax "w6b_fl1" : tactic
macro_rules | `(tactic| w6b_fl1) => `(tactic| split)
macro_rules | `(tactic| w6b_fl1) => `(tactic| (intro _ hmem; simp [Frame.w6b_pend] at hmem; done))
macro_rules | `(tactic| w6b_fl1) => `(tactic| with_reducible apply W6BFlow.goto)
macro_rules | `(tactic| w6b_fl1) => `(tactic| with_reducible apply W6BFlow.raise)
macro_rules | `(tactic| w6b_fl1) => `(tactic| with_reducible apply W6BFlow.popRet)
macro_rules | `(tactic| w6b_fl1) => `(tactic| with_reducible apply W6BFlow.pop)
macro_rules | `(tactic| w6b_fl1) => `(tactic| with_reducible assumption)
macro "w6b_fl" : tactic => `(tactic| repeat' w6b_fl1)

section
variable {P : Nat → Prop} {k : List Frame}

theorem W6BFlow.contStop (c : Cfg) (s : St) (r : Nat) (t : Task) (hk : ∀ h, h ∈ w6b_pending k → P h) :
    W6BFlow P (c.contStop k s r t) := by
  unfold Cfg.contStop; w6b_fl
theorem W6BFlow.contError (c : Cfg) (s : St) (r : Nat) (t : Task) (b : Bool) (hk : ∀ h, h ∈ w6b_pending k → P h) :
    W6BFlow P (c.contError k s r t b) := by
  unfold Cfg.contError; w6b_fl
end
macro_rules | `(tactic| w6b_fl1) => `(tactic| with_reducible apply W6BFlow.contStop)
macro_rules | `(tactic| w6b_fl1) => `(tactic| with_reducible apply W6BFlow.contError)

section
variable {P : Nat → Prop} {k : List Frame}
theorem W6BFlow.ptBodyWait (c : Cfg) (r : Nat) (t : Task) (w : Nat) (hk : ∀ h, h ∈ w6b_pending k → P h) :
    W6BFlow P (c.ptBodyWait k r t w) := by
  unfold Cfg.ptBodyWait; (try dsimp only); w6b_fl
theorem W6BFlow.ptBodyExc (c : Cfg) (r : Nat) (t : Task) (w : Nat) (b : Bool) (hk : ∀ h, h ∈ w6b_pending k → P h) :
    W6BFlow P (c.ptBodyExc k r t w b) := by
  unfold Cfg.ptBodyExc; (try dsimp only); w6b_fl
theorem W6BFlow.invokeUser (c : Cfg) (s : St) (h e o p : Nat) (hk : ∀ h, h ∈ w6b_pending k → P h) :
    W6BFlow P (c.invokeUser k s h e o p) := by
  unfold Cfg.invokeUser; (try dsimp only); w6b_fl
theorem W6BFlow.runCatchExn (c : Cfg) (x : Nat) (ex : Exn) (hk : ∀ h, h ∈ w6b_pending k → P h) :
    W6BFlow P (c.runCatchExn k x ex) := by
  unfold Cfg.runCatchExn
  split
  · intro h hh
    exact hk h (by simpa [Frame.w6b_pend] using hh)
  · exact hk
end
macro_rules | `(tactic| w6b_fl1) => `(tactic| with_reducible apply W6BFlow.ptBodyWait)
macro_rules | `(tactic| w6b_fl1) => `(tactic| with_reducible apply W6BFlow.ptBodyExc)
macro_rules | `(tactic| w6b_fl1) => `(tactic| with_reducible apply W6BFlow.invokeUser)
macro_rules | `(tactic| w6b_fl1) => `(tactic| with_reducible apply W6BFlow.runCatchExn)

/-- the handler the loop picks is one of the pending ones -/
theorem St.w6b_chooseHandler_mem (s : St) (e h0 : Nat) (rest0 : List Nat) : s.chooseHandler e h0 rest0 ∈ h0 :: rest0 := by
  unfold St.chooseHandler
  dsimp only
  have htw : ∀ x, x ∈ (h0 :: rest0).takeWhile (fun h => (s.hs.getD h dfltHandler).prio == (s.hs.getD h0 dfltHandler).prio) →
      x ∈ h0 :: rest0 := fun x hx => (List.takeWhile_sublist _).subset hx
  split
  · split
    · rename_i hc
      simp only [Bool.and_eq_true, List.contains_eq_mem, decide_eq_true_eq] at hc
      exact htw _ (by simpa using hc.2)
    · exact List.mem_cons_self
  · split
    · generalize hf : List.find? _ _ = o
      cases o with
      | none => exact List.mem_cons_self
      | some x => exact htw _ (List.mem_of_find?_eq_some hf)
    · exact List.mem_cons_self
  · exact List.mem_cons_self

/-- the flow of pending handler ids through one frame arm -/
theorem w6b_stepFrame_flow (c : Cfg) (k : List Frame) (f : Frame) (P : Nat → Prop)
    (hf : ∀ h, h ∈ f.w6b_pend → P h) (hk : ∀ h, h ∈ w6b_pending k → P h)
    (hd : ∀ r e rem hs, f = .dispatcher r e rem → (c.st.dispatchPre r e rem).1 = some hs → ∀ h, h ∈ hs → P h) :
    W6BFlow P (stepFrame c k f) := by
  cases f
  case dispatcher r e rem =>
    dsimp only [stepFrame]
    unfold Cfg.dispatcher
    split
    · w6b_fl
    · rename_i hs heq
      apply W6BFlow.goto _ _ _ _ hk
      intro h hh
      simp only [w6b_pending_cons, w6b_pending_nil, Frame.w6b_pend, List.append_nil] at hh
      exact hd r e rem hs rfl heq h hh
  case hLoop r e hs err stale =>
    dsimp only [stepFrame]
    unfold Cfg.hLoop
    split
    · w6b_fl
    · rename_i h0 rest0
      apply W6BFlow.goto _ _ _ _ hk
      intro h hh
      simp only [w6b_pending_cons, w6b_pending_nil, Frame.w6b_pend, List.append_nil, List.mem_append,
        List.mem_singleton] at hh
      rcases hh with hh | hh
      · subst hh; exact hf _ (St.w6b_chooseHandler_mem ..)
      · exact hf _ (List.mem_of_mem_erase hh)
  case hAfter r e rest err stale =>
    dsimp only [stepFrame]
    unfold Cfg.hAfter
    split <;> (apply W6BFlow.goto _ _ _ _ hk; intro h hh;
               simp only [w6b_pending_cons, w6b_pending_nil, Frame.w6b_pend, List.append_nil, List.nil_append] at hh;
               exact hf _ hh)
  case hApply r e rest err value =>
    dsimp only [stepFrame]
    unfold Cfg.hApply
    dsimp only
    split
    · w6b_fl
    · apply W6BFlow.goto _ _ _ _ hk
      intro h hh
      simp only [w6b_pending_cons, w6b_pending_nil, Frame.w6b_pend, List.append_nil] at hh
      exact hf _ hh
  case invoke r h e =>
    dsimp only [stepFrame]
    unfold Cfg.invoke
    dsimp only
    w6b_fl
  case acts ctx prog =>
    dsimp only [stepFrame]
    unfold Cfg.acts
    split
    · w6b_fl
    · split
      · w6b_fl
      · w6b_fl
      · rename_i hc
        exact W6BFlow.goto _ _ _ (w6b_flow_call _ _ _ _ _ hc rfl) hk
  case stepGen g =>
    dsimp only [stepFrame]
    unfold Cfg.stepGen
    dsimp only
    split
    · split
      · w6b_fl
      · split
        · w6b_fl
        · w6b_fl
        · w6b_fl
        · w6b_fl
        · split
          · w6b_fl
          · w6b_fl
          · rename_i hc
            exact W6BFlow.goto _ _ _ (w6b_flow_call _ _ _ _ _ hc rfl) hk
    · w6b_fl
  all_goals
    dsimp only [stepFrame]
    first
      | (unfold Cfg.effectDone; w6b_fl) | (unfold Cfg.eventDone; w6b_fl) | (unfold Cfg.updateRoot; w6b_fl)
      | (unfold Cfg.register; (try dsimp only); w6b_fl) | (unfold Cfg.registerFin; w6b_fl)
      | (unfold Cfg.prepUnregFin; w6b_fl) | (unfold Cfg.stopMgr; (try dsimp only); w6b_fl)
      | (unfold Cfg.ticks; w6b_fl) | (unfold Cfg.stopFin; w6b_fl) | (unfold Cfg.timerNew; w6b_fl)
      | (unfold Cfg.doFin; w6b_fl) | (unfold Cfg.drainQ; w6b_fl)
      | (unfold Cfg.processTask; (try dsimp only); w6b_fl)
      | (unfold Cfg.ptBody; w6b_fl) | (unfold Cfg.ptOwn; w6b_fl) | (unfold Cfg.ptParent; w6b_fl)
      | (unfold Cfg.ptFin; w6b_fl) | (unfold Cfg.invokeFin; w6b_fl) | (unfold Cfg.dispFin; w6b_fl)
      | (unfold Cfg.dispatchLoop; w6b_fl) | (unfold Cfg.flush; (try dsimp only); w6b_fl) | (unfold Cfg.flushFin; w6b_fl)
      | (unfold Cfg.tick; (try dsimp only); w6b_fl) | (unfold Cfg.taskLoop; (try dsimp only); w6b_fl)
      | (unfold Cfg.tickFin; w6b_fl) | (unfold Cfg.tickGen; (try dsimp only); w6b_fl) | (unfold Cfg.run; w6b_fl)
      | (unfold Cfg.runLoop; (try dsimp only); w6b_fl) | (unfold Cfg.runFin; w6b_fl) | (unfold Cfg.runRethrow; w6b_fl)
      | w6b_fl

theorem w6b_unwind_flow (c : Cfg) (k : List Frame) (ex : Exn) (f : Frame) (P : Nat → Prop)
    (hk : ∀ h, h ∈ w6b_pending k → P h) : W6BFlow P (unwind c k ex f) := by
  cases f <;> dsimp only [unwind] <;>
    first
      | (unfold Cfg.ptFin; w6b_fl) | (unfold Cfg.invokeFin; w6b_fl) | (unfold Cfg.flushFin; w6b_fl)
      | (unfold Cfg.tickFin; w6b_fl) | (unfold Cfg.runRethrow; w6b_fl) | w6b_fl

/-- **flow of pending handler ids**: an id pending after a step was pending before it, or the step is a
    `_dispatcher` step and the id is in the list `dispatchPre` hands to the handler loop -/
theorem w6b_flow (c : Cfg) (h : Nat) (hh : h ∈ w6b_pending (step c).stack) :
    h ∈ w6b_pending c.stack ∨
    ∃ r e rem k hs, c.stack = .dispatcher r e rem :: k ∧ c.exn = none ∧ (c.st.dispatchPre r e rem).1 = some hs ∧ h ∈ hs := by
  revert h
  show W6BFlow _ (step c)
  unfold step
  split
  · intro h hh; exact Or.inl hh
  · rename_i f k hs
    split
    · apply w6b_unwind_flow
      intro h hh; left; rw [hs]; simp [hh]
    · rename_i hx
      apply w6b_stepFrame_flow
      · intro h hh; left; rw [hs]; simp [hh]
      · intro h hh; left; rw [hs]; simp [hh]
      · intro r e rem hs' hf hd h hh
        right
        subst hf
        exact ⟨r, e, rem, k, hs', hs, hx, hd, hh⟩

end CV.Core

import CV.Proofs.NodeTwo
/-
C19, two-party composition: the receive firewall is a gate in front of the dispatcher.  No hypothesis
about the codec, the bytes on the wire or the peer: whatever arrives, in whatever cuts, an event is
only ever dispatched on B if B's receive firewall accepted it.
-/
namespace CV
namespace Node

theorem n2_processJ_fire (c : Cfg) (s : Proto) (j : J) (e : Ev) (id : J)
    (h : Eff.fire e id ∈ (processJ c s j).2) : c.recvOk e = true := by
  unfold processJ at h
  split at h
  · split at h
    · split at h
      · split at h <;> simp at h
      · simp at h
    · simp at h
  · split at h
    · rename_i e' id' _
      split at h
      · rename_i hr
        simp at h
        obtain ⟨rfl, _⟩ := h
        exact hr
      · simp at h
    · simp at h

theorem n2_processAll_fire (c : Cfg) (parse : Bytes → PRes) (e : Ev) (id : J) :
    ∀ (ps : List Bytes) (s : Proto), Eff.fire e id ∈ (processAll c parse s ps).2 → c.recvOk e = true := by
  intro ps
  induction ps with
  | nil => intro s h; simp [processAll] at h
  | cons p ps ih =>
    intro s h
    simp only [processAll] at h
    split at h
    · rename_i j _
      simp only [List.mem_append] at h
      rcases h with h | h
      · exact n2_processJ_fire c s j e id h
      · exact ih _ h
    · exact ih _ h

theorem n2_recv_fire (c : Cfg) (parse : Bytes → PRes) (s : Proto) (d : Bytes) (e : Ev) (id : J)
    (h : Eff.fire e id ∈ (recv c parse s d).2.1) : c.recvOk e = true := by
  simp only [recv] at h
  exact n2_processAll_fire c parse e id _ _ h

theorem n2_absorbB_gate (E : n2_Env) :
    ∀ (effs : List Eff) (w : n2_World), (∀ e id, Eff.fire e id ∈ effs → E.recvOkB e = true) →
      (∀ x ∈ w.fired, E.recvOkB x.1 = true) → ∀ x ∈ (n2_absorbB E w effs).fired, E.recvOkB x.1 = true := by
  intro effs
  induction effs with
  | nil => intro w _ hw; simpa [n2_absorbB] using hw
  | cons ef r ih =>
    intro w he hw
    cases ef with
    | fire e id =>
      simp only [n2_absorbB]
      apply ih
      · intro e' id' h'; exact he e' id' (List.mem_cons_of_mem _ h')
      · intro x hx
        simp only [List.mem_append, List.mem_singleton] at hx
        rcases hx with hx | rfl
        · exact hw x hx
        · exact he e id (List.mem_cons_self ..)
    | write p =>
      simp only [n2_absorbB]
      exact ih _ (fun e' id' h' => he e' id' (List.mem_cons_of_mem _ h')) hw
    | resolve n v er =>
      simp only [n2_absorbB]
      exact ih _ (fun e' id' h' => he e' id' (List.mem_cons_of_mem _ h')) hw

theorem n2_absorbA_fired (E : n2_Env) :
    ∀ (effs : List Eff) (w : n2_World), (n2_absorbA E w effs).fired = w.fired := by
  intro effs
  induction effs with
  | nil => intro w; rfl
  | cons ef r ih =>
    intro w
    cases ef <;> simp only [n2_absorbA] <;> rw [ih]

/-- one step keeps "everything dispatched was accepted" -/
theorem n2_step_gate (E : n2_Env) (w : n2_World) (st : n2_Step)
    (hw : ∀ x ∈ w.fired, E.recvOkB x.1 = true) : ∀ x ∈ (n2_step E w st).fired, E.recvOkB x.1 = true := by
  cases st with
  | send =>
    simp only [n2_step]
    split
    · exact hw
    · exact hw
  | deliverAB n =>
    simp only [n2_step]
    apply n2_absorbB_gate E
    · intro e id h; exact n2_recv_fire E.cB E.parse w.b _ e id h
    · exact hw
  | answer n =>
    simp only [n2_step]
    split
    · exact hw
    · rename_i w' r h
      have hf : w'.fired = w.fired := by
        simp only [n2_takeAnswer] at h
        split at h
        · cases h
        · cases h; rfl
      simp only [n2_resultHandler]
      split
      · split
        · intro x hx; exact hw x (by simpa [hf] using hx)
        · intro x hx; exact hw x (by simpa [hf] using hx)
      · intro x hx; exact hw x (by simpa [hf] using hx)
  | deliverBA n =>
    simp only [n2_step]
    rw [n2_absorbA_fired]
    exact hw
  | poll n =>
    simp only [n2_step]
    split
    · split
      · exact hw
      · exact hw
    · exact hw

theorem n2_run_gate (E : n2_Env) (sched : List n2_Step) :
    ∀ (w : n2_World), (∀ x ∈ w.fired, E.recvOkB x.1 = true) →
      ∀ x ∈ (n2_run E w sched).fired, E.recvOkB x.1 = true := by
  induction sched with
  | nil => intro w hw; exact hw
  | cons st r ih =>
    intro w hw
    simp only [n2_run, List.foldl_cons]
    exact ih _ (n2_step_gate E w st hw)

end Node
end CV

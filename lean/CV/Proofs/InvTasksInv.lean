import CV.Proofs.InvTasksSpecial
/-
waitingHandlers accounting, part 4: the configuration invariant `T46Inv`, the run hypothesis `T46Guard`, and the
lemmas about stack shapes.

`T46Inv c`
  * `acct`  : for every event e,  (frame weights of e on the stack) ≤ slack of e
              i.e.  waiting e ≥ task weights + pending-wait weights + frame weights  (all weights ≥ 0);
  * `nd`    : task sets are duplicate-free;
  * `shape` : a `.taskLoop x ts` frame has only quiet frames below it (no task frame, no other task loop, no handler
              in progress), `x` is its own root, `ts` is a duplicate-free part of x's task set; a task frame
              (`.processTask / .ptBody / .ptOwn / .ptParent r t`) sits directly on (its `ptFin` and) the task loop of
              the same component, `t` has been taken out of the loop's list, and - except for `.ptParent`, which runs
              after the unregistration - `t` is still in the task set.  So at most ONE task is in flight.
-/
namespace CV.Core

def Frame.t46_plain : Frame → Bool
  | .processTask .. => false
  | .ptBody .. => false
  | .ptOwn .. => false
  | .ptParent .. => false
  | .taskLoop .. => false
  | _ => true

/-- frames that must not be below a task loop: task frames, task loops, a handler in progress -/
def Frame.t46_noisy : Frame → Bool
  | .processTask .. => true
  | .ptBody .. => true
  | .ptOwn .. => true
  | .ptParent .. => true
  | .taskLoop .. => true
  | .hAfter .. => true
  | .hApply .. => true
  | _ => false

def t46_quiet (k : List Frame) : Bool := k.all fun f => !f.t46_noisy

/-- what a task frame of component `r` for task `t` sits on -/
def T46Under (r : Nat) (t : Task) : List Frame → Prop
  | .taskLoop x ts :: _ => x = r ∧ t ∉ ts
  | .ptFin _ _ :: .taskLoop x ts :: _ => x = r ∧ t ∉ ts
  | _ => False

/-- `.processTask` sits directly on the task loop -/
def T46Under0 (r : Nat) (t : Task) : List Frame → Prop
  | .taskLoop x ts :: _ => x = r ∧ t ∉ ts
  | _ => False

def T46FrameOk (s : St) (k : List Frame) : Frame → Prop
  | .taskLoop x ts => t46_quiet k = true ∧ s.rootOf x = x ∧ ts.Nodup ∧ ∀ t ∈ ts, t ∈ (s.comp x).tasks
  | .processTask r t => T46Under0 r t k ∧ t ∈ (s.comp r).tasks
  | .ptBody r t => T46Under r t k ∧ t ∈ (s.comp r).tasks
  | .ptOwn r t => T46Under r t k ∧ t ∈ (s.comp r).tasks
  | .ptParent r t _ _ => T46Under r t k
  | _ => True

def T46Shape (s : St) : List Frame → Prop
  | [] => True
  | f :: k => T46FrameOk s k f ∧ T46Shape s k

structure T46Inv (c : Cfg) : Prop where
  acct : ∀ e, t46_WF e c.stack ≤ c.st.t46_D e
  nd : ∀ x, (c.st.comp x).tasks.Nodup
  shape : T46Shape c.st c.stack

/-- RUN HYPOTHESIS (see the header of CV/Proofs/InvTasksMain.lean for which clauses are real restrictions). -/
structure T46Guard (c : Cfg) : Prop where
  /-- `tick()` with pending tasks is entered only outside task processing and outside handlers, on a root -/
  tick : ∀ x k, c.stack = .tick x :: k → c.exn = none → (c.st.comp x).tasks ≠ [] →
    t46_quiet k = true ∧ c.st.rootOf x = x
  /-- a step does not change the root of a component whose task loop is active -/
  root : ∀ x ts, Frame.taskLoop x ts ∈ c.stack → (step c).st.rootOf x = c.st.rootOf x
  /-- the event whose handler returned a generator exists -/
  gen : ∀ r e rest err g k, c.stack = .hApply r e rest err (.gen g) :: k → c.exn = none → e < c.st.evs.length
  /-- the task whose own generator yields a `call`/`wait` is an ordinary generator task of an existing event -/
  own : ∀ r t k w, c.stack = .ptOwn r t :: k → c.exn = none → c.ret.yield = .sub w →
    t.parent = none ∧ t.e < c.st.evs.length
  /-- `_on_done` of a wait state runs on a started wait state (when its flag is already set - a second `_done` event of the
      awaited event, or a stale invocation after the resumption - it does nothing since the fix
      "waitEvent's _on_done does nothing once the awaited event is known to be done") -/
  done : ∀ r h e k w, c.stack = .invoke r h e :: k → c.exn = none → (c.st.handler h).kind = .waitDone w →
    (c.st.wait w).started = true
  /-- `_on_tick` of a wait state runs on a started wait state -/
  tickh : ∀ r h e k w, c.stack = .invoke r h e :: k → c.exn = none → (c.st.handler h).kind = .waitTick w →
    (c.st.wait w).started = true

/-! ## stack shapes -/

theorem T46FrameOk.of_plain {s : St} {k : List Frame} {f : Frame} (h : f.t46_plain = true) : T46FrameOk s k f := by
  cases f <;> first | trivial | cases h

theorem Frame.t46_plain_of_quiet {f : Frame} (h : f.t46_noisy = false) : f.t46_plain = true := by
  cases f <;> first | rfl | cases h

theorem Frame.t46_wt_plain {f : Frame} (e : Nat) (h : f.t46_plain = true) : f.t46_wt e = 0 := by
  cases f <;> first | rfl | cases h

theorem t46_WF_plain (e : Nat) : ∀ (fs : List Frame), (∀ f ∈ fs, f.t46_plain = true) → t46_WF e fs = 0
  | [], _ => rfl
  | f :: fs, h => by
    rw [t46_WF_cons, Frame.t46_wt_plain e (h f (by simp)), t46_WF_plain e fs (fun g hg => h g (by simp [hg]))]
    rfl

theorem T46Shape.of_quiet {s : St} : ∀ {k : List Frame}, t46_quiet k = true → T46Shape s k
  | [], _ => trivial
  | f :: k, h => by
    simp only [t46_quiet, List.all_cons, Bool.and_eq_true, Bool.not_eq_true'] at h
    exact ⟨T46FrameOk.of_plain (Frame.t46_plain_of_quiet h.1), T46Shape.of_quiet (by simpa [t46_quiet] using h.2)⟩

theorem T46Shape.append_plain {s : St} {k : List Frame} : ∀ {fs : List Frame}, (∀ f ∈ fs, f.t46_plain = true) →
    T46Shape s k → T46Shape s (fs ++ k)
  | [], _, h => h
  | f :: fs, hp, h => ⟨T46FrameOk.of_plain (hp f (by simp)), T46Shape.append_plain (fun g hg => hp g (by simp [hg])) h⟩

theorem t46_quiet_append_plain {k : List Frame} {fs : List Frame} (hfs : ∀ f ∈ fs, f.t46_noisy = false)
    (h : t46_quiet k = true) : t46_quiet (fs ++ k) = true := by
  simp only [t46_quiet, List.all_append, Bool.and_eq_true, List.all_eq_true, Bool.not_eq_true'] at h ⊢
  exact ⟨hfs, h⟩

/-- task sets grew (nothing was unregistered) and the roots of active task loops are unchanged: shapes carry over -/
theorem T46Shape.mono {s s' : St} (hG : St.T46G none s s') : ∀ {k : List Frame},
    (∀ x ts, Frame.taskLoop x ts ∈ k → s'.rootOf x = s.rootOf x) → T46Shape s k → T46Shape s' k
  | [], _, _ => trivial
  | f :: k, hr, h => by
    refine ⟨?_, T46Shape.mono hG (fun x ts hm => hr x ts (by simp [hm])) h.2⟩
    have h1 := h.1
    have hg : ∀ x t, t ∈ (s.comp x).tasks → t ∈ (s'.comp x).tasks := fun x t => hG.grow x t (by simp)
    cases f <;> try exact h1
    case processTask r t => exact ⟨h1.1, hg _ _ h1.2⟩
    case ptBody r t => exact ⟨h1.1, hg _ _ h1.2⟩
    case ptOwn r t => exact ⟨h1.1, hg _ _ h1.2⟩
    case taskLoop x ts =>
      obtain ⟨a, b, c, d⟩ := h1
      exact ⟨a, by rw [hr x ts (by simp)]; exact b, c, fun t ht => hg _ _ (d t ht)⟩

theorem T46Under.elim {r : Nat} {t : Task} {k : List Frame} (h : T46Under r t k) :
    ∃ pre ts k', k = pre ++ Frame.taskLoop r ts :: k' ∧ t ∉ ts ∧ (∀ f ∈ pre, f.t46_plain = true) ∧
      (pre = [] ∨ ∃ a b, pre = [Frame.ptFin a b]) := by
  rcases k with _ | ⟨f, k⟩
  · cases h
  · cases f <;> first | (simp [T46Under] at h; done) | skip
    case taskLoop x ts =>
      obtain ⟨h1, h2⟩ := h
      subst h1
      exact ⟨[], ts, k, rfl, h2, by simp, Or.inl rfl⟩
    case ptFin a b =>
      rcases k with _ | ⟨f2, k2⟩
      · simp [T46Under] at h
      · cases f2 <;> first | (simp [T46Under] at h; done) | skip
        case taskLoop x ts =>
          obtain ⟨h1, h2⟩ := h
          subst h1
          exact ⟨[.ptFin a b], ts, k2, rfl, h2, by simp [Frame.t46_plain], Or.inr ⟨a, b, rfl⟩⟩

theorem T46Under0.elim {r : Nat} {t : Task} {k : List Frame} (h : T46Under0 r t k) :
    ∃ ts k', k = Frame.taskLoop r ts :: k' ∧ t ∉ ts := by
  rcases k with _ | ⟨f, k⟩
  · cases h
  · cases f <;> first | (simp [T46Under0] at h; done) | skip
    case taskLoop x ts =>
      obtain ⟨h1, h2⟩ := h
      subst h1
      exact ⟨ts, k, rfl, h2⟩

theorem T46Under0.fin {r : Nat} {t : Task} {k : List Frame} (h : T46Under0 r t k) (a : Nat) (b : Option Nat) :
    T46Under r t (Frame.ptFin a b :: k) := by
  obtain ⟨ts, k', hk, hn⟩ := h.elim
  subst hk
  exact ⟨rfl, hn⟩

theorem T46Shape.drop_plain {s : St} {k : List Frame} : ∀ {pre : List Frame}, T46Shape s (pre ++ k) → T46Shape s k
  | [], h => h
  | _ :: pre, h => T46Shape.drop_plain (pre := pre) h.2

/-- the facts a task frame can read off the stack below it -/
theorem T46Shape.under {s : St} {r : Nat} {t : Task} {k : List Frame} (hu : T46Under r t k) (hs : T46Shape s k) :
    s.rootOf r = r ∧ ∃ pre ts k', k = pre ++ Frame.taskLoop r ts :: k' ∧ t ∉ ts ∧ (∀ f ∈ pre, f.t46_plain = true) ∧
      t46_quiet k' = true ∧ ts.Nodup ∧ (∀ t' ∈ ts, t' ∈ (s.comp r).tasks) := by
  obtain ⟨pre, ts, k', hk, hn, hp, _⟩ := hu.elim
  subst hk
  have h1 := (T46Shape.drop_plain hs).1
  exact ⟨h1.2.1, pre, ts, k', rfl, hn, hp, h1.1, h1.2.2.1, h1.2.2.2⟩

/-- the task `t` of the frame on top was (possibly) unregistered, everything else grew: the stack below keeps its shape -/
theorem T46Shape.under_mono {s s' : St} {r : Nat} {t : Task} {k : List Frame} (hu : T46Under r t k)
    (hs : T46Shape s k) (hG : St.T46G (some t) s s')
    (hr : ∀ x ts, Frame.taskLoop x ts ∈ k → s'.rootOf x = s.rootOf x) : T46Shape s' k := by
  obtain ⟨hroot, pre, ts, k', hk, hn, hp, hq, hnd, hmem⟩ := T46Shape.under hu hs
  subst hk
  refine T46Shape.append_plain hp ⟨⟨hq, ?_, hnd, fun t' ht' => ?_⟩, T46Shape.of_quiet hq⟩
  · rw [hr r ts (by simp)]; exact hroot
  · refine hG.grow r t' (fun he => hn ?_) (hmem t' ht')
    cases he; exact ht'

end CV.Core

import CV.Proofs.InvTasksQ
import CV.Proofs.InvTasksDev
import CV.Proofs.InvTasksWait
/-
waitingHandlers accounting, part 16: the RANGE invariant `T46RQ` over ALL sessions (`Reach`, no guard needed): event ids in
the queues of all components, in `Timer.event` and in the frames `.dispatcher / .hLoop / .hAfter / .hApply` are ids of
existing events.  It discharges clause (gen) of `T46Guard`.
-/
namespace CV.Core

theorem t46_stepFrame_q (c : Cfg) (k : List Frame) (f : Frame) : St.T46Q c.st (stepFrame c k f).st := by
  cases f <;> (dsimp only [stepFrame]; t46q)

theorem t46_unwind_q (c : Cfg) (k : List Frame) (ex : Exn) (f : Frame) : St.T46Q c.st (unwind c k ex f).st := by
  cases f <;> (dsimp only [unwind]; t46q)

theorem t46_step_q (c : Cfg) : St.T46Q c.st (step c).st := by
  unfold step
  split
  · exact St.T46Q.refl _
  · split
    · exact t46_unwind_q ..
    · exact t46_stepFrame_q ..

structure T46RQ (c : Cfg) : Prop where
  ok : c.st.T46QOk
  fr : ∀ f ∈ c.stack, ∀ e, f.t46_dEv = some e → e < c.st.evs.length

theorem T46RQ.ofDev {c c' : Cfg} (h : T46RQ c) {f : Frame} {k : List Frame} (hs : c.stack = f :: k)
    (hq : St.T46Q c.st c'.st) (hd : T46DevOk f k c') : T46RQ c' := by
  obtain ⟨fs, hfs, hall⟩ := hd
  refine ⟨hq.ok h.ok, fun g hg e he => ?_⟩
  rw [hfs] at hg
  refine Nat.lt_of_lt_of_le ?_ hq.evs
  rcases List.mem_append.1 hg with h1 | h1
  · have := List.all_eq_true.1 hall g h1
    simp only [Frame.t46_dOk, he, beq_iff_eq] at this
    exact h.fr f (by rw [hs]; simp) e this
  · exact h.fr g (by rw [hs]; simp [h1]) e he

theorem t46_step_rq (c : Cfg) (h : T46RQ c) : T46RQ (step c) := by
  cases hs : c.stack with
  | nil => rw [step_nil c hs]; exact h
  | cons f k =>
    have hq := t46_step_q c
    cases hx : c.exn with
    | some ex =>
      rw [step_cons_exn c f k ex hs hx] at hq ⊢
      exact h.ofDev hs hq (t46_unwind_dev c k ex f)
    | none =>
      rw [step_cons c f k hs hx] at hq ⊢
      by_cases hdl : ∃ r, f = .dispatchLoop r
      · obtain ⟨r, hf⟩ := hdl
        subst hf
        refine ⟨hq.ok h.ok, ?_⟩
        dsimp only [stepFrame] at hq ⊢
        unfold Cfg.dispatchLoop at hq ⊢
        split
        · intro g hg e he
          exact h.fr g (by rw [hs]; simp [show g ∈ k from hg]) e he
        · rename_i it q hp
          intro g hg e he
          have hg' : g = .dispatcher r it.ev q.batch ∨ g = .dispatchLoop r ∨ g ∈ k := by simpa using hg
          rcases hg' with h1 | h1 | h1
          · subst h1
            simp only [Frame.t46_dEv, Option.some.injEq] at he
            subst he
            have := (EQ.t46_pop_has _ _ it q hp).1
            exact h.ok.1 r it this
          · subst h1; cases he
          · exact h.fr g (by rw [hs]; simp [h1]) e he
      · exact h.ofDev hs hq (t46_stepFrame_dev c k f (fun r hf => hdl ⟨r, hf⟩))

/-- the hypothesis on the initial state: every id in a queue or in a `Timer.event` is the id of an existing event
    (e.g. all queues empty and no timer has fired yet) -/
def T46InitQ (s0 : St) : Prop := s0.T46QOk

theorem t46_start_rq (s : St) (hs : s.T46QOk) (d : Nat) (tape : List Entry) (op : ExtOp) :
    T46RQ (startOf (envChange s d tape) op) := by
  refine ⟨?_, ?_⟩
  · have : (startOf (envChange s d tape) op).st = envChange s d tape := by cases op <;> rfl
    rw [this]; exact hs
  · cases op <;> (intro g hg e he; simp [startOf, startDo, startTick, startFlush, startRun, Cfg.start] at hg) <;>
      first | (rcases hg with h1 | h1 <;> subst h1 <;> cases he) | (subst hg; cases he)

/-- **the range invariant holds in every configuration of every session** -/
theorem t46_reach_rq {s0 : St} (h0 : T46InitQ s0) : ∀ c, Reach s0 c → T46RQ c :=
  Reach.inv (fun c => T46RQ c) (fun d tape op => t46_start_rq s0 h0 d tape op) t46_step_rq
    (fun c d tape op hc _ => t46_start_rq c.st hc.ok d tape op)

/-- clause (gen) -/
theorem T46RQ.gen {c : Cfg} (h : T46RQ c) (r e : Nat) (rest : List Nat) (err : Bool) (v : Outcome) (k : List Frame)
    (hs : c.stack = .hApply r e rest err v :: k) : e < c.st.evs.length :=
  h.fr (.hApply r e rest err v) (by rw [hs]; simp) e rfl

/-- `T46Guard` without the clauses provided by `W6CInv` (C06) and by the range invariant `T46RQ` -/
structure T46GuardMin (c : Cfg) : Prop where
  tick : ∀ x k, c.stack = .tick x :: k → c.exn = none → (c.st.comp x).tasks ≠ [] →
    t46_quiet k = true ∧ c.st.rootOf x = x
  root : ∀ x ts, Frame.taskLoop x ts ∈ c.stack → (step c).st.rootOf x = c.st.rootOf x
  own : ∀ r t k w, c.stack = .ptOwn r t :: k → c.exn = none → c.ret.yield = .sub w →
    t.parent = none ∧ t.e < c.st.evs.length

theorem T46Guard.of_min {n0 : Nat} {c : Cfg} (hm : T46GuardMin c) (hw : W6CInv n0 c) (hq : T46RQ c) : T46Guard c :=
  T46Guard.of_core ⟨hm.tick, hm.root, fun r e rest err g k hs _ => hq.gen r e rest err (.gen g) k hs, hm.own⟩ hw

/-- admissible sessions (`W6ReachW`) on which the minimal guard holds at every step taken -/
inductive T46ReachM (s0 : St) : Cfg → Prop
  | init (d : Nat) (tape : List Entry) (op : ExtOp) (hop : op.w6ok s0.hs.length) :
      T46ReachM s0 (startOf (envChange s0 d tape) op)
  | step {c : Cfg} : T46ReachM s0 c → T46GuardMin c → T46ReachM s0 (CV.Core.step c)
  | next {c : Cfg} (d : Nat) (tape : List Entry) (op : ExtOp) (hop : op.w6ok s0.hs.length) :
      T46ReachM s0 c → done c = true → T46ReachM s0 (startOf (envChange c.st d tape) op)

theorem T46ReachM.admissible {s0 : St} {c : Cfg} (h : T46ReachM s0 c) : W6ReachW s0.hs.length s0 c := by
  induction h with
  | init d tape op hop => exact W6ReachW.init d tape op hop
  | step _ _ ih => exact W6ReachW.step ih
  | next d tape op hop _ hd ih => exact W6ReachW.next d tape op hop ih hd

theorem T46ReachM.guarded {s0 : St} (hi : W6InitWait s0) (hq : T46InitQ s0) {c : Cfg} (h : T46ReachM s0 c) :
    T46Reach s0 c := by
  induction h with
  | init d tape op _ => exact T46Reach.init d tape op
  | step hprev hg ih =>
    exact T46Reach.step ih (T46Guard.of_min hg (hprev.admissible.cinv hi) (t46_reach_rq hq _ hprev.admissible.reach))
  | next d tape op _ _ hd ih => exact T46Reach.next d tape op ih hd

/-- an initial state with empty queues and timers that have not fired satisfies `T46InitQ` -/
theorem T46InitQ.of_empty (s0 : St) (hq : ∀ x, (s0.comp x).eq.queue = [] ∧ (s0.comp x).eq.heap = [])
    (ht : ∀ (i : Nat) (tm : TimerSt), s0.timers[i]? = some tm → tm.ev = none) : T46InitQ s0 := by
  refine ⟨fun x it hit => ?_, fun i tm te hi he => ?_⟩
  · rcases hit with h | h
    · rw [(hq x).1] at h; cases h
    · rw [(hq x).2] at h; cases h
  · rw [ht i tm hi] at he; cases he

end CV.Core

import CV.Proofs.InvWaitBase
/-
C06, local layer: WHICH step can do WHAT to the wait protocol.

`St.W6Q m s s'` ("`s'` is reached from `s` without doing any of the things selected by the mask
`m`") has one clause per protocol action:

  lg  no `.resumed` / `.timeout` entry is logged
  fl  no wait state's `flag` changes                  (only `_on_done` may)
  rn  no wait state's `run` / `event` changes         (only `_on_event` may)
  tm  no existing wait state's `timeout` changes      (only `_on_tick` may)
  ex  no `GenRec.exc` generator appears or changes    (only `_on_tick` / its own task step may)
  dn  no `_done` child event is created               (only `_eventDone` may)

plus, unconditionally: tables only grow, existing events keep `name` and `parentEv`.
Every helper of the machine respects `Q m` for every `m`, except the six protocol helpers, which
respect it for the mask with "their" bit cleared.  `w6_step_q` lifts this to `step`; the local
theorems of `CV.Props.C06` are read off from it.
-/
namespace CV.Core

def Entry.w6_isResume : Entry → Bool
  | .resumed .. => true
  | .timeout .. => true
  | _ => false

def GenRec.w6_isExc : GenRec → Bool
  | .exc .. => true
  | _ => false

/-- the event is a `…_done` child: it has a parent and its name ends in the `done` suffix -/
def Ev.w6_isDoneChild (x : Ev) : Bool := x.parentEv.isSome && (x.name.sfx.getLast? == some sfxDone)

structure W6Mask where
  lg : Bool := true
  fl : Bool := true
  rn : Bool := true
  tm : Bool := true
  ex : Bool := true
  dn : Bool := true

def W6Mask.all : W6Mask := {}
def W6Mask.noLg : W6Mask := { lg := false, ex := false }   -- the task step of a wait / exc generator
def W6Mask.noFl : W6Mask := { fl := false }
def W6Mask.noRn : W6Mask := { rn := false }
def W6Mask.noTm : W6Mask := { tm := false, ex := false }
def W6Mask.noDn : W6Mask := { dn := false }

structure St.W6Q (m : W6Mask) (s s' : St) : Prop where
  log : m.lg = true → ∃ es, s'.log = es ++ s.log ∧ ∀ x ∈ es, Entry.w6_isResume x = false
  waitsLen : s.waits.length ≤ s'.waits.length
  flag : m.fl = true → ∀ w, (s'.wait w).flag = (s.wait w).flag
  run : m.rn = true → ∀ w, (s'.wait w).run = (s.wait w).run ∧ (s'.wait w).event = (s.wait w).event
  timeout : m.tm = true → ∀ w, w < s.waits.length → (s'.wait w).timeout = (s.wait w).timeout
  exc : m.ex = true → ∀ g, (s'.gen g).w6_isExc = true → s'.gen g = s.gen g
  evsLen : s.evs.length ≤ s'.evs.length
  evKeep : ∀ e, e < s.evs.length → (s'.ev e).parentEv = (s.ev e).parentEv ∧ (s'.ev e).name = (s.ev e).name
  newEv : m.dn = true → ∀ e, s.evs.length ≤ e → (s'.ev e).w6_isDoneChild = false

namespace St.W6Q
variable {m : W6Mask}

theorem refl (s : St) : St.W6Q m s s :=
  ⟨fun _ => ⟨[], rfl, by simp⟩, Nat.le_refl _, fun _ _ => rfl, fun _ _ => ⟨rfl, rfl⟩, fun _ _ _ => rfl,
   fun _ _ _ => rfl, Nat.le_refl _, fun _ _ => ⟨rfl, rfl⟩,
   fun _ e he => by rw [St.w6_ev_ge _ _ he]; rfl⟩

theorem trans {a b c : St} (h1 : St.W6Q m a b) (h2 : St.W6Q m b c) : St.W6Q m a c := by
  refine ⟨?_, Nat.le_trans h1.waitsLen h2.waitsLen, ?_, ?_, ?_, ?_, Nat.le_trans h1.evsLen h2.evsLen, ?_, ?_⟩
  · intro hm
    obtain ⟨es1, e1, p1⟩ := h1.log hm
    obtain ⟨es2, e2, p2⟩ := h2.log hm
    refine ⟨es2 ++ es1, by rw [e2, e1, List.append_assoc], ?_⟩
    intro x hx
    rcases List.mem_append.1 hx with hx | hx
    · exact p2 x hx
    · exact p1 x hx
  · intro hm w; rw [h2.flag hm, h1.flag hm]
  · intro hm w; rw [(h2.run hm w).1, (h1.run hm w).1, (h2.run hm w).2, (h1.run hm w).2]; exact ⟨rfl, rfl⟩
  · intro hm w hw; rw [h2.timeout hm w (Nat.lt_of_lt_of_le hw h1.waitsLen), h1.timeout hm w hw]
  · intro hm g hg
    have e2 := h2.exc hm g hg
    rw [e2] at hg
    rw [e2, h1.exc hm g hg]
  · intro e he
    have k2 := h2.evKeep e (Nat.lt_of_lt_of_le he h1.evsLen)
    have k1 := h1.evKeep e he
    exact ⟨k2.1.trans k1.1, k2.2.trans k1.2⟩
  · intro hm e he
    by_cases hb : b.evs.length ≤ e
    · exact h2.newEv hm e hb
    · have k2 := h2.evKeep e (by omega)
      have n1 := h1.newEv hm e he
      unfold Ev.w6_isDoneChild at n1 ⊢
      rw [k2.1, k2.2]; exact n1

/-! ### primitives -/

theorem modComp_self (t : St) (c : Nat) (f : Comp → Comp) : St.W6Q m t (t.modComp c f) :=
  ⟨fun _ => ⟨[], rfl, by simp⟩, Nat.le_refl _, fun _ _ => rfl, fun _ _ => ⟨rfl, rfl⟩, fun _ _ _ => rfl,
   fun _ _ _ => rfl, Nat.le_refl _, fun _ _ => ⟨rfl, rfl⟩,
   fun _ e he => by rw [St.w6_modComp_ev, St.w6_ev_ge _ _ he]; rfl⟩

theorem modTimer_self (t : St) (c : Nat) (f : TimerSt → TimerSt) : St.W6Q m t (t.modTimer c f) :=
  ⟨fun _ => ⟨[], rfl, by simp⟩, Nat.le_refl _, fun _ _ => rfl, fun _ _ => ⟨rfl, rfl⟩, fun _ _ _ => rfl,
   fun _ _ _ => rfl, Nat.le_refl _, fun _ _ => ⟨rfl, rfl⟩,
   fun _ e he => by rw [St.w6_modTimer_ev, St.w6_ev_ge _ _ he]; rfl⟩

theorem tick1_self (t : St) (d : Int) : St.W6Q m t (t.tick1 d) :=
  ⟨fun _ => ⟨[], rfl, by simp⟩, Nat.le_refl _, fun _ _ => rfl, fun _ _ => ⟨rfl, rfl⟩, fun _ _ _ => rfl,
   fun _ _ _ => rfl, Nat.le_refl _, fun _ _ => ⟨rfl, rfl⟩,
   fun _ e he => by rw [St.w6_tick1_ev, St.w6_ev_ge _ _ he]; rfl⟩

theorem addH_self (t : St) (x : Handler) : St.W6Q m t (t.addH x) :=
  ⟨fun _ => ⟨[], rfl, by simp⟩, Nat.le_refl _, fun _ _ => rfl, fun _ _ => ⟨rfl, rfl⟩, fun _ _ _ => rfl,
   fun _ _ _ => rfl, Nat.le_refl _, fun _ _ => ⟨rfl, rfl⟩,
   fun _ e he => by rw [St.w6_addH_ev, St.w6_ev_ge _ _ he]; rfl⟩

theorem logE_self (t : St) (x : Entry) (hx : m.lg = true → x.w6_isResume = false) : St.W6Q m t (t.logE x) :=
  ⟨fun hm => ⟨[x], rfl, by simpa using hx hm⟩, Nat.le_refl _, fun _ _ => rfl, fun _ _ => ⟨rfl, rfl⟩,
   fun _ _ _ => rfl, fun _ _ _ => rfl, Nat.le_refl _, fun _ _ => ⟨rfl, rfl⟩,
   fun _ e he => by rw [St.w6_logE_ev, St.w6_ev_ge _ _ he]; rfl⟩

theorem modEv_self (t : St) (e : Nat) (f : Ev → Ev) (h1 : ∀ x, (f x).parentEv = x.parentEv)
    (h2 : ∀ x, (f x).name = x.name) : St.W6Q m t (t.modEv e f) :=
  ⟨fun _ => ⟨[], rfl, by simp⟩, Nat.le_refl _, fun _ _ => rfl, fun _ _ => ⟨rfl, rfl⟩, fun _ _ _ => rfl,
   fun _ _ _ => rfl, by simp,
   fun e' _ => ⟨St.w6_modEv_ev_pres t (·.parentEv) e f h1 e', St.w6_modEv_ev_pres t (·.name) e f h2 e'⟩,
   fun _ e' he => by
     have : ((t.modEv e f).ev e').w6_isDoneChild = (t.ev e').w6_isDoneChild := by
       unfold Ev.w6_isDoneChild
       rw [St.w6_modEv_ev_pres t (·.parentEv) e f h1 e', St.w6_modEv_ev_pres t (·.name) e f h2 e']
     rw [this, St.w6_ev_ge _ _ he]; rfl⟩

theorem modWait_self (t : St) (w : Nat) (f : WaitSt → WaitSt)
    (h1 : m.fl = true → ∀ x, (f x).flag = x.flag)
    (h2 : m.rn = true → ∀ x, (f x).run = x.run ∧ (f x).event = x.event)
    (h3 : m.tm = true → ∀ x, (f x).timeout = x.timeout) : St.W6Q m t (t.modWait w f) :=
  ⟨fun _ => ⟨[], rfl, by simp⟩, by simp,
   fun hm w' => St.w6_modWait_wait_pres t (·.flag) w f (h1 hm) w',
   fun hm w' => ⟨St.w6_modWait_wait_pres t (·.run) w f (fun x => (h2 hm x).1) w',
                 St.w6_modWait_wait_pres t (·.event) w f (fun x => (h2 hm x).2) w'⟩,
   fun hm w' _ => St.w6_modWait_wait_pres t (·.timeout) w f (h3 hm) w',
   fun _ _ _ => rfl, Nat.le_refl _, fun _ _ => ⟨rfl, rfl⟩,
   fun _ e he => by rw [St.w6_modWait_ev, St.w6_ev_ge _ _ he]; rfl⟩

theorem setGen_self (t : St) (g : Nat) (x : GenRec) (hx : m.ex = true → x.w6_isExc = false) :
    St.W6Q m t (t.setGen g x) :=
  ⟨fun _ => ⟨[], rfl, by simp⟩, Nat.le_refl _, fun _ _ => rfl, fun _ _ => ⟨rfl, rfl⟩, fun _ _ _ => rfl,
   fun hm g' hg' => (by
     rcases St.w6_setGen_gen_cases t g x g' with h | ⟨_, _, h⟩
     · exact h
     · rw [h, hx hm] at hg'; cases hg'),
   Nat.le_refl _, fun _ _ => ⟨rfl, rfl⟩,
   fun _ e he => by rw [St.w6_setGen_ev, St.w6_ev_ge _ _ he]; rfl⟩

theorem addGen_self (t : St) (x : GenRec) (hx : m.ex = true → x.w6_isExc = false) : St.W6Q m t (t.addGen x) :=
  ⟨fun _ => ⟨[], rfl, by simp⟩, Nat.le_refl _, fun _ _ => rfl, fun _ _ => ⟨rfl, rfl⟩, fun _ _ _ => rfl,
   fun hm g' hg' => (by
     rw [St.w6_addGen_gen] at hg' ⊢
     split at hg'
     · rw [hx hm] at hg'; cases hg'
     · rename_i hne; simp [hne]),
   Nat.le_refl _, fun _ _ => ⟨rfl, rfl⟩,
   fun _ e he => by rw [St.w6_addGen_ev, St.w6_ev_ge _ _ he]; rfl⟩

theorem addEv_self (t : St) (x : Ev) (hx : m.dn = true → x.w6_isDoneChild = false) : St.W6Q m t (t.addEv x) :=
  ⟨fun _ => ⟨[], rfl, by simp⟩, Nat.le_refl _, fun _ _ => rfl, fun _ _ => ⟨rfl, rfl⟩, fun _ _ _ => rfl,
   fun _ _ _ => rfl, by simp,
   fun e he => by rw [St.w6_addEv_ev]; simp [Nat.ne_of_lt he],
   fun hm e he => (by
     rw [St.w6_addEv_ev]
     split
     · exact hx hm
     · rw [St.w6_ev_ge _ _ he]; rfl)⟩

theorem addWait_self (t : St) (x : WaitSt) (h1 : x.flag = false) (h2 : x.run = false) (h3 : x.event = none) :
    St.W6Q m t (t.addWait x) :=
  ⟨fun _ => ⟨[], rfl, by simp⟩, by simp,
   fun _ w => (by
     rw [St.w6_addWait_wait]; split
     · rename_i hw; rw [hw, St.w6_wait_ge _ _ (Nat.le_refl _), h1]; rfl
     · rfl),
   fun _ w => (by
     rw [St.w6_addWait_wait]; split
     · rename_i hw; rw [hw, St.w6_wait_ge _ _ (Nat.le_refl _), h2, h3]; exact ⟨rfl, rfl⟩
     · exact ⟨rfl, rfl⟩),
   fun _ w hw => by rw [St.w6_addWait_wait]; simp [Nat.ne_of_lt hw],
   fun _ _ _ => rfl, Nat.le_refl _, fun _ _ => ⟨rfl, rfl⟩,
   fun _ e he => by rw [St.w6_addWait_ev, St.w6_ev_ge _ _ he]; rfl⟩

/-! continuation forms -/
variable {s t : St}

theorem modComp (h : St.W6Q m s t) (c : Nat) (f : Comp → Comp) : St.W6Q m s (t.modComp c f) := h.trans (modComp_self ..)
theorem modTimer (h : St.W6Q m s t) (c : Nat) (f : TimerSt → TimerSt) : St.W6Q m s (t.modTimer c f) := h.trans (modTimer_self ..)
theorem tick1 (h : St.W6Q m s t) (d : Int) : St.W6Q m s (t.tick1 d) := h.trans (tick1_self ..)
theorem addH (h : St.W6Q m s t) (x : Handler) : St.W6Q m s (t.addH x) := h.trans (addH_self ..)
theorem logE (h : St.W6Q m s t) (x : Entry) (hx : m.lg = true → x.w6_isResume = false) : St.W6Q m s (t.logE x) :=
  h.trans (logE_self _ _ hx)
theorem modEv (h : St.W6Q m s t) (e : Nat) (f : Ev → Ev) (h1 : ∀ x, (f x).parentEv = x.parentEv)
    (h2 : ∀ x, (f x).name = x.name) : St.W6Q m s (t.modEv e f) := h.trans (modEv_self _ _ _ h1 h2)
theorem modWait (h : St.W6Q m s t) (w : Nat) (f : WaitSt → WaitSt)
    (h1 : m.fl = true → ∀ x, (f x).flag = x.flag)
    (h2 : m.rn = true → ∀ x, (f x).run = x.run ∧ (f x).event = x.event)
    (h3 : m.tm = true → ∀ x, (f x).timeout = x.timeout) : St.W6Q m s (t.modWait w f) :=
  h.trans (modWait_self _ _ _ h1 h2 h3)
theorem setGen (h : St.W6Q m s t) (g : Nat) (x : GenRec) (hx : m.ex = true → x.w6_isExc = false) :
    St.W6Q m s (t.setGen g x) := h.trans (setGen_self _ _ _ hx)
theorem addGen (h : St.W6Q m s t) (x : GenRec) (hx : m.ex = true → x.w6_isExc = false) : St.W6Q m s (t.addGen x) :=
  h.trans (addGen_self _ _ hx)
theorem addEv (h : St.W6Q m s t) (x : Ev) (hx : m.dn = true → x.w6_isDoneChild = false) : St.W6Q m s (t.addEv x) :=
  h.trans (addEv_self _ _ hx)
theorem addWait (h : St.W6Q m s t) (x : WaitSt) (h1 : x.flag = false) (h2 : x.run = false) (h3 : x.event = none) :
    St.W6Q m s (t.addWait x) := h.trans (addWait_self _ _ h1 h2 h3)

end St.W6Q

/-! ## the tactic -/

syntax "w6st_q1" : tactic
macro_rules | `(tactic| w6st_q1) => `(tactic| split)
macro_rules | `(tactic| w6st_q1) => `(tactic| with_reducible apply St.W6Q.tick1)
macro_rules | `(tactic| w6st_q1) => `(tactic| with_reducible apply St.W6Q.addWait)
macro_rules | `(tactic| w6st_q1) => `(tactic| with_reducible apply St.W6Q.addGen)
macro_rules | `(tactic| w6st_q1) => `(tactic| with_reducible apply St.W6Q.addH)
macro_rules | `(tactic| w6st_q1) => `(tactic| with_reducible apply St.W6Q.addEv)
macro_rules | `(tactic| w6st_q1) => `(tactic| with_reducible apply St.W6Q.logE)
macro_rules | `(tactic| w6st_q1) => `(tactic| with_reducible apply St.W6Q.setGen)
macro_rules | `(tactic| w6st_q1) => `(tactic| with_reducible apply St.W6Q.modTimer)
macro_rules | `(tactic| w6st_q1) => `(tactic| with_reducible apply St.W6Q.modWait)
macro_rules | `(tactic| w6st_q1) => `(tactic| with_reducible apply St.W6Q.modEv)
macro_rules | `(tactic| w6st_q1) => `(tactic| with_reducible apply St.W6Q.modComp)
-- side conditions
macro_rules | `(tactic| w6st_q1) => `(tactic| (intro _; rfl))
macro_rules | `(tactic| w6st_q1) => `(tactic| (intro _ _; rfl))
macro_rules | `(tactic| w6st_q1) => `(tactic| (intro _ _; exact And.intro rfl rfl))
macro_rules | `(tactic| w6st_q1) => `(tactic| (intro h; cases h; done))
macro_rules | `(tactic| w6st_q1) => `(tactic| (intro _; decide))
macro_rules | `(tactic| w6st_q1) => `(tactic| exact rfl)
macro_rules | `(tactic| w6st_q1) => `(tactic| with_reducible assumption)
macro_rules | `(tactic| w6st_q1) => `(tactic| with_reducible exact St.W6Q.refl _)

macro "w6st_q" : tactic => `(tactic| repeat' w6st_q1)
macro "w6st_q_unfold" ids:ident+ : tactic => `(tactic| (unfold $[$ids]*; (try dsimp only); w6st_q))

/-! ## helpers of `Pure.lean` -/

/-- a `foldl` of steps that each respect `Le` respects `Le` -/
theorem St.W6Q.foldl {m : W6Mask} {s t : St} {α} (g : St → α → St) (hg : ∀ a x, St.W6Q m s a → St.W6Q m s (g a x)) (l : List α)
    (h : St.W6Q m s t) : St.W6Q m s (l.foldl g t) := by
  induction l generalizing t with
  | nil => exact h
  | cons x l ih => exact ih (hg _ _ h)

theorem St.W6Q.addHandler {m : W6Mask} {s t : St} (h : St.W6Q m s t) (x : Nat) : St.W6Q m s (t.addHandler x) := by
  unfold St.addHandler
  dsimp only
  apply St.W6Q.modComp
  split
  · w6st_q
  · split
    · w6st_q
    · exact St.W6Q.foldl _ (fun a n ha => ha.modComp _ _) _ h
macro_rules | `(tactic| w6st_q1) => `(tactic| with_reducible apply St.W6Q.addHandler)

theorem St.W6Q.removeHandler {m : W6Mask} {s t : St} (h : St.W6Q m s t) (x : Nat) (n : Option Name) :
    St.W6Q m s ((t.removeHandler x n).2) := by
  w6st_q_unfold St.removeHandler
macro_rules | `(tactic| w6st_q1) => `(tactic| with_reducible apply St.W6Q.removeHandler)

theorem St.W6Q.fireContext {m : W6Mask} {s t : St} (h : St.W6Q m s t) (r e : Nat) :
    St.W6Q m s (t.fireContext r e) := by
  w6st_q_unfold St.fireContext
macro_rules | `(tactic| w6st_q1) => `(tactic| with_reducible apply St.W6Q.fireContext)

theorem St.W6Q.fireRaw {m : W6Mask} {s t : St} (h : St.W6Q m s t) (self e : Nat) (chans : List Chan) (prio : Int) :
    St.W6Q m s (t.fireRaw self e chans prio) := by
  w6st_q_unfold St.fireRaw
macro_rules | `(tactic| w6st_q1) => `(tactic| with_reducible apply St.W6Q.fireRaw)

theorem St.W6Q.childEv {m : W6Mask} {s t : St} (h : St.W6Q m s t) (p sfx : Nat) (hs : m.dn = true → sfx ≠ sfxDone) :
    St.W6Q m s (t.childEv p sfx) := by
  unfold St.childEv
  apply St.W6Q.addEv h
  intro hm
  have := hs hm
  simp [Ev.w6_isDoneChild, Name.child, this]
macro_rules | `(tactic| w6st_q1) => `(tactic| with_reducible apply St.W6Q.childEv)

theorem St.W6Q.fireChild {m : W6Mask} {s t : St} (h : St.W6Q m s t) (self p sfx : Nat) (chans : List Chan)
    (hs : m.dn = true → sfx ≠ sfxDone) :
    St.W6Q m s (t.fireChild self p sfx chans) := by
  w6st_q_unfold St.fireChild
macro_rules | `(tactic| w6st_q1) => `(tactic| with_reducible apply St.W6Q.fireChild)

theorem St.W6Q.inform {m : W6Mask} {s t : St} (h : St.W6Q m s t) (e : Nat) (force : Bool) :
    St.W6Q m s (t.inform e force) := by
  w6st_q_unfold St.inform
macro_rules | `(tactic| w6st_q1) => `(tactic| with_reducible apply St.W6Q.inform)

theorem St.W6Q.setValue {m : W6Mask} {s t : St} (h : St.W6Q m s t) (e : Nat) (x : VItem) :
    St.W6Q m s (t.setValue e x) := by
  w6st_q_unfold St.setValue
macro_rules | `(tactic| w6st_q1) => `(tactic| with_reducible apply St.W6Q.setValue)

theorem St.W6Q.fireTmplEv {m : W6Mask} {s t : St} (h : St.W6Q m s t) (self : Nat) (ev : Ev) (target : Option Chan) (prio : Int)
    (hev : m.dn = true → ev.w6_isDoneChild = false) :
    St.W6Q m s (t.fireTmplEv self ev target prio) := by
  w6st_q_unfold St.fireTmplEv
macro_rules | `(tactic| w6st_q1) => `(tactic| with_reducible apply St.W6Q.fireTmplEv)

theorem St.W6Q.effectDone1 {m : W6Mask} {s t : St} (h : St.W6Q m s t) (r e : Nat) (announce : Bool) :
    St.W6Q m s ((t.effectDone1 r e announce).2) := by
  w6st_q_unfold St.effectDone1
macro_rules | `(tactic| w6st_q1) => `(tactic| with_reducible apply St.W6Q.effectDone1)

theorem St.W6Q.eventDonePre {m : W6Mask} {s t : St} (h : St.W6Q m s t) (r e : Nat) (err : Bool) (hm : m.dn = false) :
    St.W6Q m s ((t.eventDonePre r e err).2) := by
  obtain ⟨lg, fl, rn, tm, ex, dn⟩ := m; dsimp only at hm; subst hm
  w6st_q_unfold St.eventDonePre

theorem St.W6Q.registerTask {m : W6Mask} {s t : St} (h : St.W6Q m s t) (c : Nat) (x : Task) :
    St.W6Q m s (t.registerTask c x) := by
  w6st_q_unfold St.registerTask
macro_rules | `(tactic| w6st_q1) => `(tactic| with_reducible apply St.W6Q.registerTask)

theorem St.W6Q.unregisterTask {m : W6Mask} {s t : St} (h : St.W6Q m s t) (c : Nat) (x : Task) :
    St.W6Q m s (t.unregisterTask c x) := by
  w6st_q_unfold St.unregisterTask
macro_rules | `(tactic| w6st_q1) => `(tactic| with_reducible apply St.W6Q.unregisterTask)

theorem St.W6Q.reduceTimeLeft {m : W6Mask} {s t : St} (h : St.W6Q m s t) (e : Nat) (d : Int) :
    St.W6Q m s (t.reduceTimeLeft e d) := by
  unfold St.reduceTimeLeft
  apply St.W6Q.modEv h <;> intro x <;> split <;> rfl
macro_rules | `(tactic| w6st_q1) => `(tactic| with_reducible apply St.W6Q.reduceTimeLeft)

theorem St.W6Q.registerPre {m : W6Mask} {s t : St} (h : St.W6Q m s t) (c p : Nat) :
    St.W6Q m s ((t.registerPre c p).2) := by
  w6st_q_unfold St.registerPre
macro_rules | `(tactic| w6st_q1) => `(tactic| with_reducible apply St.W6Q.registerPre)

theorem St.W6Q.registerFin {m : W6Mask} {s t : St} (h : St.W6Q m s t) (c : Nat) :
    St.W6Q m s (t.registerFin c) := by
  w6st_q_unfold St.registerFin
macro_rules | `(tactic| w6st_q1) => `(tactic| with_reducible apply St.W6Q.registerFin)

theorem St.W6Q.unregister {m : W6Mask} {s t : St} (h : St.W6Q m s t) (c : Nat) :
    St.W6Q m s (t.unregister c) := by
  w6st_q_unfold St.unregister
macro_rules | `(tactic| w6st_q1) => `(tactic| with_reducible apply St.W6Q.unregister)

theorem St.W6Q.prepUnregPre {m : W6Mask} {s t : St} (h : St.W6Q m s t) (c : Nat) :
    St.W6Q m s (t.prepUnregPre c) := by
  w6st_q_unfold St.prepUnregPre
macro_rules | `(tactic| w6st_q1) => `(tactic| with_reducible apply St.W6Q.prepUnregPre)

theorem St.W6Q.prepUnregFin {m : W6Mask} {s t : St} (h : St.W6Q m s t) (c : Nat) :
    St.W6Q m s (t.prepUnregFin c) := by
  w6st_q_unfold St.prepUnregFin
macro_rules | `(tactic| w6st_q1) => `(tactic| with_reducible apply St.W6Q.prepUnregFin)

theorem St.W6Q.actFire {m : W6Mask} {s t : St} (h : St.W6Q m s t) (self i : Nat) (target : Option Chan) (prio : Int) (cancel : Bool) :
    St.W6Q m s (t.actFire self i target prio cancel) := by
  w6st_q_unfold St.actFire
macro_rules | `(tactic| w6st_q1) => `(tactic| with_reducible apply St.W6Q.actFire)

theorem St.W6Q.actStopEv {m : W6Mask} {s t : St} (h : St.W6Q m s t) (ev : Option Nat) :
    St.W6Q m s (t.actStopEv ev) := by
  w6st_q_unfold St.actStopEv
macro_rules | `(tactic| w6st_q1) => `(tactic| with_reducible apply St.W6Q.actStopEv)

theorem St.W6Q.timerReset {m : W6Mask} {s t : St} (h : St.W6Q m s t) (i : Nat) :
    St.W6Q m s (t.timerReset i) := by
  w6st_q_unfold St.timerReset
macro_rules | `(tactic| w6st_q1) => `(tactic| with_reducible apply St.W6Q.timerReset)

theorem St.W6Q.timerCreate {m : W6Mask} {s t : St} (h : St.W6Q m s t) (i : Nat) :
    St.W6Q m s (t.timerCreate i) := by
  w6st_q_unfold St.timerCreate
macro_rules | `(tactic| w6st_q1) => `(tactic| with_reducible apply St.W6Q.timerCreate)

theorem St.W6Q.timerTick {m : W6Mask} {s t : St} (h : St.W6Q m s t) (i e : Nat) :
    St.W6Q m s (t.timerTick i e) := by
  w6st_q_unfold St.timerTick
macro_rules | `(tactic| w6st_q1) => `(tactic| with_reducible apply St.W6Q.timerTick)

theorem St.W6Q.startWait {m : W6Mask} {s t : St} (h : St.W6Q m s t) (w : Nat) :
    St.W6Q m s (t.startWait w) := by
  w6st_q_unfold St.startWait
macro_rules | `(tactic| w6st_q1) => `(tactic| with_reducible apply St.W6Q.startWait)

/-! ## pure pieces of `Step.lean` -/

theorem St.W6Q.stopBegin {m : W6Mask} {s t : St} (h : St.W6Q m s t) (c : Nat) :
    St.W6Q m s (t.stopBegin c) := by
  w6st_q_unfold St.stopBegin
macro_rules | `(tactic| w6st_q1) => `(tactic| with_reducible apply St.W6Q.stopBegin)

theorem St.W6Q.stopSetCode {m : W6Mask} {s t : St} (h : St.W6Q m s t) (r : Nat) (code : Code) :
    St.W6Q m s (t.stopSetCode r code) := by
  w6st_q_unfold St.stopSetCode
macro_rules | `(tactic| w6st_q1) => `(tactic| with_reducible apply St.W6Q.stopSetCode)

theorem St.W6Q.genCall {m : W6Mask} {s t : St} (h : St.W6Q m s t) (owner i : Nat) (target : Option Chan) (timeout : Option Nat) :
    St.W6Q m s (t.genCall owner i target timeout) := by
  w6st_q_unfold St.genCall
macro_rules | `(tactic| w6st_q1) => `(tactic| with_reducible apply St.W6Q.genCall)

theorem St.W6Q.genWait {m : W6Mask} {s t : St} (h : St.W6Q m s t) (owner : Nat) (name : Name) (target : Option Chan) (timeout : Option Nat) :
    St.W6Q m s (t.genWait owner name target timeout) := by
  w6st_q_unfold St.genWait
macro_rules | `(tactic| w6st_q1) => `(tactic| with_reducible apply St.W6Q.genWait)

theorem St.W6Q.resumeGenPre {m : W6Mask} {s t : St} (h : St.W6Q m s t) (g : Nat) (silent : Bool) :
    St.W6Q m s (t.resumeGenPre g silent) := by
  w6st_q_unfold St.resumeGenPre
macro_rules | `(tactic| w6st_q1) => `(tactic| with_reducible apply St.W6Q.resumeGenPre)

theorem St.W6Q.stopIteration {m : W6Mask} {s t : St} (h : St.W6Q m s t) (r : Nat) (x : Task) :
    St.W6Q m s ((t.stopIteration r x).2) := by
  w6st_q_unfold St.stopIteration
macro_rules | `(tactic| w6st_q1) => `(tactic| with_reducible apply St.W6Q.stopIteration)

theorem St.W6Q.fireException {m : W6Mask} {s t : St} (h : St.W6Q m s t) (r e : Nat) :
    St.W6Q m s (t.fireException r e) := by
  w6st_q_unfold St.fireException
macro_rules | `(tactic| w6st_q1) => `(tactic| with_reducible apply St.W6Q.fireException)

theorem St.W6Q.errorBranch {m : W6Mask} {s t : St} (h : St.W6Q m s t) (r : Nat) (x : Task) (resumed : Bool) :
    St.W6Q m s ((t.errorBranch r x resumed).2) := by
  w6st_q_unfold St.errorBranch
macro_rules | `(tactic| w6st_q1) => `(tactic| with_reducible apply St.W6Q.errorBranch)

theorem St.W6Q.ownSub {m : W6Mask} {s t : St} (h : St.W6Q m s t) (r : Nat) (x : Task) (w : Nat) :
    St.W6Q m s (t.ownSub r x w) := by
  w6st_q_unfold St.ownSub
macro_rules | `(tactic| w6st_q1) => `(tactic| with_reducible apply St.W6Q.ownSub)

theorem St.W6Q.setValueOpt {m : W6Mask} {s t : St} (h : St.W6Q m s t) (e : Nat) (v : Option Nat) :
    St.W6Q m s (t.setValueOpt e v) := by
  w6st_q_unfold St.setValueOpt
macro_rules | `(tactic| w6st_q1) => `(tactic| with_reducible apply St.W6Q.setValueOpt)

theorem St.W6Q.parentSub {m : W6Mask} {s t : St} (h : St.W6Q m s t) (r : Nat) (x : Task) (p w2 : Nat) (viaThrow : Bool) :
    St.W6Q m s (t.parentSub r x p w2 viaThrow) := by
  w6st_q_unfold St.parentSub
macro_rules | `(tactic| w6st_q1) => `(tactic| with_reducible apply St.W6Q.parentSub)

theorem St.W6Q.parentPlain {m : W6Mask} {s t : St} (h : St.W6Q m s t) (r : Nat) (x : Task) (p : Nat) (v : Option Nat) (viaThrow : Bool) :
    St.W6Q m s (t.parentPlain r x p v viaThrow) := by
  w6st_q_unfold St.parentPlain
macro_rules | `(tactic| w6st_q1) => `(tactic| with_reducible apply St.W6Q.parentPlain)

theorem St.W6Q.onWaitEvent {m : W6Mask} {s t : St} (h : St.W6Q m s t) (w e : Nat) (hm : m.rn = false) :
    St.W6Q m s ((t.onWaitEvent w e).2) := by
  obtain ⟨lg, fl, rn, tm, ex, dn⟩ := m; dsimp only at hm; subst hm
  w6st_q_unfold St.onWaitEvent

theorem St.W6Q.onWaitDone {m : W6Mask} {s t : St} (h : St.W6Q m s t) (w e : Nat) (hm : m.fl = false) :
    St.W6Q m s ((t.onWaitDone w e).2) := by
  obtain ⟨lg, fl, rn, tm, ex, dn⟩ := m; dsimp only at hm; subst hm
  w6st_q_unfold St.onWaitDone

theorem St.W6Q.onWaitTick {m : W6Mask} {s t : St} (h : St.W6Q m s t) (w : Nat) (hm : m.tm = false) (hx : m.ex = false) :
    St.W6Q m s ((t.onWaitTick w).2) := by
  obtain ⟨lg, fl, rn, tm, ex, dn⟩ := m; dsimp only at hm hx; subst hm; subst hx
  w6st_q_unfold St.onWaitTick

theorem St.W6Q.onFallbackGE {m : W6Mask} {s t : St} (h : St.W6Q m s t) (e : Nat) :
    St.W6Q m s ((t.onFallbackGE e).2) := by
  w6st_q_unfold St.onFallbackGE
macro_rules | `(tactic| w6st_q1) => `(tactic| with_reducible apply St.W6Q.onFallbackGE)

theorem St.W6Q.computeHandlers {m : W6Mask} {s t : St} (h : St.W6Q m s t) (r : Nat) (name : Name) (chans : List Chan) :
    St.W6Q m s ((t.computeHandlers r name chans).2) := by
  w6st_q_unfold St.computeHandlers
macro_rules | `(tactic| w6st_q1) => `(tactic| with_reducible apply St.W6Q.computeHandlers)

theorem St.W6Q.dispComplete {m : W6Mask} {s t : St} (h : St.W6Q m s t) (e : Nat) (ev : Ev) :
    St.W6Q m s (t.dispComplete e ev) := by
  w6st_q_unfold St.dispComplete
macro_rules | `(tactic| w6st_q1) => `(tactic| with_reducible apply St.W6Q.dispComplete)

theorem St.W6Q.cacheRefresh {m : W6Mask} {s t : St} (h : St.W6Q m s t) (r : Nat) :
    St.W6Q m s (t.cacheRefresh r) := by
  w6st_q_unfold St.cacheRefresh
macro_rules | `(tactic| w6st_q1) => `(tactic| with_reducible apply St.W6Q.cacheRefresh)

theorem St.W6Q.lookupHandlers {m : W6Mask} {s t : St} (h : St.W6Q m s t) (r : Nat) (name : Name) (chans : List Chan) :
    St.W6Q m s ((t.lookupHandlers r name chans).2) := by
  w6st_q_unfold St.lookupHandlers
macro_rules | `(tactic| w6st_q1) => `(tactic| with_reducible apply St.W6Q.lookupHandlers)

theorem St.W6Q.dispGE {m : W6Mask} {s t : St} (h : St.W6Q m s t) (r e remaining : Nat) (name : Name) :
    St.W6Q m s (t.dispGE r e remaining name) := by
  w6st_q_unfold St.dispGE
macro_rules | `(tactic| w6st_q1) => `(tactic| with_reducible apply St.W6Q.dispGE)

theorem St.W6Q.dispatchPre {m : W6Mask} {s t : St} (h : St.W6Q m s t) (r e remaining : Nat) :
    St.W6Q m s ((t.dispatchPre r e remaining).2) := by
  w6st_q_unfold St.dispatchPre
macro_rules | `(tactic| w6st_q1) => `(tactic| with_reducible apply St.W6Q.dispatchPre)

theorem St.W6Q.handlerRaised {m : W6Mask} {s t : St} (h : St.W6Q m s t) (r e : Nat) :
    St.W6Q m s (t.handlerRaised r e) := by
  w6st_q_unfold St.handlerRaised
macro_rules | `(tactic| w6st_q1) => `(tactic| with_reducible apply St.W6Q.handlerRaised)

theorem St.W6Q.applyValue {m : W6Mask} {s t : St} (h : St.W6Q m s t) (r e : Nat) (value : Outcome) :
    St.W6Q m s (t.applyValue r e value) := by
  w6st_q_unfold St.applyValue
macro_rules | `(tactic| w6st_q1) => `(tactic| with_reducible apply St.W6Q.applyValue)

theorem St.W6Q.geTasksCheck {m : W6Mask} {s t : St} (h : St.W6Q m s t) (r e : Nat) :
    St.W6Q m s (t.geTasksCheck r e) := by
  w6st_q_unfold St.geTasksCheck
macro_rules | `(tactic| w6st_q1) => `(tactic| with_reducible apply St.W6Q.geTasksCheck)

theorem St.W6Q.flushBegin {m : W6Mask} {s t : St} (h : St.W6Q m s t) (r : Nat) :
    St.W6Q m s (t.flushBegin r) := by
  w6st_q_unfold St.flushBegin
macro_rules | `(tactic| w6st_q1) => `(tactic| with_reducible apply St.W6Q.flushBegin)

theorem St.W6Q.tickGenerate {m : W6Mask} {s t : St} (h : St.W6Q m s t) (c : Nat) :
    St.W6Q m s (t.tickGenerate c) := by
  w6st_q_unfold St.tickGenerate
macro_rules | `(tactic| w6st_q1) => `(tactic| with_reducible apply St.W6Q.tickGenerate)

theorem St.W6Q.runBegin {m : W6Mask} {s t : St} (h : St.W6Q m s t) (c : Nat) :
    St.W6Q m s (t.runBegin c) := by
  w6st_q_unfold St.runBegin
macro_rules | `(tactic| w6st_q1) => `(tactic| with_reducible apply St.W6Q.runBegin)

theorem St.W6Q.runEnd {m : W6Mask} {s t : St} (h : St.W6Q m s t) (c : Nat) :
    St.W6Q m s ((t.runEnd c).2) := by
  w6st_q_unfold St.runEnd
macro_rules | `(tactic| w6st_q1) => `(tactic| with_reducible apply St.W6Q.runEnd)

theorem St.W6Q.actStep {m : W6Mask} {s t : St} (h : St.W6Q m s t) (ctx : HCtx) (a : Act) : St.W6Q m s (actStep t ctx a).st := by
  cases a <;> (unfold CV.Core.actStep; (try dsimp only); w6st_q)
macro_rules | `(tactic| w6st_q1) => `(tactic| with_reducible apply St.W6Q.actStep)

/-! ## the arms of `step` -/

macro_rules
  | `(tactic| w6st_q1) => `(tactic| simp only [Cfg.pop_st, Cfg.popRet_st, Cfg.raise_st, Cfg.goto_st])

theorem Cfg.w6_effectDone_q {m : W6Mask} (c : Cfg) (k : List Frame) (r e : Nat) (announce : Bool) :
    St.W6Q m c.st (c.effectDone k r e announce).st := by
  unfold Cfg.effectDone; (try dsimp only); w6st_q
macro_rules | `(tactic| w6st_q1) => `(tactic| with_reducible exact Cfg.w6_effectDone_q ..)

theorem Cfg.w6_eventDone_q {m : W6Mask} (c : Cfg) (k : List Frame) (r e : Nat) (err : Bool) (hm : m.dn = false) :
    St.W6Q m c.st (c.eventDone k r e err).st := by
  unfold Cfg.eventDone; (try dsimp only)
  split <;> simp only [Cfg.goto_st, Cfg.pop_st] <;> exact St.W6Q.eventDonePre (St.W6Q.refl _) _ _ _ hm

theorem St.W6Q.updateRootAll {m : W6Mask} (s : St) : ∀ (fuel : Nat) (todo : List Nat) (root : Nat) (t : St),
    St.W6Q m s t → St.W6Q m s (St.updateRootAll fuel todo root t) := by
  intro fuel
  induction fuel with
  | zero => intro todo root t h; simpa [St.updateRootAll] using h
  | succ n ih =>
    intro todo root t h
    cases todo with
    | nil => simpa [St.updateRootAll] using h
    | cons x rest =>
      simp only [St.updateRootAll]
      apply ih
      w6st_q

macro_rules | `(tactic| w6st_q1) => `(tactic| with_reducible apply St.W6Q.updateRootAll)

theorem Cfg.w6_updateRoot_q {m : W6Mask} (c : Cfg) (k : List Frame) (todo : List Nat) (root : Nat) :
    St.W6Q m c.st (c.updateRoot k todo root).st := by
  unfold Cfg.updateRoot; (try dsimp only)
  simp only [Cfg.pop_st]
  exact St.W6Q.updateRootAll _ _ _ _ _ (St.W6Q.refl _)
macro_rules | `(tactic| w6st_q1) => `(tactic| with_reducible exact Cfg.w6_updateRoot_q ..)

theorem Cfg.w6_register_q {m : W6Mask} (c : Cfg) (k : List Frame) (x p : Nat) :
    St.W6Q m c.st (c.register k x p).st := by
  unfold Cfg.register; (try dsimp only); w6st_q
macro_rules | `(tactic| w6st_q1) => `(tactic| with_reducible exact Cfg.w6_register_q ..)

theorem Cfg.w6_registerFin_q {m : W6Mask} (c : Cfg) (k : List Frame) (x : Nat) :
    St.W6Q m c.st (c.registerFin k x).st := by
  unfold Cfg.registerFin; (try dsimp only); w6st_q
macro_rules | `(tactic| w6st_q1) => `(tactic| with_reducible exact Cfg.w6_registerFin_q ..)

theorem Cfg.w6_prepUnregFin_q {m : W6Mask} (c : Cfg) (k : List Frame) (x : Nat) :
    St.W6Q m c.st (c.prepUnregFin k x).st := by
  unfold Cfg.prepUnregFin; (try dsimp only); w6st_q
macro_rules | `(tactic| w6st_q1) => `(tactic| with_reducible exact Cfg.w6_prepUnregFin_q ..)

theorem Cfg.w6_stopMgr_q {m : W6Mask} (c : Cfg) (k : List Frame) (x : Nat) (code : Code) :
    St.W6Q m c.st (c.stopMgr k x code).st := by
  unfold Cfg.stopMgr; (try dsimp only); w6st_q
macro_rules | `(tactic| w6st_q1) => `(tactic| with_reducible exact Cfg.w6_stopMgr_q ..)

theorem Cfg.w6_ticks_q {m : W6Mask} (c : Cfg) (k : List Frame) (x n : Nat) :
    St.W6Q m c.st (c.ticks k x n).st := by
  unfold Cfg.ticks; (try dsimp only); w6st_q
macro_rules | `(tactic| w6st_q1) => `(tactic| with_reducible exact Cfg.w6_ticks_q ..)

theorem Cfg.w6_stopFin_q {m : W6Mask} (c : Cfg) (k : List Frame) (code : Code) :
    St.W6Q m c.st (c.stopFin k code).st := by
  unfold Cfg.stopFin; (try dsimp only); w6st_q
macro_rules | `(tactic| w6st_q1) => `(tactic| with_reducible exact Cfg.w6_stopFin_q ..)

theorem Cfg.w6_timerNew_q {m : W6Mask} (c : Cfg) (k : List Frame) (i : Nat) :
    St.W6Q m c.st (c.timerNew k i).st := by
  unfold Cfg.timerNew; (try dsimp only); w6st_q
macro_rules | `(tactic| w6st_q1) => `(tactic| with_reducible exact Cfg.w6_timerNew_q ..)

theorem Cfg.w6_acts_q {m : W6Mask} (c : Cfg) (k : List Frame) (ctx : HCtx) (prog : Prog) :
    St.W6Q m c.st (c.acts k ctx prog).st := by
  unfold Cfg.acts; (try dsimp only); w6st_q
macro_rules | `(tactic| w6st_q1) => `(tactic| with_reducible exact Cfg.w6_acts_q ..)

theorem Cfg.w6_doFin_q {m : W6Mask} (c : Cfg) (k : List Frame) (x : Nat) :
    St.W6Q m c.st (c.doFin k x).st := by
  unfold Cfg.doFin; (try dsimp only); w6st_q
macro_rules | `(tactic| w6st_q1) => `(tactic| with_reducible exact Cfg.w6_doFin_q ..)

theorem Cfg.w6_drainQ_q {m : W6Mask} (c : Cfg) (k : List Frame) (x : Nat) :
    St.W6Q m c.st (c.drainQ k x).st := by
  unfold Cfg.drainQ; (try dsimp only); w6st_q
macro_rules | `(tactic| w6st_q1) => `(tactic| with_reducible exact Cfg.w6_drainQ_q ..)

theorem Cfg.w6_stepGen_q {m : W6Mask} (c : Cfg) (k : List Frame) (g : Nat) :
    St.W6Q m c.st (c.stepGen k g).st := by
  unfold Cfg.stepGen; (try dsimp only); w6st_q
macro_rules | `(tactic| w6st_q1) => `(tactic| with_reducible exact Cfg.w6_stepGen_q ..)

theorem Cfg.w6_processTask_q {m : W6Mask} (c : Cfg) (k : List Frame) (r : Nat) (x : Task) :
    St.W6Q m c.st (c.processTask k r x).st := by
  unfold Cfg.processTask; (try dsimp only); w6st_q
macro_rules | `(tactic| w6st_q1) => `(tactic| with_reducible exact Cfg.w6_processTask_q ..)

theorem Cfg.w6_contStop_q {m : W6Mask} {s0 : St} (c : Cfg) (k : List Frame) (s : St) (r : Nat) (x : Task) (hle : St.W6Q m s0 s) :
    St.W6Q m s0 (c.contStop k s r x).st := by
  unfold Cfg.contStop; (try dsimp only); w6st_q
macro_rules | `(tactic| w6st_q1) => `(tactic| with_reducible apply Cfg.w6_contStop_q)

theorem Cfg.w6_contError_q {m : W6Mask} {s0 : St} (c : Cfg) (k : List Frame) (s : St) (r : Nat) (x : Task) (resumed : Bool) (hle : St.W6Q m s0 s) :
    St.W6Q m s0 (c.contError k s r x resumed).st := by
  unfold Cfg.contError; (try dsimp only); w6st_q
macro_rules | `(tactic| w6st_q1) => `(tactic| with_reducible apply Cfg.w6_contError_q)

theorem Cfg.w6_ptBodyWait_q {m : W6Mask} (c : Cfg) (k : List Frame) (r : Nat) (x : Task) (w : Nat) (hm : m.lg = false) :
    St.W6Q m c.st (c.ptBodyWait k r x w).st := by
  obtain ⟨lg, fl, rn, tm, ex, dn⟩ := m; dsimp only at hm; subst hm
  unfold Cfg.ptBodyWait; (try dsimp only); w6st_q

theorem Cfg.w6_ptBodyExc_q {m : W6Mask} (c : Cfg) (k : List Frame) (r : Nat) (x : Task) (w : Nat) (fired : Bool)
    (hm : m.lg = false) (hx : m.ex = false) :
    St.W6Q m c.st (c.ptBodyExc k r x w fired).st := by
  obtain ⟨lg, fl, rn, tm, ex, dn⟩ := m; dsimp only at hm hx; subst hm; subst hx
  unfold Cfg.ptBodyExc; (try dsimp only); w6st_q

theorem Cfg.w6_ptBody_q {m : W6Mask} (c : Cfg) (k : List Frame) (r : Nat) (x : Task)
    (h1 : ∀ w, c.st.gen x.g = .wait w → m.lg = false)
    (h2 : ∀ w b, c.st.gen x.g = .exc w b → m.lg = false ∧ m.ex = false) :
    St.W6Q m c.st (c.ptBody k r x).st := by
  unfold Cfg.ptBody; (try dsimp only)
  split
  · w6st_q
  · rename_i w heq; exact Cfg.w6_ptBodyWait_q c k r x w (h1 w heq)
  · rename_i w b heq; exact Cfg.w6_ptBodyExc_q c k r x w b (h2 w b heq).1 (h2 w b heq).2
  · w6st_q
  · w6st_q

theorem Cfg.w6_ptOwn_q {m : W6Mask} (c : Cfg) (k : List Frame) (r : Nat) (x : Task) :
    St.W6Q m c.st (c.ptOwn k r x).st := by
  unfold Cfg.ptOwn; (try dsimp only); w6st_q
macro_rules | `(tactic| w6st_q1) => `(tactic| with_reducible exact Cfg.w6_ptOwn_q ..)

theorem Cfg.w6_ptParent_q {m : W6Mask} (c : Cfg) (k : List Frame) (r : Nat) (x : Task) (p : Nat) (viaThrow : Bool) :
    St.W6Q m c.st (c.ptParent k r x p viaThrow).st := by
  unfold Cfg.ptParent; (try dsimp only); w6st_q
macro_rules | `(tactic| w6st_q1) => `(tactic| with_reducible exact Cfg.w6_ptParent_q ..)

theorem Cfg.w6_ptFin_q {m : W6Mask} (c : Cfg) (k : List Frame) (r : Nat) (handling : Option Nat) :
    St.W6Q m c.st (c.ptFin k r handling).st := by
  unfold Cfg.ptFin; (try dsimp only); w6st_q
macro_rules | `(tactic| w6st_q1) => `(tactic| with_reducible exact Cfg.w6_ptFin_q ..)

theorem Cfg.w6_dispatcher_q {m : W6Mask} (c : Cfg) (k : List Frame) (r e remaining : Nat) :
    St.W6Q m c.st (c.dispatcher k r e remaining).st := by
  unfold Cfg.dispatcher; (try dsimp only); w6st_q
macro_rules | `(tactic| w6st_q1) => `(tactic| with_reducible exact Cfg.w6_dispatcher_q ..)

theorem Cfg.w6_hLoop_q {m : W6Mask} (c : Cfg) (k : List Frame) (r e : Nat) (hs : List Nat) (err : Bool) (stale : Outcome) :
    St.W6Q m c.st (c.hLoop k r e hs err stale).st := by
  unfold Cfg.hLoop; (try dsimp only); w6st_q
macro_rules | `(tactic| w6st_q1) => `(tactic| with_reducible exact Cfg.w6_hLoop_q ..)

theorem Cfg.w6_invokeUser_q {m : W6Mask} {s0 : St} (c : Cfg) (k : List Frame) (s : St) (h e owner p : Nat) (hle : St.W6Q m s0 s) :
    St.W6Q m s0 (c.invokeUser k s h e owner p).st := by
  unfold Cfg.invokeUser; (try dsimp only); w6st_q
macro_rules | `(tactic| w6st_q1) => `(tactic| with_reducible apply Cfg.w6_invokeUser_q)

theorem Cfg.w6_invoke_q {m : W6Mask} (c : Cfg) (k : List Frame) (r h e : Nat)
    (h1 : ∀ w, (c.st.handler h).kind = .waitEvent w → m.rn = false)
    (h2 : ∀ w, (c.st.handler h).kind = .waitDone w → m.fl = false)
    (h3 : ∀ w, (c.st.handler h).kind = .waitTick w → m.tm = false ∧ m.ex = false) :
    St.W6Q m c.st (c.invoke k r h e).st := by
  unfold Cfg.invoke; (try dsimp only)
  split
  · w6st_q
  · w6st_q
  · rename_i w heq
    simp only [Cfg.popRet_st]; apply St.W6Q.onWaitEvent _ _ _ (h1 w heq); w6st_q
  · rename_i w heq
    simp only [Cfg.popRet_st]; apply St.W6Q.onWaitDone _ _ _ (h2 w heq); w6st_q
  · rename_i w heq
    simp only [Cfg.popRet_st]; apply St.W6Q.onWaitTick _ _ (h3 w heq).1 (h3 w heq).2; w6st_q
  · w6st_q
  · w6st_q
  · w6st_q

theorem Cfg.w6_invokeFin_q {m : W6Mask} (c : Cfg) (k : List Frame) (e h : Nat) :
    St.W6Q m c.st (c.invokeFin k e h).st := by
  unfold Cfg.invokeFin; (try dsimp only); w6st_q
macro_rules | `(tactic| w6st_q1) => `(tactic| with_reducible exact Cfg.w6_invokeFin_q ..)

theorem Cfg.w6_hAfter_q {m : W6Mask} (c : Cfg) (k : List Frame) (r e : Nat) (rest : List Nat) (err : Bool) (stale : Outcome) :
    St.W6Q m c.st (c.hAfter k r e rest err stale).st := by
  unfold Cfg.hAfter; (try dsimp only); w6st_q
macro_rules | `(tactic| w6st_q1) => `(tactic| with_reducible exact Cfg.w6_hAfter_q ..)

theorem Cfg.w6_hApply_q {m : W6Mask} (c : Cfg) (k : List Frame) (r e : Nat) (rest : List Nat) (err : Bool) (value : Outcome) :
    St.W6Q m c.st (c.hApply k r e rest err value).st := by
  unfold Cfg.hApply; (try dsimp only); w6st_q
macro_rules | `(tactic| w6st_q1) => `(tactic| with_reducible exact Cfg.w6_hApply_q ..)

theorem Cfg.w6_dispFin_q {m : W6Mask} (c : Cfg) (k : List Frame) (r e : Nat) (err : Bool) :
    St.W6Q m c.st (c.dispFin k r e err).st := by
  unfold Cfg.dispFin; (try dsimp only); w6st_q
macro_rules | `(tactic| w6st_q1) => `(tactic| with_reducible exact Cfg.w6_dispFin_q ..)

theorem Cfg.w6_dispatchLoop_q {m : W6Mask} (c : Cfg) (k : List Frame) (r : Nat) :
    St.W6Q m c.st (c.dispatchLoop k r).st := by
  unfold Cfg.dispatchLoop; (try dsimp only); w6st_q
macro_rules | `(tactic| w6st_q1) => `(tactic| with_reducible exact Cfg.w6_dispatchLoop_q ..)

theorem Cfg.w6_flush_q {m : W6Mask} (c : Cfg) (k : List Frame) (x : Nat) :
    St.W6Q m c.st (c.flush k x).st := by
  unfold Cfg.flush; (try dsimp only); w6st_q
macro_rules | `(tactic| w6st_q1) => `(tactic| with_reducible exact Cfg.w6_flush_q ..)

theorem Cfg.w6_flushFin_q {m : W6Mask} (c : Cfg) (k : List Frame) (r : Nat) (old : Bool) :
    St.W6Q m c.st (c.flushFin k r old).st := by
  unfold Cfg.flushFin; (try dsimp only); w6st_q
macro_rules | `(tactic| w6st_q1) => `(tactic| with_reducible exact Cfg.w6_flushFin_q ..)

theorem Cfg.w6_tick_q {m : W6Mask} (c : Cfg) (k : List Frame) (x : Nat) :
    St.W6Q m c.st (c.tick k x).st := by
  unfold Cfg.tick; (try dsimp only); w6st_q
macro_rules | `(tactic| w6st_q1) => `(tactic| with_reducible exact Cfg.w6_tick_q ..)

theorem Cfg.w6_taskLoop_q {m : W6Mask} (c : Cfg) (k : List Frame) (x : Nat) (ts : List Task) :
    St.W6Q m c.st (c.taskLoop k x ts).st := by
  unfold Cfg.taskLoop; (try dsimp only); w6st_q
macro_rules | `(tactic| w6st_q1) => `(tactic| with_reducible exact Cfg.w6_taskLoop_q ..)

theorem Cfg.w6_tickFin_q {m : W6Mask} (c : Cfg) (k : List Frame) (x : Nat) (old : Bool) :
    St.W6Q m c.st (c.tickFin k x old).st := by
  unfold Cfg.tickFin; (try dsimp only); w6st_q
macro_rules | `(tactic| w6st_q1) => `(tactic| with_reducible exact Cfg.w6_tickFin_q ..)

theorem Cfg.w6_tickGen_q {m : W6Mask} (c : Cfg) (k : List Frame) (x : Nat) :
    St.W6Q m c.st (c.tickGen k x).st := by
  unfold Cfg.tickGen; (try dsimp only); w6st_q
macro_rules | `(tactic| w6st_q1) => `(tactic| with_reducible exact Cfg.w6_tickGen_q ..)

theorem Cfg.w6_run_q {m : W6Mask} (c : Cfg) (k : List Frame) (x : Nat) :
    St.W6Q m c.st (c.run k x).st := by
  unfold Cfg.run; (try dsimp only); w6st_q
macro_rules | `(tactic| w6st_q1) => `(tactic| with_reducible exact Cfg.w6_run_q ..)

theorem Cfg.w6_runLoop_q {m : W6Mask} (c : Cfg) (k : List Frame) (x : Nat) :
    St.W6Q m c.st (c.runLoop k x).st := by
  unfold Cfg.runLoop; (try dsimp only); w6st_q
macro_rules | `(tactic| w6st_q1) => `(tactic| with_reducible exact Cfg.w6_runLoop_q ..)

theorem Cfg.w6_runFin_q {m : W6Mask} (c : Cfg) (k : List Frame) (x : Nat) :
    St.W6Q m c.st (c.runFin k x).st := by
  unfold Cfg.runFin; (try dsimp only); w6st_q
macro_rules | `(tactic| w6st_q1) => `(tactic| with_reducible exact Cfg.w6_runFin_q ..)

theorem Cfg.w6_runCatchExn_q {m : W6Mask} (c : Cfg) (k : List Frame) (x : Nat) (ex : Exn) :
    St.W6Q m c.st (c.runCatchExn k x ex).st := by
  unfold Cfg.runCatchExn; (try dsimp only); w6st_q
macro_rules | `(tactic| w6st_q1) => `(tactic| with_reducible exact Cfg.w6_runCatchExn_q ..)

theorem Cfg.w6_runRethrow_q {m : W6Mask} (c : Cfg) (k : List Frame) (ex : Exn) :
    St.W6Q m c.st (c.runRethrow k ex).st := by
  unfold Cfg.runRethrow; (try dsimp only); w6st_q
macro_rules | `(tactic| w6st_q1) => `(tactic| with_reducible exact Cfg.w6_runRethrow_q ..)

/-! ## the transition function -/

/-- which protocol actions the top frame `f` may perform in state `s`: the mask must have
    the corresponding bits cleared -/
def W6Mask.fits (m : W6Mask) (s : St) : Frame → Prop
  | .eventDone .. => m.dn = false
  | .invoke _ h _ =>
    match (s.handler h).kind with
    | .waitEvent _ => m.rn = false
    | .waitDone _ => m.fl = false
    | .waitTick _ => m.tm = false ∧ m.ex = false
    | _ => True
  | .ptBody _ t =>
    match s.gen t.g with
    | .wait _ => m.lg = false
    | .exc .. => m.lg = false ∧ m.ex = false
    | _ => True
  | _ => True

theorem w6_stepFrame_q {m : W6Mask} (c : Cfg) (k : List Frame) (f : Frame) (hf : m.fits c.st f) :
    St.W6Q m c.st (stepFrame c k f).st := by
  cases f
  case eventDone r e err => exact Cfg.w6_eventDone_q c k r e err hf
  case invoke r h e =>
    refine Cfg.w6_invoke_q c k r h e ?_ ?_ ?_ <;> intro w hk <;> simp only [W6Mask.fits, hk] at hf <;> exact hf
  case ptBody r x =>
    refine Cfg.w6_ptBody_q c k r x ?_ ?_
    · intro w hk; simp only [W6Mask.fits, hk] at hf; exact hf
    · intro w b hk; simp only [W6Mask.fits, hk] at hf; exact hf
  all_goals (dsimp only [stepFrame]; w6st_q)

theorem w6_unwind_q {m : W6Mask} (c : Cfg) (k : List Frame) (ex : Exn) (f : Frame) : St.W6Q m c.st (unwind c k ex f).st := by
  cases f <;> (dsimp only [unwind]; w6st_q)

/-- every step respects `Q m` for every mask that fits the frame about to execute -/
theorem w6_step_q {m : W6Mask} (c : Cfg) (hf : ∀ f k, c.stack = f :: k → c.exn = none → m.fits c.st f) :
    St.W6Q m c.st (step c).st := by
  unfold step
  split
  · exact St.W6Q.refl _
  · rename_i f k hs
    split
    · exact w6_unwind_q ..
    · rename_i hx; exact w6_stepFrame_q _ _ _ (hf f k hs hx)

end CV.Core

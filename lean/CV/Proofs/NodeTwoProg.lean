import CV.Proofs.NodeTwoMain
/-
C19, two-party composition: no deadlock.  From every reachable world some continuation of the
schedule reaches a quiescent world (so the hypothesis `n2_Quiescent` of the completion theorems
is satisfiable after every prefix of every schedule).
-/
namespace CV
namespace Node

theorem n2_absorbB_frame (E : n2_Env) : ∀ (effs : List Eff) (w : n2_World),
    (n2_absorbB E w effs).todo = w.todo ∧ (n2_absorbB E w effs).ab = w.ab := by
  intro effs
  induction effs with
  | nil => intro w; exact ⟨rfl, rfl⟩
  | cons e r ih =>
    intro w
    cases e <;> simp only [n2_absorbB] <;> exact ih _

theorem n2_answer_frame (E : n2_Env) (w : n2_World) (n : Nat) :
    (n2_step E w (.answer n)).todo = w.todo ∧ (n2_step E w (.answer n)).ab = w.ab := by
  simp only [n2_step, n2_takeAnswer]
  split
  · exact ⟨rfl, rfl⟩
  · rename_i w' r h
    split at h
    · cases h
    · cases h; simp only [n2_resultHandler, if_true]; split <;> exact ⟨rfl, rfl⟩

theorem n2_answer_head (E : n2_Env) (w : n2_World) (e : Ev) (id : J) (k n : Nat) (rest : List (Ev × J × Nat))
    (hr : w.running = (e, id, k) :: rest) (hid : id.natKey = some n) :
    (n2_step E w (.answer n)).running = rest := by
  simp only [n2_step, n2_takeAnswer, hr, hid, n2_resultHandler, List.find?_cons, List.eraseP_cons,
    beq_self_eq_true, if_true]
  split <;> rfl

section
variable {E : n2_Env} {calls : List Ev}

theorem n2_prog_send (H : n2_Hyp E calls) : ∀ (k : Nat) {w : n2_World}, n2_Reach E calls w → w.todo.length = k →
    ∃ l, n2_Reach E calls (n2_run E w l) ∧ (n2_run E w l).todo = [] := by
  intro k
  induction k with
  | zero => intro w h hk; exact ⟨[], h, List.eq_nil_of_length_eq_zero hk⟩
  | succ k ih =>
    intro w h hk
    have h1 := n2_reach_step H h .send
    have hl : (n2_step E w .send).todo.length = k := by
      cases ht : w.todo with
      | nil => rw [ht] at hk; simp at hk
      | cons e r => rw [ht] at hk; simp [n2_step, ht] at hk ⊢; omega
    obtain ⟨l, hl1, hl2⟩ := ih h1 hl
    exact ⟨.send :: l, hl1, hl2⟩

theorem n2_prog_answers (H : n2_Hyp E calls) : ∀ (k : Nat) {w : n2_World}, n2_Reach E calls w →
    w.todo = [] → w.ab = [] → w.running.length = k →
    ∃ l, n2_Reach E calls (n2_run E w l) ∧ (n2_run E w l).todo = [] ∧ (n2_run E w l).ab = [] ∧
      (n2_run E w l).running = [] := by
  intro k
  induction k with
  | zero => intro w h h1 h2 hk; exact ⟨[], h, h1, h2, List.eq_nil_of_length_eq_zero hk⟩
  | succ k ih =>
    intro w h h1 h2 hk
    obtain ⟨s, kB, kA, ao, yo, I⟩ := h
    have hrun := I.running
    cases hF : (List.range kB).filter (fun i => !decide (i ∈ ao)) with
    | nil => rw [hF] at hrun; rw [hrun] at hk; simp at hk
    | cons i F =>
      rw [hF] at hrun
      have hr : w.running = (n2_evB E calls i, n2_idJ i, i) :: F.map (n2_expRun E calls) := by
        rw [hrun]; rfl
      have hstep := n2_answer_head E w _ _ _ i _ hr (by simp [n2_idJ, J.natKey])
      have hfr := n2_answer_frame E w i
      have hR := n2_reach_step H ⟨s, kB, kA, ao, yo, I⟩ (.answer i)
      obtain ⟨l, c1, c2, c3, c4⟩ := ih hR (hfr.1.trans h1) (hfr.2.trans h2)
        (by rw [hstep]; rw [hr] at hk; simp at hk ⊢; omega)
      exact ⟨.answer i :: l, c1, c2, c3, c4⟩

/-- **no deadlock** -/
theorem n2_progress (H : n2_Hyp E calls) {w : n2_World} (h : n2_Reach E calls w) :
    ∃ more, n2_Quiescent (n2_run E w more) := by
  obtain ⟨l1, r1, t1⟩ := n2_prog_send H _ h rfl
  -- one read of everything in flight towards B
  let w2 := n2_step E (n2_run E w l1) (.deliverAB (n2_run E w l1).ab.length)
  have r2 : n2_Reach E calls w2 := n2_reach_step H r1 _
  have f2 := n2_absorbB_frame E
    (recv E.cB E.parse (n2_run E w l1).b ((n2_run E w l1).ab.take (n2_run E w l1).ab.length)).2.1
    { n2_run E w l1 with
        b := (recv E.cB E.parse (n2_run E w l1).b ((n2_run E w l1).ab.take (n2_run E w l1).ab.length)).1,
        ab := (n2_run E w l1).ab.drop (n2_run E w l1).ab.length,
        aborted := (n2_run E w l1).aborted ||
          (recv E.cB E.parse (n2_run E w l1).b ((n2_run E w l1).ab.take (n2_run E w l1).ab.length)).2.2 }
  have t2 : w2.todo = [] := f2.1.trans t1
  have a2 : w2.ab = [] := f2.2.trans (by simp)
  obtain ⟨l3, r3, t3, a3, u3⟩ := n2_prog_answers H _ r2 t2 a2 rfl
  obtain ⟨s, kB, kA, ao, yo, I⟩ := r3
  obtain ⟨_, ft, fa, fr, fb⟩ := n2_inv_deliverBA' H I (n2_run E w2 l3).ba.length
  refine ⟨l1 ++ (.deliverAB (n2_run E w l1).ab.length :: l3) ++ [.deliverBA (n2_run E w2 l3).ba.length], ?_⟩
  have e : n2_run E w (l1 ++ (.deliverAB (n2_run E w l1).ab.length :: l3) ++
      [.deliverBA (n2_run E w2 l3).ba.length]) =
      n2_step E (n2_run E w2 l3) (.deliverBA (n2_run E w2 l3).ba.length) := by
    rw [n2_run_append, n2_run_append]
    rfl
  rw [e]
  exact ⟨ft.trans t3, fa.trans a3, by rw [fb]; simp, fr.trans u3⟩

end

end Node
end CV

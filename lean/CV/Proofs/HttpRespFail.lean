import CV.Proofs.HttpResp
import CV.Model.HttpRespFail
/-
Helper lemmas for the failure part of C15: a chunked body that stops without a last-chunk.  Core Lean only.
-/
namespace CV
namespace HttpResp
open CV.HttpSpec

theorem isPrefix_append : ∀ (a b : Bytes), isPrefix a (a ++ b) = true := by
  intro a; induction a with
  | nil => intro b; simp [isPrefix]
  | cons x a ih => intro b; simp [isPrefix, ih]

theorem flatten_take_drop (ps : List Bytes) (k : Nat) :
    ps.flatten = (ps.take k).flatten ++ (ps.drop k).flatten := by
  rw [← List.flatten_append, List.take_append_drop]

theorem failPieces_flatten (ps : List Bytes) (k : Nat) : (failPieces ps k).flatten = (ps.take k).flatten := by
  unfold failPieces; exact flatten_filter_nonempty _

theorem failPieces_ne (ps : List Bytes) (k : Nat) : ∀ q ∈ failPieces ps k, q ≠ [] := by
  intro q hq
  unfold failPieces at hq
  simp at hq
  intro h; simp [h] at hq

theorem isPrefix_failPieces (ps : List Bytes) (k : Nat) :
    isPrefix (failPieces ps k).flatten ps.flatten = true := by
  rw [failPieces_flatten, flatten_take_drop ps k]; exact isPrefix_append _ _

theorem chunk_shape (q : Bytes) (tail : Bytes) :
    chunk q ++ tail = hexBytes q.length ++ 13 :: 10 :: (q ++ 13 :: 10 :: tail) := by
  simp [chunk, CRLF, List.append_assoc]

/-- whole chunks and then the end of the bytes: the reader recovers the data sent so far -/
theorem chunkPrefix_chunks : ∀ (qs : List Bytes) (f : Nat),
    (∀ q ∈ qs, q ≠ []) → qs.length < f → chunkPrefix f (qs.flatMap chunk) = some qs.flatten := by
  intro qs
  induction qs with
  | nil =>
    intro f _ hf
    cases f with
    | zero => omega
    | succ f => simp [chunkPrefix]
  | cons q qs ih =>
    intro f hne hf
    cases f with
    | zero => simp at hf
    | succ f =>
      have hq : q ≠ [] := hne q (by simp)
      have hrest : ∀ x ∈ qs, x ≠ [] := fun x hx => hne x (by simp [hx])
      have hshape : (q :: qs).flatMap chunk
          = hexBytes q.length ++ 13 :: 10 :: (q ++ 13 :: 10 :: qs.flatMap chunk) := by
        rw [List.flatMap_cons]; exact chunk_shape q _
      rw [hshape]
      unfold chunkPrefix
      have hnonempty : (hexBytes q.length ++ 13 :: 10 :: (q ++ 13 :: 10 :: qs.flatMap chunk)).isEmpty = false := by
        cases hexBytes q.length <;> simp
      rw [hnonempty]
      have hsl := splitLine_append (hexBytes q.length) (q ++ 13 :: 10 :: qs.flatMap chunk)
        (natBytes_noLF 16 _ (by omega) (by omega))
      simp only [Bool.false_eq_true, if_false]
      rw [hsl]
      simp only [chunkSize_hexBytes]
      obtain ⟨k, hk⟩ : ∃ k, q.length = k + 1 := by
        cases q with
        | nil => exact absurd rfl hq
        | cons a q' => exact ⟨q'.length, by simp⟩
      have hlen : ¬ ((q ++ 13 :: 10 :: qs.flatMap chunk).length < q.length + 2) := by simp
      have hdrop : (q ++ 13 :: 10 :: qs.flatMap chunk).drop q.length = 13 :: 10 :: qs.flatMap chunk := by simp
      have hdrop2 : (q ++ 13 :: 10 :: qs.flatMap chunk).drop (q.length + 2) = qs.flatMap chunk := by
        rw [← List.drop_drop, hdrop]; rfl
      have htake : (q ++ 13 :: 10 :: qs.flatMap chunk).take q.length = q := by simp
      rw [hk] at hlen hdrop hdrop2 htake ⊢
      simp only [hlen, if_false, hdrop, hdrop2, htake]
      have := ih f hrest (by simp at hf; omega)
      simp [this]

/-- ... and never takes the cut message for a complete one -/
theorem decodeChunks_cut : ∀ (qs : List Bytes) (f : Nat),
    (∀ q ∈ qs, q ≠ []) → decodeChunks f (qs.flatMap chunk) = none := by
  intro qs
  induction qs with
  | nil =>
    intro f _
    cases f with
    | zero => simp [decodeChunks]
    | succ f => simp [decodeChunks, splitLine]
  | cons q qs ih =>
    intro f hne
    cases f with
    | zero => simp [decodeChunks]
    | succ f =>
      have hq : q ≠ [] := hne q (by simp)
      have hrest : ∀ x ∈ qs, x ≠ [] := fun x hx => hne x (by simp [hx])
      have hshape : (q :: qs).flatMap chunk
          = hexBytes q.length ++ 13 :: 10 :: (q ++ 13 :: 10 :: qs.flatMap chunk) := by
        rw [List.flatMap_cons]; exact chunk_shape q _
      rw [hshape]
      unfold decodeChunks
      have hsl := splitLine_append (hexBytes q.length) (q ++ 13 :: 10 :: qs.flatMap chunk)
        (natBytes_noLF 16 _ (by omega) (by omega))
      rw [hsl]
      simp only [chunkSize_hexBytes]
      obtain ⟨k, hk⟩ : ∃ k, q.length = k + 1 := by
        cases q with
        | nil => exact absurd rfl hq
        | cons a q' => exact ⟨q'.length, by simp⟩
      have hlen : ¬ ((q ++ 13 :: 10 :: qs.flatMap chunk).length < q.length + 2) := by simp
      have hdrop : (q ++ 13 :: 10 :: qs.flatMap chunk).drop q.length = 13 :: 10 :: qs.flatMap chunk := by simp
      have hdrop2 : (q ++ 13 :: 10 :: qs.flatMap chunk).drop (q.length + 2) = qs.flatMap chunk := by
        rw [← List.drop_drop, hdrop]; rfl
      rw [hk] at hlen hdrop hdrop2 ⊢
      simp only [hlen, if_false, hdrop, hdrop2]
      simp [ih f hrest]

/-- the bytes that follow the header block when the iterator raises at piece `k` -/
def failBytes (rq : Req) (r : Resp) (k : Nat) : Bytes := bytesOf (bodyActsFail rq r (prepare rq r) k)

/-- what the application's iterator would have produced -/
def producedOf (r : Resp) : Bytes := r.body.parts.flatten

theorem touched_iff (rq : Req) (r : Resp) (h : touched rq r = true) :
    (rq.isHead || bodylessStatus r.status) = false ∧ ((∃ ps, r.body = .iter ps) ∨ (∃ ps, r.body = .stream ps)) := by
  unfold touched at h
  cases hb : r.body <;> simp_all

theorem touched_clen (rq : Req) (r : Resp) (h : touched rq r = true) : (prepare rq r).clen = none := by
  rw [prepare_clen]
  rcases (touched_iff rq r h).2 with ⟨ps, hb⟩ | ⟨ps, hb⟩ <;> simp [hb, cLength]

theorem bytesOf_abort : bytesOf abortActs = [] := rfl

theorem failBytes_iter (rq : Req) (r : Resp) (k : Nat) (ps : List Bytes)
    (h : (rq.isHead || bodylessStatus r.status) = false) (hb : r.body = .iter ps) : failBytes rq r k = [] := by
  simp [failBytes, bodyActsFail, h, hb, bytesOf_abort]

theorem failBytes_stream (rq : Req) (r : Resp) (k : Nat) (ps : List Bytes)
    (h : (rq.isHead || bodylessStatus r.status) = false) (hb : r.body = .stream ps) :
    failBytes rq r k = (failPieces ps k).flatMap (frame (prepare rq r).chunked) := by
  simp only [failBytes, bodyActsFail, h, hb]
  simp [bytesOf_append, bytesOf_map_write, bytesOf_abort]

theorem cutOk_fail (rq : Req) (r : Resp) (k : Nat) (h : touched rq r = true) :
    cutOk (framing (prepare rq r)) (failBytes rq r k) true false (producedOf r) = true := by
  obtain ⟨hn, hb⟩ := touched_iff rq r h
  have hc := touched_clen rq r h
  unfold cutOk
  simp only [framing, hc, Bool.not_false, Bool.and_true, Bool.true_and]
  rcases hb with ⟨ps, hb⟩ | ⟨ps, hb⟩
  · rw [failBytes_iter rq r k ps hn hb]
    cases (prepare rq r).chunked <;> simp [chunkPrefix, isPrefix, decodeChunks, splitLine]
  · rw [failBytes_stream rq r k ps hn hb]
    have hprod : producedOf r = ps.flatten := by simp [producedOf, hb, Body.parts]
    rw [hprod]
    cases hch : (prepare rq r).chunked
    · simp only [Bool.false_eq_true, if_false]
      rw [flatMap_id_flatten]
      exact isPrefix_failPieces ps k
    · simp only [if_true]
      rw [flatMap_frame_true]
      rw [chunkPrefix_chunks _ _ (failPieces_ne ps k)
            (Nat.lt_succ_of_le (length_le_flatMap_chunk _)),
          decodeChunks_cut _ _ (failPieces_ne ps k)]
      simp [isPrefix_failPieces]

/-- the acts of an aborted response: writes only, then exactly one close, nothing after it -/
theorem respondFail_shape (rq : Req) (r : Resp) (k : Nat) (h : touched rq r = true) :
    ∃ ws : List Bytes, respondFail rq r k = ws.map Act.write ++ [Act.close] := by
  obtain ⟨hn, hb⟩ := touched_iff rq r h
  rcases hb with ⟨ps, hb⟩ | ⟨ps, hb⟩
  · exact ⟨[renderHead rq.v11 r.status r.reason (headers r (prepare rq r))], by
      simp [respondFail, bodyActsFail, hn, hb, abortActs]⟩
  · exact ⟨renderHead rq.v11 r.status r.reason (headers r (prepare rq r))
        :: (failPieces ps k).map (frame (prepare rq r).chunked), by
      simp [respondFail, bodyActsFail, hn, hb, abortActs, List.map_map, Function.comp_def]⟩

theorem respondFail_untouched (rq : Req) (r : Resp) (k : Nat) (h : touched rq r = false) :
    respondFail rq r k = respond rq r := by
  unfold touched at h
  unfold respondFail respond bodyActsFail bodyActs
  cases hn : (rq.isHead || bodylessStatus r.status)
  · cases hb : r.body <;> simp_all
  · simp

theorem hasClose_writes_close (ws : List Bytes) : hasClose (ws.map Act.write ++ [Act.close]) = true := by
  rw [hasClose_append]; simp [hasClose]

end HttpResp
end CV

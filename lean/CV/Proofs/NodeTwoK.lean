import CV.Proofs.NodeTwoMain
/-
C19, k connections on the server side.

The server owns one Protocol per accepted connection (`Server.__protocols[sock]`), all registered
on the same manager; connection j's other end is client j.  Every step of the two-party world
happens on one connection.  The only coupling: a `<name>_success` event on channel `node_result`
is seen by the `result_handler` of *every* Protocol of the process - each compares the call's
`node_sock` with its own socket (fix "node result is sent back on the calling connection only").
`n2_stepK` models exactly that: the answer is offered to every connection's `n2_resultHandler`.

Connection j has its own parameters `Es j` (calls, application behaviour, firewalls).
-/
namespace CV
namespace Node

theorem n2_stepK_length (Es : Nat → n2_Env) (ws : List n2_World) (js : Nat × n2_Step) :
    (n2_stepK Es ws js).length = ws.length := by
  obtain ⟨j, st⟩ := js
  cases st <;> simp only [n2_stepK] <;> (repeat' split) <;> simp

/-- a step on connection j is the two-party step there -/
theorem n2_stepK_same (Es : Nat → n2_Env) (ws : List n2_World) (j : Nat) (st : n2_Step) :
    (n2_stepK Es ws (j, st))[j]? = (ws[j]?).map (fun w => n2_step (Es j) w st) := by
  cases hw : ws[j]? with
  | none => cases st <;> simp [n2_stepK, hw]
  | some w =>
    have hj : j < ws.length := by
      rcases Nat.lt_or_ge j ws.length with h | h
      · exact h
      · rw [List.getElem?_eq_none h] at hw; cases hw
    cases st with
    | answer n =>
      simp only [n2_stepK, hw, n2_step, Option.map_some]
      cases hA : n2_takeAnswer (Es j) w n with
      | none => simp [hw]
      | some r =>
        obtain ⟨w', r⟩ := r
        simp [hj, n2_resultHandler]
    | send => simp only [n2_stepK, hw, Option.map_some]; exact List.getElem?_set_self hj
    | deliverAB n => simp only [n2_stepK, hw, Option.map_some]; exact List.getElem?_set_self hj
    | deliverBA n => simp only [n2_stepK, hw, Option.map_some]; exact List.getElem?_set_self hj
    | poll n => simp only [n2_stepK, hw, Option.map_some]; exact List.getElem?_set_self hj

/-- **isolation**: a step on connection j - in particular a handler return, whose `_success`
    event every Protocol of the server sees - leaves every other connection exactly as it was:
    nothing is appended to another connection's stream, no state of it changes -/
theorem n2_stepK_other (Es : Nat → n2_Env) (ws : List n2_World) (j j' : Nat) (st : n2_Step) (h : j' ≠ j) :
    (n2_stepK Es ws (j, st))[j']? = ws[j']? := by
  cases hw : ws[j]? with
  | none => cases st <;> simp [n2_stepK, hw]
  | some w =>
    cases st with
    | answer n =>
      simp only [n2_stepK, hw]
      cases hA : n2_takeAnswer (Es j) w n with
      | none => rfl
      | some r =>
        obtain ⟨w', r⟩ := r
        simp only [List.getElem?_mapIdx, List.getElem?_set_ne (Ne.symm h)]
        cases ws[j']? with
        | none => rfl
        | some x => simp [n2_resultHandler, Ne.symm h]
    | send => simp [n2_stepK, hw, List.getElem?_set_ne (Ne.symm h)]
    | deliverAB n => simp [n2_stepK, hw, List.getElem?_set_ne (Ne.symm h)]
    | deliverBA n => simp [n2_stepK, hw, List.getElem?_set_ne (Ne.symm h)]
    | poll n => simp [n2_stepK, hw, List.getElem?_set_ne (Ne.symm h)]

/-- **projection**: in any interleaving of the steps of k connections, connection j goes through
    exactly the two-party run of its own steps -/
theorem n2_runK_proj (Es : Nat → n2_Env) (j : Nat) (sched : List (Nat × n2_Step)) :
    ∀ ws : List n2_World,
      (n2_runK Es ws sched)[j]? = (ws[j]?).map (fun w => n2_run (Es j) w (n2_proj j sched)) := by
  induction sched with
  | nil => intro ws; simp [n2_runK, n2_run, n2_proj]
  | cons js r ih =>
    intro ws
    obtain ⟨j1, st⟩ := js
    have e : n2_runK Es ws ((j1, st) :: r) = n2_runK Es (n2_stepK Es ws (j1, st)) r := rfl
    rw [e, ih]
    by_cases hj : j1 = j
    · subst hj
      rw [n2_stepK_same]
      cases ws[j1]? <;> simp [n2_proj, n2_run]
    · rw [n2_stepK_other Es ws j1 j st (Ne.symm hj)]
      simp [n2_proj, hj]

end Node
end CV

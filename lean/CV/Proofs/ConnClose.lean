import CV.Proofs.Conn
/-
C12 / W11: the server-wide `close()` (`Conn.closeAll`, `Conn.XOp`) - helper lemmas.
`closeEach` is a sequence of `closeReq`; every `closeReq` keeps the invariant `CInv` and the relation to
the observer (`ok_closeReq`), touches only its own socket (`closeReq_frame`), removes a socket without
queued output from `_clients` and parks one with queued output in `_closeq`.
-/
namespace CV
namespace Conn
open Poller (Obj upd upd_apply upd_same upd_other)

theorem closeReq_frame (s : State) (o a : Obj) (h : a ≠ o) :
    (closeReq s o).1.buffers a = s.buffers a ∧ (a ∈ (closeReq s o).1.clients ↔ a ∈ s.clients) ∧
    (a ∈ (closeReq s o).1.closeq ↔ a ∈ s.closeq) := by
  unfold closeReq
  split
  · split
    · simp
    · simp [h]
  · unfold closeConn
    split
    · simp [h, List.mem_erase_of_ne h]
    · simp

theorem closeReq_clients (s : State) (o : Obj) :
    (closeReq s o).1.clients = s.clients ∨ (closeReq s o).1.clients = s.clients.erase o := by
  unfold closeReq
  split
  · split <;> simp
  · unfold closeConn
    split <;> simp

theorem closeReq_sub (s : State) (o a : Obj) (h : a ∈ (closeReq s o).1.clients) : a ∈ s.clients := by
  rcases closeReq_clients s o with e | e
  · rw [e] at h; exact h
  · rw [e] at h; exact List.mem_of_mem_erase h

theorem closeReq_nodup (s : State) (o : Obj) (nd : s.clients.Nodup) : (closeReq s o).1.clients.Nodup := by
  rcases closeReq_clients s o with e | e
  · rw [e]; exact nd
  · rw [e]; exact nd.erase o

theorem closeReq_self_empty (s : State) (o : Obj) (nd : s.clients.Nodup) (hb : bufGet s o = []) :
    o ∉ (closeReq s o).1.clients := by
  unfold closeReq
  split
  · next x y e => simp [bufGet, e] at hb
  · unfold closeConn
    split
    · exact List.Nodup.not_mem_erase nd
    · next h => exact h

theorem closeReq_self_pending (s : State) (o : Obj) (hb : bufGet s o ≠ []) :
    (closeReq s o).1.clients = s.clients ∧ o ∈ (closeReq s o).1.closeq ∧
    (closeReq s o).1.buffers = s.buffers := by
  unfold closeReq
  split
  · split
    · next h => exact ⟨rfl, h, rfl⟩
    · simp
  · next hne =>
    exfalso; apply hb
    unfold bufGet
    cases e : s.buffers o with
    | none => rfl
    | some l =>
      cases l with
      | nil => rfl
      | cons x y => exact absurd e (hne x y)

/-- what `closeReq` lets an observer see: nothing, or the close and the `disconnect` of its own socket -/
theorem closeReq_obs (s : State) (o : Obj) :
    (closeReq s o).2 = [] ∨ (closeReq s o).2 = [.sclosed o, .disconnect o] := by
  unfold closeReq
  split
  · split <;> simp
  · unfold closeConn
    split <;> simp

/-! ### the loop -/

theorem ok_closeEach {s : State} {σ : Spec} (l : List Obj) (c : CInv s) (r : Rel s σ) : Ok σ (closeEach s l) := by
  induction l generalizing s σ with
  | nil => exact Ok.nil c r
  | cons o l ih =>
    simp only [closeEach]
    have h1 := ok_closeReq (σ := σ) o c r
    exact Ok.bind h1 (ih h1.inv h1.rel)

theorem closeEach_sub (s : State) (l : List Obj) (a : Obj) (h : a ∈ (closeEach s l).1.clients) : a ∈ s.clients := by
  induction l generalizing s with
  | nil => exact h
  | cons o l ih => exact closeReq_sub s o a (ih _ h)

theorem closeEach_frame (s : State) (l : List Obj) (a : Obj) (h : a ∉ l) :
    (closeEach s l).1.buffers a = s.buffers a ∧ (a ∈ (closeEach s l).1.clients ↔ a ∈ s.clients) ∧
    (a ∈ (closeEach s l).1.closeq ↔ a ∈ s.closeq) ∧ Obs.disconnect a ∉ (closeEach s l).2 := by
  induction l generalizing s with
  | nil => simp [closeEach]
  | cons o l ih =>
    have hne : a ≠ o := fun e => h (by simp [e])
    have hl : a ∉ l := fun e => h (by simp [e])
    obtain ⟨f1, f2, f3⟩ := closeReq_frame s o a hne
    obtain ⟨i1, i2, i3, i4⟩ := ih (closeReq s o).1 hl
    simp only [closeEach]
    refine ⟨by rw [i1, f1], by rw [i2, f2], by rw [i3, f3], ?_⟩
    intro hm
    rcases List.mem_append.mp hm with m | m
    · rcases closeReq_obs s o with e | e
      · rw [e] at m; simp at m
      · rw [e] at m; simp at m; exact hne m
    · exact i4 m

/-- a socket of the list without queued output is no client afterwards -/
theorem closeEach_closed (s : State) (l : List Obj) (a : Obj) (nd : s.clients.Nodup) (ha : a ∈ l)
    (hb : bufGet s a = []) : a ∉ (closeEach s l).1.clients := by
  induction l generalizing s with
  | nil => simp at ha
  | cons o l ih =>
    simp only [closeEach]
    by_cases e : a = o
    · subst e
      exact fun h => closeReq_self_empty s a nd hb (closeEach_sub _ l a h)
    · have hl : a ∈ l := by simpa [e] using ha
      have hb' : bufGet (closeReq s o).1 a = [] := by
        simp only [bufGet, (closeReq_frame s o a e).1]; exact hb
      exact ih (closeReq s o).1 (closeReq_nodup s o nd) hl hb'

/-- a client with queued output that is in the list (or already waits in `_closeq`) stays a client,
    waits in `_closeq`, and keeps its queue -/
theorem closeEach_pending (s : State) (l : List Obj) (a : Obj) (hc : a ∈ s.clients) (hb : bufGet s a ≠ [])
    (h : a ∈ l ∨ a ∈ s.closeq) :
    a ∈ (closeEach s l).1.clients ∧ a ∈ (closeEach s l).1.closeq ∧ (closeEach s l).1.buffers a = s.buffers a ∧
    Obs.disconnect a ∉ (closeEach s l).2 := by
  induction l generalizing s with
  | nil =>
    rcases h with h | h
    · simp at h
    · simp [closeEach, hc, h]
  | cons o l ih =>
    simp only [closeEach]
    by_cases e : a = o
    · subst e
      obtain ⟨p1, p2, p3⟩ := closeReq_self_pending s a hb
      have hb' : bufGet (closeReq s a).1 a ≠ [] := by simp only [bufGet, p3]; exact hb
      obtain ⟨i1, i2, i3, i4⟩ := ih (closeReq s a).1 (by rw [p1]; exact hc) hb' (Or.inr p2)
      refine ⟨i1, i2, by rw [i3, p3], ?_⟩
      intro hm
      rcases List.mem_append.mp hm with m | m
      · have : (closeReq s a).2 = [] := by
          unfold closeReq
          split
          · split <;> rfl
          · next hne =>
            exfalso; apply hb
            unfold bufGet
            cases e : s.buffers a with
            | none => rfl
            | some l =>
              cases l with
              | nil => rfl
              | cons x y => exact absurd e (hne x y)
        rw [this] at m; simp at m
      · exact i4 m
    · obtain ⟨f1, f2, f3⟩ := closeReq_frame s o a e
      have hb' : bufGet (closeReq s o).1 a ≠ [] := by simp only [bufGet, f1]; exact hb
      have h' : a ∈ l ∨ a ∈ (closeReq s o).1.closeq := by
        rcases h with h | h
        · left; simpa [e] using h
        · right; exact f3.mpr h
      obtain ⟨i1, i2, i3, i4⟩ := ih (closeReq s o).1 (f2.mpr hc) hb' h'
      refine ⟨i1, i2, by rw [i3, f1], ?_⟩
      intro hm
      rcases List.mem_append.mp hm with m | m
      · rcases closeReq_obs s o with q | q
        · rw [q] at m; simp at m
        · rw [q] at m; simp at m; exact e m
      · exact i4 m

/-! ### runs with the server-wide operations -/

theorem ok_xstepCore {s : State} {σ : Spec} (op : XOp) (c : CInv s) (r : Rel s σ) : Ok σ (xstepCore s op) := by
  cases op with
  | op x => exact ok_stepCore x c r
  | closeAll => exact ok_closeEach s.clients c r
  | stop => exact ok_closeEach s.clients c r

theorem ok_xstep {s : State} {σ : Spec} (op : XOp) (c : CInv s) (r : Rel s σ) : Ok σ (xstep s op) := by
  have h1 := ok_xstepCore (σ := σ) op c r
  have h2 : Ok (specAdv σ (xstepCore s op).2) ((xstepCore s op).1, [Obs.tab (rows (xstepCore s op).1)]) := by
    refine ⟨?_, h1.inv, ?_⟩
    · simp only [specFail, tab_ok h1.inv h1.rel]
    · simp only [specAdv, List.foldl_cons, List.foldl_nil, Spec.advance]; exact h1.rel
  exact Ok.bind h1 h2

theorem ok_xrunFrom {s : State} {σ : Spec} (ops : List XOp) (c : CInv s) (r : Rel s σ) : Ok σ (xrunFrom s ops) := by
  induction ops generalizing s σ with
  | nil => exact Ok.nil c r
  | cons op ops ih =>
    simp only [xrunFrom]
    have h1 := ok_xstep (σ := σ) op c r
    exact Ok.bind h1 (ih h1.inv h1.rel)

theorem ok_xrun (k : Poller.Kind) (ops : List XOp) : Ok {} (xrun k ops) :=
  ok_xrunFrom ops (CInv.init k) (Rel.init k)

theorem xrunFrom_append (s : State) (a b : List XOp) :
    xrunFrom s (a ++ b) = ((xrunFrom (xrunFrom s a).1 b).1, (xrunFrom s a).2 ++ (xrunFrom (xrunFrom s a).1 b).2) := by
  induction a generalizing s with
  | nil => simp [xrunFrom]
  | cons x a ih => simp only [List.cons_append, xrunFrom, ih, List.append_assoc]

/-- the old histories are the new ones without server-wide operations -/
theorem xrunFrom_op (s : State) (ops : List Op) : xrunFrom s (ops.map .op) = runFrom s ops := by
  induction ops generalizing s with
  | nil => rfl
  | cons x ops ih => simp only [List.map_cons, xrunFrom, runFrom, xstep, step, xstepCore, ih]

/-- the observer's phase of a connected socket stays `conn` while the stream has no `disconnect` for it -/
theorem conn_stays (σ : Spec) (es : List Obs) (o : Obj) (h : σ.ph o = .conn) (hs : specFail σ es = none)
    (hd : Obs.disconnect o ∉ es) : (specAdv σ es).ph o = .conn := by
  induction es generalizing σ with
  | nil => exact h
  | cons x es ih =>
    simp only [specFail] at hs
    cases hx : obsFail σ x with
    | some c => simp [hx] at hs
    | none =>
      simp only [hx] at hs
      have hd' : Obs.disconnect o ∉ es := fun m => hd (List.mem_cons_of_mem _ m)
      have hx' : x ≠ Obs.disconnect o := fun e => hd (by simp [e])
      have a : (σ.advance x).ph o = .conn := by
        cases x with
        | connect a =>
          by_cases e : o = a
          · subst e; simp [Spec.advance]
          · simp [Spec.advance, e, h]
        | disconnect a =>
          have e : o ≠ a := fun e => hx' (by rw [e])
          simp [Spec.advance, e, h]
        | error a =>
          simp only [Spec.advance]
          split
          · next hi =>
            by_cases e : o = a
            · subst e; rw [h] at hi; cases hi
            · simp [e, h]
          · exact h
        | read a d => simp only [Spec.advance]; split <;> exact h
        | recvd a rc =>
          cases rc with
          | data d => cases d <;> simp [Spec.advance, h]
          | _ => simp [Spec.advance, h]
        | sent a n rs => simp [Spec.advance, h]
        | sclosed a => simp [Spec.advance, h]
        | tab rows => simp [Spec.advance, h]
      simp only [specAdv, List.foldl_cons]
      exact ih (σ.advance x) a hs hd'

/-- every observation of the loop is the close or the `disconnect` of a socket of the list -/
theorem closeEach_obs (s : State) (l : List Obj) (x : Obs) (h : x ∈ (closeEach s l).2) :
    ∃ o, o ∈ l ∧ (x = .sclosed o ∨ x = .disconnect o) := by
  induction l generalizing s with
  | nil => simp [closeEach] at h
  | cons o l ih =>
    simp only [closeEach] at h
    rcases List.mem_append.mp h with m | m
    · rcases closeReq_obs s o with q | q
      · rw [q] at m; simp at m
      · rw [q] at m
        refine ⟨o, by simp, ?_⟩
        simpa using m
    · obtain ⟨a, ha, hx⟩ := ih _ m
      exact ⟨a, by simp [ha], hx⟩

/-- a client of the list without queued output is disconnected by the loop -/
theorem closeEach_disconnects {s : State} {σ : Spec} (c : CInv s) (r : Rel s σ) (l : List Obj) (o : Obj)
    (hc : o ∈ s.clients) (ha : o ∈ l) (hb : bufGet s o = []) : Obs.disconnect o ∈ (closeEach s l).2 := by
  apply Classical.byContradiction
  intro hd
  have ok := ok_closeEach (σ := σ) l c r
  have ph : σ.ph o = .conn := (r.conn o).mpr hc
  have h1 := conn_stays σ _ o ph ok.spec hd
  have hin := (ok.rel.conn o).mp h1
  exact closeEach_closed s l o c.ND ha hb hin

/-- ... exactly once, and it is not announced again -/
theorem closeEach_life {s : State} {σ : Spec} (c : CInv s) (r : Rel s σ) (l : List Obj) (o : Obj)
    (hc : o ∈ s.clients) (ha : o ∈ l) (hb : bufGet s o = []) : lifeOf o (closeEach s l).2 = [.disconnect o] := by
  have ok := ok_closeEach (σ := σ) l c r
  have ph : σ.ph o = .conn := (r.conn o).mpr hc
  have h1 := life_ok σ _ o ok.spec
  rw [ph] at h1
  simp only [allowedLife, List.mem_cons, List.not_mem_nil, or_false] at h1
  rcases h1 with h | h
  · have hd := closeEach_disconnects c r l o hc ha hb
    have : Obs.disconnect o ∈ lifeOf o (closeEach s l).2 := by
      simp only [lifeOf, List.mem_filter]; exact ⟨hd, by simp⟩
    rw [h] at this; simp at this
  · exact h

namespace Client

theorem runFrom_append (s : State) (a b : List Op) :
    runFrom s (a ++ b) = ((runFrom (runFrom s a).1 b).1, (runFrom s a).2 ++ (runFrom (runFrom s a).1 b).2) := by
  induction a generalizing s with
  | nil => simp [runFrom]
  | cons x a ih => simp only [List.cons_append, runFrom, ih, List.append_assoc]

theorem doClose_down (s : State) : (doClose s).1.connected = false := by
  unfold doClose; cases h : s.connected <;> simp [h]

/-- without connect-while-connected, one step keeps  #disconnected + [connected now] = #connected + [connected before] -/
theorem cnt_step_eq (s : State) (op : Op) (hh : op = .connect .ok → s.connected = false) :
    count .disconnected (step s op).2 + b2n (step s op).1.connected
      = count .connected (step s op).2 + b2n s.connected := by
  cases op with
  | connect r =>
    cases r with
    | ok => simp [step, count, b2n, hh rfl]
    | refused =>
      have := cnt_doClose s
      simp only [step, List.cons_append, List.nil_append]
      rw [(cnt_skip .unreachable _ (by simp) (by simp)).1, (cnt_skip .unreachable _ (by simp) (by simp)).2,
          (cnt_skip .error _ (by simp) (by simp)).1, (cnt_skip .error _ (by simp) (by simp)).2]
      omega
    | timeout => simp [step, count]
    | failed => simp [step, count]
  | unregister => have := cnt_doClose s; simp only [step]; omega
  | stopped => have := cnt_closeReq s; simp only [step]; omega
  | close => have := cnt_closeReq s; simp only [step]; omega
  | write n => simp [step, count]
  | readable r =>
    cases r with
    | data d =>
      cases d with
      | nil => have := cnt_closeReq s; simp only [step]; omega
      | cons b d => simp [step, count]
    | eof => have := cnt_closeReq s; simp only [step]; omega
    | again => simp [step, count]
    | err =>
      have := cnt_doClose s
      simp only [step]
      rw [(cnt_skip .error _ (by simp) (by simp)).1, (cnt_skip .error _ (by simp) (by simp)).2]
      omega
  | hangup => have := cnt_doClose s; simp only [step]; omega
  | writable r =>
    simp only [step]
    split
    · have := cnt_afterWrite s; omega
    · next n tl hb =>
      cases r with
      | acc k =>
        simp only [List.nil_append]
        split
        · have := cnt_afterWrite { s with buf := (n - min k n) :: tl }; simp only at this ⊢; omega
        · have := cnt_afterWrite { s with buf := tl }; simp only at this ⊢; omega
      | again => simp only [List.nil_append]; have := cnt_afterWrite { s with buf := n :: tl }; simp only at this ⊢; omega
      | pipe =>
        have a := cnt_doClose { s with buf := tl }
        have b := cnt_afterWrite (doClose { s with buf := tl }).1
        simp only [count_append]
        simp only at a b ⊢
        omega
      | other =>
        have b := cnt_afterWrite { s with buf := tl }
        simp only [List.cons_append, List.nil_append]
        rw [(cnt_skip .error _ (by simp) (by simp)).1, (cnt_skip .error _ (by simp) (by simp)).2]
        simp only at b ⊢
        omega

theorem cnt_runFrom_eq (s : State) (ops : List Op) (h : noReconnect s ops = true) :
    count .disconnected (runFrom s ops).2 + b2n (runFrom s ops).1.connected
      = count .connected (runFrom s ops).2 + b2n s.connected := by
  induction ops generalizing s with
  | nil => simp [runFrom, count]
  | cons op ops ih =>
    simp only [noReconnect, Bool.and_eq_true] at h
    simp only [runFrom, count_append]
    have a := cnt_step_eq s op (by intro e; subst e; simpa using h.1)
    have b := ih (step s op).1 h.2
    omega

theorem noReconnect_append (s : State) (a b : List Op) (ha : noReconnect s a = true)
    (hb : noReconnect (runFrom s a).1 b = true) : noReconnect s (a ++ b) = true := by
  induction a generalizing s with
  | nil => simpa [runFrom] using hb
  | cons x a ih =>
    simp only [noReconnect, Bool.and_eq_true] at ha
    simp only [List.cons_append, noReconnect, Bool.and_eq_true]
    exact ⟨ha.1, ih _ ha.2 (by simpa [runFrom] using hb)⟩

end Client

end Conn
end CV

import CV.Proofs.InvRun
/-
Exit-code propagation through one `run()` (property C08, item 5, end to end):
the code with which `run()` leaves is the code of the one effective `x.stop(code)` of the run.
Hypotheses (see `CodeInv`, `code_inv`): `x` is the only running component during the run, its
`_exit_code` is clear at the start, and `x` stays its own root.
-/
namespace CV.Core

/-- the step about to be executed is an effective `x.stop(v)` with a code: `x` is running and its
    root is executing `run()` (so the code is remembered for `run()` instead of raised) -/
def EffStop (x : Nat) (c : Cfg) (v : Nat) : Prop :=
  c.exn = none ∧ (∃ k, c.stack = .stopMgr x (some v) :: k) ∧ (c.st.comp x).running = true ∧
  ((c.st.stopBegin x).comp ((c.st.stopBegin x).rootOf x)).executing = true

theorem rootOf_stopSetCode (s : St) (r : Nat) (code : Code) (x : Nat) :
    (s.stopSetCode r code).rootOf x = s.rootOf x := by
  unfold St.stopSetCode St.rootOf
  split
  · rw [St.comp_modComp]; split <;> rfl
  · rfl

theorem EffStop.effect {x : Nat} {c : Cfg} {v : Nat} (hwf : WF c.st) (h : EffStop x c v) :
    ((step c).st.comp x).running = false ∧
    ((step c).st.comp ((step c).st.rootOf x)).exitCode = some v := by
  obtain ⟨hx, ⟨k, hs⟩, hrun, hex⟩ := h
  have harm : (step c).st =
      (c.st.stopBegin x).stopSetCode ((c.st.stopBegin x).rootOf x) (some v) := by
    rw [step_cons c _ k hs hx]
    show (c.stopMgr k x (some v)).st = _
    unfold Cfg.stopMgr
    simp [hrun, hex]
  obtain ⟨w, hr, _, _, _⟩ := stopBegin_spec hwf x
  obtain ⟨_, hr2, _, hc2⟩ := stopSetCode_spec w ((c.st.stopBegin x).rootOf x) (some v)
  rw [harm]
  constructor
  · rw [hr2, hr]; simp [running_lt hrun]
  · rw [rootOf_stopSetCode, hc2]
    simp [running_lt' hex]

structure CodeInv (x : Nat) (c0 : Cfg) (n : Nat) : Prop where
  clean : ∀ y, y ≠ x → ((runN n c0).st.comp y).running = false
  body : done (runN n c0) = true ∨
    ((((runN n c0).st.comp x).running = true →
        ((runN n c0).st.comp x).exitCode = none ∧ ∀ m, m < n → ∀ v, ¬ EffStop x (runN m c0) v) ∧
     (∀ v, ((runN n c0).st.comp x).exitCode = some v ↔ ∃ m, m < n ∧ EffStop x (runN m c0) v))

theorem code_inv {x : Nat} {c0 : Cfg} (hwf : WF c0.st) (hs : c0.stack = [.run x]) (hx : c0.exn = none)
    (hlt : x < c0.st.comps.length)
    (hclean : ∀ y, y ≠ x → (c0.st.comp y).running = false)
    (hcode : (c0.st.comp x).exitCode = none)
    (hroot : ∀ m, (runN m c0).st.rootOf x = x) : ∀ n, CodeInv x c0 (n + 1) := by
  intro n
  induction n with
  | zero =>
    have h1 : runN (0 + 1) c0 = c0.run [] x := by
      rw [runN_succ']
      exact step_cons c0 (.run x) [] hs hx
    obtain ⟨_, hr, hc, _, _⟩ := Cfg.run_flags hwf [] x
    refine ⟨?_, Or.inr ⟨?_, ?_⟩⟩ <;> rw [h1]
    · intro y hy
      show ((c0.run [] x).st.comp y).running = false
      rw [hr y]; simp [Ne.symm hy, hclean y hy]
    · intro _
      refine ⟨(hc x).trans hcode, ?_⟩
      intro m hm v he
      have hm0 : m = 0 := by omega
      subst hm0
      obtain ⟨_, ⟨k, hk⟩, _⟩ := he
      have : (runN 0 c0).stack = [.run x] := hs
      rw [this] at hk; cases hk
    · intro v
      constructor
      · intro h2
        have : ((c0.run [] x).st.comp x).exitCode = some v := h2
        rw [hc x, hcode] at this; cases this
      · intro ⟨m, hm, he⟩
        have hm0 : m = 0 := by omega
        subst hm0
        obtain ⟨_, ⟨k, hk⟩, _⟩ := he
        have : (runN 0 c0).stack = [.run x] := hs
        rw [this] at hk; cases hk
  | succ n ih =>
    have hrel := run_rel hwf hs hx hlt n
    obtain ⟨ph, P, hsh, hne⟩ := hrel.shape
    have hnr : ∀ y k, (runN (n + 1) c0).stack = .run y :: k → (runN (n + 1) c0).exn ≠ none :=
      fun y k hs => absurd hs (hsh.not_run hne y k)
    refine ⟨?_, ?_⟩ <;> rw [runN_succ' (n + 1)]
    · intro y hy
      exact (step_flags hrel.wf hnr y).running_false (ih.clean y hy)
    · rcases ih.body with hd | ⟨hb1, hb2⟩
      · left; rw [step_done _ hd]; exact hd
      · -- facts about the step
        have hF1 : ∀ v, EffStop x (runN (n + 1) c0) v →
            ((step (runN (n + 1) c0)).st.comp x).running = false ∧
            ((step (runN (n + 1) c0)).st.comp x).exitCode = some v := by
          intro v he
          have := he.effect hrel.wf
          have hr := hroot (n + 2)
          rw [runN_succ' (n + 1)] at hr
          rw [hr] at this
          exact this
        have hrunmono : ((step (runN (n + 1) c0)).st.comp x).running = true →
            ((runN (n + 1) c0).st.comp x).running = true := by
          intro h1
          rcases (step_flags hrel.wf hnr x).stop with ⟨h2, _⟩ | ⟨h2, _, _⟩
          · rw [← h2]; exact h1
          · exact h2
        by_cases hch : ((step (runN (n + 1) c0)).st.comp x).exitCode = ((runN (n + 1) c0).st.comp x).exitCode
        · right
          refine ⟨?_, ?_⟩
          · intro h1
            have h2 := hb1 (hrunmono h1)
            refine ⟨hch.trans h2.1, ?_⟩
            intro m hm v he
            by_cases hmn : m < n + 1
            · exact h2.2 m hmn v he
            · have : m = n + 1 := by omega
              subst this
              have := (hF1 v he).2
              rw [hch, h2.1] at this; cases this
          · intro v
            rw [hch]
            constructor
            · intro h1
              obtain ⟨m, hm, he⟩ := (hb2 v).1 h1
              exact ⟨m, by omega, he⟩
            · intro ⟨m, hm, he⟩
              by_cases hmn : m < n + 1
              · exact (hb2 v).2 ⟨m, hmn, he⟩
              · have : m = n + 1 := by omega
                subst this
                rw [← hch]; exact (hF1 v he).2
        · obtain ⟨hxn, hcase⟩ := step_exitCode hrel.wf x hch
          rcases hcase with ⟨y, code, k, hst, hry, hsome, hrx, hexe, hnew⟩ | ⟨y, k, hst, _, _⟩
          · have hyx : y = x := by
              apply Classical.byContradiction
              intro hyx
              rw [ih.clean y hyx] at hry; cases hry
            subst hyx
            cases code with
            | none => cases hsome
            | some v =>
              have he : EffStop y (runN (n + 1) c0) v := ⟨hxn, ⟨k, hst⟩, hry, by rw [← hrx]; exact hexe⟩
              right
              refine ⟨?_, ?_⟩
              · intro h1
                rw [(hF1 v he).1] at h1; cases h1
              · intro w
                constructor
                · intro h1
                  rw [(hF1 v he).2] at h1
                  cases h1
                  exact ⟨n + 1, by omega, he⟩
                · intro ⟨m, hm, hew⟩
                  by_cases hmn : m < n + 1
                  · exact absurd hew ((hb1 hry).2 m hmn w)
                  · have : m = n + 1 := by omega
                    subst this
                    obtain ⟨_, ⟨k', hk'⟩, _⟩ := hew
                    rw [hst] at hk'
                    cases hk'
                    exact (hF1 v he).2
          · left
            obtain ⟨h1, h2, _, _⟩ := hsh.at_runFin hst
            subst h1 h2
            have hstack : (step (runN (n + 1) c0)).stack = [] := by
              rw [step_cons _ _ _ hst hxn]
              show (Cfg.runFin _ [] y).stack = []
              unfold Cfg.runFin; split <;> rfl
            simp [done, hstack]

/-- the outcome of the last step of `run()`, in terms of the effective stops of the run -/
theorem run_exit_code {x : Nat} {c0 : Cfg} (hwf : WF c0.st) (hs : c0.stack = [.run x]) (hx : c0.exn = none)
    (hlt : x < c0.st.comps.length)
    (hclean : ∀ y, y ≠ x → (c0.st.comp y).running = false)
    (hcode : (c0.st.comp x).exitCode = none)
    (hroot : ∀ m, (runN m c0).st.rootOf x = x)
    (n : Nat) (hfin : (runN n c0).stack = [.runFin x]) (hxn : (runN n c0).exn = none) :
    done (runN (n + 1) c0) = true ∧
    (∀ v, (runN (n + 1) c0).exn = some (.sysExit (some v)) ↔ ∃ m, m < n ∧ EffStop x (runN m c0) v) ∧
    ((runN (n + 1) c0).exn = none ↔ ∀ m, m < n → ∀ v, ¬ EffStop x (runN m c0) v) := by
  cases n with
  | zero =>
    have : (runN 0 c0).stack = [.run x] := hs
    rw [this] at hfin; cases hfin
  | succ n =>
    have hinv := code_inv hwf hs hx hlt hclean hcode hroot n
    have hnd : done (runN (n + 1) c0) = false := by simp [done, hfin]
    rcases hinv.body with hd | ⟨_, hb2⟩
    · rw [hd] at hnd; cases hnd
    · have hstep : runN (n + 1 + 1) c0 = (runN (n + 1) c0).runFin [] x := by
        rw [runN_succ' (n + 1)]
        exact step_cons _ _ _ hfin hxn
      have h1 : ((runN (n + 1) c0).st.runEnd x).1 = ((runN (n + 1) c0).st.comp x).exitCode := by
        have := (runEnd_spec (s := (runN (n + 1) c0).st) (run_rel hwf hs hx hlt n).wf x).1
        rw [hroot (n + 1)] at this
        exact this
      rw [hstep]
      unfold Cfg.runFin
      rw [h1]
      cases hc : ((runN (n + 1) c0).st.comp x).exitCode with
      | none =>
        have hno : ∀ m, m < n + 1 → ∀ v, ¬ EffStop x (runN m c0) v := by
          intro m hm v he
          have := (hb2 v).2 ⟨m, hm, he⟩
          rw [hc] at this; cases this
        refine ⟨rfl, ?_, ?_⟩
        · intro v
          constructor
          · intro h2
            simp only [Cfg.pop_exn, hxn] at h2
            cases h2
          · intro ⟨m, hm, he⟩
            exact absurd he (hno m hm v)
        · constructor
          · intro _; exact hno
          · intro _; simp only [Cfg.pop_exn, hxn]
      | some w =>
        have hw := (hb2 w).1 hc
        refine ⟨rfl, ?_, ?_⟩
        · intro v
          constructor
          · intro h2
            simp only [Cfg.raise_exn, Option.some.injEq, Exn.sysExit.injEq] at h2
            subst h2
            exact hw
          · intro hv
            have := (hb2 v).2 hv
            rw [hc] at this
            cases this
            rfl
        · constructor
          · intro h2
            simp only [Cfg.raise_exn] at h2
            cases h2
          · intro hno
            obtain ⟨m, hm, he⟩ := hw
            exact absurd he (hno m hm w)

end CV.Core

import CV.Model.PollerSpec
/-
Helper lemmas for C10: the invariant tying the kernel object / `_map` to the interest lists
(`PInv`), its preservation by every operation, and the simulation between a poller model and the
abstract observer of PollerSpec (`Rel`).
-/
namespace CV
namespace Poller

@[simp] theorem upd_same {α : Type} (m : Nat → α) (k : Nat) (v : α) : upd m k v k = v := by simp [upd]
@[simp] theorem upd_other {α : Type} (m : Nat → α) (k x : Nat) (v : α) (h : x ≠ k) : upd m k v x = m x := by
  simp [upd, h]
theorem upd_apply {α : Type} (m : Nat → α) (k x : Nat) (v : α) : upd m k v x = if x = k then v else m x := rfl

/-! ## the environment -/

structure WInv (w : World) : Prop where
  fo : ∀ o f, w.fno o = some f → w.owner f = some o
  of : ∀ o f, w.owner f = some o → w.fno o = some f
  orig : ∀ o f, w.fno o = some f → w.orig o = some f

theorem WInv.init : WInv World.init := ⟨by simp [World.init], by simp [World.init], by simp [World.init]⟩

theorem WInv.fno_inj {w : World} (h : WInv w) {o o' f} (a : w.fno o = some f) (b : w.fno o' = some f) : o = o' := by
  have := h.fo _ _ a; have := h.fo _ _ b; simp_all

theorem WInv.opn {w : World} (h : WInv w) {o f} (c : w.canOpen o f = true) : WInv (w.opn o f) := by
  simp only [World.canOpen, Bool.and_eq_true, Option.isNone_iff_eq_none] at c
  obtain ⟨c1, c2⟩ := c
  have hf : w.fno o = none := by
    cases hh : w.fno o with
    | none => rfl
    | some f' => have := h.orig _ _ hh; simp_all
  constructor
  · intro o' f' hh
    simp only [World.opn, upd_apply] at hh ⊢
    by_cases e : o' = o
    · subst e; simp_all
    · simp only [e, if_false] at hh
      have := h.fo _ _ hh
      by_cases e2 : f' = f
      · subst e2; simp_all
      · simp [e2, this]
  · intro o' f' hh
    simp only [World.opn, upd_apply] at hh ⊢
    by_cases e2 : f' = f
    · subst e2; simp_all
    · simp only [e2, if_false] at hh
      have := h.of _ _ hh
      by_cases e : o' = o
      · subst e; simp_all
      · simp [e, this]
  · intro o' f' hh
    simp only [World.opn, upd_apply] at hh ⊢
    by_cases e : o' = o
    · subst e; simp_all
    · simp only [e, if_false] at hh ⊢
      exact h.orig _ _ hh

theorem WInv.close {w : World} (h : WInv w) {o f} (c : w.fno o = some f) : WInv (w.close o f) := by
  constructor
  · intro o' f' hh
    simp only [World.close, upd_apply] at hh ⊢
    by_cases e : o' = o
    · subst e; simp_all
    · simp only [e, if_false] at hh
      have h1 := h.fo _ _ hh
      by_cases e2 : f' = f
      · subst e2; have := h.fno_inj hh c; contradiction
      · simp [e2, h1]
  · intro o' f' hh
    simp only [World.close, upd_apply] at hh ⊢
    by_cases e2 : f' = f
    · subst e2; simp_all
    · simp only [e2, if_false] at hh
      have h1 := h.of _ _ hh
      by_cases e : o' = o
      · subst e; simp_all
      · simp [e, h1]
  · intro o' f' hh
    simp only [World.close, upd_apply] at hh ⊢
    by_cases e : o' = o
    · subst e; simp_all
    · simp only [e, if_false] at hh
      exact h.orig _ _ hh


/-! ## the poller invariant -/

/-- `PInvX s x`: the invariant, except that the kernel registration of object `x` may be out of
    date (between the BasePoller call and `_updateRegistration`).  `PInv s = PInvX s none`. -/
structure PInvX (s : State) (x : Option Obj) : Prop where
  W : WInv s.w
  M : ∀ f o, s.map f = some o → s.w.orig o = some f
  B : ∀ o, (o ∈ s.read ∨ o ∈ s.write) → (s.w.orig o).isSome
  T : ∀ o, (o ∈ s.read ∨ o ∈ s.write) → (s.targets o).isSome
  T2 : ∀ o, o ∉ s.read → o ∉ s.write → s.targets o = none
  S : s.kind = .select → ∀ f, s.kin f = false ∧ s.kout f = false
  K2 : ∀ o f, some o ≠ x → s.kind ≠ .select → s.w.fno o = some f → (o ∈ s.read ∨ o ∈ s.write) →
        s.map f = some o ∧ s.kin f = decide (o ∈ s.read) ∧ s.kout f = decide (o ∈ s.write)
  K1 : ∀ f, (s.kin f = true ∨ s.kout f = true) →
        ∃ o, s.map f = some o ∧ (some o = x ∨ o ∈ s.read ∨ o ∈ s.write) ∧ (s.kind = .epoll → s.w.fno o = some f)

abbrev PInv (s : State) : Prop := PInvX s none

theorem PInv.init (k : Kind) : PInv (State.init k) := by
  constructor
  · exact WInv.init
  all_goals simp [State.init, World.init]

theorem mem_filter_ne {l : List Obj} {a o : Obj} : a ∈ l.filter (· ≠ o) ↔ a ∈ l ∧ a ≠ o := by
  simp [List.mem_filter]

theorem mem_erase_ne {l : List Obj} {a o : Obj} (h : a ≠ o) : a ∈ l.erase o ↔ a ∈ l :=
  List.mem_erase_of_ne h

/-- a BasePoller call that only touches the membership / target of `o` -/
theorem pinvx_base {s s' : State} {o : Obj} (h : PInv s)
    (hk : s'.kind = s.kind) (hw : s'.w = s.w) (hm : s'.map = s.map) (hin : s'.kin = s.kin) (hout : s'.kout = s.kout)
    (hr : ∀ a, a ≠ o → (a ∈ s'.read ↔ a ∈ s.read)) (hwr : ∀ a, a ≠ o → (a ∈ s'.write ↔ a ∈ s.write))
    (ht : ∀ a, a ≠ o → s'.targets a = s.targets a)
    (hko : (o ∈ s'.read ∨ o ∈ s'.write) → (s.w.orig o).isSome ∧ (s'.targets o).isSome)
    (hno : o ∉ s'.read → o ∉ s'.write → s'.targets o = none) : PInvX s' (some o) := by
  obtain ⟨W, M, B, T, T2, S, K2, K1⟩ := h
  constructor
  · rw [hw]; exact W
  · rw [hw, hm]; exact M
  · intro o' h'; rw [hw]; by_cases e : o' = o
    · subst e; exact (hko h').1
    · apply B; rw [hr _ e, hwr _ e] at h'; exact h'
  · intro o' h'; by_cases e : o' = o
    · subst e; exact (hko h').2
    · rw [ht _ e]; apply T; rw [hr _ e, hwr _ e] at h'; exact h'
  · intro o' h1 h2; by_cases e : o' = o
    · subst e; exact hno h1 h2
    · rw [ht _ e]; rw [hr _ e] at h1; rw [hwr _ e] at h2; exact T2 _ h1 h2
  · rw [hk, hin, hout]; exact S
  · intro o' f hx hkk hf hmm
    have e : o' ≠ o := by intro e; subst e; simp at hx
    rw [hk] at hkk; rw [hw] at hf; rw [hr _ e, hwr _ e] at hmm
    have := K2 o' f (by simp) hkk hf hmm
    rw [hm, hin, hout]; simp only [hr _ e, hwr _ e]; exact this
  · intro f hkk
    rw [hin, hout] at hkk
    obtain ⟨o', h1, h2, h3⟩ := K1 f hkk
    refine ⟨o', by rw [hm]; exact h1, ?_, by rw [hk, hw]; exact h3⟩
    by_cases e : o' = o
    · subst e; simp
    · rw [hr _ e, hwr _ e]; simp at h2; exact Or.inr h2

theorem pinvx_addReader {s : State} {o : Obj} {c : Chan} (h : PInv s) (k : s.w.known o = true) :
    PInvX (baseAddReader s o c) (some o) := by
  simp only [World.known] at k
  apply pinvx_base h <;> simp only [baseAddReader] <;> try rfl
  · intro a ha; simp [ha]
  · intro a ha; simp
  · intro a ha; simp [ha]
  · intro _; simp [k]
  · intro h1; simp at h1

theorem pinvx_addWriter {s : State} {o : Obj} {c : Chan} (h : PInv s) (k : s.w.known o = true) :
    PInvX (baseAddWriter s o c) (some o) := by
  simp only [World.known] at k
  apply pinvx_base h <;> simp only [baseAddWriter] <;> try rfl
  · intro a ha; simp
  · intro a ha; simp [ha]
  · intro a ha; simp [ha]
  · intro _; simp [k]
  · intro _ h1; simp at h1

theorem dropTarget_fields (s : State) (o : Obj) :
    (dropTargetIfUnused s o).kind = s.kind ∧ (dropTargetIfUnused s o).w = s.w ∧ (dropTargetIfUnused s o).map = s.map ∧
    (dropTargetIfUnused s o).kin = s.kin ∧ (dropTargetIfUnused s o).kout = s.kout ∧
    (dropTargetIfUnused s o).read = s.read ∧ (dropTargetIfUnused s o).write = s.write := by
  unfold dropTargetIfUnused; split <;> simp

theorem dropTarget_targets (s : State) (o a : Obj) :
    (dropTargetIfUnused s o).targets a = if a = o ∧ o ∉ s.read ∧ o ∉ s.write then none else s.targets a := by
  unfold dropTargetIfUnused; split
  · next h =>
    have : ¬ (a = o ∧ o ∉ s.read ∧ o ∉ s.write) := by grind
    rw [if_neg this]
  · next h => simp only [upd_apply]; grind

theorem pinvx_removeReader {s : State} {o : Obj} (h : PInv s) :
    PInvX (baseRemoveReader s o) (some o) := by
  have F := dropTarget_fields { s with read := s.read.erase o } o
  obtain ⟨f1, f2, f3, f4, f5, f6, f7⟩ := F
  apply pinvx_base h <;> simp only [baseRemoveReader, f1, f2, f3, f4, f5, f6, f7, dropTarget_targets]
  · intro a ha; exact List.mem_erase_of_ne ha
  · intro a ha; simp
  · intro a ha; simp [ha]
  · intro hm
    have hm' : o ∈ s.read ∨ o ∈ s.write := by
      rcases hm with hm | hm
      · exact Or.inl (List.mem_of_mem_erase hm)
      · exact Or.inr hm
    refine ⟨h.B _ hm', ?_⟩
    have : ¬ (o ∉ s.read.erase o ∧ o ∉ s.write) := by grind
    simp [this]; exact h.T _ hm'
  · intro h1 h2; simp [h1, h2]

theorem pinvx_removeWriter {s : State} {o : Obj} (h : PInv s) :
    PInvX (baseRemoveWriter s o) (some o) := by
  have F := dropTarget_fields { s with write := s.write.erase o } o
  obtain ⟨f1, f2, f3, f4, f5, f6, f7⟩ := F
  apply pinvx_base h <;> simp only [baseRemoveWriter, f1, f2, f3, f4, f5, f6, f7, dropTarget_targets]
  · intro a ha; simp
  · intro a ha; exact List.mem_erase_of_ne ha
  · intro a ha; simp [ha]
  · intro hm
    have hm' : o ∈ s.read ∨ o ∈ s.write := by
      rcases hm with hm | hm
      · exact Or.inl hm
      · exact Or.inr (List.mem_of_mem_erase hm)
    refine ⟨h.B _ hm', ?_⟩
    have : ¬ (o ∉ s.read ∧ o ∉ s.write.erase o) := by grind
    simp [this]; exact h.T _ hm'
  · intro h1 h2; simp [h1, h2]

theorem pinvx_discard {s : State} {o : Obj} (h : PInv s) :
    PInvX (baseDiscard s o) (some o) := by
  apply pinvx_base h <;> simp only [baseDiscard] <;> try rfl
  · intro a ha; simp [ha]
  · intro a ha; simp [ha]
  · intro a ha; simp [ha]
  · intro hm; simp at hm
  · intro _ _; simp


theorem WInv.orig_inj {w : World} (h : WInv w) {o f f'} (a : w.fno o = some f) (b : w.orig o = some f') : f = f' := by
  have := h.orig _ _ a; simp_all

/-- open object, still listed: (re)register -/
theorem pinv_register {s : State} {o : Obj} {f : Nat} (h : PInvX s (some o)) (hs : s.kind ≠ .select)
    (hf : s.w.fno o = some f) (hm : o ∈ s.read ∨ o ∈ s.write) :
    PInv { (unregister s f) with kin := upd (unregister s f).kin f (decide (o ∈ s.read)),
                                 kout := upd (unregister s f).kout f (decide (o ∈ s.write)),
                                 map := upd (unregister s f).map f (some o) } := by
  obtain ⟨W, M, B, T, T2, S, K2, K1⟩ := h
  constructor <;> simp only [unregister] <;> try assumption
  · intro f' o' hmap
    simp only [upd_apply] at hmap
    by_cases e : f' = f
    · subst e; simp at hmap; subst hmap; exact W.orig _ _ hf
    · simp only [e, if_false] at hmap; exact M _ _ hmap
  · intro hk; exact absurd hk hs
  · intro o' f' _ hk hf' hm'
    by_cases e : o' = o
    · subst e; rw [hf] at hf'; cases hf'; simp only [upd_same]; exact ⟨trivial, rfl, rfl⟩
    · have ne : f' ≠ f := by intro e2; subst e2; exact e (W.fno_inj hf' hf)
      simp only [upd_other _ _ _ _ ne]
      exact K2 o' f' (by simp [e]) hk hf' hm'
  · intro f' hk
    by_cases e : f' = f
    · subst e; exact ⟨o, by simp, by simp [hm], fun _ => hf⟩
    · simp only [upd_other _ _ _ _ e] at hk ⊢
      obtain ⟨o', h1, h2, h3⟩ := K1 f' hk
      refine ⟨o', h1, ?_, h3⟩
      rcases h2 with h2 | h2
      · simp at h2; subst h2
        have := M _ _ h1; have := W.orig _ _ hf; simp_all
      · simp [h2]

/-- open object, no longer listed: unregister (+ BasePoller.discard, a no-op on the lists) -/
theorem pinv_unregister {s : State} {o : Obj} {f : Nat} (h : PInvX s (some o))
    (hf : s.w.fno o = some f) (hm : ¬ (o ∈ s.read ∨ o ∈ s.write)) (delMap : Bool) :
    PInv { (baseDiscard (unregister s f) o) with
             map := if delMap then upd s.map f none else s.map } := by
  obtain ⟨W, M, B, T, T2, S, K2, K1⟩ := h
  have hr : ∀ a, a ∈ s.read.filter (· ≠ o) ↔ a ∈ s.read := by intro a; simp; grind
  have hw : ∀ a, a ∈ s.write.filter (· ≠ o) ↔ a ∈ s.write := by intro a; simp; grind
  constructor <;> simp only [unregister, baseDiscard, hr, hw] <;> try assumption
  · intro f' o' hmap
    cases delMap
    · exact M _ _ hmap
    · simp only [if_true, upd_apply] at hmap
      by_cases e : f' = f
      · simp [e] at hmap
      · simp only [e, if_false] at hmap; exact M _ _ hmap
  · intro o' h'
    have e : o' ≠ o := by intro e; subst e; exact hm h'
    rw [upd_other _ _ _ _ e]; exact T _ h'
  · intro o' h1 h2
    by_cases e : o' = o
    · subst e; simp
    · rw [upd_other _ _ _ _ e]; exact T2 _ h1 h2
  · intro hk f'; have := S hk f'; simp only [upd_apply]; grind
  · intro o' f' _ hk hf' hm'
    have e : o' ≠ o := by intro e; subst e; exact hm hm'
    have ne : f' ≠ f := by intro e2; subst e2; exact e (W.fno_inj hf' hf)
    simp only [upd_other _ _ _ _ ne]
    have := K2 o' f' (by simp [e]) hk hf' hm'
    cases delMap <;> simp [upd_other _ _ _ _ ne, this]
  · intro f' hk
    by_cases e : f' = f
    · subst e; simp at hk
    · simp only [upd_other _ _ _ _ e] at hk
      obtain ⟨o', h1, h2, h3⟩ := K1 f' hk
      have ne : o' ≠ o := by
        intro e2; subst e2
        have := M _ _ h1; have := W.orig _ _ hf; simp_all
      refine ⟨o', ?_, ?_, h3⟩
      · cases delMap <;> simp [upd_other _ _ _ _ e, h1]
      · rcases h2 with h2 | h2
        · simp at h2; exact absurd h2 ne
        · simp [h2]


theorem baseDiscard_eq_self {s : State} {o : Obj} (T2 : ∀ o, o ∉ s.read → o ∉ s.write → s.targets o = none)
    (h1 : o ∉ s.read) (h2 : o ∉ s.write) : baseDiscard s o = s := by
  have a : s.read.filter (· ≠ o) = s.read := by
    apply List.filter_eq_self.mpr; intro a ha; simp; intro e; subst e; exact h1 ha
  have b : s.write.filter (· ≠ o) = s.write := by
    apply List.filter_eq_self.mpr; intro a ha; simp; intro e; subst e; exact h2 ha
  have c : upd s.targets o none = s.targets := by
    funext x; simp only [upd_apply]; split
    · next e => subst e; exact (T2 _ h1 h2).symm
    · rfl
  simp only [baseDiscard, a, b, c]

/-- select has no kernel object: nothing to bring up to date -/
theorem pinv_of_select {s : State} {x} (h : PInvX s x) (hs : s.kind = .select) : PInv s := by
  obtain ⟨W, M, B, T, T2, S, K2, K1⟩ := h
  constructor <;> try assumption
  · intro o f _ hk; exact absurd hs hk
  · intro f hk; have := S hs f; simp_all

/-- EPoll, closed object: the kernel has already dropped it -/
theorem pinv_epoll_closed {s : State} {o : Obj} (h : PInvX s (some o)) (hs : s.kind = .epoll)
    (hf : s.w.fno o = none) : PInv s := by
  obtain ⟨W, M, B, T, T2, S, K2, K1⟩ := h
  constructor <;> try assumption
  · intro o' f _ hk hf' hm
    have e : o' ≠ o := by intro e; subst e; simp_all
    exact K2 o' f (by simp [e]) hk hf' hm
  · intro f hk
    obtain ⟨o', h1, h2, h3⟩ := K1 f hk
    refine ⟨o', h1, ?_, h3⟩
    rcases h2 with h2 | h2
    · simp at h2; subst h2; have := h3 hs; simp_all
    · simp [h2]

/-- Poll, closed object: [D2] purge its stale numbers -/
theorem pinv_purge {s : State} {o : Obj} (h : PInvX s (some o)) (hf : s.w.fno o = none) : PInv (purge s o) := by
  obtain ⟨W, M, B, T, T2, S, K2, K1⟩ := h
  constructor <;> simp only [purge] <;> try assumption
  · intro f o' hmap
    split at hmap
    · simp at hmap
    · exact M _ _ hmap
  · intro hk f; have := S hk f; split <;> simp_all
  · intro o' f _ hk hf' hm
    have e : o' ≠ o := by intro e; subst e; simp_all
    have := K2 o' f (by simp [e]) hk hf' hm
    have ne : ¬ s.map f = some o := by simp [this.1, e]
    simp only [ne, if_false]; exact this
  · intro f hk
    by_cases e : s.map f = some o
    · simp [e] at hk
    · simp only [e, if_false] at hk ⊢
      obtain ⟨o', h1, h2, h3⟩ := K1 f hk
      refine ⟨o', h1, ?_, h3⟩
      rcases h2 with h2 | h2
      · simp at h2; subst h2; exact absurd h1 e
      · simp [h2]

theorem pinv_updateRegistration {s : State} {o : Obj} (h : PInvX s (some o)) :
    PInv (updateRegistration s o).1 := by
  unfold updateRegistration
  split
  · next hk => exact pinv_of_select h hk
  · next hk =>
    split
    · next f hf =>
      split
      · next hm => exact pinv_register h (by simp [hk]) hf hm
      · next hm =>
        have := pinv_unregister h hf hm true
        simp only [unregister, baseDiscard, if_true] at this ⊢; exact this
    · next hf =>
      have hp := pinv_purge h hf
      split
      · exact hp
      · next hm =>
        show PInv (baseDiscard (purge s o) o)
        rw [baseDiscard_eq_self hp.T2]
        · exact hp
        · simp only [purge]; grind
        · simp only [purge]; grind
  · next hk =>
    split
    · next f hf =>
      split
      · next hm => exact pinv_register h (by simp [hk]) hf hm
      · next hm =>
        have := pinv_unregister h hf hm true
        simp only [unregister, baseDiscard, if_true] at this ⊢; exact this
    · next hf =>
      have hp := pinv_epoll_closed h hk hf
      split
      · exact hp
      · next hm =>
        show PInv (baseDiscard s o)
        rw [baseDiscard_eq_self hp.T2]
        · exact hp
        · grind
        · grind


theorem pinv_opn {s : State} {o : Obj} {f : Nat} (h : PInv s) (c : s.w.canOpen o f = true) :
    PInv { s with w := s.w.opn o f } := by
  obtain ⟨W, M, B, T, T2, S, K2, K1⟩ := h
  have c' := c
  simp only [World.canOpen, Bool.and_eq_true, Option.isNone_iff_eq_none] at c'
  obtain ⟨c1, c2⟩ := c'
  have notin : ¬ (o ∈ s.read ∨ o ∈ s.write) := by intro hm; have := B _ hm; simp_all
  constructor <;> try assumption
  · exact W.opn c
  · intro f' o' hmap
    have := M _ _ hmap
    have e : o' ≠ o := by intro e; subst e; simp_all
    simp [World.opn, upd_other _ _ _ _ e, this]
  · intro o' hm
    have e : o' ≠ o := by intro e; subst e; exact notin hm
    simp only [World.opn, upd_other _ _ _ _ e]; exact B _ hm
  · intro o' f' _ hk hf' hm
    have e : o' ≠ o := by intro e; subst e; exact notin hm
    simp only [World.opn, upd_other _ _ _ _ e] at hf'
    exact K2 o' f' (by simp) hk hf' hm
  · intro f' hk
    obtain ⟨o', h1, h2, h3⟩ := K1 f' hk
    refine ⟨o', h1, h2, ?_⟩
    intro hk'
    have e : o' ≠ o := by intro e; subst e; have := M _ _ h1; simp_all
    simp only [World.opn, upd_other _ _ _ _ e]; exact h3 hk'

theorem pinv_close {s : State} {o : Obj} {f : Nat} (h : PInv s) (hf : s.w.fno o = some f) :
    PInv (close s o f) := by
  obtain ⟨W, M, B, T, T2, S, K2, K1⟩ := h
  have Wc := W.close hf
  have key : ∀ o' f', (s.w.close o f).fno o' = some f' → s.w.fno o' = some f' ∧ o' ≠ o ∧ f' ≠ f := by
    intro o' f' hh
    simp only [World.close, upd_apply] at hh
    by_cases e : o' = o
    · simp [e] at hh
    · simp only [e, if_false] at hh
      exact ⟨hh, e, by intro e2; subst e2; exact e (W.fno_inj hh hf)⟩
  unfold close
  split
  · -- epoll: the kernel forgets the number
    next hk =>
    constructor <;> simp only [unregister] <;> try assumption
    · intro hk'; simp_all
    · intro o' f' _ hkk hf' hm
      obtain ⟨a, b, c⟩ := key _ _ hf'
      simp only [upd_other _ _ _ _ c]
      exact K2 o' f' (by simp) hkk a hm
    · intro f' hkk
      by_cases e : f' = f
      · subst e; simp at hkk
      · simp only [upd_other _ _ _ _ e] at hkk
        obtain ⟨o', h1, h2, h3⟩ := K1 f' hkk
        refine ⟨o', h1, h2, ?_⟩
        intro _
        have h4 := h3 hk
        have e2 : o' ≠ o := by intro e2; subst e2; simp_all
        simp only [World.close, upd_other _ _ _ _ e2]; exact h4
  · next hk =>
    constructor <;> try assumption
    · intro o' f' _ hkk hf' hm
      obtain ⟨a, b, c⟩ := key _ _ hf'
      exact K2 o' f' (by simp) hkk a hm
    · intro f' hkk
      obtain ⟨o', h1, h2, h3⟩ := K1 f' hkk
      refine ⟨o', h1, h2, ?_⟩
      intro hk'; exact absurd hk' (by simpa using hk)

/-- BasePoller.discard of any object keeps the invariant when the kind is select -/
theorem pinv_baseDiscard_select {s : State} (o : Obj) (h : PInv s) (hs : s.kind = .select) :
    PInv (baseDiscard s o) := by
  have h1 := pinvx_discard (o := o) h
  exact pinv_of_select h1 (by simpa [baseDiscard] using hs)

theorem foldl_baseDiscard_select {s : State} (l : List Obj) (h : PInv s) (hs : s.kind = .select) :
    PInv (l.foldl baseDiscard s) ∧ (l.foldl baseDiscard s).kind = .select := by
  induction l generalizing s with
  | nil => exact ⟨h, hs⟩
  | cons a l ih => exact ih (pinv_baseDiscard_select a h hs) (by simpa [baseDiscard] using hs)

theorem pinv_selectRound {s : State} (rd) (h : PInv s) (hs : s.kind = .select) : PInv (selectRound s rd).1 := by
  unfold selectRound; split
  · exact (foldl_baseDiscard_select _ h hs).1
  · exact h

/-- state after the disconnect branch of `_process` -/
def discState (s : State) (f : Nat) (o : Obj) : State :=
  { (baseDiscard (unregister s f) o) with map := upd s.map f none }

theorem process_state (s : State) (f : Nat) (ev : Rev) :
    (process s f ev).1 = s ∨ ∃ o, s.map f = some o ∧ (process s f ev).1 = discState s f o := by
  unfold process
  cases hm : s.map f with
  | none => simp
  | some o =>
    simp only []
    split
    · right; exact ⟨o, rfl, rfl⟩
    · left; rfl

theorem pinv_discState {s : State} {f : Nat} {o : Obj} (h : PInv s) (hmap : s.map f = some o) :
    PInv (discState s f o) := by
  obtain ⟨W, M, B, T, T2, S, K2, K1⟩ := h
  constructor <;> simp only [discState, baseDiscard, unregister] <;> try assumption
  · intro f' o' hm
    simp only [upd_apply] at hm
    by_cases e : f' = f
    · simp [e] at hm
    · simp only [e, if_false] at hm; exact M _ _ hm
  · intro o' hm; apply B; simp at hm; grind
  · intro o' hm
    simp at hm
    have e : o' ≠ o := by grind
    rw [upd_other _ _ _ _ e]; apply T; grind
  · intro o' h1 h2
    by_cases e : o' = o
    · subst e; simp
    · rw [upd_other _ _ _ _ e]; simp [e] at h1 h2; exact T2 _ h1 h2
  · intro hk f'; have := S hk f'; simp only [upd_apply]; grind
  · intro o' f' _ hk hf' hm
    simp at hm
    have e : o' ≠ o := by grind
    have k2 := K2 o' f' (by simp) hk hf' (by grind)
    have ne : f' ≠ f := by intro e2; subst e2; rw [hmap] at k2; simp at k2; exact e k2.1.symm
    simp only [upd_other _ _ _ _ ne]
    simp [e]; exact k2
  · intro f' hk
    by_cases e : f' = f
    · subst e; simp at hk
    · simp only [upd_other _ _ _ _ e] at hk ⊢
      obtain ⟨o', h1, h2, h3⟩ := K1 f' hk
      have ne : o' ≠ o := by
        intro e2; subst e2
        have a := M _ _ h1; have b := M _ _ hmap; rw [a] at b; simp at b; exact e b
      refine ⟨o', h1, ?_, h3⟩
      simp at h2; simp [ne]; exact h2

theorem pinv_process {s : State} (f : Nat) (ev : Rev) (h : PInv s) : PInv (process s f ev).1 := by
  rcases process_state s f ev with e | ⟨o, hm, e⟩
  · rw [e]; exact h
  · rw [e]; exact pinv_discState h hm

theorem process_kind (s : State) (f : Nat) (ev : Rev) : (process s f ev).1.kind = s.kind := by
  rcases process_state s f ev with e | ⟨o, hm, e⟩ <;> rw [e]
  rfl

theorem pinv_processAll {s : State} (t : List (Nat × Rev)) (h : PInv s) : PInv (processAll s t).1 := by
  induction t generalizing s with
  | nil => exact h
  | cons a t ih =>
    obtain ⟨f, ev⟩ := a
    simp only [processAll]
    exact ih (pinv_process f ev h)

theorem pinv_round {s : State} (fs rd) (h : PInv s) : PInv (round s fs rd).1 := by
  unfold round; split
  · next hk => exact pinv_selectRound rd h hk
  · exact pinv_processAll _ h

theorem pinv_step {s : State} (op : Op) (h : PInv s) : PInv (step s op).1 := by
  cases op with
  | addReader o c =>
    simp only [step]; split
    · next k => exact pinv_updateRegistration (pinvx_addReader h k)
    · exact h
  | addWriter o c =>
    simp only [step]; split
    · next k => exact pinv_updateRegistration (pinvx_addWriter h k)
    · exact h
  | removeReader o =>
    simp only [step]; split
    · exact pinv_updateRegistration (pinvx_removeReader h)
    · exact h
  | removeWriter o =>
    simp only [step]; split
    · exact pinv_updateRegistration (pinvx_removeWriter h)
    · exact h
  | discard o =>
    simp only [step]; split
    · exact pinv_updateRegistration (pinvx_discard h)
    · exact h
  | opn o f =>
    simp only [step]; split
    · next c => exact pinv_opn h c
    · exact h
  | close o =>
    simp only [step]; split
    · next f hf => exact pinv_close h hf
    · exact h
  | poll fs rd =>
    simp only [step]; split
    · exact pinv_round fs rd h
    · exact h

theorem pinv_runFrom {s : State} (ops : List Op) (h : PInv s) : PInv (runFrom s ops).1 := by
  induction ops generalizing s with
  | nil => exact h
  | cons op ops ih => simp only [runFrom]; exact ih (pinv_step op h)

end Poller
end CV

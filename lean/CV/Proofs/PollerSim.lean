import CV.Proofs.Poller
/-
C10: simulation between a poller model and the abstract observer of PollerSpec (`Rel`):
every BasePoller call moves both in step; `_updateRegistration` does not touch what the observer sees.
-/
namespace CV
namespace Poller

theorem count_snoc (l : List Obj) (o a : Obj) : (l ++ [o]).count a = l.count a + (if a = o then 1 else 0) := by
  rw [List.count_append, List.count_singleton]; congr 1; by_cases e : a = o
  · subst e; simp
  · have : ¬ o = a := fun h => e h.symm
    simp [e, this]

theorem count_erase' (l : List Obj) (o a : Obj) : (l.erase o).count a = if a = o then l.count a - 1 else l.count a := by
  by_cases e : a = o
  · subst e; simp [List.count_erase_self]
  · simp [e, List.count_erase_of_ne e]

theorem count_filter_ne (l : List Obj) (o a : Obj) : (l.filter (· ≠ o)).count a = if a = o then 0 else l.count a := by
  by_cases e : a = o
  · subst e; simp [List.count_eq_zero]
  · rw [List.count_filter (by simp [e])]; simp [e]

theorem mem_iff_count {l : List Obj} {a : Obj} : a ∈ l ↔ 0 < l.count a := List.count_pos_iff.symm

structure Rel (s : State) (σ : Spec) : Prop where
  w : s.w = σ.w
  le : ∀ o, s.read.count o ≤ σ.regR o ∧ s.write.count o ≤ σ.regW o
  eq : ∀ o, (s.kind ≠ .select ∨ (s.w.fno o).isSome) →
        s.read.count o = σ.regR o ∧ s.write.count o = σ.regW o ∧ s.targets o = σ.tgt o
  pend : s.kind = .select → ∀ o, s.w.fno o = none → (o ∈ s.read ∨ o ∈ s.write) → o ∈ σ.pend
  unk : ∀ o, s.w.orig o = none → σ.regR o = 0 ∧ σ.regW o = 0 ∧ σ.tgt o = none

theorem Rel.init (k : Kind) : Rel (State.init k) Spec.init := by
  constructor <;> simp [State.init, Spec.init]

/-! ### `_updateRegistration` is invisible to the observer -/

theorem updateRegistration_frame {s : State} {o : Obj} (h : PInvX s (some o)) :
    (updateRegistration s o).1.read = s.read ∧ (updateRegistration s o).1.write = s.write ∧
    (updateRegistration s o).1.targets = s.targets ∧ (updateRegistration s o).1.w = s.w ∧
    (updateRegistration s o).1.kind = s.kind := by
  have T2 := h.T2
  unfold updateRegistration
  split
  · simp
  · split
    · next f hf =>
      split
      · simp [unregister]
      · next hm =>
        have e := baseDiscard_eq_self (s := unregister s f) (o := o) T2 (by simp [unregister]; grind) (by simp [unregister]; grind)
        simp only [e]; simp [unregister]
    · split
      · simp [purge]
      · next hm =>
        have e := baseDiscard_eq_self (s := purge s o) (o := o) T2 (by simp [purge]; grind) (by simp [purge]; grind)
        simp only [e]; simp [purge]
  · split
    · next f hf =>
      split
      · simp [unregister]
      · next hm =>
        have e := baseDiscard_eq_self (s := unregister s f) (o := o) T2 (by simp [unregister]; grind) (by simp [unregister]; grind)
        simp only [e]; simp [unregister]
    · split
      · simp
      · next hm =>
        have e := baseDiscard_eq_self (s := s) (o := o) T2 (by grind) (by grind)
        simp only [e]; simp

theorem rel_of_frame {s s' : State} {σ : Spec} (h : Rel s σ) (a : s'.read = s.read) (b : s'.write = s.write)
    (c : s'.targets = s.targets) (d : s'.w = s.w) (e : s'.kind = s.kind) : Rel s' σ := by
  obtain ⟨w, le, eq, pend, unk⟩ := h
  constructor <;> simp only [a, b, c, d, e] <;> assumption

/-! ### BasePoller calls -/

theorem notePend_fields (σ : Spec) (o : Obj) :
    (σ.notePend o).regR = σ.regR ∧ (σ.notePend o).regW = σ.regW ∧ (σ.notePend o).tgt = σ.tgt ∧
    (σ.notePend o).w = σ.w ∧ (∀ a, a ∈ σ.pend → a ∈ (σ.notePend o).pend) ∧
    (σ.w.fno o = none → σ.registered o = true → o ∈ (σ.notePend o).pend) := by
  unfold Spec.notePend; split
  · simp; intro a ha; exact Or.inr ha
  · next h => simp; intro h1 h2; simp [h1, h2] at h

theorem dropTgt_fields (σ : Spec) (o : Obj) :
    (σ.dropTgt o).regR = σ.regR ∧ (σ.dropTgt o).regW = σ.regW ∧ (σ.dropTgt o).pend = σ.pend ∧ (σ.dropTgt o).w = σ.w ∧
    (∀ a, (σ.dropTgt o).tgt a = if a = o ∧ σ.registered o = false then none else σ.tgt a) := by
  unfold Spec.dropTgt; split
  · next h => simp [h]
  · next h => simp at h; simp [h, upd_apply]

theorem rel_addReader {s : State} {σ : Spec} (o : Obj) (c : Chan) (h : Rel s σ) (k : s.w.known o = true) :
    Rel (baseAddReader s o c)
      (({ σ with regR := upd σ.regR o (σ.regR o + 1), tgt := upd σ.tgt o (some c) } : Spec).notePend o) := by
  obtain ⟨w, le, eq, pend, unk⟩ := h
  obtain ⟨f1, f2, f3, f4, f5, f6⟩ := notePend_fields ({ σ with regR := upd σ.regR o (σ.regR o + 1), tgt := upd σ.tgt o (some c) } : Spec) o
  constructor <;> simp only [f1, f2, f3, f4, baseAddReader, count_snoc, upd_apply]
  · exact w
  · intro a; have := le a; split <;> simp_all <;> omega
  · intro a ha; have := eq a ha; split <;> simp_all
  · intro hk a hf hm
    by_cases e : a = o
    · subst e; apply f6
      · simpa [← w] using hf
      · simp [Spec.registered]
    · apply f5; apply pend hk a hf; simp [e] at hm; exact hm
  · intro a ha
    have e : a ≠ o := by intro e; subst e; simp [World.known, ha] at k
    simpa [e] using unk a ha

theorem rel_addWriter {s : State} {σ : Spec} (o : Obj) (c : Chan) (h : Rel s σ) (k : s.w.known o = true) :
    Rel (baseAddWriter s o c)
      (({ σ with regW := upd σ.regW o (σ.regW o + 1), tgt := upd σ.tgt o (some c) } : Spec).notePend o) := by
  obtain ⟨w, le, eq, pend, unk⟩ := h
  obtain ⟨f1, f2, f3, f4, f5, f6⟩ := notePend_fields ({ σ with regW := upd σ.regW o (σ.regW o + 1), tgt := upd σ.tgt o (some c) } : Spec) o
  constructor <;> simp only [f1, f2, f3, f4, baseAddWriter, count_snoc, upd_apply]
  · exact w
  · intro a; have := le a; split <;> simp_all <;> omega
  · intro a ha; have := eq a ha; split <;> simp_all
  · intro hk a hf hm
    by_cases e : a = o
    · subst e; apply f6
      · simpa [← w] using hf
      · simp [Spec.registered]
    · apply f5; apply pend hk a hf; simp [e] at hm; exact hm
  · intro a ha
    have e : a ≠ o := by intro e; subst e; simp [World.known, ha] at k
    simpa [e] using unk a ha


theorem registered_iff (σ : Spec) (o : Obj) : σ.registered o = true ↔ 0 < σ.regR o ∨ 0 < σ.regW o := by
  simp [Spec.registered]

theorem rel_removeReader {s : State} {σ : Spec} (o : Obj) (h : Rel s σ) :
    Rel (baseRemoveReader s o) (({ σ with regR := upd σ.regR o (σ.regR o - 1) } : Spec).dropTgt o) := by
  obtain ⟨w, le, eq, pend, unk⟩ := h
  obtain ⟨f1, f2, f3, f4, f5⟩ := dropTgt_fields ({ σ with regR := upd σ.regR o (σ.regR o - 1) } : Spec) o
  obtain ⟨g1, g2, g3, g4, g5, g6, g7⟩ := dropTarget_fields { s with read := s.read.erase o } o
  constructor <;> simp only [baseRemoveReader, f1, f2, f3, f4, f5, g1, g2, g6, g7, count_erase', upd_apply,
    dropTarget_targets]
  · exact w
  · intro a; have := le a
    by_cases e : a = o
    · subst e; simp only [if_true]; omega
    · simp only [e, if_false]; exact this
  · intro a ha
    have ea := eq a ha
    by_cases e : a = o
    · subst e
      simp only [if_true, true_and]
      refine ⟨ea.1 ▸ rfl, ea.2.1, ?_⟩
      have hr : (a ∉ s.read.erase a ∧ a ∉ s.write) ↔
          (({ σ with regR := upd σ.regR a (σ.regR a - 1) } : Spec).registered a = false) := by
        rw [← Bool.not_eq_true, registered_iff]
        simp only [mem_iff_count, count_erase', if_true, upd_same, ea.1, ea.2.1]
        omega
      by_cases c : a ∉ s.read.erase a ∧ a ∉ s.write
      · rw [if_pos c, if_pos (hr.mp c)]
      · rw [if_neg c, if_neg (fun x => c (hr.mpr x))]; exact ea.2.2
    · simp only [e, if_false, false_and]; exact ea
  · intro hk a hf hm
    apply pend hk a hf
    rcases hm with hm | hm
    · exact Or.inl (List.mem_of_mem_erase hm)
    · exact Or.inr hm
  · intro a ha; have := unk a ha; split <;> simp_all

theorem rel_removeWriter {s : State} {σ : Spec} (o : Obj) (h : Rel s σ) :
    Rel (baseRemoveWriter s o) (({ σ with regW := upd σ.regW o (σ.regW o - 1) } : Spec).dropTgt o) := by
  obtain ⟨w, le, eq, pend, unk⟩ := h
  obtain ⟨f1, f2, f3, f4, f5⟩ := dropTgt_fields ({ σ with regW := upd σ.regW o (σ.regW o - 1) } : Spec) o
  obtain ⟨g1, g2, g3, g4, g5, g6, g7⟩ := dropTarget_fields { s with write := s.write.erase o } o
  constructor <;> simp only [baseRemoveWriter, f1, f2, f3, f4, f5, g1, g2, g6, g7, count_erase', upd_apply,
    dropTarget_targets]
  · exact w
  · intro a; have := le a
    by_cases e : a = o
    · subst e; simp only [if_true]; omega
    · simp only [e, if_false]; exact this
  · intro a ha
    have ea := eq a ha
    by_cases e : a = o
    · subst e
      simp only [if_true, true_and]
      refine ⟨ea.1, ea.2.1 ▸ rfl, ?_⟩
      have hr : (a ∉ s.read ∧ a ∉ s.write.erase a) ↔
          (({ σ with regW := upd σ.regW a (σ.regW a - 1) } : Spec).registered a = false) := by
        rw [← Bool.not_eq_true, registered_iff]
        simp only [mem_iff_count, count_erase', if_true, upd_same, ea.1, ea.2.1]
        omega
      by_cases c : a ∉ s.read ∧ a ∉ s.write.erase a
      · rw [if_pos c, if_pos (hr.mp c)]
      · rw [if_neg c, if_neg (fun x => c (hr.mpr x))]; exact ea.2.2
    · simp only [e, if_false, false_and]; exact ea
  · intro hk a hf hm
    apply pend hk a hf
    rcases hm with hm | hm
    · exact Or.inl hm
    · exact Or.inr (List.mem_of_mem_erase hm)
  · intro a ha; have := unk a ha; split <;> simp_all

theorem rel_discard {s : State} {σ : Spec} (o : Obj) (h : Rel s σ) : Rel (baseDiscard s o) (σ.discard o) := by
  obtain ⟨w, le, eq, pend, unk⟩ := h
  constructor <;> simp only [baseDiscard, Spec.discard, count_filter_ne, upd_apply]
  · exact w
  · intro a; have := le a; split <;> simp_all
  · intro a ha; have := eq a ha; split <;> simp_all
  · intro hk a hf hm
    apply pend hk a hf
    simp only [mem_filter_ne] at hm
    rcases hm with hm | hm
    · exact Or.inl hm.1
    · exact Or.inr hm.1
  · intro a ha; have := unk a ha; split <;> simp_all


theorem rel_opn {s : State} {σ : Spec} {o : Obj} {f : Nat} (h : Rel s σ) (p : PInv s) (c : s.w.canOpen o f = true) :
    Rel { s with w := s.w.opn o f } { σ with w := σ.w.opn o f } := by
  obtain ⟨w, le, eq, pend, unk⟩ := h
  have c' := c
  simp only [World.canOpen, Bool.and_eq_true, Option.isNone_iff_eq_none] at c'
  have notin : ¬ (o ∈ s.read ∨ o ∈ s.write) := by intro hm; have := p.B _ hm; simp_all
  have hfo : s.w.fno o = none := by
    cases hh : s.w.fno o with
    | none => rfl
    | some f' => have := p.W.orig _ _ hh; simp_all
  constructor
  · simp [w]
  · exact le
  · intro a ha
    by_cases e : a = o
    · subst e
      have u := unk a c'.1
      have h1 : s.read.count a = 0 := List.count_eq_zero.mpr (fun x => notin (Or.inl x))
      have h2 : s.write.count a = 0 := List.count_eq_zero.mpr (fun x => notin (Or.inr x))
      have h3 := p.T2 a (fun x => notin (Or.inl x)) (fun x => notin (Or.inr x))
      simp [h1, h2, h3, u]
    · simp only [World.opn, upd_other _ _ _ _ e] at ha; exact eq a ha
  · intro hk a hf hm
    have e : a ≠ o := by intro e; subst e; exact notin hm
    simp only [World.opn, upd_other _ _ _ _ e] at hf
    exact pend hk a hf hm
  · intro a ha
    have e : a ≠ o := by intro e; subst e; simp [World.opn] at ha
    simp only [World.opn, upd_other _ _ _ _ e] at ha
    exact unk a ha

theorem close_fields (s : State) (o : Obj) (f : Nat) :
    (close s o f).read = s.read ∧ (close s o f).write = s.write ∧ (close s o f).targets = s.targets ∧
    (close s o f).w = s.w.close o f ∧ (close s o f).kind = s.kind := by
  unfold close; split <;> simp [unregister]

theorem rel_close {s : State} {σ : Spec} {o : Obj} {f : Nat} (h : Rel s σ) (hf : s.w.fno o = some f) :
    Rel (close s o f) (({ σ with w := σ.w.close o f } : Spec).notePend o) := by
  obtain ⟨w, le, eq, pend, unk⟩ := h
  obtain ⟨g1, g2, g3, g4, g5⟩ := close_fields s o f
  obtain ⟨f1, f2, f3, f4, f5, f6⟩ := notePend_fields ({ σ with w := σ.w.close o f } : Spec) o
  have key : ∀ a, (s.w.close o f).fno a = if a = o then none else s.w.fno a := by
    intro a; simp [World.close, upd_apply]
  constructor <;> simp only [g1, g2, g3, g4, g5, f1, f2, f3, f4]
  · simp [w]
  · exact le
  · intro a ha
    rw [key] at ha
    by_cases e : a = o
    · subst e; simp only [if_true, Option.isSome_none] at ha
      exact eq a (Or.inl (by simpa using ha))
    · simp only [e, if_false] at ha; exact eq a ha
  · intro hk a hfa hm
    rw [key] at hfa
    by_cases e : a = o
    · subst e
      apply f6
      · simp [World.close]
      · have := eq a (Or.inr (by simp [hf]))
        rw [registered_iff]; show 0 < σ.regR a ∨ 0 < σ.regW a; simp only [mem_iff_count] at hm; omega
    · simp only [e, if_false] at hfa; exact f5 a (pend hk a hfa hm)
  · intro a ha; exact unk a (by simpa [World.close] using ha)

end Poller
end CV

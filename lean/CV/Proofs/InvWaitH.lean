import CV.Proofs.InvWaitView
/-
C06, global layer, part 3: what `addHandler` / `removeHandler` do to the handler tables, and the
handler-table invariant `W6HInv` of the wait protocol with its transfer lemmas (on views).
-/
namespace CV.Core

/-! ### `addUniq`, `rmKeys` -/

theorem w6_addUniq_nodup {α} [BEq α] [LawfulBEq α] (l : List α) (x : α) (h : l.Nodup) : (addUniq l x).Nodup := by
  unfold addUniq
  split
  · exact h
  · rename_i hc
    rw [List.nodup_append]
    refine ⟨h, by simp, ?_⟩
    intro a ha b hb
    simp only [List.mem_singleton] at hb
    subst hb
    intro hab; subst hab
    exact hc (List.contains_iff_mem.2 ha)

theorem w6_mem_addUniq {α} [BEq α] [LawfulBEq α] (l : List α) (x y : α) : y ∈ addUniq l x ↔ y ∈ l ∨ y = x := by
  unfold addUniq
  split
  · rename_i hc
    have := List.contains_iff_mem.1 hc
    constructor
    · exact Or.inl
    · rintro (h | h)
      · exact h
      · subst h; exact this
  · simp

theorem w6_rmKeys_sublist (h : Nat) : ∀ (ks : List HKey) (l : List (HKey × Nat)), (rmKeys h l ks).2.Sublist l := by
  intro ks
  induction ks with
  | nil => intro l; exact List.Sublist.refl _
  | cons k ks ih =>
    intro l
    unfold rmKeys
    split
    · exact (ih _).trans (List.erase_sublist)
    · exact List.Sublist.refl _

theorem w6_rmKeys_keep (h : Nat) : ∀ (ks : List HKey) (l : List (HKey × Nat)) (x : HKey × Nat),
    x ∈ l → x.2 ≠ h → x ∈ (rmKeys h l ks).2 := by
  intro ks
  induction ks with
  | nil => intro l x hx _; exact hx
  | cons k ks ih =>
    intro l x hx hne
    unfold rmKeys
    split
    · apply ih _ _ _ hne
      rw [List.mem_erase_of_ne]
      · exact hx
      · intro e; apply hne; rw [e]
    · exact hx

/-! ### `removeHandler` on the tables -/

/-- the keys `removeHandler h byName` goes through -/
def St.w6_rmKeyList (t : St) (h : Nat) (byName : Option Name) : List HKey :=
  if (byName.isNone && (t.handler h).names.isEmpty) && !((t.handler h).chan == some .star) then [none]
  else match byName with
    | some n => [some n]
    | none => (t.handler h).names.map some

/-- the first step of `removeHandler`: a bare global handler leaves `_globals` -/
def St.w6_rmH1 (t : St) (h : Nat) (byName : Option Name) : St :=
  if (byName.isNone && (t.handler h).names.isEmpty) && ((t.handler h).chan == some .star)
  then t.modComp (t.handler h).owner fun x => { x with globals := x.globals.erase h } else t

theorem St.w6_removeHandler_snd (t : St) (h : Nat) (n : Option Name) :
    (t.removeHandler h n).2 =
      (((t.w6_rmH1 h n).modComp (t.handler h).owner fun x =>
          { x with htab := (rmKeys h ((t.w6_rmH1 h n).comp (t.handler h).owner).htab (t.w6_rmKeyList h n)).2 }).modComp
        (((t.w6_rmH1 h n).modComp (t.handler h).owner fun x =>
          { x with htab := (rmKeys h ((t.w6_rmH1 h n).comp (t.handler h).owner).htab (t.w6_rmKeyList h n)).2 }).rootOf (t.handler h).owner)
        fun x => { x with dirty := true }) := rfl

theorem St.w6_removeHandler_fst (t : St) (h : Nat) (n : Option Name) :
    (t.removeHandler h n).1 = (rmKeys h ((t.w6_rmH1 h n).comp (t.handler h).owner).htab (t.w6_rmKeyList h n)).1 := rfl

theorem St.w6_rmH1_htab (t : St) (h : Nat) (n : Option Name) (c : Nat) : ((t.w6_rmH1 h n).comp c).htab = (t.comp c).htab := by
  unfold St.w6_rmH1; split
  · exact St.w6_modComp_mk_htab ..
  · rfl
theorem St.w6_rmH1_tasks (t : St) (h : Nat) (n : Option Name) (c : Nat) : ((t.w6_rmH1 h n).comp c).tasks = (t.comp c).tasks := by
  unfold St.w6_rmH1; split
  · exact St.w6_modComp_mk_tasks ..
  · rfl
theorem St.w6_rmH1_comps_length (t : St) (h : Nat) (n : Option Name) : (t.w6_rmH1 h n).comps.length = t.comps.length := by
  unfold St.w6_rmH1; split <;> simp

/-- the owner's table after `removeHandler`; every other table is unchanged -/
theorem St.w6_removeHandler_htab (t : St) (h : Nat) (n : Option Name) (c : Nat) :
    ((t.removeHandler h n).2.comp c).htab =
      if c = (t.handler h).owner ∧ c < t.comps.length
      then (rmKeys h (t.comp c).htab (t.w6_rmKeyList h n)).2 else (t.comp c).htab := by
  rw [St.w6_removeHandler_snd, St.w6_modComp_mk_htab]
  by_cases hc : c = (t.handler h).owner
  · subst hc
    by_cases hr : (t.handler h).owner < t.comps.length
    · rw [St.w6_modComp_comp_lt _ _ _ (by rw [St.w6_rmH1_comps_length]; exact hr)]
      simp [hr, St.w6_rmH1_htab]
    · rw [St.w6_modComp_comp_ge _ _ _ _ (by rw [St.w6_rmH1_comps_length]; omega)]
      simp [hr, St.w6_rmH1_htab]
  · rw [St.w6_modComp_comp_ne _ _ _ _ hc]; simp [hc, St.w6_rmH1_htab]

@[simp] theorem St.w6_removeHandler_tasks (t : St) (h : Nat) (n : Option Name) (c : Nat) :
    ((t.removeHandler h n).2.comp c).tasks = (t.comp c).tasks := by
  rw [St.w6_removeHandler_snd, St.w6_modComp_mk_tasks, St.w6_modComp_mk_tasks,
    St.w6_rmH1_tasks]

theorem St.w6_removeHandler_htab_sublist (t : St) (h : Nat) (n : Option Name) (c : Nat) :
    ((t.removeHandler h n).2.comp c).htab.Sublist (t.comp c).htab := by
  rw [St.w6_removeHandler_htab]; split
  · exact w6_rmKeys_sublist _ _ _
  · exact List.Sublist.refl _

theorem St.w6_removeHandler_htab_keep (t : St) (h : Nat) (n : Option Name) (c : Nat) (x : HKey × Nat)
    (hx : x ∈ (t.comp c).htab) (hne : x.2 ≠ h) : x ∈ ((t.removeHandler h n).2.comp c).htab := by
  rw [St.w6_removeHandler_htab]; split
  · exact w6_rmKeys_keep _ _ _ _ hx hne
  · exact hx

theorem w6_rmKeys_single (h : Nat) (l : List (HKey × Nat)) (k : HKey) :
    (rmKeys h l [k]).2 = l.erase (k, h) ∧ ((rmKeys h l [k]).1 = true ↔ (k, h) ∈ l) := by
  unfold rmKeys
  split
  · rename_i hc; unfold rmKeys; exact ⟨rfl, by simp [List.contains_iff_mem.1 hc]⟩
  · rename_i hc
    have hm : (k, h) ∉ l := fun hm => hc (List.contains_iff_mem.2 hm)
    exact ⟨(List.erase_of_not_mem hm).symm, by simp [hm]⟩

/-- `removeHandler h (some n)`: exactly the entry `(some n, h)` of the owner's table goes -/
theorem St.w6_removeHandler_named_htab (t : St) (h : Nat) (n : Name) (c : Nat) (x : HKey × Nat)
    (hnd : (t.comp (t.handler h).owner).htab.Nodup) :
    x ∈ ((t.removeHandler h (some n)).2.comp c).htab ↔
      x ∈ (t.comp c).htab ∧ ¬ (c = (t.handler h).owner ∧ x = (some n, h)) := by
  rw [St.w6_removeHandler_htab]
  have hk : t.w6_rmKeyList h (some n) = [some n] := by simp [St.w6_rmKeyList]
  rw [hk]
  by_cases hc : c = (t.handler h).owner
  · subst hc
    by_cases hr : (t.handler h).owner < t.comps.length
    · simp only [hr, and_self, if_true, true_and]
      rw [(w6_rmKeys_single _ _ _).1, List.Nodup.mem_erase_iff hnd]
      constructor
      · rintro ⟨h1, h2⟩; exact ⟨h2, h1⟩
      · rintro ⟨h1, h2⟩; exact ⟨h2, h1⟩
    · simp only [hr, and_false, if_false, true_and]
      rw [St.w6_comp_ge _ _ (by omega)]
      simp [dfltComp]
  · simp [hc]

theorem St.w6_removeHandler_named_ok (t : St) (h : Nat) (n : Name) :
    (t.removeHandler h (some n)).1 = true ↔ (some n, h) ∈ (t.comp (t.handler h).owner).htab := by
  rw [St.w6_removeHandler_fst]
  have hk : t.w6_rmKeyList h (some n) = [some n] := by simp [St.w6_rmKeyList]
  rw [hk, (w6_rmKeys_single _ _ _).2, St.w6_rmH1_htab]

/-! ### `addHandler` on the tables -/

theorem w6_foldl_addUniq_comp (c : Nat) (h : Nat) : ∀ (ns : List Name) (t : St) (c' : Nat),
    ((ns.foldl (fun s n => s.modComp c fun x => { x with htab := addUniq x.htab (some n, h) }) t).comp c').tasks = (t.comp c').tasks ∧
    (((t.comp c').htab.Nodup → ((ns.foldl (fun s n => s.modComp c fun x => { x with htab := addUniq x.htab (some n, h) }) t).comp c').htab.Nodup) ∧
    (∀ x, x ∈ ((ns.foldl (fun s n => s.modComp c fun x => { x with htab := addUniq x.htab (some n, h) }) t).comp c').htab →
       x ∈ (t.comp c').htab ∨ (x.2 = h ∧ c' = c ∧ ∃ n ∈ ns, x.1 = some n)) ∧
    (∀ x, x ∈ (t.comp c').htab → x ∈ ((ns.foldl (fun s n => s.modComp c fun x => { x with htab := addUniq x.htab (some n, h) }) t).comp c').htab)) := by
  intro ns
  induction ns with
  | nil => intro t c'; exact ⟨rfl, id, fun x hx => Or.inl hx, fun x hx => hx⟩
  | cons n ns ih =>
    intro t c'
    simp only [List.foldl_cons]
    obtain ⟨i0, i1, i2, i3⟩ := ih (t.modComp c fun x => { x with htab := addUniq x.htab (some n, h) }) c'
    have hrow := St.w6_modComp_comp_cases t c (fun x => { x with htab := addUniq x.htab (some n, h) }) c'
    refine ⟨?_, ?_, ?_, ?_⟩
    · rw [i0, St.w6_modComp_mk_tasks]
    · intro hnd; apply i1
      rcases hrow with e | ⟨_, e⟩
      · rw [e]; exact hnd
      · rw [e]; exact w6_addUniq_nodup _ _ hnd
    · intro x hx
      rcases i2 x hx with hx | ⟨a, b, n', hn', hk⟩
      · rcases hrow with e | ⟨e1, e⟩
        · rw [e] at hx; exact Or.inl hx
        · rw [e] at hx
          rcases (w6_mem_addUniq _ _ _).1 hx with hx | hx
          · exact Or.inl hx
          · subst hx; exact Or.inr ⟨rfl, e1, n, List.mem_cons_self, rfl⟩
      · exact Or.inr ⟨a, b, n', List.mem_cons_of_mem _ hn', hk⟩
    · intro x hx; apply i3
      rcases hrow with e | ⟨_, e⟩
      · rw [e]; exact hx
      · rw [e]; exact (w6_mem_addUniq _ _ _).2 (Or.inl hx)

/-- `addHandler h`: tasks untouched, tables stay duplicate-free, only entries of `h` are added
    (to the owner's table), nothing is removed -/
theorem St.w6_addHandler_htab (t : St) (h : Nat) (c : Nat) :
    ((t.addHandler h).comp c).tasks = (t.comp c).tasks ∧
    ((t.comp c).htab.Nodup → ((t.addHandler h).comp c).htab.Nodup) ∧
    (∀ x, x ∈ ((t.addHandler h).comp c).htab → x ∈ (t.comp c).htab ∨ (x.2 = h ∧ c = (t.handler h).owner)) ∧
    (∀ x, x ∈ (t.comp c).htab → x ∈ ((t.addHandler h).comp c).htab) := by
  unfold St.addHandler
  dsimp only
  rw [St.w6_modComp_mk_tasks, St.w6_modComp_mk_htab]
  split
  · rw [St.w6_modComp_mk_tasks, St.w6_modComp_mk_htab]
    exact ⟨rfl, id, fun x hx => Or.inl hx, fun x hx => hx⟩
  · split
    · rw [St.w6_modComp_mk_tasks]
      refine ⟨rfl, ?_, ?_, ?_⟩
      · intro hnd
        rcases St.w6_modComp_comp_cases t (t.handler h).owner (fun x => { x with htab := addUniq x.htab (none, h) }) c with e | ⟨_, e⟩
        · rw [e]; exact hnd
        · rw [e]; exact w6_addUniq_nodup _ _ hnd
      · intro x hx
        rcases St.w6_modComp_comp_cases t (t.handler h).owner (fun x => { x with htab := addUniq x.htab (none, h) }) c with e | ⟨e1, e⟩
        · rw [e] at hx; exact Or.inl hx
        · rw [e] at hx
          rcases (w6_mem_addUniq _ _ _).1 hx with hx | hx
          · exact Or.inl hx
          · subst hx; exact Or.inr ⟨rfl, e1⟩
      · intro x hx
        rcases St.w6_modComp_comp_cases t (t.handler h).owner (fun x => { x with htab := addUniq x.htab (none, h) }) c with e | ⟨_, e⟩
        · rw [e]; exact hx
        · rw [e]; exact (w6_mem_addUniq _ _ _).2 (Or.inl hx)
    · obtain ⟨i0, i1, i2, i3⟩ := w6_foldl_addUniq_comp (t.handler h).owner h (t.handler h).names t c
      refine ⟨i0, i1, ?_, i3⟩
      intro x hx
      rcases i2 x hx with hx | ⟨a, b, _⟩
      · exact Or.inl hx
      · exact Or.inr ⟨a, b⟩

/-- `addHandler h` for a handler with exactly one name (the temporary handlers of `waitEvent`) -/
theorem St.w6_addHandler_single_htab (t : St) (h : Nat) (n : Name) (hn : (t.handler h).names = [n]) (c : Nat) :
    ((t.addHandler h).comp c).htab =
      if c = (t.handler h).owner ∧ c < t.comps.length then addUniq (t.comp c).htab (some n, h) else (t.comp c).htab := by
  unfold St.addHandler
  dsimp only
  rw [St.w6_modComp_mk_htab]
  simp only [hn, List.isEmpty_cons, Bool.false_and, Bool.false_eq_true, if_false, List.foldl_cons, List.foldl_nil]
  by_cases hc : c = (t.handler h).owner
  · subst hc
    by_cases hr : (t.handler h).owner < t.comps.length
    · rw [St.w6_modComp_comp_lt _ _ _ hr]; simp [hr]
    · rw [St.w6_modComp_comp_ge _ _ _ _ (by omega)]; simp [hr]
  · rw [St.w6_modComp_comp_ne _ _ _ _ hc]; simp [hc]

/-! ## the handler-table invariant -/

def HKind.w6_isWait : HKind → Bool
  | .waitEvent _ => true
  | .waitDone _ => true
  | .waitTick _ => true
  | _ => false

/-- the wait state a temporary handler belongs to -/
def HKind.w6_widx : HKind → Option Nat
  | .waitEvent w => some w
  | .waitDone w => some w
  | .waitTick w => some w
  | _ => none

theorem HKind.w6_isWait_of_widx {k : HKind} {w : Nat} (h : k.w6_widx = some w) : k.w6_isWait = true := by
  cases k <;> first | rfl | (simp [HKind.w6_widx] at h)

namespace W6View
variable (v : W6View)
def doneKey (w : Nat) : HKey × Nat := (some ((v.wh w).evName.child sfxDone), (v.wh w).hDone)
def evKey (w : Nat) : HKey × Nat := (some (v.wh w).evName, (v.wh w).hEvent)
def tickKey (_v : W6View) (ht : Nat) : HKey × Nat := (some Name.generateEvents, ht)
def htabOf (w : Nat) : List (HKey × Nat) := v.htab (v.wh w).owner
end W6View

/-- the handler-table part of the wait-protocol invariant (`n0` = number of pre-declared handlers) -/
structure W6HInv (n0 : Nat) (v : W6View) : Prop where
  hs0 : n0 ≤ v.nh
  old : ∀ h, h < n0 → (v.handler h).kind.w6_isWait = false
  htabLt : ∀ c k h, (k, h) ∈ v.htab c → h < v.nh
  nodup : ∀ c, (v.htab c).Nodup
  kindEv : ∀ h w, h < v.nh → (v.handler h).kind = .waitEvent w →
    w < v.nw ∧ (v.wh w).started = true ∧ (v.wh w).hEvent = h
  kindDone : ∀ h w, h < v.nh → (v.handler h).kind = .waitDone w →
    w < v.nw ∧ (v.wh w).started = true ∧ (v.wh w).hDone = h
  kindTick : ∀ h w, h < v.nh → (v.handler h).kind = .waitTick w →
    w < v.nw ∧ (v.wh w).started = true ∧ (v.wh w).hTick = some h
  recEv : ∀ w, w < v.nw → (v.wh w).started = true →
    (v.wh w).hEvent < v.nh ∧ (v.handler (v.wh w).hEvent).owner = (v.wh w).owner ∧
    (v.handler (v.wh w).hEvent).names = [(v.wh w).evName] ∧ (v.handler (v.wh w).hEvent).kind = .waitEvent w
  recDone : ∀ w, w < v.nw → (v.wh w).started = true →
    (v.wh w).hDone < v.nh ∧ (v.handler (v.wh w).hDone).owner = (v.wh w).owner ∧
    (v.handler (v.wh w).hDone).names = [(v.wh w).evName.child sfxDone] ∧ (v.handler (v.wh w).hDone).kind = .waitDone w
  recTick : ∀ w ht, w < v.nw → (v.wh w).started = true → (v.wh w).hTick = some ht →
    ht < v.nh ∧ (v.handler ht).owner = (v.wh w).owner ∧
    (v.handler ht).names = [Name.generateEvents] ∧ (v.handler ht).kind = .waitTick w
  loc : ∀ c k h, (k, h) ∈ v.htab c → (v.handler h).kind.w6_isWait = true →
    c = (v.handler h).owner ∧ ∃ n, (v.handler h).names = [n] ∧ k = some n
  i1 : ∀ w, w < v.nw → (v.wh w).started = true → v.evKey w ∈ v.htabOf w →
    (v.wh w).run = false ∧ v.doneKey w ∈ v.htabOf w
  i2 : ∀ w ht, w < v.nw → (v.wh w).started = true → (v.wh w).hTick = some ht → v.tickKey ht ∈ v.htabOf w →
    v.doneKey w ∈ v.htabOf w ∧ (v.wh w).flag = false
  j1 : ∀ w ht, w < v.nw → (v.wh w).started = true → (v.wh w).hTick = some ht → v.doneKey w ∈ v.htabOf w →
    (v.wh w).flag = false → v.tickKey ht ∈ v.htabOf w
  noTick : ∀ w, w < v.nw → (v.wh w).started = true → (v.wh w).timeout < 0 → (v.wh w).hTick = none
  chain : ∀ w, ((v.wh w).flag = true → (v.wh w).event.isSome = true) ∧
    ((v.wh w).event.isSome = true → (v.wh w).run = true) ∧
    ((v.wh w).run = true → (v.wh w).started = true) ∧ ((v.wh w).started = true → w < v.nw)

namespace W6HInv
variable {n0 : Nat} {v v' : W6View}

theorem congr (h : W6HInv n0 v) (e1 : v'.nh = v.nh) (e2 : v'.handler = v.handler) (e3 : v'.nw = v.nw)
    (e4 : v'.wh = v.wh) (e5 : v'.htab = v.htab) : W6HInv n0 v' := by
  obtain ⟨a1, a2, a3, a4, a5, a6, a7, a8, a9, a10⟩ := v
  obtain ⟨b1, b2, b3, b4, b5, b6, b7, b8, b9, b10⟩ := v'
  dsimp only at e1 e2 e3 e4 e5
  subst e1; subst e2; subst e3; subst e4; subst e5
  exact ⟨h.hs0, h.old, h.htabLt, h.nodup, h.kindEv, h.kindDone, h.kindTick, h.recEv, h.recDone, h.recTick, h.loc,
    h.i1, h.i2, h.j1, h.noTick, h.chain⟩

/-- ids of wait handlers are not pre-declared -/
theorem w6_wait_ge (h : W6HInv n0 v) {x : Nat} (hx : (v.handler x).kind.w6_isWait = true) : n0 ≤ x := by
  refine Classical.byContradiction fun hn => ?_
  rw [h.old x (by omega)] at hx; cases hx

/-- more handlers, none of them temporary (`computeHandlers` adds the fallback handlers) -/
theorem extendH (h : W6HInv n0 v) (hnh : v.nh ≤ v'.nh) (hkeep : ∀ x, x < v.nh → v'.handler x = v.handler x)
    (hnew : ∀ x, v.nh ≤ x → x < v'.nh → (v'.handler x).kind.w6_isWait = false)
    (e3 : v'.nw = v.nw) (e4 : v'.wh = v.wh) (e5 : v'.htab = v.htab) : W6HInv n0 v' := by
  have hk : ∀ x, x < v'.nh → (v'.handler x).kind.w6_isWait = true → x < v.nh := by
    intro x hx hw
    refine Classical.byContradiction fun hn => ?_
    rw [hnew x (by omega) hx] at hw; cases hw
  refine ⟨Nat.le_trans h.hs0 hnh, ?_, ?_, ?_, ?_, ?_, ?_, ?_, ?_, ?_, ?_, ?_, ?_, ?_, ?_, ?_⟩
  · intro x hx; rw [hkeep x (Nat.lt_of_lt_of_le hx h.hs0)]; exact h.old x hx
  · intro c k x hx; rw [e5] at hx; exact Nat.lt_of_lt_of_le (h.htabLt c k x hx) hnh
  · intro c; rw [e5]; exact h.nodup c
  · intro x w hx hkd
    have hlt := hk x hx (by rw [hkd]; rfl)
    rw [hkeep x hlt] at hkd; rw [e3, e4]; exact h.kindEv x w hlt hkd
  · intro x w hx hkd
    have hlt := hk x hx (by rw [hkd]; rfl)
    rw [hkeep x hlt] at hkd; rw [e3, e4]; exact h.kindDone x w hlt hkd
  · intro x w hx hkd
    have hlt := hk x hx (by rw [hkd]; rfl)
    rw [hkeep x hlt] at hkd; rw [e3, e4]; exact h.kindTick x w hlt hkd
  · intro w hw hs; rw [e3] at hw; rw [e4] at hs ⊢
    obtain ⟨r1, r2, r3, r4⟩ := h.recEv w hw hs
    rw [hkeep _ r1]; exact ⟨Nat.lt_of_lt_of_le r1 hnh, r2, r3, r4⟩
  · intro w hw hs; rw [e3] at hw; rw [e4] at hs ⊢
    obtain ⟨r1, r2, r3, r4⟩ := h.recDone w hw hs
    rw [hkeep _ r1]; exact ⟨Nat.lt_of_lt_of_le r1 hnh, r2, r3, r4⟩
  · intro w ht hw hs hht; rw [e3] at hw; rw [e4] at hs hht ⊢
    obtain ⟨r1, r2, r3, r4⟩ := h.recTick w ht hw hs hht
    rw [hkeep _ r1]; exact ⟨Nat.lt_of_lt_of_le r1 hnh, r2, r3, r4⟩
  · intro c k x hx hw; rw [e5] at hx
    have hlt := h.htabLt c k x hx
    rw [hkeep x hlt] at hw ⊢; exact h.loc c k x hx hw
  · intro w hw hs hm; rw [e3] at hw
    unfold W6View.evKey W6View.htabOf W6View.doneKey at *
    rw [e4] at hs hm ⊢; rw [e5] at hm ⊢; exact h.i1 w hw hs hm
  · intro w ht hw hs hht hm; rw [e3] at hw
    unfold W6View.tickKey W6View.htabOf W6View.doneKey at *
    rw [e4] at hs hht hm ⊢; rw [e5] at hm ⊢; exact h.i2 w ht hw hs hht hm
  · intro w ht hw hs hht hm hf; rw [e3] at hw
    unfold W6View.tickKey W6View.htabOf W6View.doneKey at *
    rw [e4] at hs hht hm hf ⊢; rw [e5] at hm ⊢; exact h.j1 w ht hw hs hht hm hf
  · intro w hw hs; rw [e3] at hw; rw [e4] at hs ⊢; exact h.noTick w hw hs
  · intro w; rw [e3, e4]; exact h.chain w

/-- the tables change only in entries of one handler `h0` that is not temporary
    (user `addHandler` / `removeHandler`) -/
theorem htabChange (h : W6HInv n0 v) (e1 : v'.nh = v.nh) (e2 : v'.handler = v.handler) (e3 : v'.nw = v.nw)
    (e4 : v'.wh = v.wh) (nd : ∀ c, (v'.htab c).Nodup) (h0 : Nat) (h0lt : h0 < v.nh)
    (h0k : (v.handler h0).kind.w6_isWait = false)
    (sub : ∀ c k x, (k, x) ∈ v'.htab c → (k, x) ∈ v.htab c ∨ x = h0)
    (sup : ∀ c k x, (k, x) ∈ v.htab c → x ≠ h0 → (k, x) ∈ v'.htab c) : W6HInv n0 v' := by
  have hiff : ∀ c k x, (v.handler x).kind.w6_isWait = true → ((k, x) ∈ v'.htab c ↔ (k, x) ∈ v.htab c) := by
    intro c k x hw
    have hne : x ≠ h0 := by intro e; rw [e, h0k] at hw; cases hw
    constructor
    · intro hm; rcases sub c k x hm with hm | hm
      · exact hm
      · exact absurd hm hne
    · intro hm; exact sup c k x hm hne
  refine ⟨by rw [e1]; exact h.hs0, by rw [e2]; exact h.old, ?_, nd, by rw [e1, e2, e3, e4]; exact h.kindEv,
    by rw [e1, e2, e3, e4]; exact h.kindDone, by rw [e1, e2, e3, e4]; exact h.kindTick,
    by rw [e1, e2, e3, e4]; exact h.recEv, by rw [e1, e2, e3, e4]; exact h.recDone,
    by rw [e1, e2, e3, e4]; exact h.recTick, ?_, ?_, ?_, ?_, by rw [e3, e4]; exact h.noTick,
    by rw [e3, e4]; exact h.chain⟩
  · intro c k x hx; rw [e1]
    rcases sub c k x hx with hx | hx
    · exact h.htabLt c k x hx
    · rw [hx]; exact h0lt
  · intro c k x hx hw; rw [e2] at hw ⊢
    exact h.loc c k x ((hiff c k x hw).1 hx) hw
  · intro w hw hs hm; rw [e3] at hw
    unfold W6View.evKey W6View.htabOf W6View.doneKey at *
    rw [e4] at hs hm ⊢
    obtain ⟨_, _, _, r4⟩ := h.recEv w hw hs
    obtain ⟨_, _, _, d4⟩ := h.recDone w hw hs
    have := h.i1 w hw hs ((hiff _ _ _ (by rw [r4]; rfl)).1 hm)
    exact ⟨this.1, (hiff _ _ _ (by rw [d4]; rfl)).2 this.2⟩
  · intro w ht hw hs hht hm; rw [e3] at hw
    unfold W6View.tickKey W6View.htabOf W6View.doneKey at *
    rw [e4] at hs hht hm ⊢
    obtain ⟨_, _, _, r4⟩ := h.recTick w ht hw hs hht
    obtain ⟨_, _, _, d4⟩ := h.recDone w hw hs
    have := h.i2 w ht hw hs hht ((hiff _ _ _ (by rw [r4]; rfl)).1 hm)
    exact ⟨(hiff _ _ _ (by rw [d4]; rfl)).2 this.1, this.2⟩
  · intro w ht hw hs hht hm hf; rw [e3] at hw
    unfold W6View.tickKey W6View.htabOf W6View.doneKey at *
    rw [e4] at hs hht hm hf ⊢
    obtain ⟨_, _, _, r4⟩ := h.recTick w ht hw hs hht
    obtain ⟨_, _, _, d4⟩ := h.recDone w hw hs
    exact (hiff _ _ _ (by rw [r4]; rfl)).2 (h.j1 w ht hw hs hht ((hiff _ _ _ (by rw [d4]; rfl)).1 hm) hf)

/-- a new, not yet started wait state (`genCall` / `genWait`) -/
theorem newWait (h : W6HInv n0 v) (e1 : v'.nh = v.nh) (e2 : v'.handler = v.handler) (e3 : v'.nw = v.nw + 1)
    (e4 : ∀ w, w ≠ v.nw → v'.wh w = v.wh w) (e5 : v'.htab = v.htab)
    (hs : (v'.wh v.nw).started = false) (hr : (v'.wh v.nw).run = false) (hf : (v'.wh v.nw).flag = false)
    (he : (v'.wh v.nw).event = none) : W6HInv n0 v' := by
  have old_of_started : ∀ w, (v'.wh w).started = true → w ≠ v.nw := by
    intro w hw e; rw [e, hs] at hw; cases hw
  refine ⟨by rw [e1]; exact h.hs0, by rw [e2]; exact h.old, by rw [e1, e5]; exact h.htabLt, by rw [e5]; exact h.nodup,
    ?_, ?_, ?_, ?_, ?_, ?_, by rw [e2, e5]; exact h.loc, ?_, ?_, ?_, ?_, ?_⟩
  · intro x w hx hk; rw [e1] at hx; rw [e2] at hk
    obtain ⟨r1, r2, r3⟩ := h.kindEv x w hx hk
    rw [e3, e4 w (by omega)]; exact ⟨by omega, r2, r3⟩
  · intro x w hx hk; rw [e1] at hx; rw [e2] at hk
    obtain ⟨r1, r2, r3⟩ := h.kindDone x w hx hk
    rw [e3, e4 w (by omega)]; exact ⟨by omega, r2, r3⟩
  · intro x w hx hk; rw [e1] at hx; rw [e2] at hk
    obtain ⟨r1, r2, r3⟩ := h.kindTick x w hx hk
    rw [e3, e4 w (by omega)]; exact ⟨by omega, r2, r3⟩
  · intro w hw hst
    have hne := old_of_started w hst
    rw [e4 w hne] at hst ⊢; rw [e1, e2]; exact h.recEv w (by omega) hst
  · intro w hw hst
    have hne := old_of_started w hst
    rw [e4 w hne] at hst ⊢; rw [e1, e2]; exact h.recDone w (by omega) hst
  · intro w ht hw hst hht
    have hne := old_of_started w hst
    rw [e4 w hne] at hst hht ⊢; rw [e1, e2]; exact h.recTick w ht (by omega) hst hht
  · intro w hw hst hm
    have hne := old_of_started w hst
    unfold W6View.evKey W6View.htabOf W6View.doneKey at *
    rw [e4 w hne] at hst hm ⊢; rw [e5] at hm ⊢; exact h.i1 w (by omega) hst hm
  · intro w ht hw hst hht hm
    have hne := old_of_started w hst
    unfold W6View.tickKey W6View.htabOf W6View.doneKey at *
    rw [e4 w hne] at hst hht hm ⊢; rw [e5] at hm ⊢; exact h.i2 w ht (by omega) hst hht hm
  · intro w ht hw hst hht hm hfl
    have hne := old_of_started w hst
    unfold W6View.tickKey W6View.htabOf W6View.doneKey at *
    rw [e4 w hne] at hst hht hm hfl ⊢; rw [e5] at hm ⊢; exact h.j1 w ht (by omega) hst hht hm hfl
  · intro w hw hst
    have hne := old_of_started w hst
    rw [e4 w hne] at hst ⊢; exact h.noTick w (by omega) hst
  · intro w
    by_cases hne : w = v.nw
    · subst hne
      rw [hs, hr, hf, he]
      exact ⟨fun x => (by cases x), fun x => (by cases x), fun x => (by cases x), fun x => (by cases x)⟩
    · rw [e4 w hne, e3]
      obtain ⟨c1, c2, c3, c4⟩ := h.chain w
      exact ⟨c1, c2, c3, fun x => Nat.lt_succ_of_lt (c4 x)⟩

/-- a protocol step of wait state `w0`: `run / flag / event / timeout` of `w0` change, entries of `w0`'s own
    temporary handlers leave the tables.  Everything about other wait states is preserved; the
    protocol clauses for `w0` itself (`c1 … c5`) are the caller's obligation. -/
theorem update (h : W6HInv n0 v) (w0 : Nat) (hw0 : w0 < v.nw) (hst : (v.wh w0).started = true)
    (e1 : v'.nh = v.nh) (e2 : v'.handler = v.handler) (e3 : v'.nw = v.nw)
    (e4 : ∀ w, w ≠ w0 → v'.wh w = v.wh w)
    (f1 : (v'.wh w0).owner = (v.wh w0).owner) (f2 : (v'.wh w0).evName = (v.wh w0).evName)
    (f3 : (v'.wh w0).hEvent = (v.wh w0).hEvent) (f4 : (v'.wh w0).hDone = (v.wh w0).hDone)
    (f5 : (v'.wh w0).hTick = (v.wh w0).hTick) (f6 : (v'.wh w0).started = true)
    (nd : ∀ c, (v'.htab c).Nodup)
    (sub : ∀ c x, x ∈ v'.htab c → x ∈ v.htab c)
    (sup : ∀ c x, x ∈ v.htab c → (v.handler x.2).kind.w6_widx ≠ some w0 → x ∈ v'.htab c)
    (c1 : ((v'.wh w0).flag = true → (v'.wh w0).event.isSome = true) ∧
      ((v'.wh w0).event.isSome = true → (v'.wh w0).run = true))
    (c2 : (v'.wh w0).timeout < 0 → (v'.wh w0).hTick = none)
    (c3 : v'.evKey w0 ∈ v'.htabOf w0 → (v'.wh w0).run = false ∧ v'.doneKey w0 ∈ v'.htabOf w0)
    (c4 : ∀ ht, (v'.wh w0).hTick = some ht → v'.tickKey ht ∈ v'.htabOf w0 →
      v'.doneKey w0 ∈ v'.htabOf w0 ∧ (v'.wh w0).flag = false)
    (c5 : ∀ ht, (v'.wh w0).hTick = some ht → v'.doneKey w0 ∈ v'.htabOf w0 → (v'.wh w0).flag = false →
      v'.tickKey ht ∈ v'.htabOf w0) : W6HInv n0 v' := by
  have hiff : ∀ c x, (v.handler x.2).kind.w6_widx ≠ some w0 → (x ∈ v'.htab c ↔ x ∈ v.htab c) :=
    fun c x hx => ⟨sub c x, fun hm => sup c x hm hx⟩
  refine ⟨by rw [e1]; exact h.hs0, by rw [e2]; exact h.old, ?_, nd, ?_, ?_, ?_, ?_, ?_, ?_, ?_, ?_, ?_, ?_, ?_, ?_⟩
  · intro c k x hx; rw [e1]; exact h.htabLt c k x (sub c _ hx)
  · intro x w hx hk; rw [e1] at hx; rw [e2] at hk
    obtain ⟨r1, r2, r3⟩ := h.kindEv x w hx hk
    rw [e3]
    by_cases hw : w = w0
    · subst hw; exact ⟨r1, f6, by rw [f3]; exact r3⟩
    · rw [e4 w hw]; exact ⟨r1, r2, r3⟩
  · intro x w hx hk; rw [e1] at hx; rw [e2] at hk
    obtain ⟨r1, r2, r3⟩ := h.kindDone x w hx hk
    rw [e3]
    by_cases hw : w = w0
    · subst hw; exact ⟨r1, f6, by rw [f4]; exact r3⟩
    · rw [e4 w hw]; exact ⟨r1, r2, r3⟩
  · intro x w hx hk; rw [e1] at hx; rw [e2] at hk
    obtain ⟨r1, r2, r3⟩ := h.kindTick x w hx hk
    rw [e3]
    by_cases hw : w = w0
    · subst hw; exact ⟨r1, f6, by rw [f5]; exact r3⟩
    · rw [e4 w hw]; exact ⟨r1, r2, r3⟩
  · intro w hw hs; rw [e3] at hw; rw [e1, e2]
    by_cases hww : w = w0
    · subst hww; rw [f1, f2, f3]; exact h.recEv w hw hst
    · rw [e4 w hww] at hs ⊢; exact h.recEv w hw hs
  · intro w hw hs; rw [e3] at hw; rw [e1, e2]
    by_cases hww : w = w0
    · subst hww; rw [f1, f2, f4]; exact h.recDone w hw hst
    · rw [e4 w hww] at hs ⊢; exact h.recDone w hw hs
  · intro w ht hw hs hht; rw [e3] at hw; rw [e1, e2]
    by_cases hww : w = w0
    · subst hww; rw [f5] at hht; rw [f1]; exact h.recTick w ht hw hst hht
    · rw [e4 w hww] at hs hht ⊢; exact h.recTick w ht hw hs hht
  · intro c k x hx hw; rw [e2] at hw ⊢; exact h.loc c k x (sub c _ hx) hw
  · intro w hw hs hm; rw [e3] at hw
    by_cases hww : w = w0
    · subst hww; exact c3 hm
    · unfold W6View.evKey W6View.htabOf W6View.doneKey at *
      rw [e4 w hww] at hs hm ⊢
      obtain ⟨_, _, _, r4⟩ := h.recEv w hw hs
      obtain ⟨_, _, _, d4⟩ := h.recDone w hw hs
      have hm' := (hiff _ _ (by dsimp only; rw [r4]; simp [HKind.w6_widx, hww])).1 hm
      have := h.i1 w hw hs hm'
      exact ⟨this.1, (hiff _ _ (by dsimp only; rw [d4]; simp [HKind.w6_widx, hww])).2 this.2⟩
  · intro w ht hw hs hht hm; rw [e3] at hw
    by_cases hww : w = w0
    · subst hww; exact c4 ht hht hm
    · unfold W6View.tickKey W6View.htabOf W6View.doneKey at *
      rw [e4 w hww] at hs hht hm ⊢
      obtain ⟨_, _, _, r4⟩ := h.recTick w ht hw hs hht
      obtain ⟨_, _, _, d4⟩ := h.recDone w hw hs
      have hm' := (hiff _ _ (by dsimp only; rw [r4]; simp [HKind.w6_widx, hww])).1 hm
      have := h.i2 w ht hw hs hht hm'
      exact ⟨(hiff _ _ (by dsimp only; rw [d4]; simp [HKind.w6_widx, hww])).2 this.1, this.2⟩
  · intro w ht hw hs hht hm hfl; rw [e3] at hw
    by_cases hww : w = w0
    · subst hww; exact c5 ht hht hm hfl
    · unfold W6View.tickKey W6View.htabOf W6View.doneKey at *
      rw [e4 w hww] at hs hht hm hfl ⊢
      obtain ⟨_, _, _, r4⟩ := h.recTick w ht hw hs hht
      obtain ⟨_, _, _, d4⟩ := h.recDone w hw hs
      have hm' := (hiff _ _ (by dsimp only; rw [d4]; simp [HKind.w6_widx, hww])).1 hm
      exact (hiff _ _ (by dsimp only; rw [r4]; simp [HKind.w6_widx, hww])).2 (h.j1 w ht hw hs hht hm' hfl)
  · intro w hw hs; rw [e3] at hw
    by_cases hww : w = w0
    · subst hww; exact c2
    · rw [e4 w hww] at hs ⊢; exact h.noTick w hw hs
  · intro w
    by_cases hww : w = w0
    · subst hww; rw [e3]; exact ⟨c1.1, c1.2, fun _ => f6, fun _ => hw0⟩
    · rw [e4 w hww, e3]; exact h.chain w

/-- `startWait w0` on a wait state that has not been started: three (two without timeout) fresh handler
    records, installed all together in the owner's table or (owner not a component) not at all -/
theorem startWait (h : W6HInv n0 v) (w0 : Nat) (hw0 : w0 < v.nw) (hns : (v.wh w0).started = false)
    (e1 : v'.nh = v.nh + (if (v.wh w0).timeout ≥ 0 then 3 else 2))
    (k0 : ∀ x, x < v.nh → v'.handler x = v.handler x)
    (kE : (v'.handler v.nh).owner = (v.wh w0).owner ∧ (v'.handler v.nh).names = [(v.wh w0).evName] ∧
      (v'.handler v.nh).kind = .waitEvent w0)
    (kD : (v'.handler (v.nh + 1)).owner = (v.wh w0).owner ∧
      (v'.handler (v.nh + 1)).names = [(v.wh w0).evName.child sfxDone] ∧ (v'.handler (v.nh + 1)).kind = .waitDone w0)
    (kT : (v.wh w0).timeout ≥ 0 → (v'.handler (v.nh + 2)).owner = (v.wh w0).owner ∧
      (v'.handler (v.nh + 2)).names = [Name.generateEvents] ∧ (v'.handler (v.nh + 2)).kind = .waitTick w0)
    (e3 : v'.nw = v.nw) (e4 : ∀ w, w ≠ w0 → v'.wh w = v.wh w)
    (g1 : (v'.wh w0).owner = (v.wh w0).owner) (g2 : (v'.wh w0).evName = (v.wh w0).evName)
    (g3 : (v'.wh w0).timeout = (v.wh w0).timeout) (g4 : (v'.wh w0).run = (v.wh w0).run)
    (g5 : (v'.wh w0).flag = (v.wh w0).flag) (g6 : (v'.wh w0).event = (v.wh w0).event)
    (g7 : (v'.wh w0).hEvent = v.nh) (g8 : (v'.wh w0).hDone = v.nh + 1)
    (g9 : (v'.wh w0).hTick = if (v.wh w0).timeout ≥ 0 then some (v.nh + 2) else none)
    (g10 : (v'.wh w0).started = true)
    (inst : Bool) (nd : ∀ c, (v'.htab c).Nodup)
    (mem : ∀ c x, x ∈ v'.htab c ↔ x ∈ v.htab c ∨ (inst = true ∧ c = (v.wh w0).owner ∧
      (x = (some (v.wh w0).evName, v.nh) ∨ x = (some ((v.wh w0).evName.child sfxDone), v.nh + 1) ∨
        ((v.wh w0).timeout ≥ 0 ∧ x = (some Name.generateEvents, v.nh + 2))))) : W6HInv n0 v' := by
  have hnh : v.nh + 2 ≤ v'.nh := by rw [e1]; split <;> omega
  have hnh3 : (v.wh w0).timeout ≥ 0 → v.nh + 3 ≤ v'.nh := by intro ht; rw [e1, if_pos ht]; omega
  have hnhle : v'.nh ≤ v.nh + 3 := by rw [e1]; split <;> omega
  -- flags of w0 are all down
  obtain ⟨c1, c2, c3, _⟩ := h.chain w0
  have hrun : (v.wh w0).run = false := by
    cases hr : (v.wh w0).run
    · rfl
    · rw [c3 hr] at hns; cases hns
  have hev : (v.wh w0).event.isSome = false := by
    cases he : (v.wh w0).event.isSome
    · rfl
    · rw [c2 he] at hrun; cases hrun
  have hflag : (v.wh w0).flag = false := by
    cases hf : (v.wh w0).flag
    · rfl
    · rw [c1 hf] at hev; cases hev
  -- entries with old ids are old entries
  have memOld : ∀ c x, x.2 < v.nh → (x ∈ v'.htab c ↔ x ∈ v.htab c) := by
    intro c x hx
    rw [mem]
    constructor
    · rintro (hm | ⟨_, _, hm | hm | ⟨_, hm⟩⟩)
      · exact hm
      all_goals (subst hm; simp at hx; try omega)
    · exact Or.inl
  -- old handlers are not handlers of w0
  have notW0 : ∀ x, x < v.nh → (v.handler x).kind.w6_widx ≠ some w0 := by
    intro x hx hk
    have hstd : (v.wh w0).started = true := by
      cases hkd : (v.handler x).kind <;> rw [hkd] at hk <;> simp [HKind.w6_widx] at hk
      · subst hk; exact (h.kindEv x _ hx hkd).2.1
      · subst hk; exact (h.kindDone x _ hx hkd).2.1
      · subst hk; exact (h.kindTick x _ hx hkd).2.1
    rw [hstd] at hns; cases hns
  -- which new id has which kind
  have newKind : ∀ x, v.nh ≤ x → x < v'.nh →
      (x = v.nh ∨ x = v.nh + 1 ∨ (x = v.nh + 2 ∧ (v.wh w0).timeout ≥ 0)) := by
    intro x h1 h2
    by_cases ht : (v.wh w0).timeout ≥ 0
    · rw [e1, if_pos ht] at h2; omega
    · rw [e1, if_neg ht] at h2; omega
  refine ⟨by have := h.hs0; omega, ?_, ?_, nd, ?_, ?_, ?_, ?_, ?_, ?_, ?_, ?_, ?_, ?_, ?_, ?_⟩
  · intro x hx; rw [k0 x (Nat.lt_of_lt_of_le hx h.hs0)]; exact h.old x hx
  · intro c k x hx
    rcases (mem c (k, x)).1 hx with hm | ⟨_, _, hm | hm | ⟨ht, hm⟩⟩
    · have := h.htabLt c k x hm; omega
    · injection hm with _ hm; omega
    · injection hm with _ hm; omega
    · injection hm with _ hm; have := hnh3 ht; omega
  · intro x w hx hk
    by_cases hlt : x < v.nh
    · rw [k0 x hlt] at hk
      obtain ⟨r1, r2, r3⟩ := h.kindEv x w hlt hk
      have hne : w ≠ w0 := by intro e; subst e; rw [r2] at hns; cases hns
      rw [e3, e4 w hne]; exact ⟨r1, r2, r3⟩
    · rcases newKind x (by omega) hx with e | e | ⟨e, ht⟩
      · subst e; rw [kE.2.2] at hk; injection hk with hk; subst hk; exact ⟨by omega, g10, g7⟩
      · subst e; rw [kD.2.2] at hk; cases hk
      · subst e; rw [(kT ht).2.2] at hk; cases hk
  · intro x w hx hk
    by_cases hlt : x < v.nh
    · rw [k0 x hlt] at hk
      obtain ⟨r1, r2, r3⟩ := h.kindDone x w hlt hk
      have hne : w ≠ w0 := by intro e; subst e; rw [r2] at hns; cases hns
      rw [e3, e4 w hne]; exact ⟨r1, r2, r3⟩
    · rcases newKind x (by omega) hx with e | e | ⟨e, ht⟩
      · subst e; rw [kE.2.2] at hk; cases hk
      · subst e; rw [kD.2.2] at hk; injection hk with hk; subst hk; exact ⟨by omega, g10, g8⟩
      · subst e; rw [(kT ht).2.2] at hk; cases hk
  · intro x w hx hk
    by_cases hlt : x < v.nh
    · rw [k0 x hlt] at hk
      obtain ⟨r1, r2, r3⟩ := h.kindTick x w hlt hk
      have hne : w ≠ w0 := by intro e; subst e; rw [r2] at hns; cases hns
      rw [e3, e4 w hne]; exact ⟨r1, r2, r3⟩
    · rcases newKind x (by omega) hx with e | e | ⟨e, ht⟩
      · subst e; rw [kE.2.2] at hk; cases hk
      · subst e; rw [kD.2.2] at hk; cases hk
      · subst e; rw [(kT ht).2.2] at hk; injection hk with hk; subst hk
        exact ⟨by omega, g10, by rw [g9, if_pos ht]⟩
  · intro w hw hs; rw [e3] at hw
    by_cases hww : w = w0
    · subst hww; rw [g7, g1, g2]; exact ⟨by omega, kE.1, kE.2.1, kE.2.2⟩
    · rw [e4 w hww] at hs ⊢
      obtain ⟨r1, r2, r3, r4⟩ := h.recEv w hw hs
      rw [k0 _ r1]; exact ⟨by omega, r2, r3, r4⟩
  · intro w hw hs; rw [e3] at hw
    by_cases hww : w = w0
    · subst hww; rw [g8, g1, g2]; exact ⟨by omega, kD.1, kD.2.1, kD.2.2⟩
    · rw [e4 w hww] at hs ⊢
      obtain ⟨r1, r2, r3, r4⟩ := h.recDone w hw hs
      rw [k0 _ r1]; exact ⟨by omega, r2, r3, r4⟩
  · intro w ht hw hs hht; rw [e3] at hw
    by_cases hww : w = w0
    · subst hww
      rw [g9] at hht
      split at hht
      · rename_i htm; injection hht with hht; subst hht
        rw [g1]; have := hnh3 htm; exact ⟨by omega, (kT htm).1, (kT htm).2.1, (kT htm).2.2⟩
      · cases hht
    · rw [e4 w hww] at hs hht ⊢
      obtain ⟨r1, r2, r3, r4⟩ := h.recTick w ht hw hs hht
      rw [k0 _ r1]; exact ⟨by omega, r2, r3, r4⟩
  · intro c k x hx hwk
    by_cases hlt : x < v.nh
    · rw [k0 x hlt] at hwk ⊢
      exact h.loc c k x ((memOld c (k, x) hlt).1 hx) hwk
    · rcases (mem c (k, x)).1 hx with hm | ⟨_, hc, hm | hm | ⟨ht, hm⟩⟩
      · exact absurd (h.htabLt c k x hm) hlt
      · injection hm with h1 h2; subst h1; subst h2; rw [kE.1, kE.2.1]; exact ⟨hc, _, rfl, rfl⟩
      · injection hm with h1 h2; subst h1; subst h2; rw [kD.1, kD.2.1]; exact ⟨hc, _, rfl, rfl⟩
      · injection hm with h1 h2; subst h1; subst h2; rw [(kT ht).1, (kT ht).2.1]; exact ⟨hc, _, rfl, rfl⟩
  · intro w hw hs hm; rw [e3] at hw
    by_cases hww : w = w0
    · subst hww
      unfold W6View.evKey W6View.htabOf W6View.doneKey at *
      rw [g1, g2, g7] at hm; rw [g1, g2, g8, g4]
      refine ⟨hrun, ?_⟩
      rcases (mem _ _).1 hm with hm | ⟨hi, _, _⟩
      · exact absurd (h.htabLt _ _ _ hm) (Nat.lt_irrefl _)
      · exact (mem _ _).2 (Or.inr ⟨hi, rfl, Or.inr (Or.inl rfl)⟩)
    · unfold W6View.evKey W6View.htabOf W6View.doneKey at *
      rw [e4 w hww] at hs hm ⊢
      obtain ⟨r1, _, _, _⟩ := h.recEv w hw hs
      obtain ⟨d1, _, _, _⟩ := h.recDone w hw hs
      have := h.i1 w hw hs ((memOld _ _ r1).1 hm)
      exact ⟨this.1, (memOld _ _ d1).2 this.2⟩
  · intro w ht hw hs hht hm; rw [e3] at hw
    by_cases hww : w = w0
    · subst hww
      unfold W6View.tickKey W6View.htabOf W6View.doneKey at *
      rw [g1] at hm; rw [g1, g2, g8, g5]
      refine ⟨?_, hflag⟩
      have htlt : ¬ ht < v.nh := by
        rw [g9] at hht; split at hht
        · injection hht with hht; omega
        · cases hht
      rcases (mem _ _).1 hm with hm | ⟨hi, _, _⟩
      · exact absurd (h.htabLt _ _ _ hm) htlt
      · exact (mem _ _).2 (Or.inr ⟨hi, rfl, Or.inr (Or.inl rfl)⟩)
    · unfold W6View.tickKey W6View.htabOf W6View.doneKey at *
      rw [e4 w hww] at hs hht hm ⊢
      obtain ⟨r1, _, _, _⟩ := h.recTick w ht hw hs hht
      obtain ⟨d1, _, _, _⟩ := h.recDone w hw hs
      have := h.i2 w ht hw hs hht ((memOld _ _ r1).1 hm)
      exact ⟨(memOld _ _ d1).2 this.1, this.2⟩
  · intro w ht hw hs hht hm hfl; rw [e3] at hw
    by_cases hww : w = w0
    · subst hww
      unfold W6View.tickKey W6View.htabOf W6View.doneKey at *
      rw [g1, g2, g8] at hm; rw [g1]
      rw [g9] at hht
      split at hht
      · rename_i htm; injection hht with hht; subst hht
        rcases (mem _ _).1 hm with hm | ⟨hi, _, _⟩
        · have := h.htabLt _ _ _ hm; omega
        · exact (mem _ _).2 (Or.inr ⟨hi, rfl, Or.inr (Or.inr ⟨htm, rfl⟩)⟩)
      · cases hht
    · unfold W6View.tickKey W6View.htabOf W6View.doneKey at *
      rw [e4 w hww] at hs hht hm hfl ⊢
      obtain ⟨r1, _, _, _⟩ := h.recTick w ht hw hs hht
      obtain ⟨d1, _, _, _⟩ := h.recDone w hw hs
      exact (memOld _ _ r1).2 (h.j1 w ht hw hs hht ((memOld _ _ d1).1 hm) hfl)
  · intro w hw hs; rw [e3] at hw
    by_cases hww : w = w0
    · subst hww; intro htm; rw [g3] at htm; rw [g9, if_neg (by omega)]
    · rw [e4 w hww] at hs ⊢; exact h.noTick w hw hs
  · intro w
    by_cases hww : w = w0
    · subst hww
      rw [g5, g6, g4, hflag, hrun, e3]
      refine ⟨fun x => (by cases x), fun x => ?_, fun x => (by cases x), fun _ => hw0⟩
      rw [hev] at x; cases x
    · rw [e4 w hww, e3]; exact h.chain w

end W6HInv
end CV.Core

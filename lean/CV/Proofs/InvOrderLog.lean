import CV.Proofs.InvOrderMain
/-
C02, machine level, second round: statements about the LOG of machine runs.

  * `o2_step_class`   which steps log `D` / `I` entries and which steps push loop / call frames;
  * `O2Closed e c`    the dispatch of `e` is over: `e` has its `D` entry and no loop or call frame of
                      `e` is on the stack; it stays over as long as `e` is not dispatched again
                      (`o2_closed_later`), and no handler is invoked for `e` any more;
  * `o2_handlerOrderOk`  the spec predicate `handlerOrderOk` of CV/Model/Core/LogSpec.lean holds of
                      the machine's own log.
-/
namespace CV.Core

/-! ## classification of one step -/

/-- the event a frame dispatches: loop / call frames and `_dispatcher` itself -/
def Frame.o2dev : Frame → Option Nat
  | .dispatcher _ e _ => some e
  | f => f.o2ev

theorem Frame.o2dev_of_ev {f : Frame} {e : Nat} (h : f.o2ev = some e) : f.o2dev = some e := by
  cases f <;> first | exact h | (simp [Frame.o2ev] at h)

/-- what one step may push and log -/
structure O2Class (c : Cfg) (f : Frame) (k : List Frame) : Prop where
  push : ∃ fs, (step c).stack = fs ++ k ∧ ∀ g ∈ fs, ∀ e, g.o2ev = some e → f.o2dev = some e ∧ c.exn = none
  log : ∃ es, (step c).st.log = es ++ c.st.log ∧
    (∀ e, Entry.disp e ∈ es → c.exn = none ∧ ∃ r rem, f = .dispatcher r e rem) ∧
    (∀ e h, Entry.inv e h 0 ∈ es → c.exn = none ∧ ∃ r, f = .invoke r h e) ∧
    (∀ r e rem, f = .dispatcher r e rem → c.exn = none → Entry.disp e ∈ es)

theorem o2_not_quiet_disp {es : List Entry} (hq : ∀ x ∈ es, x.o2quiet = true) (e : Nat) : Entry.disp e ∉ es :=
  fun h => absurd (hq _ h) (by simp [Entry.o2quiet])

theorem o2_not_quiet_inv {es : List Entry} (hq : ∀ x ∈ es, x.o2quiet = true) (e h : Nat) : Entry.inv e h 0 ∉ es :=
  fun hm => absurd (hq _ hm) (by simp [Entry.o2quiet])

/-- an order-neutral step pushes only plain frames and logs only quiet entries -/
theorem O2Class.ofG {c : Cfg} {f : Frame} {k : List Frame} (hnd : ∀ r e rem, f ≠ .dispatcher r e rem ∨ c.exn ≠ none)
    (hg : O2G k c.st (step c)) : O2Class c f k := by
  obtain ⟨fs, h1, h2⟩ := hg.push
  obtain ⟨es, h3, h4⟩ := hg.rel.log
  refine ⟨⟨fs, h1, ?_⟩, es, h3, ?_, ?_, ?_⟩
  · intro g hg e he
    rw [o2plain_mem h2 hg] at he; cases he
  · intro e he; exact absurd he (o2_not_quiet_disp h4 e)
  · intro e h he; exact absurd he (o2_not_quiet_inv h4 e h)
  · intro r e rem hf hx
    rcases hnd r e rem with h | h
    · exact absurd hf h
    · exact absurd hx h

theorem O2Class.ofShape {c : Cfg} {f : Frame} {k : List Frame} {e : Nat} {l : List Nat} (hf : f.o2loop = some (e, l))
    (hx : c.exn = none) (hsh : O2Shape k c.st e l (step c)) : O2Class c f k := by
  obtain ⟨hr, fs, f', l', h1, h2, h3, _, _⟩ := hsh
  obtain ⟨es, h5, h6⟩ := hr.log
  refine ⟨⟨fs ++ [f'], by rw [h1]; simp, ?_⟩, es, h5, ?_, ?_, ?_⟩
  · intro g hg e1 he1
    rcases List.mem_append.mp hg with h7 | h7
    · rw [o2plain_mem h2 h7] at he1; cases he1
    · rw [List.mem_singleton.mp h7, Frame.o2loop_ev h3] at he1
      cases he1
      exact ⟨Frame.o2dev_of_ev (Frame.o2loop_ev hf), hx⟩
  · intro e1 he; exact absurd he (o2_not_quiet_disp h6 e1)
  · intro e1 h he; exact absurd he (o2_not_quiet_inv h6 e1 h)
  · intro r e1 rem hf1 _
    rw [hf1] at hf; cases hf

/-- **Classification of one step**: loop / call frames of an event `e` are pushed only by steps of
    `_dispatcher(e)` and of loop frames of `e`; a `D` entry for `e` is logged exactly by the step of
    `_dispatcher(e)`; an `I` entry `(e, h)` only by the step of the call frame `.invoke _ h e`. -/
theorem o2_step_class (c : Cfg) (f : Frame) (k : List Frame) (hst : c.stack = f :: k) : O2Class c f k := by
  cases hx : c.exn with
  | some ex =>
    refine O2Class.ofG (fun _ _ _ => .inr (by rw [hx]; simp)) ?_
    rw [step_cons_exn c f k ex hst hx]
    cases f <;> ((try dsimp only [unwind]); o2t)
  | none =>
    have hs := step_cons c f k hst hx
    cases f
    case dispatcher r e rem =>
      have hr := o2_dispatchPre_rel c.st r e rem
      obtain ⟨_, ⟨es, he, hq⟩, _⟩ := hr.logged
      have hstep : step c = c.dispatcher k r e rem := hs
      have hst' : (step c).st = (c.st.dispatchPre r e rem).2 := by
        rw [hstep]; unfold Cfg.dispatcher; split <;> rfl
      refine ⟨?_, es ++ [.disp e], by rw [hst', he]; simp, ?_, ?_, ?_⟩
      · rw [hstep]; unfold Cfg.dispatcher
        split
        · refine ⟨[_], rfl, ?_⟩
          intro g hg e1 he1
          rw [List.mem_singleton.mp hg] at he1; cases he1
        · refine ⟨[_], rfl, ?_⟩
          intro g hg e1 he1
          rw [List.mem_singleton.mp hg] at he1; cases he1
          exact ⟨rfl, hx⟩
      · intro e1 hm
        rcases List.mem_append.mp hm with h1 | h1
        · exact absurd h1 (o2_not_quiet_disp hq e1)
        · cases List.mem_singleton.mp h1; exact ⟨hx, r, rem, rfl⟩
      · intro e1 h hm
        rcases List.mem_append.mp hm with h1 | h1
        · exact absurd h1 (o2_not_quiet_inv hq e1 h)
        · cases List.mem_singleton.mp h1
      · intro r1 e1 rem1 hf _
        cases hf; simp
    case hLoop r e l err stale =>
      cases l with
      | nil =>
        refine O2Class.ofG (fun _ _ _ => .inl (by simp)) ?_
        rw [hs]; dsimp only [stepFrame]; unfold Cfg.hLoop; o2t
      | cons h0 rest0 =>
        have hstep : step c = c.goto k (c.st.modEv e fun x => { x with geHandler := some (c.st.chooseHandler e h0 rest0) })
          [.invoke r (c.st.chooseHandler e h0 rest0) e,
           .hAfter r e ((h0 :: rest0).erase (c.st.chooseHandler e h0 rest0)) err stale] := hs
        refine ⟨⟨_, by rw [hstep]; rfl, ?_⟩, [], by rw [hstep]; rfl, ?_, ?_, ?_⟩
        · intro g hg e1 he1
          rcases List.mem_cons.mp hg with h1 | h1
          · rw [h1] at he1; cases he1; exact ⟨rfl, hx⟩
          · rw [List.mem_singleton.mp h1] at he1; cases he1; exact ⟨rfl, hx⟩
        · intro e1 hm; cases hm
        · intro e1 h hm; cases hm
        · intro r1 e1 rem1 hf; cases hf
    case invoke r h e =>
      have hstep : step c = c.invoke k r h e := hs
      rcases o2_invoke_cases c k r h e with hg | ⟨s, hs1, hr, fs, hfs, hpl⟩
      · exact O2Class.ofG (fun _ _ _ => .inl (by simp)) (hstep ▸ hg)
      · obtain ⟨_, ⟨es2, he2, hq2⟩, _⟩ := hr.logged
        obtain ⟨es1, he1, hq1⟩ := hs1.log
        refine ⟨⟨fs, by rw [hstep]; exact hfs, ?_⟩, es2 ++ Entry.inv e h 0 :: es1, by rw [hstep, he2, he1]; simp, ?_, ?_, ?_⟩
        · intro g hg e1 hev
          rw [o2plain_mem hpl hg] at hev; cases hev
        · intro e1 hm
          rcases List.mem_append.mp hm with h1 | h1
          · exact absurd h1 (o2_not_quiet_disp hq2 e1)
          · rcases List.mem_cons.mp h1 with h2 | h2
            · cases h2
            · exact absurd h2 (o2_not_quiet_disp hq1 e1)
        · intro e1 x hm
          rcases List.mem_append.mp hm with h1 | h1
          · exact absurd h1 (o2_not_quiet_inv hq2 e1 x)
          · rcases List.mem_cons.mp h1 with h2 | h2
            · cases h2; exact ⟨hx, r, rfl⟩
            · exact absurd h2 (o2_not_quiet_inv hq1 e1 x)
        · intro r1 e1 rem1 hf; cases hf
    case hAfter r e l err stale =>
      exact O2Class.ofShape (e := e) (l := l) rfl hx (by rw [hs]; exact o2_hAfter_shape c k r e l err stale)
    case hApply r e l err v =>
      rcases o2_hApply_shape c k r e l err v with h | h
      · exact O2Class.ofG (fun _ _ _ => .inl (by simp)) (by rw [hs]; exact h)
      · exact O2Class.ofShape (e := e) (l := l) rfl hx (by rw [hs]; exact h)
    all_goals (refine O2Class.ofG (fun _ _ _ => .inl (by simp)) ?_; rw [hs]; (try dsimp only [stepFrame]); o2t)

/-! ## a finished dispatch stays finished -/

/-- the dispatch of `e` is over -/
structure O2Closed (e : Nat) (c : Cfg) : Prop where
  disp : Entry.disp e ∈ c.st.log
  none : ∀ g ∈ c.stack, g.o2ev ≠ some e

theorem o2_once_of_append {es log : List Entry} (h : O2Once (es ++ log)) : O2Once log := by
  unfold O2Once at h ⊢
  rw [o2_disps_append] at h
  exact (List.nodup_append.mp h).2.1

theorem o2_invoked_nil_of {es : List Entry} {e : Nat} (h : ∀ x, Entry.inv e x 0 ∉ es) : invokedFor es e = [] := by
  cases hl : invokedFor es e with
  | nil => rfl
  | cons a t =>
    have : a ∈ invokedFor es e := by rw [hl]; exact List.mem_cons_self
    exact absurd (o2_mem_invoked.mp this) (h a)

/-- one step from a configuration where the dispatch of `e` is over: unless `e` is dispatched
    again, it is still over and no handler was invoked for `e` -/
theorem o2_closed_step {e : Nat} {c : Cfg} (hc : O2Closed e c) (honce : O2Once (step c).st.log) :
    O2Closed e (step c) ∧ invokedFor (step c).st.log e = invokedFor c.st.log e := by
  cases hst : c.stack with
  | nil => rw [step_nil c hst]; exact ⟨hc, rfl⟩
  | cons f k =>
    obtain ⟨⟨fs, h1, h2⟩, es, h3, h4, h5, h6⟩ := o2_step_class c f k hst
    have hfe : f.o2ev ≠ some e := hc.none f (hst ▸ List.mem_cons_self)
    have hnd : Entry.disp e ∉ es := by
      intro hm
      rw [h3] at honce
      unfold O2Once at honce
      rw [o2_disps_append] at honce
      exact (List.nodup_append.mp honce).2.2 e (o2_mem_disps.mpr hm) e (o2_mem_disps.mpr hc.disp) rfl
    refine ⟨⟨by rw [h3]; exact List.mem_append_right _ hc.disp, ?_⟩, ?_⟩
    · intro g hg hev
      rw [h1] at hg
      rcases List.mem_append.mp hg with h7 | h7
      · obtain ⟨h8, h9⟩ := h2 g h7 e hev
        cases f
        case dispatcher r e1 rem =>
          simp only [Frame.o2dev, Option.some.injEq] at h8
          subst h8
          exact hnd (h6 r e1 rem rfl h9)
        all_goals exact hfe h8
      · exact hc.none g (by rw [hst]; exact List.mem_cons_of_mem _ h7) hev
    · rw [h3, o2_invoked_append, o2_invoked_nil_of, List.nil_append]
      intro x hm
      obtain ⟨_, r, hf⟩ := h5 e x hm
      rw [hf] at hfe
      exact hfe rfl

/-- configurations reached later in the same driver session -/
inductive O2Later (c : Cfg) : Cfg → Prop
  | refl : O2Later c c
  | step {c' : Cfg} : O2Later c c' → O2Later c (CV.Core.step c')
  | next {c' : Cfg} (d : Nat) (tape : List Entry) (op : ExtOp) :
      O2Later c c' → done c' = true → O2Later c (startOf (envChange c'.st d tape) op)

theorem O2Later.reach {s0 : St} {c c' : Cfg} (h : O2Later c c') (hr : Reach s0 c) : Reach s0 c' := by
  induction h with
  | refl => exact hr
  | step _ ih => exact .step ih
  | next d tape op _ hd ih => exact .next d tape op ih hd

theorem O2Later.runN' (c : Cfg) : ∀ (n : Nat) (c' : Cfg), O2Later c c' → O2Later c (CV.Core.runN n c') := by
  intro n
  induction n with
  | zero => intro c' h; exact h
  | succ n ih => intro c' h; rw [runN_succ]; exact ih _ (.step h)

theorem O2Later.runN (c : Cfg) (n : Nat) : O2Later c (CV.Core.runN n c) := O2Later.runN' c n c .refl

/-- **A finished dispatch stays finished.**  From a configuration where the dispatch of `e` is
    over, in every later configuration of the session whose log dispatches every event at most
    once, the dispatch of `e` is still over and the handlers invoked for `e` are the same. -/
theorem o2_closed_later {e : Nat} {c c' : Cfg} (hc : O2Closed e c) (hl : O2Later c c') :
    O2Once c'.st.log → O2Closed e c' ∧ invokedFor c'.st.log e = invokedFor c.st.log e := by
  induction hl with
  | refl => intro _; exact ⟨hc, rfl⟩
  | @step c1 _ ih =>
    intro honce
    obtain ⟨es, he⟩ := (step_log c1)
    have h1 := ih (o2_once_of_append (he ▸ honce))
    obtain ⟨h2, h3⟩ := o2_closed_step h1.1 honce
    exact ⟨h2, h3.trans h1.2⟩
  | @next c1 d tape op _ hd ih =>
    intro honce
    have hst := o2_startOf_st (envChange c1.st d tape) op
    have hlog : (startOf (envChange c1.st d tape) op).st.log = c1.st.log := by rw [hst]; rfl
    rw [hlog] at honce ⊢
    obtain ⟨h1, h2⟩ := ih honce
    refine ⟨⟨by rw [hlog]; exact h1.disp, ?_⟩, h2⟩
    intro g hg hev
    rw [o2plain_mem (o2_startOf_stack _ op) hg] at hev
    cases hev

/-! ## the spec predicate `handlerOrderOk` -/

theorem o2_descending_of_pairwise (prioOf : Nat → Int) : ∀ (l : List Nat),
    l.Pairwise (fun a b => prioOf a ≥ prioOf b) → descending prioOf l = true
  | [], _ => rfl
  | [_], _ => rfl
  | a :: b :: rest, h => by
    have h1 := List.pairwise_cons.mp h
    unfold descending
    rw [Bool.and_eq_true]
    exact ⟨by simpa using h1.1 b List.mem_cons_self, o2_descending_of_pairwise prioOf (b :: rest) h1.2⟩

theorem o2_invoked_reverse (log : List Entry) (e : Nat) : invokedFor log.reverse e = (invokedFor log e).reverse := by
  unfold invokedFor; rw [List.filterMap_reverse]

/-- in chronological order the handlers invoked for `e` are in non-increasing priority order -/
theorem O2I.chron {c : Cfg} (hi : O2I c) (honce : O2Once c.st.log) (e : Nat) :
    (invokedFor c.st.log.reverse e).Pairwise (fun a b => c.st.q2prio a ≥ c.st.q2prio b) := by
  rw [o2_invoked_reverse, List.pairwise_reverse]
  exact (hi.once honce).2 e

theorem o2_handlerOrderOk {c : Cfg} (hi : O2I c) (honce : O2Once c.st.log) :
    handlerOrderOk c.st.q2prio c.st.log.reverse = true := by
  unfold handlerOrderOk
  simp only [List.all_eq_true]
  intro e _
  exact o2_descending_of_pairwise _ _ (hi.chron honce e)

end CV.Core

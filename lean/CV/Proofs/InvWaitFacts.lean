import CV.Proofs.InvWaitLocal
/-
C06, local facts read off from `w6_step_q`: for each protocol action, the only step that can
perform it and the guard under which it does.
-/
namespace CV.Core

def W6Mask.onlyLg : W6Mask := ⟨true, false, false, false, false, false⟩
def W6Mask.onlyFl : W6Mask := ⟨false, true, false, false, false, false⟩
def W6Mask.onlyRn : W6Mask := ⟨false, false, true, false, false, false⟩
def W6Mask.onlyTm : W6Mask := ⟨false, false, false, true, false, false⟩
def W6Mask.onlyEx : W6Mask := ⟨false, false, false, false, true, false⟩
def W6Mask.onlyDn : W6Mask := ⟨false, false, false, false, false, true⟩

/-! ### how `step` reaches the three protocol arms -/

theorem w6_step_ptBody (c : Cfg) (r : Nat) (t : Task) (k : List Frame) (hs : c.stack = .ptBody r t :: k)
    (hx : c.exn = none) : step c = c.ptBody k r t := by
  rw [step_cons c _ k hs hx]; rfl

theorem w6_step_invoke (c : Cfg) (r h e : Nat) (k : List Frame) (hs : c.stack = .invoke r h e :: k)
    (hx : c.exn = none) : step c = c.invoke k r h e := by
  rw [step_cons c _ k hs hx]; rfl

theorem w6_step_eventDone (c : Cfg) (r e : Nat) (err : Bool) (k : List Frame) (hs : c.stack = .eventDone r e err :: k)
    (hx : c.exn = none) : step c = c.eventDone k r e err := by
  rw [step_cons c _ k hs hx]; rfl

/-! ### the log: `.resumed` / `.timeout` -/

/-- the state of the framework handler arms: `invoke` logs `.hinv` first -/
def Cfg.w6_invokeSt (c : Cfg) (h e : Nat) : St :=
  if (c.st.handler h).kind.code != 0 then c.st.logE (.hinv e (c.st.handler h).kind.code (hkey c.st (c.st.handler h))) else c.st

theorem Cfg.w6_invokeSt_wait (c : Cfg) (h e w : Nat) : (c.w6_invokeSt h e).wait w = c.st.wait w := by
  unfold Cfg.w6_invokeSt; split <;> rfl
theorem Cfg.w6_invokeSt_ev (c : Cfg) (h e x : Nat) : (c.w6_invokeSt h e).ev x = c.st.ev x := by
  unfold Cfg.w6_invokeSt; split <;> rfl
theorem Cfg.w6_invokeSt_gen (c : Cfg) (h e g : Nat) : (c.w6_invokeSt h e).gen g = c.st.gen g := by
  unfold Cfg.w6_invokeSt; split <;> rfl
theorem Cfg.w6_invokeSt_gens (c : Cfg) (h e : Nat) : (c.w6_invokeSt h e).gens = c.st.gens := by
  unfold Cfg.w6_invokeSt; split <;> rfl
theorem Cfg.w6_invokeSt_waits (c : Cfg) (h e : Nat) : (c.w6_invokeSt h e).waits = c.st.waits := by
  unfold Cfg.w6_invokeSt; split <;> rfl
theorem Cfg.w6_invokeSt_evs (c : Cfg) (h e : Nat) : (c.w6_invokeSt h e).evs = c.st.evs := by
  unfold Cfg.w6_invokeSt; split <;> rfl

theorem Cfg.w6_invoke_waitEvent (c : Cfg) (k : List Frame) (r h e w : Nat) (hk : (c.st.handler h).kind = .waitEvent w) :
    (c.invoke k r h e).st = ((c.w6_invokeSt h e).onWaitEvent w e).2 := by
  unfold Cfg.invoke Cfg.w6_invokeSt; simp only [hk]; rfl
theorem Cfg.w6_invoke_waitDone (c : Cfg) (k : List Frame) (r h e w : Nat) (hk : (c.st.handler h).kind = .waitDone w) :
    (c.invoke k r h e).st = ((c.w6_invokeSt h e).onWaitDone w e).2 := by
  unfold Cfg.invoke Cfg.w6_invokeSt; simp only [hk]; rfl
theorem Cfg.w6_invoke_waitTick (c : Cfg) (k : List Frame) (r h e w : Nat) (hk : (c.st.handler h).kind = .waitTick w) :
    (c.invoke k r h e).st = ((c.w6_invokeSt h e).onWaitTick w).2 := by
  unfold Cfg.invoke Cfg.w6_invokeSt; simp only [hk]; rfl

/-- no resume entry: read off from `Q` -/
theorem St.W6Q.noResume {m : W6Mask} {s s' : St} (h : St.W6Q m s s') (hm : m.lg = true) {es : List Entry}
    (hes : s'.log = es ++ s.log) : ∀ x ∈ es, Entry.w6_isResume x = false := by
  obtain ⟨es', e', p'⟩ := h.log hm
  have : es = es' := List.append_cancel_right (hes.symm.trans e')
  subst this; exact p'

/-- a step that logs a `.resumed` or `.timeout` entry is the task step (`ptBody`) of a
    `GenRec.wait` or `GenRec.exc` generator -/
theorem w6_resume_only_ptBody (c : Cfg) {es : List Entry} (hes : (step c).st.log = es ++ c.st.log)
    {x : Entry} (hx : x ∈ es) (hr : x.w6_isResume = true) :
    ∃ r t k, c.stack = .ptBody r t :: k ∧ c.exn = none ∧
      ((∃ w, c.st.gen t.g = .wait w) ∨ (∃ w b, c.st.gen t.g = .exc w b)) := by
  refine Classical.byContradiction fun hno => ?_
  have hq : St.W6Q W6Mask.onlyLg c.st (step c).st := by
    apply w6_step_q
    intro f k hs hxn
    cases f <;> try trivial
    case invoke r h e =>
      simp only [W6Mask.fits]; split <;> simp [W6Mask.onlyLg]
    case ptBody r t =>
      simp only [W6Mask.fits]
      split
      · rename_i w hg; exact absurd ⟨r, t, k, hs, hxn, Or.inl ⟨w, hg⟩⟩ hno
      · rename_i w b hg; exact absurd ⟨r, t, k, hs, hxn, Or.inr ⟨w, b, hg⟩⟩ hno
      · trivial
  have := hq.noResume rfl hes x hx
  rw [hr] at this; cases this

theorem St.W6Q.quietLog {s s' : St} (hq : St.W6Q W6Mask.onlyLg s s') {P : Entry → Prop} :
    ∃ es, s'.log = es ++ s.log ∧ ∀ x ∈ es, Entry.w6_isResume x = true → P x := by
  obtain ⟨es, e1, p1⟩ := hq.log rfl
  exact ⟨es, e1, fun x hx hr => by rw [p1 x hx] at hr; cases hr⟩

/-- the `.resumed` entry `ptBodyWait` may log -/
theorem Cfg.w6_ptBodyWait_log (c : Cfg) (k : List Frame) (r : Nat) (t : Task) (w : Nat) :
    ∃ es, (c.ptBodyWait k r t w).st.log = es ++ c.st.log ∧ ∀ x ∈ es, Entry.w6_isResume x = true →
      ∃ src p pe ph o rest st pc sd,
        (c.st.wait w).event = some src ∧ t.parent = some p ∧
        (c.st.removeHandler (c.st.wait w).hDone (some ((c.st.wait w).evName.child sfxDone))).1 = true ∧
        c.st.gen p = .user pe ph o rest st pc sd ∧
        x = .resumed pe ph src (c.st.ev src).val.view (c.st.ev src).val.errors := by
  unfold Cfg.ptBodyWait
  dsimp only
  split
  · exact St.W6Q.quietLog (Cfg.w6_contError_q c k _ r t false (St.W6Q.removeHandler (St.W6Q.refl _) _ _))
  · rename_i hrm
    split
    · rename_i src p hev hpar
      split
      · rename_i pe ph o rest st pc sd hgen
        refine ⟨[.resumed pe ph src (c.st.ev src).val.view (c.st.ev src).val.errors], ?_, ?_⟩
        · simp only [Cfg.goto_st]
          unfold St.resumeGenPre
          simp only [St.w6_logE_gen, hgen, if_true]
          simp
        · intro x hx _
          simp only [List.mem_singleton] at hx
          refine ⟨src, p, pe, ph, o, rest, st, pc, sd, hev, hpar, by simpa using hrm, by simpa using hgen, hx⟩
      · exact ⟨[], by simp, fun x hx => by cases hx⟩
    · exact St.W6Q.quietLog (Cfg.w6_contStop_q c k _ r t (St.W6Q.removeHandler (St.W6Q.refl _) _ _))

theorem St.W6Q.logAfter {s1 s' : St} (X : Entry) (hq : St.W6Q W6Mask.onlyLg (s1.logE X) s') :
    ∃ es, s'.log = es ++ s1.log ∧ ∀ x ∈ es, Entry.w6_isResume x = true → x = X := by
  obtain ⟨es, e1, p1⟩ := hq.log rfl
  refine ⟨es ++ [X], by simp [e1], ?_⟩
  intro x hx hr
  rcases List.mem_append.1 hx with hx | hx
  · rw [p1 x hx] at hr; cases hr
  · simpa using hx

/-- the entry `ptBodyExc` may log is a `.timeout`, and only when the generator has not fired yet -/
theorem Cfg.w6_ptBodyExc_log (c : Cfg) (k : List Frame) (r : Nat) (t : Task) (w : Nat) (fired : Bool) :
    ∃ es, (c.ptBodyExc k r t w fired).st.log = es ++ c.st.log ∧ ∀ x ∈ es, Entry.w6_isResume x = true →
      fired = false ∧ ∃ pe ph caught, x = .timeout pe ph caught := by
  have hs1 : St.W6Q W6Mask.onlyLg c.st ((c.st.setGen t.g (.exc w true)).unregisterTask r t) := by
    apply St.W6Q.unregisterTask
    apply St.W6Q.setGen (St.W6Q.refl _)
    intro h; cases h
  unfold Cfg.ptBodyExc
  dsimp only
  split
  · exact St.W6Q.quietLog (Cfg.w6_contStop_q c k _ r t (St.W6Q.refl _))
  · rename_i hf
    have hf' : fired = false := by simpa using hf
    split
    · rename_i p hpar
      split
      · rename_i pe ph o rest st pc sd hgen
        have key : ∀ {s' : St}, St.W6Q W6Mask.onlyLg
            (((c.st.setGen t.g (.exc w true)).unregisterTask r t).logE (.timeout pe ph (pc.getD false))) s' →
            ∃ es, s'.log = es ++ c.st.log ∧ ∀ x ∈ es, Entry.w6_isResume x = true →
              fired = false ∧ ∃ pe ph caught, x = .timeout pe ph caught := by
          intro s' hq
          obtain ⟨es, e1, p1⟩ := hq.logAfter
          refine ⟨es, by simpa using e1, fun x hx hr => ⟨hf', _, _, _, p1 x hx hr⟩⟩
        split
        · simp only [Cfg.goto_st]
          exact key (St.W6Q.resumeGenPre (St.W6Q.refl _) _ _)
        · exact key (Cfg.w6_contError_q c k _ r t true (St.W6Q.setGen (St.W6Q.refl _) _ _ (fun _ => rfl)))
      · exact St.W6Q.quietLog (by simpa using hs1)
    · exact St.W6Q.quietLog (Cfg.w6_contError_q c k _ r t false hs1)

/-- **w6_resumed_needs_event** (local).  A step that logs `.resumed pe ph src v er` is the task step of a
    `GenRec.wait w` generator whose wait state has recorded `src` as the awaited event, whose
    `_done` handler could still be removed, and whose parent generator is the user generator
    `(pe, ph)`; the value and error flag logged are those of `src` at that moment. -/
theorem w6_resumed_needs_event (c : Cfg) {es : List Entry} (hes : (step c).st.log = es ++ c.st.log)
    {pe ph src : Nat} {v : Collapsed} {er : Bool} (hx : Entry.resumed pe ph src v er ∈ es) :
    ∃ r t k w p o rest st pc sd, c.stack = .ptBody r t :: k ∧ c.exn = none ∧ c.st.gen t.g = .wait w ∧
      (c.st.wait w).event = some src ∧ t.parent = some p ∧ c.st.gen p = .user pe ph o rest st pc sd ∧
      (c.st.removeHandler (c.st.wait w).hDone (some ((c.st.wait w).evName.child sfxDone))).1 = true ∧
      v = (c.st.ev src).val.view ∧ er = (c.st.ev src).val.errors := by
  obtain ⟨r, t, k, hs, hxn, hg⟩ := w6_resume_only_ptBody c hes hx rfl
  have hstep := w6_step_ptBody c r t k hs hxn
  rcases hg with ⟨w, hg⟩ | ⟨w, b, hg⟩
  · have h2 : c.ptBody k r t = c.ptBodyWait k r t w := by unfold Cfg.ptBody; rw [hg]
    obtain ⟨es', e', p'⟩ := Cfg.w6_ptBodyWait_log c k r t w
    rw [← h2, ← hstep] at e'
    have : es = es' := List.append_cancel_right (hes.symm.trans e')
    subst this
    obtain ⟨src', p, pe', ph', o, rest, st, pc, sd, h1, h3, h4, h5, h6⟩ := p' _ hx rfl
    injection h6 with a1 a2 a3 a4 a5
    subst a1; subst a2; subst a3
    exact ⟨r, t, k, w, p, o, rest, st, pc, sd, hs, hxn, hg, h1, h3, h5, h4, a4, a5⟩
  · have h2 : c.ptBody k r t = c.ptBodyExc k r t w b := by unfold Cfg.ptBody; rw [hg]
    obtain ⟨es', e', p'⟩ := Cfg.w6_ptBodyExc_log c k r t w b
    rw [← h2, ← hstep] at e'
    have : es = es' := List.append_cancel_right (hes.symm.trans e')
    subst this
    obtain ⟨_, _, _, _, h6⟩ := p' _ hx rfl
    cases h6

/-- **w6_timeout_needs_exc** (local).  A step that logs `.timeout …` is the task step of a one-shot
    `GenRec.exc w false` generator (which that step marks as fired). -/
theorem w6_timeout_needs_exc (c : Cfg) {es : List Entry} (hes : (step c).st.log = es ++ c.st.log)
    {pe ph : Nat} {caught : Bool} (hx : Entry.timeout pe ph caught ∈ es) :
    ∃ r t k w, c.stack = .ptBody r t :: k ∧ c.exn = none ∧ c.st.gen t.g = .exc w false := by
  obtain ⟨r, t, k, hs, hxn, hg⟩ := w6_resume_only_ptBody c hes hx rfl
  have hstep := w6_step_ptBody c r t k hs hxn
  rcases hg with ⟨w, hg⟩ | ⟨w, b, hg⟩
  · have h2 : c.ptBody k r t = c.ptBodyWait k r t w := by unfold Cfg.ptBody; rw [hg]
    obtain ⟨es', e', p'⟩ := Cfg.w6_ptBodyWait_log c k r t w
    rw [← h2, ← hstep] at e'
    have : es = es' := List.append_cancel_right (hes.symm.trans e')
    subst this
    obtain ⟨_, _, _, _, _, _, _, _, _, _, _, _, _, h6⟩ := p' _ hx rfl
    cases h6
  · have h2 : c.ptBody k r t = c.ptBodyExc k r t w b := by unfold Cfg.ptBody; rw [hg]
    obtain ⟨es', e', p'⟩ := Cfg.w6_ptBodyExc_log c k r t w b
    rw [← h2, ← hstep] at e'
    have : es = es' := List.append_cancel_right (hes.symm.trans e')
    subst this
    obtain ⟨hb, _⟩ := p' _ hx rfl
    subst hb
    exact ⟨r, t, k, w, hs, hxn, hg⟩

/-! ### `flag`: set only by `_on_done` -/

theorem St.w6_onWaitDone_wait (t : St) (w e w' : Nat) :
    (t.onWaitDone w e).2.wait w' = t.wait w' ∨
      (((t.wait w).event.isSome && (t.wait w).event == (t.ev e).parentEv) = true ∧
        (t.onWaitDone w e).2.wait w' = (t.modWait w fun x => { x with flag := true }).wait w') := by
  unfold St.onWaitDone
  dsimp only
  split
  · rename_i hg
    refine Or.inr ⟨by simp only [Bool.and_eq_true] at hg ⊢; exact hg.2, ?_⟩
    split
    · split
      · split <;> simp
      · simp
    · simp
  · exact Or.inl rfl

theorem St.w6_onWaitDone_flag (t : St) (w e w' : Nat)
    (hne : ((t.onWaitDone w e).2.wait w').flag ≠ (t.wait w').flag) :
    w' = w ∧ ((t.onWaitDone w e).2.wait w').flag = true ∧
      ∃ src, (t.wait w).event = some src ∧ (t.ev e).parentEv = some src := by
  rcases St.w6_onWaitDone_wait t w e w' with h | ⟨hg, h⟩
  · rw [h] at hne; exact absurd rfl hne
  · rw [h] at hne ⊢
    by_cases h1 : w' = w
    · subst h1
      by_cases h2 : w' < t.waits.length
      · rw [St.w6_modWait_wait_lt _ _ _ h2]
        refine ⟨rfl, rfl, ?_⟩
        simp only [Bool.and_eq_true, beq_iff_eq] at hg
        obtain ⟨src, hsrc⟩ := Option.isSome_iff_exists.1 hg.1
        exact ⟨src, hsrc, by rw [← hg.2, hsrc]⟩
      · rw [St.w6_modWait_wait_ge _ _ _ _ (by omega)] at hne; exact absurd rfl hne
    · rw [St.w6_modWait_wait_ne _ _ _ _ h1] at hne; exact absurd rfl hne

/-- a step that changes some `flag` is the invocation of a `waitDone` handler -/
theorem w6_flag_only_waitDone (c : Cfg) (w : Nat) (hne : ((step c).st.wait w).flag ≠ (c.st.wait w).flag) :
    ∃ r h e k w0, c.stack = .invoke r h e :: k ∧ c.exn = none ∧ (c.st.handler h).kind = .waitDone w0 := by
  refine Classical.byContradiction fun hno => ?_
  have hq : St.W6Q W6Mask.onlyFl c.st (step c).st := by
    apply w6_step_q
    intro f k hs hxn
    cases f <;> try trivial
    case invoke r h e =>
      simp only [W6Mask.fits]
      split <;> try (simp [W6Mask.onlyFl])
      rename_i w0 hk; exact absurd ⟨r, h, e, k, w0, hs, hxn, hk⟩ hno
    case ptBody r t =>
      simp only [W6Mask.fits]; split <;> simp [W6Mask.onlyFl]
  exact hne (hq.flag rfl w)

/-- **w6_flag_needs_done** (local).  `flag` of wait state `w` changes only in the step that invokes `w`'s own
    `_on_done` handler on an event `e` whose parent is the event `w` has recorded; it becomes `true`. -/
theorem w6_flag_needs_done (c : Cfg) (w : Nat) (hne : ((step c).st.wait w).flag ≠ (c.st.wait w).flag) :
    ∃ r h e k src, c.stack = .invoke r h e :: k ∧ c.exn = none ∧ (c.st.handler h).kind = .waitDone w ∧
      (c.st.wait w).event = some src ∧ (c.st.ev e).parentEv = some src ∧ ((step c).st.wait w).flag = true := by
  obtain ⟨r, h, e, k, w0, hs, hxn, hk⟩ := w6_flag_only_waitDone c w hne
  rw [w6_step_invoke c r h e k hs hxn, Cfg.w6_invoke_waitDone c k r h e w0 hk] at hne ⊢
  have := St.w6_onWaitDone_flag (c.w6_invokeSt h e) w0 e w (by rwa [Cfg.w6_invokeSt_wait])
  obtain ⟨h1, h2, src, h3, h4⟩ := this
  subst h1
  rw [Cfg.w6_invokeSt_wait] at h3; rw [Cfg.w6_invokeSt_ev] at h4
  exact ⟨r, h, e, k, src, hs, hxn, hk, h3, h4, h2⟩

/-! ### `run` / `event`: set only by `_on_event` -/

theorem St.w6_onWaitEvent_wait (t : St) (w e w' : Nat) :
    (t.onWaitEvent w e).2.wait w' = t.wait w' ∨
      ((t.wait w).run = false ∧ ((t.wait w).evObj = none ∨ (t.wait w).evObj = some e) ∧
        (t.onWaitEvent w e).2.wait w' = (t.modWait w fun x => { x with run := true, event := some e }).wait w') := by
  unfold St.onWaitEvent
  dsimp only
  split
  · rename_i hg
    split
    · left; simp
    · right
      simp only [Bool.and_eq_true, Bool.not_eq_true', Bool.or_eq_true, beq_iff_eq, Option.isNone_iff_eq_none] at hg
      exact ⟨hg.1.1, hg.2, St.w6_modWait_wait_congr _ _ (by simp) _ _ _⟩
  · exact Or.inl rfl

theorem w6_run_only_waitEvent (c : Cfg) (w : Nat)
    (hne : ((step c).st.wait w).run ≠ (c.st.wait w).run ∨ ((step c).st.wait w).event ≠ (c.st.wait w).event) :
    ∃ r h e k w0, c.stack = .invoke r h e :: k ∧ c.exn = none ∧ (c.st.handler h).kind = .waitEvent w0 := by
  refine Classical.byContradiction fun hno => ?_
  have hq : St.W6Q W6Mask.onlyRn c.st (step c).st := by
    apply w6_step_q
    intro f k hs hxn
    cases f <;> try trivial
    case invoke r h e =>
      simp only [W6Mask.fits]
      split <;> try (simp [W6Mask.onlyRn])
      rename_i w0 hk; exact absurd ⟨r, h, e, k, w0, hs, hxn, hk⟩ hno
    case ptBody r t =>
      simp only [W6Mask.fits]; split <;> simp [W6Mask.onlyRn]
  rcases hne with hne | hne
  · exact hne (hq.run rfl w).1
  · exact hne (hq.run rfl w).2

/-- **w6_event_needs_on_event** (local).  `run` / `event` of wait state `w` change only in the step that invokes
    `w`'s own `_on_event` handler on an event `e` while `run` is still false and `e` is the awaited object
    (or the wait is by name); then `run = true`, `event = some e`. -/
theorem w6_event_needs_on_event (c : Cfg) (w : Nat)
    (hne : ((step c).st.wait w).run ≠ (c.st.wait w).run ∨ ((step c).st.wait w).event ≠ (c.st.wait w).event) :
    ∃ r h e k, c.stack = .invoke r h e :: k ∧ c.exn = none ∧ (c.st.handler h).kind = .waitEvent w ∧
      (c.st.wait w).run = false ∧ ((c.st.wait w).evObj = none ∨ (c.st.wait w).evObj = some e) ∧
      ((step c).st.wait w).run = true ∧ ((step c).st.wait w).event = some e := by
  obtain ⟨r, h, e, k, w0, hs, hxn, hk⟩ := w6_run_only_waitEvent c w hne
  rw [w6_step_invoke c r h e k hs hxn, Cfg.w6_invoke_waitEvent c k r h e w0 hk] at hne ⊢
  rcases St.w6_onWaitEvent_wait (c.w6_invokeSt h e) w0 e w with h1 | ⟨h1, h2, h3⟩
  · rw [h1, Cfg.w6_invokeSt_wait] at hne; rcases hne with hne | hne <;> exact absurd rfl hne
  · rw [h3] at hne ⊢
    rw [Cfg.w6_invokeSt_wait] at h1 h2
    by_cases hw : w = w0
    · subst hw
      by_cases h4 : w < (c.w6_invokeSt h e).waits.length
      · rw [St.w6_modWait_wait_lt _ _ _ h4]
        exact ⟨r, h, e, k, hs, hxn, hk, h1, h2, rfl, rfl⟩
      · rw [St.w6_modWait_wait_ge _ _ _ _ (by omega), Cfg.w6_invokeSt_wait] at hne
        rcases hne with hne | hne <;> exact absurd rfl hne
    · rw [St.w6_modWait_wait_ne _ _ _ _ hw, Cfg.w6_invokeSt_wait] at hne
      rcases hne with hne | hne <;> exact absurd rfl hne

/-! ### `timeout`: counted down only by `_on_tick`; the `exc` generator only at 0 -/

theorem St.w6_onWaitTick_wait (t : St) (w w' : Nat) :
    (t.onWaitTick w).2.wait w' = t.wait w' ∨
      ((t.wait w).timeout > 0 ∧
        (t.onWaitTick w).2.wait w' = (t.modWait w fun x => { x with timeout := x.timeout - 1 }).wait w') ∨
      ((t.wait w).timeout = 0 ∧ (t.wait w).flag = false ∧ (t.wait w).timedOut = false ∧
        (t.onWaitTick w).2.wait w' = (t.modWait w fun x => { x with timedOut := true }).wait w') := by
  unfold St.onWaitTick
  dsimp only
  split
  · exact Or.inl rfl
  · rename_i hg
    simp only [Bool.or_eq_true, not_or, Bool.not_eq_true] at hg
    split
    · rename_i h0
      right; right
      refine ⟨by simpa using h0, hg.1, hg.2, ?_⟩
      (repeat' split) <;> simp
    · split
      · rename_i h; exact Or.inr (Or.inl ⟨h, rfl⟩)
      · exact Or.inl rfl

/-- the guard of `_on_tick`: it acts only while neither `flag` nor `timedOut` is set -/
theorem St.w6_onWaitTick_stale (t : St) (w : Nat) (h : (t.wait w).flag = true ∨ (t.wait w).timedOut = true) :
    t.onWaitTick w = (.none, t) := by
  unfold St.onWaitTick
  dsimp only
  rw [if_pos (by simpa using h)]

theorem St.w6_onWaitTick_gen (t : St) (w g : Nat) :
    (t.onWaitTick w).2.gen g = t.gen g ∨
      ((t.wait w).timeout = 0 ∧ g = t.gens.length ∧ (t.onWaitTick w).2.gen g = .exc w false) := by
  by_cases hst : (t.wait w).flag = true ∨ (t.wait w).timedOut = true
  · left; rw [St.w6_onWaitTick_stale t w hst]
  by_cases h0 : (t.wait w).timeout = 0
  · have : (t.onWaitTick w).2.gen g = (t.addGen (.exc w false)).gen g := by
      unfold St.onWaitTick
      dsimp only
      rw [if_neg (by simpa using hst), if_pos (by simp [h0])]
      (repeat' split) <;> simp <;> (rw [St.w6_addGen_gen, St.w6_addGen_gen]; rfl)
    rw [this, St.w6_addGen_gen]
    by_cases hg : g = t.gens.length
    · right; simp [hg, h0]
    · left; simp [hg]
  · left
    unfold St.onWaitTick
    dsimp only
    rw [if_neg (by simpa using hst), if_neg (by simpa using h0)]
    split <;> rfl

theorem w6_timeout_only_waitTick (c : Cfg) (w : Nat) (hw : w < c.st.waits.length)
    (hne : ((step c).st.wait w).timeout ≠ (c.st.wait w).timeout) :
    ∃ r h e k w0, c.stack = .invoke r h e :: k ∧ c.exn = none ∧ (c.st.handler h).kind = .waitTick w0 := by
  refine Classical.byContradiction fun hno => ?_
  have hq : St.W6Q W6Mask.onlyTm c.st (step c).st := by
    apply w6_step_q
    intro f k hs hxn
    cases f <;> try trivial
    case invoke r h e =>
      simp only [W6Mask.fits]
      split <;> try (simp [W6Mask.onlyTm])
      rename_i w0 hk; exact absurd ⟨r, h, e, k, w0, hs, hxn, hk⟩ hno
    case ptBody r t =>
      simp only [W6Mask.fits]; split <;> simp [W6Mask.onlyTm]
  exact hne (hq.timeout rfl w hw)

/-- **w6_timeout_counts_down** (local).  The countdown of an existing wait state `w` changes only in the step
    that invokes `w`'s own `_on_tick` handler, only while it is positive, and by exactly one. -/
theorem w6_timeout_counts_down (c : Cfg) (w : Nat) (hw : w < c.st.waits.length)
    (hne : ((step c).st.wait w).timeout ≠ (c.st.wait w).timeout) :
    ∃ r h e k, c.stack = .invoke r h e :: k ∧ c.exn = none ∧ (c.st.handler h).kind = .waitTick w ∧
      (c.st.wait w).timeout > 0 ∧ ((step c).st.wait w).timeout = (c.st.wait w).timeout - 1 := by
  obtain ⟨r, h, e, k, w0, hs, hxn, hk⟩ := w6_timeout_only_waitTick c w hw hne
  rw [w6_step_invoke c r h e k hs hxn, Cfg.w6_invoke_waitTick c k r h e w0 hk] at hne ⊢
  rcases St.w6_onWaitTick_wait (c.w6_invokeSt h e) w0 w with h1 | ⟨h1, h3⟩ | ⟨_, _, _, h3⟩
  · rw [h1, Cfg.w6_invokeSt_wait] at hne; exact absurd rfl hne
  rotate_left
  · exfalso
    rw [h3] at hne
    have := St.w6_modWait_wait_pres (c.w6_invokeSt h e) (fun x => x.timeout) w0
      (fun x => { x with timedOut := true }) (fun _ => rfl) w
    rw [this, Cfg.w6_invokeSt_wait] at hne
    exact hne rfl
  · rw [h3] at hne ⊢
    rw [Cfg.w6_invokeSt_wait] at h1
    by_cases hww : w = w0
    · subst hww
      have h4 : w < (c.w6_invokeSt h e).waits.length := by rw [Cfg.w6_invokeSt_waits]; exact hw
      rw [St.w6_modWait_wait_lt _ _ _ h4, Cfg.w6_invokeSt_wait]
      exact ⟨r, h, e, k, hs, hxn, hk, h1, rfl⟩
    · rw [St.w6_modWait_wait_ne _ _ _ _ hww, Cfg.w6_invokeSt_wait] at hne; exact absurd rfl hne

/-! ### `exc` generators: created only by `_on_tick` at countdown 0 -/

theorem Cfg.w6_ptBodyExc_ex (c : Cfg) (k : List Frame) (r : Nat) (t : Task) (w : Nat) (fired : Bool) :
    St.W6Q W6Mask.onlyEx c.st (c.ptBodyExc k r t w fired).st ∨
      St.W6Q W6Mask.onlyEx ((c.st.setGen t.g (.exc w true)).unregisterTask r t) (c.ptBodyExc k r t w fired).st := by
  unfold Cfg.ptBodyExc
  dsimp only
  split
  · left; w6st_q
  · right
    generalize (c.st.setGen t.g (.exc w true)).unregisterTask r t = s1
    w6st_q

theorem Cfg.w6_ptBodyWait_ex (c : Cfg) (k : List Frame) (r : Nat) (t : Task) (w : Nat) :
    St.W6Q W6Mask.onlyEx c.st (c.ptBodyWait k r t w).st := by
  unfold Cfg.ptBodyWait
  dsimp only
  w6st_q

theorem w6_exc_only (c : Cfg) (g : Nat) (hg : ((step c).st.gen g).w6_isExc = true) (hne : (step c).st.gen g ≠ c.st.gen g) :
    (∃ r h e k w0, c.stack = .invoke r h e :: k ∧ c.exn = none ∧ (c.st.handler h).kind = .waitTick w0) ∨
    (∃ r t k w b, c.stack = .ptBody r t :: k ∧ c.exn = none ∧ c.st.gen t.g = .exc w b) := by
  refine Classical.byContradiction fun hno => ?_
  have hq : St.W6Q W6Mask.onlyEx c.st (step c).st := by
    by_cases hpt : ∃ r t k w, c.stack = .ptBody r t :: k ∧ c.exn = none ∧ c.st.gen t.g = .wait w
    · obtain ⟨r, t, k, w, hs, hxn, hgen⟩ := hpt
      rw [w6_step_ptBody c r t k hs hxn]
      have h2 : c.ptBody k r t = c.ptBodyWait k r t w := by unfold Cfg.ptBody; rw [hgen]
      rw [h2]; exact Cfg.w6_ptBodyWait_ex ..
    · apply w6_step_q
      intro f k hs hxn
      cases f <;> try trivial
      case invoke r h e =>
        simp only [W6Mask.fits]
        split <;> try (simp [W6Mask.onlyEx])
        rename_i w0 hk; exact absurd (Or.inl ⟨r, h, e, k, w0, hs, hxn, hk⟩) hno
      case ptBody r t =>
        simp only [W6Mask.fits]
        split
        · rename_i w hgen; exact absurd ⟨r, t, k, w, hs, hxn, hgen⟩ hpt
        · rename_i w b hgen; exact absurd (Or.inr ⟨r, t, k, w, b, hs, hxn, hgen⟩) hno
        · trivial
  exact hne (hq.exc rfl g hg)

/-- **w6_exc_needs_timeout0** (local).  A `GenRec.exc w` generator (the carrier of `TimeoutError`) comes into being
    only in the step that invokes `w`'s own `_on_tick` handler while the countdown is exactly 0. -/
theorem w6_exc_needs_timeout0 (c : Cfg) (g w : Nat) (b : Bool) (hg : (step c).st.gen g = .exc w b)
    (hnew : (c.st.gen g).w6_isExc = false) :
    ∃ r h e k, c.stack = .invoke r h e :: k ∧ c.exn = none ∧ (c.st.handler h).kind = .waitTick w ∧
      (c.st.wait w).timeout = 0 ∧ b = false ∧ g = c.st.gens.length := by
  have hne : (step c).st.gen g ≠ c.st.gen g := by
    intro h; rw [← h, hg] at hnew; cases hnew
  rcases w6_exc_only c g (by rw [hg]; rfl) hne with ⟨r, h, e, k, w0, hs, hxn, hk⟩ | ⟨r, t, k, w0, b0, hs, hxn, hgen⟩
  · rw [w6_step_invoke c r h e k hs hxn, Cfg.w6_invoke_waitTick c k r h e w0 hk] at hg hne
    rcases St.w6_onWaitTick_gen (c.w6_invokeSt h e) w0 g with h1 | ⟨h1, h2, h3⟩
    · rw [h1, Cfg.w6_invokeSt_gen] at hne; exact absurd rfl hne
    · rw [h3] at hg
      injection hg with a1 a2
      subst a1
      rw [Cfg.w6_invokeSt_wait] at h1; rw [Cfg.w6_invokeSt_gens] at h2
      exact ⟨r, h, e, k, hs, hxn, hk, h1, a2.symm, h2⟩
  · rw [w6_step_ptBody c r t k hs hxn] at hg hne
    have h2 : c.ptBody k r t = c.ptBodyExc k r t w0 b0 := by unfold Cfg.ptBody; rw [hgen]
    rw [h2] at hg hne
    rcases Cfg.w6_ptBodyExc_ex c k r t w0 b0 with hq | hq
    · exact absurd (hq.exc rfl g (by rw [hg]; rfl)) hne
    · have h3 := hq.exc rfl g (by rw [hg]; rfl)
      simp only [St.w6_unregisterTask_gen] at h3
      rcases St.w6_setGen_gen_cases c.st t.g (.exc w0 true) g with h4 | ⟨h4, _, _⟩
      · rw [h4] at h3; exact absurd h3 hne
      · subst h4; rw [hgen] at hnew; cases hnew

/-! ### `_done` children: fired only by `_eventDone` of the parent, when nothing is waiting -/

theorem St.w6_eventDonePre_done (t : St) (r e : Nat) (err : Bool) (e' : Nat) (hge : t.evs.length ≤ e')
    (hd : ((t.eventDonePre r e err).2.ev e').w6_isDoneChild = true) :
    (t.ev e).waiting = 0 ∧ (t.ev e).alertDone = true ∧ e' = t.evs.length ∧
      ((t.eventDonePre r e err).2.ev e').parentEv = some e ∧
      ((t.eventDonePre r e err).2.ev e').name = (t.ev e).name.child sfxDone := by
  unfold St.eventDonePre at hd ⊢
  dsimp only at hd ⊢
  by_cases hw : ((t.ev e).waiting != 0) = true
  · rw [if_pos hw] at hd
    rw [St.w6_ev_ge _ _ hge] at hd; cases hd
  · rw [if_neg hw] at hd ⊢
    have hw0 : (t.ev e).waiting = 0 := by simpa using hw
    by_cases ha : (t.ev e).alertDone = true
    · simp only [ha, if_true] at hd ⊢
      have h1 : St.W6Q W6Mask.all (t.childEv e sfxDone) (t.fireChild r e sfxDone (t.ev e).chans) := by
        unfold St.fireChild; exact St.W6Q.fireRaw (St.W6Q.refl _) _ _ _ _
      have h0 : (t.childEv e sfxDone).evs.length = t.evs.length + 1 := by simp [St.childEv]
      have h0' : ((t.childEv e sfxDone).ev t.evs.length).parentEv = some e ∧
          ((t.childEv e sfxDone).ev t.evs.length).name = (t.ev e).name.child sfxDone := by
        simp [St.childEv, St.w6_addEv_ev]
      generalize t.fireChild r e sfxDone (t.ev e).chans = s1 at h1 hd ⊢
      have h2 : ∀ s2 : St, St.W6Q W6Mask.all s1 s2 → (s2.ev e').w6_isDoneChild = true →
          e' = t.evs.length ∧ (s2.ev e').parentEv = some e ∧ (s2.ev e').name = (t.ev e).name.child sfxDone := by
        intro s2 hq hd2
        have hlt1 : e' < s1.evs.length := by
          refine Classical.byContradiction fun hn => ?_
          rw [hq.newEv rfl e' (by omega)] at hd2; cases hd2
        have k2 := hq.evKeep e' hlt1
        have hd1 : (s1.ev e').w6_isDoneChild = true := by
          unfold Ev.w6_isDoneChild at hd2 ⊢; rw [← k2.1, ← k2.2]; exact hd2
        have hlt0 : e' < (t.childEv e sfxDone).evs.length := by
          refine Classical.byContradiction fun hn => ?_
          rw [h1.newEv rfl e' (by omega)] at hd1; cases hd1
        have he' : e' = t.evs.length := by omega
        have k1 := h1.evKeep e' hlt0
        subst he'
        exact ⟨rfl, by rw [k2.1, k1.1, h0'.1], by rw [k2.2, k1.2, h0'.2]⟩
      have hq : St.W6Q W6Mask.all s1
          ((if (!err && !(s1.ev e).val.errors && (s1.ev e).success) = true
            then s1.fireChild r e sfxSuccess ((s1.ev e).successChans.getD (s1.ev e).chans) else s1).modEv e
              fun x => { x with selfDone := true }) := by
        w6st_q
      obtain ⟨a, b, c'⟩ := h2 _ hq hd
      exact ⟨hw0, trivial, a, b, c'⟩
    · simp only [ha] at hd
      have hq : St.W6Q W6Mask.all t
          ((if (!err && !(t.ev e).val.errors && (t.ev e).success) = true
            then t.fireChild r e sfxSuccess ((t.ev e).successChans.getD (t.ev e).chans) else t).modEv e
              fun x => { x with selfDone := true }) := by
        w6st_q
      simp only [Bool.false_eq_true, if_false] at hd
      rw [hq.newEv rfl e' hge] at hd; cases hd

theorem w6_done_only_eventDone (c : Cfg) (e' : Nat) (hge : c.st.evs.length ≤ e')
    (hd : ((step c).st.ev e').w6_isDoneChild = true) :
    ∃ r e err k, c.stack = .eventDone r e err :: k ∧ c.exn = none := by
  refine Classical.byContradiction fun hno => ?_
  have hq : St.W6Q W6Mask.onlyDn c.st (step c).st := by
    apply w6_step_q
    intro f k hs hxn
    cases f <;> try trivial
    case eventDone r e err => exact absurd ⟨r, e, err, k, hs, hxn⟩ hno
    case invoke r h e =>
      simp only [W6Mask.fits]; split <;> simp [W6Mask.onlyDn]
    case ptBody r t =>
      simp only [W6Mask.fits]; split <;> simp [W6Mask.onlyDn]
  rw [hq.newEv rfl e' hge] at hd; cases hd

/-- **w6_done_needs_all_finished** (local).  A `…_done` child event is created only by the step `_eventDone(p)` of its
    parent `p`, and only when `p.alert_done` is set and `p.waitingHandlers = 0`, i.e. every handler of `p`,
    including suspended generator handlers and their nested calls, has finished or failed. -/
theorem w6_done_needs_all_finished (c : Cfg) (e' : Nat) (hge : c.st.evs.length ≤ e')
    (hd : ((step c).st.ev e').w6_isDoneChild = true) :
    ∃ r p err k, c.stack = .eventDone r p err :: k ∧ c.exn = none ∧ (c.st.ev p).waiting = 0 ∧
      (c.st.ev p).alertDone = true ∧ ((step c).st.ev e').parentEv = some p ∧
      ((step c).st.ev e').name = (c.st.ev p).name.child sfxDone := by
  obtain ⟨r, p, err, k, hs, hxn⟩ := w6_done_only_eventDone c e' hge hd
  have hst : (step c).st = (c.st.eventDonePre r p err).2 := by
    rw [w6_step_eventDone c r p err k hs hxn]; unfold Cfg.eventDone; split <;> rfl
  rw [hst] at hd ⊢
  obtain ⟨h1, h2, _, h4, h5⟩ := St.w6_eventDonePre_done c.st r p err e' hge hd
  exact ⟨r, p, err, k, hs, hxn, h1, h2, h4, h5⟩

/-- existing events never change their name or parent (so "is the `_done` child of `p`" is a stable identity) -/
theorem w6_step_ev_identity (c : Cfg) (e : Nat) (he : e < c.st.evs.length) :
    ((step c).st.ev e).parentEv = (c.st.ev e).parentEv ∧ ((step c).st.ev e).name = (c.st.ev e).name := by
  have hq : St.W6Q ⟨false, false, false, false, false, false⟩ c.st (step c).st := by
    apply w6_step_q
    intro f k hs hxn
    cases f <;> try trivial
    case invoke r h e =>
      simp only [W6Mask.fits]; split <;> simp
    case ptBody r t =>
      simp only [W6Mask.fits]; split <;> simp
  exact hq.evKeep e he

end CV.Core

import CV.Proofs.AuthLeavesB64
import CV.Proofs.AuthLeavesUtf8
import CV.Proofs.AuthLeavesKV
import CV.Proofs.Auth
/-
Helper lemmas for C20: under `concreteLeaves` the server reads from the header a client
sends exactly the credentials the client put in (`credsOf` of `basicHeader` /
`digestHeader`), and the parameters of the RFC 2617 client model are well-formed.
Core Lean only.
-/
namespace CV.Auth

theorem splitFirst_prefix (pre : Str) (h : ' ' ∉ pre) (r : Str) :
    splitFirst ' ' (pre ++ ' ' :: r) = some (pre, r) := splitFirst_append ' ' pre r h

theorem basicHeader_split (u p : Str) :
    splitFirst ' ' (basicHeader u p) =
      some ("Basic".toList, asciiStr (b64Encode (utf8Encode u ++ 58 :: utf8Encode p))) := by
  have e : "Basic ".toList = "Basic".toList ++ [' '] := by decide
  have : basicHeader u p = "Basic".toList ++ ' ' :: asciiStr (b64Encode (utf8Encode u ++ 58 :: utf8Encode p)) := by
    unfold basicHeader
    simp only [e, List.append_assoc, List.cons_append, List.nil_append]
  rw [this]
  exact splitFirst_append ' ' "Basic".toList _ (by decide)

theorem digestHeader_split (items : List Item) :
    splitFirst ' ' (digestHeader items) = some ("Digest".toList, renderItems items) := by
  have e : "Digest ".toList = "Digest".toList ++ [' '] := by decide
  have : digestHeader items = "Digest".toList ++ ' ' :: renderItems items := by
    unfold digestHeader
    simp only [e, List.append_assoc, List.cons_append, List.nil_append]
  rw [this]
  exact splitFirst_append ' ' "Digest".toList (renderItems items) (by decide)

/-- the server decodes from a Basic client's header the user and password the client encoded -/
theorem creds_basicHeader (u p : Str) (hu : ':' ∉ u) :
    credsOf concreteLeaves (basicHeader u p) = some (.basic u p) := by
  have hb : concreteLeaves.b64 (asciiStr (b64Encode (utf8Encode u ++ 58 :: utf8Encode p)))
      = some (utf8Encode u ++ 58 :: utf8Encode p) := by
    show a2bBase64 (utf8Encode (asciiStr _)) = _
    rw [encode_asciiStr _ (b64Encode_ascii _)]
    exact a2b_encode _
  have hs : splitFirst (58 : UInt8) (utf8Encode u ++ 58 :: utf8Encode p) = some (utf8Encode u, utf8Encode p) :=
    splitFirst_append _ _ _ (fun hm => hu (colon_mem_encode hm))
  have hd1 : concreteLeaves.utf8 (utf8Encode u) = some u := decode_encode u
  have hd2 : concreteLeaves.utf8 (utf8Encode p) = some p := decode_encode p
  unfold credsOf
  rw [basicHeader_split]
  simp only [show schemeOf "Basic".toList = some Scheme.basic by decide, hb, hs, hd1, hd2]

/-- the server reads from a Digest client's header the parameters the client rendered -/
theorem creds_digestHeader (items : List Item) (hok : ∀ i ∈ items, i.ok = true)
    (hnd : (items.map (·.k)).Nodup) :
    credsOf concreteLeaves (digestHeader items) = some (.digest (itemsKV items)) := by
  have hkv : concreteLeaves.kv (renderItems items) = some (itemsKV items) := by
    show kvLeaf _ = _
    rw [kvLeaf_render items hok, dictOf_nodup]
    simpa [itemsKV, List.map_map, Function.comp_def] using hnd
  unfold credsOf
  rw [digestHeader_split]
  simp only [show schemeOf "Digest".toList = some Scheme.digest by decide, hkv, Option.map_some]

/-! ### the RFC 2617 client's parameters -/

theorem tokChar_lit : MD5.all tokChar = true ∧ MD5sess.all tokChar = true ∧ qAuth.all tokChar = true := by decide

theorem client_items_ok (c : Client) (hc : c.ok = true) (resp : Str) : ∀ i ∈ c.items resp, i.ok = true := by
  obtain ⟨user, realm, nonce, uri, alg, qop⟩ := c
  have hkeys : ∀ k ∈ ["username", "realm", "nonce", "uri", "algorithm", "response", "qop", "nc", "cnonce"],
      (k.toList.all (fun c => tokChar c && c != '=')) = true := by decide
  have hq : ∀ (k v : Str), k.all (fun c => tokChar c && c != '=') = true → Item.ok ⟨k, v, true⟩ = true := by
    intro k v hk; simp [Item.ok, hk]
  have hu : ∀ (k v : Str), k.all (fun c => tokChar c && c != '=') = true → v ≠ [] → v.all tokChar = true →
      Item.ok ⟨k, v, false⟩ = true := by
    intro k v hk hv hv'
    simp only [Item.ok, hk, hv', Bool.false_or, Bool.and_true, Bool.true_and, Bool.not_eq_true',
      List.isEmpty_eq_false_iff]
    exact hv
  intro i hi
  simp only [Client.items, List.mem_append, List.mem_cons, List.not_mem_nil, or_false] at hi
  rcases hi with ((hi | hi) | hi) | hi
  · rcases hi with rfl | rfl | rfl | rfl <;> exact hq _ _ (hkeys _ (by simp))
  · cases alg with
    | none => simp at hi
    | some s =>
      simp only [List.mem_singleton] at hi
      subst hi
      cases s
      · exact hu _ _ (hkeys _ (by simp)) (by decide) tokChar_lit.1
      · exact hu _ _ (hkeys _ (by simp)) (by decide) tokChar_lit.2.1
  · subst hi; exact hq _ _ (hkeys _ (by simp))
  · cases qop with
    | none => simp at hi
    | some q =>
      obtain ⟨nc, cn⟩ := q
      simp only [Client.ok, Bool.and_eq_true, Bool.not_eq_true', List.isEmpty_eq_false_iff] at hc
      simp only [List.mem_cons, List.not_mem_nil, or_false] at hi
      rcases hi with rfl | rfl | rfl
      · exact hu _ _ (hkeys _ (by simp)) (by decide) tokChar_lit.2.2
      · exact hu _ _ (hkeys _ (by simp)) hc.1.1 hc.1.2
      · exact hq _ _ (hkeys _ (by simp))

theorem client_items_nodup (c : Client) (resp : Str) : ((c.items resp).map (·.k)).Nodup := by
  obtain ⟨user, realm, nonce, uri, alg, qop⟩ := c
  rcases alg with _ | _ <;> rcases qop with _ | ⟨nc, cn⟩ <;> simp [Client.items] <;> decide

/-- what the server finds in the parameters of the client -/
theorem client_get (c : Client) (resp : Str) :
    get (itemsKV (c.items resp)) "username" = some c.user ∧
    get (itemsKV (c.items resp)) "realm" = some c.realm ∧
    get (itemsKV (c.items resp)) "nonce" = some c.nonce ∧
    get (itemsKV (c.items resp)) "uri" = some c.uri ∧
    get (itemsKV (c.items resp)) "response" = some resp ∧
    get (itemsKV (c.items resp)) "algorithm" = c.alg.map (fun s => if s then MD5sess else MD5) ∧
    get (itemsKV (c.items resp)) "qop" = c.qop.map (fun _ => qAuth) ∧
    get (itemsKV (c.items resp)) "nc" = c.qop.map (·.1) ∧
    get (itemsKV (c.items resp)) "cnonce" = c.qop.map (·.2) ∧
    get (itemsKV (c.items resp)) "auth_scheme" = none := by
  obtain ⟨user, realm, nonce, uri, alg, qop⟩ := c
  rcases alg with _ | s <;> rcases qop with _ | ⟨nc, cn⟩ <;>
    simp [Client.items, itemsKV, get, List.lookup]

theorem client_fields (c : Client) (resp : Str) :
    get (itemsKV (c.items resp)) "username" = some c.user ∧
    get (itemsKV (c.items resp)) "realm" = some c.realm ∧
    get (itemsKV (c.items resp)) "response" = some resp :=
  ⟨(client_get c resp).1, (client_get c resp).2.1, (client_get c resp).2.2.2.2.1⟩

theorem client_wellFormed (c : Client) (hc : c.ok = true) (resp : Str) :
    wellFormedKV (itemsKV (c.items resp)) = true := by
  obtain ⟨h1, h2, h3, h4, h5, h6, h7, h8, h9, h10⟩ := client_get c resp
  obtain ⟨user, realm, nonce, uri, alg, qop⟩ := c
  simp only [wellFormedKV, required, supported, hasKey, List.all_cons, List.all_nil, h1, h2, h3, h4, h5, h6, h7,
    h8, h9, h10]
  simp only [Client.ok, Bool.and_eq_true] at hc
  clear h1 h2 h3 h4 h5 h6 h7 h8 h9 h10
  have hne : (MD5sess == MD5) = false := by decide
  have hne2 : MD5 ≠ MD5sess := md5_ne_sess
  have hne3 : MD5sess ≠ MD5 := Ne.symm md5_ne_sess
  rcases alg with _ | _ | _ <;> rcases qop with _ | ⟨nc, cn⟩ <;> simp_all

/-- the response parameter does not enter the request-digest -/
theorem client_rfcResponse (H : Str → Str) (c : Client) (resp : Str) (u p r m : Str) :
    rfcResponse H (itemsKV (c.items resp)) u p r m = rfcResponse H (itemsKV (c.items [])) u p r m := by
  obtain ⟨_, _, h3, h4, _, h6, h7, h8, h9, _⟩ := client_get c resp
  obtain ⟨_, _, g3, g4, _, g6, g7, g8, g9, _⟩ := client_get c []
  simp only [rfcResponse, fld, h3, h4, h6, h7, h8, h9, g3, g4, g6, g7, g8, g9]

end CV.Auth

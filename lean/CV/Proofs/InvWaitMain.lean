import CV.Proofs.InvWait
import CV.Proofs.InvWaitAdd
import CV.Proofs.InvWaitFacts
/-
C06, global layer, part 9: initial states, admissible sessions, and the theorems about every reachable
configuration (the invariant, the w6_phase function, resumption at most once, no residue).
-/
namespace CV.Core

/-- the state a driver session starts from (as far as the wait protocol is concerned): no wait state, no
    generator, no task yet; the pre-declared handlers are not temporary `waitEvent` handlers; the handler
    tables are duplicate-free and mention only declared handlers; user programs `removeHandler` only
    pre-declared handlers -/
structure W6InitWait (s0 : St) : Prop where
  waits : s0.waits = []
  gens : s0.gens = []
  kinds : ∀ h, h < s0.hs.length → (s0.handler h).kind.w6_isWait = false
  htabLt : ∀ c k h, (k, h) ∈ (s0.comp c).htab → h < s0.hs.length
  nodup : ∀ c, (s0.comp c).htab.Nodup
  tasks : ∀ c, (s0.comp c).tasks = []
  progs : ∀ p ∈ s0.progs, ∀ a ∈ p, Act.w6_hOk s0.hs.length a

/-- external operations may `removeHandler` only pre-declared handlers, like user code -/
def ExtOp.w6ok (n0 : Nat) : ExtOp → Prop
  | .doAct _ a => Act.w6_hOk n0 a
  | _ => True

/-- the configurations of sessions whose external operations are admissible -/
inductive W6ReachW (n0 : Nat) (s0 : St) : Cfg → Prop
  | init (d : Nat) (tape : List Entry) (op : ExtOp) (hop : op.w6ok n0) : W6ReachW n0 s0 (startOf (envChange s0 d tape) op)
  | step {c : Cfg} : W6ReachW n0 s0 c → W6ReachW n0 s0 (CV.Core.step c)
  | next {c : Cfg} (d : Nat) (tape : List Entry) (op : ExtOp) (hop : op.w6ok n0) :
      W6ReachW n0 s0 c → done c = true → W6ReachW n0 s0 (startOf (envChange c.st d tape) op)

theorem W6ReachW.reach {n0 : Nat} {s0 : St} {c : Cfg} (h : W6ReachW n0 s0 c) : Reach s0 c := by
  induction h with
  | init d tape op _ => exact Reach.init d tape op
  | step _ ih => exact Reach.step ih
  | next d tape op _ _ hd ih => exact Reach.next d tape op ih hd

theorem W6InitWait.winv {s0 : St} (h : W6InitWait s0) : W6WInv s0.hs.length s0 := by
  have hw : ∀ w, s0.wait w = dfltWait := fun w => by simp [St.wait, h.waits]
  have hg : ∀ g, s0.gen g = dfltGen := fun g => by simp [St.gen, h.gens]
  have hnw : s0.w6_view.nw = 0 := by simp [h.waits]
  refine ⟨⟨Nat.le_refl _, h.kinds, h.htabLt, h.nodup, ?_, ?_, ?_, ?_, ?_, ?_, ?_, ?_, ?_, ?_, ?_, ?_⟩,
    ⟨?_, ?_, ?_, ?_, ?_, h.progs⟩⟩
  · intro x w hx hk; have := h.kinds x hx; rw [show s0.w6_view.handler x = s0.handler x from rfl] at hk; rw [hk] at this; cases this
  · intro x w hx hk; have := h.kinds x hx; rw [show s0.w6_view.handler x = s0.handler x from rfl] at hk; rw [hk] at this; cases this
  · intro x w hx hk; have := h.kinds x hx; rw [show s0.w6_view.handler x = s0.handler x from rfl] at hk; rw [hk] at this; cases this
  · intro w hw'; rw [hnw] at hw'; cases hw'
  · intro w hw'; rw [hnw] at hw'; cases hw'
  · intro w ht hw'; rw [hnw] at hw'; cases hw'
  · intro c k x hx hk
    have := h.kinds x (h.htabLt c k x hx)
    rw [show s0.w6_view.handler x = s0.handler x from rfl] at hk; rw [hk] at this; cases this
  · intro w hw'; rw [hnw] at hw'; cases hw'
  · intro w ht hw'; rw [hnw] at hw'; cases hw'
  · intro w ht hw'; rw [hnw] at hw'; cases hw'
  · intro w hw'; rw [hnw] at hw'; cases hw'
  · intro w
    simp only [St.w6_view_wh, hw w]
    exact ⟨fun x => (by cases x), fun x => (by cases x), fun x => (by cases x), fun x => (by cases x)⟩
  · intro w hw'; rw [hnw] at hw'; cases hw'
  · intro g w hgw; simp only [St.w6_view_gen, hg g] at hgw; cases hgw
  · intro w hw'; rw [hnw] at hw'; cases hw'
  · intro c t ht; simp only [St.w6_view_tasks, h.tasks c] at ht; cases ht
  · intro g e hh o rest st pc sd hgu; simp only [St.w6_view_gen, hg g] at hgu; cases hgu

theorem W6CInv.start {n0 : Nat} {s : St} (h : W6WInv n0 s) (d : Nat) (tape : List Entry) (op : ExtOp) (hop : op.w6ok n0) :
    W6CInv n0 (startOf (envChange s d tape) op) := by
  have hw : W6WInv n0 (envChange s d tape) := h
  cases op with
  | doAct c a =>
    refine ⟨hw, ?_, ?_, ?_, ?_⟩
    · show W6AllOk n0 _ [.acts ⟨c, none⟩ [a], .doFin c]
      simp only [w6_AllOk_cons, w6_AllOk_nil, W6FrameOk, and_true, List.mem_singleton]
      intro a' ha'; subst ha'; exact hop
    · intro _ hh; cases hh
    · simp [startOf, startDo, Cfg.start, Frame.w6_isPt, Frame.w6_isStepGen]
    · intro _ hp; simp [startOf, startDo, Cfg.start, Frame.w6_isPt] at hp
  | tick c =>
    refine ⟨hw, ⟨trivial, trivial⟩, ?_, ?_, ?_⟩
    · intro _ hh; cases hh
    · simp [startOf, startTick, Cfg.start, Frame.w6_isPt, Frame.w6_isStepGen]
    · intro _ hp; simp [startOf, startTick, Cfg.start, Frame.w6_isPt] at hp
  | flush c =>
    refine ⟨hw, ⟨trivial, trivial⟩, ?_, ?_, ?_⟩
    · intro _ hh; cases hh
    · simp [startOf, startFlush, Cfg.start, Frame.w6_isPt, Frame.w6_isStepGen]
    · intro _ hp; simp [startOf, startFlush, Cfg.start, Frame.w6_isPt] at hp
  | run c =>
    refine ⟨hw, ⟨trivial, trivial⟩, ?_, ?_, ?_⟩
    · intro _ hh; cases hh
    · simp [startOf, startRun, Cfg.start, Frame.w6_isPt, Frame.w6_isStepGen]
    · intro _ hp; simp [startOf, startRun, Cfg.start, Frame.w6_isPt] at hp

/-- **the wait-protocol invariant holds in every configuration of an admissible session** -/
theorem W6ReachW.cinv {s0 : St} (hi : W6InitWait s0) {c : Cfg} (h : W6ReachW s0.hs.length s0 c) : W6CInv s0.hs.length c := by
  induction h with
  | init d tape op hop => exact W6CInv.start hi.winv d tape op hop
  | step _ ih => exact w6_step_cinv _ ih
  | next d tape op hop _ _ ih => exact W6CInv.start ih.w d tape op hop

/-! ### the w6_phase of a wait state -/

/-- the `_done` handler of `w` is installed in its owner's table -/
def St.w6_doneInst (s : St) (w : Nat) : Prop :=
  (some ((s.wait w).evName.child sfxDone), (s.wait w).hDone) ∈ (s.comp (s.wait w).owner).htab

instance (s : St) (w : Nat) : Decidable (s.w6_doneInst w) := by unfold St.w6_doneInst; infer_instance

/-- 0 not started, 1 started (waiting for the event), 2 event seen, 3 done seen (resumption task registered),
    4 finished: resumed or timed out (the `_done` handler is gone) -/
def w6_phase (s : St) (w : Nat) : Nat :=
  if (s.wait w).started = false then 0
  else if ¬ s.w6_doneInst w then 4
  else if (s.wait w).flag = true then 3
  else if (s.wait w).run = true then 2
  else 1

/-- the identity of a started wait state (owner, name, `_done` handler id) does not change in a step -/
theorem w6_doneKey_stable {n0 : Nat} {c : Cfg} (h : W6CInv n0 c) (h' : W6CInv n0 (step c)) (w : Nat)
    (hst : (c.st.wait w).started = true) :
    ((step c).st.wait w).owner = (c.st.wait w).owner ∧ ((step c).st.wait w).evName = (c.st.wait w).evName ∧
    ((step c).st.wait w).hDone = (c.st.wait w).hDone := by
  have hw : w < c.st.waits.length := (h.w.1.chain w).2.2.2 hst
  have hS := w6_step_s c
  obtain ⟨i1, i2, _⟩ := hS.ident w hw
  obtain ⟨r1, _, _, r4⟩ := h.w.1.recDone w hw hst
  simp only [St.w6_view_wh, St.w6_view_handler, St.w6_view_nh, WaitSt.w6h] at r1 r4
  have hk := hS.hsKeep _ r1
  obtain ⟨_, _, k3⟩ := h'.w.1.kindDone (c.st.wait w).hDone w (Nat.lt_of_lt_of_le r1 hS.hsLen)
    (by rw [show (step c).st.w6_view.handler = (step c).st.handler from rfl, hk]; exact r4)
  exact ⟨i1, i2, k3⟩

/-- once the `_done` handler of a started wait state is gone it never comes back -/
theorem w6_doneInst_gone {n0 : Nat} {c : Cfg} (h : W6CInv n0 c) (h' : W6CInv n0 (step c)) (w : Nat)
    (hst : (c.st.wait w).started = true) (hno : ¬ c.st.w6_doneInst w) : ¬ (step c).st.w6_doneInst w := by
  have hw : w < c.st.waits.length := (h.w.1.chain w).2.2.2 hst
  obtain ⟨e1, e2, e3⟩ := w6_doneKey_stable h h' w hst
  obtain ⟨r1, _, _, r4⟩ := h.w.1.recDone w hw hst
  simp only [St.w6_view_wh, St.w6_view_handler, St.w6_view_nh, WaitSt.w6h] at r1 r4
  intro hin
  unfold St.w6_doneInst at hin hno
  rw [e1, e2, e3] at hin
  rcases (w6_step_a c).add _ _ hin with hin | hin
  · exact hno hin
  · have := hin r1
    dsimp only at this
    rw [r4] at this; cases this

theorem w6_phase_le_four (s : St) (w : Nat) : w6_phase s w ≤ 4 := by
  unfold w6_phase; repeat' split
  all_goals omega

/-- **w6_phase_mono**: along every step of an admissible session the w6_phase of every wait state only grows -/
theorem w6_phase_mono {n0 : Nat} {c : Cfg} (h : W6CInv n0 c) (w : Nat) : w6_phase c.st w ≤ w6_phase (step c).st w := by
  have h' := w6_step_cinv c h
  have hb := (w6_step_s c).bits w
  have hgone : (c.st.wait w).started = true → ¬ c.st.w6_doneInst w → ¬ (step c).st.w6_doneInst w :=
    fun hst hd => w6_doneInst_gone h h' w hst hd
  unfold w6_phase
  repeat' split
  all_goals first | omega | (exfalso; simp_all)

/-! ### the resumption step -/

/-- the task step of `w`'s waitEvent generator that consumes the `_done` handler (the step that logs `.resumed`
    when the wait state has an event and a user generator as parent) -/
def W6ResumesW (c : Cfg) (w : Nat) : Prop :=
  ∃ r t k, c.stack = .ptBody r t :: k ∧ c.exn = none ∧ c.st.gen t.g = .wait w ∧
    (c.st.removeHandler (c.st.wait w).hDone (some ((c.st.wait w).evName.child sfxDone))).1 = true

theorem Cfg.w6_ptBodyWait_a_rm (c : Cfg) (k : List Frame) (r : Nat) (t : Task) (w : Nat) :
    St.W6A (c.st.removeHandler (c.st.wait w).hDone (some ((c.st.wait w).evName.child sfxDone))).2
      (c.ptBodyWait k r t w).st := by
  unfold Cfg.ptBodyWait
  dsimp only
  generalize (c.st.removeHandler (c.st.wait w).hDone (some ((c.st.wait w).evName.child sfxDone))) = rm
  w6st_a

/-- **w6_resume_phase**: the resumption step takes `w` from w6_phase 3 (done seen) to w6_phase 4 (finished) -/
theorem w6_resume_phase {n0 : Nat} {c : Cfg} (h : W6CInv n0 c) (w : Nat) (hr : W6ResumesW c w) :
    w6_phase c.st w = 3 ∧ w6_phase (step c).st w = 4 := by
  obtain ⟨r, t, k, hs, hx, hg, hok⟩ := hr
  have h' := w6_step_cinv c h
  have hT : c.st.w6_view.TaskOk t := h.headFrame hs
  have hfl : (c.st.wait w).flag = true := hT.2.1 w hg
  obtain ⟨c1, c2, c3, c4⟩ := h.w.1.chain w
  have hst : (c.st.wait w).started = true := c3 (c2 (c1 hfl))
  have hw : w < c.st.waits.length := c4 hst
  obtain ⟨r1, r2, _, r4⟩ := h.w.1.recDone w hw hst
  simp only [St.w6_view_wh, St.w6_view_handler, St.w6_view_nh, WaitSt.w6h] at r1 r2 r4
  have hin : c.st.w6_doneInst w := by
    have := (c.st.w6_removeHandler_named_ok _ _).1 hok
    rw [r2] at this; exact this
  refine ⟨by unfold w6_phase; simp [hst, hin, hfl], ?_⟩
  -- after the step
  have hstep : (step c).st = (c.ptBodyWait k r t w).st := by
    rw [w6_step_ptBody c r t k hs hx]; unfold Cfg.ptBody; rw [hg]
  obtain ⟨e1, e2, e3⟩ := w6_doneKey_stable h h' w hst
  have hst' := ((w6_step_s c).bits w).1 hst
  have hnot : ¬ (step c).st.w6_doneInst w := by
    intro hin'
    unfold St.w6_doneInst at hin'
    rw [e1, e2, e3, hstep] at hin'
    have hA := Cfg.w6_ptBodyWait_a_rm c k r t w
    rcases hA.add _ _ hin' with hm | hm
    · have := (c.st.w6_removeHandler_named_htab (c.st.wait w).hDone ((c.st.wait w).evName.child sfxDone)
        (c.st.wait w).owner _ (h.w.1.nodup _)).1 hm
      exact this.2 ⟨r2.symm, rfl⟩
    · have := hm (by simpa using r1)
      dsimp only at this
      rw [St.w6_removeHandler_handler, r4] at this; cases this
  unfold w6_phase; simp [hst', hnot]

/-! ### residue -/

/-- **no_residue**: when every started wait state is finished (w6_phase 4), no temporary handler is left in any table -/
theorem w6_no_residue_of_cinv {n0 : Nat} {c : Cfg} (h : W6CInv n0 c)
    (hall : ∀ w, w < c.st.waits.length → (c.st.wait w).started = true → w6_phase c.st w = 4) :
    ∀ x k hd, (k, hd) ∈ (c.st.comp x).htab → (c.st.handler hd).kind.w6_isWait = false := by
  intro x k hd hm
  refine Classical.byContradiction fun hne => ?_
  have hk : (c.st.handler hd).kind.w6_isWait = true := by simpa using hne
  · have hlt : hd < c.st.hs.length := h.w.1.htabLt x k hd hm
    obtain ⟨hx, n, hn, hkn⟩ := h.w.1.loc x k hd hm hk
    simp only [St.w6_view_handler] at hx hn
    have fin : ∀ w, w < c.st.waits.length → (c.st.wait w).started = true → ¬ c.st.w6_doneInst w := by
      intro w hw hst hin
      have := hall w hw hst
      unfold w6_phase at this
      simp only [hst, hin, not_true_eq_false, if_false, Bool.true_eq_false] at this
      repeat' split at this
      all_goals omega
    cases hkd : (c.st.handler hd).kind
    case waitEvent w =>
      obtain ⟨k1, k2, k3⟩ := h.w.1.kindEv hd w hlt hkd
      obtain ⟨_, q2, q3, _⟩ := h.w.1.recEv w k1 k2
      simp only [St.w6_view_wh, St.w6_view_handler, WaitSt.w6h] at k2 k3 q2 q3
      rw [k3] at q2 q3
      have hmem : c.st.w6_view.evKey w ∈ c.st.w6_view.htabOf w := by
        unfold W6View.evKey W6View.htabOf
        simp only [St.w6_view_wh, St.w6_view_htab, WaitSt.w6h]
        rw [hn] at q3; injection q3 with q3; subst q3
        rw [k3, ← q2, ← hx, ← hkn]; exact hm
      exact fin w k1 k2 (h.w.1.i1 w k1 k2 hmem).2
    case waitDone w =>
      obtain ⟨k1, k2, k3⟩ := h.w.1.kindDone hd w hlt hkd
      obtain ⟨_, q2, q3, _⟩ := h.w.1.recDone w k1 k2
      simp only [St.w6_view_wh, St.w6_view_handler, WaitSt.w6h] at k2 k3 q2 q3
      rw [k3] at q2 q3
      apply fin w k1 k2
      unfold St.w6_doneInst
      rw [hn] at q3; injection q3 with q3; subst q3
      rw [k3, ← q2, ← hx, ← hkn]; exact hm
    case waitTick w =>
      obtain ⟨k1, k2, k3⟩ := h.w.1.kindTick hd w hlt hkd
      obtain ⟨_, q2, q3, _⟩ := h.w.1.recTick w hd k1 k2 k3
      simp only [St.w6_view_wh, St.w6_view_handler, WaitSt.w6h] at k2 k3 q2 q3
      have hmem : c.st.w6_view.tickKey hd ∈ c.st.w6_view.htabOf w := by
        unfold W6View.tickKey W6View.htabOf
        simp only [St.w6_view_wh, St.w6_view_htab, WaitSt.w6h]
        rw [hn] at q3; injection q3 with q3; subst q3
        rw [← q2, ← hx, ← hkn]; exact hm
      exact fin w k1 k2 (h.w.1.i2 w hd k1 k2 k3 hmem).1
    all_goals (rw [hkd] at hk; cases hk)

/-! ### later configurations of the same session -/

/-- `c'` comes later than `c` in the same admissible session -/
inductive W6Later (n0 : Nat) : Cfg → Cfg → Prop
  | refl (c : Cfg) : W6Later n0 c c
  | step {c c' : Cfg} : W6Later n0 c c' → W6Later n0 c (CV.Core.step c')
  | next {c c' : Cfg} (d : Nat) (tape : List Entry) (op : ExtOp) (hop : op.w6ok n0) :
      W6Later n0 c c' → done c' = true → W6Later n0 c (startOf (envChange c'.st d tape) op)

theorem W6Later.cinv {n0 : Nat} {c c' : Cfg} (h : W6CInv n0 c) (hl : W6Later n0 c c') : W6CInv n0 c' := by
  induction hl with
  | refl => exact h
  | step _ ih => exact w6_step_cinv _ ih
  | next d tape op hop _ _ ih => exact W6CInv.start ih.w d tape op hop

theorem w6_phase_start (s : St) (d : Nat) (tape : List Entry) (op : ExtOp) (w : Nat) :
    w6_phase (startOf (envChange s d tape) op).st w = w6_phase s w := by
  cases op <;> rfl

theorem W6Later.w6_phase_mono {n0 : Nat} {c c' : Cfg} (h : W6CInv n0 c) (hl : W6Later n0 c c') (w : Nat) :
    w6_phase c.st w ≤ w6_phase c'.st w := by
  induction hl with
  | refl => exact Nat.le_refl _
  | step hl' ih => exact Nat.le_trans ih (CV.Core.w6_phase_mono (W6Later.cinv h hl') w)
  | next d tape op hop _ _ ih => rw [w6_phase_start]; exact ih

/-- **w6_resume_at_most_once**: after the resumption step of `w`, no later configuration of the session performs
    a resumption step of `w` again -/
theorem w6_resume_at_most_once {n0 : Nat} {c c' : Cfg} (h : W6CInv n0 c) (w : Nat) (hr : W6ResumesW c w)
    (hl : W6Later n0 (step c) c') : ¬ W6ResumesW c' w := by
  intro hr'
  have h1 := (w6_resume_phase h w hr).2
  have h2 := (w6_resume_phase (W6Later.cinv (w6_step_cinv c h) hl) w hr').1
  have := W6Later.w6_phase_mono (w6_step_cinv c h) hl w
  omega

/-- a logged `.resumed` entry is a resumption step of the wait state that recorded `src` -/
theorem w6_resumed_is_resumption (c : Cfg) {es : List Entry} (hes : (step c).st.log = es ++ c.st.log)
    {pe ph src : Nat} {v : Collapsed} {er : Bool} (hx : Entry.resumed pe ph src v er ∈ es) :
    ∃ w, W6ResumesW c w ∧ (c.st.wait w).event = some src := by
  obtain ⟨r, t, k, w, p, o, rest, st, pc, sd, h1, h2, h3, h4, _, _, h7, _, _⟩ := w6_resumed_needs_event c hes hx
  exact ⟨w, ⟨r, t, k, h1, h2, h3, h7⟩, h4⟩

/-! ### time-out -/

theorem St.w6_onWaitTick_a0 (t : St) (w : Nat) (hg : ¬ ((t.wait w).flag || (t.wait w).timedOut) = true)
    (h0 : ((t.wait w).timeout == 0) = true) :
    St.W6A ((((t.modWait w fun x => { x with timedOut := true }).addGen (.exc w false)).registerTask (t.wait w).owner
        ⟨(t.wait w).taskEvent, t.gens.length, some (t.wait w).parentGen⟩).removeHandler (t.wait w).hDone
          (some ((t.wait w).evName.child sfxDone))).2 (t.onWaitTick w).2 := by
  unfold St.onWaitTick
  dsimp only
  rw [if_neg hg, if_pos h0]
  generalize (((t.modWait w fun x => { x with timedOut := true }).addGen (.exc w false)).registerTask (t.wait w).owner
        ⟨(t.wait w).taskEvent, t.gens.length, some (t.wait w).parentGen⟩).removeHandler (t.wait w).hDone
          (some ((t.wait w).evName.child sfxDone)) = r1
  w6st_a

/-- **w6_timeout_finishes**: the step in which `w`'s `_on_tick` closure finds the countdown at 0 (and registers the
    `TimeoutError` task) takes `w` to w6_phase 4: from then on no resumption step of `w` can happen -/
theorem w6_timeout_finishes {n0 : Nat} {c : Cfg} (h : W6CInv n0 c) (w r hh e : Nat) (k : List Frame)
    (hs : c.stack = .invoke r hh e :: k) (hx : c.exn = none) (hk : (c.st.handler hh).kind = .waitTick w)
    (h0 : (c.st.wait w).timeout = 0)
    (hfl : (c.st.wait w).flag = false) (hto : (c.st.wait w).timedOut = false) : w6_phase (step c).st w = 4 := by
  have h' := w6_step_cinv c h
  have hlt := c.st.w6_handler_lt_of_wait hh (by rw [hk]; rfl)
  obtain ⟨hw, hst, _⟩ := h.w.1.kindTick hh w hlt hk
  simp only [St.w6_view_wh, WaitSt.w6h] at hst
  obtain ⟨r1, r2, _, r4⟩ := h.w.1.recDone w hw hst
  simp only [St.w6_view_wh, St.w6_view_handler, St.w6_view_nh, WaitSt.w6h] at r1 r2 r4
  obtain ⟨e1, e2, e3⟩ := w6_doneKey_stable h h' w hst
  have hst' := ((w6_step_s c).bits w).1 hst
  have hstep : (step c).st = ((c.w6_invokeSt hh e).onWaitTick w).2 := by
    rw [w6_step_invoke c r hh e k hs hx, Cfg.w6_invoke_waitTick c k r hh e w hk]
  have hnot : ¬ (step c).st.w6_doneInst w := by
    intro hin'
    unfold St.w6_doneInst at hin'
    rw [e1, e2, e3, hstep] at hin'
    have hA := St.w6_onWaitTick_a0 (c.w6_invokeSt hh e) w (by rw [Cfg.w6_invokeSt_wait]; simp [hfl, hto])
      (by rw [Cfg.w6_invokeSt_wait]; simp [h0])
    simp only [Cfg.w6_invokeSt_wait] at hA
    rcases hA.add _ _ hin' with hm | hm
    · have hnd : (((((c.w6_invokeSt hh e).modWait w fun x => { x with timedOut := true }).addGen (.exc w false)).registerTask (c.st.wait w).owner
          ⟨(c.st.wait w).taskEvent, (c.w6_invokeSt hh e).gens.length, some (c.st.wait w).parentGen⟩).comp
          (((((c.w6_invokeSt hh e).modWait w fun x => { x with timedOut := true }).addGen (.exc w false)).registerTask (c.st.wait w).owner
          ⟨(c.st.wait w).taskEvent, (c.w6_invokeSt hh e).gens.length, some (c.st.wait w).parentGen⟩).handler
            (c.st.wait w).hDone).owner).htab.Nodup := by
        unfold St.registerTask; rw [St.w6_modComp_mk_htab]
        unfold Cfg.w6_invokeSt; split <;> exact h.w.1.nodup _
      have := (St.w6_removeHandler_named_htab _ (c.st.wait w).hDone ((c.st.wait w).evName.child sfxDone)
        (c.st.wait w).owner _ hnd).1 hm
      apply this.2
      refine ⟨?_, rfl⟩
      rw [← r2]; unfold Cfg.w6_invokeSt; split <;> rfl
    · have := hm (by
        simp only [St.w6_removeHandler_hs, St.w6_registerTask_hs, St.w6_addGen_hs]
        unfold Cfg.w6_invokeSt; split <;> exact r1)
      dsimp only at this
      rw [St.w6_removeHandler_handler] at this
      have hh' : ((((c.w6_invokeSt hh e).modWait w fun x => { x with timedOut := true }).addGen (.exc w false)).registerTask (c.st.wait w).owner
          ⟨(c.st.wait w).taskEvent, (c.w6_invokeSt hh e).gens.length, some (c.st.wait w).parentGen⟩).handler
            (c.st.wait w).hDone = c.st.handler (c.st.wait w).hDone := by
        unfold Cfg.w6_invokeSt; split <;> rfl
      rw [hh', r4] at this; cases this
  unfold w6_phase; simp [hst', hnot]

/-! ### which temporary handlers can be installed in which w6_phase; which tasks can be registered -/

/-- **w6_installed_by_phase**: the `_on_event` handler is installed only in w6_phase 1, the `_on_tick` handler only in
    phases 1–2, the `_on_done` handler exactly in phases 1–3 -/
theorem w6_installed_by_phase {n0 : Nat} {c : Cfg} (h : W6CInv n0 c) (w : Nat) (hw : w < c.st.waits.length)
    (hst : (c.st.wait w).started = true) :
    (c.st.w6_view.evKey w ∈ c.st.w6_view.htabOf w → w6_phase c.st w = 1) ∧
    (∀ ht, (c.st.wait w).hTick = some ht → c.st.w6_view.tickKey ht ∈ c.st.w6_view.htabOf w →
      w6_phase c.st w = 1 ∨ w6_phase c.st w = 2) ∧
    (c.st.w6_doneInst w ↔ 1 ≤ w6_phase c.st w ∧ w6_phase c.st w ≤ 3) := by
  obtain ⟨c1, c2, _, _⟩ := h.w.1.chain w
  simp only [St.w6_view_wh, WaitSt.w6h] at c1 c2
  refine ⟨?_, ?_, ?_⟩
  · intro hm
    obtain ⟨a, b⟩ := h.w.1.i1 w hw hst hm
    have hd : c.st.w6_doneInst w := b
    simp only [St.w6_view_wh, WaitSt.w6h] at a
    have hf : (c.st.wait w).flag = false := by
      cases hf : (c.st.wait w).flag
      · rfl
      · rw [c2 (c1 hf)] at a; cases a
    unfold w6_phase; simp [hst, hd, hf, a]
  · intro ht hht hm
    obtain ⟨a, b⟩ := h.w.1.i2 w ht hw hst hht hm
    have hd : c.st.w6_doneInst w := a
    simp only [St.w6_view_wh, WaitSt.w6h] at b
    unfold w6_phase; simp only [hst, hd, b]
    cases (c.st.wait w).run <;> simp
  · unfold w6_phase
    by_cases hd : c.st.w6_doneInst w
    · simp only [hst, hd]
      cases (c.st.wait w).flag <;> cases (c.st.wait w).run <;> simp
    · simp [hst, hd]

/-- **w6_wait_task_needs_flag**: a task whose generator is `w`'s waitEvent generator is registered only when
    `w.flag` is set (w6_phase 3 or later) -/
theorem w6_wait_task_needs_flag {n0 : Nat} {c : Cfg} (h : W6CInv n0 c) (x : Nat) (t : Task) (ht : t ∈ (c.st.comp x).tasks)
    (w : Nat) (hg : c.st.gen t.g = .wait w) : (c.st.wait w).flag = true ∧ 3 ≤ w6_phase c.st w := by
  have hfl : (c.st.wait w).flag = true := (h.w.2.tasks x t ht).2.1 w hg
  obtain ⟨c1, c2, c3, _⟩ := h.w.1.chain w
  have hst : (c.st.wait w).started = true := c3 (c2 (c1 hfl))
  refine ⟨hfl, ?_⟩
  unfold w6_phase; simp only [hst, hfl]
  by_cases hd : c.st.w6_doneInst w <;> simp [hd]

end CV.Core

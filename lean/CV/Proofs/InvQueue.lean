import CV.Proofs.InvQueueBase
/-
C02, machine level, part 2 (part 1: CV/Proofs/InvQueueBase.lean, the relation `QRel`).

  * the three arms of `step` that are not append-only: `.flush` (`EQ.begin` on the root),
    `.dispatchLoop` (`EQ.pop`), `.register` (`EQ.drainFrom`);
  * `q2_step_class` : classification of what one step does to the queue of one component;
  * invariants over `Reach`: `Q2Batch` (batch = heap size), and `QInv` of every queue along
    guarded runs `ReachND` (no register step drains a non-empty deque);
  * `fire` acts are inert; the handler choice is `chooseNext`; `computeHandlers` sorts.
-/
namespace CV.Core

/-! ## `eq` fields after the eq-preserving primitives (simp set) -/

theorem St.q2_eq_modComp_keep (t : St) (c : Nat) (f : Comp → Comp) (hf : ∀ y : Comp, (f y).eq = y.eq) (y : Nat) :
    ((t.modComp c f).comp y).eq = (t.comp y).eq := by
  rw [St.q2_comp_modComp]
  split
  · exact hf _
  · rfl

theorem St.q2_len_modComp (t : St) (c : Nat) (f : Comp → Comp) : (t.modComp c f).comps.length = t.comps.length := by
  simp [St.modComp]

theorem St.q2_eq_updateRootAll : ∀ (fuel : Nat) (todo : List Nat) (root : Nat) (t : St) (y : Nat),
    ((St.updateRootAll fuel todo root t).comp y).eq = (t.comp y).eq := by
  intro fuel
  induction fuel with
  | zero => intro todo root t y; simp [St.updateRootAll]
  | succ n ih =>
    intro todo root t y
    cases todo with
    | nil => simp [St.updateRootAll]
    | cons x rest =>
      simp only [St.updateRootAll]
      rw [ih]
      refine St.q2_eq_modComp_keep _ _ _ ?_ _
      exact fun _ => rfl

theorem q2_begin_empty : ({} : EQ).begin = {} := by
  simp [EQ.begin]

theorem q2_dflt_eq : dfltComp.eq = {} := rfl

/-! ## `.flush` -/

theorem St.q2_flushBegin_eq (s : St) (r y : Nat) :
    ((s.flushBegin r).comp y).eq = if r = y then (s.comp y).eq.begin else (s.comp y).eq := by
  unfold St.flushBegin
  dsimp only
  rw [St.q2_comp_modComp]
  have hc : ∀ z, (if ((s.comp r).eq.batch == 0) = true then s.logE (.batch (s.comp r).eq.queue.length) else s).comp z
      = s.comp z := by
    intro z; split <;> rfl
  have hl : (if ((s.comp r).eq.batch == 0) = true then s.logE (.batch (s.comp r).eq.queue.length) else s).comps.length
      = s.comps.length := by
    split <;> rfl
  rw [hc, hl]
  by_cases h1 : r = y
  · by_cases h2 : y < s.comps.length
    · rw [if_pos ⟨h1, h2⟩, if_pos h1]
    · rw [if_neg (fun h => h2 h.2), if_pos h1, St.q2_comp_oor s y h2, q2_dflt_eq, q2_begin_empty]
  · rw [if_neg (fun h => h1 h.1), if_neg h1]

/-- the `.flush` arm: `EQ.begin` on the root of the flushing component, nothing else -/
theorem Cfg.q2_flush (c : Cfg) (k : List Frame) (x y : Nat) :
    ((c.flush k x).st.comp y).eq = (if c.st.rootOf x = y then (c.st.comp y).eq.begin else (c.st.comp y).eq) ∧
    (c.flush k x).stack = .dispatchLoop (c.st.rootOf x) :: .flushFin (c.st.rootOf x) (c.st.comp (c.st.rootOf x)).flushing :: k := by
  unfold Cfg.flush
  dsimp only
  simp only [Cfg.goto_st, Cfg.goto_stack]
  exact ⟨St.q2_flushBegin_eq _ _ _, rfl⟩

/-! ## `.dispatchLoop` -/

/-- the choice function the machine hands to `EQ.pop`: follow the tape -/
def St.q2pick (s : St) : List QItem → Option QItem := fun cands =>
  match s.tape.head? with
  | some (.disp e) => cands.find? (fun c => c.ev == e)
  | _ => none

theorem St.q2_popEvent (s : St) (r : Nat) : s.popEvent r = (s.comp r).eq.pop s.q2pick := rfl

theorem St.q2_pop_in_range (s : St) (r : Nat) {pick : List QItem → Option QItem} {it : QItem} {q' : EQ}
    (h : (s.comp r).eq.pop pick = some (it, q')) : r < s.comps.length := by
  apply Classical.byContradiction
  intro hn
  rw [St.q2_comp_oor s r hn] at h
  have := (pop_spec h).1
  exact this rfl

/-- the `.dispatchLoop` arm: either the loop condition is false (nothing changes, the frame is
    popped) or exactly one `EQ.pop` on `r`'s queue, whose item goes to `_dispatcher` together with
    the NEW value of `_flush_batch` -/
theorem Cfg.q2_dispatchLoop (c : Cfg) (k : List Frame) (r : Nat) :
    ((c.st.comp r).eq.pop c.st.q2pick = none ∧ c.dispatchLoop k r = c.pop k c.st) ∨
    (∃ it q', (c.st.comp r).eq.pop c.st.q2pick = some (it, q') ∧
      (c.dispatchLoop k r).stack = .dispatcher r it.ev q'.batch :: .dispatchLoop r :: k ∧
      (c.dispatchLoop k r).exn = c.exn ∧ (c.dispatchLoop k r).ret = c.ret ∧
      (c.dispatchLoop k r).st = c.st.modComp r (fun x => { x with eq := q' }) ∧
      ∀ y, ((c.dispatchLoop k r).st.comp y).eq = if y = r then q' else (c.st.comp y).eq) := by
  unfold Cfg.dispatchLoop
  rw [St.q2_popEvent]
  cases hp : (c.st.comp r).eq.pop c.st.q2pick with
  | none => exact .inl ⟨rfl, rfl⟩
  | some pr =>
    obtain ⟨it, q'⟩ := pr
    refine .inr ⟨it, q', rfl, rfl, rfl, rfl, rfl, ?_⟩
    intro y
    have hr := St.q2_pop_in_range c.st r hp
    simp only [Cfg.goto_st]
    rw [St.q2_comp_modComp]
    by_cases h : y = r
    · subst h; rw [if_pos ⟨rfl, hr⟩, if_pos rfl]
    · rw [if_neg (fun hh => h hh.1.symm), if_neg h]

/-! ## `.register` -/

/-- same component table size, same queues -/
structure Q2Same (s t : St) : Prop where
  len : t.comps.length = s.comps.length
  eq : ∀ y, (t.comp y).eq = (s.comp y).eq

theorem Q2Same.refl (s : St) : Q2Same s s := ⟨rfl, fun _ => rfl⟩

theorem Q2Same.modComp {s t : St} (h : Q2Same s t) (c : Nat) (f : Comp → Comp) (hf : ∀ y : Comp, (f y).eq = y.eq) :
    Q2Same s (t.modComp c f) :=
  ⟨(St.q2_len_modComp t c f).trans h.len, fun y => (St.q2_eq_modComp_keep t c f hf y).trans (h.eq y)⟩

/-- closes `Q2Same s (… modComp … s)` goals (eq-preserving updates, `if` in between) -/
macro "q2same" : tactic => `(tactic| repeat' first
  | exact Q2Same.refl _
  | ((with_reducible apply Q2Same.modComp); case hf => exact fun _ => rfl)
  | split)

/-- the `drainFrom` at the end of `registerPre`, on a state `s3` with the queues of `s` -/
theorem St.q2_drain_eq (s s3 : St) (h : Q2Same s s3) (r ch : Nat) (hr : r ≠ ch) (y : Nat) :
    (((s3.modComp r fun x => { x with eq := ((s3.comp r).eq.drainFrom (s3.comp ch).eq).1, dirty := true }).modComp ch
        fun x => { x with eq := ((s3.comp r).eq.drainFrom (s3.comp ch).eq).2 }).comp y).eq =
      if y = ch then ((s.comp r).eq.drainFrom (s.comp ch).eq).2
      else if y = r ∧ y < s.comps.length then ((s.comp r).eq.drainFrom (s.comp ch).eq).1
      else (s.comp y).eq := by
  rw [St.q2_comp_modComp, St.q2_len_modComp, St.q2_comp_modComp, h.len, h.eq r, h.eq ch]
  by_cases hy : y = ch
  · subst hy
    rw [if_pos rfl]
    by_cases hl : y < s.comps.length
    · rw [if_pos ⟨rfl, hl⟩]
    · rw [if_neg (fun hh => hl hh.2), if_neg (fun hh => hl hh.2)]
      rw [St.q2_comp_oor s3 y (by rw [h.len]; exact hl), St.q2_comp_oor s y hl]
      simp [EQ.drainFrom, dfltComp]
  · rw [if_neg (fun hh => hy hh.1.symm), if_neg hy]
    by_cases hyr : y = r
    · subst hyr
      by_cases hl : y < s.comps.length
      · rw [if_pos ⟨rfl, hl⟩, if_pos ⟨rfl, hl⟩]
      · rw [if_neg (fun hh => hl hh.2), if_neg (fun hh => hl hh.2)]; exact h.eq y
    · rw [if_neg (fun hh => hyr hh.1.symm), if_neg (fun hh => hyr hh.1)]; exact h.eq y

/-- `register`'s effect on the queues: none, or (only when `p ≠ ch` and the new root `r` is not
    `ch`) `drainFrom`: the child's deque is appended to the new root's and emptied.  Counters,
    heaps and batch counters are untouched. -/
theorem St.q2_registerPre_eq (s : St) (ch p : Nat) :
    (∀ y, (((s.registerPre ch p).2).comp y).eq = (s.comp y).eq) ∨
    (p ≠ ch ∧ (s.comp p).root ≠ ch ∧ ∀ y, (((s.registerPre ch p).2).comp y).eq =
        if y = ch then ((s.comp (s.comp p).root).eq.drainFrom (s.comp ch).eq).2
        else if y = (s.comp p).root ∧ y < s.comps.length then
          ((s.comp (s.comp p).root).eq.drainFrom (s.comp ch).eq).1
        else (s.comp y).eq) := by
  unfold St.registerPre
  dsimp only
  by_cases hp : p = ch
  · subst hp
    left; intro y
    have : (p != p) = false := by simp
    simp only [this, Bool.false_eq_true, if_false]
    refine Q2Same.eq ?_ y
    q2same
  · have hp' : (p != ch) = true := by simpa using hp
    simp only [hp', if_true]
    split
    · left; intro y
      refine Q2Same.eq ?_ y
      q2same
    · by_cases hr : (s.comp p).root = ch
      · left; intro y
        have : ((s.comp p).root != ch) = false := by simpa using hr
        simp only [this, Bool.false_eq_true, if_false]
        refine Q2Same.eq ?_ y
        q2same
      · right
        refine ⟨hp, hr, ?_⟩
        intro y
        have : ((s.comp p).root != ch) = true := by simpa using hr
        simp only [this, if_true]
        refine St.q2_drain_eq s _ ?_ _ _ hr y
        q2same


/-- the `.register` arm: as `registerPre` (the `updateRoot` recursion and the `inadmissible` /
    `unregistrable` exits do not touch any queue) -/
theorem Cfg.q2_register (c : Cfg) (k : List Frame) (ch p : Nat) :
    (∀ y, ((c.register k ch p).st.comp y).eq = (c.st.comp y).eq) ∨
    (p ≠ ch ∧ (c.st.comp p).root ≠ ch ∧ ∀ y, ((c.register k ch p).st.comp y).eq =
        if y = ch then ((c.st.comp (c.st.comp p).root).eq.drainFrom (c.st.comp ch).eq).2
        else if y = (c.st.comp p).root ∧ y < c.st.comps.length then
          ((c.st.comp (c.st.comp p).root).eq.drainFrom (c.st.comp ch).eq).1
        else (c.st.comp y).eq) := by
  by_cases hadm : c.st.admissible ch p = true
  · have key' : ∀ y, ((c.register k ch p).st.comp y).eq = (((c.st.registerPre ch p).2).comp y).eq := by
      intro y
      unfold Cfg.register
      dsimp only
      rw [if_neg (by simp [hadm])]
      split
      · split
        · simp only [Cfg.goto_st]; exact St.q2_eq_updateRootAll _ _ _ _ _
        · simp only [Cfg.pop_st]; exact St.q2_eq_updateRootAll _ _ _ _ _
      · rfl
    rcases St.q2_registerPre_eq c.st ch p with h | ⟨h1, h2, h3⟩
    · left; intro y; rw [key' y]; exact h y
    · right; refine ⟨h1, h2, ?_⟩; intro y; rw [key' y]; exact h3 y
  · left; intro y
    unfold Cfg.register
    dsimp only
    rw [if_pos (by simp [hadm])]
    rfl

/-! ## classification of one step -/

/-- **What one step of the machine can do to the queue of component `x`.**
    1. a finite sequence of `QOp.app` (possibly empty: unchanged) - every arm except three;
    2. `EQ.begin` - only the `.flush y` arm with `x = root(y)`;
    3. one successful `EQ.pop` (pick read off the tape) - only the `.dispatchLoop x` arm; the
       popped event is handed to `.dispatcher` with the new batch counter;
    4./5. `EQ.drainFrom` - only the `.register ch p` arm: `x` is the new root (gains `ch`'s deque) or
       `x = ch` (deque emptied). -/
theorem q2_step_class (c : Cfg) (x : Nat) :
    QRel x c.st (step c).st
    ∨ (∃ y k, c.stack = .flush y :: k ∧ c.exn = none ∧ c.st.rootOf y = x ∧
        ((step c).st.comp x).eq = (c.st.comp x).eq.begin)
    ∨ (∃ k it q', c.stack = .dispatchLoop x :: k ∧ c.exn = none ∧
        (c.st.comp x).eq.pop c.st.q2pick = some (it, q') ∧ ((step c).st.comp x).eq = q' ∧
        (step c).stack = .dispatcher x it.ev q'.batch :: .dispatchLoop x :: k)
    ∨ (∃ ch p k, c.stack = .register ch p :: k ∧ c.exn = none ∧ p ≠ ch ∧ x = (c.st.comp p).root ∧ x ≠ ch ∧
        ((step c).st.comp x).eq = ((c.st.comp x).eq.drainFrom (c.st.comp ch).eq).1)
    ∨ (∃ p k, c.stack = .register x p :: k ∧ c.exn = none ∧ p ≠ x ∧ (c.st.comp p).root ≠ x ∧
        ((step c).st.comp x).eq = ((c.st.comp (c.st.comp p).root).eq.drainFrom (c.st.comp x).eq).2) := by
  cases hst : c.stack with
  | nil => left; rw [step_nil c hst]; exact QRel.refl _
  | cons f k =>
    cases hx : c.exn with
    | some ex => left; rw [step_cons_exn c f k ex hst hx]; exact unwind_q2 ..
    | none =>
      rw [step_cons c f k hst hx]
      by_cases hf : f.q2special = false
      · left; exact stepFrame_q2 c k f hf
      · cases f
        case flush y =>
          dsimp only [stepFrame]
          have h := (Cfg.q2_flush c k y x).1
          by_cases hr : c.st.rootOf y = x
          · right; left
            exact ⟨y, k, rfl, rfl, hr, by rw [h, if_pos hr]⟩
          · left; exact QRel.of_eq (by rw [h, if_neg hr])
        case dispatchLoop r =>
          dsimp only [stepFrame]
          rcases Cfg.q2_dispatchLoop c k r with ⟨_, h2⟩ | ⟨it, q', h1, h2, _, _, _, h3⟩
          · left; rw [h2]; exact QRel.refl _
          · by_cases hr : x = r
            · subst hr
              right; right; left
              exact ⟨k, it, q', rfl, rfl, h1, by rw [h3, if_pos rfl], h2⟩
            · left; exact QRel.of_eq (by rw [h3, if_neg hr])
        case register ch p =>
          dsimp only [stepFrame]
          rcases Cfg.q2_register c k ch p with h | ⟨h1, h2, h3⟩
          · left; exact QRel.of_eq (h x)
          · by_cases hxc : x = ch
            · subst hxc
              right; right; right; right
              exact ⟨p, k, rfl, rfl, h1, h2, by rw [h3, if_pos rfl]⟩
            · by_cases hxr : x = (c.st.comp p).root ∧ x < c.st.comps.length
              · right; right; right; left
                refine ⟨ch, p, k, rfl, rfl, h1, hxr.1, hxc, ?_⟩
                rw [h3, if_neg hxc, if_pos hxr, ← hxr.1]
              · left; exact QRel.of_eq (by rw [h3, if_neg hxc, if_neg hxr])
        all_goals exact absurd rfl hf


/-! ## invariants of reachable configurations -/

theorem q2_startOf_st (s : St) (op : ExtOp) : (startOf s op).st = s := by
  cases op <;> rfl

theorem q2_envChange_comp (s : St) (d : Nat) (tape : List Entry) (x : Nat) : (envChange s d tape).comp x = s.comp x := rfl

/-- part (a) of `QInv` for every component: `_flush_batch` equals the heap size -/
def Q2Batch (s : St) : Prop := ∀ x, (s.comp x).eq.batch = (s.comp x).eq.heap.length

theorem q2_batch_begin {q : EQ} (h : q.batch = q.heap.length) : q.begin.batch = q.begin.heap.length := by
  unfold EQ.begin
  split
  · rename_i hb
    simp only [List.length_append]
    omega
  · exact h

theorem q2_batch_step (c : Cfg) (h : Q2Batch c.st) : Q2Batch (step c).st := by
  intro x
  rcases q2_step_class c x with ⟨ops, ha, he⟩ | ⟨_, _, _, _, _, he⟩ | ⟨_, it, q', _, _, hp, he, _⟩ |
      ⟨_, _, _, _, _, _, _, _, he⟩ | ⟨_, _, _, _, _, _, he⟩
  · have := q2_runOps_apps (c.st.comp x).eq ops ha
    rw [he, this.2.1, this.2.2.1]; exact h x
  · rw [he]; exact q2_batch_begin (h x)
  · obtain ⟨hb, hit, rfl⟩ := pop_spec hp
    rw [he]
    have hmem : it ∈ (c.st.comp x).eq.heap := (mem_minCands hit).1
    simp only [List.length_erase_of_mem hmem]
    rw [h x]
  · rw [he]; exact h x
  · rw [he]; exact h x

theorem q2_batch_reach (s0 : St) (h0 : Q2Batch s0) (c : Cfg) (hr : Reach s0 c) : Q2Batch c.st := by
  refine Reach.inv (fun c => Q2Batch c.st) ?_ ?_ ?_ c hr
  · intro d tape op; rw [q2_startOf_st]; exact h0
  · intro c hc; exact q2_batch_step c hc
  · intro c d tape op hc _; rw [q2_startOf_st]; exact hc

/-- the full layer invariant for every component -/
def Q2InvAll (s : St) : Prop := ∀ x, QInv (s.comp x).eq

/-- guard: if the next step is a `register ch p`, the deque of `ch` is empty (nothing to drain) -/
def Q2NoDrain (c : Cfg) : Prop :=
  ∀ ch p k, c.stack = .register ch p :: k → c.exn = none → (c.st.comp ch).eq.queue = []

theorem q2_drain_nil_left (q o : EQ) (h : o.queue = []) : (q.drainFrom o).1 = q := by
  cases q; simp [EQ.drainFrom, h]

theorem q2_drain_nil_right (q o : EQ) (h : o.queue = []) : (q.drainFrom o).2 = o := by
  cases o
  simp only [EQ.drainFrom]
  simp only at h
  rw [h]

theorem q2_qinv_step (c : Cfg) (hg : Q2NoDrain c) (h : Q2InvAll c.st) : Q2InvAll (step c).st := by
  intro x
  rcases q2_step_class c x with ⟨ops, _, he⟩ | ⟨_, _, _, _, _, he⟩ | ⟨_, it, q', _, _, hp, he, _⟩ |
      ⟨ch, p, k, hs, hx, _, _, _, he⟩ | ⟨p, k, hs, hx, _, _, he⟩
  · rw [he]; exact qinv_run ops (h x)
  · rw [he]; exact qinv_begin (h x)
  · rw [he]; exact qinv_pop (h x) hp
  · rw [he, q2_drain_nil_left _ _ (hg ch p k hs hx)]; exact h x
  · rw [he, q2_drain_nil_right _ _ (hg x p k hs hx)]; exact h x

/-- guarded reachability: like `Reach`, but a step is only taken from a configuration that
    satisfies `Q2NoDrain` -/
inductive ReachND (s0 : St) : Cfg → Prop
  | init (d : Nat) (tape : List Entry) (op : ExtOp) : ReachND s0 (startOf (envChange s0 d tape) op)
  | step {c : Cfg} : ReachND s0 c → Q2NoDrain c → ReachND s0 (CV.Core.step c)
  | next {c : Cfg} (d : Nat) (tape : List Entry) (op : ExtOp) :
      ReachND s0 c → done c = true → ReachND s0 (startOf (envChange c.st d tape) op)

theorem ReachND.reach {s0 : St} {c : Cfg} (h : ReachND s0 c) : Reach s0 c := by
  induction h with
  | init d tape op => exact .init d tape op
  | step _ _ ih => exact .step ih
  | next d tape op _ hd ih => exact .next d tape op ih hd

theorem q2_qinv_reachND (s0 : St) (h0 : Q2InvAll s0) (c : Cfg) (hr : ReachND s0 c) : Q2InvAll c.st := by
  induction hr with
  | init d tape op => rw [q2_startOf_st]; exact h0
  | step _ hg ih => exact q2_qinv_step _ hg ih
  | next d tape op _ _ ih => rw [q2_startOf_st]; exact ih


/-! ## the `.dispatchLoop` step pops a minimum -/

/-- One iteration of `while self._flush_batch > 0`.  Either `EQ.pop` returns nothing and the loop
    frame is popped with the state unchanged, or the step pops ONE item `it` that is a minimum by
    `(prio, seq)` of `r`'s heap, removes exactly it, decrements the batch counter first and hands
    `it.ev` to `_dispatcher` with the decremented counter; nothing else changes. -/
theorem q2_dispatch_pops_min (c : Cfg) (r : Nat) (k : List Frame)
    (hs : c.stack = .dispatchLoop r :: k) (hx : c.exn = none) :
    ((c.st.comp r).eq.pop c.st.q2pick = none ∧ step c = { c with stack := k }) ∨
    (∃ it q', (c.st.comp r).eq.pop c.st.q2pick = some (it, q') ∧
      (∀ y ∈ (c.st.comp r).eq.heap, it.le y = true) ∧ it ∈ (c.st.comp r).eq.heap ∧
      q'.heap = (c.st.comp r).eq.heap.erase it ∧ q'.batch + 1 = (c.st.comp r).eq.batch ∧
      q'.queue = (c.st.comp r).eq.queue ∧ q'.counter = (c.st.comp r).eq.counter ∧
      (step c).stack = .dispatcher r it.ev q'.batch :: .dispatchLoop r :: k ∧ (step c).exn = none ∧
      (step c).st = c.st.modComp r (fun x => { x with eq := q' }) ∧
      ∀ y, ((step c).st.comp y).eq = if y = r then q' else (c.st.comp y).eq) := by
  rw [step_cons c _ k hs hx]
  dsimp only [stepFrame]
  rcases Cfg.q2_dispatchLoop c k r with ⟨h1, h2⟩ | ⟨it, q', h1, h2, h3, _, h5, h6⟩
  · left; exact ⟨h1, by rw [h2]; rfl⟩
  · right
    obtain ⟨hb, hit, hq⟩ := pop_spec h1
    refine ⟨it, q', h1, minCands_le hit, (mem_minCands hit).1, by rw [hq], ?_, by rw [hq], by rw [hq], h2,
      by rw [h3]; exact hx, h5, h6⟩
    rw [hq]; simp only; omega

/-- under `Q2Batch` the loop ends exactly when the batch is finished, and the counter handed to
    `_dispatcher` is the number of events still waiting in the heap -/
theorem q2_dispatch_progress (c : Cfg) (r : Nat) (hb : Q2Batch c.st) :
    ((c.st.comp r).eq.pop c.st.q2pick = none ↔ (c.st.comp r).eq.batch = 0) ∧
    ∀ it q', (c.st.comp r).eq.pop c.st.q2pick = some (it, q') → q'.batch = q'.heap.length := by
  refine ⟨⟨?_, fun h => pop_none_of_batch_zero _ h⟩, ?_⟩
  · intro hn
    apply Classical.byContradiction
    intro hne
    have hh : (c.st.comp r).eq.heap ≠ [] := by
      intro e
      have := hb r
      rw [e] at this
      exact hne this
    obtain ⟨it, q', hp⟩ := pop_isSome c.st.q2pick hne hh
    rw [hn] at hp; cases hp
  · intro it q' hp
    obtain ⟨hne, hit, rfl⟩ := pop_spec hp
    have hmem := (mem_minCands hit).1
    simp only [List.length_erase_of_mem hmem]
    rw [hb r]

/-! ## `fire` is inert -/

/-- only the event table differs -/
structure Q2EvOnly (s t : St) : Prop where
  comps : t.comps = s.comps
  hs : t.hs = s.hs
  gens : t.gens = s.gens
  waits : t.waits = s.waits
  timers : t.timers = s.timers
  clock : t.clock = s.clock
  progs : t.progs = s.progs
  tmpls : t.tmpls = s.tmpls
  log : t.log = s.log
  tape : t.tape = s.tape

theorem Q2EvOnly.refl (s : St) : Q2EvOnly s s := ⟨rfl, rfl, rfl, rfl, rfl, rfl, rfl, rfl, rfl, rfl⟩

theorem Q2EvOnly.trans {a b c : St} (h1 : Q2EvOnly a b) (h2 : Q2EvOnly b c) : Q2EvOnly a c :=
  ⟨h2.comps.trans h1.comps, h2.hs.trans h1.hs, h2.gens.trans h1.gens, h2.waits.trans h1.waits,
    h2.timers.trans h1.timers, h2.clock.trans h1.clock, h2.progs.trans h1.progs, h2.tmpls.trans h1.tmpls,
    h2.log.trans h1.log, h2.tape.trans h1.tape⟩

theorem Q2EvOnly.modEv {s t : St} (h : Q2EvOnly s t) (e : Nat) (f : Ev → Ev) : Q2EvOnly s (t.modEv e f) :=
  h.trans ⟨rfl, rfl, rfl, rfl, rfl, rfl, rfl, rfl, rfl, rfl⟩

theorem Q2EvOnly.addEv {s t : St} (h : Q2EvOnly s t) (e : Ev) : Q2EvOnly s (t.addEv e) :=
  h.trans ⟨rfl, rfl, rfl, rfl, rfl, rfl, rfl, rfl, rfl, rfl⟩

theorem Q2EvOnly.fireContext {s t : St} (h : Q2EvOnly s t) (r e : Nat) : Q2EvOnly s (t.fireContext r e) := by
  unfold St.fireContext
  dsimp only
  repeat' split
  all_goals first | exact h | exact h.modEv _ _ | exact (h.modEv _ _).modEv _ _

theorem St.q2_len_fireContext (t : St) (r e : Nat) : (t.fireContext r e).evs.length = t.evs.length := by
  unfold St.fireContext
  dsimp only
  repeat' split
  all_goals simp [St.modEv]

/-- what `fire` does to a state: one new log entry `F`, one append to the root's queue; otherwise
    only the event table is written (no handler, generator, wait, timer table changes; the clock
    stands still) -/
structure Q2Fire (s s' : St) (r e : Nat) (prio : Int) : Prop where
  comp : ∀ y, s'.comp y = if y = r ∧ y < s.comps.length then { s.comp y with eq := (s.comp y).eq.append e prio }
            else s.comp y
  clen : s'.comps.length = s.comps.length
  hs : s'.hs = s.hs
  gens : s'.gens = s.gens
  waits : s'.waits = s.waits
  timers : s'.timers = s.timers
  clock : s'.clock = s.clock
  progs : s'.progs = s.progs
  tmpls : s'.tmpls = s.tmpls
  log : ∃ nm chans, s'.log = .fire e nm chans prio :: s.log
  tape : s'.tape = s.tape.drop 1

theorem Q2Fire.core {s t : St} (h : Q2EvOnly s t) (r e : Nat) (prio : Int) (nm : Name) (chans : List Chan) :
    Q2Fire s ((t.modComp r fun x => { x with eq := x.eq.append e prio }).logE (.fire e nm chans prio)) r e prio := by
  refine ⟨?_, ?_, h.hs, h.gens, h.waits, h.timers, h.clock, h.progs, h.tmpls, ⟨nm, chans, ?_⟩, ?_⟩
  · intro y
    show ((St.modComp _ _ _).comp y) = _
    rw [St.q2_comp_modComp]
    have hc : ∀ z, t.comp z = s.comp z := by intro z; unfold St.comp; rw [h.comps]
    rw [hc, h.comps]
    by_cases hy : y = r ∧ y < s.comps.length
    · rw [if_pos hy, if_pos ⟨hy.1.symm, hy.2⟩]
    · rw [if_neg hy, if_neg (fun hh => hy ⟨hh.1.symm, hh.2⟩)]
  · show (St.modComp _ _ _).comps.length = _
    rw [St.q2_len_modComp, h.comps]
  · show _ :: t.log = _; rw [h.log]
  · show t.tape.drop 1 = _; rw [h.tape]

/-- an `EvOnly` change afterwards (e.g. `event.cancel()`) keeps `Q2Fire` -/
theorem Q2Fire.then {s t t' : St} {r e : Nat} {prio : Int} (h : Q2Fire s t r e prio) (h2 : Q2EvOnly t t') :
    Q2Fire s t' r e prio := by
  obtain ⟨nm, ch, hl⟩ := h.log
  refine ⟨?_, by rw [h2.comps]; exact h.clen, h2.hs.trans h.hs, h2.gens.trans h.gens, h2.waits.trans h.waits,
    h2.timers.trans h.timers, h2.clock.trans h.clock, h2.progs.trans h.progs, h2.tmpls.trans h.tmpls,
    ⟨nm, ch, h2.log.trans hl⟩, h2.tape.trans h.tape⟩
  intro y
  have : t'.comp y = t.comp y := by unfold St.comp; rw [h2.comps]
  rw [this]; exact h.comp y

theorem St.q2_fireRaw {s t : St} (h : Q2EvOnly s t) (self e : Nat) (chans : List Chan) (prio : Int) :
    Q2Fire s (t.fireRaw self e chans prio) (s.rootOf self) e prio ∧
    (t.fireRaw self e chans prio).evs.length = t.evs.length := by
  have hr : (t.modEv e fun x => { x with chans := chans, val := {}, mgr := self }).rootOf self = s.rootOf self := by
    unfold St.rootOf St.comp; rw [(h.modEv _ _).comps]
  unfold St.fireRaw
  dsimp only
  rw [hr]
  refine ⟨Q2Fire.core ((h.modEv _ _).fireContext _ _) _ _ _ _ _, ?_⟩
  show (St.fireContext _ _ _).evs.length = _
  rw [St.q2_len_fireContext]; simp [St.modEv]

/-- `self.fire(tmpl(), target, priority=prio)` (+ optional `event.cancel()`): exactly one fire -/
theorem St.q2_actFire (s : St) (self i : Nat) (target : Option Chan) (prio : Int) (cancel : Bool) :
    Q2Fire s (s.actFire self i target prio cancel) (s.rootOf self) s.evs.length prio ∧
    (s.actFire self i target prio cancel).evs.length = s.evs.length + 1 := by
  have h1 := St.q2_fireRaw ((Q2EvOnly.refl s).addEv (mkEvOfTmpl s i)) self s.evs.length
    (match target with | some t => [t] | none => [((s.addEv (mkEvOfTmpl s i)).comp self).chan]) prio
  unfold St.actFire St.fireTmplEv
  dsimp only
  split
  · exact ⟨h1.1.then ((Q2EvOnly.refl _).modEv _ _), by
      show (St.modEv _ _ _).evs.length = _
      simp only [St.modEv, List.length_modify]; exact h1.2.trans (by simp [St.addEv])⟩
  · exact ⟨h1.1, h1.2.trans (by simp [St.addEv])⟩

/-- the `.acts` arm on a `fire` act: the state changes as `Q2Fire`, the SAME frame kind continues
    with the remaining acts; nothing is pushed, nothing is returned, no exception -/
theorem q2_acts_fire (c : Cfg) (ctx : HCtx) (i : Nat) (target : Option Chan) (prio : Int) (cancel : Bool)
    (rest : Prog) (k : List Frame)
    (hs : c.stack = .acts ctx (.fire i target prio cancel :: rest) :: k) (hx : c.exn = none) :
    (step c).stack = .acts ctx rest :: k ∧ (step c).exn = none ∧ (step c).ret = c.ret ∧
    Q2Fire c.st (step c).st (c.st.rootOf ctx.self) c.st.evs.length prio ∧
    (step c).st.evs.length = c.st.evs.length + 1 := by
  rw [step_cons c _ k hs hx]
  have h := St.q2_actFire c.st ctx.self i target prio cancel
  exact ⟨rfl, hx, rfl, h.1, h.2⟩

/-- the same for a `fire` act inside a generator body: `.stepGen g` continues as `.stepGen g`
    (the generator record only advances its program counter) -/
theorem q2_stepGen_fire (c : Cfg) (g e h owner : Nat) (i : Nat) (target : Option Chan) (prio : Int) (cancel : Bool)
    (rest : Prog) (step' : Nat) (pc : Option Bool) (sd : Bool) (k : List Frame)
    (hs : c.stack = .stepGen g :: k) (hx : c.exn = none)
    (hg : c.st.gen g = .user e h owner (.fire i target prio cancel :: rest) step' pc sd) :
    (step c).stack = .stepGen g :: k ∧ (step c).exn = none ∧ (step c).ret = c.ret ∧
    Q2Fire (c.st.setGen g (.user e h owner rest step' none sd)) (step c).st (c.st.rootOf owner) c.st.evs.length prio ∧
    (step c).st.evs.length = c.st.evs.length + 1 := by
  rw [step_cons c _ k hs hx]
  have h := St.q2_actFire (c.st.setGen g (.user e h owner rest step' none sd)) owner i target prio cancel
  dsimp only [stepFrame]
  unfold Cfg.stepGen
  simp only [hg]
  exact ⟨rfl, hx, rfl, h.1, h.2⟩


/-! ## the handler loop chooses with `chooseNext` -/

/-- the priority `_dispatcher` sorts by -/
def St.q2prio (s : St) (h : Nat) : Int := (s.hs.getD h dfltHandler).prio

/-- the hint the machine reads off the tape for the next handler of event `e`: the handler named
    by a pending `I` entry, or the first handler of the head's tie group that matches a pending
    `H` entry -/
def St.q2hint (s : St) (e h0 : Nat) (rest0 : List Nat) : Option Nat :=
  match s.tape.head? with
  | some (.inv e' h' 0) => if e' == e then some h' else none
  | some (.hinv e' k o) =>
    if e' == e then
      ((h0 :: rest0).takeWhile (fun h => s.q2prio h == s.q2prio h0)).find?
        (fun h => (s.hs.getD h dfltHandler).kind.code == k && hkey s (s.hs.getD h dfltHandler) == o)
    else none
  | _ => none

theorem q2_chooseHandler (s : St) (e h0 : Nat) (rest0 : List Nat) :
    chooseNext s.q2prio (s.q2hint e h0 rest0) (h0 :: rest0) =
      some (s.chooseHandler e h0 rest0, (h0 :: rest0).erase (s.chooseHandler e h0 rest0)) := by
  unfold chooseNext
  dsimp only
  have key : ∀ (a b : Nat), a = b → some (a, (h0 :: rest0).erase a) = some (b, (h0 :: rest0).erase b) := by
    intro a b h; rw [h]
  apply key
  · 
    unfold St.q2hint St.chooseHandler St.q2prio
    dsimp only
    generalize s.tape.head? = th
    cases th with
    | none => rfl
    | some x =>
      cases x with
      | inv e' h' n =>
        cases n with
        | zero =>
          try dsimp only
          by_cases he : (e' == e) = true
          · simp only [he, if_true, Bool.true_and]
          · simp only [he, Bool.false_and]; rfl
        | succ n => rfl
      | hinv e' k o =>
        try dsimp only
        by_cases he : (e' == e) = true
        · simp only [he, if_true]
          cases hf : List.find? (fun h => (s.hs.getD h dfltHandler).kind.code == k && hkey s (s.hs.getD h dfltHandler) == o)
              (List.takeWhile (fun h => (s.hs.getD h dfltHandler).prio == (s.hs.getD h0 dfltHandler).prio) (h0 :: rest0)) with
          | none => rfl
          | some a =>
            have hm := List.mem_of_find?_eq_some hf
            simp only [Option.getD_some]
            rw [if_pos (by simpa using hm)]
        · simp only [he]; rfl
      | _ => rfl

/-! ## what `_dispatcher` builds on a cache miss -/

theorem q2_desc_of_mergeSort (prioOf : Nat → Int) (l : List Nat) :
    Desc prioOf (l.mergeSort (fun a b => decide (prioOf a ≥ prioOf b))) := desc_of_mergeSort prioOf l

/-- `sorted(chain(getHandlers(event, ch) for ch in channels), key=priority, reverse=True)`:
    verbatim the first two `let`s of `St.computeHandlers` -/
def St.q2sorted (s : St) (r : Nat) (name : Name) (chans : List Chan) : List Nat :=
  (chans.flatMap (fun ch => collect s (s.comps.length + 1) r name ch)).mergeSort
    (fun a b => (s.hs.getD a dfltHandler).prio ≥ (s.hs.getD b dfltHandler).prio)

theorem q2_sorted_desc (s : St) (r : Nat) (name : Name) (chans : List Chan) :
    Desc s.q2prio (s.q2sorted r name chans) := desc_of_mergeSort s.q2prio _

/-- `computeHandlers` returns `sorted` = the collected handlers merge-sorted by descending
    priority, followed by a freshly allocated fallback handler (id = old table length) exactly
    for `generate_events` (priority -100) and for an `exception` event nobody handles -/
theorem q2_computeHandlers (s : St) (r : Nat) (name : Name) (chans : List Chan) :
    ((s.computeHandlers r name chans).1 = s.q2sorted r name chans ∧ (s.computeHandlers r name chans).2.hs = s.hs ∧
        name ≠ Name.generateEvents ∧ ¬ (name = Name.exception ∧ s.q2sorted r name chans = []))
    ∨ ((s.computeHandlers r name chans).1 = s.q2sorted r name chans ++ [s.hs.length] ∧
        ∃ hd, (s.computeHandlers r name chans).2.hs = s.hs ++ [hd] ∧
          ((name = Name.generateEvents ∧ hd.prio = -100 ∧ hd.kind = .fallbackGE) ∨
           (name = Name.exception ∧ s.q2sorted r name chans = [] ∧ hd.prio = 0 ∧ hd.kind = .fallbackExc))) := by
  unfold St.computeHandlers St.q2sorted
  dsimp only
  split
  · rename_i h1
    right
    exact ⟨rfl, _, rfl, .inl ⟨by simpa using h1, rfl, rfl⟩⟩
  · rename_i h1
    split
    · rename_i h2
      right
      simp only [Bool.and_eq_true, beq_iff_eq, List.isEmpty_iff] at h2
      exact ⟨rfl, _, rfl, .inr ⟨h2.1, h2.2, rfl, rfl⟩⟩
    · rename_i h2
      left
      simp only [Bool.and_eq_true, beq_iff_eq, List.isEmpty_iff] at h2
      exact ⟨rfl, rfl, by simpa using h1, h2⟩


theorem St.q2prio_of_hs {s s' : St} (h : s'.hs = s.hs) : s'.q2prio = s.q2prio := by
  funext x; unfold St.q2prio; rw [h]

theorem St.q2prio_append_lt {s s' : St} {l : List Handler} (h : s'.hs = s.hs ++ l) {x : Nat} (hx : x < s.hs.length) :
    s'.q2prio x = s.q2prio x := by
  unfold St.q2prio
  rw [h, List.getD_eq_getElem?_getD, List.getD_eq_getElem?_getD, List.getElem?_append_left hx]

theorem St.q2prio_append_new {s s' : St} {hd : Handler} (h : s'.hs = s.hs ++ [hd]) :
    s'.q2prio s.hs.length = hd.prio := by
  unfold St.q2prio
  rw [h, List.getD_eq_getElem?_getD, List.getElem?_append_right (Nat.le_refl _)]
  simp

/-- The list handed to the handler loop after a cache miss is sorted by descending priority (in
    the state the loop starts in) PROVIDED the collected handlers are declared records and, for
    `generate_events`, none of them has a priority below the fallback's -100 (the fallback is
    appended after sorting). -/
theorem q2_computeHandlers_desc (s : St) (r : Nat) (name : Name) (chans : List Chan)
    (hin : ∀ h ∈ s.q2sorted r name chans, h < s.hs.length)
    (hlow : name = Name.generateEvents → ∀ h ∈ s.q2sorted r name chans, s.q2prio h ≥ -100) :
    Desc (s.computeHandlers r name chans).2.q2prio (s.computeHandlers r name chans).1 := by
  have hd0 := q2_sorted_desc s r name chans
  rcases q2_computeHandlers s r name chans with ⟨h1, h2, _, _⟩ | ⟨h1, hd, h2, h3⟩
  · rw [h1, St.q2prio_of_hs h2]; exact hd0
  · rw [h1]
    unfold Desc
    rw [List.pairwise_append]
    refine ⟨?_, by simp, ?_⟩
    · refine List.Pairwise.imp_of_mem ?_ hd0
      intro a b ha hb hab
      rw [St.q2prio_append_lt h2 (hin a ha), St.q2prio_append_lt h2 (hin b hb)]
      exact hab
    · intro a ha b hb
      rw [List.mem_singleton.mp hb, St.q2prio_append_new h2, St.q2prio_append_lt h2 (hin a ha)]
      rcases h3 with ⟨hn, hp, _⟩ | ⟨_, he, _, _⟩
      · rw [hp]; exact hlow hn a ha
      · rw [he] at ha; exact absurd ha (by simp)


/-! ## the handler loop on the machine -/

/-- the `.hLoop` arm with handlers pending: the handler invoked and the handlers kept are exactly
    `chooseNext` of the layer (priority table of the current state, hint read off the tape) -/
theorem q2_hLoop_step (c : Cfg) (r e h0 : Nat) (rest0 : List Nat) (err : Bool) (stale : Outcome) (k : List Frame)
    (hs : c.stack = .hLoop r e (h0 :: rest0) err stale :: k) (hx : c.exn = none) :
    ∃ h rest, chooseNext c.st.q2prio (c.st.q2hint e h0 rest0) (h0 :: rest0) = some (h, rest) ∧
      (step c).stack = .invoke r h e :: .hAfter r e rest err stale :: k ∧ (step c).exn = none ∧
      (step c).st.hs = c.st.hs := by
  rw [step_cons c _ k hs hx]
  exact ⟨_, _, q2_chooseHandler c.st e h0 rest0, rfl, hx, rfl⟩

/-- `.hLoop` with nothing pending ends the loop -/
theorem q2_hLoop_nil (c : Cfg) (r e : Nat) (err : Bool) (stale : Outcome) (k : List Frame)
    (hs : c.stack = .hLoop r e [] err stale :: k) (hx : c.exn = none) :
    (step c).stack = .dispFin r e err :: k := by
  rw [step_cons c _ k hs hx]; rfl

/-- `.hApply`: `if event.stopped: break` - the pending handlers `rest` are dropped with the frame -/
theorem q2_hApply_step (c : Cfg) (r e : Nat) (rest : List Nat) (err : Bool) (v : Outcome) (k : List Frame)
    (hs : c.stack = .hApply r e rest err v :: k) (hx : c.exn = none) :
    (step c).stack = (if ((c.st.applyValue r e v).ev e).stopped = true then Frame.dispFin r e err
                      else Frame.hLoop r e rest err v) :: k := by
  rw [step_cons c _ k hs hx]
  dsimp only [stepFrame]
  unfold Cfg.hApply
  dsimp only
  split <;> rfl

/-! ## `fire()` never dispatches -/

/-- frames that dispatch events or run handlers -/
def Frame.q2dispatching : Frame → Bool
  | .dispatcher .. => true
  | .hLoop .. => true
  | .invoke .. => true
  | .dispatchLoop _ => true
  | .flush _ => true
  | .tick _ => true
  | _ => false

/-- the next step of `c` executes a `fire` act of user code (plain body or generator body) -/
def Q2FiresNext (c : Cfg) : Prop :=
  c.exn = none ∧
  ((∃ ctx i tg p cn rest k, c.stack = .acts ctx (.fire i tg p cn :: rest) :: k) ∨
   (∃ g e h owner i tg p cn rest st pc sd k, c.stack = .stepGen g :: k ∧
      c.st.gen g = .user e h owner (.fire i tg p cn :: rest) st pc sd))

theorem q2_no_reentrant (c : Cfg) (h : Q2FiresNext c) :
    ∃ f f' k, c.stack = f :: k ∧ (step c).stack = f' :: k ∧ f'.q2dispatching = false ∧
      (step c).exn = none ∧ (step c).ret = c.ret ∧
      (∃ e nm ch p, (step c).st.log = .fire e nm ch p :: c.st.log) ∧ (step c).st.hs = c.st.hs := by
  obtain ⟨hx, h | h⟩ := h
  · obtain ⟨ctx, i, tg, p, cn, rest, k, hs⟩ := h
    obtain ⟨h1, h2, h3, h4, _⟩ := q2_acts_fire c ctx i tg p cn rest k hs hx
    obtain ⟨nm, ch, hl⟩ := h4.log
    exact ⟨_, _, k, hs, h1, rfl, h2, h3, ⟨_, nm, ch, p, hl⟩, h4.hs⟩
  · obtain ⟨g, e, hh, owner, i, tg, p, cn, rest, st, pc, sd, k, hs, hg⟩ := h
    obtain ⟨h1, h2, h3, h4, _⟩ := q2_stepGen_fire c g e hh owner i tg p cn rest st pc sd k hs hx hg
    obtain ⟨nm, ch, hl⟩ := h4.log
    exact ⟨_, _, k, hs, h1, rfl, h2, h3, ⟨_, nm, ch, p, hl⟩, h4.hs⟩


/-! ## runs of the machine are runs of the layer -/

theorem q2_runOps_append2 (q : EQ) (a b : List QOp) :
    (runOps q (a ++ b)).2 = (runOps q a).2 ++ (runOps (runOps q a).1 b).2 := by
  induction a generalizing q with
  | nil => rfl
  | cons o a ih => simp only [List.cons_append, runOps, List.append_assoc]; rw [ih]

/-- the item the step of `c` pops from `x`'s heap (and hands to `_dispatcher`), if any -/
def q2popped (c : Cfg) (x : Nat) : Option QItem :=
  match c.exn, c.stack with
  | none, .dispatchLoop r :: _ => if r = x then (c.st.popEvent r).map Prod.fst else none
  | _, _ => none

/-- the items popped from `x`'s heap by the first `n` steps from `c`, in order -/
def q2poppedRun (x : Nat) : Nat → Cfg → List QItem
  | 0, _ => []
  | n + 1, c => (q2popped c x).toList ++ q2poppedRun x n (step c)

/-- one step = a list of layer ops on `x`'s queue whose dispatched items are what the step popped
    (a `register` step under the guard `Q2NoDrain` changes no queue) -/
theorem q2_step_trace (c : Cfg) (x : Nat) (hg : Q2NoDrain c) :
    ∃ ops : List QOp, ((step c).st.comp x).eq = (runOps (c.st.comp x).eq ops).1 ∧
      (runOps (c.st.comp x).eq ops).2 = (q2popped c x).toList := by
  have quiet : ∀ {s' : St}, QRel x c.st s' → q2popped c x = none →
      ∃ ops : List QOp, (s'.comp x).eq = (runOps (c.st.comp x).eq ops).1 ∧
        (runOps (c.st.comp x).eq ops).2 = (q2popped c x).toList := by
    intro s' hq hp
    obtain ⟨ops, ha, he⟩ := hq
    exact ⟨ops, he, by rw [hp, (q2_runOps_apps _ ops ha).1]; rfl⟩
  cases hst : c.stack with
  | nil =>
    rw [step_nil c hst]
    exact quiet (QRel.refl _) (by unfold q2popped; rw [hst]; split <;> simp_all)
  | cons f k =>
    cases hx : c.exn with
    | some ex =>
      rw [step_cons_exn c f k ex hst hx]
      exact quiet (unwind_q2 ..) (by unfold q2popped; rw [hx])
    | none =>
      rw [step_cons c f k hst hx]
      by_cases hf : f.q2special = false
      · refine quiet (stepFrame_q2 c k f hf) ?_
        unfold q2popped; rw [hst, hx]
        cases f <;> first | rfl | exact absurd hf (by simp [Frame.q2special])
      · cases f
        case flush y =>
          dsimp only [stepFrame]
          have hp : q2popped c x = none := by unfold q2popped; rw [hst, hx]
          have h := (Cfg.q2_flush c k y x).1
          by_cases hr : c.st.rootOf y = x
          · exact ⟨[.flushBegin], by rw [h, if_pos hr]; rfl, by rw [hp]; rfl⟩
          · exact quiet (QRel.of_eq (by rw [h, if_neg hr])) hp
        case dispatchLoop r =>
          dsimp only [stepFrame]
          have hp : q2popped c x = if r = x then (c.st.popEvent r).map Prod.fst else none := by
            unfold q2popped; rw [hst, hx]
          rcases Cfg.q2_dispatchLoop c k r with ⟨h1, h2⟩ | ⟨it, q', h1, _, _, _, _, h3⟩
          · rw [h2]
            refine ⟨[], rfl, ?_⟩
            rw [hp, St.q2_popEvent, h1]; split <;> rfl
          · by_cases hr : r = x
            · subst hr
              refine ⟨[.pop c.st.q2pick], ?_, ?_⟩
              · rw [h3, if_pos rfl]; simp only [runOps, QOp.apply, h1]
              · rw [hp, if_pos rfl, St.q2_popEvent, h1]; simp only [runOps, QOp.apply, h1]; rfl
            · refine ⟨[], by rw [h3, if_neg (fun h => hr h.symm)]; rfl, ?_⟩
              rw [hp, if_neg hr]; rfl
        case register ch p =>
          dsimp only [stepFrame]
          have hp : q2popped c x = none := by unfold q2popped; rw [hst, hx]
          have hq := hg ch p k hst hx
          rcases Cfg.q2_register c k ch p with h | ⟨_, _, h3⟩
          · exact quiet (QRel.of_eq (h x)) hp
          · refine quiet (QRel.of_eq ?_) hp
            rw [h3]
            split
            · rename_i hxc; subst hxc; exact q2_drain_nil_right _ _ hq
            · split
              · rename_i hxr; rw [← hxr.1]; exact q2_drain_nil_left _ _ hq
              · rfl
        all_goals exact absurd rfl hf

/-- `n` steps = a list of layer ops on `x`'s queue; its dispatched items are exactly the items the
    `.dispatchLoop x` steps of the run popped, in order -/
theorem q2_run_trace (x : Nat) : ∀ (n : Nat) (c : Cfg), (∀ i, i < n → Q2NoDrain (runN i c)) →
    ∃ ops : List QOp, ((runN n c).st.comp x).eq = (runOps (c.st.comp x).eq ops).1 ∧
      (runOps (c.st.comp x).eq ops).2 = q2poppedRun x n c := by
  intro n
  induction n with
  | zero => intro c _; exact ⟨[], rfl, rfl⟩
  | succ n ih =>
    intro c hg
    obtain ⟨o1, e1, p1⟩ := q2_step_trace c x (hg 0 (Nat.succ_pos _))
    obtain ⟨o2, e2, p2⟩ := ih (step c) (fun i hi => by rw [← runN_succ]; exact hg (i + 1) (Nat.succ_lt_succ hi))
    refine ⟨o1 ++ o2, ?_, ?_⟩
    · rw [runN_succ, q2_runOps_append, ← e1]; exact e2
    · rw [q2_runOps_append2, p1, ← e1, p2]; rfl


/-- a popped item is dispatched at once: the step pushes `_dispatcher(it.ev, …)` -/
theorem q2_popped_dispatched (c : Cfg) (x : Nat) (it : QItem) (h : q2popped c x = some it) :
    ∃ k, c.stack = .dispatchLoop x :: k ∧ c.exn = none ∧
      (step c).stack = .dispatcher x it.ev ((step c).st.comp x).eq.batch :: .dispatchLoop x :: k := by
  unfold q2popped at h
  split at h
  · rename_i r k hx hst
    split at h
    · rename_i hr
      subst hr
      rw [step_cons c _ k hst hx]
      dsimp only [stepFrame]
      rcases Cfg.q2_dispatchLoop c k r with ⟨h1, _⟩ | ⟨it', q', h1, h2, _, _, _, h3⟩
      · rw [St.q2_popEvent, h1] at h; cases h
      · rw [St.q2_popEvent, h1] at h
        simp only [Option.map_some, Option.some.injEq] at h
        subst h
        exact ⟨k, hst, hx, by rw [h3, if_pos rfl]; exact h2⟩
    · cases h
  · cases h

/-- two fresh managers satisfy the layer invariant -/
theorem q2_two_fresh_init :
    Q2InvAll { comps := [{ parent := 0, root := 0 }, { parent := 1, root := 1 }] } := by
  intro x
  have h : ((({ comps := [{ parent := 0, root := 0 }, { parent := 1, root := 1 }] } : St).comp x).eq) = {} := by
    unfold St.comp
    match x with
    | 0 => rfl
    | 1 => rfl
    | n + 2 => rfl
  rw [h]; exact qinv_empty

end CV.Core

import CV.Proofs.InvDispBase
/-
C08, machine level: the conservation invariant through the arms of `step` and over `Reach`.

  * `DG K B k c'`  result of an arm: `DBal K B` of the new state, and the new stack is `fs ++ k` with
    `fs` free of `.dispatcher` frames (and of the never-pushed `.updateRoot` frame);
  * `DInv K c`     the invariant of configurations: `DBal K (pend) c.st` where `pend` = 1 iff the top
    frame is `.dispatcher _ e _` with `K e`; `.dispatcher` frames occur only on top of the stack and
    only while no exception is pending (so unwinding never drops a popped event);
  * `d8_step`      `DInv K c → DInv K (step c)`;  `d8_reach` over `Reach`.
-/
namespace CV.Core

variable {K : Nat → Bool} {B : Nat}

/-- every frame except `.dispatcher` (pushed only by `.dispatchLoop`, on top) and `.updateRoot`
    (never pushed: `register` runs `_updateRoot` inside its own step) -/
def Frame.d8plain : Frame → Bool
  | .dispatcher _ _ _ => false
  | .updateRoot _ _ => false
  | _ => true

def d8plainAll (fs : List Frame) : Bool := fs.all Frame.d8plain

/-- result of an arm: conservation with `B` events in flight, only plain frames pushed -/
structure DG (K : Nat → Bool) (B : Nat) (k : List Frame) (c' : Cfg) : Prop where
  st : DBal K B c'.st
  push : ∃ fs, c'.stack = fs ++ k ∧ d8plainAll fs = true

theorem DG.pop (c : Cfg) (k : List Frame) {s : St} (h : DBal K B s) : DG K B k (c.pop k s) := ⟨h, [], rfl, rfl⟩
theorem DG.popRet (c : Cfg) (k : List Frame) {s : St} (v : Ret) (h : DBal K B s) : DG K B k (c.popRet k s v) :=
  ⟨h, [], rfl, rfl⟩
theorem DG.raise (c : Cfg) (k : List Frame) {s : St} (ex : Exn) (h : DBal K B s) : DG K B k (c.raise k s ex) :=
  ⟨h, [], rfl, rfl⟩
theorem DG.goto (c : Cfg) (k : List Frame) {s : St} (fs : List Frame) (h : DBal K B s) (hfs : d8plainAll fs = true) :
    DG K B k (c.goto k s fs) := ⟨h, fs, rfl, hfs⟩

macro_rules | `(tactic| d8t1) => `(tactic| with_reducible refine DG.pop _ _ ?_)
macro_rules | `(tactic| d8t1) => `(tactic| with_reducible refine DG.popRet _ _ _ ?_)
macro_rules | `(tactic| d8t1) => `(tactic| with_reducible refine DG.raise _ _ _ ?_)
macro_rules | `(tactic| d8t1) => `(tactic| ((with_reducible refine DG.goto _ _ _ ?_ ?_); rotate_left; rfl))

/-! ## the arms of `step` -/

theorem Cfg.effectDone_d (c : Cfg) (k : List Frame) (r e : Nat) (announce : Bool) (h : DBal K B c.st) :
    DG K B k (c.effectDone k r e announce) := by
  unfold Cfg.effectDone; (try dsimp only); d8t
macro_rules | `(tactic| d8t1) => `(tactic| with_reducible apply Cfg.effectDone_d)

theorem Cfg.eventDone_d (c : Cfg) (k : List Frame) (r e : Nat) (err : Bool) (h : DBal K B c.st) :
    DG K B k (c.eventDone k r e err) := by
  unfold Cfg.eventDone; (try dsimp only); d8t
macro_rules | `(tactic| d8t1) => `(tactic| with_reducible apply Cfg.eventDone_d)

theorem Cfg.registerFin_d (c : Cfg) (k : List Frame) (x : Nat) (h : DBal K B c.st) :
    DG K B k (c.registerFin k x) := by
  unfold Cfg.registerFin; (try dsimp only); d8t
macro_rules | `(tactic| d8t1) => `(tactic| with_reducible apply Cfg.registerFin_d)

theorem Cfg.prepUnregFin_d (c : Cfg) (k : List Frame) (x : Nat) (h : DBal K B c.st) :
    DG K B k (c.prepUnregFin k x) := by
  unfold Cfg.prepUnregFin; (try dsimp only); d8t
macro_rules | `(tactic| d8t1) => `(tactic| with_reducible apply Cfg.prepUnregFin_d)

theorem Cfg.stopMgr_d (c : Cfg) (k : List Frame) (x : Nat) (code : Code) (h : DBal K B c.st) :
    DG K B k (c.stopMgr k x code) := by
  unfold Cfg.stopMgr; (try dsimp only); d8t
macro_rules | `(tactic| d8t1) => `(tactic| with_reducible apply Cfg.stopMgr_d)

theorem Cfg.ticks_d (c : Cfg) (k : List Frame) (x n : Nat) (h : DBal K B c.st) :
    DG K B k (c.ticks k x n) := by
  unfold Cfg.ticks; (try dsimp only); d8t
macro_rules | `(tactic| d8t1) => `(tactic| with_reducible apply Cfg.ticks_d)

theorem Cfg.stopFin_d (c : Cfg) (k : List Frame) (code : Code) (h : DBal K B c.st) :
    DG K B k (c.stopFin k code) := by
  unfold Cfg.stopFin; (try dsimp only); d8t
macro_rules | `(tactic| d8t1) => `(tactic| with_reducible apply Cfg.stopFin_d)

theorem Cfg.timerNew_d (c : Cfg) (k : List Frame) (i : Nat) (h : DBal K B c.st) :
    DG K B k (c.timerNew k i) := by
  unfold Cfg.timerNew; (try dsimp only); d8t
macro_rules | `(tactic| d8t1) => `(tactic| with_reducible apply Cfg.timerNew_d)

theorem Cfg.doFin_d (c : Cfg) (k : List Frame) (x : Nat) (h : DBal K B c.st) :
    DG K B k (c.doFin k x) := by
  unfold Cfg.doFin; (try dsimp only); d8t
macro_rules | `(tactic| d8t1) => `(tactic| with_reducible apply Cfg.doFin_d)

theorem Cfg.drainQ_d (c : Cfg) (k : List Frame) (x : Nat) (h : DBal K B c.st) :
    DG K B k (c.drainQ k x) := by
  unfold Cfg.drainQ; (try dsimp only); d8t
macro_rules | `(tactic| d8t1) => `(tactic| with_reducible apply Cfg.drainQ_d)

theorem Cfg.processTask_d (c : Cfg) (k : List Frame) (r : Nat) (x : Task) (h : DBal K B c.st) :
    DG K B k (c.processTask k r x) := by
  unfold Cfg.processTask; (try dsimp only); d8t
macro_rules | `(tactic| d8t1) => `(tactic| with_reducible apply Cfg.processTask_d)

theorem Cfg.contStop_d (c : Cfg) (k : List Frame) (s : St) (r : Nat) (x : Task) (hle : DBal K B s) :
    DG K B k (c.contStop k s r x) := by
  unfold Cfg.contStop; (try dsimp only); d8t
macro_rules | `(tactic| d8t1) => `(tactic| with_reducible apply Cfg.contStop_d)

theorem Cfg.contError_d (c : Cfg) (k : List Frame) (s : St) (r : Nat) (x : Task) (resumed : Bool) (hle : DBal K B s) :
    DG K B k (c.contError k s r x resumed) := by
  unfold Cfg.contError; (try dsimp only); d8t
macro_rules | `(tactic| d8t1) => `(tactic| with_reducible apply Cfg.contError_d)

theorem Cfg.ptBodyWait_d (c : Cfg) (k : List Frame) (r : Nat) (x : Task) (w : Nat) (h : DBal K B c.st) :
    DG K B k (c.ptBodyWait k r x w) := by
  unfold Cfg.ptBodyWait; (try dsimp only); d8t
macro_rules | `(tactic| d8t1) => `(tactic| with_reducible apply Cfg.ptBodyWait_d)

theorem Cfg.ptBodyExc_d (c : Cfg) (k : List Frame) (r : Nat) (x : Task) (w : Nat) (fired : Bool) (h : DBal K B c.st) :
    DG K B k (c.ptBodyExc k r x w fired) := by
  unfold Cfg.ptBodyExc; (try dsimp only); d8t
macro_rules | `(tactic| d8t1) => `(tactic| with_reducible apply Cfg.ptBodyExc_d)

theorem Cfg.ptBody_d (c : Cfg) (k : List Frame) (r : Nat) (x : Task) (h : DBal K B c.st) :
    DG K B k (c.ptBody k r x) := by
  unfold Cfg.ptBody; (try dsimp only); d8t
macro_rules | `(tactic| d8t1) => `(tactic| with_reducible apply Cfg.ptBody_d)

theorem Cfg.ptOwn_d (c : Cfg) (k : List Frame) (r : Nat) (x : Task) (h : DBal K B c.st) :
    DG K B k (c.ptOwn k r x) := by
  unfold Cfg.ptOwn; (try dsimp only); d8t
macro_rules | `(tactic| d8t1) => `(tactic| with_reducible apply Cfg.ptOwn_d)

theorem Cfg.ptParent_d (c : Cfg) (k : List Frame) (r : Nat) (x : Task) (p : Nat) (viaThrow : Bool) (h : DBal K B c.st) :
    DG K B k (c.ptParent k r x p viaThrow) := by
  unfold Cfg.ptParent; (try dsimp only); d8t
macro_rules | `(tactic| d8t1) => `(tactic| with_reducible apply Cfg.ptParent_d)

theorem Cfg.ptFin_d (c : Cfg) (k : List Frame) (r : Nat) (handling : Option Nat) (h : DBal K B c.st) :
    DG K B k (c.ptFin k r handling) := by
  unfold Cfg.ptFin; (try dsimp only); d8t
macro_rules | `(tactic| d8t1) => `(tactic| with_reducible apply Cfg.ptFin_d)

theorem Cfg.hLoop_d (c : Cfg) (k : List Frame) (r e : Nat) (hs : List Nat) (err : Bool) (stale : Outcome) (h : DBal K B c.st) :
    DG K B k (c.hLoop k r e hs err stale) := by
  unfold Cfg.hLoop; (try dsimp only); d8t
macro_rules | `(tactic| d8t1) => `(tactic| with_reducible apply Cfg.hLoop_d)

theorem Cfg.invokeUser_d (c : Cfg) (k : List Frame) (s : St) (h e owner p : Nat) (hle : DBal K B s) :
    DG K B k (c.invokeUser k s h e owner p) := by
  unfold Cfg.invokeUser; (try dsimp only); d8t
macro_rules | `(tactic| d8t1) => `(tactic| with_reducible apply Cfg.invokeUser_d)

theorem Cfg.invokeFin_d (c : Cfg) (k : List Frame) (e h : Nat) (hb : DBal K B c.st) :
    DG K B k (c.invokeFin k e h) := by
  unfold Cfg.invokeFin; (try dsimp only); d8t
macro_rules | `(tactic| d8t1) => `(tactic| with_reducible apply Cfg.invokeFin_d)

theorem Cfg.hAfter_d (c : Cfg) (k : List Frame) (r e : Nat) (rest : List Nat) (err : Bool) (stale : Outcome) (h : DBal K B c.st) :
    DG K B k (c.hAfter k r e rest err stale) := by
  unfold Cfg.hAfter; (try dsimp only); d8t
macro_rules | `(tactic| d8t1) => `(tactic| with_reducible apply Cfg.hAfter_d)

theorem Cfg.hApply_d (c : Cfg) (k : List Frame) (r e : Nat) (rest : List Nat) (err : Bool) (value : Outcome) (h : DBal K B c.st) :
    DG K B k (c.hApply k r e rest err value) := by
  unfold Cfg.hApply; (try dsimp only); d8t
macro_rules | `(tactic| d8t1) => `(tactic| with_reducible apply Cfg.hApply_d)

theorem Cfg.dispFin_d (c : Cfg) (k : List Frame) (r e : Nat) (err : Bool) (h : DBal K B c.st) :
    DG K B k (c.dispFin k r e err) := by
  unfold Cfg.dispFin; (try dsimp only); d8t
macro_rules | `(tactic| d8t1) => `(tactic| with_reducible apply Cfg.dispFin_d)

theorem Cfg.flushFin_d (c : Cfg) (k : List Frame) (r : Nat) (old : Bool) (h : DBal K B c.st) :
    DG K B k (c.flushFin k r old) := by
  unfold Cfg.flushFin; (try dsimp only); d8t
macro_rules | `(tactic| d8t1) => `(tactic| with_reducible apply Cfg.flushFin_d)

theorem Cfg.tick_d (c : Cfg) (k : List Frame) (x : Nat) (h : DBal K B c.st) :
    DG K B k (c.tick k x) := by
  unfold Cfg.tick; (try dsimp only); d8t
macro_rules | `(tactic| d8t1) => `(tactic| with_reducible apply Cfg.tick_d)

theorem Cfg.taskLoop_d (c : Cfg) (k : List Frame) (x : Nat) (ts : List Task) (h : DBal K B c.st) :
    DG K B k (c.taskLoop k x ts) := by
  unfold Cfg.taskLoop; (try dsimp only); d8t
macro_rules | `(tactic| d8t1) => `(tactic| with_reducible apply Cfg.taskLoop_d)

theorem Cfg.tickFin_d (c : Cfg) (k : List Frame) (x : Nat) (old : Bool) (h : DBal K B c.st) :
    DG K B k (c.tickFin k x old) := by
  unfold Cfg.tickFin; (try dsimp only); d8t
macro_rules | `(tactic| d8t1) => `(tactic| with_reducible apply Cfg.tickFin_d)

theorem Cfg.tickGen_d (c : Cfg) (k : List Frame) (x : Nat) (h : DBal K B c.st) :
    DG K B k (c.tickGen k x) := by
  unfold Cfg.tickGen; (try dsimp only); d8t
macro_rules | `(tactic| d8t1) => `(tactic| with_reducible apply Cfg.tickGen_d)

theorem Cfg.run_d (c : Cfg) (k : List Frame) (x : Nat) (h : DBal K B c.st) :
    DG K B k (c.run k x) := by
  unfold Cfg.run; (try dsimp only); d8t
macro_rules | `(tactic| d8t1) => `(tactic| with_reducible apply Cfg.run_d)

theorem Cfg.runLoop_d (c : Cfg) (k : List Frame) (x : Nat) (h : DBal K B c.st) :
    DG K B k (c.runLoop k x) := by
  unfold Cfg.runLoop; (try dsimp only); d8t
macro_rules | `(tactic| d8t1) => `(tactic| with_reducible apply Cfg.runLoop_d)

theorem Cfg.runFin_d (c : Cfg) (k : List Frame) (x : Nat) (h : DBal K B c.st) :
    DG K B k (c.runFin k x) := by
  unfold Cfg.runFin; (try dsimp only); d8t
macro_rules | `(tactic| d8t1) => `(tactic| with_reducible apply Cfg.runFin_d)

theorem Cfg.runRethrow_d (c : Cfg) (k : List Frame) (ex : Exn) (h : DBal K B c.st) :
    DG K B k (c.runRethrow k ex) := by
  unfold Cfg.runRethrow; (try dsimp only); d8t
macro_rules | `(tactic| d8t1) => `(tactic| with_reducible apply Cfg.runRethrow_d)


/-! ### arms with a manual proof -/

theorem d8_registerPre_length (s : St) (x p : Nat) : (s.registerPre x p).2.comps.length = s.comps.length :=
  (St.Le.registerPre (St.Le.refl s) x p).comps

theorem Cfg.register_d (c : Cfg) (k : List Frame) (x p : Nat) (h : DBal K B c.st) :
    DG K B k (c.register k x p) := by
  unfold Cfg.register
  dsimp only
  have hu : DBal K B (St.updateRootAll (c.st.comps.length + 1) [x] (c.st.comp p).root (c.st.registerPre x p).2) := by
    apply DBal.updateRootAll
    · exact h.registerPre x p
    · rw [d8_registerPre_length]; exact h.roots p
  split
  · d8t
  · split
    · split
      · exact DG.goto _ _ _ hu rfl
      · exact DG.pop _ _ hu
    · d8t
macro_rules | `(tactic| d8t1) => `(tactic| with_reducible apply Cfg.register_d)

theorem Cfg.flush_d (c : Cfg) (k : List Frame) (x : Nat) (h : DBal K B c.st) :
    DG K B k (c.flush k x) := by
  unfold Cfg.flush; (try dsimp only); d8t
macro_rules | `(tactic| d8t1) => `(tactic| with_reducible apply Cfg.flush_d)

/-- the `_dispatcher` entry step logs the `D` of the event that was in flight -/
theorem Cfg.dispatcher_d (c : Cfg) (k : List Frame) (r e remaining : Nat)
    (h : DBal K (B + (if K e then 1 else 0)) c.st) :
    DG K B k (c.dispatcher k r e remaining) := by
  have h1 := DBal.dispatchPre r e remaining h
  unfold Cfg.dispatcher
  split
  · exact DG.goto _ _ _ h1 rfl
  · exact DG.goto _ _ _ h1 rfl

theorem d8_prepUnreg_length (s : St) (x : Nat) : (s.prepUnregPre x).comps.length = s.comps.length :=
  (St.Le.prepUnregPre (St.Le.refl s) x).comps

theorem Cfg.invoke_d (c : Cfg) (k : List Frame) (r h e : Nat) (hb : DBal K B c.st) :
    DG K B k (c.invoke k r h e) := by
  unfold Cfg.invoke
  dsimp only
  have hs : DBal K B (if ((c.st.handler h).kind.code != 0) = true
      then c.st.logE (.hinv e (c.st.handler h).kind.code (hkey c.st (c.st.handler h))) else c.st) := by d8t
  generalize (if ((c.st.handler h).kind.code != 0) = true
      then c.st.logE (.hinv e (c.st.handler h).kind.code (hkey c.st (c.st.handler h))) else c.st) = s at hs
  split
  · d8t
  · refine DG.goto _ _ _ ?_ rfl
    by_cases ho : (c.st.handler h).owner < s.comps.length
    · apply DBal.updateRootAll
      · d8t
      · rw [d8_prepUnreg_length]; exact ho
    · rw [d8_updateRootAll_oor _ _ _ _ (by rw [d8_prepUnreg_length]; exact ho)]
      d8t
  all_goals d8t
macro_rules | `(tactic| d8t1) => `(tactic| with_reducible apply Cfg.invoke_d)

theorem d8_actStep_call (s : St) (ctx : HCtx) (a : Act) (f : Frame) (h : (actStep s ctx a).kind = .call f) :
    f.d8plain = true := by
  cases a <;> simp [actStep] at h
  all_goals first | (subst h; rfl) | (split at h <;> cases h)

theorem Cfg.acts_d (c : Cfg) (k : List Frame) (ctx : HCtx) (prog : Prog) (h : DBal K B c.st) :
    DG K B k (c.acts k ctx prog) := by
  unfold Cfg.acts
  split
  · d8t
  · rename_i a rest
    have hA : DBal K B (actStep c.st ctx a).st := by d8t
    split
    · exact DG.goto _ _ _ hA rfl
    · exact DG.popRet _ _ _ hA
    · rename_i f hf
      refine DG.goto _ _ _ hA ?_
      have := d8_actStep_call _ _ _ _ hf
      simp only [d8plainAll, List.all_cons, List.all_nil, this]
      rfl
macro_rules | `(tactic| d8t1) => `(tactic| with_reducible apply Cfg.acts_d)

theorem Cfg.stepGen_d (c : Cfg) (k : List Frame) (g : Nat) (h : DBal K B c.st) :
    DG K B k (c.stepGen k g) := by
  unfold Cfg.stepGen
  dsimp only
  split
  · split
    · d8t
    · split
      · d8t
      · d8t
      · d8t
      · d8t
      · d8t
        rename_i f hf
        refine DG.goto _ _ _ ?_ ?_
        · d8t
        · have := d8_actStep_call _ _ _ _ hf
          simp only [d8plainAll, List.all_cons, List.all_nil, this]
          rfl
  · d8t
macro_rules | `(tactic| d8t1) => `(tactic| with_reducible apply Cfg.stepGen_d)

theorem Cfg.runCatchExn_d (c : Cfg) (k : List Frame) (x : Nat) (ex : Exn) (h : DBal K B c.st) :
    DG K B k (c.runCatchExn k x ex) := by
  unfold Cfg.runCatchExn
  split
  · exact ⟨h, [.tick x, .drainQ x, .runRethrow _], rfl, rfl⟩
  · d8t
macro_rules | `(tactic| d8t1) => `(tactic| with_reducible apply Cfg.runCatchExn_d)

/-! ## the transition function -/

theorem unwind_d (c : Cfg) (k : List Frame) (ex : Exn) (f : Frame) (h : DBal K B c.st) :
    DG K B k (unwind c k ex f) := by
  cases f <;> (dsimp only [unwind]; d8t)

/-- the three frames that are not covered by `stepFrame_d` -/
def Frame.d8special : Frame → Bool
  | .dispatcher _ _ _ => true
  | .dispatchLoop _ => true
  | .updateRoot _ _ => true
  | _ => false

theorem stepFrame_d (c : Cfg) (k : List Frame) (f : Frame) (hf : f.d8special = false) (h : DBal K B c.st) :
    DG K B k (stepFrame c k f) := by
  cases f
  all_goals first
    | (simp [Frame.d8special] at hf; done)
    | (dsimp only [stepFrame]; d8t)

/-! ## the invariant of configurations -/

/-- events in flight: 1 iff the top frame is the `_dispatcher` call of a popped event of class `K`
    that has not yet logged its `D` -/
def d8pend (K : Nat → Bool) : List Frame → Nat
  | .dispatcher _ e _ :: _ => if K e then 1 else 0
  | _ => 0

structure DInv (K : Nat → Bool) (c : Cfg) : Prop where
  bal : DBal K (d8pend K c.stack) c.st
  tail : d8plainAll c.stack.tail = true
  head : ∀ f k, c.stack = f :: k → f.d8plain = false → c.exn = none ∧ ∃ r e rem, f = .dispatcher r e rem

theorem d8pend_plain (K : Nat → Bool) (l : List Frame) (h : d8plainAll l = true) : d8pend K l = 0 := by
  cases l with
  | nil => rfl
  | cons f k =>
    cases f <;> first | rfl | (simp [d8plainAll, Frame.d8plain] at h)

theorem d8plainAll_append {a b : List Frame} (ha : d8plainAll a = true) (hb : d8plainAll b = true) :
    d8plainAll (a ++ b) = true := by
  simp only [d8plainAll, List.all_append, Bool.and_eq_true] at *
  exact ⟨ha, hb⟩

theorem d8plainAll_tail {a : List Frame} (ha : d8plainAll a = true) : d8plainAll a.tail = true := by
  cases a with
  | nil => rfl
  | cons f k => simp only [d8plainAll, List.all_cons, Bool.and_eq_true, List.tail_cons] at *; exact ha.2

theorem DInv.ofPlain {c' : Cfg} (h : DBal K 0 c'.st) (hp : d8plainAll c'.stack = true) : DInv K c' := by
  refine ⟨?_, d8plainAll_tail hp, ?_⟩
  · rw [d8pend_plain K _ hp]; exact h
  · intro f k hs hf
    rw [hs] at hp
    simp only [d8plainAll, List.all_cons, Bool.and_eq_true] at hp
    rw [hp.1] at hf; cases hf

theorem DInv.ofDG {c' : Cfg} {k : List Frame} (h : DG K 0 k c') (hk : d8plainAll k = true) : DInv K c' := by
  obtain ⟨fs, h1, h2⟩ := h.push
  exact DInv.ofPlain h.st (by rw [h1]; exact d8plainAll_append h2 hk)

theorem d8_countP_erase (p : QItem → Bool) (it : QItem) : ∀ l : List QItem, it ∈ l →
    (l.erase it).countP p + (if p it then 1 else 0) = l.countP p := by
  intro l
  induction l with
  | nil => intro h; cases h
  | cons a l ih =>
    intro h
    by_cases ha : a = it
    · subst ha
      simp only [List.erase_cons_head, List.countP_cons]
    · have hm : it ∈ l := by
        rcases List.mem_cons.mp h with h | h
        · exact absurd h.symm ha
        · exact h
      have := ih hm
      rw [List.erase_cons_tail (by simpa using ha)]
      simp only [List.countP_cons]
      omega

/-- the pop of `dispatchEvents`: one item leaves the heap and is in flight -/
theorem DBal.popped {t : St} (h : DBal K 0 t) (r : Nat) (it : QItem) (q' : EQ)
    (hit : it ∈ (t.comp r).eq.heap) (hh : q'.heap = (t.comp r).eq.heap.erase it)
    (hq : q'.queue = (t.comp r).eq.queue) :
    DBal K (if K it.ev then 1 else 0) (t.modComp r fun x => { x with eq := q' }) := by
  have hr : r < t.comps.length := by
    apply Classical.byContradiction
    intro hr
    rw [St.q2_comp_oor t r hr] at hit
    cases hit
  refine ⟨d8_roots_modComp _ _ _ h.roots (fun _ => rfl), ?_⟩
  have h1 := d8_queued_modComp K t r (fun x => { x with eq := q' }) hr
  have h2 := d8_countP_erase (fun i => K i.ev) it _ hit
  have hb := h.bal
  show firedCnt K t.log = dispCnt K t.log + queuedCnt K _ + _
  simp only [EQ.cntK, EQ.dequeCnt, EQ.heapCnt, hh, hq] at h1
  omega

/-- **one step preserves the conservation invariant** -/
theorem d8_step {c : Cfg} (h : DInv K c) : DInv K (step c) := by
  cases hs : c.stack with
  | nil => rw [step_nil c hs]; exact h
  | cons f k =>
    have hk : d8plainAll k = true := by have := h.tail; rw [hs] at this; exact this
    cases hx : c.exn with
    | some ex =>
      have hf : f.d8plain = true := by
        cases hp : f.d8plain with
        | true => rfl
        | false => have := (h.head f k hs hp).1; rw [hx] at this; cases this
      have hb : DBal K 0 c.st := by
        have := h.bal
        rw [hs, d8pend_plain K (f :: k) (by simp only [d8plainAll, List.all_cons, hf, Bool.true_and]; exact hk)] at this
        exact this
      rw [step_cons_exn c f k ex hs hx]
      exact DInv.ofDG (unwind_d c k ex f hb) hk
    | none =>
      rw [step_cons c f k hs hx]
      by_cases hsp : f.d8special = false
      · have hf : f.d8plain = true := by
          cases f <;> first | rfl | (simp [Frame.d8special] at hsp)
        have hb : DBal K 0 c.st := by
          have := h.bal
          rw [hs, d8pend_plain K (f :: k) (by simp only [d8plainAll, List.all_cons, hf, Bool.true_and]; exact hk)] at this
          exact this
        exact DInv.ofDG (stepFrame_d c k f hsp hb) hk
      · cases f <;> first | (exact absurd rfl hsp) | skip
        case updateRoot todo root =>
          obtain ⟨_, r, e, rem, he⟩ := h.head _ k hs rfl
          cases he
        case dispatcher r e rem =>
          have hb : DBal K (0 + (if K e then 1 else 0)) c.st := by
            have := h.bal
            rw [hs] at this
            simpa [d8pend] using this
          exact DInv.ofDG (Cfg.dispatcher_d c k r e rem hb) hk
        case dispatchLoop r =>
          have hb : DBal K 0 c.st := by
            have := h.bal
            rw [hs] at this
            exact this
          have hstep := step_cons c _ k hs hx
          rw [← hstep]
          rcases q2_dispatch_pops_min c r k hs hx with ⟨_, h2⟩ | ⟨it, q', _, _, hit, hh, _, hq, _, hst, hex, hstt, _⟩
          · rw [h2]
            exact DInv.ofPlain hb hk
          · refine ⟨?_, ?_, ?_⟩
            · rw [hst, hstt]
              exact hb.popped r it q' hit hh hq
            · rw [hst]
              simp only [List.tail_cons, d8plainAll, List.all_cons, Frame.d8plain, Bool.true_and]
              exact hk
            · intro f' k' hs' _
              rw [hst] at hs'
              injection hs' with h1 _
              exact ⟨hex, r, it.ev, q'.batch, h1.symm⟩

theorem d8_startOf (s : St) (op : ExtOp) (h : DBal K 0 s) : DInv K (startOf s op) := by
  cases op <;> exact DInv.ofPlain h rfl

theorem DBal.envChange {s : St} (h : DBal K B s) (d : Nat) (tape : List Entry) : DBal K B (envChange s d tape) :=
  h.of_eq rfl rfl

/-- **conservation over `Reach`** -/
theorem d8_reach {s0 : St} (h0 : DBal K 0 s0) : ∀ c, Reach s0 c → DInv K c := by
  apply Reach.inv
  · intro d tape op; exact d8_startOf _ op (h0.envChange d tape)
  · intro c h; exact d8_step h
  · intro c d tape op h hd
    have hs : c.stack = [] := by
      unfold done at hd
      cases hc : c.stack with
      | nil => rfl
      | cons f k => rw [hc] at hd; simp at hd
    have hb : DBal K 0 c.st := by have := h.bal; rw [hs] at this; exact this
    exact d8_startOf _ op (hb.envChange d tape)

end CV.Core

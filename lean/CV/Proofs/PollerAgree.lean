import CV.Proofs.PollerMain
/-
C10, interchangeability: two pollers driven by the same history fire the same events for every
open descriptor that is not hung up, in every round that is not blind, as long as neither has
had to disconnect anything (from then on their abstract registrations legitimately differ).
Derived from the observer's predicate alone: sound + complete pins the event set down.
-/
namespace CV
namespace Poller

/-- what two pollers must have in common in one round -/
def agreeObs (σ : Spec) (op : Op) (o1 o2 : Out) : Prop :=
  match op with
  | .poll fs rd =>
    σ.valid op = true → σ.blind = false →
      ∀ f ∈ fs, ∀ o, σ.w.owner f = some o → (rd f).hup = false → (rd f).err = false →
        ∀ k c, ((⟨k, o, c⟩ : Event) ∈ eventsOf o1 ↔ (⟨k, o, c⟩ : Event) ∈ eventsOf o2)
  | _ => True

def agreeFrom (σ : Spec) : List (Op × Out) → List (Op × Out) → Prop
  | (op, o1) :: t1, (_, o2) :: t2 =>
    agreeObs σ op o1 o2 ∧
    (disconnected (eventsOf o1) = [] → disconnected (eventsOf o2) = [] → agreeFrom (σ.advance op o1) t1 t2)
  | _, _ => True

theorem evFail_facts {σ : Spec} {rd : Nat → Bits} {k : EvKind} {o : Obj} {c : Option Chan} {f : Nat}
    (h : evFail σ rd ⟨k, o, c⟩ = none) (hf : σ.w.fno o = some f) :
    c = σ.tgt o ∧
    (k = .read → σ.regR o ≠ 0 ∧ selReadable (rd f) = true) ∧
    (k = .write → σ.regW o ≠ 0 ∧ selWritable (rd f) = true) ∧
    (k = .disconnect → ((rd f).hup || (rd f).err) = true) := by
  unfold evFail at h
  simp only [] at h
  split at h
  · cases h
  · split at h
    · cases h
    · next hc =>
      simp only [not_or, ne_eq, Decidable.not_not] at hc
      refine ⟨hc.1, ?_, ?_, ?_⟩
      · intro hk; subst hk
        simp only [hf] at h
        split at h
        · cases h
        · next h1 => split at h
                     · next h2 => exact ⟨h1, h2⟩
                     · cases h
      · intro hk; subst hk
        simp only [hf] at h
        split at h
        · cases h
        · next h1 => split at h
                     · next h2 => exact ⟨h1, h2⟩
                     · cases h
      · intro hk; subst hk
        simp only [hf] at h
        split at h
        · cases h
        · next h1 =>
          cases a : (rd f).hup <;> cases b : (rd f).err <;> simp [a, b] at h1 ⊢

theorem complFail_facts {σ : Spec} {rd : Nat → Bits} {es : List Event} {f : Nat} {o : Obj}
    (h : complFail σ rd es f = none) (ho : σ.w.owner f = some o) :
    (0 < σ.regR o → (rd f).inn = true → has .read o es = true) ∧
    (0 < σ.regW o → (rd f).out = true → (rd f).hup = false → (rd f).err = false → has .write o es = true) := by
  unfold complFail at h
  simp only [ho] at h
  split at h
  · cases h
  · next h1 =>
    split at h
    · cases h
    · split at h
      · cases h
      · next h3 =>
        constructor
        · intro a b
          apply Classical.byContradiction; intro hn
          exact h1 ⟨a, b, by simpa using hn⟩
        · intro a b c d
          apply Classical.byContradiction; intro hn
          exact h3 ⟨a, b, by simp [c], by simp [d], by simpa using hn⟩

theorem advance_congr (σ : Spec) (op : Op) (o1 o2 : Out)
    (h : disconnected (eventsOf o1) = disconnected (eventsOf o2)) : σ.advance op o1 = σ.advance op o2 := by
  unfold Spec.advance
  cases op <;> simp only [h]

/-- one direction of the agreement, from "sound for 1" and "complete for 2" -/
theorem agree_dir {σ : Spec} (W : WInv σ.w) {fs : List Nat} {rd : Nat → Bits} {es1 es2 : List Event}
    (h1 : roundFail σ fs rd es1 = none) (h2 : roundFail σ fs rd es2 = none) (nb : σ.blind = false)
    {f : Nat} (hf : f ∈ fs) {o : Obj} (ho : σ.w.owner f = some o) (hh : (rd f).hup = false) (he : (rd f).err = false)
    {k : EvKind} {c : Option Chan} (hm : (⟨k, o, c⟩ : Event) ∈ es1) : (⟨k, o, c⟩ : Event) ∈ es2 := by
  have fo : σ.w.fno o = some f := W.of _ _ ho
  obtain ⟨s1, _⟩ := roundFail_none.mp h1
  obtain ⟨s2, c2⟩ := roundFail_none.mp h2
  have c2 : ∀ f ∈ fs, complFail σ rd es2 f = none := by
    rcases c2 with c2 | c2
    · rw [nb] at c2; cases c2
    · exact c2
  obtain ⟨hc, hr, hw, hd⟩ := evFail_facts (s1 _ hm) fo
  obtain ⟨cr, cw⟩ := complFail_facts (c2 f hf) ho
  cases k with
  | read =>
    obtain ⟨a, b⟩ := hr rfl
    have inn : (rd f).inn = true := by simpa [selReadable, hh, he] using b
    obtain ⟨c', hc'⟩ := has_iff.mp (cr (by omega) inn)
    have := (evFail_facts (s2 _ hc') fo).1
    rw [hc, ← this]; exact hc'
  | write =>
    obtain ⟨a, b⟩ := hw rfl
    have out : (rd f).out = true := by simpa [selWritable, he] using b
    obtain ⟨c', hc'⟩ := has_iff.mp (cw (by omega) out hh he)
    have := (evFail_facts (s2 _ hc') fo).1
    rw [hc, ← this]; exact hc'
  | disconnect =>
    have := hd rfl
    simp [hh, he] at this

theorem agree_runFrom {s1 s2 : State} {σ : Spec} (ops : List Op)
    (r1 : Rel s1 σ) (r2 : Rel s2 σ) (p1 : PInv s1) (p2 : PInv s2) :
    agreeFrom σ (runFrom s1 ops).2 (runFrom s2 ops).2 := by
  induction ops generalizing s1 s2 σ with
  | nil => simp [runFrom, agreeFrom]
  | cons op ops ih =>
    obtain ⟨a1, b1⟩ := step_sim op r1 p1
    obtain ⟨a2, b2⟩ := step_sim op r2 p2
    simp only [runFrom, agreeFrom]
    constructor
    · cases op with
      | poll fs rd =>
        intro hv nb f hf o ho hh he k c
        simp only [obsOk, hv, if_true, roundOk, Option.isNone_iff_eq_none] at a1 a2
        have W : WInv σ.w := by rw [← r1.w]; exact p1.W
        exact ⟨agree_dir W a1 a2 nb hf ho hh he, agree_dir W a2 a1 nb hf ho hh he⟩
      | _ => trivial
    · intro d1 d2
      rw [advance_congr σ op _ _ (d2.trans d1.symm)] at b2
      exact ih b1 b2 (pinv_step op p1) (pinv_step op p2)

end Poller
end CV

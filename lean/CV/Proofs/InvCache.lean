import CV.Proofs.InvCacheBase
/-
C01, cache layer - the step proof.

`J E t` (forest fact + cache invariant with exemptions `E`) is carried in continuation form
through every pure helper (`J E t → J E (helper t)`) by the committed-choice tactic `ccl`
(pattern of CV/Proofs/CoreStep.lean), then through every arm of `step`.
-/
namespace CV.Core.Live

variable {E : Nat → Prop} {t : St}

/-! ## primitives -/

theorem J.modEv (h : J E t) (e : Nat) (f : Ev → Ev) : J E (t.modEv e f) := h.of_same (Same.of_eq rfl rfl)
theorem J.modWait (h : J E t) (w : Nat) (f : WaitSt → WaitSt) : J E (t.modWait w f) := h.of_same (Same.of_eq rfl rfl)
theorem J.modTimer (h : J E t) (i : Nat) (f : TimerSt → TimerSt) : J E (t.modTimer i f) := h.of_same (Same.of_eq rfl rfl)
theorem J.setGen (h : J E t) (g : Nat) (x : GenRec) : J E (t.setGen g x) := h.of_same (Same.of_eq rfl rfl)
theorem J.logE (h : J E t) (x : Entry) : J E (t.logE x) := h.of_same (Same.of_eq rfl rfl)
theorem J.addEv (h : J E t) (e : Ev) : J E (t.addEv e) := h.of_same (Same.of_eq rfl rfl)
theorem J.addGen (h : J E t) (g : GenRec) : J E (t.addGen g) := h.of_same (Same.of_eq rfl rfl)
theorem J.addWait (h : J E t) (w : WaitSt) : J E (t.addWait w) := h.of_same (Same.of_eq rfl rfl)
theorem J.tick1 (h : J E t) (d : Int) : J E (t.tick1 d) := h.of_same (Same.of_eq rfl rfl)
theorem J.addH (h : J E t) (x : Handler) : J E (t.addH x) := h.of_same (Same.addH t x)

/-- setting only the flag -/
theorem J.flagOnly (h : J E t) (r : Nat) (f : Comp → Comp) (hf : Flag f) : J E (t.modComp r f) :=
  h.flag r f hf (fun _ hy => Or.inl hy)

/-! ## the tactic -/

/-- the seven fields of `Neutral` / `Flag`, each by `rfl` -/
macro "keep7" : tactic =>
  `(tactic| (refine ⟨?_, ?_, ?_, ?_, ?_, ?_, ?_⟩ <;> intro _ <;> rfl))

/-- one step of `ccl`; extended by `macro_rules` (later rules are tried first) -/
syntax "ccl1" : tactic
macro_rules | `(tactic| ccl1) => `(tactic| split)
macro_rules | `(tactic| ccl1) => `(tactic| with_reducible apply J.tick1)
macro_rules | `(tactic| ccl1) => `(tactic| with_reducible apply J.addWait)
macro_rules | `(tactic| ccl1) => `(tactic| with_reducible apply J.addGen)
macro_rules | `(tactic| ccl1) => `(tactic| with_reducible apply J.addH)
macro_rules | `(tactic| ccl1) => `(tactic| with_reducible apply J.addEv)
macro_rules | `(tactic| ccl1) => `(tactic| with_reducible apply J.logE)
macro_rules | `(tactic| ccl1) => `(tactic| with_reducible apply J.setGen)
macro_rules | `(tactic| ccl1) => `(tactic| with_reducible apply J.modTimer)
macro_rules | `(tactic| ccl1) => `(tactic| with_reducible apply J.modWait)
macro_rules | `(tactic| ccl1) => `(tactic| with_reducible apply J.modEv)
macro_rules | `(tactic| ccl1) => `(tactic| ((with_reducible refine J.flagOnly ?_ _ _ ?_); rotate_left; keep7))
macro_rules | `(tactic| ccl1) => `(tactic| ((with_reducible refine J.modComp ?_ _ _ ?_); rotate_left; keep7))
macro_rules | `(tactic| ccl1) => `(tactic| with_reducible assumption)

/-- apply `ccl1` as long as it applies (committed choice: no backtracking) -/
macro "ccl" : tactic => `(tactic| repeat' ccl1)

macro "ccl_unfold" ids:ident+ : tactic => `(tactic| (unfold $[$ids]*; (try dsimp only); ccl))

/-! ## helpers of `Pure.lean` -/

macro_rules | `(tactic| ccl1) => `(tactic| with_reducible apply J.removeHandler)

theorem J.fireContext (h : J E t) (r e : Nat) : J E (t.fireContext r e) := by
  ccl_unfold St.fireContext
macro_rules | `(tactic| ccl1) => `(tactic| with_reducible apply J.fireContext)

theorem J.fireRaw (h : J E t) (self e : Nat) (chans : List Chan) (prio : Int) :
    J E (t.fireRaw self e chans prio) := by
  ccl_unfold St.fireRaw
macro_rules | `(tactic| ccl1) => `(tactic| with_reducible apply J.fireRaw)

theorem plain_addH_new (s : St) (x : Handler) (hx : x.kind.isFallback = false) : (s.addH x).plain s.hs.length := by
  have : (s.addH x).handler s.hs.length = x := by
    simp [St.addH, St.handler, List.getD_eq_getElem?_getD]
  unfold St.plain; rw [this]; exact hx

macro_rules
  | `(tactic| ccl1) =>
    `(tactic| ((with_reducible refine J.addHandler ?_ _ ?_); rotate_left; (first | (apply plain_addH_new; rfl) | assumption)))



theorem J.childEv (h : J E t) (p sfx : Nat) :
    J E (t.childEv p sfx) := by
  ccl_unfold St.childEv
macro_rules | `(tactic| ccl1) => `(tactic| with_reducible apply J.childEv)

theorem J.fireChild (h : J E t) (self p sfx : Nat) (chans : List Chan) :
    J E (t.fireChild self p sfx chans) := by
  ccl_unfold St.fireChild
macro_rules | `(tactic| ccl1) => `(tactic| with_reducible apply J.fireChild)

theorem J.inform (h : J E t) (e : Nat) (force : Bool) :
    J E (t.inform e force) := by
  ccl_unfold St.inform
macro_rules | `(tactic| ccl1) => `(tactic| with_reducible apply J.inform)

theorem J.setValue (h : J E t) (e : Nat) (x : VItem) :
    J E (t.setValue e x) := by
  ccl_unfold St.setValue
macro_rules | `(tactic| ccl1) => `(tactic| with_reducible apply J.setValue)

theorem J.fireTmplEv (h : J E t) (self : Nat) (ev : Ev) (target : Option Chan) (prio : Int) :
    J E (t.fireTmplEv self ev target prio) := by
  ccl_unfold St.fireTmplEv
macro_rules | `(tactic| ccl1) => `(tactic| with_reducible apply J.fireTmplEv)

theorem J.effectDone1 (h : J E t) (r e : Nat) (announce : Bool) :
    J E ((t.effectDone1 r e announce).2) := by
  ccl_unfold St.effectDone1
macro_rules | `(tactic| ccl1) => `(tactic| with_reducible apply J.effectDone1)

theorem J.eventDonePre (h : J E t) (r e : Nat) (err : Bool) :
    J E ((t.eventDonePre r e err).2) := by
  ccl_unfold St.eventDonePre
macro_rules | `(tactic| ccl1) => `(tactic| with_reducible apply J.eventDonePre)

theorem J.registerTask (h : J E t) (c : Nat) (x : Task) :
    J E (t.registerTask c x) := by
  ccl_unfold St.registerTask
macro_rules | `(tactic| ccl1) => `(tactic| with_reducible apply J.registerTask)

theorem J.unregisterTask (h : J E t) (c : Nat) (x : Task) :
    J E (t.unregisterTask c x) := by
  ccl_unfold St.unregisterTask
macro_rules | `(tactic| ccl1) => `(tactic| with_reducible apply J.unregisterTask)

theorem J.reduceTimeLeft (h : J E t) (e : Nat) (d : Int) :
    J E (t.reduceTimeLeft e d) := by
  ccl_unfold St.reduceTimeLeft
macro_rules | `(tactic| ccl1) => `(tactic| with_reducible apply J.reduceTimeLeft)

/-- `register(x, p)` up to `updateRoot`: `x` gets the root of `p`, `p` gets a child, the root is flagged -/
theorem K.registerPre {t : St} (hJ : J noE t) (x p : Nat) (hadm : t.admissible x p = true)
    (hS : (t.comp (t.comp p).root).root = (t.comp p).root) :
    K noE (t.registerPre x p).2 ∧
    ((t.registerPre x p).2.comp (t.comp p).root).root = (t.comp p).root := by
  unfold St.registerPre
  dsimp only
  unfold St.admissible at hadm
  simp only [Bool.and_eq_true, decide_eq_true_eq, beq_iff_eq, Bool.or_eq_true, bne_iff_ne, ne_eq,
    Bool.not_eq_true'] at hadm
  obtain ⟨⟨⟨hxl, _⟩, _⟩, hcase⟩ := hadm
  generalize hr : (t.comp p).root = r at hS hcase ⊢
  have hf1 : SetRoot r (fun y : Comp => { y with parent := p, root := r }) :=
    ⟨fun _ => rfl, fun _ => rfl, fun _ => rfl, fun _ => rfl, fun _ => rfl, fun _ => rfl, fun _ => rfl⟩
  have h1 : K noE (t.modComp x fun y => { y with parent := p, root := r }) :=
    hJ.k.setRoot x r _ hf1 (Or.inr (Or.inl hS))
  have hr1 : ((t.modComp x fun y => { y with parent := p, root := r }).comp r).root = r := by
    rw [St.comp_modComp_if]; split
    · rfl
    · exact hS
  have hch1 : ∀ y, ((t.modComp x fun y => { y with parent := p, root := r }).comp y).children = (t.comp y).children :=
    St.comp_modComp_proj (fun y => y.children) t x _ (fun _ => rfl)
  have hroot1 : ∀ y, y ≠ x → ((t.modComp x fun y => { y with parent := p, root := r }).comp y).root = (t.comp y).root :=
    fun y hy => by rw [St.comp_modComp_other _ _ _ _ hy]
  have hrootx : ((t.modComp x fun y => { y with parent := p, root := r }).comp x).root = r := by
    rw [St.comp_modComp_if, if_pos ⟨rfl, hxl⟩]
  have hlen1 := St.modComp_len t x fun y => { y with parent := p, root := r }
  generalize (t.modComp x fun y => { y with parent := p, root := r }) = s1 at *
  split
  · rename_i hpx
    have hpx' : ¬ p = x := by simpa using hpx
    have hrx : ¬ r = x := by
      rcases hcase with h | h
      · exact absurd h hpx'
      · exact h.1.2
    split
    · exact ⟨h1, hr1⟩
    · -- the executing flags move: neutral
      have hs12 : Same s1 (if (s1.comp x).executing = true
          then (s1.modComp r fun y => { y with executing := true }).modComp x fun y => { y with executing := false }
          else s1) := by
        split
        · exact (Same.modComp s1 r _ (by keep7)).trans (Same.modComp _ x _ (by keep7))
        · exact Same.refl s1
      generalize (if (s1.comp x).executing = true
          then (s1.modComp r fun y => { y with executing := true }).modComp x fun y => { y with executing := false }
          else s1) = s2 at hs12 ⊢
      have h2 := h1.of_same hs12
      have hun : Unreach (fun y => y = r) s2 p := by
        intro c hrc hne hreach
        rw [hs12.root] at hrc
        have hcx : c ≠ x := by
          intro e; subst e; rw [hrootx] at hrc; exact hrx hrc
        rw [hroot1 c hcx] at hrc
        have hreach' : ReachIn t t.comps.length c p := by
          have := hreach.mono_children (t' := t) (fun y d hd => by rw [hs12.children, hch1] at hd; exact hd)
          rwa [hs12.len, hlen1] at this
        have := hJ.tree c p _ hrc hreach'
        exact hne (by rw [← this, hr])
      have h3 : K (fun y => y = r) (s2.modComp p fun y => { y with children := addUniq y.children x }) := by
        refine (h2.weaken (fun _ h => h.elim)).touch p _ ?_ ?_ ?_ hun
        · exact ⟨fun _ => rfl, fun _ => rfl, fun _ => rfl⟩
        · exact fun k h hm => h2.hid p k h hm
        · exact fun h hm => h2.gid p h hm
      have hrx' : (r != x) = true := by simpa using hrx
      simp only [hrx', if_true]
      refine ⟨?_, ?_⟩
      · refine K.of_same (K.flag h3 r _ ?_ (fun y hy => Or.inr hy)) (Same.modComp _ x _ ?_)
        · keep7
        · keep7
      · refine Eq.trans (St.comp_modComp_proj (fun y => y.root) _ _ _ ?_ _) ?_
        · exact fun _ => rfl
        refine Eq.trans (St.comp_modComp_proj (fun y => y.root) _ _ _ ?_ _) ?_
        · exact fun _ => rfl
        refine Eq.trans (St.comp_modComp_proj (fun y => y.root) _ _ _ ?_ _) ?_
        · exact fun _ => rfl
        rw [hs12.root]
        exact hr1
  · exact ⟨h1, hr1⟩

theorem J.registerFin (h : J E t) (c : Nat) :
    J E (t.registerFin c) := by
  ccl_unfold St.registerFin
macro_rules | `(tactic| ccl1) => `(tactic| with_reducible apply J.registerFin)

theorem J.unregister (h : J E t) (c : Nat) : J E (t.unregister c) := by
  ccl_unfold St.unregister
macro_rules | `(tactic| ccl1) => `(tactic| with_reducible apply J.unregister)

theorem J.prepUnregPre (h : J E t) (c : Nat) : J E (t.prepUnregPre c) := by
  unfold St.prepUnregPre
  dsimp only
  have h2 : J E ((t.modComp c fun x => { x with pending := false }).fireTmplEv c
      { name := Name.unregistered, arg := c } none 0) := by ccl
  generalize ((t.modComp c fun x => { x with pending := false }).fireTmplEv c
      { name := Name.unregistered, arg := c } none 0) = s2 at h2 ⊢
  split
  · generalize (s2.comp c).parent = p
    -- the parent loses a child; its root is flagged
    let E' : Nat → Prop := fun y => E y ∨ y = (s2.comp p).root
    have h3 : J E' (s2.modComp p fun x => { x with children := x.children.erase c }) := by
      refine (h2.weaken (fun y hy => Or.inl hy)).touch p _ ?_ ?_ ?_ ?_ (Or.inr rfl)
      · exact ⟨fun _ => rfl, fun _ => rfl, fun _ => rfl⟩
      · exact fun _ d hd => List.mem_of_mem_erase hd
      · exact fun k h' hm => h2.k.hid p k h' hm
      · exact fun h' hm => h2.k.gid p h' hm
    have h4 : J E ((s2.modComp p fun x => { x with children := x.children.erase c }).modComp (s2.comp p).root
        fun x => { x with dirty := true }) := by
      refine h3.flag _ _ ?_ (fun y hy => hy)
      keep7
    ccl
  · exact h2
macro_rules | `(tactic| ccl1) => `(tactic| with_reducible apply J.prepUnregPre)

theorem J.prepUnregFin (h : J E t) (c : Nat) : J E (t.prepUnregFin c) := by
  ccl_unfold St.prepUnregFin
macro_rules | `(tactic| ccl1) => `(tactic| with_reducible apply J.prepUnregFin)

theorem J.actFire (h : J E t) (self i : Nat) (target : Option Chan) (prio : Int) (cancel : Bool) :
    J E (t.actFire self i target prio cancel) := by
  ccl_unfold St.actFire
macro_rules | `(tactic| ccl1) => `(tactic| with_reducible apply J.actFire)

theorem J.actStopEv (h : J E t) (ev : Option Nat) :
    J E (t.actStopEv ev) := by
  ccl_unfold St.actStopEv
macro_rules | `(tactic| ccl1) => `(tactic| with_reducible apply J.actStopEv)

theorem J.timerReset (h : J E t) (i : Nat) :
    J E (t.timerReset i) := by
  ccl_unfold St.timerReset
macro_rules | `(tactic| ccl1) => `(tactic| with_reducible apply J.timerReset)

theorem J.timerCreate (h : J E t) (i : Nat) :
    J E (t.timerCreate i) := by
  ccl_unfold St.timerCreate
macro_rules | `(tactic| ccl1) => `(tactic| with_reducible apply J.timerCreate)

theorem J.timerTick (h : J E t) (i e : Nat) :
    J E (t.timerTick i e) := by
  ccl_unfold St.timerTick
macro_rules | `(tactic| ccl1) => `(tactic| with_reducible apply J.timerTick)

theorem J.startWait (h : J E t) (w : Nat) :
    J E (t.startWait w) := by
  ccl_unfold St.startWait
macro_rules | `(tactic| ccl1) => `(tactic| with_reducible apply J.startWait)

theorem J.stopBegin (h : J E t) (c : Nat) :
    J E (t.stopBegin c) := by
  ccl_unfold St.stopBegin
macro_rules | `(tactic| ccl1) => `(tactic| with_reducible apply J.stopBegin)

theorem J.stopSetCode (h : J E t) (r : Nat) (code : Code) :
    J E (t.stopSetCode r code) := by
  ccl_unfold St.stopSetCode
macro_rules | `(tactic| ccl1) => `(tactic| with_reducible apply J.stopSetCode)

theorem J.genCall (h : J E t) (owner i : Nat) (target : Option Chan) (timeout : Option Nat) :
    J E (t.genCall owner i target timeout) := by
  ccl_unfold St.genCall
macro_rules | `(tactic| ccl1) => `(tactic| with_reducible apply J.genCall)

theorem J.genWait (h : J E t) (owner : Nat) (name : Name) (target : Option Chan) (timeout : Option Nat) :
    J E (t.genWait owner name target timeout) := by
  ccl_unfold St.genWait
macro_rules | `(tactic| ccl1) => `(tactic| with_reducible apply J.genWait)

theorem J.resumeGenPre (h : J E t) (g : Nat) (silent : Bool) :
    J E (t.resumeGenPre g silent) := by
  ccl_unfold St.resumeGenPre
macro_rules | `(tactic| ccl1) => `(tactic| with_reducible apply J.resumeGenPre)

theorem J.stopIteration (h : J E t) (r : Nat) (x : Task) :
    J E ((t.stopIteration r x).2) := by
  ccl_unfold St.stopIteration
macro_rules | `(tactic| ccl1) => `(tactic| with_reducible apply J.stopIteration)

theorem J.fireException (h : J E t) (r e : Nat) :
    J E (t.fireException r e) := by
  ccl_unfold St.fireException
macro_rules | `(tactic| ccl1) => `(tactic| with_reducible apply J.fireException)

theorem J.errorBranch (h : J E t) (r : Nat) (x : Task) (resumed : Bool) :
    J E ((t.errorBranch r x resumed).2) := by
  ccl_unfold St.errorBranch
macro_rules | `(tactic| ccl1) => `(tactic| with_reducible apply J.errorBranch)

theorem J.ownSub (h : J E t) (r : Nat) (x : Task) (w : Nat) :
    J E (t.ownSub r x w) := by
  ccl_unfold St.ownSub
macro_rules | `(tactic| ccl1) => `(tactic| with_reducible apply J.ownSub)

theorem J.setValueOpt (h : J E t) (e : Nat) (v : Option Nat) :
    J E (t.setValueOpt e v) := by
  ccl_unfold St.setValueOpt
macro_rules | `(tactic| ccl1) => `(tactic| with_reducible apply J.setValueOpt)

theorem J.parentSub (h : J E t) (r : Nat) (x : Task) (p w2 : Nat) (viaThrow : Bool) :
    J E (t.parentSub r x p w2 viaThrow) := by
  ccl_unfold St.parentSub
macro_rules | `(tactic| ccl1) => `(tactic| with_reducible apply J.parentSub)

theorem J.parentPlain (h : J E t) (r : Nat) (x : Task) (p : Nat) (v : Option Nat) (viaThrow : Bool) :
    J E (t.parentPlain r x p v viaThrow) := by
  ccl_unfold St.parentPlain
macro_rules | `(tactic| ccl1) => `(tactic| with_reducible apply J.parentPlain)

theorem J.onWaitEvent (h : J E t) (w e : Nat) :
    J E ((t.onWaitEvent w e).2) := by
  ccl_unfold St.onWaitEvent
macro_rules | `(tactic| ccl1) => `(tactic| with_reducible apply J.onWaitEvent)

theorem J.onWaitDone (h : J E t) (w e : Nat) :
    J E ((t.onWaitDone w e).2) := by
  ccl_unfold St.onWaitDone
macro_rules | `(tactic| ccl1) => `(tactic| with_reducible apply J.onWaitDone)

theorem J.onWaitTick (h : J E t) (w : Nat) :
    J E ((t.onWaitTick w).2) := by
  ccl_unfold St.onWaitTick
macro_rules | `(tactic| ccl1) => `(tactic| with_reducible apply J.onWaitTick)

theorem J.onFallbackGE (h : J E t) (e : Nat) :
    J E ((t.onFallbackGE e).2) := by
  ccl_unfold St.onFallbackGE
macro_rules | `(tactic| ccl1) => `(tactic| with_reducible apply J.onFallbackGE)

theorem J.computeHandlers (h : J E t) (r : Nat) (name : Name) (chans : List Chan) :
    J E (t.computeHandlers r name chans).2 := by
  refine ⟨?_, (h.k.computeHandlers r name chans).1⟩
  rw [St.computeHandlers_eq]
  exact (h.tree.of_same (h.k.fbRes r name chans).1).modComp _ _ (fun _ => rfl) (fun _ _ hd => hd)
macro_rules | `(tactic| ccl1) => `(tactic| with_reducible apply J.computeHandlers)

theorem J.dispComplete (h : J E t) (e : Nat) (ev : Ev) :
    J E (t.dispComplete e ev) := by
  ccl_unfold St.dispComplete
macro_rules | `(tactic| ccl1) => `(tactic| with_reducible apply J.dispComplete)

theorem J.cacheRefresh (h : J E t) (r : Nat) : J E (t.cacheRefresh r) := by
  unfold St.cacheRefresh
  split
  · exact h.clear r _ ⟨fun _ => rfl, fun _ => rfl, fun _ => rfl, fun _ => rfl, fun _ => rfl, fun _ => rfl⟩
  · exact h
macro_rules | `(tactic| ccl1) => `(tactic| with_reducible apply J.cacheRefresh)

theorem J.lookupHandlers (h : J E t) (r : Nat) (name : Name) (chans : List Chan) :
    J E ((t.lookupHandlers r name chans).2) := by
  ccl_unfold St.lookupHandlers
macro_rules | `(tactic| ccl1) => `(tactic| with_reducible apply J.lookupHandlers)

theorem J.dispGE (h : J E t) (r e remaining : Nat) (name : Name) :
    J E (t.dispGE r e remaining name) := by
  ccl_unfold St.dispGE
macro_rules | `(tactic| ccl1) => `(tactic| with_reducible apply J.dispGE)

theorem J.dispatchPre (h : J E t) (r e remaining : Nat) :
    J E ((t.dispatchPre r e remaining).2) := by
  ccl_unfold St.dispatchPre
macro_rules | `(tactic| ccl1) => `(tactic| with_reducible apply J.dispatchPre)

theorem J.handlerRaised (h : J E t) (r e : Nat) :
    J E (t.handlerRaised r e) := by
  ccl_unfold St.handlerRaised
macro_rules | `(tactic| ccl1) => `(tactic| with_reducible apply J.handlerRaised)

theorem J.applyValue (h : J E t) (r e : Nat) (value : Outcome) :
    J E (t.applyValue r e value) := by
  ccl_unfold St.applyValue
macro_rules | `(tactic| ccl1) => `(tactic| with_reducible apply J.applyValue)

theorem J.geTasksCheck (h : J E t) (r e : Nat) :
    J E (t.geTasksCheck r e) := by
  ccl_unfold St.geTasksCheck
macro_rules | `(tactic| ccl1) => `(tactic| with_reducible apply J.geTasksCheck)

theorem J.flushBegin (h : J E t) (r : Nat) :
    J E (t.flushBegin r) := by
  ccl_unfold St.flushBegin
macro_rules | `(tactic| ccl1) => `(tactic| with_reducible apply J.flushBegin)

theorem J.tickGenerate (h : J E t) (c : Nat) :
    J E (t.tickGenerate c) := by
  ccl_unfold St.tickGenerate
macro_rules | `(tactic| ccl1) => `(tactic| with_reducible apply J.tickGenerate)

theorem J.runBegin (h : J E t) (c : Nat) :
    J E (t.runBegin c) := by
  ccl_unfold St.runBegin
macro_rules | `(tactic| ccl1) => `(tactic| with_reducible apply J.runBegin)

theorem J.runEnd (h : J E t) (c : Nat) :
    J E ((t.runEnd c).2) := by
  ccl_unfold St.runEnd
macro_rules | `(tactic| ccl1) => `(tactic| with_reducible apply J.runEnd)

/-- user code can add only user handlers: these are plain -/
theorem plain_of_code0 (t : St) (x : Nat) (h : ((t.handler x).kind.code == 0) = true) : t.plain x := by
  unfold St.plain
  generalize (t.handler x).kind = kd at h ⊢
  cases kd <;> first | rfl | (simp [HKind.code] at h)

theorem J.actStep (h : J E t) (ctx : HCtx) (a : Act) : J E (actStep t ctx a).st := by
  cases a
  case addH x =>
    unfold CV.Core.actStep; dsimp only
    split
    · rename_i hc
      have hp : t.plain x := plain_of_code0 t x hc
      ccl
    · exact h
  all_goals (unfold CV.Core.actStep; (try dsimp only); ccl)
macro_rules | `(tactic| ccl1) => `(tactic| with_reducible apply J.actStep)

/-! ## the arms of `step` -/

def _root_.CV.Core.Frame.isUpdRoot : Frame → Bool
  | .updateRoot .. => true
  | _ => false

/-- no `updateRoot` frame (the model never pushes one any more; the constructor is still there) -/
def noUR (fs : List Frame) : Bool := fs.all (fun g => !g.isUpdRoot)

theorem noUR_append (a b : List Frame) : noUR (a ++ b) = (noUR a && noUR b) := by
  simp [noUR, List.all_append]

/-- the new stack is the old tail plus frames that are not `updateRoot` -/
def PushOk (k : List Frame) (c' : Cfg) : Prop := ∃ fs, c'.stack = fs ++ k ∧ noUR fs = true

/-- result of an arm: invariant without exemption, stack extended correctly -/
structure Good (k : List Frame) (c' : Cfg) : Prop where
  inv : K noE c'.st
  push : PushOk k c'

theorem Good.pop (c : Cfg) (k : List Frame) {s : St} (h : K noE s) : Good k (c.pop k s) :=
  ⟨h, [], rfl, rfl⟩
theorem Good.popRet (c : Cfg) (k : List Frame) {s : St} (v : Ret) (h : K noE s) : Good k (c.popRet k s v) :=
  ⟨h, [], rfl, rfl⟩
theorem Good.raise (c : Cfg) (k : List Frame) {s : St} (ex : Exn) (h : K noE s) : Good k (c.raise k s ex) :=
  ⟨h, [], rfl, rfl⟩
theorem Good.goto (c : Cfg) (k : List Frame) {s : St} (fs : List Frame) (h : K noE s) (hfs : noUR fs = true) :
    Good k (c.goto k s fs) :=
  ⟨h, fs, rfl, hfs⟩

macro_rules | `(tactic| ccl1) => `(tactic| with_reducible refine Good.pop _ _ (J.k ?_))
macro_rules | `(tactic| ccl1) => `(tactic| with_reducible refine Good.popRet _ _ _ (J.k ?_))
macro_rules | `(tactic| ccl1) => `(tactic| with_reducible refine Good.raise _ _ _ (J.k ?_))
macro_rules | `(tactic| ccl1) => `(tactic| ((with_reducible refine Good.goto _ _ _ (J.k ?_) ?_); rotate_left; rfl))

theorem Cfg.effectDone_ci (c : Cfg) (k : List Frame) (r e : Nat) (announce : Bool) (hJ : J noE c.st) :
    Good k (c.effectDone k r e announce) := by
  unfold Cfg.effectDone; (try dsimp only); ccl
macro_rules | `(tactic| ccl1) => `(tactic| with_reducible apply Cfg.effectDone_ci)

theorem Cfg.eventDone_ci (c : Cfg) (k : List Frame) (r e : Nat) (err : Bool) (hJ : J noE c.st) :
    Good k (c.eventDone k r e err) := by
  unfold Cfg.eventDone; (try dsimp only); ccl
macro_rules | `(tactic| ccl1) => `(tactic| with_reducible apply Cfg.eventDone_ci)


/-- `∀ q`, the `root` field of `q` names a component that is its own root -/
def RootIdem (s : St) : Prop :=
  ∀ q, q < s.comps.length → (s.comp (s.comp q).root).root = (s.comp q).root

theorem Cfg.register_ci (c : Cfg) (k : List Frame) (x p : Nat) (hJ : J noE c.st) (hS : RootIdem c.st) :
    Good k (c.register k x p) := by
  unfold Cfg.register
  dsimp only
  split
  · ccl
  · rename_i hadm
    have hadm' : c.st.admissible x p = true := by simpa using hadm
    have hp : p < c.st.comps.length := by
      unfold St.admissible at hadm'
      simp only [Bool.and_eq_true, decide_eq_true_eq] at hadm'
      exact hadm'.1.1.2
    obtain ⟨h1, h2⟩ := K.registerPre hJ x p hadm' (hS p hp)
    have h3 := K.updateRootAll (E := noE) (c.st.comp p).root (c.st.comps.length + 1) [x] _ h1 (Or.inl h2)
    split
    · split
      · exact Good.goto _ _ _ h3 rfl
      · exact Good.pop _ _ h3
    · exact Good.raise _ _ _ h1

theorem Cfg.registerFin_ci (c : Cfg) (k : List Frame) (x : Nat) (hJ : J noE c.st) :
    Good k (c.registerFin k x) := by
  unfold Cfg.registerFin; (try dsimp only); ccl
macro_rules | `(tactic| ccl1) => `(tactic| with_reducible apply Cfg.registerFin_ci)

theorem Cfg.prepUnregFin_ci (c : Cfg) (k : List Frame) (x : Nat) (hK : K (fun y => y = x) c.st) :
    Good k (c.prepUnregFin k x) := by
  unfold Cfg.prepUnregFin St.prepUnregFin
  refine Good.popRet _ _ _ (hK.flag x _ ?_ (fun y hy => Or.inr hy))
  keep7

theorem Cfg.stopMgr_ci (c : Cfg) (k : List Frame) (x : Nat) (code : Code) (hJ : J noE c.st) :
    Good k (c.stopMgr k x code) := by
  unfold Cfg.stopMgr; (try dsimp only); ccl
macro_rules | `(tactic| ccl1) => `(tactic| with_reducible apply Cfg.stopMgr_ci)

theorem Cfg.ticks_ci (c : Cfg) (k : List Frame) (x n : Nat) (hJ : J noE c.st) :
    Good k (c.ticks k x n) := by
  unfold Cfg.ticks; (try dsimp only); ccl
macro_rules | `(tactic| ccl1) => `(tactic| with_reducible apply Cfg.ticks_ci)

theorem Cfg.stopFin_ci (c : Cfg) (k : List Frame) (code : Code) (hJ : J noE c.st) :
    Good k (c.stopFin k code) := by
  unfold Cfg.stopFin; (try dsimp only); ccl
macro_rules | `(tactic| ccl1) => `(tactic| with_reducible apply Cfg.stopFin_ci)

theorem Cfg.timerNew_ci (c : Cfg) (k : List Frame) (i : Nat) (hJ : J noE c.st) :
    Good k (c.timerNew k i) := by
  unfold Cfg.timerNew; (try dsimp only); ccl
macro_rules | `(tactic| ccl1) => `(tactic| with_reducible apply Cfg.timerNew_ci)

theorem actStep_call (s : St) (ctx : HCtx) (a : Act) (f : Frame) (h : (actStep s ctx a).kind = .call f) :
    f.isUpdRoot = false := by
  cases a <;> simp [actStep] at h
  all_goals first | (subst h; rfl) | (split at h <;> cases h)

theorem Cfg.acts_ci (c : Cfg) (k : List Frame) (ctx : HCtx) (prog : Prog) (hJ : J noE c.st) :
    Good k (c.acts k ctx prog) := by
  unfold Cfg.acts
  split
  · ccl
  · rename_i a rest
    have hA := (hJ.actStep ctx a).k
    split
    · exact Good.goto _ _ _ hA rfl
    · exact Good.popRet _ _ _ hA
    · rename_i f hf
      refine Good.goto _ _ _ hA ?_
      have := actStep_call _ _ _ _ hf
      simp only [noUR, List.all_cons, List.all_nil, this]
      rfl

theorem Cfg.doFin_ci (c : Cfg) (k : List Frame) (x : Nat) (hJ : J noE c.st) :
    Good k (c.doFin k x) := by
  unfold Cfg.doFin; (try dsimp only); ccl
macro_rules | `(tactic| ccl1) => `(tactic| with_reducible apply Cfg.doFin_ci)

theorem Cfg.drainQ_ci (c : Cfg) (k : List Frame) (x : Nat) (hJ : J noE c.st) :
    Good k (c.drainQ k x) := by
  unfold Cfg.drainQ; (try dsimp only); ccl
macro_rules | `(tactic| ccl1) => `(tactic| with_reducible apply Cfg.drainQ_ci)

theorem Cfg.stepGen_ci (c : Cfg) (k : List Frame) (g : Nat) (hJ : J noE c.st) :
    Good k (c.stepGen k g) := by
  unfold Cfg.stepGen
  dsimp only
  split
  · split
    · ccl
    · split
      · ccl
      · ccl
      · ccl
      · ccl
      · ccl
        rename_i f hf
        refine Good.goto _ _ _ (J.k ?_) ?_
        · ccl
        · have := actStep_call _ _ _ _ hf
          simp only [noUR, List.all_cons, List.all_nil, this]
          rfl
  · ccl

theorem Cfg.processTask_ci (c : Cfg) (k : List Frame) (r : Nat) (x : Task) (hJ : J noE c.st) :
    Good k (c.processTask k r x) := by
  unfold Cfg.processTask; (try dsimp only); ccl
macro_rules | `(tactic| ccl1) => `(tactic| with_reducible apply Cfg.processTask_ci)

theorem Cfg.contStop_ci (c : Cfg) (k : List Frame) (s : St) (r : Nat) (x : Task) (hle : J noE s) :
    Good k (c.contStop k s r x) := by
  unfold Cfg.contStop; (try dsimp only); ccl
macro_rules | `(tactic| ccl1) => `(tactic| with_reducible apply Cfg.contStop_ci)

theorem Cfg.contError_ci (c : Cfg) (k : List Frame) (s : St) (r : Nat) (x : Task) (resumed : Bool) (hle : J noE s) :
    Good k (c.contError k s r x resumed) := by
  unfold Cfg.contError; (try dsimp only); ccl
macro_rules | `(tactic| ccl1) => `(tactic| with_reducible apply Cfg.contError_ci)

theorem Cfg.ptBodyWait_ci (c : Cfg) (k : List Frame) (r : Nat) (x : Task) (w : Nat) (hJ : J noE c.st) :
    Good k (c.ptBodyWait k r x w) := by
  unfold Cfg.ptBodyWait; (try dsimp only); ccl
macro_rules | `(tactic| ccl1) => `(tactic| with_reducible apply Cfg.ptBodyWait_ci)

theorem Cfg.ptBodyExc_ci (c : Cfg) (k : List Frame) (r : Nat) (x : Task) (w : Nat) (fired : Bool) (hJ : J noE c.st) :
    Good k (c.ptBodyExc k r x w fired) := by
  unfold Cfg.ptBodyExc; (try dsimp only); ccl
macro_rules | `(tactic| ccl1) => `(tactic| with_reducible apply Cfg.ptBodyExc_ci)

theorem Cfg.ptBody_ci (c : Cfg) (k : List Frame) (r : Nat) (x : Task) (hJ : J noE c.st) :
    Good k (c.ptBody k r x) := by
  unfold Cfg.ptBody; (try dsimp only); ccl
macro_rules | `(tactic| ccl1) => `(tactic| with_reducible apply Cfg.ptBody_ci)

theorem Cfg.ptOwn_ci (c : Cfg) (k : List Frame) (r : Nat) (x : Task) (hJ : J noE c.st) :
    Good k (c.ptOwn k r x) := by
  unfold Cfg.ptOwn; (try dsimp only); ccl
macro_rules | `(tactic| ccl1) => `(tactic| with_reducible apply Cfg.ptOwn_ci)

theorem Cfg.ptParent_ci (c : Cfg) (k : List Frame) (r : Nat) (x : Task) (p : Nat) (viaThrow : Bool) (hJ : J noE c.st) :
    Good k (c.ptParent k r x p viaThrow) := by
  unfold Cfg.ptParent; (try dsimp only); ccl
macro_rules | `(tactic| ccl1) => `(tactic| with_reducible apply Cfg.ptParent_ci)

theorem Cfg.ptFin_ci (c : Cfg) (k : List Frame) (r : Nat) (handling : Option Nat) (hJ : J noE c.st) :
    Good k (c.ptFin k r handling) := by
  unfold Cfg.ptFin; (try dsimp only); ccl
macro_rules | `(tactic| ccl1) => `(tactic| with_reducible apply Cfg.ptFin_ci)

theorem Cfg.dispatcher_ci (c : Cfg) (k : List Frame) (r e remaining : Nat) (hJ : J noE c.st) :
    Good k (c.dispatcher k r e remaining) := by
  unfold Cfg.dispatcher; (try dsimp only); ccl
macro_rules | `(tactic| ccl1) => `(tactic| with_reducible apply Cfg.dispatcher_ci)

theorem Cfg.hLoop_ci (c : Cfg) (k : List Frame) (r e : Nat) (hs : List Nat) (err : Bool) (stale : Outcome) (hJ : J noE c.st) :
    Good k (c.hLoop k r e hs err stale) := by
  unfold Cfg.hLoop; (try dsimp only); ccl
macro_rules | `(tactic| ccl1) => `(tactic| with_reducible apply Cfg.hLoop_ci)

theorem Cfg.invokeUser_ci (c : Cfg) (k : List Frame) (s : St) (h e owner p : Nat) (hle : J noE s) :
    Good k (c.invokeUser k s h e owner p) := by
  unfold Cfg.invokeUser; (try dsimp only); ccl
macro_rules | `(tactic| ccl1) => `(tactic| with_reducible apply Cfg.invokeUser_ci)

/-- result of an arm that may open the detach window: the top frame is `prepUnregFin x`, no
    exception is pending and only `x` (which has just become its own root) is exempted -/
structure GoodW (k : List Frame) (c' : Cfg) : Prop where
  push : PushOk k c'
  inv : K noE c'.st ∨ (c'.exn = none ∧ ∃ x k', c'.stack = .prepUnregFin x :: k' ∧ K (fun y => y = x) c'.st)

theorem Good.toW {k : List Frame} {c' : Cfg} (h : Good k c') : GoodW k c' := ⟨h.push, Or.inl h.inv⟩

theorem Cfg.invoke_ci (c : Cfg) (k : List Frame) (r h e : Nat) (hJ : J noE c.st) (hx : c.exn = none) :
    GoodW k (c.invoke k r h e) := by
  unfold Cfg.invoke
  dsimp only
  have hs : J noE (if ((c.st.handler h).kind.code != 0) = true
      then c.st.logE (Entry.hinv e (c.st.handler h).kind.code (hkey c.st (c.st.handler h))) else c.st) := by ccl
  generalize (if ((c.st.handler h).kind.code != 0) = true
      then c.st.logE (Entry.hinv e (c.st.handler h).kind.code (hkey c.st (c.st.handler h))) else c.st) = s at hs ⊢
  split
  · exact Good.toW (by ccl)
  · -- detach: `prepUnregPre`, then `updateRoot` makes the owner its own root; the flag follows
    have h1 := (hs.prepUnregPre (c.st.handler h).owner).k
    have h2 := K.updateRootAll (E := fun y => y = (c.st.handler h).owner) (c.st.handler h).owner
      (s.comps.length + 1) [(c.st.handler h).owner] _ (h1.weaken (fun _ hf => hf.elim)) (Or.inr rfl)
    exact ⟨⟨[.prepUnregFin _], rfl, rfl⟩, Or.inr ⟨hx, _, k, rfl, h2⟩⟩
  all_goals exact Good.toW (by ccl)

theorem Cfg.invokeFin_ci (c : Cfg) (k : List Frame) (e h : Nat) (hJ : J noE c.st) :
    Good k (c.invokeFin k e h) := by
  unfold Cfg.invokeFin; (try dsimp only); ccl
macro_rules | `(tactic| ccl1) => `(tactic| with_reducible apply Cfg.invokeFin_ci)

theorem Cfg.hAfter_ci (c : Cfg) (k : List Frame) (r e : Nat) (rest : List Nat) (err : Bool) (stale : Outcome) (hJ : J noE c.st) :
    Good k (c.hAfter k r e rest err stale) := by
  unfold Cfg.hAfter; (try dsimp only); ccl
macro_rules | `(tactic| ccl1) => `(tactic| with_reducible apply Cfg.hAfter_ci)

theorem Cfg.hApply_ci (c : Cfg) (k : List Frame) (r e : Nat) (rest : List Nat) (err : Bool) (value : Outcome) (hJ : J noE c.st) :
    Good k (c.hApply k r e rest err value) := by
  unfold Cfg.hApply; (try dsimp only); ccl
macro_rules | `(tactic| ccl1) => `(tactic| with_reducible apply Cfg.hApply_ci)

theorem Cfg.dispFin_ci (c : Cfg) (k : List Frame) (r e : Nat) (err : Bool) (hJ : J noE c.st) :
    Good k (c.dispFin k r e err) := by
  unfold Cfg.dispFin; (try dsimp only); ccl
macro_rules | `(tactic| ccl1) => `(tactic| with_reducible apply Cfg.dispFin_ci)

theorem Cfg.dispatchLoop_ci (c : Cfg) (k : List Frame) (r : Nat) (hJ : J noE c.st) :
    Good k (c.dispatchLoop k r) := by
  unfold Cfg.dispatchLoop; (try dsimp only); ccl
macro_rules | `(tactic| ccl1) => `(tactic| with_reducible apply Cfg.dispatchLoop_ci)

theorem Cfg.flush_ci (c : Cfg) (k : List Frame) (x : Nat) (hJ : J noE c.st) :
    Good k (c.flush k x) := by
  unfold Cfg.flush; (try dsimp only); ccl
macro_rules | `(tactic| ccl1) => `(tactic| with_reducible apply Cfg.flush_ci)

theorem Cfg.flushFin_ci (c : Cfg) (k : List Frame) (r : Nat) (old : Bool) (hJ : J noE c.st) :
    Good k (c.flushFin k r old) := by
  unfold Cfg.flushFin; (try dsimp only); ccl
macro_rules | `(tactic| ccl1) => `(tactic| with_reducible apply Cfg.flushFin_ci)

theorem Cfg.tick_ci (c : Cfg) (k : List Frame) (x : Nat) (hJ : J noE c.st) :
    Good k (c.tick k x) := by
  unfold Cfg.tick; (try dsimp only); ccl
macro_rules | `(tactic| ccl1) => `(tactic| with_reducible apply Cfg.tick_ci)

theorem Cfg.taskLoop_ci (c : Cfg) (k : List Frame) (x : Nat) (ts : List Task) (hJ : J noE c.st) :
    Good k (c.taskLoop k x ts) := by
  unfold Cfg.taskLoop; (try dsimp only); ccl
macro_rules | `(tactic| ccl1) => `(tactic| with_reducible apply Cfg.taskLoop_ci)

theorem Cfg.tickFin_ci (c : Cfg) (k : List Frame) (x : Nat) (old : Bool) (hJ : J noE c.st) :
    Good k (c.tickFin k x old) := by
  unfold Cfg.tickFin; (try dsimp only); ccl
macro_rules | `(tactic| ccl1) => `(tactic| with_reducible apply Cfg.tickFin_ci)

theorem Cfg.tickGen_ci (c : Cfg) (k : List Frame) (x : Nat) (hJ : J noE c.st) :
    Good k (c.tickGen k x) := by
  unfold Cfg.tickGen; (try dsimp only); ccl
macro_rules | `(tactic| ccl1) => `(tactic| with_reducible apply Cfg.tickGen_ci)

theorem Cfg.run_ci (c : Cfg) (k : List Frame) (x : Nat) (hJ : J noE c.st) :
    Good k (c.run k x) := by
  unfold Cfg.run; (try dsimp only); ccl
macro_rules | `(tactic| ccl1) => `(tactic| with_reducible apply Cfg.run_ci)

theorem Cfg.runLoop_ci (c : Cfg) (k : List Frame) (x : Nat) (hJ : J noE c.st) :
    Good k (c.runLoop k x) := by
  unfold Cfg.runLoop; (try dsimp only); ccl
macro_rules | `(tactic| ccl1) => `(tactic| with_reducible apply Cfg.runLoop_ci)

theorem Cfg.runFin_ci (c : Cfg) (k : List Frame) (x : Nat) (hJ : J noE c.st) :
    Good k (c.runFin k x) := by
  unfold Cfg.runFin; (try dsimp only); ccl
macro_rules | `(tactic| ccl1) => `(tactic| with_reducible apply Cfg.runFin_ci)

theorem Cfg.runCatchExn_ci (c : Cfg) (k : List Frame) (x : Nat) (ex : Exn) (hJ : J noE c.st) :
    Good k (c.runCatchExn k x ex) := by
  unfold Cfg.runCatchExn
  split
  · exact ⟨hJ.k, [.tick x, .drainQ x, .runRethrow _], rfl, rfl⟩
  · ccl
macro_rules | `(tactic| ccl1) => `(tactic| with_reducible apply Cfg.runCatchExn_ci)

theorem Cfg.runRethrow_ci (c : Cfg) (k : List Frame) (ex : Exn) (hJ : J noE c.st) :
    Good k (c.runRethrow k ex) := by
  unfold Cfg.runRethrow; (try dsimp only); ccl
macro_rules | `(tactic| ccl1) => `(tactic| with_reducible apply Cfg.runRethrow_ci)

end CV.Core.Live

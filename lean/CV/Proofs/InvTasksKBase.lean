import CV.Proofs.InvTasksBase
/-
waitingHandlers accounting, part 13 (range / kind invariants): the relation `St.T46K s s'` - the event and generator tables
grew, carrier generators (waitEvent / TimeoutError / one-shot value generators) stayed carriers, every task that is new in
a task set is `T46TaskOk` (its event exists; if it has a parent its generator is a carrier), every wait state that is newly
started has an existing `task_event` - with its primitives and the tactic `t46k`.
-/
namespace CV.Core

def GenRec.t46_carrier : GenRec → Bool
  | .wait _ => true
  | .exc _ _ => true
  | .one _ _ => true
  | _ => false

/-- `p` is an existing generator that is not (and never becomes) a carrier: a user generator, live or finished -/
def St.t46_nc (s : St) (p : Nat) : Prop := p < s.gens.length ∧ (s.gen p).t46_carrier = false

/-- a task entry: its event exists; a task with a parent is never a user generator; a parent is never a carrier -/
def St.T46TaskOk (s : St) (t : Task) : Prop :=
  t.e < s.evs.length ∧ (t.parent.isSome = true → t.g < s.gens.length ∧ (s.gen t.g).t46_carrier = true) ∧
  (∀ p, t.parent = some p → s.t46_nc p)

/-- a started wait state: its `task_event` exists, its caller is not a carrier -/
def St.T46WaitOk (s : St) (x : WaitSt) : Prop := x.taskEvent < s.evs.length ∧ s.t46_nc x.parentGen

structure St.T46K (s s' : St) : Prop where
  evs : s.evs.length ≤ s'.evs.length
  gens : s.gens.length ≤ s'.gens.length
  car : ∀ g, g < s.gens.length → (s'.gen g).t46_carrier = (s.gen g).t46_carrier
  tasks : ∀ x t, t ∈ (s'.comp x).tasks → t ∈ (s.comp x).tasks ∨ s'.T46TaskOk t
  waits : ∀ w, (s'.wait w).started = true →
    ((s.wait w).started = true ∧ (s'.wait w).taskEvent = (s.wait w).taskEvent ∧
      (s'.wait w).parentGen = (s.wait w).parentGen) ∨ s'.T46WaitOk (s'.wait w)

theorem St.t46_nc.mono {s s' : St} (h : St.T46K s s') {p : Nat} (hp : s.t46_nc p) : s'.t46_nc p :=
  ⟨Nat.lt_of_lt_of_le hp.1 h.gens, by rw [h.car _ hp.1]; exact hp.2⟩

theorem St.T46TaskOk.mono {s s' : St} (h : St.T46K s s') {t : Task} (ht : s.T46TaskOk t) : s'.T46TaskOk t :=
  ⟨Nat.lt_of_lt_of_le ht.1 h.evs,
   fun hp => ⟨Nat.lt_of_lt_of_le (ht.2.1 hp).1 h.gens, by rw [h.car _ (ht.2.1 hp).1]; exact (ht.2.1 hp).2⟩,
   fun p hp => (ht.2.2 p hp).mono h⟩

theorem St.T46WaitOk.mono {s s' : St} (h : St.T46K s s') {x : WaitSt} (hx : s.T46WaitOk x) : s'.T46WaitOk x :=
  ⟨Nat.lt_of_lt_of_le hx.1 h.evs, hx.2.mono h⟩

theorem St.t46_gen_setGen (s : St) (g : Nat) (x : GenRec) (g' : Nat) :
    (s.setGen g x).gen g' = if g = g' ∧ g' < s.gens.length then x else s.gen g' := by
  unfold St.setGen St.gen
  simp only [List.getD_eq_getElem?_getD, List.getElem?_set]
  by_cases h1 : g = g'
  · subst h1
    by_cases h2 : g < s.gens.length
    · simp [h2]
    · simp [h2, List.getElem?_eq_none (Nat.le_of_not_lt h2)]
  · simp [h1]

theorem St.t46_gen_addGen_lt (s : St) (x : GenRec) (g : Nat) (h : g < s.gens.length) : (s.addGen x).gen g = s.gen g := by
  unfold St.addGen St.gen
  simp only [List.getD_eq_getElem?_getD]
  rw [List.getElem?_append_left h]

namespace St.T46K
variable {s t : St}

theorem refl (s : St) : St.T46K s s :=
  ⟨Nat.le_refl _, Nat.le_refl _, fun _ _ => rfl, fun _ _ h => Or.inl h, fun _ h => Or.inl ⟨h, rfl, rfl⟩⟩

theorem trans {a b c : St} (h1 : St.T46K a b) (h2 : St.T46K b c) : St.T46K a c := by
  refine ⟨Nat.le_trans h1.evs h2.evs, Nat.le_trans h1.gens h2.gens,
    fun g hg => (h2.car g (Nat.lt_of_lt_of_le hg h1.gens)).trans (h1.car g hg), fun x t ht => ?_, fun w hw => ?_⟩
  · rcases h2.tasks x t ht with h | h
    · rcases h1.tasks x t h with h' | h'
      · exact Or.inl h'
      · exact Or.inr (h'.mono h2)
    · exact Or.inr h
  · rcases h2.waits w hw with ⟨h, he, hp⟩ | h
    · rcases h1.waits w h with ⟨h', he', hp'⟩ | h'
      · exact Or.inl ⟨h', he.trans he', hp.trans hp'⟩
      · have := h'.mono h2
        exact Or.inr ⟨by rw [he]; exact this.1, by rw [hp]; exact this.2⟩
    · exact Or.inr h

/-- the fields the relation reads are unchanged -/
theorem of_same {t' : St} (h : St.T46K s t) (h1 : t'.evs.length = t.evs.length) (h2 : t'.gens = t.gens)
    (h3 : ∀ x, (t'.comp x).tasks = (t.comp x).tasks) (h4 : ∀ w, t'.wait w = t.wait w) : St.T46K s t' := by
  have hg : ∀ g, t'.gen g = t.gen g := fun g => by unfold St.gen; rw [h2]
  refine ⟨by rw [h1]; exact h.evs, by rw [h2]; exact h.gens, fun g hl => by rw [hg]; exact h.car g hl,
    fun x y hy => ?_, fun w hw => ?_⟩
  · rw [h3] at hy
    rcases h.tasks x y hy with h' | h'
    · exact Or.inl h'
    · exact Or.inr ⟨by rw [h1]; exact h'.1, fun hp => by rw [h2, hg]; exact h'.2.1 hp,
        fun p hp => by unfold St.t46_nc; rw [h2, hg]; exact h'.2.2 p hp⟩
  · rw [h4] at hw ⊢
    rcases h.waits w hw with h' | h'
    · exact Or.inl h'
    · exact Or.inr ⟨by rw [h1]; exact h'.1, by unfold St.t46_nc; rw [h2, hg]; exact h'.2⟩

theorem modComp (h : St.T46K s t) (c : Nat) (f : Comp → Comp) (hf : ∀ y : Comp, (f y).tasks = y.tasks) :
    St.T46K s (t.modComp c f) := by
  refine h.of_same rfl rfl (fun x => ?_) (fun _ => rfl)
  rw [St.t46_comp_modComp]
  split
  · exact hf _
  · rfl

theorem modEv (h : St.T46K s t) (e : Nat) (f : Ev → Ev) : St.T46K s (t.modEv e f) :=
  h.of_same (by simp [St.modEv]) rfl (fun _ => rfl) (fun _ => rfl)
theorem modTimer (h : St.T46K s t) (i : Nat) (f : TimerSt → TimerSt) : St.T46K s (t.modTimer i f) :=
  h.of_same rfl rfl (fun _ => rfl) (fun _ => rfl)
theorem logE (h : St.T46K s t) (x : Entry) : St.T46K s (t.logE x) := h.of_same rfl rfl (fun _ => rfl) (fun _ => rfl)
theorem addH (h : St.T46K s t) (x : Handler) : St.T46K s (t.addH x) := h.of_same rfl rfl (fun _ => rfl) (fun _ => rfl)
theorem tick1 (h : St.T46K s t) (d : Int) : St.T46K s (t.tick1 d) := h.of_same rfl rfl (fun _ => rfl) (fun _ => rfl)

theorem addEv (h : St.T46K s t) (ev : Ev) : St.T46K s (t.addEv ev) := by
  refine h.trans ⟨by simp [St.addEv], Nat.le_refl _, fun _ _ => rfl, fun _ _ ht => Or.inl ht, fun w hw => Or.inl ⟨hw, rfl, rfl⟩⟩

theorem addGen (h : St.T46K s t) (x : GenRec) : St.T46K s (t.addGen x) := by
  refine h.trans ⟨Nat.le_refl _, by simp [St.addGen], fun g hg => ?_, fun _ _ ht => Or.inl ht, fun w hw => Or.inl ⟨hw, rfl, rfl⟩⟩
  rw [St.t46_gen_addGen_lt t x g hg]

theorem setGen (h : St.T46K s t) (g : Nat) (x : GenRec)
    (hx : x.t46_carrier = (t.gen g).t46_carrier) : St.T46K s (t.setGen g x) := by
  refine h.trans ⟨Nat.le_refl _, by simp [St.setGen], fun g' _ => ?_, fun _ _ ht => Or.inl ht, fun w hw => Or.inl ⟨hw, rfl, rfl⟩⟩
  rw [St.t46_gen_setGen]
  split
  · rename_i hc'
    rw [← hc'.1]
    exact hx
  · rfl

theorem modWait (h : St.T46K s t) (w : Nat) (f : WaitSt → WaitSt)
    (hf : ∀ y : WaitSt, (f y).started = y.started ∧ (f y).taskEvent = y.taskEvent ∧ (f y).parentGen = y.parentGen) :
    St.T46K s (t.modWait w f) := by
  refine h.trans ⟨Nat.le_refl _, Nat.le_refl _, fun _ _ => rfl, fun _ _ ht => Or.inl ht, fun w' hw => ?_⟩
  rw [St.t46_wait_modWait] at hw ⊢
  split at hw
  · rename_i hc
    rw [if_pos hc]
    rw [(hf _).1] at hw
    exact Or.inl ⟨hw, (hf _).2.1, (hf _).2.2⟩
  · rename_i hc
    rw [if_neg hc]
    exact Or.inl ⟨hw, rfl, rfl⟩

theorem addWait (h : St.T46K s t) (x : WaitSt) (hx : x.started = false) : St.T46K s (t.addWait x) := by
  refine h.trans ⟨Nat.le_refl _, Nat.le_refl _, fun _ _ => rfl, fun _ _ ht => Or.inl ht, fun w hw => ?_⟩
  unfold St.addWait St.wait at hw ⊢
  simp only [List.getD_eq_getElem?_getD] at hw ⊢
  by_cases hl : w < t.waits.length
  · rw [List.getElem?_append_left hl] at hw ⊢
    exact Or.inl ⟨hw, rfl, rfl⟩
  · have hl' : t.waits.length ≤ w := Nat.le_of_not_lt hl
    rw [List.getElem?_append_right hl'] at hw
    exfalso
    by_cases h0 : w - t.waits.length = 0
    · rw [h0] at hw; simp [hx] at hw
    · have : ([x] : List WaitSt)[w - t.waits.length]? = none := by
        apply List.getElem?_eq_none; simp; omega
      rw [this] at hw
      simp [dfltWait] at hw

theorem unregisterTask (h : St.T46K s t) (c : Nat) (x : Task) : St.T46K s (t.unregisterTask c x) := by
  refine h.trans ⟨Nat.le_refl _, Nat.le_refl _, fun _ _ => rfl, fun y z hz => ?_, fun w hw => Or.inl ⟨hw, rfl, rfl⟩⟩
  rw [St.t46_tasks_unregisterTask] at hz
  split at hz
  · exact Or.inl (List.mem_of_mem_erase hz)
  · exact Or.inl hz

/-- a task that is `T46TaskOk` may be registered -/
theorem registerTask (h : St.T46K s t) (c : Nat) (x : Task) (hx : t.T46TaskOk x) : St.T46K s (t.registerTask c x) := by
  refine h.trans ⟨Nat.le_refl _, Nat.le_refl _, fun _ _ => rfl, fun y z hz => ?_, fun w hw => Or.inl ⟨hw, rfl, rfl⟩⟩
  rw [St.t46_tasks_registerTask] at hz
  split at hz
  · rcases (t46_mem_addUniq _ _ _).1 hz with h' | h'
    · exact Or.inl h'
    · subst h'; exact Or.inr hx
  · exact Or.inl hz

end St.T46K

syntax "t46k1" : tactic
macro_rules | `(tactic| t46k1) => `(tactic| split)
macro_rules | `(tactic| t46k1) => `(tactic| with_reducible apply St.T46K.unregisterTask)
macro_rules | `(tactic| t46k1) => `(tactic| with_reducible apply St.T46K.tick1)
macro_rules | `(tactic| t46k1) => `(tactic| ((with_reducible apply St.T46K.addWait); case hx => exact rfl))
macro_rules | `(tactic| t46k1) => `(tactic| with_reducible apply St.T46K.addGen)
macro_rules | `(tactic| t46k1) => `(tactic| with_reducible apply St.T46K.addH)
macro_rules | `(tactic| t46k1) => `(tactic| with_reducible apply St.T46K.addEv)
macro_rules | `(tactic| t46k1) => `(tactic| with_reducible apply St.T46K.logE)
macro_rules | `(tactic| t46k1) => `(tactic| with_reducible apply St.T46K.modTimer)
macro_rules | `(tactic| t46k1) => `(tactic| ((with_reducible apply St.T46K.modWait); case hf => exact fun _ => ⟨rfl, rfl, rfl⟩))
macro_rules | `(tactic| t46k1) => `(tactic| with_reducible apply St.T46K.modEv)
macro_rules | `(tactic| t46k1) => `(tactic| ((with_reducible apply St.T46K.modComp); case hf => exact fun _ => rfl))
macro_rules | `(tactic| t46k1) => `(tactic| with_reducible assumption)
macro_rules | `(tactic| t46k1) => `(tactic| with_reducible exact St.T46K.refl _)

macro "t46k" : tactic => `(tactic| repeat' t46k1)
macro "t46k_unfold" ids:ident+ : tactic => `(tactic| (unfold $[$ids]*; (try dsimp only); t46k))

end CV.Core

import CV.Proofs.InvWaitMain
/-
C06, second round: what happens to TASKS around the resumption of a `call()` / `wait()`.

  (A) `w6b_caller_completes_partial` + the continuation lemmas `w6b_ptParent_plain/sub/stop/raised`
  (B1) `w6b_task_consumed`  (+ `w6b_tasks_nodup`: task lists are duplicate-free in every reachable configuration)
  (B2) `w6b_new_task_cases` (structural, unconditional), `w6b_wait_exc_tasks_only_from_handlers` (under `W6CInv`)
  (B3, part) `w6b_wait_task_has_parent`: every registered task of a waitEvent generator carries a parent

Method: the relation `St.W6BT P s s'` ("tasks added satisfy `P`; duplicate-free lists stay duplicate-free") is pushed
through the helpers and the arms of `step` with the committed-choice tactic `w6b_t`; arms that keep the view
(`St.W6V`, first round) keep the task sets.
-/
namespace CV.Core

/-! ## small facts about the component table -/

theorem St.w6b_modComp_root (t : St) (c : Nat) (f : Comp → Comp) (hf : ∀ x, (f x).root = x.root) (c' : Nat) :
    ((t.modComp c f).comp c').root = (t.comp c').root := St.w6_modComp_comp_pres t (fun x => x.root) c f hf c'

theorem St.w6b_removeHandler_root (t : St) (h : Nat) (n : Option Name) (c : Nat) :
    ((t.removeHandler h n).2.comp c).root = (t.comp c).root := by
  rw [St.w6_removeHandler_snd]
  rw [St.w6b_modComp_root _ _ _ (by intro x; rfl), St.w6b_modComp_root _ _ _ (by intro x; rfl)]
  unfold St.w6_rmH1; split
  · rw [St.w6b_modComp_root _ _ _ (by intro x; rfl)]
  · rfl

theorem St.w6b_removeHandler_rootOf (t : St) (h : Nat) (n : Option Name) (c : Nat) :
    (t.removeHandler h n).2.rootOf c = t.rootOf c := St.w6b_removeHandler_root t h n c

theorem St.w6b_unregisterTask_tasks (s : St) (r : Nat) (t : Task) (x : Nat) :
    ((s.unregisterTask r t).comp x).tasks = if x = s.rootOf r then (s.comp x).tasks.erase t else (s.comp x).tasks := by
  unfold St.unregisterTask
  by_cases hx : x = s.rootOf r
  · subst hx
    rw [if_pos rfl]
    by_cases hl : s.rootOf r < s.comps.length
    · rw [St.w6_modComp_comp_lt _ _ _ hl]
    · rw [St.w6_modComp_comp_ge _ _ _ _ (by omega), St.w6_comp_ge _ _ (by omega)]; rfl
  · rw [if_neg hx, St.w6_modComp_comp_ne _ _ _ _ hx]

theorem St.w6b_registerTask_tasks (s : St) (r : Nat) (t : Task) (x : Nat) :
    ((s.registerTask r t).comp x).tasks =
      if x = s.rootOf r ∧ x < s.comps.length then addUniq (s.comp x).tasks t else (s.comp x).tasks := by
  unfold St.registerTask
  by_cases hx : x = s.rootOf r
  · subst hx
    by_cases hl : s.rootOf r < s.comps.length
    · rw [St.w6_modComp_comp_lt _ _ _ hl, if_pos ⟨rfl, hl⟩]
    · rw [St.w6_modComp_comp_ge _ _ _ _ (by omega), if_neg (fun h => hl h.2)]
  · rw [if_neg (fun h => hx h.1), St.w6_modComp_comp_ne _ _ _ _ hx]

theorem w6b_mem_addUniq {α} [BEq α] [LawfulBEq α] (l : List α) (x y : α) : y ∈ addUniq l x ↔ y ∈ l ∨ y = x := by
  unfold addUniq
  split
  · rename_i h
    constructor
    · exact Or.inl
    · rintro (h1 | h1)
      · exact h1
      · subst h1; exact List.contains_iff_mem.1 h
  · simp

/-! ## (A) the caller is not lost by the resumption step -/

/-- the wait state of a resumption step has recorded the event it waited for -/
theorem w6b_resume_event {n0 : Nat} {c : Cfg} (h : W6CInv n0 c) (w : Nat) (hr : W6ResumesW c w) :
    ∃ src, (c.st.wait w).event = some src := by
  obtain ⟨r, t, k, hs, _, hg, _⟩ := hr
  have hT : c.st.w6_view.TaskOk t := h.headFrame hs
  have hfl : (c.st.wait w).flag = true := hT.2.1 w hg
  exact Option.isSome_iff_exists.1 ((h.w.1.chain w).1 hfl)

/-- `resumeGenPre p true` on a live user generator: the step counter goes up, the generator is running -/
theorem St.w6b_resumeGenPre_silent (s : St) (p pe ph o : Nat) (rest : Prog) (st : Nat) (pc : Option Bool) (sd : Bool)
    (hp : s.gen p = .user pe ph o rest st pc sd) :
    s.resumeGenPre p true = s.setGen p (.user pe ph o rest (st + 1) pc true) := by
  unfold St.resumeGenPre; rw [hp]; rfl

theorem St.w6b_gen_lt_of_user (s : St) (p pe ph o : Nat) (rest : Prog) (st : Nat) (pc : Option Bool) (sd : Bool)
    (hp : s.gen p = .user pe ph o rest st pc sd) : p < s.gens.length := by
  refine Classical.byContradiction fun hn => ?_
  have : s.gen p = dfltGen := by
    unfold St.gen; rw [List.getD_eq_getElem?_getD, List.getElem?_eq_none (by omega)]; rfl
  rw [this] at hp; cases hp

/-- **caller_completes (resumption step), partial.**  In the resumption step of `w` the wait state has an event `src`;
    if the task carries a parent `p` and `p` is (still) a live user generator, the step unregisters the task, marks
    `p` as running (step counter + 1) and continues with `p`'s body, with the frame `ptParent r t p false`
    waiting underneath for what `p` yields.

    PARTIAL because of the two hypotheses `t.parent = some p` and `gen p = .user …`:
    * `W6View.TaskOk` (first round) says only "IF `t.parent = some p` THEN `p` is not a waitEvent generator";
      that every task with a `.wait` generator has a parent is true of the model (`onWaitDone` is the only
      producer, see `w6b_wait_exc_tasks_only_from_handlers`) but is not part of `W6CInv` for the task held in a
      `ptBody` frame;
    * "`p` is a live `.user` record" is NOT an invariant of the model (the first round gives only `NonWait p`): a stale
      `_on_tick` handler of an earlier wait state `w'` of the same caller can reach countdown 0 after `w'` was resumed
      and register an `.exc w'` task with parent `p`; its task step (`Cfg.ptBodyExc`, uncaught case) does
      `setGen p .dead` while `p` is suspended in `w`.  `Cfg.ptBodyWait` then takes the arm `| _ => c.pop k s1`:
      the resumption task is dropped and the caller is never resumed.  So the unconditional statement is false in
      the model; the hypothesis is kept explicit. -/
theorem w6b_caller_completes_partial {n0 : Nat} {c : Cfg} (h : W6CInv n0 c) (w r : Nat) (t : Task) (k : List Frame)
    (hs : c.stack = .ptBody r t :: k) (hx : c.exn = none) (hg : c.st.gen t.g = .wait w)
    (hok : (c.st.removeHandler (c.st.wait w).hDone (some ((c.st.wait w).evName.child sfxDone))).1 = true) :
    ∃ src, (c.st.wait w).event = some src ∧
      ∀ p, t.parent = some p → ∀ pe ph o rest st pc sd, c.st.gen p = .user pe ph o rest st pc sd →
        (step c).stack = .stepGen p :: .ptParent r t p false :: k ∧ (step c).exn = none ∧
        (step c).st.gen p = .user pe ph o rest (st + 1) pc true ∧
        (∀ x, ((step c).st.comp x).tasks =
          if x = c.st.rootOf r then (c.st.comp x).tasks.erase t else (c.st.comp x).tasks) ∧
        (step c).st.log = .resumed pe ph src (c.st.ev src).val.view (c.st.ev src).val.errors :: c.st.log := by
  obtain ⟨src, hsrc⟩ := w6b_resume_event h w ⟨r, t, k, hs, hx, hg, hok⟩
  refine ⟨src, hsrc, ?_⟩
  intro p hp pe ph o rest st pc sd hgp
  have hplt := c.st.w6b_gen_lt_of_user p pe ph o rest st pc sd hgp
  have hstep : step c = c.ptBodyWait k r t w := by
    rw [w6_step_ptBody c r t k hs hx]; unfold Cfg.ptBody; rw [hg]
  have hgp1 : (((c.st.removeHandler (c.st.wait w).hDone (some ((c.st.wait w).evName.child sfxDone))).2.unregisterTask r t).gen p)
      = .user pe ph o rest st pc sd := by simpa using hgp
  rw [hstep]
  unfold Cfg.ptBodyWait
  simp only [hok, hsrc, hp, Bool.not_true, Bool.false_eq_true, if_false]
  rw [hgp1]
  dsimp only
  rw [St.w6b_resumeGenPre_silent _ p pe ph o rest st pc sd (by simpa using hgp)]
  refine ⟨rfl, hx, ?_, ?_, ?_⟩
  · simp only [Cfg.goto_st]
    rw [St.w6_setGen_gen_lt _ _ _ (by simpa using hplt)]
  · intro x
    simp only [Cfg.goto_st, St.w6_setGen_comp, St.w6_logE_comp]
    rw [St.w6b_unregisterTask_tasks, St.w6b_removeHandler_rootOf, St.w6_removeHandler_tasks]
  · simp [Cfg.goto_st, St.logE]


/-! ## the relation "tasks added satisfy `P`, duplicate-freeness is kept" -/

/-- every task of `s'` is a task of `s` or satisfies `P`; duplicate-free task lists stay duplicate-free -/
structure St.W6BT (P : Task → Prop) (s s' : St) : Prop where
  add : ∀ x t, t ∈ (s'.comp x).tasks → t ∈ (s.comp x).tasks ∨ P t
  nodup : ∀ x, (s.comp x).tasks.Nodup → (s'.comp x).tasks.Nodup

namespace St.W6BT
variable {P : Task → Prop}

theorem refl (s : St) : St.W6BT P s s := ⟨fun _ _ h => Or.inl h, fun _ h => h⟩

theorem trans {a b c : St} (h1 : St.W6BT P a b) (h2 : St.W6BT P b c) : St.W6BT P a c :=
  ⟨fun x t ht => (h2.add x t ht).elim (h1.add x t) Or.inr, fun x h => h2.nodup x (h1.nodup x h)⟩

theorem mono {Q : Task → Prop} {a b : St} (h : St.W6BT P a b) (hpq : ∀ t, P t → Q t) : St.W6BT Q a b :=
  ⟨fun x t ht => (h.add x t ht).elim Or.inl (fun hp => Or.inr (hpq t hp)), h.nodup⟩

variable {s t : St}

/-- a state with the same task lists -/
theorem same (h : St.W6BT P s t) (u : St) (hu : ∀ x, (u.comp x).tasks = (t.comp x).tasks) : St.W6BT P s u :=
  ⟨fun x y hy => h.add x y (by rwa [hu x] at hy), fun x hn => by rw [hu x]; exact h.nodup x hn⟩

theorem thenV (h : St.W6BT P s t) {u : St} (hv : St.W6V t u) : St.W6BT P s u :=
  h.same u (fun x => congrFun (congrArg W6View.tasks hv) x)

theorem modComp (h : St.W6BT P s t) (c : Nat) (f : Comp → Comp) (hf : ∀ x, (f x).tasks = x.tasks) :
    St.W6BT P s (t.modComp c f) := h.same _ (fun x => St.w6_modComp_comp_tasks t c f hf x)
theorem modEv (h : St.W6BT P s t) (c : Nat) (f : Ev → Ev) : St.W6BT P s (t.modEv c f) := h.same _ (fun _ => rfl)
theorem modTimer (h : St.W6BT P s t) (c : Nat) (f : TimerSt → TimerSt) : St.W6BT P s (t.modTimer c f) := h.same _ (fun _ => rfl)
theorem modWait (h : St.W6BT P s t) (c : Nat) (f : WaitSt → WaitSt) : St.W6BT P s (t.modWait c f) := h.same _ (fun _ => rfl)
theorem tick1 (h : St.W6BT P s t) (d : Int) : St.W6BT P s (t.tick1 d) := h.same _ (fun _ => rfl)
theorem logE (h : St.W6BT P s t) (x : Entry) : St.W6BT P s (t.logE x) := h.same _ (fun _ => rfl)
theorem addEv (h : St.W6BT P s t) (x : Ev) : St.W6BT P s (t.addEv x) := h.same _ (fun _ => rfl)
theorem setGen (h : St.W6BT P s t) (g : Nat) (x : GenRec) : St.W6BT P s (t.setGen g x) := h.same _ (fun _ => rfl)
theorem addGen (h : St.W6BT P s t) (x : GenRec) : St.W6BT P s (t.addGen x) := h.same _ (fun _ => rfl)
theorem addWait (h : St.W6BT P s t) (x : WaitSt) : St.W6BT P s (t.addWait x) := h.same _ (fun _ => rfl)
theorem addH (h : St.W6BT P s t) (x : Handler) : St.W6BT P s (t.addH x) := h.same _ (fun _ => rfl)
theorem addHandler (h : St.W6BT P s t) (x : Nat) : St.W6BT P s (t.addHandler x) :=
  h.same _ (fun c => (t.w6_addHandler_htab x c).1)
theorem removeHandler (h : St.W6BT P s t) (x : Nat) (n : Option Name) : St.W6BT P s (t.removeHandler x n).2 :=
  h.same _ (fun c => t.w6_removeHandler_tasks x n c)

theorem unregisterTask (h : St.W6BT P s t) (c : Nat) (x : Task) : St.W6BT P s (t.unregisterTask c x) := by
  refine ⟨fun y z hz => ?_, fun y hn => ?_⟩
  · rw [St.w6b_unregisterTask_tasks] at hz
    split at hz
    · exact h.add y z (List.mem_of_mem_erase hz)
    · exact h.add y z hz
  · rw [St.w6b_unregisterTask_tasks]
    split
    · exact (h.nodup y hn).erase _
    · exact h.nodup y hn

theorem registerTask (h : St.W6BT P s t) (c : Nat) (x : Task) (hx : P x) : St.W6BT P s (t.registerTask c x) := by
  refine ⟨fun y z hz => ?_, fun y hn => ?_⟩
  · rw [St.w6b_registerTask_tasks] at hz
    split at hz
    · rcases (w6_mem_addUniq _ _ _).1 hz with hz | hz
      · exact h.add y z hz
      · subst hz; exact Or.inr hx
    · exact h.add y z hz
  · rw [St.w6b_registerTask_tasks]
    split
    · exact w6_addUniq_nodup _ _ (h.nodup y hn)
    · exact h.nodup y hn

end St.W6BT

syntax "w6b_t1" : tactic
macro_rules | `(tactic| w6b_t1) => `(tactic| split)
macro_rules | `(tactic| w6b_t1) => `(tactic| with_reducible apply St.W6BT.tick1)
macro_rules | `(tactic| w6b_t1) => `(tactic| with_reducible apply St.W6BT.addWait)
macro_rules | `(tactic| w6b_t1) => `(tactic| with_reducible apply St.W6BT.addGen)
macro_rules | `(tactic| w6b_t1) => `(tactic| with_reducible apply St.W6BT.addH)
macro_rules | `(tactic| w6b_t1) => `(tactic| with_reducible apply St.W6BT.addEv)
macro_rules | `(tactic| w6b_t1) => `(tactic| with_reducible apply St.W6BT.logE)
macro_rules | `(tactic| w6b_t1) => `(tactic| with_reducible apply St.W6BT.setGen)
macro_rules | `(tactic| w6b_t1) => `(tactic| with_reducible apply St.W6BT.modTimer)
macro_rules | `(tactic| w6b_t1) => `(tactic| with_reducible apply St.W6BT.modWait)
macro_rules | `(tactic| w6b_t1) => `(tactic| with_reducible apply St.W6BT.modEv)
macro_rules | `(tactic| w6b_t1) => `(tactic| with_reducible apply St.W6BT.modComp)
macro_rules | `(tactic| w6b_t1) => `(tactic| with_reducible apply St.W6BT.unregisterTask)
macro_rules | `(tactic| w6b_t1) => `(tactic| with_reducible apply St.W6BT.addHandler)
macro_rules | `(tactic| w6b_t1) => `(tactic| with_reducible apply St.W6BT.removeHandler)
macro_rules | `(tactic| w6b_t1) => `(tactic| (intro _; first | rfl | trivial))
macro_rules | `(tactic| w6b_t1) => `(tactic| with_reducible assumption)
macro_rules | `(tactic| w6b_t1) => `(tactic| with_reducible exact St.W6BT.refl _)

macro "w6b_t" : tactic => `(tactic| repeat' w6b_t1)
macro "w6b_t_unfold" ids:ident+ : tactic => `(tactic| (unfold $[$ids]*; (try dsimp only); w6b_t))

/-! ### helpers that keep the view (one line each, from `St.W6V`) -/
theorem St.W6BT.fireTmplEv {P : Task → Prop} {s t : St} (h : St.W6BT P s t) (self : Nat) (ev : Ev) (target : Option Chan) (prio : Int) :
    St.W6BT P s (t.fireTmplEv self ev target prio) := h.thenV (St.W6V.fireTmplEv (St.W6V.refl _) self ev target prio)
macro_rules | `(tactic| w6b_t1) => `(tactic| with_reducible apply St.W6BT.fireTmplEv)
theorem St.W6BT.fireChild {P : Task → Prop} {s t : St} (h : St.W6BT P s t) (self p sfx : Nat) (chans : List Chan) :
    St.W6BT P s (t.fireChild self p sfx chans) := h.thenV (St.W6V.fireChild (St.W6V.refl _) self p sfx chans)
macro_rules | `(tactic| w6b_t1) => `(tactic| with_reducible apply St.W6BT.fireChild)
theorem St.W6BT.inform {P : Task → Prop} {s t : St} (h : St.W6BT P s t) (e : Nat) (force : Bool) :
    St.W6BT P s (t.inform e force) := h.thenV (St.W6V.inform (St.W6V.refl _) e force)
macro_rules | `(tactic| w6b_t1) => `(tactic| with_reducible apply St.W6BT.inform)
theorem St.W6BT.setValue {P : Task → Prop} {s t : St} (h : St.W6BT P s t) (e : Nat) (x : VItem) :
    St.W6BT P s (t.setValue e x) := h.thenV (St.W6V.setValue (St.W6V.refl _) e x)
macro_rules | `(tactic| w6b_t1) => `(tactic| with_reducible apply St.W6BT.setValue)
theorem St.W6BT.setValueOpt {P : Task → Prop} {s t : St} (h : St.W6BT P s t) (e : Nat) (v : Option Nat) :
    St.W6BT P s (t.setValueOpt e v) := h.thenV (St.W6V.setValueOpt (St.W6V.refl _) e v)
macro_rules | `(tactic| w6b_t1) => `(tactic| with_reducible apply St.W6BT.setValueOpt)
theorem St.W6BT.fireException {P : Task → Prop} {s t : St} (h : St.W6BT P s t) (r e : Nat) :
    St.W6BT P s (t.fireException r e) := h.thenV (St.W6V.fireException (St.W6V.refl _) r e)
macro_rules | `(tactic| w6b_t1) => `(tactic| with_reducible apply St.W6BT.fireException)
theorem St.W6BT.actFire {P : Task → Prop} {s t : St} (h : St.W6BT P s t) (self i : Nat) (target : Option Chan) (prio : Int) (cancel : Bool) :
    St.W6BT P s (t.actFire self i target prio cancel) := h.thenV (St.W6V.actFire (St.W6V.refl _) self i target prio cancel)
macro_rules | `(tactic| w6b_t1) => `(tactic| with_reducible apply St.W6BT.actFire)
theorem St.W6BT.actStopEv {P : Task → Prop} {s t : St} (h : St.W6BT P s t) (ev : Option Nat) :
    St.W6BT P s (t.actStopEv ev) := h.thenV (St.W6V.actStopEv (St.W6V.refl _) ev)
macro_rules | `(tactic| w6b_t1) => `(tactic| with_reducible apply St.W6BT.actStopEv)
theorem St.W6BT.unregister {P : Task → Prop} {s t : St} (h : St.W6BT P s t) (c : Nat) :
    St.W6BT P s (t.unregister c) := h.thenV (St.W6V.unregister (St.W6V.refl _) c)
macro_rules | `(tactic| w6b_t1) => `(tactic| with_reducible apply St.W6BT.unregister)
theorem St.W6BT.timerReset {P : Task → Prop} {s t : St} (h : St.W6BT P s t) (i : Nat) :
    St.W6BT P s (t.timerReset i) := h.thenV (St.W6V.timerReset (St.W6V.refl _) i)
macro_rules | `(tactic| w6b_t1) => `(tactic| with_reducible apply St.W6BT.timerReset)
theorem St.W6BT.timerTick {P : Task → Prop} {s t : St} (h : St.W6BT P s t) (i e : Nat) :
    St.W6BT P s (t.timerTick i e) := h.thenV (St.W6V.timerTick (St.W6V.refl _) i e)
macro_rules | `(tactic| w6b_t1) => `(tactic| with_reducible apply St.W6BT.timerTick)
theorem St.W6BT.prepUnregPre {P : Task → Prop} {s t : St} (h : St.W6BT P s t) (c : Nat) :
    St.W6BT P s (t.prepUnregPre c) := h.thenV (St.W6V.prepUnregPre (St.W6V.refl _) c)
macro_rules | `(tactic| w6b_t1) => `(tactic| with_reducible apply St.W6BT.prepUnregPre)
theorem St.W6BT.dispComplete {P : Task → Prop} {s t : St} (h : St.W6BT P s t) (e : Nat) (ev : Ev) :
    St.W6BT P s (t.dispComplete e ev) := h.thenV (St.W6V.dispComplete (St.W6V.refl _) e ev)
macro_rules | `(tactic| w6b_t1) => `(tactic| with_reducible apply St.W6BT.dispComplete)
theorem St.W6BT.cacheRefresh {P : Task → Prop} {s t : St} (h : St.W6BT P s t) (r : Nat) :
    St.W6BT P s (t.cacheRefresh r) := h.thenV (St.W6V.cacheRefresh (St.W6V.refl _) r)
macro_rules | `(tactic| w6b_t1) => `(tactic| with_reducible apply St.W6BT.cacheRefresh)
theorem St.W6BT.dispGE {P : Task → Prop} {s t : St} (h : St.W6BT P s t) (r e remaining : Nat) (name : Name) :
    St.W6BT P s (t.dispGE r e remaining name) := h.thenV (St.W6V.dispGE (St.W6V.refl _) r e remaining name)
macro_rules | `(tactic| w6b_t1) => `(tactic| with_reducible apply St.W6BT.dispGE)
theorem St.W6BT.geTasksCheck {P : Task → Prop} {s t : St} (h : St.W6BT P s t) (r e : Nat) :
    St.W6BT P s (t.geTasksCheck r e) := h.thenV (St.W6V.geTasksCheck (St.W6V.refl _) r e)
macro_rules | `(tactic| w6b_t1) => `(tactic| with_reducible apply St.W6BT.geTasksCheck)
theorem St.W6BT.onFallbackGE {P : Task → Prop} {s t : St} (h : St.W6BT P s t) (e : Nat) :
    St.W6BT P s ((t.onFallbackGE e).2) := h.thenV (St.W6V.onFallbackGE (St.W6V.refl _) e)
macro_rules | `(tactic| w6b_t1) => `(tactic| with_reducible apply St.W6BT.onFallbackGE)

theorem St.W6BT.updateRootAll {P : Task → Prop} {s t : St} (h : St.W6BT P s t) (fuel : Nat) (todo : List Nat) (root : Nat) :
    St.W6BT P s (St.updateRootAll fuel todo root t) := h.thenV (St.W6V.updateRootAll _ _ _ _ _ (St.W6V.refl _))
macro_rules | `(tactic| w6b_t1) => `(tactic| with_reducible apply St.W6BT.updateRootAll)


/-! ### helpers that change the view but register no task -/

theorem St.W6BT.resumeGenPre {P : Task → Prop} {s t : St} (h : St.W6BT P s t) (g : Nat) (silent : Bool) :
    St.W6BT P s (t.resumeGenPre g silent) := by
  w6b_t_unfold St.resumeGenPre
macro_rules | `(tactic| w6b_t1) => `(tactic| with_reducible apply St.W6BT.resumeGenPre)

theorem St.W6BT.genCall {P : Task → Prop} {s t : St} (h : St.W6BT P s t) (owner i : Nat) (target : Option Chan)
    (timeout : Option Nat) : St.W6BT P s (t.genCall owner i target timeout) := by
  w6b_t_unfold St.genCall
macro_rules | `(tactic| w6b_t1) => `(tactic| with_reducible apply St.W6BT.genCall)

theorem St.W6BT.genWait {P : Task → Prop} {s t : St} (h : St.W6BT P s t) (owner : Nat) (name : Name) (target : Option Chan)
    (timeout : Option Nat) : St.W6BT P s (t.genWait owner name target timeout) := by
  w6b_t_unfold St.genWait
macro_rules | `(tactic| w6b_t1) => `(tactic| with_reducible apply St.W6BT.genWait)

theorem St.W6BT.w6_install {P : Task → Prop} {s t : St} (h : St.W6BT P s t) (hd : Handler) : St.W6BT P s (t.w6_install hd) := by
  unfold St.w6_install
  exact (h.addH hd).addHandler _

theorem St.W6BT.startWait {P : Task → Prop} {s t : St} (h : St.W6BT P s t) (w : Nat) :
    St.W6BT P s (t.startWait w) := by
  rw [St.w6_startWait_eq]
  unfold St.w6_startTail St.w6_install3
  dsimp only
  apply St.W6BT.modWait
  split
  · apply St.W6BT.w6_install; apply St.W6BT.w6_install; apply St.W6BT.w6_install
    split
    · w6b_t
    · exact h
  · apply St.W6BT.w6_install; apply St.W6BT.w6_install
    split
    · w6b_t
    · exact h
macro_rules | `(tactic| w6b_t1) => `(tactic| with_reducible apply St.W6BT.startWait)

theorem St.W6BT.errorBranch {P : Task → Prop} {s t : St} (h : St.W6BT P s t) (r : Nat) (x : Task) (resumed : Bool) :
    St.W6BT P s (t.errorBranch r x resumed).2 := by
  w6b_t_unfold St.errorBranch
macro_rules | `(tactic| w6b_t1) => `(tactic| with_reducible apply St.W6BT.errorBranch)

theorem St.W6BT.ownSub {P : Task → Prop} {s t : St} (h : St.W6BT P s t) (r : Nat) (x : Task) (w : Nat) :
    St.W6BT P s (t.ownSub r x w) := by
  w6b_t_unfold St.ownSub
macro_rules | `(tactic| w6b_t1) => `(tactic| with_reducible apply St.W6BT.ownSub)

theorem St.W6BT.onWaitEvent {P : Task → Prop} {s t : St} (h : St.W6BT P s t) (w e : Nat) :
    St.W6BT P s (t.onWaitEvent w e).2 := by
  w6b_t_unfold St.onWaitEvent
macro_rules | `(tactic| w6b_t1) => `(tactic| with_reducible apply St.W6BT.onWaitEvent)

theorem St.W6BT.computeHandlers {P : Task → Prop} {s t : St} (h : St.W6BT P s t) (r : Nat) (name : Name) (chans : List Chan) :
    St.W6BT P s (t.computeHandlers r name chans).2 := by
  w6b_t_unfold St.computeHandlers
macro_rules | `(tactic| w6b_t1) => `(tactic| with_reducible apply St.W6BT.computeHandlers)

theorem St.W6BT.lookupHandlers {P : Task → Prop} {s t : St} (h : St.W6BT P s t) (r : Nat) (name : Name) (chans : List Chan) :
    St.W6BT P s (t.lookupHandlers r name chans).2 := by
  w6b_t_unfold St.lookupHandlers
macro_rules | `(tactic| w6b_t1) => `(tactic| with_reducible apply St.W6BT.lookupHandlers)

theorem St.W6BT.dispatchPre {P : Task → Prop} {s t : St} (h : St.W6BT P s t) (r e remaining : Nat) :
    St.W6BT P s (t.dispatchPre r e remaining).2 := by
  w6b_t_unfold St.dispatchPre
macro_rules | `(tactic| w6b_t1) => `(tactic| with_reducible apply St.W6BT.dispatchPre)

theorem St.W6BT.actStep {P : Task → Prop} {s t : St} (h : St.W6BT P s t) (ctx : HCtx) (a : Act) :
    St.W6BT P s (actStep t ctx a).st := by
  cases a <;> (unfold CV.Core.actStep; (try dsimp only); w6b_t)
macro_rules | `(tactic| w6b_t1) => `(tactic| with_reducible apply St.W6BT.actStep)

/-! ### the helpers that register a task -/

/-- `except StopIteration`: the only task registered is the bare parent `⟨e, p, none⟩` -/
theorem St.W6BT.stopIteration {P : Task → Prop} {s t : St} (h : St.W6BT P s t) (r : Nat) (x : Task)
    (hp : ∀ p, x.parent = some p → P ⟨x.e, p, none⟩) : St.W6BT P s (t.stopIteration r x).2 := by
  unfold St.stopIteration
  dsimp only
  split
  · rename_i p hpp
    exact St.W6BT.registerTask (by w6b_t) _ _ (hp p hpp)
  · w6b_t

theorem St.W6BT.parentSub {P : Task → Prop} {s t : St} (h : St.W6BT P s t) (r : Nat) (x : Task) (p w2 : Nat) (viaThrow : Bool)
    (hp : viaThrow = true → P ⟨x.e, t.gens.length, some p⟩) : St.W6BT P s (t.parentSub r x p w2 viaThrow) := by
  unfold St.parentSub
  split
  · rename_i hv
    exact St.W6BT.registerTask (by w6b_t) _ _ (hp hv)
  · w6b_t

theorem St.W6BT.parentPlain {P : Task → Prop} {s t : St} (h : St.W6BT P s t) (r : Nat) (x : Task) (p : Nat) (v : Option Nat)
    (viaThrow : Bool) (hp1 : viaThrow = true → P ⟨x.e, t.gens.length, some p⟩) (hp2 : viaThrow = false → P ⟨x.e, p, none⟩) :
    St.W6BT P s (t.parentPlain r x p v viaThrow) := by
  unfold St.parentPlain
  split
  · rename_i hv
    exact St.W6BT.registerTask (by w6b_t) _ _ (hp1 hv)
  · rename_i hv
    exact St.W6BT.registerTask (by w6b_t) _ _ (hp2 (by simpa using hv))

theorem St.W6BT.applyValue {P : Task → Prop} {s t : St} (h : St.W6BT P s t) (r e : Nat) (value : Outcome)
    (hp : ∀ g, value = .gen g → P ⟨e, g, none⟩) : St.W6BT P s (t.applyValue r e value) := by
  unfold St.applyValue
  split
  · w6b_t
  · rename_i g
    exact St.W6BT.registerTask (by w6b_t) _ _ (hp g rfl)
  · w6b_t
  · w6b_t

theorem St.W6BT.onWaitDone {P : Task → Prop} {s t : St} (h : St.W6BT P s t) (w e : Nat)
    (hp : P ⟨(t.wait w).taskEvent, (t.wait w).task, some (t.wait w).parentGen⟩) : St.W6BT P s (t.onWaitDone w e).2 := by
  have h1 : St.W6BT P s ((t.modWait w fun x => { x with flag := true }).registerTask (t.wait w).owner
      ⟨(t.wait w).taskEvent, (t.wait w).task, some (t.wait w).parentGen⟩) :=
    St.W6BT.registerTask (h.modWait _ _) _ _ hp
  unfold St.onWaitDone
  dsimp only
  w6b_t

theorem St.W6BT.onWaitTick {P : Task → Prop} {s t : St} (h : St.W6BT P s t) (w : Nat)
    (hp : (t.wait w).timeout = 0 → P ⟨(t.wait w).taskEvent, t.gens.length, some (t.wait w).parentGen⟩) :
    St.W6BT P s (t.onWaitTick w).2 := by
  unfold St.onWaitTick
  dsimp only
  split
  · exact h
  · split
    · rename_i h0
      have h1 : St.W6BT P s (((t.modWait w fun x => { x with timedOut := true }).addGen (.exc w false)).registerTask
          (t.wait w).owner ⟨(t.wait w).taskEvent, t.gens.length, some (t.wait w).parentGen⟩) :=
        St.W6BT.registerTask ((h.modWait _ _).addGen _) _ _ (hp (by simpa using h0))
      w6b_t
    · w6b_t


/-! ## the arms of `step` that can change a task set -/

macro_rules
  | `(tactic| w6b_t1) => `(tactic| simp only [Cfg.pop_st, Cfg.popRet_st, Cfg.raise_st, Cfg.goto_st])

/-- the bare parent task `⟨e, p, none⟩` that `except StopIteration` re-registers -/
def w6b_PStop (t : Task) : Task → Prop := fun t' => ∃ p, t.parent = some p ∧ t' = ⟨t.e, p, none⟩

theorem Cfg.w6b_contStop_t {P : Task → Prop} {s0 : St} (c : Cfg) (k : List Frame) (s : St) (r : Nat) (x : Task)
    (hle : St.W6BT P s0 s) (hp : ∀ p, x.parent = some p → P ⟨x.e, p, none⟩) : St.W6BT P s0 (c.contStop k s r x).st := by
  unfold Cfg.contStop
  split <;> (simp only [Cfg.pop_st, Cfg.goto_st]; exact hle.stopIteration r x hp)
macro_rules | `(tactic| w6b_t1) => `(tactic| with_reducible apply Cfg.w6b_contStop_t)

theorem Cfg.w6b_contError_t {P : Task → Prop} {s0 : St} (c : Cfg) (k : List Frame) (s : St) (r : Nat) (x : Task) (resumed : Bool)
    (hle : St.W6BT P s0 s) : St.W6BT P s0 (c.contError k s r x resumed).st := by
  unfold Cfg.contError; (try dsimp only); w6b_t
macro_rules | `(tactic| w6b_t1) => `(tactic| with_reducible apply Cfg.w6b_contError_t)

theorem Cfg.w6b_acts_t (c : Cfg) (k : List Frame) (ctx : HCtx) (prog : Prog) :
    St.W6BT (fun _ => False) c.st (c.acts k ctx prog).st := by
  unfold Cfg.acts; (try dsimp only); w6b_t

theorem Cfg.w6b_stepGen_t (c : Cfg) (k : List Frame) (g : Nat) :
    St.W6BT (fun _ => False) c.st (c.stepGen k g).st := by
  unfold Cfg.stepGen; (try dsimp only); w6b_t

theorem Cfg.w6b_dispatcher_t (c : Cfg) (k : List Frame) (r e remaining : Nat) :
    St.W6BT (fun _ => False) c.st (c.dispatcher k r e remaining).st := by
  unfold Cfg.dispatcher; (try dsimp only); w6b_t

theorem Cfg.w6b_ptBodyWait_t (c : Cfg) (k : List Frame) (r : Nat) (t : Task) (w : Nat) :
    St.W6BT (w6b_PStop t) c.st (c.ptBodyWait k r t w).st := by
  have hp : ∀ p, t.parent = some p → w6b_PStop t ⟨t.e, p, none⟩ := fun p hp => ⟨p, hp, rfl⟩
  unfold Cfg.ptBodyWait; (try dsimp only); w6b_t

theorem Cfg.w6b_ptBodyExc_t (c : Cfg) (k : List Frame) (r : Nat) (t : Task) (w : Nat) (fired : Bool) :
    St.W6BT (w6b_PStop t) c.st (c.ptBodyExc k r t w fired).st := by
  have hp : ∀ p, t.parent = some p → w6b_PStop t ⟨t.e, p, none⟩ := fun p hp => ⟨p, hp, rfl⟩
  unfold Cfg.ptBodyExc; (try dsimp only); w6b_t

theorem Cfg.w6b_ptBody_t (c : Cfg) (k : List Frame) (r : Nat) (t : Task) :
    St.W6BT (w6b_PStop t) c.st (c.ptBody k r t).st := by
  have hp : ∀ p, t.parent = some p → w6b_PStop t ⟨t.e, p, none⟩ := fun p hp => ⟨p, hp, rfl⟩
  unfold Cfg.ptBody
  split
  · w6b_t
  · exact Cfg.w6b_ptBodyWait_t ..
  · exact Cfg.w6b_ptBodyExc_t ..
  · w6b_t
  · w6b_t

theorem Cfg.w6b_ptOwn_t (c : Cfg) (k : List Frame) (r : Nat) (t : Task) :
    St.W6BT (w6b_PStop t) c.st (c.ptOwn k r t).st := by
  have hp : ∀ p, t.parent = some p → w6b_PStop t ⟨t.e, p, none⟩ := fun p hp => ⟨p, hp, rfl⟩
  unfold Cfg.ptOwn; (try dsimp only); w6b_t

/-- the tasks `ptParent r t p viaThrow` can register -/
def w6b_PPar (c : Cfg) (k : List Frame) (r : Nat) (t : Task) (p : Nat) (v : Bool) : Task → Prop := fun t' =>
  w6b_PStop t t' ∨ (v = false ∧ t' = ⟨t.e, p, none⟩) ∨
  (v = true ∧ t' = ⟨t.e, c.st.gens.length, some p⟩ ∧ ∃ y, (c.ptParent k r t p v).st.gen c.st.gens.length = .one y false)

theorem Cfg.w6b_ptParent_t (c : Cfg) (k : List Frame) (r : Nat) (t : Task) (p : Nat) (v : Bool) :
    St.W6BT (w6b_PPar c k r t p v) c.st (c.ptParent k r t p v).st := by
  have hp : ∀ p', t.parent = some p' → w6b_PPar c k r t p v ⟨t.e, p', none⟩ := fun p' hp => Or.inl ⟨p', hp, rfl⟩
  generalize hP : w6b_PPar c k r t p v = P at hp ⊢
  unfold Cfg.ptParent
  split
  · rename_i w2 heq
    simp only [Cfg.pop_st]
    refine (St.W6BT.refl _).parentSub r t p w2 v ?_
    intro hv; subst hP
    refine Or.inr (Or.inr ⟨hv, rfl, none, ?_⟩)
    unfold Cfg.ptParent; rw [heq]
    simp only [Cfg.pop_st, St.parentSub, hv, if_true, St.w6_registerTask_gen, St.w6_addGen_gen]
  · rename_i y heq
    simp only [Cfg.pop_st]
    refine (St.W6BT.refl _).parentPlain r t p y v ?_ ?_
    · intro hv; subst hP
      refine Or.inr (Or.inr ⟨hv, rfl, y, ?_⟩)
      unfold Cfg.ptParent; rw [heq]
      simp only [Cfg.pop_st, St.parentPlain, hv, if_true, St.w6_registerTask_gen, St.w6_addGen_gen]
    · intro hv; subst hP; exact Or.inr (Or.inl ⟨hv, rfl⟩)
  · w6b_t
  · w6b_t
  · w6b_t
  · w6b_t

theorem Cfg.w6b_invokeUser_t {P : Task → Prop} {s0 : St} (c : Cfg) (k : List Frame) (s : St) (h e owner p : Nat)
    (hle : St.W6BT P s0 s) : St.W6BT P s0 (c.invokeUser k s h e owner p).st := by
  unfold Cfg.invokeUser; (try dsimp only); w6b_t
macro_rules | `(tactic| w6b_t1) => `(tactic| with_reducible apply Cfg.w6b_invokeUser_t)

theorem Cfg.w6b_invokeSt_t {P : Task → Prop} (c : Cfg) (h e : Nat) : St.W6BT P c.st (c.w6_invokeSt h e) := by
  unfold Cfg.w6_invokeSt; w6b_t

/-- the tasks `invoke r h e` can register: the resumption task of `_on_done`, the `TimeoutError` task of `_on_tick` -/
def w6b_PInv (c : Cfg) (h : Nat) : Task → Prop := fun t' =>
  (∃ w, (c.st.handler h).kind = .waitDone w ∧
    t' = ⟨(c.st.wait w).taskEvent, (c.st.wait w).task, some (c.st.wait w).parentGen⟩) ∨
  (∃ w, (c.st.handler h).kind = .waitTick w ∧ (c.st.wait w).timeout = 0 ∧
    t' = ⟨(c.st.wait w).taskEvent, c.st.gens.length, some (c.st.wait w).parentGen⟩)

theorem Cfg.w6b_invoke_t (c : Cfg) (k : List Frame) (r h e : Nat) :
    St.W6BT (w6b_PInv c h) c.st (c.invoke k r h e).st := by
  cases hk : (c.st.handler h).kind with
  | waitEvent w =>
    rw [Cfg.w6_invoke_waitEvent c k r h e w hk]
    exact (Cfg.w6b_invokeSt_t c h e).onWaitEvent w e
  | waitDone w =>
    rw [Cfg.w6_invoke_waitDone c k r h e w hk]
    refine (Cfg.w6b_invokeSt_t c h e).onWaitDone w e ?_
    rw [Cfg.w6_invokeSt_wait]
    exact Or.inl ⟨w, hk, rfl⟩
  | waitTick w =>
    rw [Cfg.w6_invoke_waitTick c k r h e w hk]
    refine (Cfg.w6b_invokeSt_t c h e).onWaitTick w ?_
    rw [Cfg.w6_invokeSt_wait, Cfg.w6_invokeSt_gens]
    intro h0
    exact Or.inr ⟨w, hk, h0, rfl⟩
  | user p => unfold Cfg.invoke; dsimp only; simp only [hk]; w6b_t
  | prepUnregComplete => unfold Cfg.invoke; dsimp only; simp only [hk]; w6b_t
  | timer i => unfold Cfg.invoke; dsimp only; simp only [hk]; w6b_t
  | fallbackGE => unfold Cfg.invoke; dsimp only; simp only [hk]; w6b_t
  | fallbackExc => unfold Cfg.invoke; dsimp only; simp only [hk]; w6b_t

theorem Cfg.w6b_hApply_t (c : Cfg) (k : List Frame) (r e : Nat) (rest : List Nat) (err : Bool) (value : Outcome) :
    St.W6BT (fun t' => ∃ g, value = .gen g ∧ t' = ⟨e, g, none⟩) c.st (c.hApply k r e rest err value).st := by
  unfold Cfg.hApply
  dsimp only
  split <;>
    (simp only [Cfg.goto_st]
     exact ((St.W6BT.refl _).applyValue r e value (fun g hg => ⟨g, hg, rfl⟩)).geTasksCheck r e)


/-! ## (B2) where new tasks come from -/

/-- the steps that can put a new task `t'` into a task set, with the task they register -/
def W6BNewTask (c : Cfg) (t' : Task) : Prop :=
  (∃ r e rest err g k, c.stack = .hApply r e rest err (.gen g) :: k ∧ t' = ⟨e, g, none⟩) ∨
  (∃ r t k p, (c.stack = .ptBody r t :: k ∨ c.stack = .ptOwn r t :: k ∨ ∃ p' v, c.stack = .ptParent r t p' v :: k) ∧
    t.parent = some p ∧ t' = ⟨t.e, p, none⟩) ∨
  (∃ r t p k, c.stack = .ptParent r t p false :: k ∧ t' = ⟨t.e, p, none⟩) ∨
  (∃ r t p k, c.stack = .ptParent r t p true :: k ∧ t' = ⟨t.e, c.st.gens.length, some p⟩ ∧
    ∃ y, (step c).st.gen c.st.gens.length = .one y false) ∨
  (∃ r h e k w, c.stack = .invoke r h e :: k ∧ (c.st.handler h).kind = .waitDone w ∧
    t' = ⟨(c.st.wait w).taskEvent, (c.st.wait w).task, some (c.st.wait w).parentGen⟩) ∨
  (∃ r h e k w, c.stack = .invoke r h e :: k ∧ (c.st.handler h).kind = .waitTick w ∧ (c.st.wait w).timeout = 0 ∧
    t' = ⟨(c.st.wait w).taskEvent, c.st.gens.length, some (c.st.wait w).parentGen⟩)

/-- every step: the tasks it adds are described by `W6BNewTask`, and it keeps task lists duplicate-free -/
theorem w6b_step_tasks (c : Cfg) :
    ∃ P : Task → Prop, St.W6BT P c.st (step c).st ∧ ∀ t', P t' → c.exn = none ∧ W6BNewTask c t' := by
  cases hst : c.stack with
  | nil =>
    have : step c = c := by unfold step; rw [hst]
    rw [this]
    exact ⟨fun _ => False, St.W6BT.refl _, fun _ h => h.elim⟩
  | cons f k =>
    cases hx : c.exn with
    | some ex =>
      rw [step_cons_exn c f k ex hst hx]
      exact ⟨fun _ => False, (St.W6BT.refl _).thenV (w6_unwind_v c k ex f), fun _ h => h.elim⟩
    | none =>
      have hstep := step_cons c f k hst hx
      rw [hstep]
      cases f <;> dsimp only [stepFrame]
      case acts ctx rest => exact ⟨_, Cfg.w6b_acts_t c k ctx rest, fun _ h => h.elim⟩
      case stepGen g => exact ⟨_, Cfg.w6b_stepGen_t c k g, fun _ h => h.elim⟩
      case dispatcher r e rem => exact ⟨_, Cfg.w6b_dispatcher_t c k r e rem, fun _ h => h.elim⟩
      case ptBody r t =>
        refine ⟨_, Cfg.w6b_ptBody_t c k r t, ?_⟩
        rintro t' ⟨p, hp, rfl⟩
        refine ⟨rfl, ?_⟩
        unfold W6BNewTask
        exact Or.inr (Or.inl ⟨r, t, k, p, Or.inl hst, hp, rfl⟩)
      case ptOwn r t =>
        refine ⟨_, Cfg.w6b_ptOwn_t c k r t, ?_⟩
        rintro t' ⟨p, hp, rfl⟩
        refine ⟨rfl, ?_⟩
        unfold W6BNewTask
        exact Or.inr (Or.inl ⟨r, t, k, p, Or.inr (Or.inl hst), hp, rfl⟩)
      case ptParent r t p v =>
        refine ⟨_, Cfg.w6b_ptParent_t c k r t p v, ?_⟩
        rintro t' (⟨p', hp', rfl⟩ | ⟨hv, rfl⟩ | ⟨hv, rfl, y, hy⟩)
        · refine ⟨rfl, ?_⟩
          unfold W6BNewTask
          exact Or.inr (Or.inl ⟨r, t, k, p', Or.inr (Or.inr ⟨p, v, hst⟩), hp', rfl⟩)
        · subst hv
          refine ⟨rfl, ?_⟩
          unfold W6BNewTask
          exact Or.inr (Or.inr (Or.inl ⟨r, t, p, k, hst, rfl⟩))
        · subst hv
          refine ⟨rfl, ?_⟩
          unfold W6BNewTask
          exact Or.inr (Or.inr (Or.inr (Or.inl ⟨r, t, p, k, hst, rfl, y, by rw [hstep]; exact hy⟩)))
      case invoke r h e =>
        refine ⟨_, Cfg.w6b_invoke_t c k r h e, ?_⟩
        rintro t' (⟨w, hk, rfl⟩ | ⟨w, hk, h0, rfl⟩)
        · refine ⟨rfl, ?_⟩
          unfold W6BNewTask
          exact Or.inr (Or.inr (Or.inr (Or.inr (Or.inl ⟨r, h, e, k, w, hst, hk, rfl⟩))))
        · refine ⟨rfl, ?_⟩
          unfold W6BNewTask
          exact Or.inr (Or.inr (Or.inr (Or.inr (Or.inr ⟨r, h, e, k, w, hst, hk, h0, rfl⟩))))
      case hApply r e rest err value =>
        refine ⟨_, Cfg.w6b_hApply_t c k r e rest err value, ?_⟩
        rintro t' ⟨g, rfl, rfl⟩
        refine ⟨rfl, ?_⟩
        unfold W6BNewTask
        exact Or.inl ⟨r, e, rest, err, g, k, hst, rfl⟩
      all_goals exact ⟨fun _ => False, (St.W6BT.refl _).thenV (by w6st_v), fun _ h => h.elim⟩

/-- **B2, structural form (unconditional).**  A task that is in a task set after `step c` but was not there before was
    registered by one of six kinds of steps; `W6BNewTask` lists them together with the task each one registers. -/
theorem w6b_new_task_cases (c : Cfg) (x : Nat) (t' : Task) (hnew : t' ∈ ((step c).st.comp x).tasks)
    (hold : t' ∉ (c.st.comp x).tasks) : c.exn = none ∧ W6BNewTask c t' := by
  obtain ⟨P, hT, hP⟩ := w6b_step_tasks c
  rcases hT.add x t' hnew with h | h
  · exact absurd h hold
  · exact hP t' h

/-- task lists stay duplicate-free in every step (`addUniq` / `erase` are the only operations on them) -/
theorem w6b_step_nodup (c : Cfg) (x : Nat) (h : (c.st.comp x).tasks.Nodup) : ((step c).st.comp x).tasks.Nodup := by
  obtain ⟨P, hT, _⟩ := w6b_step_tasks c
  exact hT.nodup x h

/-- **task lists are duplicate-free in every configuration of a session** that starts without tasks -/
theorem w6b_tasks_nodup {s0 : St} (hi : ∀ x, (s0.comp x).tasks = []) {c : Cfg} (h : Reach s0 c) :
    ∀ x, (c.st.comp x).tasks.Nodup := by
  induction h with
  | init d tape op => intro x; cases op <;> (show (s0.comp x).tasks.Nodup; rw [hi x]; exact List.nodup_nil)
  | step _ ih => exact fun x => w6b_step_nodup _ x (ih x)
  | next d tape op _ _ ih => intro x; cases op <;> exact ih x

theorem St.w6b_gen_ge (s : St) (g : Nat) (h : s.gens.length ≤ g) : s.gen g = dfltGen := by
  unfold St.gen; rw [List.getD_eq_getElem?_getD, List.getElem?_eq_none h]; rfl

theorem w6b_nonwait_step {c : Cfg} {g : Nat} (hn : c.st.w6_view.NonWait g) (w : Nat) (hg : (step c).st.gen g = .wait w) :
    False := by
  have := (W6View.NonWait.ofS (w6_step_s c) hn).2
  rw [show (step c).st.w6_view.gen g = (step c).st.gen g from rfl, hg] at this
  cases this

/-- **B2 for waitEvent / TimeoutError tasks.**  Under the wait-protocol invariant, a task that is new after `step c`:
    * if its generator is a waitEvent generator `.wait w`, the step was the invocation of `w`'s own `_on_done` handler and the
      task is `(task_event, w's generator, parent generator)` (FULL);
    * if its generator is `.exc w b` and it carries a parent, the step was the invocation of `w`'s own `_on_tick` handler at
      countdown 0, the generator is the fresh `.exc w false` (PARTIAL: the side condition `t'.parent ≠ none`.  Without it the
      structural theorem leaves the cases "`hApply` registers `⟨e, g, none⟩`" / "`StopIteration` registers `⟨e, p, none⟩`"
      with `g` / `p` an already existing `.exc` generator; the first-round invariant `W6CInv` only says that such `g`, `p`
      are not waitEvent generators (`NonWait`), it does not say they are not `.exc` generators.  In the model they never
      are: `.exc` ids are only ever used as the `g` of the task `_on_tick` registers.)
    Hence between invocations of `_on_done` / `_on_tick` handlers no wait task and no (parented) exc task appears. -/
theorem w6b_wait_exc_tasks_only_from_handlers {n0 : Nat} {c : Cfg} (h : W6CInv n0 c) (x : Nat) (t' : Task)
    (hnew : t' ∈ ((step c).st.comp x).tasks) (hold : t' ∉ (c.st.comp x).tasks) :
    (∀ w, (step c).st.gen t'.g = .wait w →
      ∃ r hh e k, c.stack = .invoke r hh e :: k ∧ c.exn = none ∧ (c.st.handler hh).kind = .waitDone w ∧
        t' = ⟨(c.st.wait w).taskEvent, (c.st.wait w).task, some (c.st.wait w).parentGen⟩) ∧
    (∀ w b, (step c).st.gen t'.g = .exc w b → t'.parent ≠ none →
      ∃ r hh e k, c.stack = .invoke r hh e :: k ∧ c.exn = none ∧ (c.st.handler hh).kind = .waitTick w ∧
        (c.st.wait w).timeout = 0 ∧ b = false ∧
        t' = ⟨(c.st.wait w).taskEvent, c.st.gens.length, some (c.st.wait w).parentGen⟩) := by
  obtain ⟨hx, hc⟩ := w6b_new_task_cases c x t' hnew hold
  unfold W6BNewTask at hc
  rcases hc with ⟨r, e, rest, err, g, k, hs, rfl⟩ | ⟨r, t, k, p, hs, hp, rfl⟩ | ⟨r, t, p, k, hs, rfl⟩ |
    ⟨r, t, p, k, hs, rfl, y, hy⟩ | ⟨r, hh, e, k, w0, hs, hk, rfl⟩ | ⟨r, hh, e, k, w0, hs, hk, h0, rfl⟩
  · refine ⟨fun w hg => ?_, fun w b _ hpar => absurd rfl hpar⟩
    have hv : W6OutOk c.st (.gen g) := h.headFrame hs
    exact (w6b_nonwait_step (hv g rfl) w hg).elim
  · refine ⟨fun w hg => ?_, fun w b _ hpar => absurd rfl hpar⟩
    have hT : c.st.w6_view.TaskOk t := by
      rcases hs with hs | hs | ⟨p', v, hs⟩
      · exact h.headFrame hs
      · exact (show c.st.w6_view.TaskOk t ∧ c.st.w6_view.NonWait t.g from h.headFrame hs).1
      · exact (show c.st.w6_view.TaskOk t ∧ c.st.w6_view.NonWait p' from h.headFrame hs).1
    exact (w6b_nonwait_step (hT.2.2 p hp) w hg).elim
  · refine ⟨fun w hg => ?_, fun w b _ hpar => absurd rfl hpar⟩
    have hT := (show c.st.w6_view.TaskOk t ∧ c.st.w6_view.NonWait p from h.headFrame hs).2
    exact (w6b_nonwait_step hT w hg).elim
  · refine ⟨fun w hg => ?_, fun w b hg _ => ?_⟩
    · dsimp only at hg; rw [hy] at hg; cases hg
    · dsimp only at hg; rw [hy] at hg; cases hg
  · have h' := w6_step_cinv c h
    have hlt := c.st.w6_handler_lt_of_wait hh (by rw [hk]; rfl)
    obtain ⟨k1, _, _⟩ := h.w.1.kindDone hh w0 hlt hk
    have k1' : w0 < c.st.waits.length := k1
    have e1 : (step c).st.gen (c.st.wait w0).task = .wait w0 := by
      have := (h'.w.2.taskGen w0 (Nat.lt_of_lt_of_le k1' (w6_step_s c).waitsLen)).2
      rw [← ((w6_step_s c).ident w0 k1').2.2]
      exact this
    refine ⟨fun w hg => ?_, fun w b hg _ => ?_⟩
    · dsimp only at hg; rw [e1] at hg
      injection hg with hg; subst hg
      exact ⟨r, hh, e, k, hs, hx, hk, rfl⟩
    · dsimp only at hg; rw [e1] at hg; cases hg
  · have hstep : (step c).st = ((c.w6_invokeSt hh e).onWaitTick w0).2 := by
      rw [w6_step_invoke c r hh e k hs hx, Cfg.w6_invoke_waitTick c k r hh e w0 hk]
    have hg0 : (step c).st.gen c.st.gens.length = dfltGen ∨ (step c).st.gen c.st.gens.length = .exc w0 false := by
      rw [hstep]
      rcases St.w6_onWaitTick_gen (c.w6_invokeSt hh e) w0 c.st.gens.length with h1 | ⟨_, _, h3⟩
      · left; rw [h1, Cfg.w6_invokeSt_gen]; exact St.w6b_gen_ge _ _ (Nat.le_refl _)
      · right; exact h3
    refine ⟨fun w hg => ?_, fun w b hg _ => ?_⟩
    · dsimp only at hg
      rcases hg0 with h1 | h1 <;> (rw [h1] at hg; cases hg)
    · dsimp only at hg
      rcases hg0 with h1 | h1
      · rw [h1] at hg; cases hg
      · rw [h1] at hg
        injection hg with a1 a2
        subst a1
        exact ⟨r, hh, e, k, hs, hx, hk, h0, a2.symm, rfl⟩


/-! ## (B1) the task step of a waitEvent / TimeoutError generator consumes its task -/

theorem w6b_PStop_self (t : Task) : ¬ w6b_PStop t t := by
  rintro ⟨p, hp, heq⟩
  have := congrArg Task.parent heq
  rw [hp] at this; cases this

theorem w6b_gone {P : Task → Prop} {s1 s' : St} (hT : St.W6BT P s1 s') (x : Nat) (t : Task)
    (h1 : t ∉ (s1.comp x).tasks) (hP : ¬ P t) : t ∉ (s'.comp x).tasks :=
  fun hm => (hT.add x t hm).elim h1 hP

theorem St.w6b_erase_gone (s : St) (r : Nat) (t : Task) (hn : (s.comp (s.rootOf r)).tasks.Nodup) :
    t ∉ ((s.unregisterTask r t).comp (s.rootOf r)).tasks := by
  rw [St.w6b_unregisterTask_tasks, if_pos rfl]
  exact fun hm => ((List.Nodup.mem_erase_iff hn).1 hm).1 rfl

theorem Cfg.w6b_contStop_gone (c : Cfg) (k : List Frame) (s : St) (r : Nat) (t : Task)
    (hn : (s.comp (s.rootOf r)).tasks.Nodup) : t ∉ ((c.contStop k s r t).st.comp (s.rootOf r)).tasks := by
  have h1 : t ∉ (((s.modEv t.e fun x => { x with waiting := x.waiting - 1 }).unregisterTask r t).comp (s.rootOf r)).tasks :=
    St.w6b_erase_gone (s.modEv t.e fun x => { x with waiting := x.waiting - 1 }) r t hn
  have hT : St.W6BT (w6b_PStop t) ((s.modEv t.e fun x => { x with waiting := x.waiting - 1 }).unregisterTask r t)
      (s.stopIteration r t).2 := by
    unfold St.stopIteration
    dsimp only
    generalize (s.modEv t.e fun x => { x with waiting := x.waiting - 1 }).unregisterTask r t = s1
    split
    · rename_i p hp
      exact (St.W6BT.refl _).registerTask _ _ ⟨p, hp, rfl⟩
    · split
      · exact (St.W6BT.refl _).inform _ _
      · exact St.W6BT.refl _
  unfold Cfg.contStop
  split <;> (simp only [Cfg.pop_st, Cfg.goto_st]; exact w6b_gone hT _ _ h1 (w6b_PStop_self t))

theorem Cfg.w6b_contError_gone (c : Cfg) (k : List Frame) (s : St) (r : Nat) (t : Task) (resumed : Bool)
    (hn : (s.comp (s.rootOf r)).tasks.Nodup) : t ∉ ((c.contError k s r t resumed).st.comp (s.rootOf r)).tasks := by
  have h1 : t ∉ ((s.unregisterTask r t).comp (s.rootOf r)).tasks := St.w6b_erase_gone s r t hn
  have hT : St.W6BT (fun _ => False) (s.unregisterTask r t) (s.errorBranch r t resumed).2 := by
    unfold St.errorBranch
    dsimp only
    generalize s.unregisterTask r t = s1
    w6b_t
  unfold Cfg.contError
  split <;> (simp only [Cfg.pop_st, Cfg.goto_st]; exact w6b_gone hT _ _ h1 id)

theorem Cfg.w6b_ptBodyExc_gone (c : Cfg) (k : List Frame) (r : Nat) (t : Task) (w : Nat) (fired : Bool)
    (hn : (c.st.comp (c.st.rootOf r)).tasks.Nodup) : t ∉ ((c.ptBodyExc k r t w fired).st.comp (c.st.rootOf r)).tasks := by
  unfold Cfg.ptBodyExc
  dsimp only
  split
  · exact Cfg.w6b_contStop_gone c k c.st r t hn
  · have h1 : t ∉ (((c.st.setGen t.g (.exc w true)).unregisterTask r t).comp (c.st.rootOf r)).tasks :=
      St.w6b_erase_gone (c.st.setGen t.g (.exc w true)) r t hn
    generalize (c.st.setGen t.g (.exc w true)).unregisterTask r t = s1 at h1 ⊢
    refine w6b_gone (P := fun _ => False) ?_ _ _ h1 id
    w6b_t

theorem Cfg.w6b_ptBodyWait_gone (c : Cfg) (k : List Frame) (r : Nat) (t : Task) (w : Nat)
    (hn : (c.st.comp (c.st.rootOf r)).tasks.Nodup) : t ∉ ((c.ptBodyWait k r t w).st.comp (c.st.rootOf r)).tasks := by
  unfold Cfg.ptBodyWait
  dsimp only
  have hroot : (c.st.removeHandler (c.st.wait w).hDone (some ((c.st.wait w).evName.child sfxDone))).2.rootOf r = c.st.rootOf r :=
    St.w6b_removeHandler_rootOf ..
  have hn' : ((c.st.removeHandler (c.st.wait w).hDone (some ((c.st.wait w).evName.child sfxDone))).2.comp
      ((c.st.removeHandler (c.st.wait w).hDone (some ((c.st.wait w).evName.child sfxDone))).2.rootOf r)).tasks.Nodup := by
    rw [hroot, St.w6_removeHandler_tasks]; exact hn
  generalize (c.st.removeHandler (c.st.wait w).hDone (some ((c.st.wait w).evName.child sfxDone))) = rm at hroot hn' ⊢
  split
  · have := Cfg.w6b_contError_gone c k rm.2 r t false hn'
    rwa [hroot] at this
  · split
    · have h1 : t ∉ ((rm.2.unregisterTask r t).comp (c.st.rootOf r)).tasks := by
        have := St.w6b_erase_gone rm.2 r t hn'
        rwa [hroot] at this
      generalize rm.2.unregisterTask r t = s1 at h1 ⊢
      refine w6b_gone (P := fun _ => False) ?_ _ _ h1 id
      w6b_t
    · have := Cfg.w6b_contStop_gone c k rm.2 r t hn'
      rwa [hroot] at this

/-- **B1 task_consumed.**  The task step (`ptBody r t`) of a waitEvent generator or of a `TimeoutError` generator
    * adds at most the bare parent task `⟨t.e, p, none⟩` (`except StopIteration` with a parent) to any task set, and
    * removes `t` from the task list of the root of `r`: if that list was duplicate-free (it always is,
      `w6b_tasks_nodup`), `t` is not in it any more after the step. -/
theorem w6b_task_consumed (c : Cfg) (r : Nat) (t : Task) (k : List Frame) (hs : c.stack = .ptBody r t :: k) (hx : c.exn = none)
    (hgen : (∃ w, c.st.gen t.g = .wait w) ∨ (∃ w b, c.st.gen t.g = .exc w b)) :
    (∀ x t', t' ∈ ((step c).st.comp x).tasks →
      t' ∈ (c.st.comp x).tasks ∨ ∃ p, t.parent = some p ∧ t' = ⟨t.e, p, none⟩) ∧
    ((c.st.comp (c.st.rootOf r)).tasks.Nodup → t ∉ ((step c).st.comp (c.st.rootOf r)).tasks) := by
  rw [w6_step_ptBody c r t k hs hx]
  refine ⟨fun x t' ht' => (Cfg.w6b_ptBody_t c k r t).add x t' ht', fun hn => ?_⟩
  rcases hgen with ⟨w, hg⟩ | ⟨w, b, hg⟩
  · have : c.ptBody k r t = c.ptBodyWait k r t w := by unfold Cfg.ptBody; rw [hg]
    rw [this]; exact Cfg.w6b_ptBodyWait_gone c k r t w hn
  · have : c.ptBody k r t = c.ptBodyExc k r t w b := by unfold Cfg.ptBody; rw [hg]
    rw [this]; exact Cfg.w6b_ptBodyExc_gone c k r t w b hn

/-! ## (A, continued) what the frame `ptParent r t p false` does with the caller's answer -/

theorem w6b_step_ptParent (c : Cfg) (r : Nat) (t : Task) (p : Nat) (v : Bool) (k : List Frame)
    (hs : c.stack = .ptParent r t p v :: k) (hx : c.exn = none) : step c = c.ptParent k r t p v := by
  rw [step_cons c _ k hs hx]; rfl

/-- the caller yielded a plain value: it becomes an ordinary task `⟨t.e, p, none⟩` again (`St.parentPlain`);
    `s1` is the state in which `registerTask` runs -/
theorem w6b_ptParent_plain (c : Cfg) (r : Nat) (t : Task) (p : Nat) (k : List Frame) (v : Option Nat)
    (hs : c.stack = .ptParent r t p false :: k) (hx : c.exn = none) (hy : c.ret.yield = .plain v) :
    (step c).stack = k ∧ (step c).exn = none ∧ (step c).st = c.st.parentPlain r t p v false ∧
    ∀ s1, s1 = (c.st.modEv t.e fun x => { x with waiting := x.waiting - 1 }).setValueOpt t.e v →
      s1.rootOf r < s1.comps.length → (⟨t.e, p, none⟩ : Task) ∈ ((step c).st.comp (s1.rootOf r)).tasks := by
  rw [w6b_step_ptParent c r t p false k hs hx]
  unfold Cfg.ptParent; rw [hy]
  refine ⟨rfl, hx, rfl, ?_⟩
  intro s1 hs1 hlt
  simp only [Cfg.pop_st, St.parentPlain, Bool.false_eq_true, if_false]
  rw [← hs1, St.w6b_registerTask_tasks, if_pos ⟨rfl, hlt⟩]
  exact (w6_mem_addUniq _ _ _).2 (Or.inr rfl)

/-- the caller yielded another `call()` / `wait()`: it becomes the `parentGen` of the new wait state (`St.parentSub`) -/
theorem w6b_ptParent_sub (c : Cfg) (r : Nat) (t : Task) (p : Nat) (k : List Frame) (w2 : Nat)
    (hs : c.stack = .ptParent r t p false :: k) (hx : c.exn = none) (hy : c.ret.yield = .sub w2)
    (hw2 : w2 < c.st.waits.length) :
    (step c).stack = k ∧ (step c).exn = none ∧ (step c).st = c.st.parentSub r t p w2 false ∧
    ((step c).st.wait w2).parentGen = p ∧ ((step c).st.wait w2).taskEvent = t.e := by
  rw [w6b_step_ptParent c r t p false k hs hx]
  unfold Cfg.ptParent; rw [hy]
  refine ⟨rfl, hx, rfl, ?_⟩
  have hlt : w2 < (c.st.startWait w2).waits.length :=
    Nat.lt_of_lt_of_le hw2 (St.W6S.startWait (St.W6S.refl _) w2).waitsLen
  simp only [Cfg.pop_st, St.parentSub, Bool.false_eq_true, if_false]
  rw [St.w6_modWait_wait_lt _ _ _ hlt]
  exact ⟨rfl, rfl⟩

/-- the caller finished (`StopIteration`): `processTask` goes through `contStop`: the next frame is `eventDone r t.e false`
    (the caller's event completes) or the frame is popped (other handlers of the event are still waiting, or the caller
    itself has a parent, which is re-registered) -/
theorem w6b_ptParent_stop (c : Cfg) (r : Nat) (t : Task) (p : Nat) (k : List Frame)
    (hs : c.stack = .ptParent r t p false :: k) (hx : c.exn = none) (hy : c.ret.yield = .stop) :
    step c = c.contStop k c.st r t ∧ (step c).st = (c.st.stopIteration r t).2 ∧
    ((step c).stack = .eventDone r t.e false :: k ∨ (step c).stack = k) := by
  rw [w6b_step_ptParent c r t p false k hs hx]
  unfold Cfg.ptParent; rw [hy]
  refine ⟨rfl, ?_, ?_⟩
  · dsimp only; unfold Cfg.contStop; split <;> rfl
  · dsimp only; unfold Cfg.contStop; split
    · left; rfl
    · right; rfl

/-- the caller raised: `processTask` goes through `contError … resumed := true`: the next frame is `eventDone r t.e true`
    or the frame is popped -/
theorem w6b_ptParent_raised (c : Cfg) (r : Nat) (t : Task) (p : Nat) (k : List Frame)
    (hs : c.stack = .ptParent r t p false :: k) (hx : c.exn = none) (hy : c.ret.yield = .raised) :
    step c = c.contError k c.st r t true ∧ (step c).st = (c.st.errorBranch r t true).2 ∧
    ((step c).stack = .eventDone r t.e true :: k ∨ (step c).stack = k) := by
  rw [w6b_step_ptParent c r t p false k hs hx]
  unfold Cfg.ptParent; rw [hy]
  refine ⟨rfl, ?_, ?_⟩
  · dsimp only; unfold Cfg.contError; split <;> rfl
  · dsimp only; unfold Cfg.contError; split
    · left; rfl
    · right; rfl


/-! ## (B3, part) registered waitEvent tasks carry a parent -/

theorem w6b_step_wait_task_parent {n0 : Nat} {c : Cfg} (h : W6CInv n0 c)
    (ih : ∀ x t, t ∈ (c.st.comp x).tasks → ∀ w, c.st.gen t.g = .wait w → t.parent.isSome = true) :
    ∀ x t, t ∈ ((step c).st.comp x).tasks → ∀ w, (step c).st.gen t.g = .wait w → t.parent.isSome = true := by
  intro x t ht w hg
  by_cases hold : t ∈ (c.st.comp x).tasks
  · have hT := h.w.2.tasks x t hold
    exact ih x t hold w ((w6_step_s c).genBack t.g hT.1 w hg)
  · obtain ⟨_, _, _, _, _, _, _, heq⟩ := (w6b_wait_exc_tasks_only_from_handlers h x t ht hold).1 w hg
    rw [heq]; rfl

/-- in every configuration of an admissible session: a task in a task set whose generator is a waitEvent generator has a
    parent (it is the resumption task `_on_done` registered), and its wait state has `flag` set (`w6_wait_task_needs_flag`) -/
theorem w6b_wait_task_has_parent {s0 : St} (hi : W6InitWait s0) {c : Cfg} (h : W6ReachW s0.hs.length s0 c) :
    ∀ x t, t ∈ (c.st.comp x).tasks → ∀ w, c.st.gen t.g = .wait w → t.parent.isSome = true := by
  induction h with
  | init d tape op hop =>
    intro x t ht
    have : (startOf (envChange s0 d tape) op).st.comp x = s0.comp x := by cases op <;> rfl
    rw [this, hi.tasks x] at ht; cases ht
  | step hc ih => exact w6b_step_wait_task_parent (W6ReachW.cinv hi hc) ih
  | @next c' d tape op hop _ _ ih =>
    intro x t ht w hg
    have e1 : (startOf (envChange c'.st d tape) op).st.comp x = c'.st.comp x := by cases op <;> rfl
    have e2 : (startOf (envChange c'.st d tape) op).st.gen t.g = c'.st.gen t.g := by cases op <;> rfl
    rw [e1] at ht; rw [e2] at hg
    exact ih x t ht w hg

end CV.Core

import CV.Proofs.NodeSym
/-
C19: the symmetric composition is a conservative extension of the two-party composition.  When end B originates no
calls and no event ever reaches A's application, the symmetric run IS the two-party run of the corresponding steps
(`ns_oneway`): every theorem about `n2_run` (once_and_back…, answers_not_mixed…) then speaks about the symmetric world.
-/
namespace CV
namespace Node

/-- the two-party world inside a symmetric one (A the caller, B the callee) -/
def ns_proj2 (w : ns_World) : n2_World :=
  { a := w.a.p, b := w.b.p, ab := w.a.out, ba := w.b.out, todo := w.a.todo, running := w.b.running,
    fired := w.b.fired, resolved := w.a.resolved, yielded := w.a.yielded, aborted := w.aborted }

/-- the two-party step a symmetric step amounts to; `none`: B sends / B polls / a handler on A returns -/
def ns_toN2 : Bool × ns_Op → Option n2_Step
  | (false, .send) => some .send
  | (true, .deliver n) => some (.deliverAB n)
  | (true, .answer n) => some (.answer n)
  | (false, .deliver n) => some (.deliverBA n)
  | (false, .poll n) => some (.poll n)
  | _ => none

theorem ns_absorbB_proj (E : n2_Env) :
    ∀ (effs : List Eff) (a b : ns_Side) (ab : Bool),
      ns_proj2 { a := a, b := ns_absorb E.dumps b effs, aborted := ab } =
        n2_absorbB E (ns_proj2 { a := a, b := b, aborted := ab }) effs := by
  intro effs
  induction effs with
  | nil => intro a b ab; rfl
  | cons ef r ih =>
    intro a b ab
    cases ef with
    | fire e id => simp only [ns_absorb, n2_absorbB]; rw [ih]; rfl
    | write p => simp only [ns_absorb, n2_absorbB]; rw [ih]; rfl
    | resolve n v er => simp only [ns_absorb, n2_absorbB]; rw [ih]; rfl

theorem ns_absorbA_proj (E : n2_Env) :
    ∀ (effs : List Eff) (a b : ns_Side) (ab : Bool),
      ns_proj2 { a := ns_absorb E.dumps a effs, b := b, aborted := ab } =
        n2_absorbA E (ns_proj2 { a := a, b := b, aborted := ab }) effs := by
  intro effs
  induction effs with
  | nil => intro a b ab; rfl
  | cons ef r ih =>
    intro a b ab
    cases ef with
    | fire e id => simp only [ns_absorb, n2_absorbA]; rw [ih]; rfl
    | write p => simp only [ns_absorb, n2_absorbA]; rw [ih]; rfl
    | resolve n v er => simp only [ns_absorb, n2_absorbA]; rw [ih]; rfl

/-- the five steps that have a two-party counterpart -/
theorem ns_step_proj (E : ns_Env) (w : ns_World) (st : Bool × ns_Op) (s2 : n2_Step) (h : ns_toN2 st = some s2) :
    ns_proj2 (ns_step E w st) = n2_step E.base (ns_proj2 w) s2 := by
  obtain ⟨side, op⟩ := st
  cases side <;> cases op <;> simp only [ns_toN2, Option.some.injEq, reduceCtorEq] at h <;> subst h
  · -- A sends
    simp only [ns_step, ns_act, n2_step, ns_proj2]
    split <;> simp_all [n2_Env.cA]
  · -- A reads
    simp only [ns_step, ns_act, n2_step]
    exact ns_absorbA_proj E.base _ _ _ _
  · -- A polls
    simp only [ns_step, ns_act, n2_step, ns_proj2]
    split
    · split <;> simp_all
    · simp_all
  · -- B reads
    simp only [ns_step, ns_act, n2_step]
    exact ns_absorbB_proj E.base _ _ _ _
  · -- a handler on B returns
    simp only [ns_step, ns_act, n2_step, n2_takeAnswer, ns_proj2]
    split
    · simp_all
    · rename_i e id k hf
      cases E.base.beh k e <;> simp [n2_resultHandler, n2_Env.cB]

/-! ## B originates nothing, A's application is never reached -/

structure ns_One (w : ns_World) : Prop where
  btodo : w.b.todo = []
  bpend : w.b.p.pending = []
  arun : w.a.running.length ≤ w.a.fired.length

theorem ns_absorb_mono (dumps : J → Bytes) :
    ∀ (effs : List Eff) (s : ns_Side), s.fired.length ≤ (ns_absorb dumps s effs).fired.length ∧
      (s.running.length ≤ s.fired.length →
        (ns_absorb dumps s effs).running.length ≤ (ns_absorb dumps s effs).fired.length) := by
  intro effs
  induction effs with
  | nil => intro s; exact ⟨Nat.le_refl _, id⟩
  | cons ef r ih =>
    intro s
    cases ef with
    | fire e id =>
      simp only [ns_absorb]
      obtain ⟨h1, h2⟩ := ih { s with running := s.running ++ [(e, id, s.fired.length)], fired := s.fired ++ [(e, id)] }
      refine ⟨?_, ?_⟩
      · simp only [List.length_append, List.length_cons, List.length_nil] at h1; omega
      · intro h; apply h2; simp only [List.length_append, List.length_cons, List.length_nil]; omega
    | write p => simp only [ns_absorb]; exact ih { s with out := s.out ++ wire (dumps p) }
    | resolve n v er => simp only [ns_absorb]; exact ih { s with resolved := s.resolved ++ [(n, v, er)] }

theorem ns_act_mono (c : Cfg) (parse : Bytes → PRes) (dumps : J → Bytes)
    (beh : Nat → Ev → Option (J × List (String × J))) (me peer : ns_Side) (op : ns_Op) :
    me.fired.length ≤ (ns_act c parse dumps beh me peer op).1.fired.length ∧
      (me.running.length ≤ me.fired.length →
        (ns_act c parse dumps beh me peer op).1.running.length ≤ (ns_act c parse dumps beh me peer op).1.fired.length) := by
  cases op with
  | send => simp only [ns_act]; split <;> exact ⟨Nat.le_refl _, id⟩
  | deliver n =>
    simp only [ns_act]
    exact ns_absorb_mono dumps _ { me with p := (recv c parse me.p (peer.out.take n)).1 }
  | answer n =>
    simp only [ns_act]
    split
    · exact ⟨Nat.le_refl _, id⟩
    · have hl := List.length_eraseP_le (p := fun r : Ev × J × Nat => r.2.1.natKey == some n) (l := me.running)
      split
      · exact ⟨Nat.le_refl _, fun h => Nat.le_trans hl h⟩
      · exact ⟨Nat.le_refl _, fun h => Nat.le_trans hl h⟩
  | poll n =>
    simp only [ns_act]
    split
    · split <;> exact ⟨Nat.le_refl _, id⟩
    · exact ⟨Nat.le_refl _, id⟩

theorem ns_step_one (E : ns_Env) (w : ns_World) (st : Bool × ns_Op) (h : ns_One w) :
    ns_One (ns_step E w st) ∧ w.a.fired.length ≤ (ns_step E w st).a.fired.length := by
  obtain ⟨side, op⟩ := st
  cases side with
  | false =>
    obtain ⟨o, ho⟩ := ns_act_peer E.base.cA E.base.parse E.base.dumps E.behA w.a w.b op
    obtain ⟨m1, m2⟩ := ns_act_mono E.base.cA E.base.parse E.base.dumps E.behA w.a w.b op
    refine ⟨⟨?_, ?_, m2 h.arun⟩, m1⟩
    · simp only [ns_step]; rw [ho]; exact h.btodo
    · simp only [ns_step]; rw [ho]; exact h.bpend
  | true =>
    obtain ⟨o, ho⟩ := ns_act_peer E.base.cB E.base.parse E.base.dumps E.base.beh w.b w.a op
    have hb : (ns_act E.base.cB E.base.parse E.base.dumps E.base.beh w.b w.a op).1.todo = [] ∧
        (ns_act E.base.cB E.base.parse E.base.dumps E.base.beh w.b w.a op).1.p.pending = [] := by
      cases op with
      | send => simp [ns_act, h.btodo, h.bpend]
      | deliver n =>
        simp only [ns_act]
        obtain ⟨a1, a2, _, _⟩ := ns_absorb_fields E.base.dumps (recv E.base.cB E.base.parse w.b.p (w.a.out.take n)).2.1
          { w.b with p := (recv E.base.cB E.base.parse w.b.p (w.a.out.take n)).1 }
        refine ⟨by rw [a2]; exact h.btodo, ?_⟩
        rw [a1]
        have := (ns_recv_ids E.base.cB E.base.parse w.b.p (w.a.out.take n)).2.1
        simp only [pids, h.bpend, List.map_nil, List.map_eq_nil_iff] at this
        exact this
      | answer n =>
        simp only [ns_act]
        split
        · exact ⟨h.btodo, h.bpend⟩
        · split <;> exact ⟨h.btodo, h.bpend⟩
      | poll n =>
        simp [ns_act, poll, h.bpend, h.btodo]
    refine ⟨⟨hb.1, hb.2, ?_⟩, ?_⟩
    · simp only [ns_step]; rw [ho]; exact h.arun
    · simp only [ns_step]; rw [ho]; exact Nat.le_refl _

theorem ns_run_fired_mono (E : ns_Env) (sched : List (Bool × ns_Op)) :
    ∀ w, ns_One w → w.a.fired.length ≤ (ns_run E w sched).a.fired.length := by
  induction sched with
  | nil => intro w _; exact Nat.le_refl _
  | cons st r ih =>
    intro w h
    simp only [ns_run, List.foldl_cons]
    obtain ⟨h1, h2⟩ := ns_step_one E w st h
    exact Nat.le_trans h2 (ih _ h1)

/-- the three steps without a two-party counterpart do nothing -/
theorem ns_step_noop (E : ns_Env) (w : ns_World) (st : Bool × ns_Op) (h : ns_One w) (hf : w.a.fired = [])
    (hn : ns_toN2 st = none) : ns_step E w st = w := by
  have hr : w.a.running = [] := by
    have := h.arun; rw [hf] at this; exact List.eq_nil_of_length_eq_zero (by simpa using this)
  obtain ⟨side, op⟩ := st
  cases side <;> cases op <;> simp only [ns_toN2, reduceCtorEq] at hn
  · simp [ns_step, ns_act, hr]
  · simp [ns_step, ns_act, h.btodo]
  · simp [ns_step, ns_act, poll, h.bpend]

theorem ns_oneway_gen (E : ns_Env) (sched : List (Bool × ns_Op)) :
    ∀ w, ns_One w → (ns_run E w sched).a.fired = [] →
      ns_proj2 (ns_run E w sched) = n2_run E.base (ns_proj2 w) (sched.filterMap ns_toN2) := by
  induction sched with
  | nil => intro w _ _; rfl
  | cons st r ih =>
    intro w h hq
    have hf : w.a.fired = [] := by
      have := ns_run_fired_mono E (st :: r) w h
      rw [hq] at this
      exact List.eq_nil_of_length_eq_zero (by simpa using this)
    simp only [ns_run, List.foldl_cons] at hq ⊢
    cases hn : ns_toN2 st with
    | none =>
      rw [ns_step_noop E w st h hf hn] at hq ⊢
      simp only [List.filterMap_cons, hn]
      exact ih w h hq
    | some s2 =>
      simp only [List.filterMap_cons, hn, n2_run, List.foldl_cons]
      rw [← ns_step_proj E w st s2 hn]
      exact ih _ (ns_step_one E w st h).1 hq

theorem ns_one_init (calls : List Ev) : ns_One (ns_init calls []) := ⟨rfl, rfl, Nat.le_refl _⟩

end Node
end CV

import CV.Proofs.HttpWf1
/-
Helper lemmas for C13 `wellformed_*` (2/3): the chunk loop of the parser model reads what the
RFC chunked-body decoder `decodeChunked` reads; then the three phases of `exec` on a message
accepted by `isReading`.
-/
namespace CV
namespace Http

/-- one pass of the chunk loop, when the buffer starts with a size line the lexer accepts -/
theorem wf13_chunkStep (lex : Lex) (c : Core) {x line rest : Bytes} {n : Nat}
    (hs : splitLine x = some (line, rest)) (hl : lex.chunk line = some n) :
    chunkStep lex c x =
      if n = 0 then
        if trailersDone rest then
          .stop ⟨{ c with complete := true, over := c.over || !(trailerRest rest).isEmpty }, x⟩
        else .stop ⟨c, x⟩
      else if rest.length < n + 2 then .stop ⟨c, x⟩
      else .more { c with body := c.body ++ rest.take n } (rest.drop (n + 2)) := by
  obtain ⟨_, hf⟩ := wf13_splitLine hs
  obtain ⟨ht, hd⟩ := wf13_splitLine_take hs
  unfold chunkStep
  simp only [hf, ht, hd, hl]

/-- the chunk loop on an RFC chunked body: all chunk data appended, complete, nothing left over -/
theorem wf13_chunkLoop (lex : Lex) (hchunk : ∀ l n, rfcChunkSize l = some n → lex.chunk l = some n)
    (x : Bytes) : ∀ (c : Core) (body : Bytes), decodeChunked x = some body →
      (chunkLoop lex c x).core = { c with body := c.body ++ body, complete := true } := by
  induction hn : x.length using Nat.strongRecOn generalizing x with
  | ind n ih =>
    intro c body h
    rw [decodeChunked] at h
    split at h
    · cases h
    · rename_i line rest hs
      cases hr : rfcChunkSize line with
      | none => simp [hr] at h
      | some sz =>
        have hl := hchunk _ _ hr
        have hstep := wf13_chunkStep lex c hs hl
        cases sz with
        | zero =>
          simp only [hr] at h
          split at h
          · rename_i ht
            cases h
            obtain ⟨t1, t2⟩ := wf13_trailer ht
            simp only [t1, t2, if_true] at hstep
            rw [chunkLoop_stop hstep]
            cases c
            simp
          · cases h
        | succ size =>
          simp only [hr] at h
          split at h
          · rename_i hcond
            cases hd : decodeChunked (rest.drop (size + 3)) with
            | none => simp [hd] at h
            | some b =>
              simp only [hd, Option.some.injEq] at h
              subst h
              have hlt : ¬ rest.length < size + 1 + 2 := by omega
              simp only [Nat.succ_ne_zero, if_false, hlt] at hstep
              rw [chunkLoop_more hstep]
              have hlen : (rest.drop (size + 1 + 2)).length < n := by
                have := splitLine_len hs
                simp only [List.length_drop]; omega
              have := ih _ hlen (rest.drop (size + 1 + 2)) rfl
                { c with body := c.body ++ rest.take (size + 1) } b hd
              rw [this]
              simp
          · cases h

end Http
end CV

import CV.Model.IrcComp
import CV.Proofs.Irc
import CV.Proofs.Line
/-
Helper lemmas for the component part of C18 (CV/Model/IrcComp.lean).  Core Lean only.
-/
namespace CV
namespace Irc

/-! ### UTF-8 -/

theorem encodeUtf8_append (a b : Str) : encodeUtf8 (a ++ b) = encodeUtf8 a ++ encodeUtf8 b := by
  simp [encodeUtf8]

theorem encodeUtf8_crlf : encodeUtf8 ['\r', '\n'] = [Line.CR, Line.LF] := by decide

theorem mk_toArray_eq_toByteArray (l : List UInt8) : (⟨l.toArray⟩ : ByteArray) = l.toByteArray := by
  apply ByteArray.ext
  simp [List.data_toByteArray]

/-- decoding what was encoded gives the text back (the strict path of the decoder; core Lean's
    `List.utf8Decode?_utf8Encode`) -/
theorem decodeStrict_encodeUtf8 (s : Str) : decodeStrict (encodeUtf8 s) = some s := by
  have := @List.utf8Decode?_utf8Encode s
  unfold decodeStrict encodeUtf8
  unfold List.utf8Encode at this
  rw [mk_toArray_eq_toByteArray, this]; simp

theorem decodeUtf8_encodeUtf8 (s : Str) : decodeUtf8 (encodeUtf8 s) = s := by
  simp [decodeUtf8, decodeStrict_encodeUtf8]

theorem ofNat_ne_LF (n : Nat) (h1 : 128 ≤ n) (h2 : n < 256) : UInt8.ofNat n ≠ 10 := by
  intro h
  have := congrArg UInt8.toNat h
  simp at this
  omega
theorem LF_not_mem_utf8EncodeChar (c : Char) (h : c ≠ '\n') : Line.LF ∉ String.utf8EncodeChar c := by
  unfold String.utf8EncodeChar
  simp only []
  have hv : c.val.toNat ≠ 10 := by
    intro e
    apply h
    apply Char.ext
    apply UInt32.toNat_inj.1
    simpa using e
  split
  · simp only [Line.LF, List.mem_singleton]
    intro h2
    have := congrArg UInt8.toNat h2
    have e : c.toNat = c.val.toNat := rfl
    simp at this
    omega
  · split
    · simp only [Line.LF, List.mem_cons, List.not_mem_nil, or_false, not_or]
      exact ⟨(ofNat_ne_LF _ (by omega) (by omega)).symm, (ofNat_ne_LF _ (by omega) (by omega)).symm⟩
    · split
      · simp only [Line.LF, List.mem_cons, List.not_mem_nil, or_false, not_or]
        exact ⟨(ofNat_ne_LF _ (by omega) (by omega)).symm, (ofNat_ne_LF _ (by omega) (by omega)).symm, (ofNat_ne_LF _ (by omega) (by omega)).symm⟩
      · simp only [Line.LF, List.mem_cons, List.not_mem_nil, or_false, not_or]
        exact ⟨(ofNat_ne_LF _ (by omega) (by omega)).symm, (ofNat_ne_LF _ (by omega) (by omega)).symm, (ofNat_ne_LF _ (by omega) (by omega)).symm, (ofNat_ne_LF _ (by omega) (by omega)).symm⟩

/-- the byte LF occurs in the encoding only as the character LF -/
theorem LF_not_mem_encodeUtf8 (s : Str) (h : '\n' ∉ s) : Line.LF ∉ encodeUtf8 s := by
  unfold encodeUtf8
  simp only [List.mem_flatMap, not_exists, not_and]
  intro c hc
  exact LF_not_mem_utf8EncodeChar c (fun e => h (e ▸ hc))

/-! ### `request` -/

theorem requestBytes_eq_some {m : Msg} {w : Bytes} (h : requestBytes m = some w) :
    checkArgs Policy.current m = true ∧ w = encodeUtf8 (body m) ++ [Line.CR, Line.LF] := by
  unfold requestBytes at h
  cases hr : render Policy.current m with
  | none => simp [hr] at h
  | some t =>
    obtain ⟨hc, rfl⟩ := render_eq_some hr
    simp only [hr, Option.map_some, Option.some.injEq] at h
    exact ⟨hc, by rw [← h, encodeUtf8_append, encodeUtf8_crlf]⟩

theorem LF_not_mem_body (m : Msg) (h : checkArgs Policy.current m = true) :
    Line.LF ∉ encodeUtf8 (body m) := by
  apply LF_not_mem_encodeUtf8
  intro hm
  have := body_noBrk m h _ hm
  simp [isBrk] at this

/-! ### `strip` -/

theorem mem_colorSubK (dig : Char → Bool) (s : Str) :
    ∀ k, ∀ c ∈ colorSubK dig k s, c ∈ s ∧ c ≠ cColor := by
  induction s with
  | nil => intro k c hc; cases k <;> simp [colorSubK] at hc
  | cons x r ih =>
    intro k c hc
    cases k with
    | succ k =>
      simp only [colorSubK] at hc
      exact ⟨List.mem_cons_of_mem _ (ih k c hc).1, (ih k c hc).2⟩
    | zero =>
      simp only [colorSubK] at hc
      split at hc
      · exact ⟨List.mem_cons_of_mem _ (ih _ c hc).1, (ih _ c hc).2⟩
      · next hne =>
        rcases List.mem_cons.1 hc with rfl | hc
        · exact ⟨by simp, hne⟩
        · exact ⟨List.mem_cons_of_mem _ (ih 0 c hc).1, (ih 0 c hc).2⟩

theorem mem_colorSub (dig : Char → Bool) (s : Str) : ∀ c ∈ colorSub dig s, c ∈ s ∧ c ≠ cColor :=
  mem_colorSubK dig s 0

theorem colorSub_id (dig : Char → Bool) (s : Str) (h : cColor ∉ s) : colorSub dig s = s := by
  unfold colorSub
  induction s with
  | nil => rfl
  | cons c r ih =>
    have hc : c ≠ cColor := fun e => h (by simp [e])
    simp only [colorSubK, if_neg hc, ih (fun hm => h (List.mem_cons_of_mem _ hm))]

theorem plain_iff (s : Str) : plain s = true ↔ ∀ c ∈ s, c ∉ fmtCodes ∧ c ≠ cColor ∧ c ≠ cReset := by
  simp [plain, List.all_eq_true, and_assoc]

theorem stripFmt_plain_id (dig : Char → Bool) (s : Str) (h : plain s = true) : stripFmt dig s = s := by
  rw [plain_iff] at h
  unfold stripFmt
  have h1 : s.filter (fun c => !fmtCodes.contains c) = s := by
    apply List.filter_eq_self.2
    intro c hc
    simpa using (h c hc).1
  rw [h1, colorSub_id dig s (fun hm => (h _ hm).2.1 rfl)]
  have h2 : s.filter (· != cColor) = s := by
    apply List.filter_eq_self.2
    intro c hc
    simpa using (h c hc).2.1
  rw [h2]
  apply List.filter_eq_self.2
  intro c hc
  simpa using (h c hc).2.2

theorem stripFmt_plain (dig : Char → Bool) (s : Str) : plain (stripFmt dig s) = true := by
  rw [plain_iff]
  intro c hc
  unfold stripFmt at hc
  simp only [List.mem_filter] at hc
  obtain ⟨⟨hc, h3⟩, hf⟩ := hc
  have := mem_colorSub dig _ c hc
  simp only [List.mem_filter] at this
  refine ⟨by simpa using this.1.2, by simpa using h3, by simpa using hf⟩

theorem dropColon_id (s : Str) (h : s.head? ≠ some ':') : dropColon s = s := by
  unfold dropColon
  split
  · simp at h
  · rfl

/-! ### `parseprefix` and `from_string` -/

theorem splitLast_eq_some {c : Char} {l a b : Str} (h : splitLast c l = some (a, b)) :
    l = a ++ c :: b := by
  induction l generalizing a b with
  | nil => simp [splitLast] at h
  | cons x rest ih =>
    simp only [splitLast] at h
    cases hr : splitLast c rest with
    | some ab =>
      obtain ⟨a', b'⟩ := ab
      simp only [hr, Option.some.injEq, Prod.mk.injEq] at h
      obtain ⟨rfl, rfl⟩ := h
      simp [ih hr]
    | none =>
      simp only [hr] at h
      split at h
      · next hx =>
        simp only [Option.some.injEq, Prod.mk.injEq] at h
        obtain ⟨rfl, rfl⟩ := h
        simp [hx]
      · simp at h

theorem takeWhile_noLF (l : Str) (h : '\n' ∉ l) : l.takeWhile (· != '\n') = l := by
  induction l with
  | nil => rfl
  | cons x rest ih =>
    have hx : x ≠ '\n' := fun e => h (by simp [e])
    simp [List.takeWhile_cons, hx, ih (fun hm => h (List.mem_cons_of_mem _ hm))]

/-- `from_string` undoes `parseprefix`: joining the parts gives the raw prefix back -/
theorem rejoin_parsePrefix (p : Str) (hlf : '\n' ∉ p) :
    rejoinPrefix (parsePrefix p) = if p = [] then none else some p := by
  cases p with
  | nil => rfl
  | cons c0 rest =>
    have hrest : '\n' ∉ rest := fun hm => hlf (List.mem_cons_of_mem _ hm)
    simp only [parsePrefix, takeWhile_noLF rest hrest]
    split
    · rfl
    · cases h1 : splitLast '@' rest with
      | none => rfl
      | some bh =>
        obtain ⟨b, host⟩ := bh
        simp only
        cases h2 : splitLast '!' b with
        | none => rfl
        | some nu =>
          obtain ⟨n, user⟩ := nu
          have e1 := splitLast_eq_some h1
          have e2 := splitLast_eq_some h2
          simp [rejoinPrefix, joinPrefix, e1, e2]

end Irc
end CV

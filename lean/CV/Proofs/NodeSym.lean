import CV.Proofs.NodeTwoGate
/-
C19, symmetric composition (`ns_step`, CV/Model/NodeTwo.lean): both ends of one connection originate calls.
Hypothesis-free facts (no assumption about the codec, the bytes on the wire, the peer, the handlers):
  * the send firewall: a rejected call changes nothing but `todo` / `blocked` (`ns_send_blocked`)
  * the receive firewalls are gates on both ends (`ns_run_gate`)
  * packets: a result packet is never dispatched as a call, a call packet never resolves a waiting call
  * ids: an answer is only ever accepted for an id that is registered in the accepting end's OWN table, i.e. one of
    the calls this end made itself (`ns_run_ids`); a waiting caller is resumed at most once
-/
namespace CV
namespace Node

/-! ## packets -/

theorem ns_isValue_dumpValue (excl : List String) (id er v : J) (attrs : List (String × J)) :
    isValuePacket (dumpValue excl id er v attrs) = true := by
  simp [isValuePacket, dumpValue, J.lookup]

theorem ns_isValue_dumpEvent (excl : List String) (e : Ev) (id : J) :
    isValuePacket (dumpEvent excl e id) = false := by
  simp [isValuePacket, dumpEvent, J.lookup]

/-- a value packet (whatever its content) never makes the dispatcher fire, never makes the end write -/
theorem ns_value_packet_effects (c : Cfg) (s : Proto) (j : J) (h : isValuePacket j = true) :
    ∀ x ∈ (processJ c s j).2, ∃ n v er, x = Eff.resolve n v er := by
  intro x hx
  unfold processJ at hx
  rw [if_pos h] at hx
  split at hx
  · split at hx
    · split at hx
      · simp at hx; exact ⟨_, _, _, hx⟩
      · simp at hx
    · simp at hx
  · simp at hx

/-- a call packet (whatever its content) never resolves a waiting call and leaves the protocol state alone -/
theorem ns_call_packet_effects (c : Cfg) (s : Proto) (j : J) (h : isValuePacket j = false) :
    (processJ c s j).1 = s ∧ ∀ n v er, Eff.resolve n v er ∉ (processJ c s j).2 := by
  unfold processJ
  rw [if_neg (by simp [h])]
  split
  · split <;> simp
  · simp

/-! ## what a read does to the id bookkeeping -/

def pids (s : Proto) : List Nat := s.pending.map (·.id)

theorem ns_resolvePending_ids (ps : List Pending) (n : Nat) (v er : J) (m : List (String × J)) :
    (resolvePending ps n v er m).map (·.id) = ps.map (·.id) := by
  unfold resolvePending
  rw [List.map_map]
  apply List.map_congr_left
  intro p _
  simp only [Function.comp]
  split <;> rfl

theorem ns_processJ_ids (c : Cfg) (s : Proto) (j : J) :
    (processJ c s j).1.nid = s.nid ∧ pids (processJ c s j).1 = pids s ∧
      ∀ n v er, Eff.resolve n v er ∈ (processJ c s j).2 → n ∈ pids s := by
  unfold processJ
  split
  · split
    · split
      · split
        · rename_i hany
          refine ⟨rfl, by simp [pids, ns_resolvePending_ids], ?_⟩
          intro n' v' er' hm
          simp at hm
          obtain ⟨rfl, _, _⟩ := hm
          obtain ⟨p, hp, hpe⟩ := List.any_eq_true.mp hany
          exact List.mem_map.mpr ⟨p, hp, by simpa using hpe⟩
        · exact ⟨rfl, rfl, by simp⟩
      · exact ⟨rfl, rfl, by simp⟩
    · exact ⟨rfl, rfl, by simp⟩
  · split
    · split <;> exact ⟨rfl, rfl, by simp⟩
    · exact ⟨rfl, rfl, by simp⟩

theorem ns_processAll_ids (c : Cfg) (parse : Bytes → PRes) :
    ∀ (ps : List Bytes) (s : Proto), (processAll c parse s ps).1.nid = s.nid ∧
      pids (processAll c parse s ps).1 = pids s ∧
      ∀ n v er, Eff.resolve n v er ∈ (processAll c parse s ps).2 → n ∈ pids s := by
  intro ps
  induction ps with
  | nil => intro s; exact ⟨rfl, rfl, by simp [processAll]⟩
  | cons p ps ih =>
    intro s
    simp only [processAll]
    split
    · rename_i j _
      obtain ⟨h1, h2, h3⟩ := ns_processJ_ids c s j
      obtain ⟨g1, g2, g3⟩ := ih (processJ c s j).1
      refine ⟨g1.trans h1, g2.trans h2, ?_⟩
      intro n v er hm
      rcases List.mem_append.mp hm with hm | hm
      · exact h3 n v er hm
      · rw [← h2]; exact g3 n v er hm
    · exact ih s

theorem ns_recv_ids (c : Cfg) (parse : Bytes → PRes) (s : Proto) (d : Bytes) :
    (recv c parse s d).1.nid = s.nid ∧ pids (recv c parse s d).1 = pids s ∧
      ∀ n v er, Eff.resolve n v er ∈ (recv c parse s d).2.1 → n ∈ pids s := by
  simp only [recv]
  exact ns_processAll_ids c parse _ _

/-! ## absorb -/

theorem ns_absorb_fields (dumps : J → Bytes) :
    ∀ (effs : List Eff) (s : ns_Side), (ns_absorb dumps s effs).p = s.p ∧ (ns_absorb dumps s effs).todo = s.todo ∧
      (ns_absorb dumps s effs).yielded = s.yielded ∧ (ns_absorb dumps s effs).blocked = s.blocked := by
  intro effs
  induction effs with
  | nil => intro s; exact ⟨rfl, rfl, rfl, rfl⟩
  | cons ef r ih => intro s; cases ef <;> simp only [ns_absorb] <;> exact ih _

theorem ns_absorb_gate (dumps : J → Bytes) (ok : Ev → Bool) :
    ∀ (effs : List Eff) (s : ns_Side), (∀ e id, Eff.fire e id ∈ effs → ok e = true) →
      (∀ x ∈ s.fired, ok x.1 = true) → ∀ x ∈ (ns_absorb dumps s effs).fired, ok x.1 = true := by
  intro effs
  induction effs with
  | nil => intro s _ hs; simpa [ns_absorb] using hs
  | cons ef r ih =>
    intro s he hs
    cases ef with
    | fire e id =>
      simp only [ns_absorb]
      apply ih
      · intro e' id' h'; exact he e' id' (List.mem_cons_of_mem _ h')
      · intro x hx
        simp only [List.mem_append, List.mem_singleton] at hx
        rcases hx with hx | rfl
        · exact hs x hx
        · exact he e id (List.mem_cons_self ..)
    | write p =>
      simp only [ns_absorb]
      exact ih _ (fun e' id' h' => he e' id' (List.mem_cons_of_mem _ h')) hs
    | resolve n v er =>
      simp only [ns_absorb]
      exact ih _ (fun e' id' h' => he e' id' (List.mem_cons_of_mem _ h')) hs

theorem ns_absorb_resolved (dumps : J → Bytes) (P : Nat → Prop) :
    ∀ (effs : List Eff) (s : ns_Side), (∀ n v er, Eff.resolve n v er ∈ effs → P n) →
      (∀ x ∈ s.resolved, P x.1) → ∀ x ∈ (ns_absorb dumps s effs).resolved, P x.1 := by
  intro effs
  induction effs with
  | nil => intro s _ hs; simpa [ns_absorb] using hs
  | cons ef r ih =>
    intro s he hs
    cases ef with
    | resolve n v er =>
      simp only [ns_absorb]
      apply ih
      · intro n' v' er' h'; exact he n' v' er' (List.mem_cons_of_mem _ h')
      · intro x hx
        simp only [List.mem_append, List.mem_singleton] at hx
        rcases hx with hx | rfl
        · exact hs x hx
        · exact he n v er (List.mem_cons_self ..)
    | write p =>
      simp only [ns_absorb]
      exact ih _ (fun n' v' er' h' => he n' v' er' (List.mem_cons_of_mem _ h')) hs
    | fire e id =>
      simp only [ns_absorb]
      exact ih _ (fun n' v' er' h' => he n' v' er' (List.mem_cons_of_mem _ h')) hs

/-! ## send, poll, finish -/

theorem ns_send_blocked_proto (c : Cfg) (s : Proto) (e : Ev) (h : c.sendOk e = false) :
    send c s e false = (s, []) := by
  simp [send, h]

theorem ns_send_ok_proto (c : Cfg) (s : Proto) (e : Ev) (h : c.sendOk e = true) :
    (send c s e false).1.nid = s.nid + 1 ∧ pids (send c s e false).1 = pids s ++ [s.nid] := by
  simp [send, h, pids]

theorem ns_pids_finish (s : Proto) (n : Nat) : pids (finish s n) = (pids s).filter (· ≠ n) := by
  simp [finish, pids, List.filter_map, Function.comp_def]

theorem ns_finish_nid (s : Proto) (n : Nat) : (finish s n).nid = s.nid := rfl

theorem ns_poll_mem (s : Proto) (n : Nat) (pe : Pending) (h : poll s n = some pe) : n ∈ pids s := by
  unfold poll at h
  have h1 := List.find?_some h
  have h2 := List.mem_of_find?_eq_some h
  exact List.mem_map.mpr ⟨pe, h2, by simpa using h1⟩

/-! ## the bookkeeping of one end -/

structure ns_SideOk (s : ns_Side) : Prop where
  pend_lt : ∀ n ∈ pids s.p, n < s.p.nid
  pend_nodup : (pids s.p).Nodup
  res_lt : ∀ x ∈ s.resolved, x.1 < s.p.nid
  yl_lt : ∀ y ∈ s.yielded, y.1 < s.p.nid
  yl_notpend : ∀ y ∈ s.yielded, y.1 ∉ pids s.p
  yl_nodup : (s.yielded.map (·.1)).Nodup

theorem ns_sideOk_init (calls : List Ev) : ns_SideOk { todo := calls } :=
  ⟨by simp [pids], by simp [pids], by simp, by simp, by simp, by simp⟩

theorem ns_sideOk_out (s : ns_Side) (o : Bytes) (h : ns_SideOk s) : ns_SideOk { s with out := o } :=
  ⟨h.pend_lt, h.pend_nodup, h.res_lt, h.yl_lt, h.yl_notpend, h.yl_nodup⟩

theorem ns_act_peer (c : Cfg) (parse : Bytes → PRes) (dumps : J → Bytes)
    (beh : Nat → Ev → Option (J × List (String × J))) (me peer : ns_Side) (op : ns_Op) :
    ∃ o, (ns_act c parse dumps beh me peer op).2.1 = { peer with out := o } := by
  cases op with
  | send => simp only [ns_act]; split <;> exact ⟨peer.out, rfl⟩
  | deliver n => exact ⟨_, rfl⟩
  | answer n =>
    simp only [ns_act]
    split
    · exact ⟨peer.out, rfl⟩
    · split <;> exact ⟨peer.out, rfl⟩
  | poll n =>
    simp only [ns_act]
    split
    · split <;> exact ⟨peer.out, rfl⟩
    · exact ⟨peer.out, rfl⟩

theorem ns_act_ok (c : Cfg) (parse : Bytes → PRes) (dumps : J → Bytes)
    (beh : Nat → Ev → Option (J × List (String × J))) (me peer : ns_Side) (op : ns_Op)
    (h : ns_SideOk me) : ns_SideOk (ns_act c parse dumps beh me peer op).1 := by
  cases op with
  | send =>
    simp only [ns_act]
    split
    · exact h
    · rename_i e rest _
      cases hs : c.sendOk e with
      | false =>
        rw [ns_send_blocked_proto c me.p e hs]
        exact ⟨h.pend_lt, h.pend_nodup, h.res_lt, h.yl_lt, h.yl_notpend, h.yl_nodup⟩
      | true =>
        obtain ⟨h1, h2⟩ := ns_send_ok_proto c me.p e hs
        refine ⟨?_, ?_, ?_, ?_, ?_, h.yl_nodup⟩
        · intro n hn
          simp only [h1, h2, List.mem_append, List.mem_singleton] at hn ⊢
          rcases hn with hn | rfl
          · have := h.pend_lt n hn; omega
          · omega
        · simp only [h2]
          refine List.nodup_append.mpr ⟨h.pend_nodup, by simp, ?_⟩
          intro a ha b hb
          simp only [List.mem_singleton] at hb
          have := h.pend_lt a ha
          omega
        · intro x hx; simp only [h1]; have := h.res_lt x hx; omega
        · intro y hy; simp only [h1]; have := h.yl_lt y hy; omega
        · intro y hy
          simp only [h2, List.mem_append, List.mem_singleton, not_or]
          exact ⟨h.yl_notpend y hy, by have := h.yl_lt y hy; omega⟩
  | deliver n =>
    simp only [ns_act]
    obtain ⟨r1, r2, r3⟩ := ns_recv_ids c parse me.p (peer.out.take n)
    obtain ⟨a1, _, a3, _⟩ := ns_absorb_fields dumps (recv c parse me.p (peer.out.take n)).2.1
      { me with p := (recv c parse me.p (peer.out.take n)).1 }
    refine ⟨?_, ?_, ?_, ?_, ?_, ?_⟩
    · rw [a1]; simp only [r1, r2]; exact h.pend_lt
    · rw [a1]; simp only [r2]; exact h.pend_nodup
    · rw [a1]; simp only [r1]
      apply ns_absorb_resolved dumps (fun k => k < me.p.nid)
      · intro k v er hk; exact h.pend_lt k (r3 k v er hk)
      · exact h.res_lt
    · rw [a1, a3]; simp only [r1]; exact h.yl_lt
    · rw [a1, a3]; simp only [r2]; exact h.yl_notpend
    · rw [a3]; exact h.yl_nodup
  | answer n =>
    simp only [ns_act]
    split
    · exact h
    · split <;> exact ⟨h.pend_lt, h.pend_nodup, h.res_lt, h.yl_lt, h.yl_notpend, h.yl_nodup⟩
  | poll n =>
    simp only [ns_act]
    split
    · rename_i pe hp
      split
      · have hm := ns_poll_mem me.p n pe hp
        refine ⟨?_, ?_, h.res_lt, ?_, ?_, ?_⟩
        · intro k hk
          simp only [ns_pids_finish, List.mem_filter] at hk
          exact h.pend_lt k hk.1
        · simp only [ns_pids_finish]; exact h.pend_nodup.filter _
        · intro y hy
          simp only [List.mem_append, List.mem_singleton] at hy
          rcases hy with hy | rfl
          · exact h.yl_lt y hy
          · exact h.pend_lt n hm
        · intro y hy
          simp only [ns_pids_finish, List.mem_filter, not_and]
          simp only [List.mem_append, List.mem_singleton] at hy
          rcases hy with hy | rfl
          · intro hin; exact absurd hin (h.yl_notpend y hy)
          · intro _; simp
        · simp only [List.map_append, List.map_cons, List.map_nil]
          refine List.nodup_append.mpr ⟨h.yl_nodup, by simp, ?_⟩
          intro a ha b hb
          simp only [List.mem_singleton] at hb
          obtain ⟨y, hy, rfl⟩ := List.mem_map.mp ha
          intro heq
          exact h.yl_notpend y hy (by rw [heq, hb]; exact hm)
      · exact h
    · exact h

/-- the firewall gate of one end -/
theorem ns_act_gate (c : Cfg) (parse : Bytes → PRes) (dumps : J → Bytes)
    (beh : Nat → Ev → Option (J × List (String × J))) (me peer : ns_Side) (op : ns_Op)
    (h : ∀ x ∈ me.fired, c.recvOk x.1 = true) :
    ∀ x ∈ (ns_act c parse dumps beh me peer op).1.fired, c.recvOk x.1 = true := by
  cases op with
  | send => simp only [ns_act]; split <;> exact h
  | deliver n =>
    simp only [ns_act]
    apply ns_absorb_gate dumps c.recvOk
    · intro e id hm; exact n2_recv_fire c parse me.p _ e id hm
    · exact h
  | answer n =>
    simp only [ns_act]
    split
    · exact h
    · split <;> exact h
  | poll n =>
    simp only [ns_act]
    split
    · split <;> exact h
    · exact h

/-! ## the world -/

structure ns_Ok (E : ns_Env) (w : ns_World) : Prop where
  a : ns_SideOk w.a
  b : ns_SideOk w.b
  gateA : ∀ x ∈ w.a.fired, E.base.recvOkA x.1 = true
  gateB : ∀ x ∈ w.b.fired, E.base.recvOkB x.1 = true

theorem ns_ok_init (E : ns_Env) (callsA callsB : List Ev) : ns_Ok E (ns_init callsA callsB) :=
  ⟨ns_sideOk_init _, ns_sideOk_init _, by simp [ns_init], by simp [ns_init]⟩

theorem ns_step_ok (E : ns_Env) (w : ns_World) (st : Bool × ns_Op) (h : ns_Ok E w) : ns_Ok E (ns_step E w st) := by
  obtain ⟨side, op⟩ := st
  cases side with
  | false =>
    obtain ⟨o, ho⟩ := ns_act_peer E.base.cA E.base.parse E.base.dumps E.behA w.a w.b op
    refine ⟨ns_act_ok _ _ _ _ _ _ _ h.a, ?_, ns_act_gate E.base.cA _ _ _ _ _ _ h.gateA, ?_⟩
    · simp only [ns_step]; rw [ho]; exact ns_sideOk_out _ _ h.b
    · simp only [ns_step]; rw [ho]; exact h.gateB
  | true =>
    obtain ⟨o, ho⟩ := ns_act_peer E.base.cB E.base.parse E.base.dumps E.base.beh w.b w.a op
    refine ⟨?_, ns_act_ok _ _ _ _ _ _ _ h.b, ?_, ns_act_gate E.base.cB _ _ _ _ _ _ h.gateB⟩
    · simp only [ns_step]; rw [ho]; exact ns_sideOk_out _ _ h.a
    · simp only [ns_step]; rw [ho]; exact h.gateA

theorem ns_run_ok (E : ns_Env) (sched : List (Bool × ns_Op)) :
    ∀ w, ns_Ok E w → ns_Ok E (ns_run E w sched) := by
  induction sched with
  | nil => intro w h; exact h
  | cons st r ih =>
    intro w h
    simp only [ns_run, List.foldl_cons]
    exact ih _ (ns_step_ok E w st h)

/-! ## the send firewall over a whole run: blocked calls consume no id -/

def ns_Count (ok : Ev → Bool) (calls : List Ev) (s : ns_Side) : Prop :=
  ∃ done, calls = done ++ s.todo ∧ s.blocked = done.filter (fun e => !ok e) ∧ s.p.nid = (done.filter ok).length

theorem ns_count_init (ok : Ev → Bool) (calls : List Ev) : ns_Count ok calls { todo := calls } :=
  ⟨[], by simp, by simp, by simp⟩

theorem ns_act_count (c : Cfg) (parse : Bytes → PRes) (dumps : J → Bytes)
    (beh : Nat → Ev → Option (J × List (String × J))) (me peer : ns_Side) (op : ns_Op) (calls : List Ev)
    (h : ns_Count c.sendOk calls me) : ns_Count c.sendOk calls (ns_act c parse dumps beh me peer op).1 := by
  obtain ⟨done, h1, h2, h3⟩ := h
  cases op with
  | send =>
    simp only [ns_act]
    split
    · exact ⟨done, h1, h2, h3⟩
    · rename_i e rest ht
      refine ⟨done ++ [e], by rw [h1, ht]; simp, ?_, ?_⟩
      · cases hs : c.sendOk e <;> simp [List.filter_append, hs, h2]
      · cases hs : c.sendOk e with
        | false => rw [ns_send_blocked_proto c me.p e hs]; simp [List.filter_append, hs, h3]
        | true =>
          rw [(ns_send_ok_proto c me.p e hs).1]
          simp [List.filter_append, hs, h3]
  | deliver n =>
    simp only [ns_act]
    obtain ⟨a1, a2, _, a4⟩ := ns_absorb_fields dumps (recv c parse me.p (peer.out.take n)).2.1
      { me with p := (recv c parse me.p (peer.out.take n)).1 }
    refine ⟨done, by rw [a2]; exact h1, by rw [a4]; exact h2, ?_⟩
    rw [a1]; simp only [(ns_recv_ids c parse me.p (peer.out.take n)).1]; exact h3
  | answer n =>
    simp only [ns_act]
    split
    · exact ⟨done, h1, h2, h3⟩
    · split <;> exact ⟨done, h1, h2, h3⟩
  | poll n =>
    simp only [ns_act]
    split
    · split
      · exact ⟨done, h1, h2, h3⟩
      · exact ⟨done, h1, h2, h3⟩
    · exact ⟨done, h1, h2, h3⟩

theorem ns_count_out (ok : Ev → Bool) (calls : List Ev) (s : ns_Side) (o : Bytes) (h : ns_Count ok calls s) :
    ns_Count ok calls { s with out := o } := h

theorem ns_run_count (E : ns_Env) (callsA callsB : List Ev) (sched : List (Bool × ns_Op)) :
    ∀ w, ns_Count E.base.sendOkA callsA w.a → ns_Count E.base.sendOkB callsB w.b →
      ns_Count E.base.sendOkA callsA (ns_run E w sched).a ∧ ns_Count E.base.sendOkB callsB (ns_run E w sched).b := by
  induction sched with
  | nil => intro w ha hb; exact ⟨ha, hb⟩
  | cons st r ih =>
    intro w ha hb
    simp only [ns_run, List.foldl_cons]
    obtain ⟨side, op⟩ := st
    cases side with
    | false =>
      obtain ⟨o, ho⟩ := ns_act_peer E.base.cA E.base.parse E.base.dumps E.behA w.a w.b op
      apply ih
      · exact ns_act_count E.base.cA _ _ _ _ _ _ callsA ha
      · simp only [ns_step]; rw [ho]; exact hb
    | true =>
      obtain ⟨o, ho⟩ := ns_act_peer E.base.cB E.base.parse E.base.dumps E.base.beh w.b w.a op
      apply ih
      · simp only [ns_step]; rw [ho]; exact ha
      · exact ns_act_count E.base.cB _ _ _ _ _ _ callsB hb

/-- the step of a blocked call, spelled out: nothing but `todo` and `blocked` changes -/
theorem ns_act_send_blocked (c : Cfg) (parse : Bytes → PRes) (dumps : J → Bytes)
    (beh : Nat → Ev → Option (J × List (String × J))) (me peer : ns_Side) (e : Ev) (rest : List Ev)
    (ht : me.todo = e :: rest) (hb : c.sendOk e = false) :
    ns_act c parse dumps beh me peer .send = ({ me with todo := rest, blocked := me.blocked ++ [e] }, peer, false) := by
  simp only [ns_act, ht, ns_send_blocked_proto c me.p e hb, hb]
  simp [n2_wire]

end Node
end CV

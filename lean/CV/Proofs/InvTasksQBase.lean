import CV.Proofs.InvTasksBase
/-
waitingHandlers accounting, part 14 (range invariants): event ids in the queues of all components and in `Timer.event` are
ids of existing events (`St.T46QOk`).  `St.T46Q s s'`: the event table grew and `T46QOk s → T46QOk s'`.
-/
namespace CV.Core

def EQ.t46_has (q : EQ) (it : QItem) : Prop := it ∈ q.queue ∨ it ∈ q.heap

def St.T46QOk (s : St) : Prop :=
  (∀ x it, (s.comp x).eq.t46_has it → it.ev < s.evs.length) ∧
  (∀ (i : Nat) (tm : TimerSt) (te : Nat), s.timers[i]? = some tm → tm.ev = some te → te < s.evs.length)

structure St.T46Q (s s' : St) : Prop where
  evs : s.evs.length ≤ s'.evs.length
  ok : s.T46QOk → s'.T46QOk

namespace St.T46Q
variable {s t : St}

theorem refl (s : St) : St.T46Q s s := ⟨Nat.le_refl _, fun h => h⟩
theorem trans {a b c : St} (h1 : St.T46Q a b) (h2 : St.T46Q b c) : St.T46Q a c :=
  ⟨Nat.le_trans h1.evs h2.evs, fun h => h2.ok (h1.ok h)⟩

theorem of_same {t' : St} (h : St.T46Q s t) (h1 : t'.evs.length = t.evs.length) (h2 : ∀ x, (t'.comp x).eq = (t.comp x).eq)
    (h3 : t'.timers = t.timers) : St.T46Q s t' :=
  ⟨by rw [h1]; exact h.evs, fun hs => by
    obtain ⟨a, b⟩ := h.ok hs
    exact ⟨fun x it hit => by rw [h1]; rw [h2] at hit; exact a x it hit, fun i tm te hi he => by rw [h1]; rw [h3] at hi; exact b i tm te hi he⟩⟩

/-- `modComp` on one component whose new queue items are in range -/
theorem modCompEq (h : St.T46Q s t) (c : Nat) (f : Comp → Comp)
    (hf : t.T46QOk → ∀ it, (f (t.comp c)).eq.t46_has it → it.ev < t.evs.length) : St.T46Q s (t.modComp c f) := by
  refine h.trans ⟨Nat.le_refl _, fun hs => ⟨fun x it hit => ?_, hs.2⟩⟩
  rw [St.t46_comp_modComp] at hit
  split at hit
  · rename_i hc
    rw [← hc.1] at hit
    exact hf hs it hit
  · exact hs.1 x it hit

theorem modComp (h : St.T46Q s t) (c : Nat) (f : Comp → Comp) (hf : ∀ y : Comp, (f y).eq = y.eq) :
    St.T46Q s (t.modComp c f) :=
  h.modCompEq c f fun hs it hit => by rw [hf] at hit; exact hs.1 c it hit

theorem modEv (h : St.T46Q s t) (e : Nat) (f : Ev → Ev) : St.T46Q s (t.modEv e f) :=
  h.of_same (by simp [St.modEv]) (fun _ => rfl) rfl
theorem modWait (h : St.T46Q s t) (w : Nat) (f : WaitSt → WaitSt) : St.T46Q s (t.modWait w f) := h.of_same rfl (fun _ => rfl) rfl
theorem setGen (h : St.T46Q s t) (g : Nat) (x : GenRec) : St.T46Q s (t.setGen g x) := h.of_same rfl (fun _ => rfl) rfl
theorem logE (h : St.T46Q s t) (x : Entry) : St.T46Q s (t.logE x) := h.of_same rfl (fun _ => rfl) rfl
theorem addH (h : St.T46Q s t) (x : Handler) : St.T46Q s (t.addH x) := h.of_same rfl (fun _ => rfl) rfl
theorem addGen (h : St.T46Q s t) (g : GenRec) : St.T46Q s (t.addGen g) := h.of_same rfl (fun _ => rfl) rfl
theorem addWait (h : St.T46Q s t) (w : WaitSt) : St.T46Q s (t.addWait w) := h.of_same rfl (fun _ => rfl) rfl
theorem tick1 (h : St.T46Q s t) (d : Int) : St.T46Q s (t.tick1 d) := h.of_same rfl (fun _ => rfl) rfl
theorem registerTask (h : St.T46Q s t) (c : Nat) (x : Task) : St.T46Q s (t.registerTask c x) :=
  h.modComp _ _ fun _ => rfl
theorem unregisterTask (h : St.T46Q s t) (c : Nat) (x : Task) : St.T46Q s (t.unregisterTask c x) :=
  h.modComp _ _ fun _ => rfl

theorem addEv (h : St.T46Q s t) (ev : Ev) : St.T46Q s (t.addEv ev) := by
  have hl : t.evs.length ≤ (t.addEv ev).evs.length := by simp [St.addEv]
  exact h.trans ⟨hl, fun hs => ⟨fun x it hit => Nat.lt_of_lt_of_le (hs.1 x it hit) hl,
    fun i tm te hi he => Nat.lt_of_lt_of_le (hs.2 i tm te hi he) hl⟩⟩

/-- `modTimer` with a function whose `ev` is in range -/
theorem modTimerEv (h : St.T46Q s t) (i : Nat) (f : TimerSt → TimerSt)
    (hf : ∀ y te, (f y).ev = some te → y.ev = some te ∨ te < t.evs.length) : St.T46Q s (t.modTimer i f) := by
  refine h.trans ⟨Nat.le_refl _, fun hs => ⟨hs.1, fun j tm te hj he => ?_⟩⟩
  unfold St.modTimer at hj
  simp only [List.getElem?_modify] at hj
  cases hq : t.timers[j]? with
  | none => rw [hq] at hj; simp at hj
  | some y =>
    rw [hq] at hj
    have hj : (if i = j then f y else y) = tm := by simpa using hj
    by_cases hij : i = j
    · rw [if_pos hij] at hj
      subst hj
      rcases hf y te he with h' | h'
      · exact hs.2 j y te hq h'
      · exact h'
    · rw [if_neg hij] at hj
      subst hj
      exact hs.2 j _ te hq he

theorem modTimer (h : St.T46Q s t) (i : Nat) (f : TimerSt → TimerSt) (hf : ∀ y : TimerSt, (f y).ev = y.ev) :
    St.T46Q s (t.modTimer i f) :=
  h.modTimerEv i f fun y te he => Or.inl (by rw [← hf]; exact he)

end St.T46Q

syntax "t46q1" : tactic
macro_rules | `(tactic| t46q1) => `(tactic| split)
macro_rules | `(tactic| t46q1) => `(tactic| with_reducible apply St.T46Q.unregisterTask)
macro_rules | `(tactic| t46q1) => `(tactic| with_reducible apply St.T46Q.registerTask)
macro_rules | `(tactic| t46q1) => `(tactic| with_reducible apply St.T46Q.tick1)
macro_rules | `(tactic| t46q1) => `(tactic| with_reducible apply St.T46Q.addWait)
macro_rules | `(tactic| t46q1) => `(tactic| with_reducible apply St.T46Q.addGen)
macro_rules | `(tactic| t46q1) => `(tactic| with_reducible apply St.T46Q.addH)
macro_rules | `(tactic| t46q1) => `(tactic| with_reducible apply St.T46Q.addEv)
macro_rules | `(tactic| t46q1) => `(tactic| with_reducible apply St.T46Q.logE)
macro_rules | `(tactic| t46q1) => `(tactic| with_reducible apply St.T46Q.setGen)
macro_rules | `(tactic| t46q1) => `(tactic| ((with_reducible apply St.T46Q.modTimer); case hf =>
  first | exact fun _ => rfl | (intro y; split <;> rfl)))
macro_rules | `(tactic| t46q1) => `(tactic| with_reducible apply St.T46Q.modWait)
macro_rules | `(tactic| t46q1) => `(tactic| with_reducible apply St.T46Q.modEv)
macro_rules | `(tactic| t46q1) => `(tactic| ((with_reducible apply St.T46Q.modComp); case hf => exact fun _ => rfl))
macro_rules | `(tactic| t46q1) => `(tactic| with_reducible assumption)
macro_rules | `(tactic| t46q1) => `(tactic| with_reducible exact St.T46Q.refl _)

macro "t46q" : tactic => `(tactic| repeat' t46q1)
macro "t46q_unfold" ids:ident+ : tactic => `(tactic| (unfold $[$ids]*; (try dsimp only); t46q))

end CV.Core

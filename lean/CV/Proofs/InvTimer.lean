import CV.Proofs.InvTimerQ
/-
Timers (property C09) on the small-step core machine, part 2.
-/
namespace CV.Core

variable {F : Nat → Prop}

/-! ## the three pieces of code that are not quiet -/

/-- `tick()`: one clock tick of loop overhead if running, the rest is quiet -/
theorem tickGenerate_q (s : St) (c : Nat) :
    St.Q F (if (s.comp c).running then s.tick1 1 else s) (s.tickGenerate c) := by
  unfold St.tickGenerate
  by_cases h : (s.comp c).running = true
  · rw [if_pos h, if_pos h]
    dsimp only
    exact St.Q.fireRaw (by st_q) _ _ _ _ (.inl (Nat.le_refl _))
  · rw [if_neg h, if_neg h]
    exact St.Q.refl _

theorem Cfg.tickGen_q (c : Cfg) (k : List Frame) (x : Nat) :
    St.Q F (if (c.st.comp x).running then c.st.tick1 1 else c.st) (c.tickGen k x).st := by
  have h : (c.tickGen k x).st = c.st.tickGenerate x := by
    unfold Cfg.tickGen; dsimp only; split <;> rfl
  rw [h]; exact tickGenerate_q ..

/-- the fallback generator: an idle wait of `timeLeft` ticks if that is positive, the rest is quiet -/
theorem onFallbackGE_q (s : St) (e : Nat) :
    St.Q F (if 0 < (s.ev e).timeLeft then (s.logE (.idle (s.ev e).timeLeft)).tick1 (s.ev e).timeLeft else s)
      (s.onFallbackGE e).2 := by
  unfold St.onFallbackGE
  dsimp only
  by_cases hpos : 0 < (s.ev e).timeLeft
  · have h0 : ¬ ((s.ev e).timeLeft == 0) = true := by simp; omega
    rw [if_pos hpos, if_neg h0, if_pos (by simpa using hpos)]
    dsimp only
    st_q
  · rw [if_neg hpos]
    split
    · dsimp only; st_q
    · exact St.Q.refl _

/-- the log entry of a framework handler invocation -/
def Cfg.t9hinv (c : Cfg) (h e : Nat) : Entry :=
  .hinv e (c.st.handler h).kind.code (hkey c.st (c.st.handler h))

theorem Cfg.t9hinv_quiet (c : Cfg) (h e : Nat) : (c.t9hinv h e).t9quiet = true := rfl

theorem Cfg.t9_invoke_timer (c : Cfg) (k : List Frame) (r h e t : Nat) (hk : (c.st.handler h).kind = .timer t) :
    (c.invoke k r h e).st = (c.st.logE (c.t9hinv h e)).timerTick t e := by
  unfold Cfg.invoke Cfg.t9hinv
  simp only [hk, HKind.code]
  rfl

theorem Cfg.t9_invoke_fallback (c : Cfg) (k : List Frame) (r h e : Nat) (hk : (c.st.handler h).kind = .fallbackGE) :
    (c.invoke k r h e).st = ((c.st.logE (c.t9hinv h e)).onFallbackGE e).2 := by
  unfold Cfg.invoke Cfg.t9hinv
  simp only [hk, HKind.code]
  have h6 : ((6 : Nat) != 0) = true := by decide
  rw [if_pos h6]
  split <;> rfl

theorem t9_unwind_q (c : Cfg) (k : List Frame) (ex : Exn) (f : Frame) : St.Q F c.st (unwind c k ex f).st := by
  cases f <;> (dsimp only [unwind]; st_q)

/-! ## the classification of `step` -/

theorem t9_step_cases (c : Cfg) :
    St.Q T9NoF c.st (step c).st
    ∨ (∃ x k, c.stack = .tickGen x :: k ∧ c.exn = none ∧ (c.st.comp x).running = true ∧
         St.Q T9NoF (c.st.tick1 1) (step c).st)
    ∨ (∃ r h e k t, c.stack = .invoke r h e :: k ∧ c.exn = none ∧ (c.st.handler h).kind = .timer t ∧
         (step c).st = (c.st.logE (c.t9hinv h e)).timerTick t e)
    ∨ (∃ r h e k, c.stack = .invoke r h e :: k ∧ c.exn = none ∧ (c.st.handler h).kind = .fallbackGE ∧
         0 < (c.st.ev e).timeLeft ∧
         St.Q T9NoF (((c.st.logE (c.t9hinv h e)).logE (.idle (c.st.ev e).timeLeft)).tick1 (c.st.ev e).timeLeft)
           (step c).st) := by
  rcases hs : c.stack with _ | ⟨f, k⟩
  · left; rw [step_nil c hs]; exact St.Q.refl _
  · rcases hx : c.exn with _ | ex
    · rw [step_cons c f k hs hx]
      cases f
      case tickGen x =>
        dsimp only [stepFrame]
        have h := Cfg.tickGen_q (F := T9NoF) c k x
        by_cases hr : (c.st.comp x).running = true
        · rw [if_pos hr] at h
          exact .inr (.inl ⟨x, k, rfl, rfl, hr, h⟩)
        · rw [if_neg hr] at h
          exact .inl h
      case invoke r h e =>
        dsimp only [stepFrame]
        by_cases h1 : ∃ t, (c.st.handler h).kind = .timer t
        · obtain ⟨t, hk⟩ := h1
          exact .inr (.inr (.inl ⟨r, h, e, k, t, rfl, rfl, hk, Cfg.t9_invoke_timer c k r h e t hk⟩))
        · by_cases h2 : (c.st.handler h).kind = .fallbackGE
          · rw [Cfg.t9_invoke_fallback c k r h e h2]
            have hq := onFallbackGE_q (F := T9NoF) (c.st.logE (c.t9hinv h e)) e
            by_cases hpos : 0 < (c.st.ev e).timeLeft
            · have hpos' : 0 < ((c.st.logE (c.t9hinv h e)).ev e).timeLeft := hpos
              rw [if_pos hpos'] at hq
              exact .inr (.inr (.inr ⟨r, h, e, k, rfl, rfl, h2, hpos, hq⟩))
            · have hpos' : ¬ 0 < ((c.st.logE (c.t9hinv h e)).ev e).timeLeft := hpos
              rw [if_neg hpos'] at hq
              exact .inl ((St.Q.logE_self _ _ (Cfg.t9hinv_quiet c h e)).trans hq)
          · exact .inl (Cfg.invoke_q c k r h e (fun t ht => h1 ⟨t, ht⟩) h2)
      all_goals (left; dsimp only [stepFrame]; st_q)
    · left; rw [step_cons_exn c f k ex hs hx]; exact t9_unwind_q ..

/-! ## `Timer._on_generate_events`, analysed exactly -/

/-- the guard of `Timer._on_generate_events`: timer `t` exists, has been created, is due and its
    component has no unregistration pending -/
def St.timerDue (s : St) (t : Nat) (tm : TimerSt) : Prop :=
  s.timers[t]? = some tm ∧ tm.created = true ∧ tm.expiry ≤ s.clock ∧ (s.comp tm.comp).pending = false

/-- `self.event` is one event object, allocated (in the model) at the first firing -/
def St.timerEvAlloc (s : St) (t : Nat) (tm : TimerSt) : St :=
  match tm.ev with
  | some _ => s
  | none => (s.addEv (mkEvOfTmpl s tm.tmpl)).modTimer t fun x => { x with ev := some s.evs.length }

/-- the firing branch of `St.timerTick`, as a function of the timer record -/
def St.timerFire (s : St) (t e : Nat) (tm : TimerSt) : St :=
  let s1 := s.timerEvAlloc t tm
  let chans := match tm.target with
    | some tg => [tg]
    | none => [(s.comp tm.comp).chan]
  let s2 := s1.fireRaw tm.comp (tm.ev.getD s.evs.length) chans 0
  let s3 := if tm.persist
    then s2.modTimer t fun x => { x with expiry := s2.clock + x.interval }
    else s2.unregister tm.comp
  s3.reduceTimeLeft e 0

theorem timerTick_due {s : St} {t : Nat} {tm : TimerSt} (e : Nat) (h : s.timerDue t tm) :
    s.timerTick t e = s.timerFire t e tm := by
  obtain ⟨h1, h2, h3, h4⟩ := h
  unfold St.timerTick St.timerFire St.timerEvAlloc
  have : (s.clock ≥ tm.expiry) := h3
  simp only [h1, h2, h4, Bool.not_true, Bool.false_eq_true, ↓reduceIte, if_pos this]
  rfl

/-- when the guard fails the handler is quiet -/
theorem timerTick_quiet {s : St} {t : Nat} (e : Nat) (h : ¬ ∃ tm, s.timerDue t tm) :
    St.Q F s (s.timerTick t e) := by
  unfold St.timerTick
  split
  · exact St.Q.refl _
  · rename_i tm htm
    split
    · exact St.Q.refl _
    · rename_i hc
      dsimp only
      split
      · rename_i hdue
        split
        · exact St.Q.refl _
        · rename_i hp
          exact absurd ⟨tm, htm, by simpa using hc, hdue, by simpa using hp⟩ h
      · st_q

/-! projections of the helpers used by the firing branch -/

theorem St.t9_fireContext_timers (s : St) (r e : Nat) : (s.fireContext r e).timers = s.timers := by
  unfold St.fireContext; dsimp only; repeat' split
  all_goals rfl
theorem St.t9_fireContext_clock (s : St) (r e : Nat) : (s.fireContext r e).clock = s.clock := by
  unfold St.fireContext; dsimp only; repeat' split
  all_goals rfl
theorem St.t9_fireContext_comps (s : St) (r e : Nat) : (s.fireContext r e).comps = s.comps := by
  unfold St.fireContext; dsimp only; repeat' split
  all_goals rfl

theorem St.t9_fireRaw_timers (s : St) (self e : Nat) (ch : List Chan) (p : Int) :
    (s.fireRaw self e ch p).timers = s.timers := by
  unfold St.fireRaw; dsimp only
  show (St.fireContext _ _ _).timers = _
  rw [St.t9_fireContext_timers]; rfl
theorem St.t9_fireRaw_clock (s : St) (self e : Nat) (ch : List Chan) (p : Int) :
    (s.fireRaw self e ch p).clock = s.clock := by
  unfold St.fireRaw; dsimp only
  show (St.fireContext _ _ _).clock = _
  rw [St.t9_fireContext_clock]; rfl

theorem t9_ev_modEv_eq (t : St) (e : Nat) (f : Ev → Ev) (i : Nat) :
    (t.modEv e f).ev i = if e = i ∧ i < t.evs.length then f (t.ev i) else t.ev i := St.Q.ev_modEv t e f i

theorem St.t9_comp_modComp (s : St) (i : Nat) (f : Comp → Comp) (c : Nat) :
    (s.modComp i f).comp c = if i = c ∧ c < s.comps.length then f (s.comp c) else s.comp c := by
  unfold St.comp St.modComp
  simp only [List.getD_eq_getElem?_getD, List.getElem?_modify]
  by_cases hi : c < s.comps.length
  · rw [List.getElem?_eq_getElem hi]
    by_cases he : i = c <;> simp [he, hi]
  · rw [List.getElem?_eq_none (by omega)]
    simp [hi]

/-- `fireRaw` does not touch `pending` / `parent` of any component -/
theorem St.t9_fireRaw_comp (s : St) (self e : Nat) (ch : List Chan) (p : Int) (c : Nat) :
    ((s.fireRaw self e ch p).comp c).pending = (s.comp c).pending ∧
    ((s.fireRaw self e ch p).comp c).parent = (s.comp c).parent := by
  unfold St.fireRaw; dsimp only
  show ((St.modComp _ _ _).comp c).pending = _ ∧ ((St.modComp _ _ _).comp c).parent = _
  rw [St.t9_comp_modComp]
  have hc : ∀ x : St, (x.fireContext (x.rootOf self) e).comp c = x.comp c := by
    intro x; unfold St.comp; rw [St.t9_fireContext_comps]
  split
  · dsimp only; rw [hc]; exact ⟨rfl, rfl⟩
  · rw [hc]; exact ⟨rfl, rfl⟩

theorem St.t9_unregister_timers (s : St) (c : Nat) : (s.unregister c).timers = s.timers := by
  unfold St.unregister St.fireTmplEv; dsimp only
  split
  · rfl
  · rw [St.t9_fireRaw_timers]; rfl
theorem St.t9_unregister_clock (s : St) (c : Nat) : (s.unregister c).clock = s.clock := by
  unfold St.unregister St.fireTmplEv; dsimp only
  split
  · rfl
  · rw [St.t9_fireRaw_clock]; rfl

/-- after `unregister()` the component has an unregistration pending or is a detached root -/
theorem St.t9_unregister_post (s : St) (c : Nat) (hc : c < s.comps.length) :
    ((s.unregister c).comp c).pending = true ∨ ((s.unregister c).comp c).parent = c := by
  unfold St.unregister St.fireTmplEv; dsimp only
  split
  · rename_i h
    simpa using h
  · left
    rw [(St.t9_fireRaw_comp _ _ _ _ _ _).1]
    show ((St.modComp _ _ _).comp c).pending = true
    rw [St.t9_comp_modComp]
    have hlen : (s.modComp c fun x => { x with pending := true }).comps.length = s.comps.length := by
      simp [St.modComp]
    split
    · dsimp only; rw [St.t9_comp_modComp, if_pos ⟨rfl, hc⟩]
    · rw [St.t9_comp_modComp, if_pos ⟨rfl, hc⟩]

theorem St.t9_fireContext_log (s : St) (r e : Nat) : (s.fireContext r e).log = s.log := by
  unfold St.fireContext; dsimp only; repeat' split
  all_goals rfl

theorem St.t9_fireRaw_log (s : St) (self e : Nat) (ch : List Chan) (p : Int) :
    ∃ n, (s.fireRaw self e ch p).log = .fire e n ch p :: s.log := by
  unfold St.fireRaw; dsimp only
  exact ⟨_, congrArg (List.cons _) (by
    show (St.fireContext _ _ _).log = _
    rw [St.t9_fireContext_log]; rfl)⟩

/-- the event object of timer `t` after the handler has fired -/
def TimerSt.evId (tm : TimerSt) (s : St) : Nat := tm.ev.getD s.evs.length

structure AllocSpec (s s1 : St) (t : Nat) (tm : TimerSt) : Prop where
  clock : s1.clock = s.clock
  log : s1.log = s.log
  comps : s1.comps = s.comps
  evs : s.evs.length ≤ s1.evs.length
  evNew : tm.ev = none → s.evs.length < s1.evs.length
  ev : ∀ i, i < s.evs.length → s1.ev i = s.ev i
  self : s1.timers[t]? = some { tm with ev := some (tm.evId s) }
  other : ∀ t' : Nat, t' ≠ t → s1.timers[t']? = s.timers[t']?
  tlen : s1.timers.length = s.timers.length

theorem timerEvAlloc_spec {s : St} {t : Nat} {tm : TimerSt} (h : s.timers[t]? = some tm) :
    AllocSpec s (s.timerEvAlloc t tm) t tm := by
  unfold St.timerEvAlloc
  cases hev : tm.ev with
  | some x =>
    refine ⟨rfl, rfl, rfl, Nat.le_refl _, by simp [hev], fun _ _ => rfl, ?_, fun _ _ => rfl, rfl⟩
    simp only [TimerSt.evId, hev, Option.getD_some]
    rw [h, ← hev]
  | none =>
    refine ⟨rfl, rfl, rfl, by simp [St.addEv, St.modTimer], by simp [St.addEv, St.modTimer], ?_, ?_, ?_,
      by simp [St.addEv, St.modTimer]⟩
    · intro i hi
      unfold St.ev
      simp only [St.addEv, St.modTimer, List.getD_eq_getElem?_getD]
      rw [List.getElem?_append_left hi]
    · simp [St.addEv, St.modTimer, h, TimerSt.evId, hev]
    · intro t' ht'
      simp [St.addEv, St.modTimer, Ne.symm ht']

/-- what the firing branch does -/
structure TickFire (s s' : St) (t e : Nat) (tm : TimerSt) : Prop where
  clock : s'.clock = s.clock
  evs : s.evs.length ≤ s'.evs.length
  evNew : tm.ev = none → s.evs.length < s'.evs.length
  comps : s'.comps.length = s.comps.length
  hist : ∃ es, s'.log = es ++ s.log ∧ (∃ n ch p, Entry.fire (tm.evId s) n ch p ∈ es) ∧
      ∀ x ∈ es, x.t9quiet = true ∨ ∃ e n ch p, x = .fire e n ch p ∧ (s.evs.length ≤ e ∨ e = tm.evId s)
  tl : ∀ i, 0 ≤ (s.ev i).timeLeft → 0 ≤ (s'.ev i).timeLeft ∧ (s'.ev i).timeLeft ≤ (s.ev i).timeLeft
  zero : e < s.evs.length → (s'.ev e).timeLeft = 0
  other : ∀ t' : Nat, t' ≠ t → s'.timers[t']? = s.timers[t']?
  self : s'.timers[t]? = some { tm with ev := some (tm.evId s),
                                        expiry := if tm.persist then s.clock + tm.interval else tm.expiry }
  tlen : s'.timers.length = s.timers.length
  unreg : tm.comp < s.comps.length → tm.persist = false →
    (s'.comp tm.comp).pending = true ∨ (s'.comp tm.comp).parent = tm.comp

theorem t9_reduceTimeLeft_zero (s : St) (e : Nat) (he : e < s.evs.length) : ((s.reduceTimeLeft e 0).ev e).timeLeft = 0 := by
  unfold St.reduceTimeLeft
  rw [t9_ev_modEv_eq, if_pos ⟨rfl, he⟩]
  split
  · rfl
  · rename_i hc
    simp only [Bool.and_eq_true, Bool.or_eq_true, decide_eq_true_eq] at hc
    omega

theorem timerFire_spec {s : St} {t : Nat} {tm : TimerSt} (e : Nat) (h : s.timers[t]? = some tm)
    (hcr : tm.created = true) : TickFire s (s.timerFire t e tm) t e tm := by
  have a := timerEvAlloc_spec h
  unfold St.timerFire
  generalize s.timerEvAlloc t tm = s1 at a
  dsimp only
  generalize (match tm.target with | some tg => [tg] | none => [(s.comp tm.comp).chan]) = chans
  -- s1 → s2 : the firing itself
  have q12 : St.Q (· = tm.evId s) s1 (s1.fireRaw tm.comp (tm.evId s) chans 0) :=
    St.Q.fireRaw (St.Q.refl _) _ _ _ _ (.inr rfl)
  obtain ⟨n, hlog2⟩ := St.t9_fireRaw_log s1 tm.comp (tm.evId s) chans 0
  have ht2 := St.t9_fireRaw_timers s1 tm.comp (tm.evId s) chans 0
  have hc2 := St.t9_fireRaw_clock s1 tm.comp (tm.evId s) chans 0
  show TickFire s (St.reduceTimeLeft (if tm.persist = true then _ else _) e 0) t e tm
  generalize hs2 : s1.fireRaw tm.comp (tm.evId s) chans 0 = s2 at q12 hlog2 ht2 hc2
  have hs2' : s1.fireRaw tm.comp (tm.ev.getD s.evs.length) chans 0 = s2 := hs2
  rw [hs2']
  -- s2 → s' : re-arm or unregister, then `reduce_time_left(0)`
  have hself2 : s2.timers[t]? = some { tm with ev := some (tm.evId s) } := by rw [ht2]; exact a.self
  have q2 : St.Q (· = tm.evId s) s2
      ((if tm.persist = true then s2.modTimer t fun x => { x with expiry := s2.clock + x.interval }
        else s2.unregister tm.comp).reduceTimeLeft e 0) := by
    apply St.Q.reduceTimeLeft
    split
    · apply St.Q.modTimer_step
      intro x hx
      rw [hself2] at hx
      cases hx
      exact ⟨rfl, rfl, rfl, rfl, rfl, rfl, rfl, .inr ⟨hcr, rfl⟩⟩
    · exact St.Q.unregister (St.Q.refl _) _
  generalize hs' : (if tm.persist = true then s2.modTimer t fun x => { x with expiry := s2.clock + x.interval }
        else s2.unregister tm.comp) = s3 at q2
  have q := q12.trans q2
  obtain ⟨es2, hl2, hq2⟩ := q2.hist
  have ht3 : s3.timers = if tm.persist = true then s2.timers.modify t (fun x => { x with expiry := s2.clock + x.interval })
      else s2.timers := by
    rw [← hs']; split
    · rfl
    · exact St.t9_unregister_timers _ _
  refine ⟨by rw [q.clock, a.clock], Nat.le_trans a.evs q.evs, fun hn => Nat.lt_of_lt_of_le (a.evNew hn) q.evs,
    by rw [q.comps, a.comps], ⟨es2 ++ [.fire (tm.evId s) n chans 0], ?_, ⟨n, chans, 0, by simp⟩, ?_⟩, ?_, ?_, ?_, ?_,
    by rw [q.tlen, a.tlen], ?_⟩
  · rw [hl2, hlog2, a.log]; simp
  · intro x hx
    rcases List.mem_append.mp hx with hx | hx
    · rcases hq2 x hx with hq | ⟨e', n', ch', p', rfl, hf⟩
      · exact .inl hq
      · refine .inr ⟨e', n', ch', p', rfl, hf.imp (fun hle => ?_) id⟩
        exact Nat.le_trans a.evs (Nat.le_trans q12.evs hle)
    · rw [List.mem_singleton.mp hx]
      exact .inr ⟨_, _, _, _, rfl, .inr rfl⟩
  · intro i hi
    have hr := St.t9_ev_in_range hi
    have := q.tl i (by rw [a.ev i hr]; exact hi)
    rw [a.ev i hr] at this
    exact this
  · intro he
    exact t9_reduceTimeLeft_zero s3 e (Nat.lt_of_lt_of_le he
      (Nat.le_trans a.evs (Nat.le_trans q12.evs (by
        have := q2.evs
        simpa [St.reduceTimeLeft, St.modEv] using this))))
  · intro t' ht'
    show s3.timers[t']? = _
    rw [ht3, ← a.other t' ht', ← ht2]
    split
    · simp [Ne.symm ht']
    · rfl
  · show s3.timers[t]? = _
    rw [ht3]
    split
    · rename_i hp
      rw [List.getElem?_modify, hself2, hc2, a.clock]
      simp [hp]
    · rename_i hp
      rw [hself2]
  · intro hcomp hp
    show (s3.comp tm.comp).pending = true ∨ (s3.comp tm.comp).parent = tm.comp
    rw [← hs', if_neg (by simp [hp])]
    exact St.t9_unregister_post s2 tm.comp (by rw [q12.comps, a.comps]; exact hcomp)

/-- `St.timerTick` is exactly one of the two -/
theorem timerTick_cases (s : St) (t e : Nat) :
    (St.Q T9NoF s (s.timerTick t e) ∧ ¬ ∃ tm, s.timerDue t tm)
    ∨ ∃ tm, s.timerDue t tm ∧ TickFire s (s.timerTick t e) t e tm := by
  by_cases h : ∃ tm, s.timerDue t tm
  · obtain ⟨tm, hd⟩ := h
    exact .inr ⟨tm, hd, by rw [timerTick_due e hd]; exact timerFire_spec e hd.1 hd.2.1⟩
  · exact .inl ⟨timerTick_quiet e h, h⟩

/-! ## what every step does to the clock, the timers and the armed `timeLeft`s -/

/-- what a step (or a run) may do to one timer record while the clock goes from `lo` to `hi` -/
structure TimerSt.Evolve (lo hi : Int) (a b : TimerSt) : Prop where
  interval : b.interval = a.interval
  persist : b.persist = a.persist
  tmpl : b.tmpl = a.tmpl
  target : b.target = a.target
  comp : b.comp = a.comp
  parent : b.parent = a.parent
  created : a.created = true → b.created = true
  arm : (b.expiry = a.expiry ∧ b.created = a.created) ∨
        (b.created = true ∧ ∃ k, lo ≤ k ∧ k ≤ hi ∧ b.expiry = k + a.interval)

structure St.W (s s' : St) : Prop where
  clock : s.clock ≤ s'.clock
  tl : ∀ e, 0 ≤ (s.ev e).timeLeft → 0 ≤ (s'.ev e).timeLeft ∧ (s'.ev e).timeLeft ≤ (s.ev e).timeLeft
  timers : ∀ (t : Nat) (tm : TimerSt), s.timers[t]? = some tm →
    ∃ tm', s'.timers[t]? = some tm' ∧ TimerSt.Evolve s.clock s'.clock tm tm'

theorem TimerSt.Step.evolve {clk lo hi : Int} {a b : TimerSt} (h : TimerSt.Step clk a b) (h1 : lo ≤ clk) (h2 : clk ≤ hi) :
    TimerSt.Evolve lo hi a b := by
  refine ⟨h.interval, h.persist, h.tmpl, h.target, h.comp, h.parent, ?_, ?_⟩
  · intro ha
    rcases h.arm with ⟨_, c⟩ | ⟨c, _⟩
    · rw [c]; exact ha
    · exact c
  · exact h.arm.imp id (fun ⟨c, e⟩ => ⟨c, clk, h1, h2, e⟩)

/-- quiet code after a clock shift that leaves events and timers alone -/
theorem St.W.ofShiftQ {s s1 s' : St} (hc : s.clock ≤ s1.clock) (hev : s1.evs = s.evs) (htm : s1.timers = s.timers)
    (hq : St.Q F s1 s') : St.W s s' := by
  refine ⟨by rw [hq.clock]; exact hc, ?_, ?_⟩
  · intro e h
    have : s1.ev e = s.ev e := by unfold St.ev; rw [hev]
    rw [← this] at h ⊢
    exact hq.tl e h
  · intro t tm h
    obtain ⟨tm', g, st⟩ := hq.timers t tm (by rw [htm]; exact h)
    exact ⟨tm', g, st.evolve hc (by rw [hq.clock]; exact Int.le_refl _)⟩

theorem St.W.ofQ {s s' : St} (hq : St.Q F s s') : St.W s s' := St.W.ofShiftQ (Int.le_refl _) rfl rfl hq

theorem St.W.ofFire {s s' : St} {t e : Nat} {tm : TimerSt} (hd : s.timerDue t tm) (hf : TickFire s s' t e tm) :
    St.W s s' := by
  refine ⟨by rw [hf.clock]; exact Int.le_refl _, hf.tl, ?_⟩
  intro t' tm' h
  by_cases ht : t' = t
  · subst ht
    rw [hd.1] at h; cases h
    refine ⟨_, hf.self, rfl, rfl, rfl, rfl, rfl, rfl, fun h => h, ?_⟩
    by_cases hp : tm.persist = true
    · right
      dsimp only
      rw [if_pos hp]
      exact ⟨hd.2.1, s.clock, Int.le_refl _, by rw [hf.clock]; exact Int.le_refl _, rfl⟩
    · left
      dsimp only
      rw [if_neg hp]
      exact ⟨rfl, rfl⟩
  · exact ⟨tm', by rw [hf.other t' ht]; exact h, rfl, rfl, rfl, rfl, rfl, rfl, fun h => h, .inl ⟨rfl, rfl⟩⟩

theorem St.W.shiftL {s s1 s' : St} (_hc : s.clock ≤ s1.clock) (hc' : s1.clock = s.clock) (hev : s1.evs = s.evs)
    (htm : s1.timers = s.timers) (hw : St.W s1 s') : St.W s s' := by
  refine ⟨by have := hw.clock; omega, ?_, ?_⟩
  · intro e h
    have : s1.ev e = s.ev e := by unfold St.ev; rw [hev]
    rw [← this] at h ⊢
    exact hw.tl e h
  · intro t tm h
    have := hw.timers t tm (by rw [htm]; exact h)
    rw [hc'] at this
    exact this

/-- EVERY step: the clock does not go back, armed `timeLeft`s only get lower, and a timer's
    `expiry` is either untouched or set to `k + interval` for a clock reading `k` of this step -/
theorem t9_step_W (c : Cfg) : St.W c.st (step c).st := by
  rcases t9_step_cases c with h | ⟨x, k, _, _, _, h⟩ | ⟨r, h, e, k, t, _, _, _, heq⟩ | ⟨r, h, e, k, _, _, _, hpos, hq⟩
  · exact St.W.ofQ h
  · exact St.W.ofShiftQ (s1 := c.st.tick1 1) (by show c.st.clock ≤ c.st.clock + 1; omega) rfl rfl h
  · rw [heq]
    apply St.W.shiftL (s := c.st) (s1 := c.st.logE (c.t9hinv h e)) (Int.le_refl _) rfl rfl rfl
    rcases timerTick_cases (c.st.logE (c.t9hinv h e)) t e with ⟨hq, _⟩ | ⟨tm, hd, hf⟩
    · exact St.W.ofQ hq
    · exact St.W.ofFire hd hf
  · exact St.W.ofShiftQ (s1 := ((c.st.logE (c.t9hinv h e)).logE (.idle (c.st.ev e).timeLeft)).tick1 (c.st.ev e).timeLeft)
      (by show c.st.clock ≤ c.st.clock + _; omega) rfl rfl hq

theorem t9_startOf_st (s : St) (op : ExtOp) : (startOf s op).st = s := by cases op <;> rfl

/-! ## the invariant of reachable states -/

structure TimerWF (s : St) : Prop where
  /-- `Timer.event` is an existing event object -/
  evIn : ∀ (t : Nat) (tm : TimerSt) (te : Nat), s.timers[t]? = some tm → tm.ev = some te → te < s.evs.length
  /-- … and different timers have different ones -/
  evInj : ∀ (t t' : Nat) (tm tm' : TimerSt) (te : Nat), s.timers[t]? = some tm → s.timers[t']? = some tm' →
    tm.ev = some te → tm'.ev = some te → t = t'
  /-- `expiry` was computed as `time() + interval` at some earlier clock reading -/
  expInv : ∀ (t : Nat) (tm : TimerSt), s.timers[t]? = some tm → tm.created = true → tm.expiry ≤ s.clock + tm.interval
  /-- the Timer component exists -/
  compIn : ∀ (t : Nat) (tm : TimerSt), s.timers[t]? = some tm → tm.comp < s.comps.length

theorem St.Q.timers_back {s s' : St} (hq : St.Q F s s') {t : Nat} {tm' : TimerSt} (h : s'.timers[t]? = some tm') :
    ∃ tm, s.timers[t]? = some tm ∧ TimerSt.Step s.clock tm tm' := by
  have hlt : t < s.timers.length := by
    rw [← hq.tlen]
    exact (List.getElem?_eq_some_iff.mp h).1
  obtain ⟨tm'', g, st⟩ := hq.timers t _ (List.getElem?_eq_getElem hlt)
  rw [h] at g; cases g
  exact ⟨_, List.getElem?_eq_getElem hlt, st⟩

theorem TimerWF.ofQ {s s' : St} (wf : TimerWF s) (hq : St.Q F s s') : TimerWF s' := by
  refine ⟨?_, ?_, ?_, ?_⟩
  · intro t tm' te h he
    obtain ⟨tm, g, st⟩ := hq.timers_back h
    exact Nat.lt_of_lt_of_le (wf.evIn t tm te g (by rw [← st.ev]; exact he)) hq.evs
  · intro t t' tm1 tm2 te h1 h2 e1 e2
    obtain ⟨a1, g1, st1⟩ := hq.timers_back h1
    obtain ⟨a2, g2, st2⟩ := hq.timers_back h2
    exact wf.evInj t t' a1 a2 te g1 g2 (by rw [← st1.ev]; exact e1) (by rw [← st2.ev]; exact e2)
  · intro t tm' h hc
    obtain ⟨tm, g, st⟩ := hq.timers_back h
    rw [hq.clock, st.interval]
    rcases st.arm with ⟨e1, c1⟩ | ⟨_, e1⟩
    · rw [e1]; exact wf.expInv t tm g (by rw [← c1]; exact hc)
    · rw [e1]; exact Int.le_refl _
  · intro t tm' h
    obtain ⟨tm, g, st⟩ := hq.timers_back h
    rw [hq.comps, st.comp]; exact wf.compIn t tm g

theorem TimerWF.shift {s s1 : St} (wf : TimerWF s) (hc : s.clock ≤ s1.clock) (hev : s1.evs = s.evs)
    (htm : s1.timers = s.timers) (hk : s1.comps = s.comps) : TimerWF s1 := by
  refine ⟨?_, ?_, ?_, ?_⟩
  · intro t tm te h he; rw [hev]; exact wf.evIn t tm te (by rw [← htm]; exact h) he
  · intro t t' a b te h1 h2; exact wf.evInj t t' a b te (by rw [← htm]; exact h1) (by rw [← htm]; exact h2)
  · intro t tm h hcr
    have := wf.expInv t tm (by rw [← htm]; exact h) hcr
    omega
  · intro t tm h; rw [hk]; exact wf.compIn t tm (by rw [← htm]; exact h)

theorem TimerWF.ofFire {s s' : St} {t e : Nat} {tm : TimerSt} (wf : TimerWF s) (hd : s.timerDue t tm)
    (hf : TickFire s s' t e tm) : TimerWF s' := by
  have hte : tm.evId s < s'.evs.length := by
    unfold TimerSt.evId
    cases hev : tm.ev with
    | none => exact hf.evNew hev
    | some x => exact Nat.lt_of_lt_of_le (wf.evIn t tm x hd.1 hev) hf.evs
  have hfresh : ∀ (t' : Nat) (a : TimerSt), t' ≠ t → s.timers[t']? = some a → a.ev ≠ some (tm.evId s) := by
    intro t' a hne ha hev
    have hlt := wf.evIn t' a _ ha hev
    unfold TimerSt.evId at hev hlt
    cases hev0 : tm.ev with
    | none => rw [hev0] at hlt; simp at hlt
    | some x =>
      rw [hev0] at hev; simp only [Option.getD_some] at hev
      exact hne (wf.evInj t' t a tm x ha hd.1 hev hev0)
  refine ⟨?_, ?_, ?_, ?_⟩
  · intro t' a te h he
    by_cases ht : t' = t
    · subst ht
      rw [hf.self] at h; cases h
      cases he
      exact hte
    · rw [hf.other t' ht] at h
      exact Nat.lt_of_lt_of_le (wf.evIn t' a te h he) hf.evs
  · intro t1 t2 a b te h1 h2 e1 e2
    by_cases ht1 : t1 = t <;> by_cases ht2 : t2 = t
    · rw [ht1, ht2]
    · subst ht1
      rw [hf.self] at h1; cases h1; cases e1
      rw [hf.other t2 ht2] at h2
      exact absurd e2 (hfresh t2 b ht2 h2)
    · subst ht2
      rw [hf.self] at h2; cases h2; cases e2
      rw [hf.other t1 ht1] at h1
      exact absurd e1 (hfresh t1 a ht1 h1)
    · rw [hf.other t1 ht1] at h1
      rw [hf.other t2 ht2] at h2
      exact wf.evInj t1 t2 a b te h1 h2 e1 e2
  · intro t' a h hc
    rw [hf.clock]
    by_cases ht : t' = t
    · subst ht
      rw [hf.self] at h; cases h
      dsimp only
      split
      · exact Int.le_refl _
      · exact wf.expInv t' tm hd.1 hd.2.1
    · rw [hf.other t' ht] at h
      exact wf.expInv t' a h hc
  · intro t' a h
    rw [hf.comps]
    by_cases ht : t' = t
    · subst ht
      rw [hf.self] at h; cases h
      exact wf.compIn t' tm hd.1
    · rw [hf.other t' ht] at h
      exact wf.compIn t' a h

theorem TimerWF.step {c : Cfg} (wf : TimerWF c.st) : TimerWF (step c).st := by
  rcases t9_step_cases c with h | ⟨x, k, _, _, _, h⟩ | ⟨r, h, e, k, t, _, _, _, heq⟩ | ⟨r, h, e, k, _, _, _, hpos, hq⟩
  · exact wf.ofQ h
  · exact (wf.shift (s1 := c.st.tick1 1) (by show c.st.clock ≤ c.st.clock + 1; omega) rfl rfl rfl).ofQ h
  · rw [heq]
    have wf1 : TimerWF (c.st.logE (c.t9hinv h e)) := wf.shift (Int.le_refl _) rfl rfl rfl
    rcases timerTick_cases (c.st.logE (c.t9hinv h e)) t e with ⟨hq, _⟩ | ⟨tm, hd, hf⟩
    · exact wf1.ofQ hq
    · exact wf1.ofFire hd hf
  · exact (wf.shift (s1 := ((c.st.logE (c.t9hinv h e)).logE (.idle (c.st.ev e).timeLeft)).tick1 (c.st.ev e).timeLeft)
      (by show c.st.clock ≤ c.st.clock + _; omega) rfl rfl rfl).ofQ hq

theorem TimerWF.env {s : St} (wf : TimerWF s) (d : Nat) (tape : List Entry) : TimerWF (envChange s d tape) :=
  wf.shift (by show s.clock ≤ s.clock + (d : Int); omega) rfl rfl rfl

/-- `TimerWF` holds in every reachable configuration -/
theorem TimerWF.reach {s0 : St} (h0 : TimerWF s0) : ∀ c, Reach s0 c → TimerWF c.st := by
  apply Reach.inv (fun c => TimerWF c.st)
  · intro d tape op; rw [t9_startOf_st]; exact h0.env d tape
  · intro c h; exact h.step
  · intro c d tape op h _; rw [t9_startOf_st]; exact h.env d tape

/-- a sufficient initial condition: no timer has been created yet -/
theorem TimerWF.of_fresh {s : St}
    (h : ∀ (t : Nat) (tm : TimerSt), s.timers[t]? = some tm → tm.created = false ∧ tm.ev = none ∧ tm.comp < s.comps.length) :
    TimerWF s := by
  refine ⟨?_, ?_, ?_, ?_⟩
  · intro t tm te g he; rw [(h t tm g).2.1] at he; cases he
  · intro t t' a b te g _ he; rw [(h t a g).2.1] at he; cases he
  · intro t tm g hc; rw [(h t tm g).1] at hc; cases hc
  · intro t tm g; exact (h t tm g).2.2

/-! ## observable firings and idle waits -/

/-- step `c ↦ step c` logs a `fire` of the event object of timer `t` -/
def FiredIn (c : Cfg) (t : Nat) : Prop :=
  ∃ (es : List Entry) (te : Nat) (n : Name) (ch : List Chan) (p : Int) (tm' : TimerSt),
    (step c).st.log = es ++ c.st.log ∧ Entry.fire te n ch p ∈ es ∧
    (step c).st.timers[t]? = some tm' ∧ tm'.ev = some te

/-- step `c ↦ step c` logs an idle wait of `d` clock ticks -/
def IdleIn (c : Cfg) (d : Int) : Prop :=
  ∃ es : List Entry, (step c).st.log = es ++ c.st.log ∧ Entry.idle d ∈ es

/-- the top frame of `c` is the call of a generate_events handler of timer `t` for event `e` -/
def TimerCall (c : Cfg) (t e : Nat) : Prop :=
  ∃ r h k, c.stack = .invoke r h e :: k ∧ c.exn = none ∧ (c.st.handler h).kind = .timer t

/-- the top frame of `c` is the call of the fallback generator for event `e` -/
def FallbackCall (c : Cfg) (e : Nat) : Prop :=
  ∃ r h k, c.stack = .invoke r h e :: k ∧ c.exn = none ∧ (c.st.handler h).kind = .fallbackGE

/-- quiet code (after a prefix that logs no `fire`) does not fire a timer's event object -/
theorem t9_no_fire_of_Q {s s1 s' : St} (wf : TimerWF s) (hq : St.Q T9NoF s1 s') (hev : s1.evs = s.evs)
    (htm : s1.timers = s.timers) (pre : List Entry) (hlog : s1.log = pre ++ s.log)
    (hpre : ∀ x ∈ pre, ∀ e n ch p, x ≠ Entry.fire e n ch p)
    {t : Nat} {es : List Entry} {te : Nat} {n : Name} {ch : List Chan} {p : Int} {tm' : TimerSt}
    (h1 : s'.log = es ++ s.log) (h2 : Entry.fire te n ch p ∈ es) (h3 : s'.timers[t]? = some tm')
    (h4 : tm'.ev = some te) : False := by
  obtain ⟨es1, e1, q1⟩ := hq.hist
  have : es = es1 ++ pre := by
    apply List.append_cancel_right (bs := s.log)
    rw [← h1, e1, hlog, List.append_assoc]
  subst this
  obtain ⟨tm, g, st⟩ := hq.timers_back h3
  have hlt := wf.evIn t tm te (by rw [← htm]; exact g) (by rw [← st.ev]; exact h4)
  rcases List.mem_append.mp h2 with hm | hm
  · rcases q1 _ hm with hq' | ⟨e, n', ch', p', heq, hf⟩
    · simp [Entry.t9quiet] at hq'
    · cases heq
      rcases hf with hf | hf
      · rw [hev] at hf; omega
      · exact hf
  · exact hpre _ hm _ _ _ _ rfl

/-- NEVER EARLY (one step).  A step that fires the event object of timer `t` is the call of a
    generate_events handler of `t`, and the guard held: created, `clock ≥ expiry`, not pending. -/
theorem t9_fired_guard {c : Cfg} {t : Nat} (wf : TimerWF c.st) (hf : FiredIn c t) :
    ∃ e tm x, TimerCall c t e ∧ c.st.timerDue t tm ∧ TickFire (c.st.logE x) (step c).st t e tm := by
  obtain ⟨es, te, n, ch, p, tm', h1, h2, h3, h4⟩ := hf
  rcases t9_step_cases c with h | ⟨x, k, _, _, _, h⟩ | ⟨r, h, e, k, t0, hs, hx, hk, heq⟩ | ⟨r, h, e, k, _, _, _, hpos, hq⟩
  · exact (t9_no_fire_of_Q wf h rfl rfl [] rfl (by simp) h1 h2 h3 h4).elim
  · exact (t9_no_fire_of_Q wf h rfl rfl [] rfl (by simp) h1 h2 h3 h4).elim
  · rw [heq] at h1 h3
    rcases timerTick_cases (c.st.logE (c.t9hinv h e)) t0 e with ⟨hq, _⟩ | ⟨tm0, hd, hfire⟩
    · exact (t9_no_fire_of_Q wf hq rfl rfl [c.t9hinv h e] rfl
        (by intro x hx; rw [List.mem_singleton.mp hx]; intro _ _ _ _ hh; cases hh) h1 h2 h3 h4).elim
    · have hd0 : c.st.timerDue t0 tm0 := hd
      have ht : t = t0 := by
        apply Classical.byContradiction
        intro hne
        rw [hfire.other t hne] at h3
        have h3' : c.st.timers[t]? = some tm' := h3
        have hlt := wf.evIn t tm' te h3' h4
        obtain ⟨es0, l0, _, q0⟩ := hfire.hist
        have : es = es0 ++ [c.t9hinv h e] := by
          apply List.append_cancel_right (bs := c.st.log)
          rw [← h1, l0]; simp [St.logE]
        subst this
        rcases List.mem_append.mp h2 with hm | hm
        · rcases q0 _ hm with hq' | ⟨e', n', ch', p', hh, hfr⟩
          · simp [Entry.t9quiet] at hq'
          · cases hh
            rcases hfr with hfr | hfr
            · have : c.st.evs.length ≤ te := hfr
              omega
            · unfold TimerSt.evId at hfr
              cases hev0 : tm0.ev with
              | none =>
                rw [hev0] at hfr
                have : te = c.st.evs.length := hfr
                omega
              | some x =>
                rw [hev0] at hfr
                have : te = x := hfr
                subst this
                exact hne (wf.evInj t t0 tm' tm0 te h3' hd0.1 h4 hev0)
        · have hh := List.mem_singleton.mp hm
          unfold Cfg.t9hinv at hh
          cases hh
      subst ht
      exact ⟨e, tm0, c.t9hinv h e, ⟨r, h, k, hs, hx, hk⟩, hd0, by rw [heq]; exact hfire⟩
  · exact (t9_no_fire_of_Q wf hq rfl rfl [.idle (c.st.ev e).timeLeft, c.t9hinv h e] rfl
      (by
        intro x hx
        simp only [List.mem_cons, List.not_mem_nil, or_false] at hx
        rcases hx with rfl | rfl <;> (intro _ _ _ _ hh; cases hh)) h1 h2 h3 h4).elim

/-- FIRES WHEN DUE (one step).  A call of timer `t`'s handler with the guard true fires. -/
theorem t9_due_fires {c : Cfg} {t e : Nat} {tm : TimerSt} (hc : TimerCall c t e) (hd : c.st.timerDue t tm) :
    FiredIn c t := by
  obtain ⟨r, h, k, hs, hx, hk⟩ := hc
  have heq : (step c).st = (c.st.logE (c.t9hinv h e)).timerTick t e := by
    rw [step_cons c _ k hs hx]; exact Cfg.t9_invoke_timer c k r h e t hk
  have hd' : (c.st.logE (c.t9hinv h e)).timerDue t tm := hd
  have hf := timerFire_spec e hd'.1 hd'.2.1
  rw [← timerTick_due e hd', ← heq] at hf
  obtain ⟨es, hl, ⟨n, ch, p, hm⟩, _⟩ := hf.hist
  exact ⟨es ++ [c.t9hinv h e], _, n, ch, p, _, by rw [hl]; simp [St.logE], List.mem_append_left _ hm, hf.self, rfl⟩

/-! ## runs -/

/-- `b` is reached from `a` by machine steps and further external operations -/
inductive TLater (a : Cfg) : Cfg → Prop
  | refl : TLater a a
  | step {b : Cfg} : TLater a b → TLater a (CV.Core.step b)
  | next {b : Cfg} (d : Nat) (tape : List Entry) (op : ExtOp) :
      TLater a b → done b = true → TLater a (startOf (envChange b.st d tape) op)

theorem Reach.tlater {s0 : St} {a b : Cfg} (h : Reach s0 a) (hl : TLater a b) : Reach s0 b := by
  induction hl with
  | refl => exact h
  | step _ ih => exact Reach.step ih
  | next d tape op _ hd ih => exact Reach.next d tape op ih hd

/-- CLOCK MONOTONE along runs -/
theorem TLater.clock {a b : Cfg} (hl : TLater a b) : a.st.clock ≤ b.st.clock := by
  induction hl with
  | refl => exact Int.le_refl _
  | step _ ih => exact Int.le_trans ih (t9_step_W _).clock
  | next d tape op _ _ ih =>
    rw [t9_startOf_st]
    show _ ≤ _ + (d : Int)
    omega

/-- a timer armed for `k0 + interval` or later does not fire before the clock reads that -/
theorem t9_spacing {s0 : St} (h0 : TimerWF s0) {c c' : Cfg} (hr : Reach s0 c) {t : Nat} {tm : TimerSt} {k0 : Int}
    (ht : c.st.timers[t]? = some tm) (hk : k0 ≤ c.st.clock) (he : k0 + tm.interval ≤ tm.expiry)
    (hl : TLater c c') (hf : FiredIn c' t) : k0 + tm.interval ≤ c'.st.clock := by
  have inv : ∃ tm', c'.st.timers[t]? = some tm' ∧ tm'.interval = tm.interval ∧ k0 + tm.interval ≤ tm'.expiry := by
    clear hf
    induction hl with
    | refl => exact ⟨tm, ht, rfl, he⟩
    | @step b hl ih =>
      obtain ⟨tm1, g1, i1, e1⟩ := ih
      obtain ⟨tm2, g2, ev⟩ := (t9_step_W b).timers t tm1 g1
      refine ⟨tm2, g2, ev.interval.trans i1, ?_⟩
      rcases ev.arm with ⟨e2, _⟩ | ⟨_, k, hk1, _, e2⟩
      · rw [e2]; exact e1
      · rw [e2, i1]
        have := hl.clock
        omega
    | next d tape op _ _ ih => rw [t9_startOf_st]; exact ih
  obtain ⟨tm', g, _, e1⟩ := inv
  obtain ⟨e, tm'', x, _, hd, _⟩ := t9_fired_guard (h0.reach c' (hr.tlater hl)) hf
  have : tm'' = tm' := by have := hd.1; rw [g] at this; cases this; rfl
  subst this
  exact Int.le_trans e1 hd.2.2.1

/-! ## the idle wait -/

/-- timer `t` has been seen by the generate_events event `e`: `e.time_left` is armed (not
    "unlimited") and is `0` or at most the time to `t`'s expiry -/
def GEBound (s : St) (e t : Nat) : Prop :=
  ∃ tm, s.timers[t]? = some tm ∧ tm.created = true ∧ 0 ≤ (s.ev e).timeLeft ∧
    ((s.ev e).timeLeft = 0 ∨ (s.ev e).timeLeft ≤ tm.expiry - s.clock)

/-- the bound survives every step that does not move the clock (a `reset()` in between moves
    the expiry further away, never closer: `expiry ≤ clock + interval`) -/
theorem GEBound.keep {s s' : St} {e t : Nat} (wf : TimerWF s) (hw : St.W s s') (hc : s'.clock = s.clock)
    (hb : GEBound s e t) : GEBound s' e t := by
  obtain ⟨tm, g, hcr, h0, hb⟩ := hb
  obtain ⟨tm', g', ev⟩ := hw.timers t tm g
  have htl := hw.tl e h0
  refine ⟨tm', g', ev.created hcr, htl.1, ?_⟩
  have hexp := wf.expInv t tm g hcr
  rcases hb with hb | hb
  · left; omega
  · right
    rcases ev.arm with ⟨e2, _⟩ | ⟨_, k, hk1, hk2, e2⟩
    · rw [e2, hc]; omega
    · rw [e2, hc]; omega

/-- the handler of a created timer establishes the bound, unless it returns early because the
    timer's unregistration is pending -/
theorem timerTick_bound {s : St} {t e : Nat} {tm : TimerSt} (h : s.timers[t]? = some tm) (hcr : tm.created = true)
    (he : e < s.evs.length) (hp : tm.expiry ≤ s.clock → (s.comp tm.comp).pending = false) :
    GEBound (s.timerTick t e) e t := by
  by_cases hdue : tm.expiry ≤ s.clock
  · have hd : s.timerDue t tm := ⟨h, hcr, hdue, hp hdue⟩
    have hf := timerFire_spec e h hcr
    rw [← timerTick_due e hd] at hf
    exact ⟨_, hf.self, hcr, by rw [hf.zero he]; exact Int.le_refl _, .inl (hf.zero he)⟩
  · have heq : s.timerTick t e = s.reduceTimeLeft e (tm.expiry - s.clock) := by
      unfold St.timerTick
      have : ¬ (s.clock ≥ tm.expiry) := hdue
      simp only [h, hcr, Bool.not_true, Bool.false_eq_true, ↓reduceIte, if_neg this]
    rw [heq]
    refine ⟨tm, h, hcr, ?_⟩
    unfold St.reduceTimeLeft
    rw [t9_ev_modEv_eq, if_pos ⟨rfl, he⟩]
    show 0 ≤ (ite _ _ _ : Ev).timeLeft ∧ ((ite _ _ _ : Ev).timeLeft = 0 ∨ (ite _ _ _ : Ev).timeLeft ≤ tm.expiry - s.clock)
    split
    · dsimp only; omega
    · rename_i hc
      simp only [Bool.and_eq_true, Bool.or_eq_true, decide_eq_true_eq] at hc
      omega

/-- IDLE (one step).  An idle wait of `d` ticks is logged only by the fallback generator, `d` is
    the `time_left` of its generate_events event, positive, and the clock advances by exactly `d` -/
theorem t9_idle_guard {c : Cfg} {d : Int} (hi : IdleIn c d) :
    ∃ e, FallbackCall c e ∧ d = (c.st.ev e).timeLeft ∧ 0 < d ∧ (step c).st.clock = c.st.clock + d := by
  obtain ⟨es, h1, h2⟩ := hi
  have noidle : ∀ {s1 s' : St} (pre : List Entry), St.Q T9NoF s1 s' → s1.log = pre ++ c.st.log →
      s' = (step c).st → Entry.idle d ∈ pre := by
    intro s1 s' pre hq hlog hs'
    obtain ⟨es1, e1, q1⟩ := hq.hist
    have : es = es1 ++ pre := by
      apply List.append_cancel_right (bs := c.st.log)
      rw [← h1, ← hs', e1, hlog, List.append_assoc]
    subst this
    rcases List.mem_append.mp h2 with hm | hm
    · rcases q1 _ hm with hq' | ⟨_, _, _, _, hh, _⟩
      · simp [Entry.t9quiet] at hq'
      · cases hh
    · exact hm
  rcases t9_step_cases c with h | ⟨x, k, _, _, _, h⟩ | ⟨r, h, e, k, t0, hs, hx, hk, heq⟩ | ⟨r, h, e, k, hs, hx, hk, hpos, hq⟩
  · have := noidle [] h rfl rfl; simp at this
  · have := noidle [] h rfl rfl; simp at this
  · rcases timerTick_cases (c.st.logE (c.t9hinv h e)) t0 e with ⟨hq, _⟩ | ⟨tm0, hd, hfire⟩
    · have := noidle [c.t9hinv h e] hq rfl heq.symm
      have hh := List.mem_singleton.mp this
      unfold Cfg.t9hinv at hh; cases hh
    · obtain ⟨es0, l0, _, q0⟩ := hfire.hist
      have : es = es0 ++ [c.t9hinv h e] := by
        apply List.append_cancel_right (bs := c.st.log)
        rw [← h1, heq, l0]; simp [St.logE]
      subst this
      rcases List.mem_append.mp h2 with hm | hm
      · rcases q0 _ hm with hq' | ⟨_, _, _, _, hh, _⟩
        · simp [Entry.t9quiet] at hq'
        · cases hh
      · have hh := List.mem_singleton.mp hm
        unfold Cfg.t9hinv at hh; cases hh
  · have := noidle [.idle (c.st.ev e).timeLeft, c.t9hinv h e] hq rfl rfl
    simp only [List.mem_cons, List.not_mem_nil, or_false] at this
    rcases this with hh | hh
    · cases hh
      exact ⟨e, ⟨r, h, k, hs, hx, hk⟩, rfl, hpos, by rw [hq.clock]; rfl⟩
    · unfold Cfg.t9hinv at hh; cases hh

/-- IDLE BOUND (one step): the idle wait does not sleep past the expiry of any timer seen by its event -/
theorem t9_idle_bound_step {c : Cfg} {d : Int} {e t : Nat} (hi : IdleIn c d) (hf : FallbackCall c e)
    (hb : GEBound c.st e t) :
    ∃ tm, c.st.timers[t]? = some tm ∧ (step c).st.clock ≤ tm.expiry := by
  obtain ⟨e', hf', hd, hpos, hclk⟩ := t9_idle_guard hi
  have : e' = e := by
    obtain ⟨_, _, _, hs, _, _⟩ := hf
    obtain ⟨_, _, _, hs', _, _⟩ := hf'
    rw [hs] at hs'; cases hs'; rfl
  subst this
  obtain ⟨tm, g, _, _, hb⟩ := hb
  exact ⟨tm, g, by rw [hclk]; omega⟩

/-- the bound survives any stretch of a run during which the clock stands still -/
theorem GEBound.tlater {s0 : St} (h0 : TimerWF s0) {c c' : Cfg} (hr : Reach s0 c) {e t : Nat}
    (hb : GEBound c.st e t) (hl : TLater c c') (hc : c'.st.clock = c.st.clock) : GEBound c'.st e t := by
  induction hl with
  | refl => exact hb
  | @step b hl ih =>
    have h1 := hl.clock
    have h2 := (t9_step_W b).clock
    have hbc : b.st.clock = c.st.clock := by omega
    exact GEBound.keep (h0.reach b (hr.tlater hl)) (t9_step_W b) (by omega) (ih hbc)
  | @next b d tape op hl _ ih =>
    rw [t9_startOf_st] at hc ⊢
    have h1 := hl.clock
    have hd : (envChange b.st d tape).clock = b.st.clock + (d : Int) := rfl
    have hbc : b.st.clock = c.st.clock := by omega
    have hb' := ih hbc
    obtain ⟨tm, g, hcr, h0', hb'⟩ := hb'
    exact ⟨tm, g, hcr, h0', by
      have : (envChange b.st d tape).clock = b.st.clock := by omega
      rw [this]; exact hb'⟩

/-- THE CLOCK MOVES ONLY in a loop tick (by 1) and in an idle wait (by the logged duration) -/
theorem t9_clock_moves {c : Cfg} (h : (step c).st.clock ≠ c.st.clock) :
    (∃ x k, c.stack = .tickGen x :: k ∧ c.exn = none ∧ (step c).st.clock = c.st.clock + 1)
    ∨ (∃ e, FallbackCall c e ∧ IdleIn c (c.st.ev e).timeLeft ∧ (step c).st.clock = c.st.clock + (c.st.ev e).timeLeft) := by
  rcases t9_step_cases c with hq | ⟨x, k, hs, hx, _, hq⟩ | ⟨r, h', e, k, t0, hs, hx, hk, heq⟩ | ⟨r, h', e, k, hs, hx, hk, hpos, hq⟩
  · exact absurd hq.clock h
  · exact .inl ⟨x, k, hs, hx, by rw [hq.clock]; rfl⟩
  · exfalso; apply h; rw [heq]
    rcases timerTick_cases (c.st.logE (c.t9hinv h' e)) t0 e with ⟨hq, _⟩ | ⟨tm0, hd, hfire⟩
    · rw [hq.clock]; rfl
    · rw [hfire.clock]; rfl
  · refine .inr ⟨e, ⟨r, h', k, hs, hx, hk⟩, ?_, by rw [hq.clock]; rfl⟩
    obtain ⟨es1, e1, _⟩ := hq.hist
    exact ⟨es1 ++ [.idle (c.st.ev e).timeLeft, c.t9hinv h' e], by rw [e1]; simp [St.logE, St.tick1], by simp⟩

/-! ## `reset()` and `Timer(…)` as steps -/

/-- the top frame executes `timer.reset()` for timer `t` (in a handler body or an external `do`) -/
def ResetIn (c : Cfg) (t : Nat) : Prop :=
  ∃ ctx rest k, c.stack = .acts ctx (.timerReset t :: rest) :: k ∧ c.exn = none

/-- the top frame executes `Timer(…)` for the not yet created timer `t` -/
def CreateIn (c : Cfg) (t : Nat) : Prop :=
  ∃ k tm, c.stack = .timerNew t :: k ∧ c.exn = none ∧ c.st.timers[t]? = some tm ∧ tm.created = false

theorem t9_reset_step {c : Cfg} {t : Nat} {tm : TimerSt} (h : ResetIn c t) (ht : c.st.timers[t]? = some tm)
    (hcr : tm.created = true) :
    (step c).st.timers[t]? = some { tm with expiry := c.st.clock + tm.interval } ∧ (step c).st.clock = c.st.clock := by
  obtain ⟨ctx, rest, k, hs, hx⟩ := h
  have : (step c).st = c.st.timerReset t := by rw [step_cons c _ k hs hx]; rfl
  rw [this]
  refine ⟨?_, rfl⟩
  simp [St.timerReset, St.modTimer, ht, hcr]

theorem t9_create_step {c : Cfg} {t : Nat} (h : CreateIn c t) :
    ∃ tm, c.st.timers[t]? = some tm ∧
      (step c).st.timers[t]? = some { tm with expiry := c.st.clock + tm.interval, created := true } ∧
      (step c).st.clock = c.st.clock := by
  obtain ⟨k, tm, hs, hx, ht, hcr⟩ := h
  have : (step c).st = c.st.timerCreate t := by
    rw [step_cons c _ k hs hx]
    show (Cfg.timerNew c k t).st = _
    unfold Cfg.timerNew
    simp [ht, hcr]
  rw [this]
  exact ⟨tm, ht, by simp [St.timerCreate, St.modTimer, ht], rfl⟩

end CV.Core

import CV.Model.Core.Machine
/-
C01, matching layer: `collect` (the model of `Manager.getHandlers`, the function the
dispatcher calls when it rebuilds a cache entry) returns exactly the handlers the property
statement describes: handlers of a component reachable from the dispatching root through
`children`, installed for the event's name (or for all events), whose channel matches the
target channel; plus the global handlers of those components.
-/
namespace CV.Core

/-- `h` is in `x`'s handler table for `name` (bucket `name` or bucket `'*'`) -/
def installedFor (x : Comp) (name : Name) (h : Nat) : Prop :=
  (none, h) ∈ x.htab ∨ (some name, h) ∈ x.htab

/-- the statement's rule for one component `c` -/
def matchesAt (s : St) (c : Nat) (name : Name) (target : Chan) (h : Nat) : Prop :=
  (installedFor (s.comps.getD c dfltComp) name h ∧
     chanOk (s.comps.getD c dfltComp).chan c (s.hs.getD h dfltHandler) target = true)
  ∨ h ∈ (s.comps.getD c dfltComp).globals

/-- `d` is reachable from `c` through at most `n` child links -/
inductive ReachIn (s : St) : Nat → Nat → Nat → Prop
  | here (n c : Nat) : ReachIn s n c c
  | step (n c d e : Nat) : d ∈ (s.comps.getD c dfltComp).children → ReachIn s n d e → ReachIn s (n + 1) c e

theorem mem_own (x : Comp) (name : Name) (h : Nat) :
    h ∈ ((x.htab.filter (fun p => p.1 == none || p.1 == some name)).map (·.2)) ↔ installedFor x name h := by
  simp only [List.mem_map, List.mem_filter, installedFor]
  constructor
  · rintro ⟨⟨k, h'⟩, ⟨hm, hk⟩, rfl⟩
    simp only [Bool.or_eq_true, beq_iff_eq] at hk
    rcases hk with hk | hk
    · left; simpa [← hk] using hm
    · right; simpa [← hk] using hm
  · rintro (hm | hm)
    · exact ⟨(none, h), ⟨hm, by simp⟩, rfl⟩
    · exact ⟨(some name, h), ⟨hm, by simp⟩, rfl⟩

theorem collect_zero (s : St) (c : Nat) (name : Name) (target : Chan) : collect s 0 c name target = [] := rfl

theorem collect_succ (s : St) (fuel c : Nat) (name : Name) (target : Chan) :
    collect s (fuel + 1) c name target =
      ((((((s.comps.getD c dfltComp).htab.filter (fun p => p.1 == none || p.1 == some name)).map (·.2)).eraseDups).filter
          (fun h => chanOk (s.comps.getD c dfltComp).chan c (s.hs.getD h dfltHandler) target))
        ++ (s.comps.getD c dfltComp).globals
        ++ (s.comps.getD c dfltComp).children.flatMap (fun d => collect s fuel d name target)).eraseDups := rfl

/-- membership in one level of `collect`, given what membership in the recursive calls means -/
theorem mem_collect_succ (s : St) (fuel c : Nat) (name : Name) (target : Chan) (h : Nat) :
    h ∈ collect s (fuel + 1) c name target ↔
      matchesAt s c name target h ∨
      ∃ d, d ∈ (s.comps.getD c dfltComp).children ∧ h ∈ collect s fuel d name target := by
  rw [collect_succ]
  simp only [List.mem_eraseDups, List.mem_append, List.mem_filter, List.mem_flatMap]
  rw [mem_own]
  unfold matchesAt
  constructor
  · rintro ((⟨hi, hc⟩ | hg) | hsub)
    · exact Or.inl (Or.inl ⟨hi, hc⟩)
    · exact Or.inl (Or.inr hg)
    · exact Or.inr hsub
  · rintro ((⟨hi, hc⟩ | hg) | hsub)
    · exact Or.inl (Or.inl ⟨hi, hc⟩)
    · exact Or.inl (Or.inr hg)
    · exact Or.inr hsub

/-- `collect` with `n + 1` units of fuel sees exactly the matching handlers of the components
    within `n` child links of `c` -/
theorem mem_collect (s : St) (name : Name) (target : Chan) (h : Nat) :
    ∀ (n c : Nat), h ∈ collect s (n + 1) c name target ↔
      ∃ d, ReachIn s n c d ∧ matchesAt s d name target h := by
  intro n
  induction n with
  | zero =>
    intro c
    rw [mem_collect_succ]
    constructor
    · rintro (hm | ⟨d, _, hin⟩)
      · exact ⟨c, ReachIn.here 0 c, hm⟩
      · rw [collect_zero] at hin; cases hin
    · rintro ⟨d, hr, hm⟩
      cases hr with
      | here => exact Or.inl hm
  | succ n ih =>
    intro c
    rw [mem_collect_succ]
    constructor
    · rintro (hm | ⟨d, hd, hin⟩)
      · exact ⟨c, ReachIn.here _ c, hm⟩
      · obtain ⟨e, hre, hme⟩ := (ih d).mp hin
        exact ⟨e, ReachIn.step n c d e hd hre, hme⟩
    · rintro ⟨e, hr, hm⟩
      cases hr with
      | here => exact Or.inl hm
      | step _ _ d _ hd hre => exact Or.inr ⟨d, hd, (ih d).mpr ⟨e, hre, hm⟩⟩

/-- `eraseDups` yields a duplicate-free list -/
theorem nodup_eraseDups : ∀ (n : Nat) (l : List Nat), l.length ≤ n → l.eraseDups.Nodup := by
  intro n
  induction n with
  | zero =>
    intro l hl
    have : l = [] := List.length_eq_zero_iff.mp (Nat.le_zero.mp hl)
    subst this; simp
  | succ n ih =>
    intro l hl
    cases l with
    | nil => simp
    | cons a as =>
      rw [List.eraseDups_cons]
      have hlen : (as.filter fun b => !b == a).length ≤ n := by
        have := List.length_filter_le (fun b => !b == a) as
        simp only [List.length_cons] at hl; omega
      refine List.nodup_cons.mpr ⟨?_, ih _ hlen⟩
      intro hmem
      have := (List.mem_eraseDups.mp hmem)
      simp at this

/-- no handler is returned twice -/
theorem collect_nodup (s : St) (fuel c : Nat) (name : Name) (target : Chan) :
    (collect s fuel c name target).Nodup := by
  cases fuel with
  | zero => simp [collect_zero]
  | succ n =>
    rw [collect_succ]
    exact nodup_eraseDups _ _ (Nat.le_refl _)

end CV.Core

import CV.Proofs.InvOrderLog
import CV.Proofs.CoreMatch
/-
The handler loop runs through its whole list (used by C09 and C02/C01 consumers).

`RunAbove k c c'`: `c'` is reached from `c` by machine steps, and every configuration on the way
(both ends included) has a stack `fs ++ k` with `fs ≠ []` - the run never returns below `k`
(the continuation of the `_dispatcher` call whose loop we look at), neither normally nor by an
exception unwinding through it.

Main result `loop_invokes_all`: start in `.hLoop r e hs err stale :: k`; if the run reaches
`.dispFin r e err' :: k` (the end of that `_dispatcher` call), then for every `h ∈ hs` either the
run passed through the call `.invoke r h e :: .hAfter r e _ _ _ :: k` of `h` at this very level,
or it passed through an `.hApply r e _ _ _ :: k` step that found `event.stopped` set.
No global invariant is needed: `step` only rewrites the top of the stack (`step_stack_suffix`).
-/
namespace CV.Core

/-- a step rewrites only the top frame: everything below stays -/
theorem step_stack_suffix (c : Cfg) (f : Frame) (k : List Frame) (hst : c.stack = f :: k) :
    ∃ fs, (step c).stack = fs ++ k :=
  let ⟨fs, h, _⟩ := (o2_step_class c f k hst).push
  ⟨fs, h⟩

/-- the stack of `c` is strictly above `k` -/
def Above (k : List Frame) (c : Cfg) : Prop := ∃ f fs, c.stack = f :: fs ++ k

/-- `c'` is reached from `c` by steps, never leaving the region above `k` -/
inductive RunAbove (k : List Frame) (c : Cfg) : Cfg → Prop
  | refl : Above k c → RunAbove k c c
  | step {b : Cfg} : RunAbove k c b → Above k (CV.Core.step b) → RunAbove k c (CV.Core.step b)

theorem RunAbove.above {k : List Frame} {c c' : Cfg} (h : RunAbove k c c') : Above k c' := by
  cases h with
  | refl h => exact h
  | step _ h => exact h

theorem RunAbove.trans {k : List Frame} {a b c : Cfg} (h1 : RunAbove k a b) (h2 : RunAbove k b c) : RunAbove k a c := by
  induction h2 with
  | refl _ => exact h1
  | step _ ha ih => exact .step ih ha

/-- a run above `k` is a run of the session -/
theorem RunAbove.reach {s0 : St} {k : List Frame} {a b : Cfg} (hr : Reach s0 a) (h : RunAbove k a b) : Reach s0 b := by
  induction h with
  | refl _ => exact hr
  | step _ _ ih => exact .step ih

theorem not_above_self (k : List Frame) (c : Cfg) (h : c.stack = k) : ¬ Above k c := by
  rintro ⟨f, fs, hh⟩
  rw [h] at hh
  have := congrArg List.length hh
  simp at this
  omega

/-- frames of the handler loop of `(r, e)` carrying the pending list `l` -/
inductive IsLoopFrame (r e : Nat) (l : List Nat) : Frame → Prop
  | hLoop (err : Bool) (o : Outcome) : IsLoopFrame r e l (.hLoop r e l err o)
  | hAfter (err : Bool) (o : Outcome) : IsLoopFrame r e l (.hAfter r e l err o)
  | hApply (err : Bool) (o : Outcome) : IsLoopFrame r e l (.hApply r e l err o)

/-- `h` was called at this level -/
def CalledAt (k : List Frame) (r e h : Nat) (c0 c' : Cfg) : Prop :=
  ∃ c1 rest err stale, RunAbove k c0 c1 ∧ RunAbove k c1 c' ∧
    c1.stack = .invoke r h e :: .hAfter r e rest err stale :: k ∧ c1.exn = none

/-- the loop of this level was cut by `event.stop()` -/
def CutAt (k : List Frame) (r e : Nat) (c0 c' : Cfg) : Prop :=
  ∃ c1 rest err v, RunAbove k c0 c1 ∧ RunAbove k (step c1) c' ∧
    c1.stack = .hApply r e rest err v :: k ∧ c1.exn = none ∧
    ((c1.st.applyValue r e v).ev e).stopped = true ∧ (step c1).stack = .dispFin r e err :: k

/-- the run invariant: `h` was called, or the loop was cut, or `h` is still pending in the loop
    frame of this level -/
def LoopProg (k : List Frame) (r e h : Nat) (c0 c' : Cfg) : Prop :=
  CalledAt k r e h c0 c' ∨ CutAt k r e c0 c' ∨
  ∃ fs F l, c'.stack = fs ++ F :: k ∧ IsLoopFrame r e l F ∧ h ∈ l ∧
    (fs = [] ∨ ∃ err o, F = .hAfter r e l err o ∨ F = .hApply r e l err o)

theorem CalledAt.step {k : List Frame} {r e h : Nat} {c0 c' : Cfg} (hc : CalledAt k r e h c0 c')
    (ha : Above k (step c')) : CalledAt k r e h c0 (step c') := by
  obtain ⟨c1, rest, err, stale, h1, h2, h3, h4⟩ := hc
  exact ⟨c1, rest, err, stale, h1, .step h2 ha, h3, h4⟩

theorem CutAt.step {k : List Frame} {r e : Nat} {c0 c' : Cfg} (hc : CutAt k r e c0 c')
    (ha : Above k (step c')) : CutAt k r e c0 (step c') := by
  obtain ⟨c1, rest, err, v, h1, h2, h3, h4, h5, h6⟩ := hc
  exact ⟨c1, rest, err, v, h1, .step h2 ha, h3, h4, h5, h6⟩

/-- the step of an `.hAfter` frame keeps the loop going with the same pending list, whatever the
    handler's outcome (an exception of the handler is caught here; `SystemExit` /
    `KeyboardInterrupt` first call `stop()`) -/
theorem hAfter_step (c : Cfg) (r e : Nat) (rest : List Nat) (err : Bool) (stale : Outcome) (k : List Frame)
    (hst : c.stack = .hAfter r e rest err stale :: k) (hx : c.exn = none) :
    ∃ fs err' v, (step c).stack = fs ++ .hApply r e rest err' v :: k ∧ (step c).exn = none := by
  rw [step_cons c _ k hst hx]
  dsimp only [stepFrame]
  unfold Cfg.hAfter
  split
  · exact ⟨[.stopMgr r none], err, stale, rfl, hx⟩
  · exact ⟨[.stopMgr r _], err, stale, rfl, hx⟩
  · exact ⟨[], true, .raised, rfl, hx⟩
  · exact ⟨[], err, .none, rfl, hx⟩
  · exact ⟨[], err, .value _, rfl, hx⟩
  · exact ⟨[], err, .gen _, rfl, hx⟩

theorem hLoop_step_shape (c : Cfg) (r e h0 : Nat) (rest0 : List Nat) (err : Bool) (stale : Outcome) (k : List Frame)
    (hst : c.stack = .hLoop r e (h0 :: rest0) err stale :: k) (hx : c.exn = none) :
    ∃ h, h ∈ h0 :: rest0 ∧
      (step c).stack = .invoke r h e :: .hAfter r e ((h0 :: rest0).erase h) err stale :: k ∧ (step c).exn = none := by
  rw [step_cons c _ k hst hx]
  exact ⟨c.st.chooseHandler e h0 rest0, (chooseNext_spec (q2_chooseHandler c.st e h0 rest0)).1, rfl, hx⟩

/-- an exception pops the top frame (a loop frame has no `finally`) -/
theorem loopFrame_unwind (c : Cfg) (r e : Nat) (l : List Nat) (F : Frame) (k : List Frame) (ex : Exn)
    (hF : IsLoopFrame r e l F) (hst : c.stack = F :: k) (hx : c.exn = some ex) : (step c).stack = k := by
  rw [step_cons_exn c _ k ex hst hx]
  cases hF <;> rfl

theorem LoopProg.step {k : List Frame} {r e h : Nat} {c0 c' : Cfg} (hrun : RunAbove k c0 c')
    (hp : LoopProg k r e h c0 c') (ha : Above k (step c')) : LoopProg k r e h c0 (step c') := by
  rcases hp with hp | hp | ⟨fs, F, l, hst, hF, hl, hsh⟩
  · exact .inl (hp.step ha)
  · exact .inr (.inl (hp.step ha))
  · cases fs with
    | cons f fs1 =>
      -- the loop frame is not on top: the step happens above it
      have hsh' : ∃ err o, F = .hAfter r e l err o ∨ F = .hApply r e l err o := by
        rcases hsh with h0 | h0
        · cases h0
        · exact h0
      obtain ⟨fs', hs'⟩ := step_stack_suffix c' f (fs1 ++ F :: k) hst
      refine .inr (.inr ⟨fs' ++ fs1, F, l, ?_, hF, hl, .inr hsh'⟩)
      rw [hs', List.append_assoc]
    | nil =>
      have hst' : c'.stack = F :: k := hst
      cases hx : c'.exn with
      | some ex =>
        exact absurd ha (not_above_self k _ (loopFrame_unwind c' r e l F k ex hF hst' hx))
      | none =>
        cases hF with
        | hLoop err o =>
          cases l with
          | nil => cases hl
          | cons h0 rest0 =>
            obtain ⟨h1, hm, hs1, hx1⟩ := hLoop_step_shape c' r e h0 rest0 err o k hst' hx
            by_cases heq : h1 = h
            · subst heq
              exact .inl ⟨CV.Core.step c', _, err, o, .step hrun ha, .refl ha, hs1, hx1⟩
            · refine .inr (.inr ⟨[.invoke r h1 e], _, (h0 :: rest0).erase h1, hs1, .hAfter err o, ?_, .inr ⟨err, o, .inl rfl⟩⟩)
              exact (List.mem_erase_of_ne (fun hh => heq hh.symm)).mpr hl
        | hAfter err o =>
          obtain ⟨fs', err', v, hs1, _⟩ := hAfter_step c' r e l err o k hst' hx
          exact .inr (.inr ⟨fs', _, l, hs1, .hApply err' v, hl, .inr ⟨err', v, .inr rfl⟩⟩)
        | hApply err v =>
          have hs1 := q2_hApply_step c' r e l err v k hst' hx
          by_cases hstop : ((c'.st.applyValue r e v).ev e).stopped = true
          · rw [if_pos hstop] at hs1
            exact .inr (.inl ⟨c', l, err, v, hrun, .refl ha, hst', hx, hstop, hs1⟩)
          · rw [if_neg hstop] at hs1
            exact .inr (.inr ⟨[], _, l, hs1, .hLoop err v, hl, .inl rfl⟩)

theorem LoopProg.run {k : List Frame} {r e h : Nat} {c0 c' : Cfg} (hrun : RunAbove k c0 c')
    (h0 : LoopProg k r e h c0 c0) : LoopProg k r e h c0 c' := by
  induction hrun with
  | refl _ => exact h0
  | step hb ha ih => exact ih.step hb ha

/-- **The handler loop runs through its whole list.**  From `.hLoop r e hs err stale :: k` to the
    end `.dispFin r e err' :: k` of the same `_dispatcher` call: every handler of `hs` was called
    at this level, unless the loop was cut by `event.stop()`. -/
theorem loop_invokes_all {k : List Frame} {r e : Nat} {hs : List Nat} {err : Bool} {stale : Outcome}
    {c c' : Cfg} (hst : c.stack = .hLoop r e hs err stale :: k)
    (hrun : RunAbove k c c') {err' : Bool} (hfin : c'.stack = .dispFin r e err' :: k)
    (h : Nat) (hh : h ∈ hs) : CalledAt k r e h c c' ∨ CutAt k r e c c' := by
  have h0 : LoopProg k r e h c c := .inr (.inr ⟨[], _, hs, hst, .hLoop err stale, hh, .inl rfl⟩)
  rcases LoopProg.run hrun h0 with hp | hp | ⟨fs, F, l, hst', hF, _, _⟩
  · exact .inl hp
  · exact .inr hp
  · exfalso
    rw [hfin] at hst'
    have hlen := congrArg List.length hst'
    simp at hlen
    have : fs = [] := by
      cases fs with
      | nil => rfl
      | cons _ _ => simp at hlen
    subst this
    have : Frame.dispFin r e err' = F := by
      have h' : Frame.dispFin r e err' :: k = F :: k := hst'
      injection h'
    subst this
    cases hF


/-! ## the converse: only handlers of the list are called at this level -/

/-- one step only appends to the handler table (same proof as `C02.handler_table_append_only`) -/
theorem step_hs_append (c : Cfg) : ∃ ext, (step c).st.hs = c.st.hs ++ ext := by
  cases hst : c.stack with
  | nil => rw [step_nil c hst]; exact ⟨[], by simp⟩
  | cons f k =>
    cases hx : c.exn with
    | some ex =>
      rw [step_cons_exn c f k ex hst hx]
      have : O2G k c.st (unwind c k ex f) := by cases f <;> ((try dsimp only [unwind]); o2t)
      exact this.rel.hs
    | none =>
      rw [step_cons c f k hst hx]
      cases f
      case dispatcher r e rem =>
        have h : (stepFrame c k (.dispatcher r e rem)).st = (c.st.dispatchPre r e rem).2 := by
          dsimp only [stepFrame]; unfold Cfg.dispatcher; split <;> rfl
        rw [h]; exact (o2_dispatchPre_rel c.st r e rem).logged.1
      case hLoop r e l err stale =>
        cases l with
        | nil => exact ⟨[], by simp; rfl⟩
        | cons h0 rest0 => exact ⟨[], by simp; rfl⟩
      case invoke r h e =>
        rcases o2_invoke_cases c k r h e with hg | ⟨s, hs, hr, _⟩
        · exact hg.rel.hs
        · obtain ⟨x1, e1⟩ := hs.hs
          obtain ⟨x2, e2⟩ := hr.logged.1
          exact ⟨x1 ++ x2, by dsimp only [stepFrame]; rw [e2, e1, List.append_assoc]⟩
      case hAfter r e l err stale => exact (o2_hAfter_shape c k r e l err stale).1.hs
      case hApply r e l err v =>
        rcases o2_hApply_shape c k r e l err v with h | h
        · exact h.rel.hs
        · exact h.1.hs
      all_goals
        (refine O2R.hs (O2G.rel (k := k) ?_); (try dsimp only [stepFrame]); o2t)

theorem handler_of_append {s s' : St} {ext : List Handler} (he : s'.hs = s.hs ++ ext) {h : Nat}
    (hh : h < s.hs.length) : s'.handler h = s.handler h := by
  unfold St.handler
  rw [he, List.getD_eq_getElem?_getD, List.getD_eq_getElem?_getD, List.getElem?_append_left hh]

/-- a handler record that is not the default record is declared -/
theorem handler_lt_of_kind {s : St} {h : Nat} (hk : (s.handler h).kind ≠ .fallbackExc) : h < s.hs.length := by
  apply Classical.byContradiction
  intro hge
  have hd : s.handler h = dfltHandler := by
    unfold St.handler
    simp [List.getD_eq_getElem?_getD, List.getElem?_eq_none (Nat.le_of_not_lt hge)]
  rw [hd] at hk
  exact hk rfl

/-- handler records never change along a run -/
theorem RunAbove.handler_eq {k : List Frame} {a b : Cfg} (hrun : RunAbove k a b) {h : Nat}
    (hh : h < a.st.hs.length) : b.st.handler h = a.st.handler h ∧ h < b.st.hs.length := by
  induction hrun with
  | refl _ => exact ⟨rfl, hh⟩
  | step _ _ ih =>
    obtain ⟨ext, he⟩ := step_hs_append _
    refine ⟨(handler_of_append he ih.2).trans ih.1, ?_⟩
    rw [he, List.length_append]; omega

/-- the frames that follow the loop at its level: `.dispFin`, then `_eventDone` / `_effectDone` -/
inductive IsTail : Frame → Prop
  | dispFin (r e : Nat) (err : Bool) : IsTail (.dispFin r e err)
  | eventDone (r e : Nat) (err : Bool) : IsTail (.eventDone r e err)
  | effectDone (r e : Nat) (a : Bool) : IsTail (.effectDone r e a)

theorem tail_step (c : Cfg) (g : Frame) (k : List Frame) (hg : IsTail g) (hst : c.stack = g :: k) :
    (step c).stack = k ∨ ∃ g', IsTail g' ∧ (step c).stack = g' :: k := by
  cases hx : c.exn with
  | some ex =>
    rw [step_cons_exn c _ k ex hst hx]
    cases hg <;> exact .inl rfl
  | none =>
    rw [step_cons c _ k hst hx]
    cases hg with
    | dispFin r e err => exact .inr ⟨_, .eventDone r e err, rfl⟩
    | eventDone r e err =>
      dsimp only [stepFrame]; unfold Cfg.eventDone
      split
      · exact .inr ⟨_, .effectDone r e true, rfl⟩
      · exact .inl rfl
    | effectDone r e a =>
      dsimp only [stepFrame]; unfold Cfg.effectDone
      split
      · exact .inr ⟨_, .effectDone r _ true, rfl⟩
      · exact .inl rfl

/-- what a step puts in place of the top frame never ends in a bare call frame: `.invoke` frames
    are pushed only by the `.hLoop` arm, together with their `.hAfter` frame -/
theorem step_pushes_no_bare_invoke (c : Cfg) (f : Frame) (k : List Frame) (hst : c.stack = f :: k) :
    ∃ fs, (step c).stack = fs ++ k ∧ ∀ r h e, fs.getLast? ≠ some (.invoke r h e) := by
  obtain ⟨fs, h1, h2⟩ := (o2_step_class c f k hst).push
  refine ⟨fs, h1, ?_⟩
  intro r h e hl
  have hm : Frame.invoke r h e ∈ fs := List.mem_of_getLast? hl
  obtain ⟨hd, hx⟩ := h2 _ hm e rfl
  -- the explicit shape of the pushed frames, arm by arm
  have key : ∀ X : List Frame, (step c).stack = X ++ k → X.getLast? ≠ some (.invoke r h e) → False := by
    intro X hX hne
    have : fs = X := List.append_cancel_right (h1.symm.trans hX)
    exact hne (this ▸ hl)
  have hs := step_cons c f k hst hx
  cases f <;> (try (simp [Frame.o2dev, Frame.o2ev] at hd; done))
  case dispatcher r1 e1 rem =>
    have : ∃ g, (step c).stack = [g] ++ k ∧ ∀ r h e, g ≠ .invoke r h e := by
      rw [hs]; dsimp only [stepFrame]; unfold Cfg.dispatcher
      split
      · exact ⟨_, rfl, by intro _ _ _ hh; cases hh⟩
      · exact ⟨_, rfl, by intro _ _ _ hh; cases hh⟩
    obtain ⟨g, hg, hn⟩ := this
    exact key [g] hg (by simp; exact hn r h e)
  case hLoop r1 e1 l err stale =>
    cases l with
    | nil =>
      refine key [.dispFin r1 e1 err] (by rw [hs]; rfl) (by simp)
    | cons h0 rest0 =>
      obtain ⟨h', _, hs1, _⟩ := hLoop_step_shape c r1 e1 h0 rest0 err stale k hst hx
      exact key [.invoke r1 h' e1, .hAfter r1 e1 ((h0 :: rest0).erase h') err stale] hs1 (by simp)
  case hAfter r1 e1 l err stale =>
    obtain ⟨fs', err', v, hs1, _⟩ := hAfter_step c r1 e1 l err stale k hst hx
    exact key (fs' ++ [.hApply r1 e1 l err' v]) (by rw [hs1]; simp) (by simp)
  case hApply r1 e1 l err v =>
    have hs1 := q2_hApply_step c r1 e1 l err v k hst hx
    refine key [if ((c.st.applyValue r1 e1 v).ev e1).stopped = true then Frame.dispFin r1 e1 err
                      else Frame.hLoop r1 e1 l err v] hs1 ?_
    split <;> simp
  case invoke r1 h1' e1 =>
    have hp : ∃ X, (step c).stack = X ++ k ∧ o2plain X = true := by
      rw [hs]
      rcases o2_invoke_cases c k r1 h1' e1 with hg | ⟨_, _, _, hg⟩
      · exact hg.push
      · exact hg
    obtain ⟨X, hX, hpl⟩ := hp
    have : fs = X := List.append_cancel_right (h1.symm.trans hX)
    subst this
    have := List.all_eq_true.mp hpl _ hm
    simp [Frame.o2ev] at this

theorem getLast?_append_cons {α} (a : List α) (x y : α) (ys : List α) :
    (a ++ (y :: ys)).getLast? = (x :: y :: ys).getLast? := by
  rw [List.getLast?_append, List.getLast?_cons_cons]
  cases h : (y :: ys).getLast? with
  | none => simp at h
  | some v => simp

theorem append_two_cancel {α} {fs : List α} {F a b : α} {k : List α} (h : fs ++ F :: k = a :: b :: k) :
    fs = [a] ∧ F = b := by
  have hl := congrArg List.length h
  cases fs with
  | nil => simp at hl
  | cons x xs =>
    cases xs with
    | nil =>
      have h' : x :: F :: k = a :: b :: k := h
      injection h' with h1 h2
      injection h2 with h3 _
      exact ⟨by rw [h1], h3⟩
    | cons y ys => simp at hl; omega

/-- the second run invariant: the pending list stays inside `hs`, and a call frame directly on the
    loop frame of this level is the call of a member of `hs` -/
def LoopOnly (k : List Frame) (r e : Nat) (hs : List Nat) (c' : Cfg) : Prop :=
  (∃ fs F l, c'.stack = fs ++ F :: k ∧ IsLoopFrame r e l F ∧ (∀ x ∈ l, x ∈ hs) ∧
    ∀ r' h' e', fs.getLast? = some (.invoke r' h' e') → h' ∈ hs) ∨
  (∃ fs g, c'.stack = fs ++ g :: k ∧ IsTail g)

theorem LoopOnly.step {k : List Frame} {r e : Nat} {hs : List Nat} {c' : Cfg}
    (hp : LoopOnly k r e hs c') (ha : Above k (step c')) : LoopOnly k r e hs (step c') := by
  rcases hp with ⟨fs, F, l, hst, hF, hl, hlast⟩ | ⟨fs, g, hst, hg⟩
  · cases fs with
    | cons f fs1 =>
      obtain ⟨fs', hs', hno⟩ := step_pushes_no_bare_invoke c' f (fs1 ++ F :: k) hst
      refine .inl ⟨fs' ++ fs1, F, l, by rw [hs', List.append_assoc], hF, hl, ?_⟩
      intro r' h' e' hh
      cases fs1 with
      | nil => rw [List.append_nil] at hh; exact absurd hh (hno r' h' e')
      | cons y ys =>
        apply hlast r' h' e'
        rw [getLast?_append_cons fs' f y ys] at hh
        exact hh
    | nil =>
      have hst' : c'.stack = F :: k := hst
      cases hx : c'.exn with
      | some ex =>
        exact absurd ha (not_above_self k _ (loopFrame_unwind c' r e l F k ex hF hst' hx))
      | none =>
        cases hF with
        | hLoop err o =>
          cases l with
          | nil =>
            have : (CV.Core.step c').stack = [] ++ Frame.dispFin r e err :: k := by rw [step_cons c' _ k hst' hx]; rfl
            exact .inr ⟨[], _, this, .dispFin r e err⟩
          | cons h0 rest0 =>
            obtain ⟨h1, hm, hs1, _⟩ := hLoop_step_shape c' r e h0 rest0 err o k hst' hx
            refine .inl ⟨[.invoke r h1 e], _, (h0 :: rest0).erase h1, hs1, .hAfter err o, ?_, ?_⟩
            · intro x hxm; exact hl x (List.mem_of_mem_erase hxm)
            · intro r' h' e' hh
              simp at hh
              rw [← hh.2.1]; exact hl h1 hm
        | hAfter err o =>
          obtain ⟨fs', err', v, hs1, _⟩ := hAfter_step c' r e l err o k hst' hx
          obtain ⟨fs2, hs2, hno⟩ := step_pushes_no_bare_invoke c' _ k hst'
          have : fs2 = fs' ++ [.hApply r e l err' v] := by
            apply List.append_cancel_right (bs := k)
            rw [← hs2, hs1]; simp
          refine .inl ⟨fs', _, l, hs1, .hApply err' v, hl, ?_⟩
          intro r' h' e' hh
          cases fs' with
          | nil => simp at hh
          | cons y ys =>
            -- `fs'` is `[.stopMgr ..]`: read it off the arm
            exfalso
            have h3 := hs1
            rw [step_cons c' _ k hst' hx] at h3
            dsimp only [stepFrame] at h3
            unfold Cfg.hAfter at h3
            split at h3 <;>
              (first
                | (have h4 := append_two_cancel (fs := y :: ys) (k := k) h3.symm
                   rw [h4.1] at hh; simp at hh)
                | (have h5 := congrArg List.length h3; simp [Cfg.goto] at h5; omega))
        | hApply err v =>
          have hs1 := q2_hApply_step c' r e l err v k hst' hx
          by_cases hstop : ((c'.st.applyValue r e v).ev e).stopped = true
          · rw [if_pos hstop] at hs1
            exact .inr ⟨[], _, hs1, .dispFin r e err⟩
          · rw [if_neg hstop] at hs1
            exact .inl ⟨[], _, l, hs1, .hLoop err v, hl, by intro _ _ _ hh; simp at hh⟩
  · cases fs with
    | cons f fs1 =>
      obtain ⟨fs', hs'⟩ := step_stack_suffix c' f (fs1 ++ g :: k) hst
      exact .inr ⟨fs' ++ fs1, g, by rw [hs', List.append_assoc], hg⟩
    | nil =>
      rcases tail_step c' g k hg hst with h | ⟨g', hg', h⟩
      · exact absurd ha (not_above_self k _ h)
      · exact .inr ⟨[], g', h, hg'⟩

theorem LoopOnly.run {k : List Frame} {r e : Nat} {hs : List Nat} {c c1 : Cfg} (hrun : RunAbove k c c1)
    (h0 : LoopOnly k r e hs c) : LoopOnly k r e hs c1 := by
  induction hrun with
  | refl _ => exact h0
  | step _ ha ih => exact ih.step ha

/-- **Only listed handlers are called.**  On a run from `.hLoop r e hs err stale :: k` that stays
    above `k`, a call frame sitting directly on the loop frame of this level is the call of a
    member of `hs`. -/
theorem loop_calls_only_listed {k : List Frame} {r e : Nat} {hs : List Nat} {err : Bool} {stale : Outcome}
    {c c1 : Cfg} (hst : c.stack = .hLoop r e hs err stale :: k) (hrun : RunAbove k c c1)
    {r' h' e' : Nat} {rest : List Nat} {err1 : Bool} {stale1 : Outcome}
    (h1 : c1.stack = .invoke r' h' e' :: .hAfter r e rest err1 stale1 :: k) : h' ∈ hs := by
  have h0 : LoopOnly k r e hs c :=
    .inl ⟨[], _, hs, hst, .hLoop err stale, fun _ h => h, by intro _ _ _ hh; simp at hh⟩
  have hinv : LoopOnly k r e hs c1 := LoopOnly.run hrun h0
  rcases hinv with ⟨fs, F, l, hs1, _, _, hlast⟩ | ⟨fs, g, hs1, hg⟩
  · rw [h1] at hs1
    obtain ⟨hfs, _⟩ := append_two_cancel hs1.symm
    exact hlast r' h' e' (by rw [hfs]; rfl)
  · rw [h1] at hs1
    obtain ⟨_, hF⟩ := append_two_cancel hs1.symm
    rw [hF] at hg
    cases hg

/-! ## deciding `Above` / `RunAbove` on concrete runs (non-vacuity examples) -/

deriving instance DecidableEq for Outcome, HCtx, Frame

/-- Bool version of `Above` -/
def aboveB (k : List Frame) (c : Cfg) : Bool :=
  decide (k.length < c.stack.length ∧ c.stack.drop (c.stack.length - k.length) = k)

theorem above_of_B {k : List Frame} {c : Cfg} (h : aboveB k c = true) : Above k c := by
  unfold aboveB at h
  obtain ⟨hl, hd⟩ := of_decide_eq_true h
  have hsplit := List.take_append_drop (c.stack.length - k.length) c.stack
  rw [hd] at hsplit
  cases ht : c.stack.take (c.stack.length - k.length) with
  | nil =>
    have := congrArg List.length ht
    rw [List.length_take] at this
    simp at this
    omega
  | cons f fs =>
    rw [ht] at hsplit
    exact ⟨f, fs, hsplit.symm⟩

/-- `n` steps, each of them above `k` -/
theorem RunAbove.ofRunN {k : List Frame} (n : Nat) : ∀ {c0 c : Cfg}, RunAbove k c0 c →
    (∀ i, i ≤ n → aboveB k (runN i c) = true) → RunAbove k c0 (runN n c) := by
  induction n with
  | zero => intro c0 c h _; exact h
  | succ n ih =>
    intro c0 c h hall
    have ha : Above k c := above_of_B (hall 0 (Nat.zero_le _))
    have hnd : done c = false := by
      obtain ⟨f, fs, hst⟩ := ha
      unfold done; rw [hst]; rfl
    have hstep : ∀ i, runN (i + 1) c = runN i (CV.Core.step c) := by
      intro i; show (if done c then c else runN i (CV.Core.step c)) = _; rw [hnd]; rfl
    rw [hstep]
    refine ih (.step h (above_of_B ?_)) ?_
    · have := hall 1 (by omega)
      rw [hstep] at this
      exact this
    · intro i hi
      have := hall (i + 1) (by omega)
      rw [hstep] at this
      exact this

/-- a handler that occurs in the tables of component `x` only matches only there (decidable
    hypothesis for concrete states) -/
theorem matches_only_at (s : St) (h x : Nat)
    (hx : ∀ d, d < s.comps.length → d ≠ x →
      (∀ p ∈ (s.comps.getD d dfltComp).htab, p.2 ≠ h) ∧ h ∉ (s.comps.getD d dfltComp).globals) :
    ∀ d name ch, matchesAt s d name ch h → d = x := by
  intro d name ch hm
  apply Classical.byContradiction
  intro hne
  by_cases hd : d < s.comps.length
  · obtain ⟨h1, h2⟩ := hx d hd hne
    rcases hm with ⟨hi | hi, _⟩ | hg
    · exact h1 _ hi rfl
    · exact h1 _ hi rfl
    · exact h2 hg
  · have hdf : s.comps.getD d dfltComp = dfltComp := by
      simp [List.getD_eq_getElem?_getD, List.getElem?_eq_none (Nat.le_of_not_lt hd)]
    unfold matchesAt installedFor at hm
    rw [hdf] at hm
    simp [dfltComp] at hm

end CV.Core

import CV.Proofs.InvWaitBase
/-
C06, global layer, part 1: the UNIVERSAL monotonicity relation `St.W6S s s'` that every step
respects (no exceptions): generator ids stay valid, a generator that is not a waitEvent generator
never becomes one, wait states keep their identity (`owner`, `evName`, `task`) and their
`started` / `run` / `flag` bits only ever go from false to true, the handler table only grows,
programs never change.  It carries facts about the frames deeper in the stack across a step.
-/
namespace CV.Core

def GenRec.w6_isWait : GenRec → Bool
  | .wait _ => true
  | _ => false

structure St.W6S (s s' : St) : Prop where
  gensLen : s.gens.length ≤ s'.gens.length
  genBack : ∀ g, g < s.gens.length → ∀ w, s'.gen g = .wait w → s.gen g = .wait w
  waitsLen : s.waits.length ≤ s'.waits.length
  ident : ∀ w, w < s.waits.length →
    (s'.wait w).owner = (s.wait w).owner ∧ (s'.wait w).evName = (s.wait w).evName ∧ (s'.wait w).task = (s.wait w).task
  bits : ∀ w, ((s.wait w).started = true → (s'.wait w).started = true) ∧
    ((s.wait w).run = true → (s'.wait w).run = true) ∧ ((s.wait w).flag = true → (s'.wait w).flag = true)
  hsLen : s.hs.length ≤ s'.hs.length
  hsKeep : ∀ h, h < s.hs.length → s'.handler h = s.handler h
  progs : s'.progs = s.progs

namespace St.W6S

theorem refl (s : St) : St.W6S s s :=
  ⟨Nat.le_refl _, fun _ _ _ h => h, Nat.le_refl _, fun _ _ => ⟨rfl, rfl, rfl⟩, fun _ => ⟨id, id, id⟩,
   Nat.le_refl _, fun _ _ => rfl, rfl⟩

theorem trans {a b c : St} (h1 : St.W6S a b) (h2 : St.W6S b c) : St.W6S a c := by
  refine ⟨Nat.le_trans h1.gensLen h2.gensLen, ?_, Nat.le_trans h1.waitsLen h2.waitsLen, ?_, ?_,
    Nat.le_trans h1.hsLen h2.hsLen, ?_, h2.progs.trans h1.progs⟩
  · intro g hg w hw
    exact h1.genBack g hg w (h2.genBack g (Nat.lt_of_lt_of_le hg h1.gensLen) w hw)
  · intro w hw
    have k1 := h1.ident w hw
    have k2 := h2.ident w (Nat.lt_of_lt_of_le hw h1.waitsLen)
    exact ⟨k2.1.trans k1.1, k2.2.1.trans k1.2.1, k2.2.2.trans k1.2.2⟩
  · intro w
    exact ⟨fun h => (h2.bits w).1 ((h1.bits w).1 h), fun h => (h2.bits w).2.1 ((h1.bits w).2.1 h),
      fun h => (h2.bits w).2.2 ((h1.bits w).2.2 h)⟩
  · intro h hh
    rw [h2.hsKeep h (Nat.lt_of_lt_of_le hh h1.hsLen), h1.hsKeep h hh]

/-! ### primitives -/

theorem modComp_self (t : St) (c : Nat) (f : Comp → Comp) : St.W6S t (t.modComp c f) :=
  ⟨Nat.le_refl _, fun _ _ _ h => h, Nat.le_refl _, fun _ _ => ⟨rfl, rfl, rfl⟩, fun _ => ⟨id, id, id⟩,
   Nat.le_refl _, fun _ _ => rfl, rfl⟩
theorem modEv_self (t : St) (c : Nat) (f : Ev → Ev) : St.W6S t (t.modEv c f) :=
  ⟨Nat.le_refl _, fun _ _ _ h => h, Nat.le_refl _, fun _ _ => ⟨rfl, rfl, rfl⟩, fun _ => ⟨id, id, id⟩,
   Nat.le_refl _, fun _ _ => rfl, rfl⟩
theorem modTimer_self (t : St) (c : Nat) (f : TimerSt → TimerSt) : St.W6S t (t.modTimer c f) :=
  ⟨Nat.le_refl _, fun _ _ _ h => h, Nat.le_refl _, fun _ _ => ⟨rfl, rfl, rfl⟩, fun _ => ⟨id, id, id⟩,
   Nat.le_refl _, fun _ _ => rfl, rfl⟩
theorem tick1_self (t : St) (d : Int) : St.W6S t (t.tick1 d) :=
  ⟨Nat.le_refl _, fun _ _ _ h => h, Nat.le_refl _, fun _ _ => ⟨rfl, rfl, rfl⟩, fun _ => ⟨id, id, id⟩,
   Nat.le_refl _, fun _ _ => rfl, rfl⟩
theorem logE_self (t : St) (x : Entry) : St.W6S t (t.logE x) :=
  ⟨Nat.le_refl _, fun _ _ _ h => h, Nat.le_refl _, fun _ _ => ⟨rfl, rfl, rfl⟩, fun _ => ⟨id, id, id⟩,
   Nat.le_refl _, fun _ _ => rfl, rfl⟩
theorem addEv_self (t : St) (x : Ev) : St.W6S t (t.addEv x) :=
  ⟨Nat.le_refl _, fun _ _ _ h => h, Nat.le_refl _, fun _ _ => ⟨rfl, rfl, rfl⟩, fun _ => ⟨id, id, id⟩,
   Nat.le_refl _, fun _ _ => rfl, rfl⟩
theorem addH_self (t : St) (x : Handler) : St.W6S t (t.addH x) :=
  ⟨Nat.le_refl _, fun _ _ _ h => h, Nat.le_refl _, fun _ _ => ⟨rfl, rfl, rfl⟩, fun _ => ⟨id, id, id⟩,
   by simp, fun h hh => by rw [St.w6_addH_handler]; simp [Nat.ne_of_lt hh], rfl⟩
theorem setGen_self (t : St) (g : Nat) (x : GenRec) (hx : x.w6_isWait = false) : St.W6S t (t.setGen g x) :=
  ⟨by simp, fun g' _ w hw => (by
      rcases St.w6_setGen_gen_cases t g x g' with h | ⟨_, _, h⟩
      · rwa [h] at hw
      · rw [h] at hw; rw [hw] at hx; cases hx),
   Nat.le_refl _, fun _ _ => ⟨rfl, rfl, rfl⟩, fun _ => ⟨id, id, id⟩, Nat.le_refl _, fun _ _ => rfl, rfl⟩
theorem addGen_self (t : St) (x : GenRec) : St.W6S t (t.addGen x) :=
  ⟨by simp, fun g' hg' w hw => (by rw [St.w6_addGen_gen] at hw; simpa [Nat.ne_of_lt hg'] using hw),
   Nat.le_refl _, fun _ _ => ⟨rfl, rfl, rfl⟩, fun _ => ⟨id, id, id⟩, Nat.le_refl _, fun _ _ => rfl, rfl⟩
theorem addWait_self (t : St) (x : WaitSt) : St.W6S t (t.addWait x) :=
  ⟨Nat.le_refl _, fun _ _ _ h => h, by simp,
   fun w hw => (by rw [St.w6_addWait_wait]; simp [Nat.ne_of_lt hw]),
   fun w => (by
     rw [St.w6_addWait_wait]; split
     · rename_i hw; rw [hw, St.w6_wait_ge _ _ (Nat.le_refl _)]
       exact ⟨fun h => (by cases h), fun h => (by cases h), fun h => (by cases h)⟩
     · exact ⟨id, id, id⟩),
   Nat.le_refl _, fun _ _ => rfl, rfl⟩
theorem modWait_self (t : St) (w : Nat) (f : WaitSt → WaitSt)
    (h1 : ∀ x, (f x).owner = x.owner ∧ (f x).evName = x.evName ∧ (f x).task = x.task)
    (h2 : ∀ x, (x.started = true → (f x).started = true) ∧ (x.run = true → (f x).run = true) ∧
      (x.flag = true → (f x).flag = true)) : St.W6S t (t.modWait w f) :=
  ⟨Nat.le_refl _, fun _ _ _ h => h, by simp,
   fun w' _ => ⟨St.w6_modWait_wait_pres t (·.owner) w f (fun x => (h1 x).1) w',
               St.w6_modWait_wait_pres t (·.evName) w f (fun x => (h1 x).2.1) w',
               St.w6_modWait_wait_pres t (·.task) w f (fun x => (h1 x).2.2) w'⟩,
   fun w' => (by
     by_cases e1 : w' = w
     · subst e1
       by_cases e2 : w' < t.waits.length
       · rw [St.w6_modWait_wait_lt _ _ _ e2]; exact h2 _
       · rw [St.w6_modWait_wait_ge _ _ _ _ (by omega)]; exact ⟨id, id, id⟩
     · rw [St.w6_modWait_wait_ne _ _ _ _ e1]; exact ⟨id, id, id⟩),
   Nat.le_refl _, fun _ _ => rfl, rfl⟩

variable {s t : St}
theorem modComp (h : St.W6S s t) (c : Nat) (f : Comp → Comp) : St.W6S s (t.modComp c f) := h.trans (modComp_self ..)
theorem modEv (h : St.W6S s t) (c : Nat) (f : Ev → Ev) : St.W6S s (t.modEv c f) := h.trans (modEv_self ..)
theorem modTimer (h : St.W6S s t) (c : Nat) (f : TimerSt → TimerSt) : St.W6S s (t.modTimer c f) := h.trans (modTimer_self ..)
theorem tick1 (h : St.W6S s t) (d : Int) : St.W6S s (t.tick1 d) := h.trans (tick1_self ..)
theorem logE (h : St.W6S s t) (x : Entry) : St.W6S s (t.logE x) := h.trans (logE_self ..)
theorem addEv (h : St.W6S s t) (x : Ev) : St.W6S s (t.addEv x) := h.trans (addEv_self ..)
theorem addH (h : St.W6S s t) (x : Handler) : St.W6S s (t.addH x) := h.trans (addH_self ..)
theorem setGen (h : St.W6S s t) (g : Nat) (x : GenRec) (hx : x.w6_isWait = false) : St.W6S s (t.setGen g x) :=
  h.trans (setGen_self _ _ _ hx)
theorem addGen (h : St.W6S s t) (x : GenRec) : St.W6S s (t.addGen x) := h.trans (addGen_self ..)
theorem addWait (h : St.W6S s t) (x : WaitSt) : St.W6S s (t.addWait x) := h.trans (addWait_self ..)
theorem modWait (h : St.W6S s t) (w : Nat) (f : WaitSt → WaitSt)
    (h1 : ∀ x, (f x).owner = x.owner ∧ (f x).evName = x.evName ∧ (f x).task = x.task)
    (h2 : ∀ x, (x.started = true → (f x).started = true) ∧ (x.run = true → (f x).run = true) ∧
      (x.flag = true → (f x).flag = true)) : St.W6S s (t.modWait w f) := h.trans (modWait_self _ _ _ h1 h2)

end St.W6S

syntax "w6st_s1" : tactic
macro_rules | `(tactic| w6st_s1) => `(tactic| split)
macro_rules | `(tactic| w6st_s1) => `(tactic| with_reducible apply St.W6S.tick1)
macro_rules | `(tactic| w6st_s1) => `(tactic| with_reducible apply St.W6S.addWait)
macro_rules | `(tactic| w6st_s1) => `(tactic| with_reducible apply St.W6S.addGen)
macro_rules | `(tactic| w6st_s1) => `(tactic| with_reducible apply St.W6S.addH)
macro_rules | `(tactic| w6st_s1) => `(tactic| with_reducible apply St.W6S.addEv)
macro_rules | `(tactic| w6st_s1) => `(tactic| with_reducible apply St.W6S.logE)
macro_rules | `(tactic| w6st_s1) => `(tactic| with_reducible apply St.W6S.setGen)
macro_rules | `(tactic| w6st_s1) => `(tactic| with_reducible apply St.W6S.modTimer)
macro_rules | `(tactic| w6st_s1) => `(tactic| with_reducible apply St.W6S.modWait)
macro_rules | `(tactic| w6st_s1) => `(tactic| with_reducible apply St.W6S.modEv)
macro_rules | `(tactic| w6st_s1) => `(tactic| with_reducible apply St.W6S.modComp)
-- side conditions
macro_rules | `(tactic| w6st_s1) => `(tactic| (intro _; exact And.intro rfl (And.intro rfl rfl)))
macro_rules | `(tactic| w6st_s1) => `(tactic| (intro _; refine And.intro ?_ (And.intro ?_ ?_) <;> first | exact id | exact fun _ => rfl))
macro_rules | `(tactic| w6st_s1) => `(tactic| exact rfl)
macro_rules | `(tactic| w6st_s1) => `(tactic| with_reducible assumption)
macro_rules | `(tactic| w6st_s1) => `(tactic| with_reducible exact St.W6S.refl _)

macro "w6st_s" : tactic => `(tactic| repeat' w6st_s1)
macro "w6st_s_unfold" ids:ident+ : tactic => `(tactic| (unfold $[$ids]*; (try dsimp only); w6st_s))

/-! ## helpers of `Pure.lean` -/

/-- a `foldl` of steps that each respect `Le` respects `Le` -/
theorem St.W6S.foldl {s t : St} {α} (g : St → α → St) (hg : ∀ a x, St.W6S s a → St.W6S s (g a x)) (l : List α)
    (h : St.W6S s t) : St.W6S s (l.foldl g t) := by
  induction l generalizing t with
  | nil => exact h
  | cons x l ih => exact ih (hg _ _ h)

theorem St.W6S.addHandler {s t : St} (h : St.W6S s t) (x : Nat) : St.W6S s (t.addHandler x) := by
  unfold St.addHandler
  dsimp only
  apply St.W6S.modComp
  split
  · w6st_s
  · split
    · w6st_s
    · exact St.W6S.foldl _ (fun a n ha => ha.modComp _ _) _ h
macro_rules | `(tactic| w6st_s1) => `(tactic| with_reducible apply St.W6S.addHandler)

theorem St.W6S.removeHandler {s t : St} (h : St.W6S s t) (x : Nat) (n : Option Name) :
    St.W6S s ((t.removeHandler x n).2) := by
  w6st_s_unfold St.removeHandler
macro_rules | `(tactic| w6st_s1) => `(tactic| with_reducible apply St.W6S.removeHandler)

theorem St.W6S.fireContext {s t : St} (h : St.W6S s t) (r e : Nat) :
    St.W6S s (t.fireContext r e) := by
  w6st_s_unfold St.fireContext
macro_rules | `(tactic| w6st_s1) => `(tactic| with_reducible apply St.W6S.fireContext)

theorem St.W6S.fireRaw {s t : St} (h : St.W6S s t) (self e : Nat) (chans : List Chan) (prio : Int) :
    St.W6S s (t.fireRaw self e chans prio) := by
  w6st_s_unfold St.fireRaw
macro_rules | `(tactic| w6st_s1) => `(tactic| with_reducible apply St.W6S.fireRaw)

theorem St.W6S.childEv {s t : St} (h : St.W6S s t) (p sfx : Nat) :
    St.W6S s (t.childEv p sfx) := by
  w6st_s_unfold St.childEv
macro_rules | `(tactic| w6st_s1) => `(tactic| with_reducible apply St.W6S.childEv)

theorem St.W6S.fireChild {s t : St} (h : St.W6S s t) (self p sfx : Nat) (chans : List Chan) :
    St.W6S s (t.fireChild self p sfx chans) := by
  w6st_s_unfold St.fireChild
macro_rules | `(tactic| w6st_s1) => `(tactic| with_reducible apply St.W6S.fireChild)

theorem St.W6S.inform {s t : St} (h : St.W6S s t) (e : Nat) (force : Bool) :
    St.W6S s (t.inform e force) := by
  w6st_s_unfold St.inform
macro_rules | `(tactic| w6st_s1) => `(tactic| with_reducible apply St.W6S.inform)

theorem St.W6S.setValue {s t : St} (h : St.W6S s t) (e : Nat) (x : VItem) :
    St.W6S s (t.setValue e x) := by
  w6st_s_unfold St.setValue
macro_rules | `(tactic| w6st_s1) => `(tactic| with_reducible apply St.W6S.setValue)

theorem St.W6S.fireTmplEv {s t : St} (h : St.W6S s t) (self : Nat) (ev : Ev) (target : Option Chan) (prio : Int) :
    St.W6S s (t.fireTmplEv self ev target prio) := by
  w6st_s_unfold St.fireTmplEv
macro_rules | `(tactic| w6st_s1) => `(tactic| with_reducible apply St.W6S.fireTmplEv)

theorem St.W6S.effectDone1 {s t : St} (h : St.W6S s t) (r e : Nat) (announce : Bool) :
    St.W6S s ((t.effectDone1 r e announce).2) := by
  w6st_s_unfold St.effectDone1
macro_rules | `(tactic| w6st_s1) => `(tactic| with_reducible apply St.W6S.effectDone1)

theorem St.W6S.eventDonePre {s t : St} (h : St.W6S s t) (r e : Nat) (err : Bool) :
    St.W6S s ((t.eventDonePre r e err).2) := by
  w6st_s_unfold St.eventDonePre
macro_rules | `(tactic| w6st_s1) => `(tactic| with_reducible apply St.W6S.eventDonePre)

theorem St.W6S.registerTask {s t : St} (h : St.W6S s t) (c : Nat) (x : Task) :
    St.W6S s (t.registerTask c x) := by
  w6st_s_unfold St.registerTask
macro_rules | `(tactic| w6st_s1) => `(tactic| with_reducible apply St.W6S.registerTask)

theorem St.W6S.unregisterTask {s t : St} (h : St.W6S s t) (c : Nat) (x : Task) :
    St.W6S s (t.unregisterTask c x) := by
  w6st_s_unfold St.unregisterTask
macro_rules | `(tactic| w6st_s1) => `(tactic| with_reducible apply St.W6S.unregisterTask)

theorem St.W6S.reduceTimeLeft {s t : St} (h : St.W6S s t) (e : Nat) (d : Int) :
    St.W6S s (t.reduceTimeLeft e d) := by
  w6st_s_unfold St.reduceTimeLeft
macro_rules | `(tactic| w6st_s1) => `(tactic| with_reducible apply St.W6S.reduceTimeLeft)

theorem St.W6S.registerPre {s t : St} (h : St.W6S s t) (c p : Nat) :
    St.W6S s ((t.registerPre c p).2) := by
  w6st_s_unfold St.registerPre
macro_rules | `(tactic| w6st_s1) => `(tactic| with_reducible apply St.W6S.registerPre)

theorem St.W6S.registerFin {s t : St} (h : St.W6S s t) (c : Nat) :
    St.W6S s (t.registerFin c) := by
  w6st_s_unfold St.registerFin
macro_rules | `(tactic| w6st_s1) => `(tactic| with_reducible apply St.W6S.registerFin)

theorem St.W6S.unregister {s t : St} (h : St.W6S s t) (c : Nat) :
    St.W6S s (t.unregister c) := by
  w6st_s_unfold St.unregister
macro_rules | `(tactic| w6st_s1) => `(tactic| with_reducible apply St.W6S.unregister)

theorem St.W6S.prepUnregPre {s t : St} (h : St.W6S s t) (c : Nat) :
    St.W6S s (t.prepUnregPre c) := by
  w6st_s_unfold St.prepUnregPre
macro_rules | `(tactic| w6st_s1) => `(tactic| with_reducible apply St.W6S.prepUnregPre)

theorem St.W6S.prepUnregFin {s t : St} (h : St.W6S s t) (c : Nat) :
    St.W6S s (t.prepUnregFin c) := by
  w6st_s_unfold St.prepUnregFin
macro_rules | `(tactic| w6st_s1) => `(tactic| with_reducible apply St.W6S.prepUnregFin)

theorem St.W6S.actFire {s t : St} (h : St.W6S s t) (self i : Nat) (target : Option Chan) (prio : Int) (cancel : Bool) :
    St.W6S s (t.actFire self i target prio cancel) := by
  w6st_s_unfold St.actFire
macro_rules | `(tactic| w6st_s1) => `(tactic| with_reducible apply St.W6S.actFire)

theorem St.W6S.actStopEv {s t : St} (h : St.W6S s t) (ev : Option Nat) :
    St.W6S s (t.actStopEv ev) := by
  w6st_s_unfold St.actStopEv
macro_rules | `(tactic| w6st_s1) => `(tactic| with_reducible apply St.W6S.actStopEv)

theorem St.W6S.timerReset {s t : St} (h : St.W6S s t) (i : Nat) :
    St.W6S s (t.timerReset i) := by
  w6st_s_unfold St.timerReset
macro_rules | `(tactic| w6st_s1) => `(tactic| with_reducible apply St.W6S.timerReset)

theorem St.W6S.timerCreate {s t : St} (h : St.W6S s t) (i : Nat) :
    St.W6S s (t.timerCreate i) := by
  w6st_s_unfold St.timerCreate
macro_rules | `(tactic| w6st_s1) => `(tactic| with_reducible apply St.W6S.timerCreate)

theorem St.W6S.timerTick {s t : St} (h : St.W6S s t) (i e : Nat) :
    St.W6S s (t.timerTick i e) := by
  w6st_s_unfold St.timerTick
macro_rules | `(tactic| w6st_s1) => `(tactic| with_reducible apply St.W6S.timerTick)

theorem St.W6S.startWait {s t : St} (h : St.W6S s t) (w : Nat) :
    St.W6S s (t.startWait w) := by
  w6st_s_unfold St.startWait
macro_rules | `(tactic| w6st_s1) => `(tactic| with_reducible apply St.W6S.startWait)

/-! ## pure pieces of `Step.lean` -/

theorem St.W6S.stopBegin {s t : St} (h : St.W6S s t) (c : Nat) :
    St.W6S s (t.stopBegin c) := by
  w6st_s_unfold St.stopBegin
macro_rules | `(tactic| w6st_s1) => `(tactic| with_reducible apply St.W6S.stopBegin)

theorem St.W6S.stopSetCode {s t : St} (h : St.W6S s t) (r : Nat) (code : Code) :
    St.W6S s (t.stopSetCode r code) := by
  w6st_s_unfold St.stopSetCode
macro_rules | `(tactic| w6st_s1) => `(tactic| with_reducible apply St.W6S.stopSetCode)

theorem St.W6S.genCall {s t : St} (h : St.W6S s t) (owner i : Nat) (target : Option Chan) (timeout : Option Nat) :
    St.W6S s (t.genCall owner i target timeout) := by
  w6st_s_unfold St.genCall
macro_rules | `(tactic| w6st_s1) => `(tactic| with_reducible apply St.W6S.genCall)

theorem St.W6S.genWait {s t : St} (h : St.W6S s t) (owner : Nat) (name : Name) (target : Option Chan) (timeout : Option Nat) :
    St.W6S s (t.genWait owner name target timeout) := by
  w6st_s_unfold St.genWait
macro_rules | `(tactic| w6st_s1) => `(tactic| with_reducible apply St.W6S.genWait)

theorem St.W6S.resumeGenPre {s t : St} (h : St.W6S s t) (g : Nat) (silent : Bool) :
    St.W6S s (t.resumeGenPre g silent) := by
  w6st_s_unfold St.resumeGenPre
macro_rules | `(tactic| w6st_s1) => `(tactic| with_reducible apply St.W6S.resumeGenPre)

theorem St.W6S.stopIteration {s t : St} (h : St.W6S s t) (r : Nat) (x : Task) :
    St.W6S s ((t.stopIteration r x).2) := by
  w6st_s_unfold St.stopIteration
macro_rules | `(tactic| w6st_s1) => `(tactic| with_reducible apply St.W6S.stopIteration)

theorem St.W6S.fireException {s t : St} (h : St.W6S s t) (r e : Nat) :
    St.W6S s (t.fireException r e) := by
  w6st_s_unfold St.fireException
macro_rules | `(tactic| w6st_s1) => `(tactic| with_reducible apply St.W6S.fireException)

theorem St.W6S.errorBranch {s t : St} (h : St.W6S s t) (r : Nat) (x : Task) (resumed : Bool) :
    St.W6S s ((t.errorBranch r x resumed).2) := by
  w6st_s_unfold St.errorBranch
macro_rules | `(tactic| w6st_s1) => `(tactic| with_reducible apply St.W6S.errorBranch)

theorem St.W6S.ownSub {s t : St} (h : St.W6S s t) (r : Nat) (x : Task) (w : Nat) :
    St.W6S s (t.ownSub r x w) := by
  w6st_s_unfold St.ownSub
macro_rules | `(tactic| w6st_s1) => `(tactic| with_reducible apply St.W6S.ownSub)

theorem St.W6S.setValueOpt {s t : St} (h : St.W6S s t) (e : Nat) (v : Option Nat) :
    St.W6S s (t.setValueOpt e v) := by
  w6st_s_unfold St.setValueOpt
macro_rules | `(tactic| w6st_s1) => `(tactic| with_reducible apply St.W6S.setValueOpt)

theorem St.W6S.parentSub {s t : St} (h : St.W6S s t) (r : Nat) (x : Task) (p w2 : Nat) (viaThrow : Bool) :
    St.W6S s (t.parentSub r x p w2 viaThrow) := by
  w6st_s_unfold St.parentSub
macro_rules | `(tactic| w6st_s1) => `(tactic| with_reducible apply St.W6S.parentSub)

theorem St.W6S.parentPlain {s t : St} (h : St.W6S s t) (r : Nat) (x : Task) (p : Nat) (v : Option Nat) (viaThrow : Bool) :
    St.W6S s (t.parentPlain r x p v viaThrow) := by
  w6st_s_unfold St.parentPlain
macro_rules | `(tactic| w6st_s1) => `(tactic| with_reducible apply St.W6S.parentPlain)

theorem St.W6S.onWaitEvent {s t : St} (h : St.W6S s t) (w e : Nat) :
    St.W6S s ((t.onWaitEvent w e).2) := by
  w6st_s_unfold St.onWaitEvent
macro_rules | `(tactic| w6st_s1) => `(tactic| with_reducible apply St.W6S.onWaitEvent)

theorem St.W6S.onWaitDone {s t : St} (h : St.W6S s t) (w e : Nat) :
    St.W6S s ((t.onWaitDone w e).2) := by
  w6st_s_unfold St.onWaitDone
macro_rules | `(tactic| w6st_s1) => `(tactic| with_reducible apply St.W6S.onWaitDone)

theorem St.W6S.onWaitTick {s t : St} (h : St.W6S s t) (w : Nat) :
    St.W6S s ((t.onWaitTick w).2) := by
  w6st_s_unfold St.onWaitTick
macro_rules | `(tactic| w6st_s1) => `(tactic| with_reducible apply St.W6S.onWaitTick)

theorem St.W6S.onFallbackGE {s t : St} (h : St.W6S s t) (e : Nat) :
    St.W6S s ((t.onFallbackGE e).2) := by
  w6st_s_unfold St.onFallbackGE
macro_rules | `(tactic| w6st_s1) => `(tactic| with_reducible apply St.W6S.onFallbackGE)

theorem St.W6S.computeHandlers {s t : St} (h : St.W6S s t) (r : Nat) (name : Name) (chans : List Chan) :
    St.W6S s ((t.computeHandlers r name chans).2) := by
  w6st_s_unfold St.computeHandlers
macro_rules | `(tactic| w6st_s1) => `(tactic| with_reducible apply St.W6S.computeHandlers)

theorem St.W6S.dispComplete {s t : St} (h : St.W6S s t) (e : Nat) (ev : Ev) :
    St.W6S s (t.dispComplete e ev) := by
  w6st_s_unfold St.dispComplete
macro_rules | `(tactic| w6st_s1) => `(tactic| with_reducible apply St.W6S.dispComplete)

theorem St.W6S.cacheRefresh {s t : St} (h : St.W6S s t) (r : Nat) :
    St.W6S s (t.cacheRefresh r) := by
  w6st_s_unfold St.cacheRefresh
macro_rules | `(tactic| w6st_s1) => `(tactic| with_reducible apply St.W6S.cacheRefresh)

theorem St.W6S.lookupHandlers {s t : St} (h : St.W6S s t) (r : Nat) (name : Name) (chans : List Chan) :
    St.W6S s ((t.lookupHandlers r name chans).2) := by
  w6st_s_unfold St.lookupHandlers
macro_rules | `(tactic| w6st_s1) => `(tactic| with_reducible apply St.W6S.lookupHandlers)

theorem St.W6S.dispGE {s t : St} (h : St.W6S s t) (r e remaining : Nat) (name : Name) :
    St.W6S s (t.dispGE r e remaining name) := by
  w6st_s_unfold St.dispGE
macro_rules | `(tactic| w6st_s1) => `(tactic| with_reducible apply St.W6S.dispGE)

theorem St.W6S.dispatchPre {s t : St} (h : St.W6S s t) (r e remaining : Nat) :
    St.W6S s ((t.dispatchPre r e remaining).2) := by
  w6st_s_unfold St.dispatchPre
macro_rules | `(tactic| w6st_s1) => `(tactic| with_reducible apply St.W6S.dispatchPre)

theorem St.W6S.handlerRaised {s t : St} (h : St.W6S s t) (r e : Nat) :
    St.W6S s (t.handlerRaised r e) := by
  w6st_s_unfold St.handlerRaised
macro_rules | `(tactic| w6st_s1) => `(tactic| with_reducible apply St.W6S.handlerRaised)

theorem St.W6S.applyValue {s t : St} (h : St.W6S s t) (r e : Nat) (value : Outcome) :
    St.W6S s (t.applyValue r e value) := by
  w6st_s_unfold St.applyValue
macro_rules | `(tactic| w6st_s1) => `(tactic| with_reducible apply St.W6S.applyValue)

theorem St.W6S.geTasksCheck {s t : St} (h : St.W6S s t) (r e : Nat) :
    St.W6S s (t.geTasksCheck r e) := by
  w6st_s_unfold St.geTasksCheck
macro_rules | `(tactic| w6st_s1) => `(tactic| with_reducible apply St.W6S.geTasksCheck)

theorem St.W6S.flushBegin {s t : St} (h : St.W6S s t) (r : Nat) :
    St.W6S s (t.flushBegin r) := by
  w6st_s_unfold St.flushBegin
macro_rules | `(tactic| w6st_s1) => `(tactic| with_reducible apply St.W6S.flushBegin)

theorem St.W6S.tickGenerate {s t : St} (h : St.W6S s t) (c : Nat) :
    St.W6S s (t.tickGenerate c) := by
  w6st_s_unfold St.tickGenerate
macro_rules | `(tactic| w6st_s1) => `(tactic| with_reducible apply St.W6S.tickGenerate)

theorem St.W6S.runBegin {s t : St} (h : St.W6S s t) (c : Nat) :
    St.W6S s (t.runBegin c) := by
  w6st_s_unfold St.runBegin
macro_rules | `(tactic| w6st_s1) => `(tactic| with_reducible apply St.W6S.runBegin)

theorem St.W6S.runEnd {s t : St} (h : St.W6S s t) (c : Nat) :
    St.W6S s ((t.runEnd c).2) := by
  w6st_s_unfold St.runEnd
macro_rules | `(tactic| w6st_s1) => `(tactic| with_reducible apply St.W6S.runEnd)

theorem St.W6S.actStep {s t : St} (h : St.W6S s t) (ctx : HCtx) (a : Act) : St.W6S s (actStep t ctx a).st := by
  cases a <;> (unfold CV.Core.actStep; (try dsimp only); w6st_s)
macro_rules | `(tactic| w6st_s1) => `(tactic| with_reducible apply St.W6S.actStep)

/-! ## the arms of `step` -/

macro_rules
  | `(tactic| w6st_s1) => `(tactic| simp only [Cfg.pop_st, Cfg.popRet_st, Cfg.raise_st, Cfg.goto_st])

theorem Cfg.w6_effectDone_s (c : Cfg) (k : List Frame) (r e : Nat) (announce : Bool) :
    St.W6S c.st (c.effectDone k r e announce).st := by
  unfold Cfg.effectDone; (try dsimp only); w6st_s
macro_rules | `(tactic| w6st_s1) => `(tactic| with_reducible exact Cfg.w6_effectDone_s ..)

theorem Cfg.w6_eventDone_s (c : Cfg) (k : List Frame) (r e : Nat) (err : Bool) :
    St.W6S c.st (c.eventDone k r e err).st := by
  unfold Cfg.eventDone; (try dsimp only); w6st_s
macro_rules | `(tactic| w6st_s1) => `(tactic| with_reducible exact Cfg.w6_eventDone_s ..)

theorem St.W6S.updateRootAll (s : St) : ∀ (fuel : Nat) (todo : List Nat) (root : Nat) (t : St),
    St.W6S s t → St.W6S s (St.updateRootAll fuel todo root t) := by
  intro fuel
  induction fuel with
  | zero => intro todo root t h; simpa [St.updateRootAll] using h
  | succ n ih =>
    intro todo root t h
    cases todo with
    | nil => simpa [St.updateRootAll] using h
    | cons x rest =>
      simp only [St.updateRootAll]
      apply ih
      w6st_s

macro_rules | `(tactic| w6st_s1) => `(tactic| with_reducible apply St.W6S.updateRootAll)

theorem Cfg.w6_updateRoot_s (c : Cfg) (k : List Frame) (todo : List Nat) (root : Nat) :
    St.W6S c.st (c.updateRoot k todo root).st := by
  unfold Cfg.updateRoot; (try dsimp only)
  simp only [Cfg.pop_st]
  exact St.W6S.updateRootAll _ _ _ _ _ (St.W6S.refl _)
macro_rules | `(tactic| w6st_s1) => `(tactic| with_reducible exact Cfg.w6_updateRoot_s ..)

theorem Cfg.w6_register_s (c : Cfg) (k : List Frame) (x p : Nat) :
    St.W6S c.st (c.register k x p).st := by
  unfold Cfg.register; (try dsimp only); w6st_s
macro_rules | `(tactic| w6st_s1) => `(tactic| with_reducible exact Cfg.w6_register_s ..)

theorem Cfg.w6_registerFin_s (c : Cfg) (k : List Frame) (x : Nat) :
    St.W6S c.st (c.registerFin k x).st := by
  unfold Cfg.registerFin; (try dsimp only); w6st_s
macro_rules | `(tactic| w6st_s1) => `(tactic| with_reducible exact Cfg.w6_registerFin_s ..)

theorem Cfg.w6_prepUnregFin_s (c : Cfg) (k : List Frame) (x : Nat) :
    St.W6S c.st (c.prepUnregFin k x).st := by
  unfold Cfg.prepUnregFin; (try dsimp only); w6st_s
macro_rules | `(tactic| w6st_s1) => `(tactic| with_reducible exact Cfg.w6_prepUnregFin_s ..)

theorem Cfg.w6_stopMgr_s (c : Cfg) (k : List Frame) (x : Nat) (code : Code) :
    St.W6S c.st (c.stopMgr k x code).st := by
  unfold Cfg.stopMgr; (try dsimp only); w6st_s
macro_rules | `(tactic| w6st_s1) => `(tactic| with_reducible exact Cfg.w6_stopMgr_s ..)

theorem Cfg.w6_ticks_s (c : Cfg) (k : List Frame) (x n : Nat) :
    St.W6S c.st (c.ticks k x n).st := by
  unfold Cfg.ticks; (try dsimp only); w6st_s
macro_rules | `(tactic| w6st_s1) => `(tactic| with_reducible exact Cfg.w6_ticks_s ..)

theorem Cfg.w6_stopFin_s (c : Cfg) (k : List Frame) (code : Code) :
    St.W6S c.st (c.stopFin k code).st := by
  unfold Cfg.stopFin; (try dsimp only); w6st_s
macro_rules | `(tactic| w6st_s1) => `(tactic| with_reducible exact Cfg.w6_stopFin_s ..)

theorem Cfg.w6_timerNew_s (c : Cfg) (k : List Frame) (i : Nat) :
    St.W6S c.st (c.timerNew k i).st := by
  unfold Cfg.timerNew; (try dsimp only); w6st_s
macro_rules | `(tactic| w6st_s1) => `(tactic| with_reducible exact Cfg.w6_timerNew_s ..)

theorem Cfg.w6_acts_s (c : Cfg) (k : List Frame) (ctx : HCtx) (prog : Prog) :
    St.W6S c.st (c.acts k ctx prog).st := by
  unfold Cfg.acts; (try dsimp only); w6st_s
macro_rules | `(tactic| w6st_s1) => `(tactic| with_reducible exact Cfg.w6_acts_s ..)

theorem Cfg.w6_doFin_s (c : Cfg) (k : List Frame) (x : Nat) :
    St.W6S c.st (c.doFin k x).st := by
  unfold Cfg.doFin; (try dsimp only); w6st_s
macro_rules | `(tactic| w6st_s1) => `(tactic| with_reducible exact Cfg.w6_doFin_s ..)

theorem Cfg.w6_drainQ_s (c : Cfg) (k : List Frame) (x : Nat) :
    St.W6S c.st (c.drainQ k x).st := by
  unfold Cfg.drainQ; (try dsimp only); w6st_s
macro_rules | `(tactic| w6st_s1) => `(tactic| with_reducible exact Cfg.w6_drainQ_s ..)

theorem Cfg.w6_stepGen_s (c : Cfg) (k : List Frame) (g : Nat) :
    St.W6S c.st (c.stepGen k g).st := by
  unfold Cfg.stepGen; (try dsimp only); w6st_s
macro_rules | `(tactic| w6st_s1) => `(tactic| with_reducible exact Cfg.w6_stepGen_s ..)

theorem Cfg.w6_processTask_s (c : Cfg) (k : List Frame) (r : Nat) (x : Task) :
    St.W6S c.st (c.processTask k r x).st := by
  unfold Cfg.processTask; (try dsimp only); w6st_s
macro_rules | `(tactic| w6st_s1) => `(tactic| with_reducible exact Cfg.w6_processTask_s ..)

theorem Cfg.w6_contStop_s {s0 : St} (c : Cfg) (k : List Frame) (s : St) (r : Nat) (x : Task) (hle : St.W6S s0 s) :
    St.W6S s0 (c.contStop k s r x).st := by
  unfold Cfg.contStop; (try dsimp only); w6st_s
macro_rules | `(tactic| w6st_s1) => `(tactic| with_reducible apply Cfg.w6_contStop_s)

theorem Cfg.w6_contError_s {s0 : St} (c : Cfg) (k : List Frame) (s : St) (r : Nat) (x : Task) (resumed : Bool) (hle : St.W6S s0 s) :
    St.W6S s0 (c.contError k s r x resumed).st := by
  unfold Cfg.contError; (try dsimp only); w6st_s
macro_rules | `(tactic| w6st_s1) => `(tactic| with_reducible apply Cfg.w6_contError_s)

theorem Cfg.w6_ptBodyWait_s (c : Cfg) (k : List Frame) (r : Nat) (x : Task) (w : Nat) :
    St.W6S c.st (c.ptBodyWait k r x w).st := by
  unfold Cfg.ptBodyWait; (try dsimp only); w6st_s
macro_rules | `(tactic| w6st_s1) => `(tactic| with_reducible exact Cfg.w6_ptBodyWait_s ..)

theorem Cfg.w6_ptBodyExc_s (c : Cfg) (k : List Frame) (r : Nat) (x : Task) (w : Nat) (fired : Bool) :
    St.W6S c.st (c.ptBodyExc k r x w fired).st := by
  unfold Cfg.ptBodyExc; (try dsimp only); w6st_s
macro_rules | `(tactic| w6st_s1) => `(tactic| with_reducible exact Cfg.w6_ptBodyExc_s ..)

theorem Cfg.w6_ptBody_s (c : Cfg) (k : List Frame) (r : Nat) (x : Task) :
    St.W6S c.st (c.ptBody k r x).st := by
  unfold Cfg.ptBody; (try dsimp only); w6st_s
macro_rules | `(tactic| w6st_s1) => `(tactic| with_reducible exact Cfg.w6_ptBody_s ..)

theorem Cfg.w6_ptOwn_s (c : Cfg) (k : List Frame) (r : Nat) (x : Task) :
    St.W6S c.st (c.ptOwn k r x).st := by
  unfold Cfg.ptOwn; (try dsimp only); w6st_s
macro_rules | `(tactic| w6st_s1) => `(tactic| with_reducible exact Cfg.w6_ptOwn_s ..)

theorem Cfg.w6_ptParent_s (c : Cfg) (k : List Frame) (r : Nat) (x : Task) (p : Nat) (viaThrow : Bool) :
    St.W6S c.st (c.ptParent k r x p viaThrow).st := by
  unfold Cfg.ptParent; (try dsimp only); w6st_s
macro_rules | `(tactic| w6st_s1) => `(tactic| with_reducible exact Cfg.w6_ptParent_s ..)

theorem Cfg.w6_ptFin_s (c : Cfg) (k : List Frame) (r : Nat) (handling : Option Nat) :
    St.W6S c.st (c.ptFin k r handling).st := by
  unfold Cfg.ptFin; (try dsimp only); w6st_s
macro_rules | `(tactic| w6st_s1) => `(tactic| with_reducible exact Cfg.w6_ptFin_s ..)

theorem Cfg.w6_dispatcher_s (c : Cfg) (k : List Frame) (r e remaining : Nat) :
    St.W6S c.st (c.dispatcher k r e remaining).st := by
  unfold Cfg.dispatcher; (try dsimp only); w6st_s
macro_rules | `(tactic| w6st_s1) => `(tactic| with_reducible exact Cfg.w6_dispatcher_s ..)

theorem Cfg.w6_hLoop_s (c : Cfg) (k : List Frame) (r e : Nat) (hs : List Nat) (err : Bool) (stale : Outcome) :
    St.W6S c.st (c.hLoop k r e hs err stale).st := by
  unfold Cfg.hLoop; (try dsimp only); w6st_s
macro_rules | `(tactic| w6st_s1) => `(tactic| with_reducible exact Cfg.w6_hLoop_s ..)

theorem Cfg.w6_invokeUser_s {s0 : St} (c : Cfg) (k : List Frame) (s : St) (h e owner p : Nat) (hle : St.W6S s0 s) :
    St.W6S s0 (c.invokeUser k s h e owner p).st := by
  unfold Cfg.invokeUser; (try dsimp only); w6st_s
macro_rules | `(tactic| w6st_s1) => `(tactic| with_reducible apply Cfg.w6_invokeUser_s)

theorem Cfg.w6_invoke_s (c : Cfg) (k : List Frame) (r h e : Nat) :
    St.W6S c.st (c.invoke k r h e).st := by
  unfold Cfg.invoke; (try dsimp only); w6st_s
macro_rules | `(tactic| w6st_s1) => `(tactic| with_reducible exact Cfg.w6_invoke_s ..)

theorem Cfg.w6_invokeFin_s (c : Cfg) (k : List Frame) (e h : Nat) :
    St.W6S c.st (c.invokeFin k e h).st := by
  unfold Cfg.invokeFin; (try dsimp only); w6st_s
macro_rules | `(tactic| w6st_s1) => `(tactic| with_reducible exact Cfg.w6_invokeFin_s ..)

theorem Cfg.w6_hAfter_s (c : Cfg) (k : List Frame) (r e : Nat) (rest : List Nat) (err : Bool) (stale : Outcome) :
    St.W6S c.st (c.hAfter k r e rest err stale).st := by
  unfold Cfg.hAfter; (try dsimp only); w6st_s
macro_rules | `(tactic| w6st_s1) => `(tactic| with_reducible exact Cfg.w6_hAfter_s ..)

theorem Cfg.w6_hApply_s (c : Cfg) (k : List Frame) (r e : Nat) (rest : List Nat) (err : Bool) (value : Outcome) :
    St.W6S c.st (c.hApply k r e rest err value).st := by
  unfold Cfg.hApply; (try dsimp only); w6st_s
macro_rules | `(tactic| w6st_s1) => `(tactic| with_reducible exact Cfg.w6_hApply_s ..)

theorem Cfg.w6_dispFin_s (c : Cfg) (k : List Frame) (r e : Nat) (err : Bool) :
    St.W6S c.st (c.dispFin k r e err).st := by
  unfold Cfg.dispFin; (try dsimp only); w6st_s
macro_rules | `(tactic| w6st_s1) => `(tactic| with_reducible exact Cfg.w6_dispFin_s ..)

theorem Cfg.w6_dispatchLoop_s (c : Cfg) (k : List Frame) (r : Nat) :
    St.W6S c.st (c.dispatchLoop k r).st := by
  unfold Cfg.dispatchLoop; (try dsimp only); w6st_s
macro_rules | `(tactic| w6st_s1) => `(tactic| with_reducible exact Cfg.w6_dispatchLoop_s ..)

theorem Cfg.w6_flush_s (c : Cfg) (k : List Frame) (x : Nat) :
    St.W6S c.st (c.flush k x).st := by
  unfold Cfg.flush; (try dsimp only); w6st_s
macro_rules | `(tactic| w6st_s1) => `(tactic| with_reducible exact Cfg.w6_flush_s ..)

theorem Cfg.w6_flushFin_s (c : Cfg) (k : List Frame) (r : Nat) (old : Bool) :
    St.W6S c.st (c.flushFin k r old).st := by
  unfold Cfg.flushFin; (try dsimp only); w6st_s
macro_rules | `(tactic| w6st_s1) => `(tactic| with_reducible exact Cfg.w6_flushFin_s ..)

theorem Cfg.w6_tick_s (c : Cfg) (k : List Frame) (x : Nat) :
    St.W6S c.st (c.tick k x).st := by
  unfold Cfg.tick; (try dsimp only); w6st_s
macro_rules | `(tactic| w6st_s1) => `(tactic| with_reducible exact Cfg.w6_tick_s ..)

theorem Cfg.w6_taskLoop_s (c : Cfg) (k : List Frame) (x : Nat) (ts : List Task) :
    St.W6S c.st (c.taskLoop k x ts).st := by
  unfold Cfg.taskLoop; (try dsimp only); w6st_s
macro_rules | `(tactic| w6st_s1) => `(tactic| with_reducible exact Cfg.w6_taskLoop_s ..)

theorem Cfg.w6_tickFin_s (c : Cfg) (k : List Frame) (x : Nat) (old : Bool) :
    St.W6S c.st (c.tickFin k x old).st := by
  unfold Cfg.tickFin; (try dsimp only); w6st_s
macro_rules | `(tactic| w6st_s1) => `(tactic| with_reducible exact Cfg.w6_tickFin_s ..)

theorem Cfg.w6_tickGen_s (c : Cfg) (k : List Frame) (x : Nat) :
    St.W6S c.st (c.tickGen k x).st := by
  unfold Cfg.tickGen; (try dsimp only); w6st_s
macro_rules | `(tactic| w6st_s1) => `(tactic| with_reducible exact Cfg.w6_tickGen_s ..)

theorem Cfg.w6_run_s (c : Cfg) (k : List Frame) (x : Nat) :
    St.W6S c.st (c.run k x).st := by
  unfold Cfg.run; (try dsimp only); w6st_s
macro_rules | `(tactic| w6st_s1) => `(tactic| with_reducible exact Cfg.w6_run_s ..)

theorem Cfg.w6_runLoop_s (c : Cfg) (k : List Frame) (x : Nat) :
    St.W6S c.st (c.runLoop k x).st := by
  unfold Cfg.runLoop; (try dsimp only); w6st_s
macro_rules | `(tactic| w6st_s1) => `(tactic| with_reducible exact Cfg.w6_runLoop_s ..)

theorem Cfg.w6_runFin_s (c : Cfg) (k : List Frame) (x : Nat) :
    St.W6S c.st (c.runFin k x).st := by
  unfold Cfg.runFin; (try dsimp only); w6st_s
macro_rules | `(tactic| w6st_s1) => `(tactic| with_reducible exact Cfg.w6_runFin_s ..)

theorem Cfg.w6_runCatchExn_s (c : Cfg) (k : List Frame) (x : Nat) (ex : Exn) :
    St.W6S c.st (c.runCatchExn k x ex).st := by
  unfold Cfg.runCatchExn; (try dsimp only); w6st_s
macro_rules | `(tactic| w6st_s1) => `(tactic| with_reducible exact Cfg.w6_runCatchExn_s ..)

theorem Cfg.w6_runRethrow_s (c : Cfg) (k : List Frame) (ex : Exn) :
    St.W6S c.st (c.runRethrow k ex).st := by
  unfold Cfg.runRethrow; (try dsimp only); w6st_s
macro_rules | `(tactic| w6st_s1) => `(tactic| with_reducible exact Cfg.w6_runRethrow_s ..)

/-! ## the transition function -/

theorem w6_stepFrame_s (c : Cfg) (k : List Frame) (f : Frame) : St.W6S c.st (stepFrame c k f).st := by
  cases f <;> (dsimp only [stepFrame]; w6st_s)

theorem w6_unwind_s (c : Cfg) (k : List Frame) (ex : Exn) (f : Frame) : St.W6S c.st (unwind c k ex f).st := by
  cases f <;> (dsimp only [unwind]; w6st_s)


theorem w6_step_s (c : Cfg) : St.W6S c.st (step c).st := by
  unfold step
  split
  · exact St.W6S.refl _
  · split
    · exact w6_unwind_s ..
    · exact w6_stepFrame_s ..

end CV.Core

import CV.Proofs.NodeTwoSteps
/-
C19, two-party composition: what the invariant says about the observations.
-/
namespace CV
namespace Node

theorem n2_poll_wires (E : n2_Env) (w : n2_World) (n : Nat) :
    (n2_step E w (.poll n)).ab = w.ab ∧ (n2_step E w (.poll n)).ba = w.ba := by
  simp only [n2_step]
  split
  · split <;> exact ⟨rfl, rfl⟩
  · exact ⟨rfl, rfl⟩

theorem n2_polls_wires (E : n2_Env) (l : List Nat) :
    ∀ w : n2_World, (n2_run E w (l.map n2_Step.poll)).ab = w.ab ∧
      (n2_run E w (l.map n2_Step.poll)).ba = w.ba := by
  induction l with
  | nil => intro w; exact ⟨rfl, rfl⟩
  | cons n l ih =>
    intro w
    have h1 := n2_poll_wires E w n
    have h2 := ih (n2_step E w (.poll n))
    simp only [List.map_cons, n2_run, List.foldl_cons] at h2 ⊢
    exact ⟨h2.1.trans h1.1, h2.2.trans h1.2⟩

section
variable {E : n2_Env} {calls : List Ev}

/-- polling a list of generators -/
theorem n2_inv_polls (l : List Nat) :
    ∀ {w : n2_World} {s kB kA : Nat} {ao yo : List Nat}, n2_Inv E calls w s kB kA ao yo →
      ∃ yo', n2_Inv E calls (n2_run E w (l.map n2_Step.poll)) s kB kA ao yo' ∧ (∀ i ∈ yo, i ∈ yo') ∧
        (∀ n ∈ l, n < s → n ∈ ao.take kA → n ∈ yo') := by
  induction l with
  | nil => intro w s kB kA ao yo I; exact ⟨yo, I, fun i hi => hi, by simp⟩
  | cons n l ih =>
    intro w s kB kA ao yo I
    obtain ⟨yo1, I1, hsub1, hn1⟩ := n2_inv_poll' I n
    obtain ⟨yo2, I2, hsub2, hn2⟩ := ih I1
    refine ⟨yo2, I2, fun i hi => hsub2 i (hsub1 i hi), ?_⟩
    intro k hk hks hkD
    rcases List.mem_cons.mp hk with rfl | h
    · exact hsub2 _ (hn1 hks hkD)
    · exact hn2 k h hks hkD

/-- safety, at every moment of every schedule -/
theorem n2_safety {w : n2_World} (h : n2_Reach E calls w) :
    w.fired <+: (List.range calls.length).map (n2_expFire E calls) ∧
    (∃ order : List Nat, order.Nodup ∧ (∀ i ∈ order, i < w.fired.length) ∧
        w.resolved = order.map (n2_expRes E calls)) ∧
    (∃ yo : List Nat, yo.Nodup ∧ (∀ i ∈ yo, n2_expRes E calls i ∈ w.resolved) ∧
        w.yielded = yo.map (n2_expYield E calls)) ∧
    w.aborted = false := by
  obtain ⟨s, kB, kA, ao, yo, I⟩ := h
  refine ⟨?_, ⟨ao.take kA, ?_, ?_, I.resolved⟩, ⟨yo, I.yoN, ?_, I.yielded⟩, I.nab⟩
  · rw [I.fired, n2_range_split calls.length kB (Nat.le_trans I.kBs I.hs), List.map_append]
    exact List.prefix_append _ _
  · exact List.Nodup.sublist (List.take_sublist _ _) I.aoN
  · intro i hi
    rw [I.fired]; simpa using I.aoLt i (List.mem_of_mem_take hi)
  · intro i hi
    rw [I.resolved]
    exact List.mem_map.mpr ⟨i, I.yoSub i hi, rfl⟩

/-- the ghost parameters of a quiescent world -/
theorem n2_quiescent_ghost (H : n2_Hyp E calls) {w : n2_World} {s kB kA : Nat} {ao yo : List Nat}
    (I : n2_Inv E calls w s kB kA ao yo) (q : n2_Quiescent w) :
    s = calls.length ∧ kB = calls.length ∧ kA = ao.length ∧ ao.Perm (List.range calls.length) ∧
      w.a.buf = [] ∧ w.b.buf = [] := by
  obtain ⟨q1, q2, q3, q4⟩ := q
  have hs : s = calls.length := by
    have h := I.todo
    rw [q1] at h
    have := List.drop_eq_nil_iff.mp h.symm
    have := I.hs
    omega
  have hGB : ∀ p ∈ (List.range s).map (n2_callPkt E calls), Good E.proc p := by
    intro p hp
    obtain ⟨i, hi, rfl⟩ := List.mem_map.mp hp
    exact H.callGood i (by have := List.mem_range.mp hi; have := I.hs; omega)
  have hB := I.rxB
  rw [q2] at hB
  obtain ⟨hbbuf, hBout⟩ := n2_rx_done H.codec hGB hB
  have hkB : kB = s := by
    have := congrArg List.length hBout
    simpa using this
  have haoN : ∀ i ∈ ao, i < calls.length := by
    intro i hi
    have := I.aoLt i hi; have := I.kBs; have := I.hs; omega
  have hGA : ∀ p ∈ ao.map (n2_ansPkt E calls), Good E.proc p := by
    intro p hp
    obtain ⟨i, hi, rfl⟩ := List.mem_map.mp hp
    exact H.ansGood i (haoN i hi)
  have hA := I.rxA
  rw [q3] at hA
  obtain ⟨habuf, hAout⟩ := n2_rx_done H.codec hGA hA
  have hkA : kA = ao.length := by
    have := congrArg List.length hAout
    simp at this
    have := I.kAle
    omega
  have hall : ∀ i, i < kB → i ∈ ao := by
    intro i hi
    have h := I.running
    rw [q4] at h
    have h2 : (List.range kB).filter (fun i => !decide (i ∈ ao)) = [] := by
      simpa using h.symm
    have := List.filter_eq_nil_iff.mp h2 i (List.mem_range.mpr hi)
    simpa using this
  refine ⟨hs, by omega, hkA, ?_, habuf, hbbuf⟩
  rw [List.perm_ext_iff_of_nodup I.aoN List.nodup_range]
  intro i
  constructor
  · intro hi; exact List.mem_range.mpr (haoN i hi)
  · intro hi; exact hall i (by have := List.mem_range.mp hi; omega)

/-- completion: nothing in flight, every handler returned -/
theorem n2_complete (H : n2_Hyp E calls) {w : n2_World} (h : n2_Reach E calls w) (q : n2_Quiescent w) :
    w.fired = (List.range calls.length).map (n2_expFire E calls) ∧
    w.resolved.Perm ((List.range calls.length).map (n2_expRes E calls)) ∧
    (∀ p ∈ w.a.pending, p.finished = true ∧ p.id < calls.length ∧
        p.values = [n2_val E calls p.id] ∧ p.errors = n2_errs E calls p.id) ∧
    w.a.buf = [] ∧ w.b.buf = [] ∧ w.b.pending = [] ∧ w.aborted = false := by
  obtain ⟨s, kB, kA, ao, yo, I⟩ := h
  obtain ⟨hs, hkB, hkA, hperm, habuf, hbbuf⟩ := n2_quiescent_ghost H I q
  have htake : ao.take kA = ao := by rw [hkA]; exact List.take_length
  refine ⟨by rw [I.fired, hkB], ?_, ?_, habuf, hbbuf, I.bpend, I.nab⟩
  · rw [I.resolved, htake]
    exact hperm.map _
  · intro p hp
    rw [I.pending, htake] at hp
    obtain ⟨i, hi, rfl⟩ := List.mem_map.mp hp
    have hi' : i < s := by
      have := (List.mem_filter.mp hi).1
      exact List.mem_range.mp this
    have hiao : i ∈ ao := hperm.mem_iff.mpr (List.mem_range.mpr (by omega))
    simp [n2_expPend, hiao]
    omega

/-- completion, after every generator has been resumed once more: no residue -/
theorem n2_complete_polled (H : n2_Hyp E calls) {w : n2_World} (h : n2_Reach E calls w)
    (q : n2_Quiescent w) :
    (n2_run E w ((List.range calls.length).map n2_Step.poll)).a.pending = [] ∧
    (n2_run E w ((List.range calls.length).map n2_Step.poll)).yielded.Perm
      ((List.range calls.length).map (n2_expYield E calls)) ∧
    n2_Quiescent (n2_run E w ((List.range calls.length).map n2_Step.poll)) ∧
    n2_Reach E calls (n2_run E w ((List.range calls.length).map n2_Step.poll)) := by
  obtain ⟨s, kB, kA, ao, yo, I⟩ := h
  obtain ⟨hs, hkB, hkA, hperm, habuf, hbbuf⟩ := n2_quiescent_ghost H I q
  have htake : ao.take kA = ao := by rw [hkA]; exact List.take_length
  obtain ⟨yo', I', _, hall⟩ := n2_inv_polls (List.range calls.length) I
  have hyall : ∀ i, i < calls.length → i ∈ yo' := by
    intro i hi
    apply hall i (List.mem_range.mpr hi) (by omega)
    rw [htake]
    exact hperm.mem_iff.mpr (List.mem_range.mpr hi)
  have hq' : n2_Quiescent (n2_run E w ((List.range calls.length).map n2_Step.poll)) := by
    refine ⟨?_, ?_, ?_, ?_⟩
    · rw [I'.todo, ← I.todo]; exact q.1
    · rw [(n2_polls_wires E _ w).1]; exact q.2.1
    · rw [(n2_polls_wires E _ w).2]; exact q.2.2.1
    · rw [I'.running, ← I.running]; exact q.2.2.2
  refine ⟨?_, ?_, hq', ⟨s, kB, kA, ao, yo', I'⟩⟩
  · rw [I'.pending]
    have : (List.range s).filter (fun i => !decide (i ∈ yo')) = [] := by
      apply List.filter_eq_nil_iff.mpr
      intro i hi
      have := hyall i (by have := List.mem_range.mp hi; omega)
      simpa using this
    rw [this]; rfl
  · rw [I'.yielded]
    apply List.Perm.map
    rw [List.perm_ext_iff_of_nodup I'.yoN List.nodup_range]
    intro i
    constructor
    · intro hi
      have := I'.aoLt i (List.mem_of_mem_take (I'.yoSub i hi))
      exact List.mem_range.mpr (by omega)
    · intro hi; exact hyall i (List.mem_range.mp hi)

end

end Node
end CV

import CV.Proofs.HttpResp
/-
C15: the header block the model renders is read back exactly by the RFC reader.
-/
namespace CV
namespace HttpResp
open CV.HttpSpec

theorem takeWhile_append_stop {α} (p : α → Bool) : ∀ (l : List α) (x : α) (r : List α),
    (∀ a ∈ l, p a = true) → p x = false → (l ++ x :: r).takeWhile p = l := by
  intro l; induction l with
  | nil => intro x r _ hx; simp [List.takeWhile, hx]
  | cons a l ih =>
    intro x r h hx
    simp only [List.cons_append, List.takeWhile, h a (by simp)]
    rw [ih x r (fun b hb => h b (by simp [hb])) hx]

theorem dropWhile_append_stop {α} (p : α → Bool) : ∀ (l : List α) (x : α) (r : List α),
    (∀ a ∈ l, p a = true) → p x = false → (l ++ x :: r).dropWhile p = x :: r := by
  intro l; induction l with
  | nil => intro x r _ hx; simp [List.dropWhile, hx]
  | cons a l ih =>
    intro x r h hx
    simp only [List.cons_append, List.dropWhile, h a (by simp)]
    exact ih x r (fun b hb => h b (by simp [hb])) hx

/-- a header the reader returns unchanged -/
def wfHeader (h : Bytes × Bytes) : Bool :=
  !h.1.isEmpty && h.1.all (fun c => c != 58 && c != 10 && !isWs c) && h.2.all (fun c => c != 10)
    && trim h.2 == h.2

theorem parseField_line (h : Bytes × Bytes) (hw : wfHeader h = true) :
    parseField (h.1 ++ [COLON, SP] ++ h.2) = some h := by
  simp only [wfHeader, Bool.and_eq_true, Bool.not_eq_true', List.all_eq_true, bne_iff_ne, ne_eq,
    beq_iff_eq] at hw
  obtain ⟨⟨⟨hne, hn⟩, _⟩, ht⟩ := hw
  have hp : ∀ a ∈ h.1, (fun c : UInt8 => c != 58) a = true := by
    intro a ha; simpa using (hn a ha).1.1
  have hshape : h.1 ++ [COLON, SP] ++ h.2 = h.1 ++ (58 : UInt8) :: (32 :: h.2) := by
    simp [COLON, SP]
  unfold parseField
  rw [hshape, takeWhile_append_stop _ h.1 58 _ hp (by decide), dropWhile_append_stop _ h.1 58 _ hp (by decide)]
  have hws : h.1.any isWs = false := by
    rw [List.any_eq_false]
    intro a ha
    simpa using (hn a ha).2
  have htrim : trim (32 :: h.2) = h.2 := by
    have : trimLeft (32 :: h.2) = trimLeft h.2 := by
      simp [trimLeft, List.dropWhile, isWs]
    unfold trim
    rw [this]
    exact ht
  simp [hne, hws, htrim]

theorem renderHeader_shape (h : Bytes × Bytes) (rest : Bytes) :
    renderHeader h ++ rest = (h.1 ++ [COLON, SP] ++ h.2) ++ 13 :: 10 :: rest := by
  simp [renderHeader, CRLF]

theorem line_noLF (h : Bytes × Bytes) (hw : wfHeader h = true) :
    ∀ c ∈ h.1 ++ [COLON, SP] ++ h.2, c ≠ 10 := by
  simp only [wfHeader, Bool.and_eq_true, Bool.not_eq_true', List.all_eq_true, bne_iff_ne, ne_eq,
    beq_iff_eq] at hw
  obtain ⟨⟨⟨_, hn⟩, hv⟩, _⟩ := hw
  intro c hc
  simp only [List.append_assoc, List.mem_append, List.mem_cons, List.mem_nil_iff, or_false] at hc
  rcases hc with hc | (hc | hc) | hc
  · exact (hn c hc).1.2
  · subst hc; decide
  · subst hc; decide
  · exact hv c hc

theorem parseFields_render : ∀ (hs : List (Bytes × Bytes)) (f : Nat) (rest : Bytes),
    hs.all wfHeader = true → hs.length < f →
    parseFields f (hs.flatMap renderHeader ++ 13 :: 10 :: rest) = some (hs, rest) := by
  intro hs
  induction hs with
  | nil =>
    intro f rest _ hf
    cases f with
    | zero => omega
    | succ f =>
      have := splitLine_append [] rest (by simp)
      simp only [List.nil_append] at this
      simp [parseFields, this]
  | cons h hs ih =>
    intro f rest hw hf
    cases f with
    | zero => simp at hf
    | succ f =>
      simp only [List.all_cons, Bool.and_eq_true] at hw
      simp only [List.flatMap_cons, List.append_assoc]
      rw [renderHeader_shape]
      unfold parseFields
      rw [splitLine_append _ _ (line_noLF h hw.1)]
      have hne : (h.1 ++ [COLON, SP] ++ h.2).isEmpty = false := by simp
      simp only [hne, Bool.false_eq_true, if_false, parseField_line h hw.1]
      rw [ih f rest hw.2 (by simp at hf; omega)]

theorem length_le_flatMap_renderHeader : ∀ hs : List (Bytes × Bytes),
    hs.length ≤ (hs.flatMap renderHeader).length := by
  intro hs
  induction hs with
  | nil => simp
  | cons h hs ih => simp [List.flatMap_cons, renderHeader, CRLF] at ih ⊢; omega

theorem digits3 (n : Nat) (h1 : 100 ≤ n) (h2 : n ≤ 999) :
    digits 10 n = [n / 100, n / 10 % 10, n % 10] := by
  obtain ⟨f, hf⟩ : ∃ f, n + 1 = f + 3 := ⟨n - 2, by omega⟩
  unfold digits
  rw [hf]
  have a1 : ¬ n < 10 := by omega
  have a2 : ¬ n / 10 < 10 := by omega
  have a3 : n / 10 / 10 < 10 := by omega
  simp only [digitsRev, a1, a2, a3, if_false, if_true, List.reverse_cons, List.reverse_nil,
    List.nil_append, List.cons_append]
  congr 1
  · omega

theorem decBytes3 (n : Nat) (h1 : 100 ≤ n) (h2 : n ≤ 999) :
    decBytes n = [digitByte (n / 100), digitByte (n / 10 % 10), digitByte (n % 10)] := by
  simp [decBytes, natBytes, digits3 n h1 h2]

/-- status line and headers the reader returns unchanged -/
def wfHead (status : Nat) (reason : Bytes) (hs : List (Bytes × Bytes)) : Bool :=
  decide (100 ≤ status) && decide (status ≤ 999) && reason.all (fun c => c != 10) && hs.all wfHeader

theorem parseHead_renderHead (v11 : Bool) (status : Nat) (reason : Bytes) (hs : List (Bytes × Bytes))
    (rest : Bytes) (hw : wfHead status reason hs = true) :
    parseHead (renderHead v11 status reason hs ++ rest)
      = some ({ v11 := v11, status := status, reason := reason, hdrs := hs }, rest) := by
  simp only [wfHead, Bool.and_eq_true, decide_eq_true_eq, List.all_eq_true, bne_iff_ne, ne_eq] at hw
  obtain ⟨⟨⟨h1, h2⟩, hr⟩, hh⟩ := hw
  have hp := parseNat_natBytes 10 status (by omega) (by omega)
  have hd := decBytes3 status h1 h2
  have hpd : parseNat 10 [digitByte (status / 100), digitByte (status / 10 % 10), digitByte (status % 10)]
      = some status := by
    have : natBytes 10 status = decBytes status := rfl
    rw [this, hd] at hp; exact hp
  have hshape : renderHead v11 status reason hs ++ rest
      = (sHTTP1 ++ [if v11 then 49 else 48] ++ [SP] ++ decBytes status ++ [SP] ++ reason)
        ++ 13 :: 10 :: (hs.flatMap renderHeader ++ 13 :: 10 :: rest) := by
    simp [renderHead, CRLF, List.append_assoc]
  have hnolf : ∀ c ∈ sHTTP1 ++ [if v11 then 49 else 48] ++ [SP] ++ decBytes status ++ [SP] ++ reason, c ≠ 10 := by
    intro c hc
    simp only [List.append_assoc, List.mem_append, List.mem_cons, List.mem_nil_iff, or_false] at hc
    rcases hc with hc | hc | hc | hc | hc | hc
    · revert hc; simp only [sHTTP1, List.mem_cons, List.mem_nil_iff, or_false]
      rintro (h | h | h | h | h | h | h) <;> subst h <;> decide
    · subst hc; cases v11 <;> decide
    · subst hc; decide
    · exact natBytes_noLF 10 status (by omega) (by omega) c hc
    · subst hc; decide
    · exact hr c hc
  unfold parseHead
  rw [hshape, splitLine_append _ _ hnolf]
  have hsl : parseStatusLine (sHTTP1 ++ [if v11 then 49 else 48] ++ [SP] ++ decBytes status ++ [SP] ++ reason)
      = some (v11, status, reason) := by
    rw [hd]
    simp only [sHTTP1, SP, List.cons_append, List.nil_append, List.append_assoc, parseStatusLine]
    rw [hpd]
    cases v11 <;> simp
  simp only [hsl]
  rw [parseFields_render hs _ rest (by simpa using hh)
    (by have := length_le_flatMap_renderHeader hs; simp only [List.length_append, List.length_cons]; omega)]

end HttpResp
end CV
